import QmiModel.Lemmas.C15Usbtmc
/-! Helper definitions and lemmas for the USBTMC read-side theorems of C15 (core Lean only). -/
namespace QmiModel.C15
open QmiModel Usbtmc

/-- One Bulk-IN transfer as a device may send it.  The upper attribute bits, the reserved bytes and the alignment
bytes are arbitrary; so are MsgID, bTag and bTagInverse in a tree that does not check them. -/
structure Piece where
  h0 : UInt8
  h1 : UInt8
  h2 : UInt8
  h3 : UInt8
  attr : UInt8
  r1 : UInt8
  r2 : UInt8
  r3 : UInt8
  payload : Bytes
  pad : Bytes

def Piece.bytes (p : Piece) : Bytes :=
  p.h0 :: p.h1 :: p.h2 :: p.h3 :: (le32 p.payload.length ++ (p.attr :: p.r1 :: p.r2 :: p.r3 :: (p.payload ++ p.pad)))

/-- bit 0 of bmTransferAttributes -/
def Piece.eom (p : Piece) : Bool := p.attr.toNat % 2 == 1

/-- the header answers the request with tag `tag` (USBTMC 1.0 Table 8) -/
def Piece.tagOk (p : Piece) (tag : Nat) : Prop :=
  p.h0.toNat = MSGID_REQUEST_DEV_DEP_MSG_IN ∧ p.h1.toNat = tag ∧ p.h2.toNat = invTag p.h1.toNat

/-- every piece answers its request — demanded only of a tree that checks (`cfg.checkHdr`) -/
def TagsOk (cfg : Cfg) : Nat → List Piece → Prop
  | _, [] => True
  | last, p :: ps => (cfg.checkHdr = true → p.tagOk (nextTag last)) ∧ TagsOk cfg (nextTag last) ps

theorem unpackResp_piece (p : Piece) (h : p.payload.length < 4294967296) :
    unpackResp p.bytes = some (p.h0, p.h1, p.h2, p.payload.length, p.attr, p.payload) := by
  simp [Piece.bytes, le32, unpackResp, unLe32_le32 _ h]

theorem unpackResp_short (resp : Bytes) (h : resp.length < 12) : unpackResp resp = none := by
  unfold unpackResp
  split
  · simp at h; omega
  · rfl

/-- the REQUEST_DEV_DEP_MSG_IN header `read_raw` sends -/
def inRequest (tag size : Nat) (termChar : Option UInt8) : Bytes :=
  bulkOutHeader MSGID_REQUEST_DEV_DEP_MSG_IN tag ++ le32 size ++
    (match termChar with
     | none => [0, 0, 0, 0]
     | some c => [2, c, 0, 0])

theorem packIn_ok (last size : Nat) (tc : Option UInt8) (h : size < 4294967296) :
    packIn last size tc = (nextTag last, .ok (inRequest (nextTag last) size tc)) := by
  cases tc <;> simp [packIn, h, inRequest]

/-- the loop state after the request for the next transfer went out -/
def rsReq (cfg : Cfg) (rs : RS) : RS :=
  { rs with last := nextTag rs.last,
            reqs := rs.reqs ++ [inRequest (nextTag rs.last) rs.readLen cfg.termChar],
            sizes := rs.sizes ++ [rs.readLen + HEADER_SIZE + 3] }

theorem reqStep_ok (cfg : Cfg) (rs : RS) (h : cfg.rigol = false ∨ rs.readData = []) (hlen : rs.readLen < 4294967296) :
    reqStep cfg rs = (rsReq cfg rs, none) := by
  have : (!cfg.rigol || rs.readData.isEmpty) = true := by
    rcases h with h | h <;> simp [h]
  simp only [reqStep, this, if_true, packIn_ok _ _ _ hlen, rsReq]

/-- the loop state after one more transfer carrying `payload` was taken in -/
def rsAfter (cfg : Cfg) (rs : RS) (payload : Bytes) : RS :=
  { rs with last := nextTag rs.last,
            reqs := rs.reqs ++ [inRequest (nextTag rs.last) rs.readLen cfg.termChar],
            sizes := rs.sizes ++ [rs.readLen + HEADER_SIZE + 3],
            readData := rs.readData ++ payload, ts := payload.length, data := payload }

/-- standard path: a well-formed transfer that answers the request is taken in whole -/
theorem absorb_piece (cfg : Cfg) (hr : cfg.rigol = false) (rs : RS) (p : Piece) (hp : p.payload.length < 4294967296)
    (hok : cfg.checkHdr = true → cfg.advantest = false → p.tagOk rs.last) :
    absorb cfg rs p.bytes = .ok (rs.readData ++ p.payload, p.eom, p.payload.length, p.payload) := by
  simp only [absorb, hr, Bool.false_and, Bool.false_eq_true, if_false, unpackResp_piece p hp]
  have hcond : (cfg.checkHdr && !cfg.advantest
      && (p.h0.toNat != MSGID_REQUEST_DEV_DEP_MSG_IN || p.h1.toNat != rs.last || p.h2.toNat != invTag p.h1.toNat)) = false := by
    cases hc : cfg.checkHdr with
    | false => simp
    | true =>
      cases hadv : cfg.advantest with
      | true => simp
      | false =>
        obtain ⟨h1, h2, h3⟩ := hok hc hadv
        simp [h1, h2, h3]
  simp only [hcond, Bool.false_eq_true, if_false, Nat.le_refl, ge_iff_le, if_true, Piece.eom]

/-- one loop iteration on a well-formed transfer, no quirks, `num ≤ 0` (read everything) -/
theorem readLoop_piece (cfg : Cfg) (hr : cfg.rigol = false) (ha : cfg.advantest = false) (rs : RS)
    (hnum : rs.num ≤ 0) (hlen : rs.readLen < 4294967296) (p : Piece) (hp : p.payload.length < 4294967296)
    (hok : cfg.checkHdr = true → p.tagOk (nextTag rs.last))
    (script : List Ev) :
    readLoop cfg rs (.data p.bytes :: script) =
      (if p.eom then { rs := rsAfter cfg rs p.payload, left := script, res := .ok (rs.readData ++ p.payload) }
       else readLoop cfg (rsAfter cfg rs p.payload) script) := by
  have hn : ¬ (rs.num > 0) := by omega
  rw [readLoop]
  have hab := absorb_piece cfg hr (rsReq cfg rs) p hp (fun hc _ => hok hc)
  simp only [reqStep_ok cfg rs (Or.inl hr) hlen, hab, ha, Bool.false_eq_true, if_false]
  simp only [rsReq, hn, false_and, if_false, rsAfter]

theorem readLoop_reassembles (cfg : Cfg) (hr : cfg.rigol = false) (ha : cfg.advantest = false) :
    ∀ (pieces : List Piece) (lastP : Piece) (extra : List Ev) (rs : RS),
      rs.num ≤ 0 → rs.readLen < 4294967296 →
      (∀ p ∈ pieces, p.eom = false ∧ p.payload.length < 4294967296) →
      lastP.eom = true → lastP.payload.length < 4294967296 →
      TagsOk cfg rs.last (pieces ++ [lastP]) →
      (readLoop cfg rs ((pieces ++ [lastP]).map (fun p => Ev.data p.bytes) ++ extra)).res
          = .ok (rs.readData ++ ((pieces ++ [lastP]).map Piece.payload).flatten)
      ∧ (readLoop cfg rs ((pieces ++ [lastP]).map (fun p => Ev.data p.bytes) ++ extra)).left = extra
      ∧ (readLoop cfg rs ((pieces ++ [lastP]).map (fun p => Ev.data p.bytes) ++ extra)).rs.reqs.length
          = rs.reqs.length + pieces.length + 1
      ∧ (readLoop cfg rs ((pieces ++ [lastP]).map (fun p => Ev.data p.bytes) ++ extra)).rs.last
          = tagAfter rs.last (pieces.length + 1) := by
  intro pieces
  induction pieces with
  | nil =>
    intro lastP extra rs hnum hlen _ he hp htags
    simp only [List.nil_append, List.map_cons, List.map_nil, List.cons_append]
    rw [readLoop_piece cfg hr ha rs hnum hlen lastP hp htags.1]
    simp [he, rsAfter, tagAfter]
  | cons p ps ih =>
    intro lastP extra rs hnum hlen hall he hp htags
    obtain ⟨hpe, hpl⟩ := hall p (by simp)
    simp only [List.cons_append, List.map_cons]
    rw [readLoop_piece cfg hr ha rs hnum hlen p hpl htags.1]
    simp only [hpe, Bool.false_eq_true, if_false]
    have := ih lastP extra (rsAfter cfg rs p.payload) (by simpa [rsAfter] using hnum) (by simpa [rsAfter] using hlen)
      (fun q hq => hall q (by simp [hq])) he hp (by simpa [rsAfter] using htags.2)
    obtain ⟨h1, h2, h3, h4⟩ := this
    refine ⟨?_, h2, ?_, ?_⟩
    · rw [h1]; simp [rsAfter, List.append_assoc]
    · rw [h3]; simp [rsAfter]; omega
    · rw [h4]; simp [rsAfter, tagAfter]

theorem readLoop_incomplete (cfg : Cfg) (hr : cfg.rigol = false) (ha : cfg.advantest = false) :
    ∀ (pieces : List Piece) (rs : RS), rs.num ≤ 0 → rs.readLen < 4294967296 →
      (∀ p ∈ pieces, p.eom = false ∧ p.payload.length < 4294967296) →
      TagsOk cfg rs.last pieces →
      (readLoop cfg rs (pieces.map (fun p => Ev.data p.bytes))).res = .error .usbTimeout
      ∧ (readLoop cfg rs (pieces.map (fun p => Ev.data p.bytes))).abortTag = some (tagAfter rs.last (pieces.length + 1)) := by
  intro pieces
  induction pieces with
  | nil =>
    intro rs _ hlen _ _
    simp [readLoop, reqStep_ok cfg rs (Or.inl hr) hlen, rsReq, tagAfter]
  | cons p ps ih =>
    intro rs hnum hlen hall htags
    obtain ⟨hpe, hpl⟩ := hall p (by simp)
    simp only [List.map_cons]
    rw [readLoop_piece cfg hr ha rs hnum hlen p hpl htags.1]
    simp only [hpe, Bool.false_eq_true, if_false]
    have := ih (rsAfter cfg rs p.payload) (by simpa [rsAfter] using hnum) (by simpa [rsAfter] using hlen)
      (fun q hq => hall q (by simp [hq])) (by simpa [rsAfter] using htags.2)
    simpa [rsAfter, tagAfter] using this

theorem readLoop_short_header (cfg : Cfg) (hr : cfg.rigol = false) (rs : RS) (hlen : rs.readLen < 4294967296)
    (resp : Bytes) (h : resp.length < 12) (script : List Ev) :
    (readLoop cfg rs (.data resp :: script)).res = .error .structError := by
  rw [readLoop]
  simp [reqStep_ok cfg rs (Or.inl hr) hlen, absorb, hr, unpackResp_short resp h]

/-- `num`, `read_len` after a transfer with `k` data bytes was taken in (the loop goes on) -/
def rsNum (rs : RS) (k : Nat) : RS :=
  { rs with num := if rs.num > 0 then rs.num - k else rs.num,
            readLen := if rs.num > 0 ∧ rs.num - (k : Int) < rs.readLen then (rs.num - (k : Int)).toNat else rs.readLen }

/-- one loop iteration on a well-formed transfer, no quirks, any `num` -/
theorem readLoop_piece_num (cfg : Cfg) (hr : cfg.rigol = false) (ha : cfg.advantest = false) (rs : RS)
    (hlen : rs.readLen < 4294967296) (p : Piece) (hp : p.payload.length < 4294967296)
    (hok : cfg.checkHdr = true → p.tagOk (nextTag rs.last)) (script : List Ev) :
    readLoop cfg rs (.data p.bytes :: script) =
      (if rs.num > 0 ∧ rs.num - (p.payload.length : Int) ≤ 0 then
        { rs := { rsAfter cfg rs p.payload with num := rs.num - p.payload.length }, left := script,
          res := .ok (rs.readData ++ p.payload) }
       else if p.eom then
        { rs := rsNum (rsAfter cfg rs p.payload) p.payload.length, left := script, res := .ok (rs.readData ++ p.payload) }
       else readLoop cfg (rsNum (rsAfter cfg rs p.payload) p.payload.length) script) := by
  rw [readLoop]
  have hab := absorb_piece cfg hr (rsReq cfg rs) p hp (fun hc _ => hok hc)
  simp only [reqStep_ok cfg rs (Or.inl hr) hlen, hab, ha, Bool.false_eq_true, if_false]
  simp only [rsReq, rsAfter, rsNum]
  by_cases hn : rs.num > 0
  · simp only [hn, if_true, true_and]
  · simp only [hn, if_false, false_and]

/-- the device never sends more than what is still wanted (`≤ num` remaining), as USBTMC §3.3 demands of a response to a
request for `min(num, max_transfer_size)` bytes -/
def Conforms : Int → List Piece → Prop
  | _, [] => True
  | n, p :: ps => (p.payload.length : Int) ≤ n ∧ p.payload.length < 4294967296
      ∧ (n - p.payload.length > 0 → p.eom = false → Conforms (n - p.payload.length) ps)

theorem readLoop_num (cfg : Cfg) (hr : cfg.rigol = false) (ha : cfg.advantest = false) :
    ∀ (pieces : List Piece) (rs : RS), rs.num > 0 → rs.readLen < 4294967296 → Conforms rs.num pieces →
      TagsOk cfg rs.last pieces →
      -- the message ends within the script, or enough bytes are there
      ((pieces.map Piece.payload).flatten.length ≥ rs.num.toNat ∨ ∃ p ∈ pieces, p.eom = true) →
      ∃ k, k ≤ pieces.length
        ∧ (readLoop cfg rs (pieces.map (fun p => Ev.data p.bytes))).res
            = .ok (rs.readData ++ ((pieces.take k).map Piece.payload).flatten)
        ∧ (readLoop cfg rs (pieces.map (fun p => Ev.data p.bytes))).left = (pieces.drop k).map (fun p => Ev.data p.bytes)
        ∧ ((pieces.take k).map Piece.payload).flatten.length ≤ rs.num.toNat
        ∧ (((pieces.take k).map Piece.payload).flatten.length = rs.num.toNat ∨ ∃ p ∈ pieces.take k, p.eom = true) := by
  intro pieces
  induction pieces with
  | nil =>
    intro rs hnum _ _ _ hend
    rcases hend with h | ⟨p, hp, _⟩
    · simp at h; omega
    · simp at hp
  | cons p ps ih =>
    intro rs hnum hlen hconf htags hend
    obtain ⟨hle, h32, hrest⟩ := hconf
    simp only [List.map_cons]
    rw [readLoop_piece_num cfg hr ha rs hlen p h32 htags.1]
    by_cases h0 : rs.num - (p.payload.length : Int) ≤ 0
    · -- exactly `num` bytes collected
      refine ⟨1, by simp, ?_, ?_, ?_, ?_⟩
      · simp [hnum, h0]
      · simp [hnum, h0]
      · simp; omega
      · left; simp; omega
    · have hn0 : ¬ (rs.num > 0 ∧ rs.num - (p.payload.length : Int) ≤ 0) := by omega
      simp only [hn0, if_false]
      by_cases he : p.eom = true
      · refine ⟨1, by simp, ?_, ?_, ?_, ?_⟩
        · simp [he]
        · simp [he]
        · simp; omega
        · right; exact ⟨p, by simp, he⟩
      · have he' : p.eom = false := by simpa using he
        simp only [he', Bool.false_eq_true, if_false]
        have hnum' : (rsNum (rsAfter cfg rs p.payload) p.payload.length).num = rs.num - p.payload.length := by
          simp [rsNum, rsAfter, hnum]
        have hlast' : (rsNum (rsAfter cfg rs p.payload) p.payload.length).last = nextTag rs.last := by
          simp [rsNum, rsAfter]
        have hlen' : (rsNum (rsAfter cfg rs p.payload) p.payload.length).readLen < 4294967296 := by
          simp only [rsNum, rsAfter]
          by_cases hh : rs.num > 0 ∧ rs.num - (p.payload.length : Int) < rs.readLen
          · simp only [hh, and_self, if_true]; omega
          · simp only [hh, if_false]; exact hlen
        have hrd : (rsNum (rsAfter cfg rs p.payload) p.payload.length).readData = rs.readData ++ p.payload := by
          simp [rsNum, rsAfter]
        obtain ⟨k, hk, g1, g2, g3, g4⟩ := ih (rsNum (rsAfter cfg rs p.payload) p.payload.length)
          (by rw [hnum']; omega) hlen' (by rw [hnum']; exact hrest (by omega) he')
          (by rw [hlast']; exact htags.2)
          (by
            rw [hnum']
            rcases hend with h | ⟨q, hq, hqe⟩
            · left; simp at h ⊢; omega
            · right
              simp only [List.mem_cons] at hq
              rcases hq with rfl | hq
              · exact absurd hqe he
              · exact ⟨q, hq, hqe⟩)
        refine ⟨k + 1, by simp; omega, ?_, ?_, ?_, ?_⟩
        · rw [g1, hrd]; simp [List.append_assoc]
        · rw [g2]; simp
        · rw [hnum'] at g3; simp at g3 ⊢; omega
        · rw [hnum'] at g4
          rcases g4 with g | ⟨q, hq, hqe⟩
          · left; simp at g ⊢; omega
          · right; exact ⟨q, by simp [hq], hqe⟩

/-- `read_raw()` (no quirks, read everything) is the §3.3 host rule, for every script whatsoever; a tree that checks the
Bulk-IN header refines the checking rule, one that does not refines the unchecked rule -/
theorem readLoop_refines_hostSpec (cfg : Cfg) (hr : cfg.rigol = false) (ha : cfg.advantest = false) :
    ∀ (script : List Ev) (rs : RS), rs.num ≤ 0 → rs.readLen < 4294967296 →
      (readLoop cfg rs script).res.toOption = hostSpec cfg.checkHdr rs.last script rs.readData := by
  intro script
  induction script with
  | nil =>
    intro rs _ hlen
    simp [readLoop, reqStep_ok cfg rs (Or.inl hr) hlen, hostSpec, Except.toOption]
  | cons ev script ih =>
    intro rs hnum hlen
    have hn : ¬ (rs.num > 0) := by omega
    cases ev with
    | ioErr =>
      rw [readLoop]
      simp [reqStep_ok cfg rs (Or.inl hr) hlen, hostSpec, Except.toOption]
    | timeout =>
      rw [readLoop]
      simp [reqStep_ok cfg rs (Or.inl hr) hlen, hostSpec, Except.toOption]
    | data resp =>
      rw [readLoop]
      simp only [reqStep_ok cfg rs (Or.inl hr) hlen, absorb, hr, ha, Bool.false_and, Bool.false_eq_true, if_false,
        Bool.not_false, Bool.and_true, hostSpec]
      cases hu : unpackResp resp with
      | none => simp [Except.toOption]
      | some v =>
        obtain ⟨m, t, ti, ts, a, d⟩ := v
        simp only [rsReq]
        by_cases hk : (cfg.checkHdr && (m.toNat != MSGID_REQUEST_DEV_DEP_MSG_IN || t.toNat != nextTag rs.last
            || ti.toNat != invTag t.toNat)) = true
        · simp [hk, Except.toOption]
        · simp only [hk, Bool.false_eq_true, if_false, hn, false_and, ge_iff_le]
          by_cases hc : ts ≤ d.length
          · by_cases he : a.toNat % 2 = 1
            · simp [hc, he, Except.toOption]
            · simp only [hc, he, if_true, if_false, beq_iff_eq]
              exact ih _ (by simpa using hnum) (by simpa using hlen)
          · simp only [hc, if_false, Bool.false_eq_true]
            exact ih _ (by simpa using hnum) (by simpa using hlen)

/-! ### quirk paths -/

/-- Advantest quirk: exactly one transfer is read, whatever its EOM bit says -/
theorem readLoop_advantest (cfg : Cfg) (hr : cfg.rigol = false) (ha : cfg.advantest = true) (rs : RS)
    (hlen : rs.readLen < 4294967296) (p : Piece) (hp : p.payload.length < 4294967296) (script : List Ev) :
    (readLoop cfg rs (.data p.bytes :: script)).res = .ok (rs.readData ++ p.payload)
    ∧ (readLoop cfg rs (.data p.bytes :: script)).left = script
    ∧ (readLoop cfg rs (.data p.bytes :: script)).rs.reqs = rs.reqs ++ [inRequest (nextTag rs.last) rs.readLen cfg.termChar] := by
  rw [readLoop]
  have hab := absorb_piece cfg hr (rsReq cfg rs) p hp (fun _ h => by simp [ha] at h)
  simp only [reqStep_ok cfg rs (Or.inl hr) hlen, hab, ha, if_true]
  simp [rsReq]

/-- first packet of a RIGOL device: a header whose TransferSize is the size of the whole message, then the first bytes -/
def rigolFirst (h0 h1 h2 h3 attr r1 r2 r3 : UInt8) (total : Nat) (body : Bytes) : Bytes :=
  h0 :: h1 :: h2 :: h3 :: (le32 total ++ (attr :: r1 :: r2 :: r3 :: body))

theorem unpackResp_rigolFirst (h0 h1 h2 h3 attr r1 r2 r3 : UInt8) (total : Nat) (body : Bytes) (h : total < 4294967296) :
    unpackResp (rigolFirst h0 h1 h2 h3 attr r1 r2 r3 total body) = some (h0, h1, h2, total, attr, body.take total) := by
  simp [rigolFirst, le32, unpackResp, unLe32_le32 _ h]

/-- RIGOL: a header-less continuation packet -/
theorem readLoop_rigol_cont (cfg : Cfg) (hr : cfg.rigol = true) (ha : cfg.advantest = false) (rs : RS)
    (hne : rs.readData ≠ []) (hnum : rs.num ≤ 0) (c : Bytes) (script : List Ev) :
    readLoop cfg rs (.data c :: script) =
      (if (rs.readData ++ c).length ≥ rs.ts then
        { rs := { rs with sizes := rs.sizes ++ [rs.readLen + HEADER_SIZE + 3], readData := (rs.readData ++ c).take rs.ts },
          left := script, res := .ok ((rs.readData ++ c).take rs.ts) }
       else readLoop cfg { rs with sizes := rs.sizes ++ [rs.readLen + HEADER_SIZE + 3], readData := rs.readData ++ c } script) := by
  have hn : ¬ (rs.num > 0) := by omega
  have hemp : rs.readData.isEmpty = false := by cases h : rs.readData <;> simp_all
  rw [readLoop]
  simp only [reqStep, hr, hemp, Bool.not_true, Bool.or_false, Bool.false_eq_true, if_false, absorb, Bool.not_false,
    Bool.and_true, if_true]
  by_cases h : (rs.readData ++ c).length ≥ rs.ts
  · simp only [h, if_true, ha, Bool.false_eq_true, if_false, hn, false_and]
  · simp only [h, if_false, ha, Bool.false_eq_true, hn, false_and]

theorem readLoop_rigol_conts (cfg : Cfg) (hr : cfg.rigol = true) (ha : cfg.advantest = false) :
    ∀ (conts : List Bytes) (rs : RS) (extra : List Ev), rs.readData ≠ [] → rs.num ≤ 0 →
      rs.readData.length < rs.ts →                              -- the loop is still waiting for bytes
      (rs.readData ++ conts.flatten).length ≥ rs.ts →           -- and the device delivers them
      (readLoop cfg rs (conts.map Ev.data ++ extra)).res = .ok ((rs.readData ++ conts.flatten).take rs.ts)
      ∧ (readLoop cfg rs (conts.map Ev.data ++ extra)).rs.reqs = rs.reqs
      ∧ (readLoop cfg rs (conts.map Ev.data ++ extra)).rs.last = rs.last := by
  intro conts
  induction conts with
  | nil =>
    intro rs extra _ _ hlt hge
    simp only [List.flatten_nil, List.append_nil] at hge
    omega
  | cons c cs ih =>
    intro rs extra hne hnum hlt hge
    simp only [List.map_cons, List.cons_append]
    rw [readLoop_rigol_cont cfg hr ha rs hne hnum c]
    by_cases h : (rs.readData ++ c).length ≥ rs.ts
    · rw [if_pos h]
      have e : rs.readData ++ (c :: cs).flatten = (rs.readData ++ c) ++ cs.flatten := by simp
      refine ⟨?_, rfl, rfl⟩
      rw [e, List.take_append_of_le_length h]
    · rw [if_neg h]
      have := ih { rs with sizes := rs.sizes ++ [rs.readLen + HEADER_SIZE + 3], readData := rs.readData ++ c } extra
        (by simp [hne]) hnum (by simpa using h) (by simpa [List.append_assoc] using hge)
      simpa [List.append_assoc] using this

/-- RIGOL: the first packet (the only one with a header); `T` is the message size the loop will wait for — the header's
TransferSize, or what the IEEE-block sub-quirk reads from the data -/
theorem readLoop_rigol_first (cfg : Cfg) (hr : cfg.rigol = true) (ha : cfg.advantest = false) (rs : RS)
    (hemp : rs.readData = []) (hnum : rs.num ≤ 0) (hlen : rs.readLen < 4294967296)
    (h0 h1 h2 h3 attr r1 r2 r3 : UInt8) (total : Nat) (body : Bytes) (htot : total < 4294967296)
    (hok : cfg.checkHdr = true → h0.toNat = MSGID_REQUEST_DEV_DEP_MSG_IN ∧ h1.toNat = nextTag rs.last ∧ h2.toNat = invTag h1.toNat)
    (T : Nat) (hsz : ieeeSize cfg (body.take total) total = .ok (T : Int)) (script : List Ev) :
    readLoop cfg rs (.data (rigolFirst h0 h1 h2 h3 attr r1 r2 r3 total body) :: script) =
      (if (body.take total).length ≥ T then
        { rs := { rsReq cfg rs with readData := (body.take total).take T, ts := T, data := body.take total },
          left := script, res := .ok ((body.take total).take T) }
       else readLoop cfg { rsReq cfg rs with readData := body.take total, ts := T, data := body.take total } script) := by
  have hn : ¬ (rs.num > 0) := by omega
  rw [readLoop]
  rw [reqStep_ok cfg rs (Or.inr hemp) hlen]
  have hcond : (cfg.checkHdr && !cfg.advantest
      && (h0.toNat != MSGID_REQUEST_DEV_DEP_MSG_IN || h1.toNat != (rsReq cfg rs).last || h2.toNat != invTag h1.toNat)) = false := by
    cases hc : cfg.checkHdr with
    | false => simp
    | true =>
      obtain ⟨e1, e2, e3⟩ := hok hc
      simp [rsReq, e1, e2, e3]
  have hemp' : (rsReq cfg rs).readData.isEmpty = true := by simp [rsReq, hemp]
  have hrd : (rsReq cfg rs).readData = [] := by simp [rsReq, hemp]
  simp only [absorb, hr, hemp', Bool.not_true, Bool.and_false, Bool.false_eq_true, if_false,
    unpackResp_rigolFirst _ _ _ _ _ _ _ _ _ _ htot, hcond, if_true, hsz, hrd, List.nil_append]
  have hnq : ¬ ((rsReq cfg rs).num > 0) := by simpa [rsReq] using hn
  by_cases h : (body.take total).length ≥ T
  · have h' : ((body.take total).length : Int) ≥ (T : Int) := by omega
    have hT : (T : Int) ≥ 0 := by omega
    have h2 : T ≤ min total body.length := by simpa using h
    simp [h', h2, ha, hnq, sliceTo, hT]
  · have h' : ¬ ((body.take total).length : Int) ≥ (T : Int) := by omega
    have h2 : ¬ T ≤ min total body.length := by simpa using h
    simp [h', h2, ha, hnq]

/-- value of a string of decimal digits -/
def decVal (ds : Bytes) : Nat := ds.foldl (fun acc d => acc * 10 + (d.toNat - 48)) 0

theorem digitsU_digits : ∀ (ds : Bytes) (acc : Nat) (prev : Bool), (∀ x ∈ ds, isDigit x = true) → (prev = true ∨ ds ≠ []) →
    digitsU acc prev ds = some (ds.foldl (fun a d => a * 10 + (d.toNat - 48)) acc) := by
  intro ds
  induction ds with
  | nil => intro acc prev _ h; rcases h with h | h <;> simp_all [digitsU]
  | cons c r ih =>
    intro acc prev hall _
    have hc := hall c (by simp)
    simp only [digitsU, hc, if_true, List.foldl_cons]
    exact ih _ true (fun x hx => hall x (by simp [hx])) (Or.inl rfl)

theorem not_space_of_digit (x : UInt8) (h : isDigit x = true) : isSpace x = false := by
  simp only [isDigit, Bool.and_eq_true, decide_eq_true_eq] at h
  simp only [isSpace, Bool.or_eq_false_iff, Bool.and_eq_false_imp, decide_eq_true_eq, decide_eq_false_iff_not, beq_eq_false_iff_ne]
  refine ⟨?_, by omega⟩
  intro hx; rw [hx] at h; simp at h

theorem dropWhile_space_digits (ds : Bytes) (h : ∀ x ∈ ds, isDigit x = true) : ds.dropWhile isSpace = ds := by
  cases ds with
  | nil => rfl
  | cons c r => simp [List.dropWhile, not_space_of_digit c (h c (by simp))]

theorem pyIntBytes_digits (ds : Bytes) (hne : ds ≠ []) (h : ∀ x ∈ ds, isDigit x = true) :
    pyIntBytes ds = some (decVal ds : Int) := by
  have h1 := dropWhile_space_digits ds h
  have h2 : ds.reverse.dropWhile isSpace = ds.reverse := dropWhile_space_digits ds.reverse (by simpa using h)
  simp only [pyIntBytes, h1, h2, List.reverse_reverse]
  cases ds with
  | nil => exact absurd rfl hne
  | cons c r =>
    have hc := h c (by simp)
    simp only [isDigit, Bool.and_eq_true, decide_eq_true_eq] at hc
    have h45 : c ≠ 45 := by intro hx; rw [hx] at hc; simp at hc
    have h43 : c ≠ 43 := by intro hx; rw [hx] at hc; simp at hc
    have := digitsU_digits (c :: r) 0 false h (Or.inr (by simp))
    split
    · rename_i heq; simp only [List.cons.injEq] at heq; exact absurd heq.1 h45
    · rename_i heq; simp only [List.cons.injEq] at heq; exact absurd heq.1 h43
    · simp [this, decVal]

theorem ieeeSize_off (cfg : Cfg) (h : cfg.rigolIeee = false) (d : Bytes) (ts : Nat) : ieeeSize cfg d ts = .ok (ts : Int) := by
  simp [ieeeSize, h]

theorem ieeeSize_nohash (cfg : Cfg) (d : Bytes) (ts : Nat) (h : d.head? ≠ some 35) : ieeeSize cfg d ts = .ok (ts : Int) := by
  have : (d.head? == some 35) = false := by simpa using h
  simp [ieeeSize, this]

theorem ieeeSize_block (cfg : Cfg) (h : cfg.rigolIeee = true) (k : UInt8) (ds rest : Bytes) (ts : Nat)
    (hk1 : 49 ≤ k.toNat) (hk9 : k.toNat ≤ 57) (hlen : ds.length = k.toNat - 48) (hds : ∀ x ∈ ds, isDigit x = true) :
    ieeeSize cfg (35 :: k :: (ds ++ rest)) ts = .ok ((decVal ds + (k.toNat - 48) + 2 : Nat) : Int) := by
  have hne : ds ≠ [] := by intro e; rw [e] at hlen; simp at hlen; omega
  have hkd : isDigit k = true := by simp [isDigit]; omega
  have htake : (ds ++ rest).take (k.toNat - 48) = ds := by rw [← hlen]; simp
  simp only [ieeeSize, h, List.head?_cons, beq_self_eq_true, Bool.and_self, if_true, hkd, List.drop_succ_cons,
    List.drop_zero, htake, pyIntBytes_digits ds hne hds]
  simp only [Int.natCast_add, Int.cast_ofNat_Int]

end QmiModel.C15
