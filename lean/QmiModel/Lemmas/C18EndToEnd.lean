import QmiModel.Lemmas.C18Responder
import QmiModel.Lemmas.C18Utf8
import QmiModel.Lemmas.C18Admit
import QmiModel.Lemmas.C18Window
/-! Helper lemmas for C18: a request built by `create`, and one node's answer as the asker receives it. -/
namespace QmiModel.Discovery

def reqFieldsOf (L : Layout) (rid : Nat) (ts w c : Bytes) : List Bytes :=
  [leBytes L.magicSz L.magic, leBytes L.tagSz L.tagInfoReq, leBytes L.idSz rid, ts, w, c]

theorem packRequest_some {L : Layout} {rid : Nat} {ts wgf cnf req : Bytes}
    (h : packRequest L rid ts wgf cnf = some req) :
    ∃ w c, cwrite L.wgFilterLen wgf = some w ∧ cwrite L.ctxFilterLen cnf = some c ∧
      req = (reqFieldsOf L rid ts w c).flatten := by
  unfold packRequest at h
  split at h
  · rename_i w c hw hc
    cases h
    exact ⟨w, c, hw, hc, by simp [reqFieldsOf, List.flatten]⟩
  · cases h

/-- a request assembled from fields of the right lengths is a well-formed request with exactly those fields -/
theorem request_fields {L : Layout} (wf : WF L) (rid : Nat) (ts w c : Bytes) (hts : ts.length = L.tsSz)
    (hw : w.length = L.wgFilterLen) (hc : c.length = L.ctxFilterLen) :
    IsInfoRequest L (reqFieldsOf L rid ts w c).flatten ∧
    reqFields L (reqFieldsOf L rid ts w c).flatten = reqFieldsOf L rid ts w c := by
  have hmap : (reqFieldsOf L rid ts w c).map List.length = sizesOf L .infoReq := by
    simp [reqFieldsOf, sizesOf, hdrSizes, leBytes_length, hts, hw, hc]
  have hlen : (reqFieldsOf L rid ts w c).flatten.length = sizeOf L .infoReq := by
    rw [flatten_length, hmap]; rfl
  refine ⟨⟨hlen, ?_, ?_⟩, ?_⟩
  · have : (reqFieldsOf L rid ts w c).flatten =
        leBytes L.magicSz L.magic ++ (reqFieldsOf L rid ts w c).tail.flatten := by simp [reqFieldsOf]
    rw [this, List.take_left' (leBytes_length _ _), leNat_leBytes_of_lt _ _ wf.magic_lt]
  · have : (reqFieldsOf L rid ts w c).flatten =
        leBytes L.magicSz L.magic ++ (leBytes L.tagSz L.tagInfoReq ++ (reqFieldsOf L rid ts w c).tail.tail.flatten) := by
      simp [reqFieldsOf]
    rw [this, List.drop_left' (leBytes_length _ _), List.take_left' (leBytes_length _ _),
      leNat_leBytes_of_lt _ _ wf.req_lt]
  · unfold reqFields
    rw [← hmap, splitFields_of_flatten]

/-- what a request built by `create` from two NUL-free text filters carries -/
theorem request_of_pack {L : Layout} (wf : WF L) (rid : Nat) (ts : Bytes) (wgf cnf : List Char) (req : Bytes)
    (hts : ts.length = L.tsSz) (hw0 : ∀ ch ∈ wgf, ch.toNat ≠ 0) (hc0 : ∀ ch ∈ cnf, ch.toNat ≠ 0)
    (h : packRequest L rid ts (utf8Encode wgf) (utf8Encode cnf) = some req) :
    IsInfoRequest L req ∧ reqWgFilter L req = some wgf ∧ reqCtxFilter L req = some cnf ∧
    (reqFields L req).getD 2 [] = leBytes L.idSz rid ∧ (reqFields L req).getD 3 [] = ts := by
  obtain ⟨w, c, hw, hc, rfl⟩ := packRequest_some h
  obtain ⟨hreq, hf⟩ := request_fields wf rid ts w c hts (cwrite_spec hw).1 (cwrite_spec hc).1
  refine ⟨hreq, ?_, ?_, ?_, ?_⟩
  · unfold reqWgFilter
    rw [hf]
    show utf8Decode (cstr w) = some wgf
    rw [(cwrite_spec hw).2.1, cstr_of_all_ne _ (utf8Encode_ne_zero wgf hw0), utf8_roundtrip]
  · unfold reqCtxFilter
    rw [hf]
    show utf8Decode (cstr c) = some cnf
    rw [(cwrite_spec hc).2.1, cstr_of_all_ne _ (utf8Encode_ne_zero cnf hc0), utf8_roundtrip]
  · rw [hf]; rfl
  · rw [hf]; rfl


/-- a context on the network, as the asking side sees it: its address, what it is, and the id / clock it
draws when it answers -/
structure Node where
  addr : Nat
  ctx : Ctx
  rid : Nat
  now : Bytes
  deriving Repr

/-- names the packet format can carry, values the fields can hold -/
def Node.Admissible (L : Layout) (n : Node) : Prop :=
  (utf8Encode n.ctx.name).length ≤ L.nameLen ∧ (utf8Encode n.ctx.workgroup).length ≤ L.wgLen ∧
  (∀ b ∈ utf8Encode n.ctx.name, b ≠ 0) ∧ (∀ b ∈ utf8Encode n.ctx.workgroup, b ≠ 0) ∧
  -((256 ^ L.portSz : Nat) : Int) ≤ 2 * n.ctx.port ∧ 2 * n.ctx.port < ((256 ^ L.portSz : Nat) : Int) ∧
  n.now.length = L.tsSz

/-- what comes back to the asker (at `asker`) from one node when `req` reaches it -/
def nodeAnswer (L : Layout) (asker : Nat) (req : Bytes) (n : Node) : Option (Nat × Bytes) :=
  match handleRead L n.ctx { addr := asker, data := req, rid := n.rid, now := n.now } with
  | .sent _ bs => some (n.addr, bs)
  | _ => none

/-- a context that exists and runs: its names passed `QMI_Context.__init__`, its TCP port is an `int32`,
its clock value has the size of the timestamp field -/
def Node.Running (L : Layout) (n : Node) : Prop :=
  admitContext L n.ctx.name n.ctx.workgroup = true ∧
  -((256 ^ L.portSz : Nat) : Int) ≤ 2 * n.ctx.port ∧ 2 * n.ctx.port < ((256 ^ L.portSz : Nat) : Int) ∧
  n.now.length = L.tsSz

theorem Node.Running.admissible {L : Layout} (wf : WF L) {n : Node} (h : n.Running L) : n.Admissible L := by
  obtain ⟨ha, hp1, hp2, hnow⟩ := h
  obtain ⟨h1, h2, h3, h4⟩ := admit_fits wf ha
  exact ⟨h1, h2, h3, h4, hp1, hp2, hnow⟩

/-- the datagrams that come back to the asker when `req` reaches every node -/
def answersOf (L : Layout) (asker : Nat) (req : Bytes) (nodes : List Node) : List (Nat × Bytes) :=
  nodes.filterMap (nodeAnswer L asker req)

theorem node_answer {L : Layout} (wf : WF L) (n : Node) (hadm : n.Admissible L) (asker rid : Nat) (req : Bytes)
    (wgf cnf : List Char) (hrid : rid < 256 ^ L.idSz)
    (hreq : IsInfoRequest L req) (hw : reqWgFilter L req = some wgf) (hc : reqCtxFilter L req = some cnf)
    (hid : (reqFields L req).getD 2 [] = leBytes L.idSz rid) (hts : ((reqFields L req).getD 3 []).length = L.tsSz) :
    (globMatch wgf n.ctx.workgroup && globMatch cnf n.ctx.name) = false ∧
      (∀ a bs, handleRead L n.ctx { addr := asker, data := req, rid := n.rid, now := n.now } ≠ .sent a bs)
    ∨ (globMatch wgf n.ctx.workgroup && globMatch cnf n.ctx.name) = true ∧
      ∃ out p, handleRead L n.ctx { addr := asker, data := req, rid := n.rid, now := n.now } = .sent asker out ∧
        pingAccept L rid (n.addr, out) = some (n.addr, p) ∧
        utf8Decode (cstr (p.fld 7)) = some n.ctx.name ∧ sintOf (p.fld 9) = n.ctx.port := by
  obtain ⟨hN, hW, hn0, hw0, hp1, hp2, hnow⟩ := hadm
  rw [handleRead_request wf n.ctx _ hreq]
  unfold handleInfoRequest
  simp only [Packet.fld]
  unfold reqWgFilter at hw
  unfold reqCtxFilter at hc
  rw [hw]
  simp only
  cases h1 : globMatch wgf n.ctx.workgroup with
  | false => left; simp
  | true =>
    simp only [Bool.not_true, Bool.false_eq_true, if_false, Bool.true_and]
    rw [hc]
    simp only
    cases h2 : globMatch cnf n.ctx.name with
    | false => left; simp
    | true =>
      right
      simp only [Bool.not_true, Bool.false_eq_true, if_false, true_and]
      obtain ⟨out, ho⟩ := packResponse_isSome (L := L) n.rid (leNat ((reqFields L req).getD 2 []))
        n.now ((reqFields L req).getD 3 []) (utf8Encode n.ctx.name) (utf8Encode n.ctx.workgroup) n.ctx.pid n.ctx.port
        (by rw [cstr_of_all_ne _ hn0]; exact hN) (by rw [cstr_of_all_ne _ hw0]; exact hW)
      rw [ho]
      obtain ⟨nm, w, hnm, hwr, rfl⟩ := packResponse_some ho
      have hu := unpack_respFields wf n.rid n.now (leNat ((reqFields L req).getD 2 [])) ((reqFields L req).getD 3 [])
        n.ctx.pid nm w n.ctx.port hnow (by rw [hts, wf.rts]) (cwrite_spec hnm).1 (cwrite_spec hwr).1
      refine ⟨_, Packet.mk .infoResp (respFieldsOf L n.rid n.now (leNat ((reqFields L req).getD 2 []))
        ((reqFields L req).getD 3 []) n.ctx.pid nm w n.ctx.port), rfl, ?_, ?_, ?_⟩
      · unfold pingAccept
        simp only
        rw [take_of_small (k := .infoResp) wf.resp_crecv (by rw [(unpack_ok wf hu).1]), hu]
        simp only
        rw [if_pos]
        refine ⟨trivial, ?_⟩
        show leNat (leBytes L.rIdSz (leNat ((reqFields L req).getD 2 []))) = rid
        rw [hid, leNat_leBytes_of_lt _ _ hrid, wf.rid, leNat_leBytes_of_lt _ _ hrid]
      · show utf8Decode (cstr nm) = some n.ctx.name
        rw [(cwrite_spec hnm).2.1, cstr_of_all_ne _ hn0, utf8_roundtrip]
      · show sintOf (intBytes L.portSz n.ctx.port) = n.ctx.port
        exact sintOf_intBytes _ _ hp1 hp2

theorem nodeAnswer_cases {L : Layout} (wf : WF L) (n : Node) (hadm : n.Admissible L) (asker rid : Nat) (req : Bytes)
    (wgf cnf : List Char) (hrid : rid < 256 ^ L.idSz)
    (hreq : IsInfoRequest L req) (hw : reqWgFilter L req = some wgf) (hc : reqCtxFilter L req = some cnf)
    (hid : (reqFields L req).getD 2 [] = leBytes L.idSz rid) (hts : ((reqFields L req).getD 3 []).length = L.tsSz) :
    ((globMatch wgf n.ctx.workgroup && globMatch cnf n.ctx.name) = false ∧ nodeAnswer L asker req n = none)
    ∨ ((globMatch wgf n.ctx.workgroup && globMatch cnf n.ctx.name) = true ∧
      ∃ out p, nodeAnswer L asker req n = some (n.addr, out) ∧
        pingAccept L rid (n.addr, out) = some (n.addr, p) ∧
        utf8Decode (cstr (p.fld 7)) = some n.ctx.name ∧ sintOf (p.fld 9) = n.ctx.port) := by
  rcases node_answer wf n hadm asker rid req wgf cnf hrid hreq hw hc hid hts with
    ⟨hg, hno⟩ | ⟨hg, out, p, hsent, hrest⟩
  · left
    refine ⟨hg, ?_⟩
    unfold nodeAnswer
    split
    · rename_i a bs h; exact absurd h (hno a bs)
    · rfl
  · right
    refine ⟨hg, out, p, ?_, hrest⟩
    unfold nodeAnswer
    rw [hsent]

/-! ### the loop of `discover_peer_contexts` -/

theorem discoverLoop_mem (self : List Char) (rs : List (Nat × Packet)) (out : List Peer)
    (h : discoverLoop self rs = .ok out) (e : Peer) :
    e ∈ out ↔ e.name ≠ self ∧ ∃ a p, (a, p) ∈ rs ∧ utf8Decode (cstr (p.fld 7)) = some e.name ∧
      e.addr = a ∧ e.port = sintOf (p.fld 9) := by
  induction rs generalizing out with
  | nil =>
    simp only [discoverLoop] at h
    cases h
    simp
  | cons r rs ih =>
    obtain ⟨a, p⟩ := r
    simp only [discoverLoop] at h
    split at h
    · cases h
    · rename_i name hname
      split at h
      · cases h
      · rename_i more hmore
        have ih' := ih more hmore
        split at h
        · rename_i hne
          cases h
          rw [List.mem_cons, ih']
          constructor
          · rintro (rfl | ⟨h1, a', p', hm, h2⟩)
            · exact ⟨hne, a, p, List.mem_cons_self, hname, rfl, rfl⟩
            · exact ⟨h1, a', p', List.mem_cons_of_mem _ hm, h2⟩
          · rintro ⟨h1, a', p', hm, h2, h3, h4⟩
            rcases List.mem_cons.1 hm with heq | hm
            · cases heq
              left
              rw [hname] at h2
              cases e
              simp only [Option.some.injEq] at h2
              simp_all
            · exact Or.inr ⟨h1, a', p', hm, h2, h3, h4⟩
        · rename_i heq
          cases h
          rw [ih']
          simp only [Decidable.not_not] at heq
          constructor
          · rintro ⟨h1, a', p', hm, h2⟩
            exact ⟨h1, a', p', List.mem_cons_of_mem _ hm, h2⟩
          · rintro ⟨h1, a', p', hm, h2, h3, h4⟩
            rcases List.mem_cons.1 hm with heq' | hm
            · cases heq'
              rw [hname] at h2
              simp only [Option.some.injEq] at h2
              exact absurd (h2 ▸ heq) h1
            · exact ⟨h1, a', p', hm, h2, h3, h4⟩

theorem discover_cons_none (L : Layout) (self : List Char) (rid : Nat) (d : Nat × Bytes) (ds : List (Nat × Bytes))
    (h : pingAccept L rid d = none) : discover L self rid (d :: ds) = discover L self rid ds := by
  unfold discover ping
  rw [List.filterMap_cons, h]

theorem discover_cons_some (L : Layout) (self : List Char) (rid : Nat) (d : Nat × Bytes) (ds : List (Nat × Bytes))
    (a : Nat) (p : Packet) (name : List Char) (more : List Peer)
    (h : pingAccept L rid d = some (a, p)) (hn : utf8Decode (cstr (p.fld 7)) = some name)
    (hm : discover L self rid ds = .ok more) :
    discover L self rid (d :: ds) =
      .ok (if name ≠ self then { name := name, addr := a, port := sintOf (p.fld 9) } :: more else more) := by
  unfold discover ping at hm ⊢
  rw [List.filterMap_cons, h]
  simp only [discoverLoop, hn, hm]
  split <;> rfl

/-! ### concrete objects for the witness and the non-vacuity examples of `Props/C18.lean` -/

instance (L : Layout) (bs : Bytes) : Decidable (IsInfoRequest L bs) := by unfold IsInfoRequest; infer_instance
instance (L : Layout) (bs : Bytes) : Decidable (IsKillRequest L bs) := by unfold IsKillRequest; infer_instance
instance (L : Layout) (bs : Bytes) : Decidable (WellFormedRequest L bs) := by unfold WellFormedRequest; infer_instance
instance (L : Layout) (n : Node) : Decidable (n.Admissible L) := by unfold Node.Admissible; infer_instance
instance (L : Layout) (n : Node) : Decidable (n.Running L) := by unfold Node.Running; infer_instance

/-- a context whose workgroup name is one byte longer than the field -/
def witCtx : Ctx := { name := ['n'], workgroup := List.replicate (genLayout.wgLen + 1) 'w', pid := 1, port := 2 }
/-- a request with filters `*`, `*` -/
def witReq : Bytes := (packRequest genLayout 5 (List.replicate 8 0) [42] [42]).getD []
def witDgram : Dgram := { addr := 7, data := witReq, rid := 9, now := List.replicate 8 1 }

/-- context `ctxA` in workgroup `grp`; a request with filters `g*`, `ctx?`; the expected answer -/
def exCtx : Ctx := { name := ['c', 't', 'x', 'A'], workgroup := ['g', 'r', 'p'], pid := 4321, port := 40001 }
def exReq : Bytes :=
  (packRequest genLayout 0x1122334455667788 [1, 2, 3, 4, 5, 6, 0xf0, 0x7f] (utf8Encode ['g', '*']) (utf8Encode ['c', 't', 'x', '?'])).getD []
def exDgram : Dgram := { addr := 7, data := exReq, rid := 9, now := List.replicate 8 1 }
def exResp (reqId : Nat) : Bytes :=
  (packResponse genLayout 9 (List.replicate 8 1) reqId [1, 2, 3, 4, 5, 6, 0xf0, 0x7f] 4321 (utf8Encode exCtx.name)
    (utf8Encode exCtx.workgroup) 40001).getD []
/-- a well-formed kill request -/
def exKill : Bytes := packKill genLayout 3 [1, 2, 3, 4, 5, 6, 7, 8]

def exNodes : List Node :=
  [{ addr := 11, ctx := exCtx, rid := 9, now := List.replicate 8 1 },
   { addr := 12, ctx := { exCtx with name := ['m', 'e'] }, rid := 10, now := List.replicate 8 2 },
   { addr := 13, ctx := { exCtx with workgroup := ['x'] }, rid := 11, now := List.replicate 8 3 }]

end QmiModel.Discovery
