import QmiModel.Lemmas.C15UsbtmcRead
/-! bTag bookkeeping over whole sessions: every Bulk-OUT header any call emits carries the next tag of the cycle. -/
namespace QmiModel.C15
open QmiModel Usbtmc

/-- the bTag byte of a Bulk-OUT transfer (offset 1) -/
def tagOf (t : Bytes) : Option UInt8 := (t.drop 1).head?

/-- the next `n` tags after `last` -/
def tagsFrom (last : Nat) : Nat → List (Option UInt8)
  | 0 => []
  | n + 1 => some (UInt8.ofNat (nextTag last)) :: tagsFrom (nextTag last) n

theorem tagsFrom_append (last n m : Nat) : tagsFrom last (n + m) = tagsFrom last n ++ tagsFrom (tagAfter last n) m := by
  induction n generalizing last with
  | zero => simp [tagsFrom, tagAfter]
  | succ n ih =>
    have : n + 1 + m = (n + m) + 1 := by omega
    rw [this]
    simp only [tagsFrom, tagAfter, List.cons_append, ih]

theorem tagAfter_add (last n m : Nat) : tagAfter (tagAfter last n) m = tagAfter last (n + m) := by
  induction n generalizing last with
  | zero => simp [tagAfter]
  | succ n ih =>
    have : n + 1 + m = (n + m) + 1 := by omega
    rw [this]; simp only [tagAfter, ih]

theorem packOut_ok (last size : Nat) (eom : Bool) (h : size < 4294967296) :
    packOut last size eom = (nextTag last, .ok (bulkOutHeader MSGID_DEV_DEP_MSG_OUT (nextTag last) ++ le32 size ++ [if eom then 1 else 0, 0, 0, 0])) := by
  simp [packOut, h]

theorem tagOf_bulkOutHeader (msgid tag : Nat) (rest : Bytes) :
    tagOf (bulkOutHeader msgid tag ++ rest) = some (UInt8.ofNat tag) := by
  simp [tagOf, bulkOutHeader]

/-- every Bulk-OUT header `write_raw` emits carries the next tag of the cycle — with or without an endpoint fault -/
theorem writeLoop_tags (mts : Nat) (hm : mts < 4294967296) (fault : Option (Nat × Bool)) :
    ∀ (fuel idx last : Nat) (rest : Bytes),
      (writeLoop mts fault fuel idx last rest).sent.map tagOf = tagsFrom last (writeLoop mts fault fuel idx last rest).sent.length
      ∧ (writeLoop mts fault fuel idx last rest).last = tagAfter last (writeLoop mts fault fuel idx last rest).sent.length := by
  intro fuel
  induction fuel with
  | zero => intro idx last rest; simp [writeLoop, tagsFrom, tagAfter]
  | succ fuel ih =>
    intro idx last rest
    have hsz : (rest.take mts).length < 4294967296 := by
      have : (rest.take mts).length ≤ mts := by simp [List.length_take]; omega
      omega
    simp only [writeLoop]
    split
    · simp [tagsFrom, tagAfter]
    · rw [packOut_ok _ _ _ hsz]
      simp only []
      obtain ⟨h1, h2⟩ := ih (idx + 1) (nextTag last) (rest.drop (rest.take mts).length)
      split
      · split
        · split <;> simp [tagsFrom, tagAfter, tagOf_bulkOutHeader]
        · simp only [List.map_cons, List.length_cons, tagsFrom, tagAfter, List.append_assoc, tagOf_bulkOutHeader, h1, h2, and_self]
      · simp only [List.map_cons, List.length_cons, tagsFrom, tagAfter, List.append_assoc, tagOf_bulkOutHeader, h1, h2, and_self]


/-- what `reqStep` does to tag and request list -/
theorem reqStep_cases (cfg : Cfg) (rs : RS) (hlen : rs.readLen < 4294967296) :
    (reqStep cfg rs).2 = none ∧ (reqStep cfg rs).1.readLen = rs.readLen ∧ (reqStep cfg rs).1.num = rs.num
    ∧ (((reqStep cfg rs).1.reqs = rs.reqs ∧ (reqStep cfg rs).1.last = rs.last)
       ∨ ((reqStep cfg rs).1.reqs = rs.reqs ++ [inRequest (nextTag rs.last) rs.readLen cfg.termChar]
          ∧ (reqStep cfg rs).1.last = nextTag rs.last)) := by
  simp only [reqStep]
  split
  · rw [packIn_ok _ _ _ hlen]; simp
  · simp

/-- the tag-relevant part of the state is only touched by `reqStep` -/
def SameFrame (a b : RS) : Prop := a.reqs = b.reqs ∧ a.last = b.last

def TagsGrow (rs : RS) (out : ROut) : Prop :=
  ∃ news : List Bytes, out.rs.reqs = rs.reqs ++ news ∧ news.map tagOf = tagsFrom rs.last news.length
    ∧ out.rs.last = tagAfter rs.last news.length

theorem tagOf_inRequest (tag size : Nat) (tc : Option UInt8) : tagOf (inRequest tag size tc) = some (UInt8.ofNat tag) := by
  simp only [inRequest, List.append_assoc]; exact tagOf_bulkOutHeader _ _ _

theorem tagsGrow_of_frame (rs rs1 : RS) (out : ROut)
    (h1 : (rs1.reqs = rs.reqs ∧ rs1.last = rs.last)
       ∨ (∃ size tc, rs1.reqs = rs.reqs ++ [inRequest (nextTag rs.last) size tc] ∧ rs1.last = nextTag rs.last))
    (h2 : TagsGrow rs1 out) : TagsGrow rs out := by
  obtain ⟨news, g1, g2, g3⟩ := h2
  rcases h1 with ⟨e1, e2⟩ | ⟨size, tc, e1, e2⟩
  · exact ⟨news, by rw [g1, e1], by rw [g2, e2], by rw [g3, e2]⟩
  · refine ⟨inRequest (nextTag rs.last) size tc :: news, by rw [g1, e1]; simp, ?_, ?_⟩
    · simp only [List.map_cons, List.length_cons, tagsFrom, tagOf_inRequest, g2, e2]
    · simp only [List.length_cons, tagAfter, g3, e2]

theorem tagsGrow_refl (rs : RS) (out : ROut) (h : out.rs.reqs = rs.reqs ∧ out.rs.last = rs.last) : TagsGrow rs out :=
  ⟨[], by simp [h.1], by simp [tagsFrom], by simp [tagAfter, h.2]⟩

theorem readLoop_tags (cfg : Cfg) :
    ∀ (script : List Ev) (rs : RS), rs.readLen < 4294967296 → TagsGrow rs (readLoop cfg rs script) := by
  intro script
  induction script with
  | nil =>
    intro rs hlen
    obtain ⟨h0, _, _, h3⟩ := reqStep_cases cfg rs hlen
    rw [readLoop]
    revert h0 h3
    cases reqStep cfg rs with
    | mk rs1 e =>
      intro h0 h3
      simp only at h0 h3
      subst h0
      refine tagsGrow_of_frame rs rs1 _ ?_ (tagsGrow_refl _ _ ⟨rfl, rfl⟩)
      rcases h3 with h | h
      · exact Or.inl h
      · exact Or.inr ⟨_, _, h⟩
  | cons ev script ih =>
    intro rs hlen
    obtain ⟨h0, hl, _, h3⟩ := reqStep_cases cfg rs hlen
    rw [readLoop]
    generalize hq : reqStep cfg rs = q at h0 hl h3
    obtain ⟨rs1, e⟩ := q
    simp only at h0 h3 hl
    subst h0
    have hlen1 : rs1.readLen < 4294967296 := by omega
    have hframe : (rs1.reqs = rs.reqs ∧ rs1.last = rs.last)
        ∨ (∃ size tc, rs1.reqs = rs.reqs ++ [inRequest (nextTag rs.last) size tc] ∧ rs1.last = nextTag rs.last) := by
      rcases h3 with h | h
      · exact Or.inl h
      · exact Or.inr ⟨_, _, h⟩
    refine tagsGrow_of_frame rs rs1 _ hframe ?_
    simp only []
    cases ev with
    | ioErr => exact tagsGrow_refl _ _ ⟨rfl, rfl⟩
    | timeout => exact tagsGrow_refl _ _ ⟨rfl, rfl⟩
    | data resp =>
      simp only []
      cases absorb cfg rs1 resp with
      | error e => exact tagsGrow_refl _ _ ⟨rfl, rfl⟩
      | ok v =>
        obtain ⟨readData, eom, ts, data⟩ := v
        simp only []
        by_cases hadv : cfg.advantest = true
        · simp only [hadv, if_true]
          exact tagsGrow_refl _ _ ⟨rfl, rfl⟩
        · simp only [hadv, Bool.false_eq_true, if_false]
          by_cases hpos : rs1.num > 0
          · simp only [hpos, if_true, true_and]
            by_cases h0' : rs1.num - (data.length : Int) ≤ 0
            · simp only [h0', if_true]
              exact tagsGrow_refl _ _ ⟨rfl, rfl⟩
            · simp only [h0', if_false]
              by_cases he : eom = true
              · simp only [he, if_true]
                exact tagsGrow_refl _ _ ⟨rfl, rfl⟩
              · simp only [he, Bool.false_eq_true, if_false]
                refine tagsGrow_of_frame rs1 _ _ (Or.inl ⟨rfl, rfl⟩) (ih _ ?_)
                simp only []
                split
                · omega
                · exact hlen1
          · simp only [hpos, if_false, false_and]
            by_cases he : eom = true
            · simp only [he, if_true]
              exact tagsGrow_refl _ _ ⟨rfl, rfl⟩
            · simp only [he, Bool.false_eq_true, if_false]
              exact tagsGrow_of_frame rs1 _ _ (Or.inl ⟨rfl, rfl⟩) (ih _ hlen1)

theorem writeRaw_tags (mts : Nat) (hm : mts < 4294967296) (fault : Option (Nat × Bool)) (last : Nat) (d : Bytes) :
    (writeRaw mts fault last d).sent.map tagOf = tagsFrom last (writeRaw mts fault last d).sent.length
    ∧ (writeRaw mts fault last d).last = tagAfter last (writeRaw mts fault last d).sent.length := by
  simp only [writeRaw]
  split
  · simp [tagsFrom, tagAfter]
  · exact writeLoop_tags mts hm fault _ _ _ _

theorem readRaw_tags (cfg : Cfg) (hm : cfg.mts < 4294967296) (last : Nat) (num : Int) (script : List Ev) :
    (readRaw cfg last num script).rs.reqs.map tagOf = tagsFrom last (readRaw cfg last num script).rs.reqs.length
    ∧ (readRaw cfg last num script).rs.last = tagAfter last (readRaw cfg last num script).rs.reqs.length := by
  have hlen : (if 0 < num ∧ num < (cfg.mts : Int) then num.toNat else cfg.mts) < 4294967296 := by
    split
    · omega
    · exact hm
  simp only [readRaw]
  obtain ⟨news, g1, g2, g3⟩ := readLoop_tags cfg script
    { last, num, readLen := if 0 < num ∧ num < (cfg.mts : Int) then num.toNat else cfg.mts } hlen
  simp only [List.nil_append] at g1
  rw [g1]
  exact ⟨g2, g3⟩

/-- one call on the instrument -/
inductive Call
  | write (d : Bytes) (fault : Option (Nat × Bool)) (ctrl : List Nat)
  | read (num : Int) (script : List Ev) (ctrl : List Nat)
  | ask (d : Bytes) (num : Int) (fault : Option (Nat × Bool)) (script : List Ev) (ctrl : List Nat)
  | trigger (sup : Bool)

/-- `last_btag` after the call and the Bulk-OUT transfers it put on the wire (abort sequences included: they use the
control endpoint only) -/
def callOut (cfg : Cfg) (last : Nat) : Call → Nat × List Bytes
  | .write d f c => ((writeRawA cfg.mts f last d c).1.last, (writeRawA cfg.mts f last d c).1.sent)
  | .read n s c => ((readRawA cfg last n s c).1.rs.last, (readRawA cfg last n s c).1.rs.reqs)
  | .ask d n f s c =>
    match askRaw cfg last d n f s c with
    | ((w, _), none) => (w.last, w.sent)
    | ((w, _), some (r, _)) => (r.rs.last, w.sent ++ r.rs.reqs)
  | .trigger sup => ((trigger sup cfg.mts last).last, (trigger sup cfg.mts last).sent)

def session (cfg : Cfg) : Nat → List Call → Nat × List Bytes
  | last, [] => (last, [])
  | last, c :: cs => ((session cfg (callOut cfg last c).1 cs).1, (callOut cfg last c).2 ++ (session cfg (callOut cfg last c).1 cs).2)

theorem writeRawA_fst (mts : Nat) (f : Option (Nat × Bool)) (last : Nat) (d : Bytes) (c : List Nat) :
    (writeRawA mts f last d c).1 = writeRaw mts f last d := by
  simp only [writeRawA]; split <;> rfl

theorem readRawA_frame (cfg : Cfg) (last : Nat) (n : Int) (s : List Ev) (c : List Nat) :
    (readRawA cfg last n s c).1.rs = (readRaw cfg last n s).rs := by
  simp only [readRawA]; split <;> rfl

theorem callOut_tags (cfg : Cfg) (hm : cfg.mts < 4294967296) (last : Nat) (c : Call) :
    (callOut cfg last c).2.map tagOf = tagsFrom last (callOut cfg last c).2.length
    ∧ (callOut cfg last c).1 = tagAfter last (callOut cfg last c).2.length := by
  cases c with
  | write d f c => simp only [callOut, writeRawA_fst]; exact writeRaw_tags cfg.mts hm f last d
  | read n s c => simp only [callOut, readRawA_frame]; exact readRaw_tags cfg hm last n s
  | trigger sup =>
    simp only [callOut, trigger]
    split
    · simp [packTrigger, tagsFrom, tagAfter, tagOf_bulkOutHeader]
    · exact writeRaw_tags cfg.mts hm none last _
  | ask d n f s c =>
    simp only [callOut, askRaw]
    have hw := writeRaw_tags cfg.mts hm f last d
    generalize hwa : writeRawA cfg.mts f last d c = wa
    obtain ⟨w, wa', c1⟩ := wa
    have hwe : w = writeRaw cfg.mts f last d := by
      have := writeRawA_fst cfg.mts f last d c
      rw [hwa] at this; exact this
    simp only []
    cases hexc : w.exc with
    | some e => simp only []; rw [hwe]; exact hw
    | none =>
      simp only []
      have hr := readRaw_tags cfg hm w.last n s
      generalize hra : readRawA cfg w.last n s c1 = ra
      obtain ⟨r, ra', c2⟩ := ra
      have hre : r.rs = (readRaw cfg w.last n s).rs := by
        have := readRawA_frame cfg w.last n s c1
        rw [hra] at this; exact this
      simp only [hre, List.map_append, List.length_append]
      rw [hwe] at hr ⊢
      rw [hw.1, hr.1, tagsFrom_append, ← hw.2]
      refine ⟨rfl, ?_⟩
      rw [hr.2, hw.2, tagAfter_add]

/-- over a whole session (any calls, any endpoint faults, any device behaviour, aborts in between) the Bulk-OUT headers
carry consecutive tags of the cycle, and `last_btag` is the tag of the last header -/
theorem session_tags (cfg : Cfg) (hm : cfg.mts < 4294967296) :
    ∀ (calls : List Call) (last : Nat),
      (session cfg last calls).2.map tagOf = tagsFrom last (session cfg last calls).2.length
      ∧ (session cfg last calls).1 = tagAfter last (session cfg last calls).2.length := by
  intro calls
  induction calls with
  | nil => intro last; simp [session, tagsFrom, tagAfter]
  | cons c cs ih =>
    intro last
    obtain ⟨h1, h2⟩ := callOut_tags cfg hm last c
    obtain ⟨g1, g2⟩ := ih (callOut cfg last c).1
    simp only [session, List.map_append, List.length_append]
    rw [h1, g1, tagsFrom_append, ← h2]
    refine ⟨rfl, ?_⟩
    rw [g2, h2, tagAfter_add]

theorem tagsFrom_nonzero (last n : Nat) : ∀ t ∈ tagsFrom last n, t ≠ some 0 := by
  induction n generalizing last with
  | zero => simp [tagsFrom]
  | succ n ih =>
    intro t ht
    simp only [tagsFrom, List.mem_cons] at ht
    rcases ht with rfl | ht
    · have h1 := nextTag_pos last
      have h2 := nextTag_le last
      intro h
      have := congrArg (Option.map UInt8.toNat) h
      simp [UInt8.toNat_ofNat'] at this
      omega
    · exact ih _ t ht

/-- the abort sequence of `read_raw` runs only after a time-out -/
theorem readLoop_abort_only_on_timeout (cfg : Cfg) :
    ∀ (script : List Ev) (rs : RS) (t : Nat), (readLoop cfg rs script).abortTag = some t →
      (readLoop cfg rs script).res = .error .usbTimeout := by
  intro script
  induction script with
  | nil =>
    intro rs t
    rw [readLoop]
    cases reqStep cfg rs with
    | mk rs1 e =>
      cases e with
      | none => intro _; rfl
      | some e => intro h; simp at h
  | cons ev script ih =>
    intro rs t
    rw [readLoop]
    cases reqStep cfg rs with
    | mk rs1 e =>
      cases e with
      | some e => intro h; simp at h
      | none =>
        simp only []
        cases ev with
        | ioErr => intro h; simp at h
        | timeout => intro _; rfl
        | data resp =>
          simp only []
          cases absorb cfg rs1 resp with
          | error e => intro h; simp at h
          | ok v =>
            obtain ⟨readData, eom, ts, data⟩ := v
            simp only []
            by_cases hadv : cfg.advantest = true
            · intro h; simp [hadv] at h
            · simp only [hadv, Bool.false_eq_true, if_false]
              by_cases hpos : rs1.num > 0
              · simp only [hpos, if_true, true_and]
                by_cases h0' : rs1.num - (data.length : Int) ≤ 0
                · intro h; simp [h0'] at h
                · simp only [h0', if_false]
                  by_cases he : eom = true
                  · intro h; simp [he] at h
                  · simp only [he, Bool.false_eq_true, if_false]
                    exact ih _ t
              · simp only [hpos, if_false, false_and]
                by_cases he : eom = true
                · intro h; simp [he] at h
                · simp only [he, Bool.false_eq_true, if_false]
                  exact ih _ t

/-- a read that succeeded is not touched by the abort wrapper -/
theorem readRawA_ok (cfg : Cfg) (last : Nat) (num : Int) (script : List Ev) (ctrl : List Nat) (d : Bytes)
    (h : (readRaw cfg last num script).res = .ok d) :
    (readRawA cfg last num script ctrl).1 = readRaw cfg last num script := by
  simp only [readRawA]
  split
  · rfl
  · rename_i t ht
    have := readLoop_abort_only_on_timeout cfg script _ t (by simpa [readRaw] using ht)
    simp only [readRaw] at h
    rw [this] at h
    simp at h

/-- a write without an endpoint fault runs no abort sequence -/
theorem writeRaw_nofault_no_abort (mts last : Nat) (d : Bytes) : (writeRaw mts none last d).abortTag = none := by
  have key : ∀ (fuel idx l : Nat) (rest : Bytes), (writeLoop mts none fuel idx l rest).abortTag = none := by
    intro fuel
    induction fuel with
    | zero => intro idx l rest; simp [writeLoop]
    | succ fuel ih =>
      intro idx l rest
      simp only [writeLoop]
      split
      · rfl
      · split
        · rfl
        · simp only []; exact ih _ _ _
  simp only [writeRaw]
  split
  · rfl
  · exact key _ _ _ _

/-- the abort sequence of `write_raw` names `last_btag`, the tag of the transfer that timed out -/
theorem writeLoop_abortTag (mts : Nat) (fault : Option (Nat × Bool)) :
    ∀ (fuel idx l : Nat) (rest : Bytes) (t : Nat),
      (writeLoop mts fault fuel idx l rest).abortTag = some t → t = (writeLoop mts fault fuel idx l rest).last := by
  intro fuel
  induction fuel with
  | zero => intro idx l rest t h; simp [writeLoop] at h
  | succ fuel ih =>
    intro idx l rest t
    simp only [writeLoop]
    split
    · intro h; simp at h
    · cases packOut l (List.take mts rest).length (decide (rest.length ≤ mts)) with
      | mk l' r =>
        cases r with
        | error e => intro h; simp at h
        | ok hdr =>
          simp only []
          cases fault with
          | none => simp only []; exact ih _ _ _ t
          | some kf =>
            obtain ⟨k, isT⟩ := kf
            simp only []
            by_cases hk : k = idx
            · simp only [hk, if_true]
              cases isT with
              | true => intro h; simpa using h.symm
              | false => intro h; simp at h
            · simp only [hk, if_false]; exact ih _ _ _ t

theorem writeRaw_abortTag (mts : Nat) (fault : Option (Nat × Bool)) (last : Nat) (d : Bytes) (t : Nat)
    (h : (writeRaw mts fault last d).abortTag = some t) : t = (writeRaw mts fault last d).last := by
  simp only [writeRaw] at h ⊢
  split at h
  · simp at h
  · rename_i hc
    simp only [hc, if_false]
    exact writeLoop_abortTag mts fault _ _ _ _ t h

end QmiModel.C15
