import QmiModel.Lemmas.C13NoLoss
/-!
# C13 helper lemmas, part 8: the datagram transport loses data only on an oversize datagram

`Fits s`: every datagram the device will deliver is at most `MIN_PACKET_SIZE` and at most
`MAX_PACKET_SIZE` bytes long (trusted-base item "UDP datagrams ≤ 4096 bytes are delivered whole").
Under `Fits` no call ends in `QMI_RuntimeException`, and `Fits` is preserved by every call.
-/
namespace QmiModel.Transport

def FitsEv (mn mx : Nat) (ev : Ev) : Prop := ∀ l, ev.res = .data l → l.length ≤ mn ∧ l.length ≤ mx

def Fits (s : St) : Prop := ∀ ev ∈ s.dev, FitsEv s.minP s.maxP ev

/-- the remaining script is the old one with some leading entries removed -/
def DropOf (s s' : St) : Prop := ∃ k, s'.dev = s.dev.drop k

theorem DropOf.refl (s : St) : DropOf s s := ⟨0, by simp⟩
theorem DropOf.trans {a b c : St} (h1 : DropOf a b) (h2 : DropOf b c) : DropOf a c := by
  obtain ⟨k1, h1⟩ := h1
  obtain ⟨k2, h2⟩ := h2
  exact ⟨k1 + k2, by rw [h2, h1, List.drop_drop]⟩
theorem DropOf.of_dev_eq {a b : St} (h : b.dev = a.dev) : DropOf a b := ⟨0, by simp [h]⟩
theorem DropOf.of_tail {a b : St} (h : b.dev = a.dev.tail) : DropOf a b := ⟨1, by simp [h]⟩
theorem DropOf.mem {a b : St} (h : DropOf a b) {ev : Ev} (hm : ev ∈ b.dev) : ev ∈ a.dev := by
  obtain ⟨k, hk⟩ := h
  rw [hk] at hm
  exact List.mem_of_mem_drop hm

theorem popDev_dgram_tail (size : Nat) (d : Script) : (popDev true size d).2.2 = d.tail := by
  cases d with
  | nil => rfl
  | cons x rest =>
    obtain ⟨e, r⟩ := x
    cases r with
    | timeout => rfl
    | eof => rfl
    | data bs => simp only [popDev]; split <;> rfl

theorem popDev_oserr_head (dg : Bool) (size : Nat) (d : Script) (l : Bytes)
    (h : (popDev dg size d).2.1 = .oserr l) : ∃ e rest, d = ⟨e, .data l⟩ :: rest ∧ size < l.length := by
  cases d with
  | nil => simp [popDev] at h
  | cons x rest =>
    obtain ⟨e, r⟩ := x
    cases r with
    | timeout => simp [popDev] at h
    | eof => simp [popDev] at h
    | data bs =>
      simp only [popDev] at h
      split at h
      · simp at h
      · rename_i hgt
        split at h
        · simp only [Rx.oserr.injEq] at h
          subst h
          exact ⟨e, rest, rfl, by omega⟩
        · simp at h

/-- an oversize datagram at the head of the script: the only source of `QMI_RuntimeException` -/
def Oversize (s : St) (size : Nat) : Prop := ∃ e l rest, s.dev = ⟨e, .data l⟩ :: rest ∧ size < l.length

theorem readFromSocket_udp {s : St} (hk : s.kind = .udp) (size : Nat) :
    (readFromSocket s size).1.dev = s.dev.tail ∧
    ((readFromSocket s size).2 = .runtime → Oversize s size) := by
  have hdg : (s.kind == Kind.udp) = true := by simp [hk]
  have h1 := popDev_dgram_tail size s.dev
  have h2 := popDev_oserr_head true size s.dev
  unfold readFromSocket sockRecv
  rw [hdg]
  generalize popDev true size s.dev = r at *
  obtain ⟨e, rx, d'⟩ := r
  cases rx with
  | data b =>
    by_cases hb : b.isEmpty = true
    · simp only [hb, if_true]; exact ⟨h1, by simp⟩
    · simp only [hb]; exact ⟨h1, by simp⟩
  | timeout => exact ⟨h1, by simp⟩
  | eof => exact ⟨h1, by simp⟩
  | exhausted => exact ⟨h1, by simp⟩
  | oserr l =>
    refine ⟨h1, fun _ => ?_⟩
    obtain ⟨e', rest, hd, hl⟩ := h2 l rfl
    exact ⟨e', l, rest, hd, hl⟩

theorem not_fits_of_oversize {s : St} {size : Nat} (h : Oversize s size)
    (hsz : s.minP ≤ size ∨ s.maxP ≤ size) : ¬ Fits s := by
  obtain ⟨e, l, rest, hd, hl⟩ := h
  intro hf
  have := hf ⟨e, .data l⟩ (by rw [hd]; simp) l rfl
  omega

/-- result of the datagram loops: some leading entries were consumed, and a runtime error means the
script did not fit -/
def UdpOK (s : St) (r : St × Out) : Prop := DropOf s r.1 ∧ (r.2 = .exc .runtime → ¬ Fits s)

theorem not_fits_mono {s s2 : St} (hd : DropOf s s2) (hmn : s2.minP = s.minP) (hmx : s2.maxP = s.maxP)
    (h : ¬ Fits s2) : ¬ Fits s := by
  intro hf
  apply h
  intro ev hev
  rw [hmn, hmx]
  exact hf ev (hd.mem hev)

theorem UdpOK.lift {s s2 : St} {r : St × Out} (hd : DropOf s s2) (hmn : s2.minP = s.minP) (hmx : s2.maxP = s.maxP)
    (h : UdpOK s2 r) : UdpOK s r :=
  ⟨hd.trans h.1, fun hr => not_fits_mono hd hmn hmx (h.2 hr)⟩

theorem udpOK_same_dev {s s' : St} {o : Out} (hd : s'.dev = s.dev) (ho : o ≠ .exc .runtime) : UdpOK s (s', o) :=
  ⟨DropOf.of_dev_eq hd, fun h => absurd h ho⟩

theorem sockReadLoop_udp (n : Nat) (timeout : Option Int) (tstart : Nat) :
    ∀ (fuel : Nat) (tremain : Option Int) (s : St), s.kind = .udp →
      UdpOK s (sockReadLoop n timeout tstart fuel tremain s) := by
  intro fuel
  induction fuel with
  | zero =>
    intro tremain s _
    simp only [sockReadLoop]
    split
    · exact udpOK_same_dev rfl (by simp)
    · exact udpOK_same_dev rfl (by simp)
  | succ fuel ih =>
    intro tremain s hk
    simp only [sockReadLoop]
    split
    · exact udpOK_same_dev rfl (by simp)
    · have hE := setTimeout_ext s tremain
      have hD := setTimeout_dev s tremain
      generalize setTimeout s tremain = st at *
      obtain ⟨s0, ok⟩ := st
      cases ok with
      | false => exact udpOK_same_dev hD (by simp)
      | true =>
        simp only
        have hk0 : s0.kind = .udp := by rw [hE.same.kind]; exact hk
        have hR := readFromSocket_spec s0 (max (n - s.buf.length) s.minP)
        have hU := readFromSocket_udp hk0 (max (n - s.buf.length) s.minP)
        generalize readFromSocket s0 (max (n - s.buf.length) s.minP) = rr at *
        obtain ⟨s1, ro⟩ := rr
        obtain ⟨hS, _, _⟩ := hR
        have hd01 : DropOf s s1 := (DropOf.of_dev_eq hD).trans (DropOf.of_tail hU.1)
        cases ro with
        | timeout => exact ⟨hd01, by simp⟩
        | eof => exact ⟨hd01, by simp⟩
        | exhausted => exact ⟨hd01, by simp⟩
        | runtime =>
          refine ⟨hd01, fun _ => ?_⟩
          have hov := hU.2 rfl
          have : ¬ Fits s0 := not_fits_of_oversize hov (Or.inl (by rw [hE.same.minP]; omega))
          exact not_fits_mono (DropOf.of_dev_eq hD) hE.same.minP hE.same.maxP this
        | ok b =>
          have hk2 : ({ s1 with buf := s1.buf ++ b } : St).kind = .udp := by
            show s1.kind = .udp
            rw [hS.kind]; exact hk0
          have hmn : ({ s1 with buf := s1.buf ++ b } : St).minP = s.minP := by
            show s1.minP = s.minP
            rw [hS.minP, hE.same.minP]
          have hmx : ({ s1 with buf := s1.buf ++ b } : St).maxP = s.maxP := by
            show s1.maxP = s.maxP
            rw [hS.maxP, hE.same.maxP]
          have hd2 : DropOf s ({ s1 with buf := s1.buf ++ b } : St) := hd01
          simp only
          cases timeout with
          | none => exact (ih _ _ hk2).lift hd2 hmn hmx
          | some t =>
            simp only
            split
            · exact ⟨hd2, by simp⟩
            · exact (ih _ _ hk2).lift hd2 hmn hmx

theorem sockUntilLoop_udp (term : Bytes) (timeout : Option Int) (tstart : Nat) :
    ∀ (fuel : Nat) (tremain : Option Int) (s : St), s.kind = .udp →
      UdpOK s (sockUntilLoop term timeout tstart fuel tremain s) := by
  intro fuel
  induction fuel with
  | zero => intro tremain s _; exact udpOK_same_dev rfl (by simp)
  | succ fuel ih =>
    intro tremain s hk
    simp only [sockUntilLoop]
    have hE := setTimeout_ext s tremain
    have hD := setTimeout_dev s tremain
    generalize setTimeout s tremain = st at *
    obtain ⟨s0, ok⟩ := st
    cases ok with
    | false => exact udpOK_same_dev hD (by simp)
    | true =>
      simp only
      have hk0 : s0.kind = .udp := by rw [hE.same.kind]; exact hk
      have hR := readFromSocket_spec s0 s.maxP
      have hU := readFromSocket_udp hk0 s.maxP
      generalize readFromSocket s0 s.maxP = rr at *
      obtain ⟨s1, ro⟩ := rr
      obtain ⟨hS, _, _⟩ := hR
      have hd01 : DropOf s s1 := (DropOf.of_dev_eq hD).trans (DropOf.of_tail hU.1)
      cases ro with
      | timeout => exact ⟨hd01, by simp⟩
      | eof => exact ⟨hd01, by simp⟩
      | exhausted => exact ⟨hd01, by simp⟩
      | runtime =>
        refine ⟨hd01, fun _ => ?_⟩
        have hov := hU.2 rfl
        have : ¬ Fits s0 := not_fits_of_oversize hov (Or.inr (by rw [hE.same.maxP]; omega))
        exact not_fits_mono (DropOf.of_dev_eq hD) hE.same.minP hE.same.maxP this
      | ok b =>
        have hk2 : ({ s1 with buf := s1.buf ++ b } : St).kind = .udp := by
          show s1.kind = .udp
          rw [hS.kind]; exact hk0
        have hmn : ({ s1 with buf := s1.buf ++ b } : St).minP = s.minP := by
          show s1.minP = s.minP
          rw [hS.minP, hE.same.minP]
        have hmx : ({ s1 with buf := s1.buf ++ b } : St).maxP = s.maxP := by
          show s1.maxP = s.maxP
          rw [hS.maxP, hE.same.maxP]
        have hd2 : DropOf s ({ s1 with buf := s1.buf ++ b } : St) := hd01
        simp only
        split
        · exact ⟨hd2, by simp [takeMsg, takeBuf]⟩
        · cases timeout with
          | none => exact (ih _ _ hk2).lift hd2 hmn hmx
          | some t =>
            simp only
            split
            · exact ⟨hd2, by simp⟩
            · exact (ih _ _ hk2).lift hd2 hmn hmx

theorem sockRead_udp (s : St) (n : Nat) (t : Option Int) (hk : s.kind = .udp) : UdpOK s (sockRead s n t) := by
  simp only [sockRead]
  split
  · exact udpOK_same_dev rfl (by simp)
  · exact sockReadLoop_udp _ _ _ _ _ _ hk

theorem sockUntil_udp (s : St) (term : Bytes) (t : Option Int) (hk : s.kind = .udp) : UdpOK s (sockUntil s term t) := by
  simp only [sockUntil]
  split
  · exact udpOK_same_dev rfl (by simp)
  · split
    · exact udpOK_same_dev rfl (by simp)
    · exact sockUntilLoop_udp _ _ _ _ _ _ hk

theorem sockRut_udp (s : St) (n : Nat) (t : Option Int) (hk : s.kind = .udp) : UdpOK s (sockRut s n t) := by
  have h := sockRead_udp s n t hk
  simp only [sockRut]
  generalize sockRead s n t = r at *
  obtain ⟨s1, o⟩ := r
  cases o with
  | exc e =>
    cases e with
    | timeout => exact ⟨h.1, by simp [takeBuf]⟩
    | eof =>
      simp only
      split
      · exact h
      · exact ⟨h.1, by simp [takeAll]⟩
    | _ => exact h
  | _ => exact h

theorem sockDiscardLoop_drop : ∀ (fuel : Nat) (s : St), s.kind = .udp → DropOf s (sockDiscardLoop fuel s).1 := by
  intro fuel
  induction fuel with
  | zero => intro s _; exact DropOf.refl s
  | succ fuel ih =>
    intro s hk
    simp only [sockDiscardLoop]
    have hdg : (s.kind == Kind.udp) = true := by simp [hk]
    have h1 := popDev_dgram_tail s.maxP s.dev
    unfold sockRecv
    rw [hdg]
    generalize popDev true s.maxP s.dev = r at *
    obtain ⟨e, rx, d'⟩ := r
    have ht : d' = s.dev.tail := h1
    cases rx with
    | timeout => exact DropOf.of_tail ht
    | eof => exact DropOf.of_tail ht
    | oserr l => exact DropOf.of_tail ht
    | exhausted => exact DropOf.of_tail ht
    | data b =>
      simp only
      split
      · exact DropOf.of_tail ht
      · exact (DropOf.of_tail (b := { s with clock := s.clock + e, dev := d', io := s.io ++ [Io.rv s.maxP],
                                              log := s.log ++ [(Tag.disc, b)] }) ht).trans (ih _ hk)

theorem sockDiscard_drop (s : St) (hk : s.kind = .udp) : DropOf s (sockDiscard s).1 := by
  simp only [sockDiscard]
  split
  · exact DropOf.refl s
  · exact (DropOf.of_dev_eq (a := s) rfl).trans (sockDiscardLoop_drop _ _ hk)

end QmiModel.Transport
