import QmiModel.Lemmas.C08Abs
import QmiModel.Lemmas.C08ProtoSafe
/-! C08, simulation layer — the transitions of the abstract protocol as membership lemmas of `Proto.next`, and how the
abstraction of a view (`absV`) depends on the parts of the view. -/
set_option linter.unusedSimpArgs false
namespace QmiModel.PubSub
open Proto

theorem AS.ext' {x y : AS} (h1 : x.R = y.R) (h2 : x.A = y.A) (h3 : x.obj = y.obj) (h4 : x.rm = y.rm) (h5 : x.pend = y.pend)
    (h6 : x.tok = y.tok) (h7 : x.D = y.D) (h8 : x.sr = y.sr) (h9 : x.wp = y.wp) : x = y := by
  cases x; cases y; simp_all

namespace Proto

/-! ### the transitions -/

theorem mem_next {x y : AS} :
    y ∈ next x ↔ y ∈ segSub x ∨ y ∈ segUnsub x ∨ y ∈ segTok x ∨ y ∈ segRead x ∨ y ∈ segSr x ∨ y ∈ segWp x ∨ y ∈ segMark x ∨
      y ∈ segRm x ∨ y ∈ segReserve x ∨ y ∈ segRegister x := by
  simp only [next, List.mem_append, or_assoc]

theorem next_subNew {x : AS} (hA : x.A = false) (hp : x.pend = .none) : { x with pend := .sub false, tok := .req } ∈ next x :=
  mem_next.2 (Or.inl (by simp [segSub, hA, hp]))
theorem next_subJoin {x : AS} (hA : x.A = false) {w : Bool} (hp : x.pend = .unsub w) : { x with pend := .unsub true } ∈ next x :=
  mem_next.2 (Or.inl (by simp [segSub, hA, hp]))
theorem next_unsubNew {x : AS} (hA : x.A = true) (hp : x.pend = .none) :
    { x with A := false, pend := .unsub false, tok := .req } ∈ next x :=
  mem_next.2 (Or.inr (Or.inl (by simp [segUnsub, hA, hp])))
theorem next_unsubPending {x : AS} (hA : x.A = true) (hp : x.pend ≠ .none) : { x with A := false } ∈ next x :=
  mem_next.2 (Or.inr (Or.inl (by cases h : x.pend <;> simp_all [segUnsub])))
theorem next_reqSub {x : AS} (ht : x.tok = .req) {m : Bool} (hp : x.pend = .sub m) : { x with tok := .chk1 } ∈ next x :=
  mem_next.2 (Or.inr (Or.inr (Or.inl (by simp [segTok, ht, hp]))))
theorem next_reqUnsub {x : AS} (ht : x.tok = .req) {w : Bool} (hp : x.pend = .unsub w) : { x with tok := .preRem true } ∈ next x :=
  mem_next.2 (Or.inr (Or.inr (Or.inl (by simp [segTok, ht, hp]))))
theorem next_chk1Ok {x : AS} (ht : x.tok = .chk1) (ho : x.obj = .present) : { x with tok := .preAdd } ∈ next x :=
  mem_next.2 (Or.inr (Or.inr (Or.inl (by simp [segTok, ht, ho]))))
theorem next_chk1Fail {x : AS} (ht : x.tok = .chk1) (ho : x.obj ≠ .present) : { x with tok := .rep false } ∈ next x :=
  mem_next.2 (Or.inr (Or.inr (Or.inl (by simp [segTok, ht, ho]))))
theorem next_add {x : AS} (ht : x.tok = .preAdd) : { x with tok := .added, R := true } ∈ next x :=
  mem_next.2 (Or.inr (Or.inr (Or.inl (by simp [segTok, ht]))))
theorem next_chk2Ok {x : AS} (ht : x.tok = .added) (ho : x.obj = .present) : { x with tok := .rep true } ∈ next x :=
  mem_next.2 (Or.inr (Or.inr (Or.inl (by simp [segTok, ht, ho]))))
theorem next_chk2Fail {x : AS} (ht : x.tok = .added) (ho : x.obj ≠ .present) : { x with tok := .preRem false } ∈ next x :=
  mem_next.2 (Or.inr (Or.inr (Or.inl (by simp [segTok, ht, ho]))))
theorem next_rem {x : AS} {ok : Bool} (ht : x.tok = .preRem ok) : { x with tok := .rep ok, R := false } ∈ next x :=
  mem_next.2 (Or.inr (Or.inr (Or.inl (by simp [segTok, ht]))))
theorem next_repEnq {x : AS} {ok : Bool} (ht : x.tok = .rep ok) : { x with tok := .inD, D := x.D ++ [.Rep ok] } ∈ next x :=
  mem_next.2 (Or.inr (Or.inr (Or.inl (by simp [segTok, ht]))))
theorem next_hrSubDone {x : AS} {ok m : Bool} (ht : x.tok = .hr ok) (hp : x.pend = .sub m) (h : (ok && m) = false) :
    { x with A := x.A || ok, pend := .none, tok := .none } ∈ next x :=
  mem_next.2 (Or.inr (Or.inr (Or.inl (by simp [segTok, ht, hp, h]))))
theorem next_hrSubRetry {x : AS} (ht : x.tok = .hr true) (hp : x.pend = .sub true) :
    { x with pend := .sub false, tok := .req } ∈ next x :=
  mem_next.2 (Or.inr (Or.inr (Or.inl (by simp [segTok, ht, hp]))))
theorem next_hrUnsubDone {x : AS} {ok : Bool} (ht : x.tok = .hr ok) (hp : x.pend = .unsub false) :
    { x with pend := .none, tok := .none } ∈ next x :=
  mem_next.2 (Or.inr (Or.inr (Or.inl (by simp [segTok, ht, hp]))))
theorem next_hrUnsubRetry {x : AS} {ok : Bool} (ht : x.tok = .hr ok) (hp : x.pend = .unsub true) :
    { x with pend := .sub false, tok := .req } ∈ next x :=
  mem_next.2 (Or.inr (Or.inr (Or.inl (by simp [segTok, ht, hp]))))
theorem next_readRep {x : AS} {ok : Bool} {d : List DTok} (hi : idleSock x = true) (hd : x.D = .Rep ok :: d) :
    { x with tok := .hr ok, D := d } ∈ next x :=
  mem_next.2 (Or.inr (Or.inr (Or.inr (Or.inl (by simp [segRead, hi, hd])))))
theorem next_readN {x : AS} {d : List DTok} (hi : idleSock x = true) (hd : x.D = .N :: d) : { x with sr := true, D := d } ∈ next x :=
  mem_next.2 (Or.inr (Or.inr (Or.inr (Or.inl (by simp [segRead, hi, hd])))))
theorem next_sr {x : AS} (h : x.sr = true) :
    { x with sr := false, A := false, pend := x.pend.mark } ∈ next x :=
  mem_next.2 (Or.inr (Or.inr (Or.inr (Or.inr (Or.inl (by simp [segSr, h]))))))
theorem next_wp {x : AS} (h : x.wp = true) : { x with wp := false, A := false } ∈ next x :=
  mem_next.2 (Or.inr (Or.inr (Or.inr (Or.inr (Or.inr (Or.inl (by simp [segWp, h])))))))
theorem next_mark {x : AS} (ho : x.obj = .present) (hr : x.rm = .none) : { x with obj := .reserved, rm := .pre } ∈ next x :=
  mem_next.2 (Or.inr (Or.inr (Or.inr (Or.inr (Or.inr (Or.inr (Or.inl (by simp [segMark, ho, hr]))))))))
theorem next_objRemovedR {x : AS} (hr : x.rm = .pre) (hR : x.R = true) : { x with R := false, rm := .np } ∈ next x :=
  mem_next.2 (Or.inr (Or.inr (Or.inr (Or.inr (Or.inr (Or.inr (Or.inr (Or.inl (by simp [segRm, hr, hR])))))))))
theorem next_objRemovedNoR {x : AS} (hr : x.rm = .pre) (hR : x.R = false) : { x with rm := .post } ∈ next x :=
  mem_next.2 (Or.inr (Or.inr (Or.inr (Or.inr (Or.inr (Or.inr (Or.inr (Or.inl (by simp [segRm, hr, hR])))))))))
theorem next_notice {x : AS} (hr : x.rm = .np) : { x with rm := .post, D := x.D ++ [.N] } ∈ next x :=
  mem_next.2 (Or.inr (Or.inr (Or.inr (Or.inr (Or.inr (Or.inr (Or.inr (Or.inl (by simp [segRm, hr])))))))))
theorem next_del {x : AS} (hr : x.rm = .post) : { x with obj := .absent, rm := .none } ∈ next x :=
  mem_next.2 (Or.inr (Or.inr (Or.inr (Or.inr (Or.inr (Or.inr (Or.inr (Or.inl (by simp [segRm, hr])))))))))
theorem next_reserve {x : AS} (ho : x.obj = .absent) (hr : x.rm = .none) : { x with obj := .reserved } ∈ next x :=
  mem_next.2 (Or.inr (Or.inr (Or.inr (Or.inr (Or.inr (Or.inr (Or.inr (Or.inr (Or.inl (by simp [segReserve, ho, hr]))))))))))
theorem next_register {x : AS} (ho : x.obj = .reserved) (hr : x.rm = .none) : { x with obj := .present } ∈ next x :=
  mem_next.2 (Or.inr (Or.inr (Or.inr (Or.inr (Or.inr (Or.inr (Or.inr (Or.inr (Or.inr (by simp [segRegister, ho, hr]))))))))))

end Proto

/-! ### how `absV` depends on the view -/

/-- two views that the abstraction cannot tell apart -/
structure VEq (cn : ConnId) (k : Key) (v v' : View) : Prop where
  rs : Peer.alias cn ∈ v'.rs ↔ Peer.alias cn ∈ v.rs
  ls : v'.ls = [] ↔ v.ls = []
  obj : v'.obj = v.obj
  po : v'.po = v.po
  hdl : ∀ id, v.po.map (·.cur) = some id → hdlTok (.alias cn) id v'.psp = hdlTok (.alias cn) id v.psp
  chan : dV cn k.ob k.sg (v.po.map (·.cur)) v' = dV cn k.ob k.sg (v.po.map (·.cur)) v
  sr : MOp.sigRemoved k ∈ v'.psa ↔ MOp.sigRemoved k ∈ v.psa
  wp : (MOp.peerRemoved k.pc ∈ v'.psa ∧ MOp.popPeer k.pc ∉ v'.psa) ↔ (MOp.peerRemoved k.pc ∈ v.psa ∧ MOp.popPeer k.pc ∉ v.psa)
  hr : ∀ id, v.po.map (·.cur) = some id → (MOp.handleReply id true ∈ v'.psa ↔ MOp.handleReply id true ∈ v.psa)

theorem VEq.rfl' (cn : ConnId) (k : Key) (v : View) : VEq cn k v v :=
  ⟨Iff.rfl, Iff.rfl, rfl, rfl, fun _ _ => rfl, rfl, Iff.rfl, Iff.rfl, fun _ _ => Iff.rfl⟩

theorem tokV_congr {cn : ConnId} {k : Key} {v v' : View} (h : VEq cn k v v') (id : ReqId) (hc : v.po.map (·.cur) = some id) :
    tokV cn k.ob k.sg v' id = tokV cn k.ob k.sg v id := by
  have := h.chan; rw [hc] at this
  simp only [tokV, h.hdl id hc, this, h.hr id hc]

theorem absV_congr {cn : ConnId} {k : Key} {v v' : View} (h : VEq cn k v v') (rm : Rm) (f : Bool) :
    absV cn k v' rm f = absV cn k v rm f := by
  have hls : (v'.ls ≠ []) ↔ (v.ls ≠ []) := not_congr h.ls
  have htok : (match v.po.map (·.cur) with
      | none => T.none
      | some id => if f then T.hr false else tokV cn k.ob k.sg v' id) =
      (match v.po.map (·.cur) with
      | none => T.none
      | some id => if f then T.hr false else tokV cn k.ob k.sg v id) := by
    cases hc : v.po.map (·.cur) with
    | none => rfl
    | some id => simp only [tokV_congr h id hc]
  simp only [absV, h.rs, hls, h.obj, h.po, h.chan, h.sr, h.wp]
  exact AS.ext' rfl rfl rfl rfl rfl htok rfl rfl rfl

theorem absV_tok_some {cn : ConnId} {k : Key} {v : View} {rm : Rm} {id : ReqId} (hc : v.po.map (·.cur) = some id) :
    (absV cn k v rm false).tok = tokV cn k.ob k.sg v id := by
  simp only [absV, hc, Bool.false_eq_true, if_false]

theorem absV_D {cn : ConnId} {k : Key} {v : View} {rm : Rm} {f : Bool} :
    (absV cn k v rm f).D = dV cn k.ob k.sg (v.po.map (·.cur)) v := rfl

theorem tokV_hdl {cn : ConnId} {ob : Obj} {sg : Sg} {v : View} {id : ReqId} {t : T} (h : hdlTok (.alias cn) id v.psp = some t) :
    tokV cn ob sg v id = t := by
  simp only [tokV, h]

/-- the handler hands the reply to the outstanding request to the event loop -/
theorem absV_enq_rep {cn : ConnId} {k : Key} {v : View} {rm : Rm} {id : ReqId} {ok : Bool}
    (hc : v.po.map (·.cur) = some id) :
    absV cn k { v with psp := [], lq := v.lq ++ [.smSend (.alias cn) (.subReply id ok)] } rm false =
      { absV cn k v rm false with tok := .inD, D := (absV cn k v rm false).D ++ [.Rep ok] } := by
  have hD : dV cn k.ob k.sg (some id) { v with psp := [], lq := v.lq ++ [.smSend (.alias cn) (.subReply id ok)] } =
      dV cn k.ob k.sg (some id) v ++ [.Rep ok] := by
    simp [dV, relevCb, relev]
  refine AS.ext' rfl rfl rfl rfl rfl ?_ ?_ rfl rfl
  · rw [absV_tok_some (by exact hc)]
    simp only [tokV, hdlTok, hD]
    simp [DTok.isRep]
  · simp only [absV_D]
    rw [show (({ v with psp := [], lq := v.lq ++ [.smSend (.alias cn) (.subReply id ok)] } : View).po.map (·.cur)) = some id from hc]
    exact hD

/-- the tables of the publisher side change, the channel and the programs do not -/
theorem absV_tables {cn : ConnId} {k : Key} {v : View} {rm rm' : Rm} {f : Bool} {rs' : List Peer} {obj' : ObjSt} :
    absV cn k { v with rs := rs', obj := obj' } rm' f =
      { absV cn k v rm f with R := decide (Peer.alias cn ∈ rs'), obj := obj', rm := rm' } := rfl

/-- the remover thread hands the removal notice for this peer and signal to the event loop -/
theorem absV_enq_N {cn : ConnId} {k : Key} {v : View} {rm rm' : Rm} {f : Bool} :
    absV cn k { v with lq := v.lq ++ [.smSend (.alias cn) (.removed k.ob k.sg)] } rm' f =
      { absV cn k v rm f with rm := rm', D := (absV cn k v rm f).D ++ [.N] } := by
  have hD : ∀ cur, dV cn k.ob k.sg cur { v with lq := v.lq ++ [.smSend (.alias cn) (.removed k.ob k.sg)] } =
      dV cn k.ob k.sg cur v ++ [.N] := by
    intro cur; simp [dV, relevCb, relev]
  refine AS.ext' rfl rfl rfl rfl rfl ?_ (hD _) rfl rfl
  simp only [absV]
  cases hc : v.po.map (·.cur) with
  | none => rfl
  | some id =>
    simp only
    cases f
    · simp only [Bool.false_eq_true, if_false, tokV, hD, List.any_append, List.any_cons, List.any_nil, DTok.isRep, Bool.or_false]
    · rfl

/-- something the abstraction does not look at is appended to the publisher's event-loop queue -/
theorem absV_enq_other {cn : ConnId} {k : Key} {v : View} {rm : Rm} {f : Bool} {cb : Cb}
    (h : relevCb cn k.ob k.sg (v.po.map (·.cur)) cb = none) :
    absV cn k { v with lq := v.lq ++ [cb] } rm f = absV cn k v rm f := by
  refine absV_congr (v := v) (v' := { v with lq := v.lq ++ [cb] })
    ⟨Iff.rfl, Iff.rfl, rfl, rfl, fun _ _ => rfl, ?_, Iff.rfl, Iff.rfl, fun _ _ => Iff.rfl⟩ rm f
  simp [dV, h]

/-- the subscriber's tables and socket program change; the other inputs and the observations of the socket program
other than the cleanup flag do not -/
theorem absV_aside {cn : ConnId} {k : Key} {v : View} {rm : Rm} {f : Bool} {ls' : List Rcv} {psa' : List MOp}
    (hsr : MOp.sigRemoved k ∈ psa' ↔ MOp.sigRemoved k ∈ v.psa)
    (hhr : ∀ id, v.po.map (·.cur) = some id → (MOp.handleReply id true ∈ psa' ↔ MOp.handleReply id true ∈ v.psa)) :
    absV cn k { v with ls := ls', psa := psa' } rm f =
      { absV cn k v rm f with A := decide (ls' ≠ []), wp := decide (MOp.peerRemoved k.pc ∈ psa' ∧ MOp.popPeer k.pc ∉ psa') } := by
  refine AS.ext' rfl rfl rfl rfl rfl ?_ rfl ?_ rfl
  · simp only [absV]
    cases hc : v.po.map (·.cur) with
    | none => rfl
    | some id =>
      simp only
      cases f
      · simp only [Bool.false_eq_true, if_false, tokV, dV]
        by_cases h1 : MOp.handleReply id true ∈ v.psa
        · have h2 := (hhr id hc).2 h1
          simp only [h1, h2, if_true]
        · have h2 := mt (hhr id hc).1 h1
          simp only [h1, h2, if_false]
      · rfl
  · simp only [absV]
    by_cases h1 : MOp.sigRemoved k ∈ v.psa
    · simp only [h1, hsr.2 h1]
    · simp only [h1, mt hsr.1 h1]

/-- no reply to request `id` is in the channel -/
def NoRep (cn : ConnId) (id : ReqId) (v : View) : Prop :=
  (∀ ok, Msg.subReply id ok ∉ v.ib) ∧ (∀ ok, Cb.smSend (.alias cn) (.subReply id ok) ∉ v.lq)

theorem relev_noRep {ob : Obj} {sg : Sg} {id : ReqId} {l : List Msg} (h : ∀ ok, Msg.subReply id ok ∉ l) :
    l.filterMap (relev ob sg (some id)) = l.filterMap (relev ob sg none) := by
  induction l with
  | nil => rfl
  | cons m l ih =>
    have h1 : ∀ ok, Msg.subReply id ok ∉ l := fun ok hm => h ok (List.mem_cons_of_mem _ hm)
    have hm : relev ob sg (some id) m = relev ob sg none m := by
      cases m with
      | subReply i ok =>
        simp only [relev, Option.some.injEq, reduceCtorEq, if_false]
        rw [if_neg]
        intro e; subst e; exact h ok List.mem_cons_self
      | _ => rfl
    simp only [List.filterMap_cons, hm, ih h1]

theorem relevCb_noRep {cn : ConnId} {ob : Obj} {sg : Sg} {id : ReqId} {l : List Cb}
    (h : ∀ ok, Cb.smSend (.alias cn) (.subReply id ok) ∉ l) :
    l.filterMap (relevCb cn ob sg (some id)) = l.filterMap (relevCb cn ob sg none) := by
  induction l with
  | nil => rfl
  | cons cb l ih =>
    have h1 : ∀ ok, Cb.smSend (.alias cn) (.subReply id ok) ∉ l := fun ok hm => h ok (List.mem_cons_of_mem _ hm)
    have hm : relevCb cn ob sg (some id) cb = relevCb cn ob sg none cb := by
      cases cb with
      | smSend d m =>
        simp only [relevCb]
        split
        · rename_i e; subst e
          cases m with
          | subReply i ok =>
            simp only [relev, Option.some.injEq, reduceCtorEq, if_false]
            rw [if_neg]
            intro e; subst e; exact h ok List.mem_cons_self
          | _ => rfl
        · rfl
      | disconnect n t => rfl
    simp only [List.filterMap_cons, hm, ih h1]

theorem dV_noRep {cn : ConnId} {ob : Obj} {sg : Sg} {id : ReqId} {v : View} (h : NoRep cn id v) :
    dV cn ob sg (some id) v = dV cn ob sg none v := by
  simp only [dV, relev_noRep h.1, relevCb_noRep h.2]

theorem dV_none_noRep {cn : ConnId} {ob : Obj} {sg : Sg} {v : View} : (dV cn ob sg none v).any DTok.isRep = false := by
  simp only [dV, List.any_append, Bool.or_eq_false_iff, List.any_eq_false, List.mem_filterMap]
  constructor
  · rintro t ⟨m, -, hm⟩
    cases m <;> simp only [relev, reduceCtorEq, if_false] at hm <;> (try (cases hm; done))
    split at hm <;> cases hm; simp [DTok.isRep]
  · rintro t ⟨cb, -, hm⟩
    cases cb with
    | smSend d m =>
      simp only [relevCb] at hm
      split at hm
      · cases m <;> simp only [relev, reduceCtorEq, if_false] at hm <;> (try (cases hm; done))
        split at hm <;> cases hm; simp [DTok.isRep]
      · cases hm
    | disconnect n t => cases hm

/-- a request that is neither with the handler nor answered is on its way, or its positive reply is about to be handled -/
theorem tokV_client {cn : ConnId} {ob : Obj} {sg : Sg} {v : View} {id : ReqId}
    (h1 : hdlTok (.alias cn) id v.psp = none) (h2 : NoRep cn id v) :
    tokV cn ob sg v id = if MOp.handleReply id true ∈ v.psa then .hr true else .req := by
  simp only [tokV, h1, dV_noRep h2, dV_none_noRep, Bool.false_eq_true, if_false]

/-- the program of the subscriber's socket thread changes in a way the abstraction does not see -/
theorem absV_psa_congr {cn : ConnId} {k : Key} {v : View} {rm : Rm} {f : Bool} {psa' : List MOp}
    (hsr : MOp.sigRemoved k ∈ psa' ↔ MOp.sigRemoved k ∈ v.psa)
    (hpr : MOp.peerRemoved k.pc ∈ psa' ↔ MOp.peerRemoved k.pc ∈ v.psa)
    (hpp : MOp.popPeer k.pc ∈ psa' ↔ MOp.popPeer k.pc ∈ v.psa)
    (hhr : ∀ id, v.po.map (·.cur) = some id → (MOp.handleReply id true ∈ psa' ↔ MOp.handleReply id true ∈ v.psa)) :
    absV cn k { v with psa := psa' } rm f = absV cn k v rm f :=
  absV_congr (v := v) (v' := { v with psa := psa' })
    ⟨Iff.rfl, Iff.rfl, rfl, rfl, fun _ _ => rfl, rfl, hsr, and_congr hpr (not_congr hpp), hhr⟩ rm f

/-- the tables of the subscriber for the key change -/
theorem absV_retable {cn : ConnId} {k : Key} {v : View} {rm : Rm} {f f' : Bool} {ls' : List Rcv} {po' : Option PObj} {t' : T}
    (hD : dV cn k.ob k.sg (po'.map (·.cur)) v = dV cn k.ob k.sg (v.po.map (·.cur)) v)
    (ht : (match po'.map (·.cur) with
      | none => T.none
      | some id => if f' then T.hr false else tokV cn k.ob k.sg v id) = t') :
    absV cn k { v with ls := ls', po := po' } rm f' =
      { absV cn k v rm f with A := decide (ls' ≠ []), pend := pendP po', tok := t' } :=
  AS.ext' rfl rfl rfl rfl rfl ht hD rfl rfl

theorem hdlTok_not_hr {src : Peer} {id : ReqId} {l : List MOp} {t : T} (h : hdlTok src id l = some t) : t ≠ .hr true := by
  intro e; subst e
  unfold hdlTok at h
  split at h <;> (try split at h) <;> simp at h

/-- the subscriber's socket thread reads a removal notice for the signal -/
theorem absV_readN {cn : ConnId} {k : Key} {v : View} {rm : Rm} {f : Bool} {ms : List Msg}
    (hib : v.ib = .removed k.ob k.sg :: ms) (hpsa : v.psa = []) :
    (absV cn k v rm f).D = .N :: (absV cn k { v with ib := ms, psa := [.sigRemoved k] } rm f).D ∧
    absV cn k { v with ib := ms, psa := [.sigRemoved k] } rm f =
      { absV cn k v rm f with sr := true, D := (absV cn k { v with ib := ms, psa := [.sigRemoved k] } rm f).D } ∧
    idleSock (absV cn k v rm f) = true := by
  have hD : ∀ cur, dV cn k.ob k.sg cur v = .N :: dV cn k.ob k.sg cur { v with ib := ms, psa := [.sigRemoved k] } := by
    intro cur; simp [dV, hib, relev]
  refine ⟨hD _, ?_, ?_⟩
  · refine AS.ext' rfl rfl rfl rfl rfl ?_ rfl ?_ ?_
    · simp only [absV]
      cases hc : v.po.map (·.cur) with
      | none => rfl
      | some id =>
        simp only
        cases f
        · simp only [Bool.false_eq_true, if_false, tokV, hD (some id), List.any_cons, DTok.isRep, Bool.false_or, hpsa]
          simp
        · rfl
    · simp [absV]
    · simp [absV, hpsa]
  · simp only [idleSock, absV, hpsa]
    cases hc : v.po.map (·.cur) with
    | none => simp
    | some id =>
      cases f
      · simp only [Bool.false_eq_true, if_false, tokV, hpsa]
        cases hh : hdlTok (.alias cn) id v.psp with
        | none => simp; split <;> simp
        | some t =>
          have := hdlTok_not_hr hh
          simp [this]
      · simp

/-- the subscriber's socket thread reads the reply to the outstanding request -/
theorem absV_readRep {cn : ConnId} {k : Key} {v : View} {rm : Rm} {ms : List Msg} {id : ReqId} {ok : Bool}
    (hc : v.po.map (·.cur) = some id) (hib : v.ib = .subReply id ok :: ms) (hpsa : v.psa = [])
    (hh : hdlTok (.alias cn) id v.psp = none) (hnr : NoRep cn id { v with ib := ms, psa := [.handleReply id ok] }) :
    (absV cn k v rm false).D = .Rep ok :: (absV cn k { v with ib := ms, psa := [.handleReply id ok] } rm (!ok)).D ∧
    idleSock (absV cn k v rm false) = true ∧
    absV cn k { v with ib := ms, psa := [.handleReply id ok] } rm (!ok) =
      { absV cn k v rm false with tok := .hr ok, D := (absV cn k { v with ib := ms, psa := [.handleReply id ok] } rm (!ok)).D } := by
  have hD : dV cn k.ob k.sg (some id) v = .Rep ok :: dV cn k.ob k.sg (some id) { v with ib := ms, psa := [.handleReply id ok] } := by
    simp [dV, hib, relev]
  have htok : (absV cn k v rm false).tok = .inD := by
    rw [absV_tok_some hc]
    simp only [tokV, hh, hD, List.any_cons, DTok.isRep, Bool.true_or, if_true]
  refine ⟨?_, ?_, ?_⟩
  · simp only [absV_D]
    rw [show (({ v with ib := ms, psa := [.handleReply id ok] } : View).po.map (·.cur)) = some id from hc]
    exact hD
  · simp only [idleSock, htok]
    simp [absV, hpsa]
  · refine AS.ext' rfl rfl rfl rfl rfl ?_ rfl ?_ ?_
    · simp only [absV]
      rw [show (({ v with ib := ms, psa := [.handleReply id ok] } : View).po.map (·.cur)) = some id from hc]
      simp only
      cases ok with
      | false => simp
      | true =>
        simp only [Bool.not_true, Bool.false_eq_true, if_false]
        rw [tokV_client (by exact hh) hnr]
        simp
    · simp [absV, hpsa]
    · simp [absV, hpsa]

/-- the abstract states a new connection starts in -/
theorem mem_inits {x : AS} (hR : x.R = false) (hD : x.D = []) (hsr : x.sr = false)
    (hrm : x.rm = .none ∨ ((x.rm = .pre ∨ x.rm = .post) ∧ x.obj = .reserved))
    (hpt : (x.pend = .none ∧ x.tok = .none) ∨ (x.pend ≠ .none ∧ (x.tok = .req ∨ x.tok = .hr false)))
    (hA : x.A = true → x.wp = true) : x ∈ inits := by
  obtain ⟨R, A, obj, rm, pend, tok, D, sr, wp⟩ := x
  simp only at hR hD hsr hrm hpt hA
  subst hR hD hsr
  simp only [inits, List.mem_flatMap, List.mem_cons, List.not_mem_nil, or_false]
  refine ⟨obj, by cases obj <;> simp, rm, ?_, ?_⟩
  · rcases hrm with rfl | ⟨rfl | rfl, -⟩ <;> simp
  · have hc : (rm = Rm.none ∨ obj = ObjSt.reserved) := by
      rcases hrm with h | ⟨-, h⟩
      · exact Or.inl h
      · exact Or.inr h
    rw [if_pos hc]
    simp only [List.mem_flatMap, List.mem_map, List.mem_cons, List.not_mem_nil, or_false]
    refine ⟨(A, pend, tok), ?_, wp, ?_, rfl⟩
    · rcases hpt with ⟨rfl, rfl⟩ | ⟨hp, rfl | rfl⟩
      · cases A <;> simp
      · cases A <;> cases pend <;> (try (rename_i b; cases b)) <;> simp_all
      · cases A <;> cases pend <;> (try (rename_i b; cases b)) <;> simp_all
    · cases A
      · cases wp <;> simp
      · simp [hA rfl]

end QmiModel.PubSub
