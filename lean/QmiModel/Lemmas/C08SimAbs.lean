import QmiModel.Lemmas.C08Abs
import QmiModel.Lemmas.C08ProtoSafe
/-! C08, simulation layer — the transitions of the abstract protocol as membership lemmas of `Proto.next`, and how the
abstraction of a view (`absV`) depends on the parts of the view. -/
set_option linter.unusedSimpArgs false
namespace QmiModel.PubSub
open Proto

theorem AS.ext' {x y : AS} (h1 : x.R = y.R) (h2 : x.A = y.A) (h3 : x.obj = y.obj) (h4 : x.rm = y.rm) (h5 : x.pend = y.pend)
    (h6 : x.tok = y.tok) (h7 : x.D = y.D) (h8 : x.sr = y.sr) (h9 : x.wp = y.wp) : x = y := by
  cases x; cases y; simp_all

namespace Proto

/-! ### the transitions -/

theorem mem_next {x y : AS} :
    y ∈ next x ↔ y ∈ segSub x ∨ y ∈ segUnsub x ∨ y ∈ segTok x ∨ y ∈ segRead x ∨ y ∈ segSr x ∨ y ∈ segWp x ∨ y ∈ segMark x ∨
      y ∈ segRm x ∨ y ∈ segReserve x ∨ y ∈ segRegister x := by
  simp only [next, List.mem_append, or_assoc]

theorem next_subNew {x : AS} (hA : x.A = false) (hp : x.pend = .none) : { x with pend := .sub false, tok := .req } ∈ next x :=
  mem_next.2 (Or.inl (by simp [segSub, hA, hp]))
theorem next_subJoin {x : AS} (hA : x.A = false) {w : Bool} (hp : x.pend = .unsub w) : { x with pend := .unsub true } ∈ next x :=
  mem_next.2 (Or.inl (by simp [segSub, hA, hp]))
theorem next_unsubNew {x : AS} (hA : x.A = true) (hp : x.pend = .none) :
    { x with A := false, pend := .unsub false, tok := .req } ∈ next x :=
  mem_next.2 (Or.inr (Or.inl (by simp [segUnsub, hA, hp])))
theorem next_unsubPending {x : AS} (hA : x.A = true) (hp : x.pend ≠ .none) : { x with A := false } ∈ next x :=
  mem_next.2 (Or.inr (Or.inl (by cases h : x.pend <;> simp_all [segUnsub])))
theorem next_reqSub {x : AS} (ht : x.tok = .req) {m : Bool} (hp : x.pend = .sub m) : { x with tok := .chk1 } ∈ next x :=
  mem_next.2 (Or.inr (Or.inr (Or.inl (by simp [segTok, ht, hp]))))
theorem next_reqUnsub {x : AS} (ht : x.tok = .req) {w : Bool} (hp : x.pend = .unsub w) : { x with tok := .preRem true } ∈ next x :=
  mem_next.2 (Or.inr (Or.inr (Or.inl (by simp [segTok, ht, hp]))))
theorem next_chk1Ok {x : AS} (ht : x.tok = .chk1) (ho : x.obj = .present) : { x with tok := .preAdd } ∈ next x :=
  mem_next.2 (Or.inr (Or.inr (Or.inl (by simp [segTok, ht, ho]))))
theorem next_chk1Fail {x : AS} (ht : x.tok = .chk1) (ho : x.obj ≠ .present) : { x with tok := .rep false } ∈ next x :=
  mem_next.2 (Or.inr (Or.inr (Or.inl (by simp [segTok, ht, ho]))))
theorem next_add {x : AS} (ht : x.tok = .preAdd) : { x with tok := .added, R := true } ∈ next x :=
  mem_next.2 (Or.inr (Or.inr (Or.inl (by simp [segTok, ht]))))
theorem next_chk2Ok {x : AS} (ht : x.tok = .added) (ho : x.obj = .present) : { x with tok := .rep true } ∈ next x :=
  mem_next.2 (Or.inr (Or.inr (Or.inl (by simp [segTok, ht, ho]))))
theorem next_chk2Fail {x : AS} (ht : x.tok = .added) (ho : x.obj ≠ .present) : { x with tok := .preRem false } ∈ next x :=
  mem_next.2 (Or.inr (Or.inr (Or.inl (by simp [segTok, ht, ho]))))
theorem next_rem {x : AS} {ok : Bool} (ht : x.tok = .preRem ok) : { x with tok := .rep ok, R := false } ∈ next x :=
  mem_next.2 (Or.inr (Or.inr (Or.inl (by simp [segTok, ht]))))
theorem next_repEnq {x : AS} {ok : Bool} (ht : x.tok = .rep ok) : { x with tok := .inD, D := x.D ++ [.Rep ok] } ∈ next x :=
  mem_next.2 (Or.inr (Or.inr (Or.inl (by simp [segTok, ht]))))
theorem next_hrSubDone {x : AS} {ok m : Bool} (ht : x.tok = .hr ok) (hp : x.pend = .sub m) (h : (ok && m) = false) :
    { x with A := x.A || ok, pend := .none, tok := .none } ∈ next x :=
  mem_next.2 (Or.inr (Or.inr (Or.inl (by simp [segTok, ht, hp, h]))))
theorem next_hrSubRetry {x : AS} (ht : x.tok = .hr true) (hp : x.pend = .sub true) :
    { x with pend := .sub false, tok := .req } ∈ next x :=
  mem_next.2 (Or.inr (Or.inr (Or.inl (by simp [segTok, ht, hp]))))
theorem next_hrUnsubDone {x : AS} {ok : Bool} (ht : x.tok = .hr ok) (hp : x.pend = .unsub false) :
    { x with pend := .none, tok := .none } ∈ next x :=
  mem_next.2 (Or.inr (Or.inr (Or.inl (by simp [segTok, ht, hp]))))
theorem next_hrUnsubRetry {x : AS} {ok : Bool} (ht : x.tok = .hr ok) (hp : x.pend = .unsub true) :
    { x with pend := .sub false, tok := .req } ∈ next x :=
  mem_next.2 (Or.inr (Or.inr (Or.inl (by simp [segTok, ht, hp]))))
theorem next_readRep {x : AS} {ok : Bool} {d : List DTok} (hi : idleSock x = true) (hd : x.D = .Rep ok :: d) :
    { x with tok := .hr ok, D := d } ∈ next x :=
  mem_next.2 (Or.inr (Or.inr (Or.inr (Or.inl (by simp [segRead, hi, hd])))))
theorem next_readN {x : AS} {d : List DTok} (hi : idleSock x = true) (hd : x.D = .N :: d) : { x with sr := true, D := d } ∈ next x :=
  mem_next.2 (Or.inr (Or.inr (Or.inr (Or.inl (by simp [segRead, hi, hd])))))
theorem next_sr {x : AS} (h : x.sr = true) :
    { x with sr := false, A := false, pend := x.pend.mark } ∈ next x :=
  mem_next.2 (Or.inr (Or.inr (Or.inr (Or.inr (Or.inl (by simp [segSr, h]))))))
theorem next_wp {x : AS} (h : x.wp = true) : { x with wp := false, A := false } ∈ next x :=
  mem_next.2 (Or.inr (Or.inr (Or.inr (Or.inr (Or.inr (Or.inl (by simp [segWp, h])))))))
theorem next_mark {x : AS} (ho : x.obj = .present) (hr : x.rm = .none) : { x with obj := .reserved, rm := .pre } ∈ next x :=
  mem_next.2 (Or.inr (Or.inr (Or.inr (Or.inr (Or.inr (Or.inr (Or.inl (by simp [segMark, ho, hr]))))))))
theorem next_objRemovedR {x : AS} (hr : x.rm = .pre) (hR : x.R = true) : { x with R := false, rm := .np } ∈ next x :=
  mem_next.2 (Or.inr (Or.inr (Or.inr (Or.inr (Or.inr (Or.inr (Or.inr (Or.inl (by simp [segRm, hr, hR])))))))))
theorem next_objRemovedNoR {x : AS} (hr : x.rm = .pre) (hR : x.R = false) : { x with rm := .post } ∈ next x :=
  mem_next.2 (Or.inr (Or.inr (Or.inr (Or.inr (Or.inr (Or.inr (Or.inr (Or.inl (by simp [segRm, hr, hR])))))))))
theorem next_notice {x : AS} (hr : x.rm = .np) : { x with rm := .post, D := x.D ++ [.N] } ∈ next x :=
  mem_next.2 (Or.inr (Or.inr (Or.inr (Or.inr (Or.inr (Or.inr (Or.inr (Or.inl (by simp [segRm, hr])))))))))
theorem next_del {x : AS} (hr : x.rm = .post) : { x with obj := .absent, rm := .none } ∈ next x :=
  mem_next.2 (Or.inr (Or.inr (Or.inr (Or.inr (Or.inr (Or.inr (Or.inr (Or.inl (by simp [segRm, hr])))))))))
theorem next_reserve {x : AS} (ho : x.obj = .absent) (hr : x.rm = .none) : { x with obj := .reserved } ∈ next x :=
  mem_next.2 (Or.inr (Or.inr (Or.inr (Or.inr (Or.inr (Or.inr (Or.inr (Or.inr (Or.inl (by simp [segReserve, ho, hr]))))))))))
theorem next_register {x : AS} (ho : x.obj = .reserved) (hr : x.rm = .none) : { x with obj := .present } ∈ next x :=
  mem_next.2 (Or.inr (Or.inr (Or.inr (Or.inr (Or.inr (Or.inr (Or.inr (Or.inr (Or.inr (by simp [segRegister, ho, hr]))))))))))

end Proto

/-! ### how `absV` depends on the view -/

/-- two views that the abstraction cannot tell apart -/
structure VEq (cn : ConnId) (k : Key) (v v' : View) : Prop where
  rs : Peer.alias cn ∈ v'.rs ↔ Peer.alias cn ∈ v.rs
  ls : v'.ls = [] ↔ v.ls = []
  obj : v'.obj = v.obj
  po : v'.po = v.po
  hdl : ∀ id, hdlTok (.alias cn) id v'.psp = hdlTok (.alias cn) id v.psp
  chan : ∀ cur, dV cn k.ob k.sg cur v' = dV cn k.ob k.sg cur v
  sr : MOp.sigRemoved k ∈ v'.psa ↔ MOp.sigRemoved k ∈ v.psa
  pr : MOp.peerRemoved k.pc ∈ v'.psa ↔ MOp.peerRemoved k.pc ∈ v.psa
  pp : MOp.popPeer k.pc ∈ v'.psa ↔ MOp.popPeer k.pc ∈ v.psa
  hr : ∀ id, MOp.handleReply id true ∈ v'.psa ↔ MOp.handleReply id true ∈ v.psa

theorem VEq.rfl' (cn : ConnId) (k : Key) (v : View) : VEq cn k v v :=
  ⟨Iff.rfl, Iff.rfl, rfl, rfl, fun _ => rfl, fun _ => rfl, Iff.rfl, Iff.rfl, Iff.rfl, fun _ => Iff.rfl⟩

theorem tokV_congr {cn : ConnId} {k : Key} {v v' : View} (h : VEq cn k v v') (id : ReqId) :
    tokV cn k.ob k.sg v' id = tokV cn k.ob k.sg v id := by
  simp only [tokV, h.hdl, h.chan, h.hr]

theorem absV_congr {cn : ConnId} {k : Key} {v v' : View} (h : VEq cn k v v') (rm : Rm) (f : Bool) :
    absV cn k v' rm f = absV cn k v rm f := by
  have hls : (v'.ls ≠ []) ↔ (v.ls ≠ []) := not_congr h.ls
  simp only [absV, h.rs, hls, h.obj, h.po, h.chan, h.sr, h.pr, h.pp, tokV_congr h]

end QmiModel.PubSub
