import QmiModel.Lemmas.C08NetOpen
import QmiModel.Lemmas.C07NetFifo
/-! C08, network layer — request ids (`IdInv`): every request id in flight is below `nextReq` of its context; requests
are registered on client ends only; a closed end of a live context has no registered request. -/
namespace QmiModel.PubSub

def Msg.idOk (N : Nat) : Msg → Bool
  | .subReq id _ _ _ => decide (id < N)
  | _ => true

def MOp.idOk (N : Nat) : MOp → Bool
  | .sendChk _ m => m.idOk N
  | .enq _ m => m.idOk N
  | _ => true

def Cb.idOk (N : Nat) : Cb → Bool
  | .smSend _ m => m.idOk N
  | _ => true

def idOps (N : Nat) (l : List MOp) : Bool := l.all (MOp.idOk N)

theorem idOps_cons (N : Nat) (op : MOp) (l : List MOp) : idOps N (op :: l) = (op.idOk N && idOps N l) := by simp [idOps]
theorem idOps_append (N : Nat) (l m : List MOp) : idOps N (l ++ m) = (idOps N l && idOps N m) := by simp [idOps]

theorem Msg.idOk_mono {N M : Nat} (h : N ≤ M) {m : Msg} (hm : m.idOk N = true) : m.idOk M = true := by
  cases m <;> simp only [Msg.idOk, decide_eq_true_eq] at hm ⊢ <;> first | rfl | exact Nat.lt_of_lt_of_le hm h

theorem MOp.idOk_mono {N M : Nat} (h : N ≤ M) {op : MOp} (hm : op.idOk N = true) : op.idOk M = true := by
  cases op <;> simp only [MOp.idOk] at hm ⊢ <;> first | rfl | exact Msg.idOk_mono h hm

theorem idOps_mono {N M : Nat} (h : N ≤ M) {l : List MOp} (hl : idOps N l = true) : idOps M l = true := by
  simp only [idOps, List.all_eq_true] at hl ⊢
  exact fun op ho => MOp.idOk_mono h (hl op ho)

theorem handleReplyStep_id {cs cs' : CtxSt} {id : ReqId} {ok : Bool} {more : List MOp} {o : Out}
    (h : handleReplyStep cs id ok = some (cs', more, o)) : cs.nextReq ≤ cs'.nextReq ∧ idOps cs'.nextReq more = true := by
  unfold handleReplyStep at h
  split at h
  · simp only [Option.some.injEq, Prod.mk.injEq] at h; obtain ⟨rfl, rfl, rfl⟩ := h; exact ⟨Nat.le_refl _, rfl⟩
  · split at h
    · simp only [Option.some.injEq, Prod.mk.injEq] at h; obtain ⟨rfl, rfl, rfl⟩ := h; exact ⟨Nat.le_refl _, rfl⟩
    · split at h
      · simp only [Option.some.injEq, Prod.mk.injEq] at h; obtain ⟨rfl, rfl, -⟩ := h; exact ⟨Nat.le_refl _, rfl⟩
      · split at h
        · simp only [Option.some.injEq, Prod.mk.injEq] at h; obtain ⟨rfl, rfl, -⟩ := h
          exact ⟨Nat.le_succ _, by simp [idOps, MOp.idOk, Msg.idOk]⟩
        · simp only [Option.some.injEq, Prod.mk.injEq] at h; obtain ⟨rfl, rfl, -⟩ := h; exact ⟨Nat.le_refl _, rfl⟩

set_option maxHeartbeats 2000000 in
/-- a micro step never decreases `nextReq`, and the ids it puts into its program and event-loop queue are below it -/
theorem microStep_idOps {s s' : State} {th : Th} {ch ch2 : Nat} {op : MOp} {rest : List MOp} {o : Out}
    (hop : op.idOk (s.ctx th.ctx).nextReq = true) (hrest : idOps (s.ctx th.ctx).nextReq rest = true)
    (hcb : ∀ cb ∈ (s.ctx th.ctx).loopQ, cb.idOk (s.ctx th.ctx).nextReq = true)
    (hs : microStep s th ch ch2 op rest = some (s', o)) :
    (s.ctx th.ctx).nextReq ≤ (s'.ctx th.ctx).nextReq ∧ idOps (s'.ctx th.ctx).nextReq (s'.prog th) = true ∧
    (∀ cb ∈ (s'.ctx th.ctx).loopQ, cb.idOk (s'.ctx th.ctx).nextReq = true) := by
  have hrest1 : idOps ((s.ctx th.ctx).nextReq + 1) rest = true := idOps_mono (Nat.le_succ _) hrest
  have hcb1 : ∀ cb ∈ (s.ctx th.ctx).loopQ, cb.idOk ((s.ctx th.ctx).nextReq + 1) = true := by
    intro cb hm; have := hcb cb hm
    cases cb with
    | smSend d m => exact Msg.idOk_mono (Nat.le_succ _) this
    | disconnect n t => rfl
  cases op <;> simp only [microStep] at hs
  all_goals (try (split at hs))
  all_goals (try (split at hs))
  all_goals (try (split at hs))
  all_goals (try (split at hs))
  all_goals (try (simp at hs))
  all_goals (try (obtain ⟨rfl, -⟩ := hs))
  all_goals (simp only [setProg_prog, setProg_ctx, setCtx_ctx, if_true, State.setProg, upd])
  all_goals (try (have hh := handleReplyStep_id ‹handleReplyStep _ _ _ = some _›
                  have hfl := handleReplyStep_fields ‹handleReplyStep _ _ _ = some _›
                  refine ⟨hh.1, ?_, ?_⟩
                  · rw [idOps_append, hh.2, idOps_mono hh.1 hrest]; rfl
                  · rw [hfl.2.2.2.1]; intro cb hm; have := hcb cb hm
                    cases cb with
                    | smSend d m => exact Msg.idOk_mono hh.1 this
                    | disconnect n t => rfl))
  all_goals (try (refine ⟨Nat.le_refl _, ?_, hcb⟩))
  all_goals (try split)
  all_goals (try exact hrest)
  all_goals (try (simp only [MOp.idOk] at hop))
  all_goals (try (simp [idOps_cons, idOps_append, MOp.idOk, Msg.idOk, hrest, hop]; done))
  all_goals (try (simp [idOps]; done))
  all_goals first
    | (rename_i m _; cases m <;> simp [onSendFail, idOps_cons, idOps_append, MOp.idOk, hrest]; done)
    | (refine ⟨Nat.le_refl _, hrest, ?_⟩
       intro cb hm; rcases List.mem_append.1 hm with h1 | h1
       · exact hcb cb h1
       · simp only [List.mem_singleton] at h1; subst h1; first | exact hop | rfl)
    | (refine ⟨Nat.le_succ _, ?_, hcb1⟩
       simp [idOps_cons, MOp.idOk, Msg.idOk, hrest1]; done)
    | (rw [idOps_append, hrest, Bool.and_true]; simp [idOps, MOp.idOk]; done)
    | (simp [idOps, MOp.idOk]; done)
    | (simp only [idOps_cons, MOp.idOk, hop, hrest]; rfl)

structure IdInv (s : State) : Prop where
  ops : ∀ th, idOps (s.ctx th.ctx).nextReq (s.prog th) = true
  cbs : ∀ c, ∀ cb ∈ (s.ctx c).loopQ, cb.idOk (s.ctx c).nextReq = true
  pend : ∀ n cli id, id ∈ ((s.conn n).half cli).pend → id < (s.ctx ((s.conn n).half cli).owner).nextReq
  pendS : ∀ n, ((s.conn n).half false).pend = []
  pendClosed : ∀ n cli, ((s.conn n).half cli).isOpen = false → (s.ctx ((s.conn n).half cli).owner).alive = true →
    ((s.conn n).half cli).pend = []

theorem idInv_init : IdInv State.init := by
  constructor <;> simp [State.init, CtxSt.init, Half.init, Conn.half, idOps]

/-- connection ends under a micro step: unchanged, or closed with everything cleared -/
theorem microStep_half {s s' : State} {th : Th} {ch ch2 : Nat} {op : MOp} {rest : List MOp} {o : Out}
    (hs : microStep s th ch ch2 op rest = some (s', o)) (n : ConnId) (cli : Bool) :
    (s'.conn n).half cli = (s.conn n).half cli ∨
    (((s'.conn n).half cli).isOpen = false ∧ ((s'.conn n).half cli).pend = [] ∧ ((s'.conn n).half cli).inbox = [] ∧
      op = .closeConn n cli) := by
  by_cases hc : op.isClose = true
  · cases op <;> simp only [MOp.isClose] at hc <;> try contradiction
    simp only [microStep, Option.some.injEq, Prod.mk.injEq] at hs
    obtain ⟨rfl, -⟩ := hs
    simp only [setProg_conn, upd]; split
    · rename_i e; subst e; rw [half_setHalf']; split
      · rename_i e; subst e; exact Or.inr ⟨rfl, rfl, rfl, rfl⟩
      · exact Or.inl rfl
    · exact Or.inl rfl
  · rw [(microStep_fields hs).conn (by simpa using hc)]; exact Or.inl rfl

theorem microStep_nextReq_other {s s' : State} {th : Th} {ch ch2 : Nat} {op : MOp} {rest : List MOp} {o : Out}
    (hs : microStep s th ch ch2 op rest = some (s', o)) {c : Ctx} (h : c ≠ th.ctx) : (s'.ctx c).nextReq = (s.ctx c).nextReq := by
  rw [(microStep_frame hs).ctx_other c h]

theorem idInv_micro {s s' : State} {th : Th} {ch ch2 : Nat} {op : MOp} {rest : List MOp} {o : Out}
    (h : IdInv s) (hprog : s.prog th = op :: rest) (hs : microStep s th ch ch2 op rest = some (s', o)) : IdInv s' := by
  have hf := microStep_frame hs
  have hown := microStep_owner hs
  have hops := h.ops th
  rw [hprog, idOps_cons, Bool.and_eq_true] at hops
  obtain ⟨k1, k2, k3⟩ := microStep_idOps hops.1 hops.2 (h.cbs th.ctx) hs
  have hle : ∀ c, (s.ctx c).nextReq ≤ (s'.ctx c).nextReq := by
    intro c
    by_cases e : c = th.ctx
    · subst e; exact k1
    · rw [hf.ctx_other c e]; exact Nat.le_refl _
  constructor
  · intro th'
    by_cases e : th' = th
    · subst e; exact k2
    · rw [hf.prog_other _ e]; exact idOps_mono (hle _) (h.ops th')
  · intro c
    by_cases e : c = th.ctx
    · subst e; exact k3
    · rw [hf.ctx_other c e]; exact h.cbs c
  · intro n cli id hm
    rw [hown]
    rcases microStep_half hs n cli with e | ⟨-, e, -, -⟩ <;> rw [e] at hm
    · exact Nat.lt_of_lt_of_le (h.pend n cli id hm) (hle _)
    · simp at hm
  · intro n
    rcases microStep_half hs n false with e | ⟨-, e, -, -⟩ <;> rw [e]
    exact h.pendS n
  · intro n cli hcl hal
    rcases microStep_half hs n cli with e | ⟨-, e, -, -⟩
    · rw [e] at hcl ⊢
      rw [hown, (microStep_fields hs).alive] at hal
      exact h.pendClosed n cli hcl hal
    · exact e

/-- the actions that leave request ids, owners, open flags and liveness alone -/
theorem IdInv.of {s s' : State} (h : IdInv s)
    (hprog : ∀ th, s'.prog th = s.prog th ∨ ∀ N, idOps N (s'.prog th) = true)
    (hlq : ∀ c, ∀ cb ∈ (s'.ctx c).loopQ, cb ∈ (s.ctx c).loopQ)
    (hnr : ∀ c, (s'.ctx c).nextReq = (s.ctx c).nextReq) (hal : ∀ c, (s'.ctx c).alive = true → (s.ctx c).alive = true)
    (hown : ∀ n cli, ((s'.conn n).half cli).owner = ((s.conn n).half cli).owner)
    (hop : ∀ n cli, ((s'.conn n).half cli).isOpen = false → (s'.ctx ((s.conn n).half cli).owner).alive = true →
      ((s.conn n).half cli).isOpen = false)
    (hpend : ∀ n cli, ∀ id ∈ ((s'.conn n).half cli).pend, id ∈ ((s.conn n).half cli).pend) : IdInv s' := by
  constructor
  · intro th; rw [hnr]
    rcases hprog th with e | e
    · rw [e]; exact h.ops th
    · exact e _
  · intro c cb hm; rw [hnr]; exact h.cbs c cb (hlq c cb hm)
  · intro n cli id hm; rw [hown, hnr]; exact h.pend n cli id (hpend n cli id hm)
  · intro n
    cases hp : ((s'.conn n).half false).pend with
    | nil => rfl
    | cons x xs =>
      have := hpend n false x (by rw [hp]; exact List.mem_cons_self)
      rw [h.pendS n] at this; simp at this
  · intro n cli hcl hl
    rw [hown] at hl
    have h0 := h.pendClosed n cli (hop n cli hcl hl) (hal _ hl)
    cases hp : ((s'.conn n).half cli).pend with
    | nil => rfl
    | cons x xs =>
      have := hpend n cli x (by rw [hp]; exact List.mem_cons_self)
      rw [h0] at this; simp at this

theorem idOps_trivial {l : List MOp} (h : ∀ op ∈ l, ∀ N, op.idOk N = true) (N : Nat) : idOps N l = true := by
  simp only [idOps, List.all_eq_true]; exact fun op ho => h op ho N

theorem idOps_beginProg (c : Ctx) (t : Tid) (n : Nat) (o : Op) (N : Nat) : idOps N (beginProg c t n o) = true := by
  cases o <;> simp only [beginProg] <;> (try split) <;> simp [idOps, MOp.idOk]

theorem idOps_onSendFail (m : Msg) (N : Nat) : idOps N (onSendFail m) = true := by
  cases m <;> simp [onSendFail, idOps, MOp.idOk]

theorem idOps_dispatch (src : Peer) (m : Msg) (N : Nat) : idOps N (dispatch src m) = true := by
  cases m with
  | subReq id ob sg b => cases b <;> simp [dispatch, idOps, MOp.idOk, Msg.idOk]
  | _ => simp [dispatch, idOps, MOp.idOk]

theorem setProg_idOps (s : State) (th : Th) (pr : List MOp) (h : ∀ N, idOps N pr = true) (x : Th) :
    (s.setProg th pr).prog x = s.prog x ∨ ∀ N, idOps N ((s.setProg th pr).prog x) = true := by
  simp only [setProg_prog]; split
  · exact Or.inr h
  · exact Or.inl rfl

theorem setCtx_nextReq_of_eq (s : State) (c : Ctx) (cs : CtxSt) (h : cs.nextReq = (s.ctx c).nextReq) (x : Ctx) :
    ((s.setCtx c cs).ctx x).nextReq = (s.ctx x).nextReq := by
  simp only [setCtx_ctx]; split
  · rename_i e; subst e; exact h
  · rfl

theorem setCtx_alive_imp (s : State) (c : Ctx) (cs : CtxSt) (x : Ctx)
    (hx : ((s.setCtx c cs).ctx x).alive = true) (h : cs.alive = (s.ctx c).alive) : (s.ctx x).alive = true := by
  rw [setCtx_alive_of_eq s c cs h x] at hx; exact hx

theorem idInv_nstep {s s' : State} (h : IdInv s) (hty : TypInv s) (hown0 : OwnInv s)
    (hreg : ∀ c n cn, (s.ctx c).alive = true → (s.ctx c).peers n = some cn → ((s.conn cn).half n.isName).isOpen = true)
    (hs : NStep s s') : IdInv s' := by
  cases hs
  case beginPub c t ob sg _ _ =>
    exact h.of (setProg_idOps _ _ _ (idOps_beginProg _ _ _ _)) (fun _ _ h => h) (fun _ => rfl) (fun _ h => h) (fun _ _ => rfl)
      (fun _ _ h _ => h) (fun _ _ _ h => h)
  case beginOther c t op _ _ _ =>
    exact h.of (setProg_idOps _ _ _ (idOps_beginProg _ _ _ _)) (fun _ _ h => h) (fun _ => rfl) (fun _ h => h) (fun _ _ => rfl)
      (fun _ _ h _ => h) (fun _ _ _ h => h)
  case routerOk =>
    exact h.of (fun _ => Or.inl rfl) (fun _ _ h => h) (fun _ => rfl) (fun _ h => h) (fun _ _ => rfl) (fun _ _ h _ => h) (fun _ _ _ h => h)
  case eof cn cli _ _ _ _ _ _ =>
    exact h.of (setProg_idOps _ _ _ (idOps_trivial (by simp [MOp.idOk]))) (fun _ _ h => h) (fun _ => rfl) (fun _ h => h) (fun _ _ => rfl)
      (fun _ _ h _ => h) (fun _ _ _ h => h)
  case stopReq c _ =>
    refine h.of (fun _ => Or.inl rfl) ?_ ?_ ?_ (fun _ _ => rfl) (fun _ _ h _ => h) (fun _ _ _ h => h)
    · exact setCtx_loopQ_mem s c _ (fun _ h => h)
    · exact setCtx_nextReq_of_eq s c _ rfl
    · intro x hx; exact setCtx_alive_imp s c _ x hx rfl
  case cbUnknown c d m q _ _ hq _ =>
    refine h.of ?_ ?_ ?_ ?_ (fun _ _ => rfl) (fun _ _ h _ => h) (fun _ _ _ h => h)
    · exact setProg_idOps _ _ _ (idOps_onSendFail m)
    · exact setCtx_loopQ_mem s c _ (fun cb hcb => by rw [hq]; exact List.mem_cons_of_mem _ hcb)
    · exact setCtx_nextReq_of_eq s c _ rfl
    · intro x hx; exact setCtx_alive_imp s c _ x hx rfl
  case cbFail c d m q cn _ _ hq _ _ =>
    refine h.of ?_ ?_ ?_ ?_ (fun _ _ => rfl) (fun _ _ h _ => h) (fun _ _ _ h => h)
    · exact setProg_idOps _ _ _ (idOps_onSendFail m)
    · exact setCtx_loopQ_mem s c _ (fun cb hcb => by rw [hq]; exact List.mem_cons_of_mem _ hcb)
    · exact setCtx_nextReq_of_eq s c _ rfl
    · intro x hx; exact setCtx_alive_imp s c _ x hx rfl
  case cbDiscNone c n t q _ _ hq _ =>
    refine h.of ?_ ?_ ?_ ?_ (fun _ _ => rfl) (fun _ _ h _ => h) (fun _ _ _ h => h)
    · exact setProg_idOps _ _ _ (idOps_trivial (by simp [MOp.idOk]))
    · exact setCtx_loopQ_mem s c _ (fun cb hcb => by rw [hq]; exact List.mem_cons_of_mem _ hcb)
    · exact setCtx_nextReq_of_eq s c _ rfl
    · intro x hx; exact setCtx_alive_imp s c _ x hx rfl
  case cbDisc c n t q cn _ _ hq _ =>
    refine h.of ?_ ?_ ?_ ?_ (fun _ _ => rfl) (fun _ _ h _ => h) (fun _ _ _ h => h)
    · exact setProg_idOps _ _ _ (idOps_trivial (by simp [MOp.idOk]))
    · exact setCtx_loopQ_mem s c _ (fun cb hcb => by rw [hq]; exact List.mem_cons_of_mem _ hcb)
    · exact setCtx_nextReq_of_eq s c _ rfl
    · intro x hx; exact setCtx_alive_imp s c _ x hx rfl
  case arrive cn cli m ms _ _ _ _ _ =>
    refine h.of ?_ (fun _ _ h => h) (fun _ => rfl) (fun _ h => h) ?_ ?_ ?_
    · exact setProg_idOps _ _ _ (idOps_dispatch _ _)
    · intro n b; simp only [setProg_conn, upd]; split
      · rename_i e; subst e; rw [half_setHalf']; split
        · rename_i e; subst e; exact readHalf_owner _ _ _
        · rfl
      · rfl
    · intro n b hcl _; simp only [setProg_conn, upd] at hcl; split at hcl
      · rename_i e; subst e; rw [half_setHalf'] at hcl; split at hcl
        · rename_i e; subst e; rw [readHalf_isOpen] at hcl; exact hcl
        · exact hcl
      · exact hcl
    · intro n b id hm; simp only [setProg_conn, upd] at hm; split at hm
      · rename_i e; subst e; rw [half_setHalf'] at hm; split at hm
        · rename_i e; subst e
          cases m <;> simp only [readHalf] at hm <;> first | exact hm | exact List.mem_of_mem_erase hm
        · exact hm
      · exact hm
  case cbSent c d m q cn hal _ hq hpeer =>
    have hcb : Cb.idOk (s.ctx c).nextReq (.smSend d m) = true := h.cbs c _ (by rw [hq]; exact List.mem_cons_self)
    have hok : sendOk s.nextConn d m = true := hty.cbs c (.smSend d m) (by rw [hq]; exact List.mem_cons_self)
    have hoc := (hown0.peers c d cn hpeer).2
    have hopen := hreg c d cn hal hpeer
    have hnr : ∀ x, ((s.setCtx c { (s.ctx c) with loopQ := q }).ctx x).nextReq = (s.ctx x).nextReq := setCtx_nextReq_of_eq s c _ rfl
    have hpend : ∀ n b id, id ∈ (((upd s.conn cn (sentConn (s.conn cn) d.isName m)) n).half b).pend →
        id ∈ ((s.conn n).half b).pend ∨ (n = cn ∧ b = d.isName ∧ m.reqId? = some id) := by
      intro n b id hm
      simp only [upd] at hm; split at hm
      · rename_i e; subst e
        rw [sentConn_pend] at hm
        split at hm
        · rename_i e; subst e
          cases hr : m.reqId? with
          | none => rw [hr] at hm; exact Or.inl hm
          | some id' =>
            rw [hr] at hm
            rcases List.mem_append.1 hm with h1 | h1
            · exact Or.inl h1
            · simp only [List.mem_singleton] at h1; subst h1; exact Or.inr ⟨rfl, rfl, rfl⟩
        · exact Or.inl hm
      · exact Or.inl hm
    have hownc : ∀ n b, (((upd s.conn cn (sentConn (s.conn cn) d.isName m)) n).half b).owner = ((s.conn n).half b).owner := by
      intro n b; simp only [upd]; split
      · rename_i e; subst e; exact sentConn_owner _ _ _ _
      · rfl
    have hopenc : ∀ n b, (((upd s.conn cn (sentConn (s.conn cn) d.isName m)) n).half b).isOpen = ((s.conn n).half b).isOpen := by
      intro n b; simp only [upd]; split
      · rename_i e; subst e; exact sentConn_isOpen _ _ _ _
      · rfl
    constructor
    · intro th
      rw [setProg_ctx]
      show idOps ((s.setCtx c { (s.ctx c) with loopQ := q }).ctx th.ctx).nextReq _ = true
      rw [hnr]
      simp only [setProg_prog]; split
      · rfl
      · exact h.ops th
    · intro x cb hm
      rw [setProg_ctx] at hm ⊢
      change cb ∈ ((s.setCtx c { (s.ctx c) with loopQ := q }).ctx x).loopQ at hm
      show cb.idOk ((s.setCtx c { (s.ctx c) with loopQ := q }).ctx x).nextReq = true
      rw [hnr]
      exact h.cbs x cb (setCtx_loopQ_mem s c _ (fun cb hcb => by rw [hq]; exact List.mem_cons_of_mem _ hcb) x cb hm)
    · intro n b id hm
      show id < ((s.setCtx c { (s.ctx c) with loopQ := q }).ctx (((upd s.conn cn (sentConn (s.conn cn) d.isName m)) n).half b).owner).nextReq
      rw [hownc, hnr]
      rcases hpend n b id hm with h1 | ⟨rfl, rfl, h1⟩
      · exact h.pend n b id h1
      · rw [hoc]
        cases m <;> simp only [Msg.reqId?] at h1 <;> try contradiction
        simp only [Option.some.injEq] at h1; subst h1
        simpa [Cb.idOk, Msg.idOk] using hcb
    · intro n
      cases hp : (((upd s.conn cn (sentConn (s.conn cn) d.isName m)) n).half false).pend with
      | nil => exact hp
      | cons x xs =>
        exfalso
        rcases hpend n false x (by rw [hp]; exact List.mem_cons_self) with h1 | ⟨-, h2, h3⟩
        · rw [h.pendS n] at h1; simp at h1
        · cases m <;> simp only [Msg.reqId?] at h3 <;> try contradiction
          simp [sendOk, Msg.isUp, ← h2] at hok
    · intro n b hcl hl
      change (((upd s.conn cn (sentConn (s.conn cn) d.isName m)) n).half b).isOpen = false at hcl
      change ((s.setCtx c { (s.ctx c) with loopQ := q }).ctx (((upd s.conn cn (sentConn (s.conn cn) d.isName m)) n).half b).owner).alive = true at hl
      rw [hopenc] at hcl
      rw [hownc] at hl
      have hl := setCtx_alive_imp s c _ _ hl rfl
      have h0 := h.pendClosed n b hcl hl
      cases hp : (((upd s.conn cn (sentConn (s.conn cn) d.isName m)) n).half b).pend with
      | nil => exact hp
      | cons x xs =>
        exfalso
        rcases hpend n b x (by rw [hp]; exact List.mem_cons_self) with h1 | ⟨rfl, rfl, -⟩
        · rw [h0] at h1; simp at h1
        · rw [hopen] at hcl; cases hcl
  case connect a p hne _ _ _ =>
    show IdInv (connState s a p)
    have hnr : ∀ x, ((connState s a p).ctx x).nextReq = (s.ctx x).nextReq := by
      intro x; simp only [connState, setCtx_ctx]; (repeat' split) <;> simp_all
    have hal' : ∀ x, ((connState s a p).ctx x).alive = (s.ctx x).alive := by
      intro x; simp only [connState, setCtx_ctx]; (repeat' split) <;> simp_all
    constructor
    · intro th; rw [hnr, connState_prog]; exact h.ops th
    · intro c cb hm; rw [connState_loopQ] at hm; rw [hnr]; exact h.cbs c cb hm
    · intro n cli id hm
      rw [connState_conn] at hm ⊢
      split at hm
      · cases cli <;> simp [newConn, Conn.half] at hm
      · rename_i e; rw [if_neg e, hnr]; exact h.pend n cli id hm
    · intro n; rw [connState_conn]; split
      · simp [newConn, Conn.half]
      · exact h.pendS n
    · intro n cli hcl hl
      rw [connState_conn] at hcl hl ⊢
      split at hcl
      · cases cli <;> simp [newConn, Conn.half] at hcl
      · rename_i e
        rw [if_neg e] at hl ⊢
        rw [hal'] at hl
        exact h.pendClosed n cli hcl hl
  case stop c _ =>
    have hnr : ∀ x, ((s.setCtx c { (s.ctx c) with alive := false, loopQ := [] }).ctx x).nextReq = (s.ctx x).nextReq := by
      intro x; simp only [setCtx_ctx]; split
      · rename_i e; subst e; rfl
      · rfl
    constructor
    · intro th
      show idOps ((s.setCtx c { (s.ctx c) with alive := false, loopQ := [] }).ctx th.ctx).nextReq (s.prog th) = true
      rw [hnr]; exact h.ops th
    · intro x cb hm
      change cb ∈ ((s.setCtx c { (s.ctx c) with alive := false, loopQ := [] }).ctx x).loopQ at hm
      show cb.idOk ((s.setCtx c { (s.ctx c) with alive := false, loopQ := [] }).ctx x).nextReq = true
      rw [hnr]
      refine h.cbs x cb (setCtx_loopQ_mem s c _ (fun cb hcb => ?_) x cb hm)
      simp at hcb
    · intro n cli id hm
      change id ∈ ((stopConn c (s.conn n)).half cli).pend at hm
      show id < ((s.setCtx c { (s.ctx c) with alive := false, loopQ := [] }).ctx ((stopConn c (s.conn n)).half cli).owner).nextReq
      rw [stopConn_pend] at hm
      rw [stopConn_owner, hnr]
      exact h.pend n cli id hm
    · intro n
      show ((stopConn c (s.conn n)).half false).pend = []
      rw [stopConn_pend]; exact h.pendS n
    · intro n cli hcl hl
      change ((stopConn c (s.conn n)).half cli).isOpen = false at hcl
      change ((s.setCtx c { (s.ctx c) with alive := false, loopQ := [] }).ctx ((stopConn c (s.conn n)).half cli).owner).alive = true at hl
      show ((stopConn c (s.conn n)).half cli).pend = []
      rw [stopConn_pend]
      rw [stopConn_owner] at hl
      rw [stopConn_isOpen] at hcl
      simp only [setCtx_ctx] at hl
      split at hl
      · cases hl
      · rename_i e
        rw [if_neg e] at hcl
        exact h.pendClosed n cli hcl hl

theorem idInv_reach {s : State} (h : Reach s) : IdInv s := by
  induction h with
  | init => exact idInv_init
  | step hr hs ih =>
    rename_i s0 s1 a o
    by_cases ha : ∃ th ch ch2, a = .micro th ch ch2
    · obtain ⟨th, ch, ch2, rfl⟩ := ha
      obtain ⟨-, op, rest, hp, hm⟩ := step_micro_inv hs
      exact idInv_micro ih hp hm
    · exact idInv_nstep ih (typInv_reach hr) (ownInv_reach hr) (fun c n cn hal hp => registered_is_open hr hal hp)
        (step_nonmicro_cases (fun th ch ch2 e => ha ⟨th, ch, ch2, e⟩) hs)

end QmiModel.PubSub
