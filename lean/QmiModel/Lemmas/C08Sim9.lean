import QmiModel.Lemmas.C08Sim8
/-! C08, simulation layer — assembly: every step of the model is a step of the abstract protocol or invisible;
a new connection starts in one of the initial abstract states. -/
set_option linter.unusedSimpArgs false
namespace QmiModel.PubSub
open Proto

/-- a removal notice about to be handled came over a connection that is still registered -/
def SrInv (s : State) : Prop := ∀ c k, MOp.sigRemoved k ∈ s.prog (.sock c) → (s.ctx c).peers k.pc ≠ none

theorem srInv_micro {s s' : State} {th : Th} {ch ch2 : Nat} {op : MOp} {rest : List MOp} {o : Out}
    (h : SrInv s) (hdsp : DspInv s) (htd : TdInv s)
    (hprog : s.prog th = op :: rest) (hs : microStep s th ch ch2 op rest = some (s', o)) : SrInv s' := by
  have hf := microStep_frame hs
  intro c k hm
  by_cases e : Th.sock c = th
  · subst e
    exfalso
    rcases microStep_prog hs with ⟨pushed, hp, hpu⟩ | ⟨⟨e, t, hp⟩, -⟩ | ⟨hp, -⟩
    · rw [hp] at hm
      rcases List.mem_append.1 hm with h1 | h1
      · exact pushes_sigRemoved (hpu _ h1)
      · have := sigRemoved_whole hdsp (th := .sock c) (k := k) (by rw [hprog]; exact List.mem_cons_of_mem _ h1)
        rw [hprog] at this
        simp only [List.cons.injEq] at this
        rw [this.2] at h1; simp at h1
    · rw [hp] at hm; simp at hm
    · rw [hp] at hm; simp at hm
  · rw [hf.prog_other _ e] at hm
    have h0 := h c k hm
    by_cases hc : c = th.ctx
    · subst hc
      cases th with
      | sock c' => exact absurd rfl e
      | user c' t =>
        have hpop : op.isPop = false := by
          have := htd.user c' t op (by rw [hprog]; exact List.mem_cons_self)
          cases op <;> simp_all [MOp.isTd, MOp.isPop]
        simp only [Th.ctx] at h0 ⊢
        rw [(microStep_fields hs).peers hpop c']; exact h0
    · rw [hf.ctx_other _ hc]; exact h0

theorem srInv_nstep {s s' : State} (h : SrInv s) (hreg : RegInv s) (hs : NStep s s') : SrInv s' := by
  have plain : ∀ (c0 : Ctx) (pr : List MOp), (∀ k, MOp.sigRemoved k ∉ pr) →
      ∀ c k, MOp.sigRemoved k ∈ (if Th.sock c = Th.sock c0 then pr else s.prog (.sock c)) → MOp.sigRemoved k ∈ s.prog (.sock c) := by
    intro c0 pr hpr c k hm
    split at hm
    · exact absurd hm (hpr k)
    · exact hm
  have hsf : ∀ m k, MOp.sigRemoved k ∉ onSendFail m := by
    intro m k; cases m <;> simp [onSendFail]
  have hq : ∀ (c : Ctx) (q : List Cb) (x : Ctx) n, (s.ctx x).peers n ≠ none →
      ((s.setCtx c { (s.ctx c) with loopQ := q }).ctx x).peers n ≠ none := by
    intro c q x n hn; simp only [setCtx_ctx]; split <;> (try (rename_i e; subst e)) <;> exact hn
  cases hs
  case beginPub c t ob sg _ _ =>
    intro c' k hm; simp only [setProg_prog] at hm; rw [if_neg (by simp)] at hm; exact h c' k hm
  case beginOther c t op _ _ _ =>
    intro c' k hm; simp only [setProg_prog] at hm; rw [if_neg (by simp)] at hm; exact h c' k hm
  case cbUnknown c d m q _ _ _ _ =>
    intro c' k hm; simp only [setProg_prog, setCtx_prog] at hm
    exact hq c q c' _ (h c' k (plain c _ (hsf m) c' k hm))
  case cbSent c d m q cn _ _ _ _ =>
    intro c' k hm; simp only [setProg_prog] at hm
    exact hq c q c' _ (h c' k (plain c [] (by simp) c' k hm))
  case cbFail c d m q cn _ _ _ _ _ =>
    intro c' k hm; simp only [setProg_prog, setCtx_prog] at hm
    exact hq c q c' _ (h c' k (plain c _ (hsf m) c' k hm))
  case cbDiscNone c n t q _ _ _ _ =>
    intro c' k hm; simp only [setProg_prog, setCtx_prog] at hm
    exact hq c q c' _ (h c' k (plain c _ (by simp) c' k hm))
  case cbDisc c n t q cn _ _ _ _ =>
    intro c' k hm; simp only [setProg_prog, setCtx_prog] at hm
    exact hq c q c' _ (h c' k (plain c _ (by simp) c' k hm))
  case eof cn cli _ _ _ _ _ _ =>
    intro c' k hm; simp only [setProg_prog] at hm
    exact h c' k (plain _ _ (by simp) c' k hm)
  case routerOk => exact h
  case stopReq c _ =>
    intro c' k hm
    have := h c' k hm
    simp only [setCtx_ctx]; split <;> (try (rename_i e; subst e)) <;> exact this
  case stop c _ =>
    intro c' k hm
    have := h c' k hm
    simp only [setCtx_ctx]; split <;> (try (rename_i e; subst e)) <;> exact this
  case connect a p hne _ _ _ =>
    intro c' k hm
    have := h c' k hm
    show ((connState s a p).ctx c').peers k.pc ≠ none
    rw [connState_peers s hne]
    split
    · simp
    · split
      · simp
      · exact this
  case arrive cn cli m ms hcn _ hidle hopen hin =>
    intro c' k hm
    simp only [setProg_prog] at hm
    split at hm
    · rename_i e; cases e
      cases m with
      | subReq id ob sg b => cases b <;> simp [dispatch] at hm
      | removed ob sg =>
        simp only [dispatch, List.mem_singleton, MOp.sigRemoved.injEq] at hm
        subst hm
        rcases hreg.reg cn cli hopen with hr | hr
        · show (s.ctx ((s.conn cn).half cli).owner).peers (srcName s cn cli) ≠ none
          rw [hr]; simp
        · rw [hidle] at hr; simp at hr
      | _ => simp [dispatch] at hm
    · exact h c' k hm

theorem srInv_reach {s : State} (h : Reach s) : SrInv s := by
  induction h with
  | init => intro c k h; simp [State.init] at h
  | step hr hs ih =>
    rename_i s0 s1 a o
    by_cases ha : ∃ th ch ch2, a = .micro th ch ch2
    · obtain ⟨th, ch, ch2, rfl⟩ := ha
      obtain ⟨-, op, rest, hp, hm⟩ := step_micro_inv hs
      exact srInv_micro ih (dspInv_reach hr) (tdInv_reach hr) hp hm
    · exact srInv_nstep ih (regInv_reach hr) (step_nonmicro_cases (fun th ch ch2 e => ha ⟨th, ch, ch2, e⟩) hs)


theorem hdlTok_onSendFail (cn : ConnId) (id : ReqId) (m : Msg) : hdlTok (.alias cn) id (onSendFail m) = none := by
  cases m <;> simp [onSendFail, hdlTok]

theorem remPhase_onSendFail (cn : ConnId) (ob : Obj) (sg : Sg) (m : Msg) : remPhase cn ob sg (onSendFail m) = .none := by
  cases m <;> simp [onSendFail, remPhase]

theorem hr_onSendFail {m : Msg} {id : ReqId} {ok : Bool} (h : MOp.handleReply id ok ∈ onSendFail m) :
    ok = false ∧ ∃ ob sg b, m = .subReq id ob sg b := by
  cases m <;> simp [onSendFail] at h
  obtain ⟨rfl, rfl⟩ := h; exact ⟨rfl, _, _, _, rfl⟩

theorem hdlTok_dispatch_ne {cn : ConnId} {src : Peer} (h : src ≠ .alias cn) (id : ReqId) (m : Msg) :
    hdlTok (.alias cn) id (dispatch src m) = none := by
  cases m with
  | subReq id' ob sg b => cases b <;> simp [dispatch, hdlTok, h]
  | _ => simp [dispatch, hdlTok]

theorem hdlTok_dispatch_id {cn : ConnId} {src : Peer} {id id' : ReqId} (h : id' ≠ id) (ob : Obj) (sg : Sg) (b : Bool) :
    hdlTok (.alias cn) id (dispatch src (.subReq id' ob sg b)) = none := by
  cases b <;> simp [dispatch, hdlTok, h]

/-- another connection end of the subscribing context does not lead to the publisher -/
theorem other_conn_src {s : State} (hr : Reach s) {cn : ConnId} (hl : Live s cn) {n : ConnId} {cli : Bool}
    (ho : ((s.conn n).half cli).owner = cliOf s cn) (hne : ¬(n = cn ∧ cli = true))
    (hopen : ((s.conn n).half cli).isOpen = true) (hidle : s.prog (.sock ((s.conn n).half cli).owner) = []) :
    srcName s n cli ≠ .name (srvOf s cn) := by
  intro e
  cases cli with
  | false => simp [srcName] at e
  | true =>
    rcases (regInv_reach hr).reg n true hopen with hreg | hreg
    · rw [ho, e, hl.regA] at hreg
      exact hne ⟨(Option.some.inj hreg).symm, rfl⟩
    · rw [hidle] at hreg; simp at hreg

/-- a reply arriving on another connection end of the subscribing context is not the reply to the outstanding request of the key -/
theorem other_conn_reply {s : State} (hr : Reach s) {cn : ConnId} (hl : Live s cn) {n : ConnId}
    (ho : ((s.conn n).half true).owner = cliOf s cn) (hne : n ≠ cn)
    (hopen : ((s.conn n).half true).isOpen = true) (hidle : s.prog (.sock ((s.conn n).half true).owner) = [])
    {id : ReqId} {ok : Bool} (hm : Msg.subReply id ok ∈ ((s.conn n).half true).inbox) {ob : Obj} {sg : Sg}
    (hcur : curOf (s.ctx (cliOf s cn)) (keyOf s cn ob sg) = some id) : False := by
  have hp : id ∈ ((s.conn n).half true).pend := by
    refine srv_in_pend (srvInv_reach hr) hopen ?_
    simp only [srvPipe, List.mem_append, List.mem_filterMap]
    exact Or.inl (Or.inl (Or.inl ⟨_, hm, rfl⟩))
  obtain ⟨pid, po, h1, h2, h3⟩ := (ctInv_reach hr).pend n id hp
  have ho' : cliOf s n = cliOf s cn := ho
  rw [ho'] at h1 h2
  obtain ⟨pid0, po0, -, g2, -, g4, g5⟩ := cur_spec (pendInv_reach hr _) hcur
  rw [g5] at h1; cases h1
  rw [g2] at h2; cases h2
  rw [g4] at h3
  simp only [keyOf, Peer.name.injEq] at h3
  refine other_conn_src hr hl ho (fun e => hne e.1) hopen hidle ?_
  simp only [srcName, if_true]
  exact congrArg Peer.name h3.symm

/-- the outstanding request of the key sits in the event-loop queue of the subscribing context: it goes to the publisher -/
theorem cur_dest {s : State} (hr : Reach s) {cn : ConnId} {ob : Obj} {sg : Sg} {d : Peer} {m : Msg} {id : ReqId}
    (hm : Cb.smSend d m ∈ (s.ctx (cliOf s cn)).loopQ) (hid : m.reqId? = some id)
    (hcur : curOf (s.ctx (cliOf s cn)) (keyOf s cn ob sg) = some id) : d = .name (srvOf s cn) := by
  cases m <;> simp only [Msg.reqId?, reduceCtorEq] at hid
  cases hid
  have typed := (ctInv_reach hr).cbs _ d _ hm
  have hd := typed_dest_of_cur (pendInv_reach hr _) typed hcur
  simpa only [keyOf] using hd

set_option maxHeartbeats 4000000 in
/-- **the actions other than micro steps** -/
theorem sim_nstep {s s' : State} {cn : ConnId} {ob : Obj} {sg : Sg} {x : AS} (hr : Reach s) (hr' : Reach s')
    (hs : NStep s s') (hl : Live s cn) (hl' : Live s' cn) (h : Sim s cn ob sg x) :
    ∃ x', Sim s' cn ob sg x' ∧ (x' = x ∨ x' ∈ next x) := by
  have hlf := live_facts hr hl
  cases hs
  case beginPub c t ob' sg' _ hi =>
    refine ⟨x, sim_start_idle (s := s) (.user c t) (beginProg c t (s.nextSeq t) (.publish ob' sg')) hi
      (fun th => by simp only [setProg_prog]) rfl rfl (invisible_beginProg cn ob sg _ c t _ _) ?_ h, Or.inl rfl⟩
    intro id; simp [beginProg]
  case beginOther c t op _ hi _ =>
    refine ⟨x, sim_start_idle (s := s) (.user c t) (beginProg c t 0 op) hi
      (fun th => by simp only [setProg_prog]) rfl rfl (invisible_beginProg cn ob sg _ c t _ _) ?_ h, Or.inl rfl⟩
    intro id; cases op <;> simp only [beginProg] <;> (try split) <;> simp
  case cbUnknown c d m q _ hi hq hpeer =>
    refine ⟨x, sim_cb_plain hr hl hi hq ?_ ?_ h, Or.inl rfl⟩
    · intro e; subst e
      refine ⟨fun cur => ?_, fun id => hdlTok_onSendFail cn id m, remPhase_onSendFail cn ob sg m⟩
      simp only [relevCb]; rw [if_neg]
      intro e; subst e; rw [hl.regP] at hpeer; cases hpeer
    · intro e; subst e
      refine ⟨fun hm => by cases m <;> simp [onSendFail] at hm, fun hm => by cases m <;> simp [onSendFail] at hm,
        fun id hm => by cases m <;> simp [onSendFail] at hm, ?_⟩
      intro id hcur hm
      obtain ⟨-, ob', sg', b, rfl⟩ := hr_onSendFail hm
      have := cur_dest hr (by rw [hq]; exact List.mem_cons_self) rfl hcur
      subst this
      rw [hl.regA] at hpeer; cases hpeer
  case cbFail c d m q n _ hi hq hpeer hclosed =>
    refine ⟨x, sim_cb_plain hr hl hi hq ?_ ?_ h, Or.inl rfl⟩
    · intro e; subst e
      refine ⟨fun cur => ?_, fun id => hdlTok_onSendFail cn id m, remPhase_onSendFail cn ob sg m⟩
      simp only [relevCb]; rw [if_neg]
      intro e; subst e
      rw [hl.regP] at hpeer; cases hpeer
      simp only [Peer.isName, Bool.not_false] at hclosed
      rw [hlf.openA] at hclosed; cases hclosed
    · intro e; subst e
      refine ⟨fun hm => by cases m <;> simp [onSendFail] at hm, fun hm => by cases m <;> simp [onSendFail] at hm,
        fun id hm => by cases m <;> simp [onSendFail] at hm, ?_⟩
      intro id hcur hm
      obtain ⟨-, ob', sg', b, rfl⟩ := hr_onSendFail hm
      have := cur_dest hr (by rw [hq]; exact List.mem_cons_self) rfl hcur
      subst this
      rw [hl.regA] at hpeer; cases hpeer
      simp only [Peer.isName, Bool.not_true] at hclosed
      rw [hlf.openP] at hclosed; cases hclosed
  case cbSent c d m q n _ hi hq hpeer => exact ⟨x, sim_cb_sent hr hl hi hq hpeer h, Or.inl rfl⟩
  case cbDiscNone c n t q _ hi hq _ =>
    refine ⟨x, sim_cb_plain hr hl hi hq ?_ ?_ h, Or.inl rfl⟩
    · intro _; exact ⟨fun _ => rfl, fun _ => rfl, rfl⟩
    · intro _; exact ⟨by simp, by simp, by simp, by simp⟩
  case cbDisc c n t q n' _ hi hq _ =>
    refine ⟨x, sim_cb_plain hr hl hi hq ?_ ?_ h, Or.inl rfl⟩
    · intro _; exact ⟨fun _ => rfl, fun _ => rfl, rfl⟩
    · intro _
      refine ⟨by simp, ?_, by simp, by simp⟩
      rintro ⟨h1, h2⟩
      simp only [List.mem_cons, reduceCtorEq, MOp.peerRemoved.injEq, false_or, List.not_mem_nil, or_false] at h1
      subst h1; exact h2 List.mem_cons_self
  case eof n cli _ _ hi _ _ _ =>
    refine ⟨x, sim_start_idle (s := s) (.sock ((s.conn n).half cli).owner)
      [.popPeer (srcName s n cli), .peerRemoved (srcName s n cli), .closeConn n cli] hi
      (fun th => by simp only [setProg_prog]) rfl rfl
      (invisible_teardown cn ob sg _ (srcName s n cli) n cli [] (by simp)) (by simp) h, Or.inl rfl⟩
  case routerOk th =>
    exact ⟨x, sim_same_obs (s := s) rfl rfl rfl rfl rfl rfl rfl rfl rfl rfl (fun _ => Iff.rfl) h, Or.inl rfl⟩
  case stopReq c _ =>
    have hca : c ≠ cliOf s cn := by
      intro e; subst e; have := hl'.upA; simp [cliOf] at this
    have hcp : c ≠ srvOf s cn := by
      intro e; subst e; have := hl'.upP; simp [srvOf] at this
    refine ⟨x, sim_same_obs (s := s) rfl rfl rfl ?_ ?_ ?_ ?_ ?_ ?_ rfl (fun _ => Iff.rfl) h, Or.inl rfl⟩ <;>
      simp [Ne.symm hca, Ne.symm hcp]
  case stop c _ =>
    have hca : c ≠ cliOf s cn := by
      intro e; subst e; have := hl'.aliveA
      have ho : cliOf (({ (s.setCtx (cliOf s cn) { (s.ctx (cliOf s cn)) with alive := false, loopQ := [] }) with
        conn := fun cn' => stopConn (cliOf s cn) (s.conn cn') })) cn = cliOf s cn := stopConn_owner _ _ _
      rw [ho] at this; simp at this
    have hcp : c ≠ srvOf s cn := by
      intro e; subst e; have := hl'.aliveP
      have ho : srvOf (({ (s.setCtx (srvOf s cn) { (s.ctx (srvOf s cn)) with alive := false, loopQ := [] }) with
        conn := fun cn' => stopConn (srvOf s cn) (s.conn cn') })) cn = srvOf s cn := stopConn_owner _ _ _
      rw [ho] at this; simp at this
    refine ⟨x, sim_same_obs (s := s) (stopConn_owner _ _ _) (stopConn_owner _ _ _) rfl ?_ ?_ ?_ ?_ ?_ ?_ ?_ ?_ h, Or.inl rfl⟩
    · simp [Ne.symm hca]
    · simp [Ne.symm hca]
    · simp [Ne.symm hca]
    · simp [Ne.symm hcp]
    · simp [Ne.symm hcp]
    · simp [Ne.symm hcp]
    · show ((stopConn c (s.conn cn)).half true).inbox = _
      rw [stopConn_inbox, if_neg (fun e => hca e.symm)]
    · intro id
      refine failCar_congr (stopConn_owner _ _ _) (fun _ _ => Iff.rfl) (fun n => stopConn_owner _ _ _) ?_
      intro n _ _
      show id ∈ ((stopConn c (s.conn n)).half true).pend ↔ _
      rw [stopConn_pend]
  case arrive n cli m ms hn _ hi hopen hin =>
    show ∃ x', Sim (arrState s n cli m ms) cn ob sg x' ∧ (x' = x ∨ x' ∈ next x)
    have hr'' : Reach (arrState s n cli m ms) := hr'
    have hmem : m ∈ ((s.conn n).half cli).inbox := by rw [hin]; exact List.mem_cons_self
    have hup := (typInv_reach hr).inbox n cli m hmem
    by_cases hca : ((s.conn n).half cli).owner = cliOf s cn
    · -- an end owned by the subscribing context
      have hnotP : ((s.conn n).half cli).owner ≠ srvOf s cn := fun e => hlf.ne (hca.symm.trans e)
      by_cases hnc : n = cn ∧ cli = true
      · obtain ⟨rfl, rfl⟩ := hnc
        have hsrc : srcName s n true = .name (srvOf s n) := by simp [srcName, srvOf, Conn.half]
        cases m with
        | subReply id ok =>
          by_cases hcur : curOf (s.ctx (cliOf s n)) (keyOf s n ob sg) = some id
          · exact sim_arrive_rep hr hl hr'' hi hin hcur h
          · refine ⟨x, sim_arrive_stutter hi hin (fun e => absurd e hnotP) ?_ ?_ h, Or.inl rfl⟩
            · intro _
              refine ⟨by simp [dispatch], ?_⟩
              intro id0 hid0
              have : id0 ≠ id := fun e => hcur (by rw [← e]; exact hid0)
              simp [dispatch, msgRepId, this, Ne.symm this]
            · intro _ _
              simp only [relev]; rw [if_neg hcur]
        | removed ob' sg' =>
          by_cases hk : ob' = ob ∧ sg' = sg
          · obtain ⟨rfl, rfl⟩ := hk
            exact sim_arrive_notice hr hl hi hin h
          · refine ⟨x, sim_arrive_stutter hi hin (fun e => absurd e hnotP) ?_ ?_ h, Or.inl rfl⟩
            · intro _
              refine ⟨?_, fun id0 _ => by simp [dispatch, msgRepId]⟩
              simp only [dispatch, List.mem_singleton, MOp.sigRemoved.injEq, keyOf, Key.mk.injEq]
              exact fun e => hk ⟨e.2.1.symm, e.2.2.symm⟩
            · intro _ _
              simp only [relev]; rw [if_neg hk]
        | signal ob' sg' p' =>
          refine ⟨x, sim_arrive_stutter hi hin (fun e => absurd e hnotP) ?_ (fun _ _ => rfl) h, Or.inl rfl⟩
          intro _; exact ⟨by simp [dispatch], fun id0 _ => by simp [dispatch, msgRepId]⟩
        | subReq id ob' sg' b =>
          refine ⟨x, sim_arrive_stutter hi hin (fun e => absurd e hnotP) ?_ (fun _ _ => rfl) h, Or.inl rfl⟩
          intro _; exact ⟨by cases b <;> simp [dispatch], fun id0 _ => by cases b <;> simp [dispatch, msgRepId]⟩
      · -- another connection of the subscribing context
        have hsrc := other_conn_src hr hl hca hnc hopen hi
        refine ⟨x, sim_arrive_stutter hi hin (fun e => absurd e hnotP) ?_ ?_ h, Or.inl rfl⟩
        · intro _
          constructor
          · intro hm
            cases m with
            | subReq id ob' sg' b => cases b <;> simp [dispatch] at hm
            | removed ob' sg' =>
              simp only [dispatch, List.mem_singleton, MOp.sigRemoved.injEq, keyOf, Key.mk.injEq] at hm
              exact hsrc hm.1.symm
            | _ => simp [dispatch] at hm
          · intro id0 hid0
            cases m with
            | subReply id ok =>
              have hcli : cli = true := by cases cli <;> simp [Msg.isUp] at hup ⊢
              subst hcli
              have : id0 ≠ id := by
                intro e; subst e
                exact other_conn_reply hr hl hca (fun e => hnc ⟨e, rfl⟩) hopen hi hmem hid0
              simp [dispatch, msgRepId, this, Ne.symm this]
            | subReq id ob' sg' b => cases b <;> simp [dispatch, msgRepId]
            | _ => simp [dispatch, msgRepId]
        · intro e1 e2; exact absurd ⟨e1, e2⟩ hnc
    · by_cases hcp : ((s.conn n).half cli).owner = srvOf s cn
      · -- an end owned by the publisher context
        by_cases hnc : n = cn ∧ cli = false
        · obtain ⟨rfl, rfl⟩ := hnc
          cases m with
          | subReq id ob' sg' b =>
            by_cases hcur : curOf (s.ctx (cliOf s n)) (keyOf s n ob sg) = some id
            · exact sim_arrive_req hr hl hi hin hcur h
            · refine ⟨x, sim_arrive_stutter hi hin ?_ (fun e => absurd e hca) (fun _ e => by cases e) h, Or.inl rfl⟩
              intro _ id0 hid0
              exact hdlTok_dispatch_id (fun e => hcur (by rw [e]; exact hid0)) _ _ _
          | _ => simp [Msg.isUp] at hup
        · refine ⟨x, sim_arrive_stutter hi hin ?_ (fun e => absurd e hca) ?_ h, Or.inl rfl⟩
          · intro _ id0 _
            refine hdlTok_dispatch_ne ?_ _ _
            intro e
            obtain ⟨e1, e2⟩ := srcName_alias e.symm
            exact hnc ⟨e2.symm, e1⟩
          · intro e1 e2; subst e1 e2; exact absurd rfl hca
      · -- a third context
        refine ⟨x, sim_arrive_stutter hi hin (fun e => absurd e hcp) (fun e => absurd e hca) ?_ h, Or.inl rfl⟩
        intro e1 e2; subst e1 e2; exact absurd rfl hca
  case connect a' p' hne _ _ hnone =>
    show ∃ x', Sim (connState s a' p') cn ob sg x' ∧ (x' = x ∨ x' ∈ next x)
    have hcn : cn ≠ s.nextConn := Nat.ne_of_lt hlf.lt
    have hconn : ∀ n, n ≠ s.nextConn → (connState s a' p').conn n = s.conn n := by
      intro n hn; rw [connState_conn, if_neg hn]
    have hfields : ∀ y, ((connState s a' p').ctx y).lsubs = (s.ctx y).lsubs ∧ ((connState s a' p').ctx y).byKey = (s.ctx y).byKey ∧
        ((connState s a' p').ctx y).pobj = (s.ctx y).pobj ∧ ((connState s a' p').ctx y).rsubs = (s.ctx y).rsubs ∧
        ((connState s a' p').ctx y).objs = (s.ctx y).objs ∧ ((connState s a' p').ctx y).loopQ = (s.ctx y).loopQ := by
      intro y; simp only [connState, setCtx_ctx]
      split <;> (try (rename_i e; subst e)) <;> (try split) <;> (try (rename_i e; subst e)) <;> exact ⟨rfl, rfl, rfl, rfl, rfl, rfl⟩
    have hc : cliOf (connState s a' p') cn = cliOf s cn := by simp only [cliOf, hconn cn hcn]
    refine ⟨x, sim_same_obs (s := s) hc (by simp only [srvOf, hconn cn hcn]) rfl (hfields _).1 (hfields _).2.1 (hfields _).2.2.1
      (hfields _).2.2.2.1 (hfields _).2.2.2.2.1 (hfields _).2.2.2.2.2 (by rw [hconn cn hcn]) ?_ h, Or.inl rfl⟩
    intro id
    simp only [FailCar, hc, connState_prog]
    refine or_congr Iff.rfl ?_
    constructor
    · rintro ⟨n', h1, h2, h3⟩
      by_cases hn : n' = s.nextConn
      · subst hn; rw [connState_conn, if_pos rfl] at h3; simp [newConn, Conn.half] at h3
      · rw [hconn n' hn] at h2 h3; exact ⟨n', h1, h2, h3⟩
    · rintro ⟨n', h1, h2, h3⟩
      by_cases hn : n' = s.nextConn
      · subst hn
        have hclosed := (topoInv_reach hr).unborn s.nextConn true (Nat.le_refl _)
        have := (idInv_reach hr).pendClosed s.nextConn true hclosed (by rw [h2]; exact hl.aliveA)
        rw [this] at h3; simp at h3
      · exact ⟨n', h1, by rw [hconn n' hn]; exact h2, by rw [hconn n' hn]; exact h3⟩

end QmiModel.PubSub
