import QmiModel.Lemmas.C01CarrierStep
import QmiModel.Lemmas.C01StructA
/-! The carrier invariant without any hypothesis on the client context: every issued call without an outcome has a
live carrier **or is in the ghost set `lost`** (requests dropped by the caller's own stopping context).  Together with
`AInv.lost_stop` (`lost = []` as long as the client context was never stopped) this characterises exactly which calls
can be lost in the repaired configuration. -/
namespace QmiModel.Rpc

variable (attr : ReqId → Attr)

theorem mem_reqsOf {r : ReqId} {q : List Cb} (h : Cb.sendReq r ∈ q) : r ∈ reqsOf q := by
  induction q with
  | nil => simp at h
  | cons x q ih =>
    simp only [List.mem_cons] at h
    rcases h with h | h
    · subst h; simp [reqsOf]
    · cases x <;> simp [reqsOf, ih h]

theorem lost_mono (cfg : Cfg) {s s' : State} {a : Act} (h : step cfg attr s a = some s') (r : ReqId)
    (hl : r ∈ s.lost) : r ∈ s'.lost := by
  cases a <;> simp only [step] at h
  case finish o =>
    split at h
    · split at h
      · simp at h
      · split at h
        · simp at h; subst h; exact hl
        · simp at h; subst h; rw [(route_core attr _ _ _).lost]; exact hl
    · simp at h
  case drain =>
    split at h
    · split at h
      · simp at h; subst h; rw [(routeAll_core attr _ _ _).lost]; exact hl
      · simp at h
    · simp at h
  case enq x =>
    split at h
    · split at h <;> simp at h <;> subst h
      · exact List.mem_cons_of_mem _ hl
      · exact hl
    · simp at h
  case loopExitA =>
    split at h
    · simp at h; subst h; exact List.mem_append_right _ hl
    · simp at h
  all_goals
    repeat' split at h
    all_goals first
      | (simp at h; done)
      | (simp at h; subst h; exact hl)

theorem issued_back (cfg : Cfg) {s s' : State} {a : Act} (h : step cfg attr s a = some s') (r : ReqId)
    (hr : r ∈ s'.issued) : r ∈ s.issued ∨ r ∈ s'.unsent := by
  cases a <;> simp only [step] at h
  case issue x =>
    split at h <;> simp at h; subst h
    simp only [List.mem_append, List.mem_singleton] at hr ⊢
    rcases hr with hr | hr
    · exact Or.inl hr
    · exact Or.inr (Or.inr hr)
  case finish o =>
    split at h
    · split at h
      · simp at h
      · split at h
        · simp at h; subst h; exact Or.inl hr
        · simp at h; subst h; rw [(route_core attr _ _ _).issued] at hr; exact Or.inl hr
    · simp at h
  case drain =>
    split at h
    · split at h
      · simp at h; subst h; rw [(routeAll_core attr _ _ _).issued] at hr; exact Or.inl hr
      · simp at h
    · simp at h
  all_goals
    repeat' split at h
    all_goals first
      | (simp at h; done)
      | (simp at h; subst h; exact Or.inl hr)

/-- one step keeps a carrier for `r`, or moves `r` into `lost` -/
theorem good_step {s s' : State} {a : Act} (hs : SInv Cfg.sound s) (ha : AInv s)
    (h : step Cfg.sound attr s a = some s') (r : ReqId) (hn : s'.result r = none)
    (hr : r ∈ s'.issued) (g0 : Good attr s r) : r ∈ s'.lost ∨ Good attr s' r := by
  have hn0 := result_none_back attr _ h r hn
  cases a <;> simp only [step] at h
  case issue x =>
    split at h <;> simp at h; subst h
    exact Or.inr (g0.mono attr (fun u => List.mem_append_left _ u) id id id id id)
  case stopA =>
    split at h <;> simp at h; subst h
    exact Or.inr (g0.mono attr id id id id (fun q => List.mem_append_left _ q) id)
  case enq x =>
    split at h
    · split at h
      · simp at h; subst h
        by_cases e : r = x
        · subst e; exact Or.inl (by simp)
        · exact Or.inr (g0.mono attr id id id (fun c => (List.mem_erase_of_ne e).2 c) id id)
      · simp at h; subst h
        refine Or.inr ?_
        by_cases e : r = x
        · subst e
          unfold Good Carrier at g0 ⊢
          cases hp : (attr r).place <;> simp only [hp] at g0 ⊢
          · exact g0
          · exact Or.inr (Or.inr (Or.inl (by simp)))
        · exact g0.mono attr id id id (fun c => (List.mem_erase_of_ne e).2 c) (fun q => List.mem_append_left _ q) id
    · simp at h
  case loopExitA =>
    split at h
    · next hst =>
      simp at h; subst h
      have hca : s.connA = false := ha.aSock_conn (by rw [hst]; simp)
      unfold Good Carrier at g0 ⊢
      rcases g0 with g | g
      · exact Or.inr (Or.inl g)
      · cases hp : (attr r).place <;> simp only [hp] at g ⊢
        · exact Or.inr (Or.inr g)
        · rcases g with g | g | ⟨_, h2, _⟩
          · exact Or.inr (Or.inr (Or.inl g))
          · exact Or.inl (List.mem_append_left _ (mem_reqsOf g))
          · rw [hca] at h2; simp at h2
    · simp at h
  case loopA =>
    refine Or.inr ?_
    split at h
    · simp at h
    · split at h
      · simp at h
      · next x q haq =>
        have g := id g0
        have tailq : r ≠ x → Cb.sendReq r ∈ s.aQ → Cb.sendReq r ∈ q := by
          intro e hm; rw [haq] at hm
          exact mem_tail_of_ne hm (by intro hh; injection hh with hh; exact e hh)
        split at h
        · simp at h; subst h
          by_cases e : r = x
          · subst e; exact absurd hn (setRes_self_ne_none _ _ _)
          · exact g.mono attr id id id id (tailq e) id
        · split at h
          · split at h
            · next hpe => simp [Cfg.sound] at hpe
            · simp at h; subst h
              by_cases e : r = x
              · subst e; exact absurd hn (setRes_self_ne_none _ _ _)
              · exact g.mono attr id id id id (tailq e) id
          · split at h
            · simp at h; subst h
              by_cases e : r = x
              · subst e; exact absurd hn (setRes_self_ne_none _ _ _)
              · exact g.mono attr id id id id (tailq e) id
            · next hca hao hcb =>
              simp at h; subst h
              by_cases e : r = x
              · subst e
                unfold Good Carrier at g ⊢
                cases hp : (attr r).place <;> simp only [hp] at g ⊢
                · exact g
                · refine Or.inr (Or.inr (Or.inr ⟨by simp, by simpa using hca, Or.inl (by simp)⟩))
              · exact g.mono attr id id id id (tailq e)
                  (fun ⟨h1, h2, h3⟩ => ⟨List.mem_append_left _ h1, h2,
                    h3.mono (fun _ m => List.mem_append_left _ m) (fun _ => id) id (fun _ => id) (fun _ => id) id⟩)
      · next x o q haq =>
        simp at h; subst h
        refine g0.mono attr id id id id ?_ id
        intro hm; rw [haq] at hm; exact mem_tail_of_ne hm (by simp)
      · next q haq =>
        simp at h; subst h
        have g := g0
        unfold Good Carrier at g ⊢
        rcases g with g | g
        · exact Or.inl g
        · refine Or.inr ?_
          cases hp : (attr r).place <;> simp only [hp] at g ⊢
          · exact g
          · rcases g with g | g | g
            · exact Or.inl g
            · refine Or.inr (Or.inl ?_)
              rw [haq] at g; exact mem_tail_of_ne g (by simp)
            · exact absurd hn (setAll_mem_ne_none g.1)
      · next q haq =>
        simp at h; subst h
        refine g0.mono attr id id id id ?_ id
        intro hm; rw [haq] at hm; exact mem_tail_of_ne hm (by simp)
  case unregister =>
    refine Or.inr ?_
    simp at h; subst h
    exact g0.mono attr id id id id id id
  case stop1 =>
    refine Or.inr ?_
    split at h <;> simp at h; subst h
    exact g0.mono attr id id id id id id
  case stop2 =>
    refine Or.inr ?_
    split at h <;> simp at h; subst h
    exact g0.mono attr id id id id id id
  case stopB =>
    refine Or.inr ?_
    split at h <;> simp at h; subst h
    refine g0.mono attr id id id id id ?_
    rintro ⟨h1, h2, h3⟩
    exact ⟨h1, h2, h3.mono (fun _ => id) (fun _ => id) id (fun _ hc => List.mem_append_left _ hc) (fun _ => id) id⟩
  case discA =>
    refine Or.inr ?_
    split at h <;> simp at h; subst h
    exact g0.mono attr id id id id (fun hq => List.mem_append_left _ hq) id
  case send x =>
    refine Or.inr ?_
    split at h
    · split at h
      · next hpx =>
        split at h <;> simp at h <;> subst h
        · have g := g0
          by_cases e : r = x
          · subst e; exact Or.inr (by unfold Carrier; rw [hpx]; exact Or.inl (by simp))
          · exact g.mono attr (fun u => (List.mem_erase_of_ne e).2 u) (fun f => List.mem_append_left _ f) id id id
              (fun ⟨h1, h2, h3⟩ => ⟨h1, h2, h3.mono (fun _ => id) (fun _ f => List.mem_append_left _ f) id
                (fun _ => id) (fun _ => id) id⟩)
        · by_cases e : r = x
          · subst e; exact absurd hn (setRes_self_ne_none _ _ _)
          · exact g0.mono attr (fun u => (List.mem_erase_of_ne e).2 u) id id id id id
      · next hpx =>
        split at h <;> simp at h <;> subst h
        · by_cases e : r = x
          · subst e; exact absurd hn (setRes_self_ne_none _ _ _)
          · exact g0.mono attr (fun u => (List.mem_erase_of_ne e).2 u) id id id id id
        · by_cases e : r = x
          · subst e; exact Or.inr (by unfold Carrier; rw [hpx]; exact Or.inl (by simp))
          · exact g0.mono attr (fun u => (List.mem_erase_of_ne e).2 u) id id
              (fun c => List.mem_cons_of_mem _ c) id id
    · simp at h
  case recvA =>
    refine Or.inr ?_
    split at h
    · simp at h
    · split at h
      · next x o w hw =>
        simp at h; subst h
        by_cases e : r = x
        · subst e; exact absurd hn (setRes_self_ne_none _ _ _)
        · refine g0.mono attr id id id id id ?_
          rintro ⟨h1, h2, h3⟩
          refine ⟨(List.mem_erase_of_ne e).2 h1, h2, ?_⟩
          rcases h3 with h3 | h3 | h3 | ⟨o', h3⟩ | ⟨o', h3⟩ | h3 | h3
          · exact Or.inl h3
          · exact Or.inr (Or.inl h3)
          · exact Or.inr (Or.inr (Or.inl h3))
          · exact Or.inr (Or.inr (Or.inr (Or.inl ⟨o', h3⟩)))
          · refine Or.inr (Or.inr (Or.inr (Or.inr (Or.inl ⟨o', ?_⟩))))
            rw [hw] at h3
            simp only [List.mem_cons] at h3
            rcases h3 with h3 | h3
            · injection h3 with h3; exact absurd h3 e
            · exact h3
          · exact Or.inr (Or.inr (Or.inr (Or.inr (Or.inr (Or.inl h3)))))
          · exact Or.inr (Or.inr (Or.inr (Or.inr (Or.inr (Or.inr h3)))))
      · next x w hw =>
        simp at h; subst h
        refine g0.mono attr id id id id id ?_
        rintro ⟨h1, h2, h3⟩
        refine ⟨h1, h2, ?_⟩
        rcases h3 with h3 | h3 | h3 | ⟨o', h3⟩ | ⟨o', h3⟩ | h3 | h3
        · exact Or.inl h3
        · exact Or.inr (Or.inl h3)
        · exact Or.inr (Or.inr (Or.inl h3))
        · exact Or.inr (Or.inr (Or.inr (Or.inl ⟨o', h3⟩)))
        · refine Or.inr (Or.inr (Or.inr (Or.inr (Or.inl ⟨o', ?_⟩))))
          rw [hw] at h3
          simp only [List.mem_cons] at h3
          rcases h3 with h3 | h3
          · cases h3
          · exact h3
        · exact Or.inr (Or.inr (Or.inr (Or.inr (Or.inr (Or.inl h3)))))
        · exact Or.inr (Or.inr (Or.inr (Or.inr (Or.inr (Or.inr h3)))))
      · simp at h
  case eofA =>
    refine Or.inr ?_
    split at h
    · simp at h; subst h
      have g := g0
      unfold Good Carrier at g ⊢
      rcases g with g | g
      · exact Or.inl g
      · refine Or.inr ?_
        cases hp : (attr r).place <;> simp only [hp] at g ⊢
        · exact g
        · rcases g with g | g | g
          · exact Or.inl g
          · exact Or.inr (Or.inl g)
          · exact absurd hn (setAll_mem_ne_none g.1)
    · simp at h
  case loopB =>
    refine Or.inr ?_
    split at h
    · simp at h
    · split at h
      · simp at h
      · next x o q hbq =>
        -- a reply callback at the head of B's queue
        have key : ∀ t : State, t.unsent = s.unsent → t.fifo = s.fifo → t.phase = s.phase → t.checked = s.checked →
            t.aQ = s.aQ → t.pendA = s.pendA → t.connA = s.connA → t.wireAB = s.wireAB → t.connB = s.connB →
            t.bQ = q → (∀ m, m ∈ s.wireBA → m ∈ t.wireBA) →
            (s.connA = true → s.connB = true → ∃ o', Msg.rep x o' ∈ t.wireBA) →
            Good attr s r → Good attr t r := by
          intro t e1 e2 e3 e4 e5 e6 e7 e8 e9 e10 hw hx g
          refine g.mono attr (by rw [e1]; exact id) (by rw [e2]; exact id) (by rw [e3]; exact id)
            (by rw [e4]; exact id) (by rw [e5]; exact id) ?_
          rintro ⟨h1, h2, h3⟩
          refine ⟨by rw [e6]; exact h1, by rw [e7]; exact h2, ?_⟩
          rcases h3 with h3 | h3 | h3 | ⟨o', h3⟩ | ⟨o', h3⟩ | h3 | h3
          · exact Or.inl (by rw [e8]; exact h3)
          · exact Or.inr (Or.inl (by rw [e2]; exact h3))
          · exact Or.inr (Or.inr (Or.inl (by rw [e3]; exact h3)))
          · rw [hbq] at h3
            simp only [List.mem_cons] at h3
            rcases h3 with h3 | h3
            · injection h3 with h3 h4
              subst h3
              cases hcb : s.connB with
              | false => exact Or.inr (Or.inr (Or.inr (Or.inr (Or.inr (Or.inl (by rw [e9]; exact hcb))))))
              | true => exact Or.inr (Or.inr (Or.inr (Or.inr (Or.inl (hx h2 hcb)))))
            · exact Or.inr (Or.inr (Or.inr (Or.inl ⟨o', by rw [e10]; exact h3⟩)))
          · exact Or.inr (Or.inr (Or.inr (Or.inr (Or.inl ⟨o', hw _ h3⟩))))
          · exact Or.inr (Or.inr (Or.inr (Or.inr (Or.inr (Or.inl (by rw [e9]; exact h3))))))
          · rw [hbq] at h3
            exact Or.inr (Or.inr (Or.inr (Or.inr (Or.inr (Or.inr (by rw [e10]; exact mem_tail_of_ne h3 (by simp)))))))
        have g := id g0
        split at h
        · next hcb =>
          simp at h; subst h
          exact key _ rfl rfl rfl rfl rfl rfl rfl rfl rfl rfl (fun _ => id)
            (fun _ hb => by simp [hb] at hcb) g
        · split at h
          · split at h
            · next hpe => simp [Cfg.sound] at hpe
            · simp at h; subst h
              exact key _ rfl rfl rfl rfl rfl rfl rfl rfl rfl rfl (fun _ m => List.mem_append_left _ m)
                (fun _ _ => ⟨.deliveryErr, by simp⟩) g
          · split at h
            · split at h
              · next hpe => simp [Cfg.sound] at hpe
              · simp at h; subst h
                exact key _ rfl rfl rfl rfl rfl rfl rfl rfl rfl rfl (fun _ m => List.mem_append_left _ m)
                  (fun _ _ => ⟨.deliveryErr, by simp⟩) g
            · split at h
              · next hca =>
                simp at h; subst h
                exact key _ rfl rfl rfl rfl rfl rfl rfl rfl rfl rfl (fun _ => id)
                  (fun ha _ => by simp [ha] at hca) g
              · simp at h; subst h
                exact key _ rfl rfl rfl rfl rfl rfl rfl rfl rfl rfl (fun _ m => List.mem_append_left _ m)
                  (fun _ _ => ⟨o, by simp⟩) g
      · next x q hbq =>
        simp at h; subst h
        refine g0.mono attr id id id id id ?_
        rintro ⟨h1, h2, h3⟩
        refine ⟨h1, h2, ?_⟩
        rcases h3 with h3 | h3 | h3 | ⟨o', h3⟩ | ⟨o', h3⟩ | h3 | h3
        · exact Or.inl h3
        · exact Or.inr (Or.inl h3)
        · exact Or.inr (Or.inr (Or.inl h3))
        · rw [hbq] at h3; exact Or.inr (Or.inr (Or.inr (Or.inl ⟨o', mem_tail_of_ne h3 (by simp)⟩)))
        · exact Or.inr (Or.inr (Or.inr (Or.inr (Or.inl ⟨o', h3⟩))))
        · exact Or.inr (Or.inr (Or.inr (Or.inr (Or.inr (Or.inl h3)))))
        · rw [hbq] at h3; exact Or.inr (Or.inr (Or.inr (Or.inr (Or.inr (Or.inr (mem_tail_of_ne h3 (by simp)))))))
      · next q hbq =>
        simp at h; subst h
        refine g0.mono attr id id id id id ?_
        rintro ⟨h1, h2, _⟩
        exact ⟨h1, h2, Or.inr (Or.inr (Or.inr (Or.inr (Or.inr (Or.inl rfl)))))⟩
      · next q hbq =>
        simp at h; subst h
        refine g0.mono attr id id id id id ?_
        rintro ⟨h1, h2, h3⟩
        refine ⟨h1, h2, ?_⟩
        rcases h3 with h3 | h3 | h3 | ⟨o', h3⟩ | ⟨o', h3⟩ | h3 | h3
        · exact Or.inl h3
        · exact Or.inr (Or.inl h3)
        · exact Or.inr (Or.inr (Or.inl h3))
        · rw [hbq] at h3; exact Or.inr (Or.inr (Or.inr (Or.inl ⟨o', mem_tail_of_ne h3 (by simp)⟩)))
        · exact Or.inr (Or.inr (Or.inr (Or.inr (Or.inl ⟨o', h3⟩))))
        · exact Or.inr (Or.inr (Or.inr (Or.inr (Or.inr (Or.inl h3)))))
        · rw [hbq] at h3; exact Or.inr (Or.inr (Or.inr (Or.inr (Or.inr (Or.inr (mem_tail_of_ne h3 (by simp)))))))
  case loopExitB =>
    refine Or.inr ?_
    split at h
    · next hst =>
      simp at h; subst h
      have hcb : s.connB = false := hs.bSock_conn (by rw [hst]; simp)
      refine g0.mono attr id id id id id ?_
      rintro ⟨h1, h2, _⟩
      exact ⟨h1, h2, Or.inr (Or.inr (Or.inr (Or.inr (Or.inr (Or.inl hcb)))))⟩
    · simp at h
  case recvB =>
    refine Or.inr ?_
    split at h
    · simp at h
    · split at h
      · next x w hw =>
        have tailw : r ≠ x → Msg.req r ∈ s.wireAB → Msg.req r ∈ w := by
          intro e hm; rw [hw] at hm
          simp only [List.mem_cons] at hm
          rcases hm with hm | hm
          · injection hm with hm; exact absurd hm e
          · exact hm
        split at h
        · simp at h; subst h
          refine g0.mono attr id (fun f => List.mem_append_left _ f) id id id ?_
          rintro ⟨h1, h2, h3⟩
          refine ⟨h1, h2, ?_⟩
          rcases h3 with h3 | h3 | h3 | ⟨o', h3⟩ | ⟨o', h3⟩ | h3 | h3
          · by_cases e : r = x
            · subst e; exact Or.inr (Or.inl (by simp))
            · exact Or.inl (tailw e h3)
          · exact Or.inr (Or.inl (List.mem_append_left _ h3))
          · exact Or.inr (Or.inr (Or.inl h3))
          · exact Or.inr (Or.inr (Or.inr (Or.inl ⟨o', h3⟩)))
          · exact Or.inr (Or.inr (Or.inr (Or.inr (Or.inl ⟨o', h3⟩))))
          · exact Or.inr (Or.inr (Or.inr (Or.inr (Or.inr (Or.inl h3)))))
          · exact Or.inr (Or.inr (Or.inr (Or.inr (Or.inr (Or.inr h3)))))
        · simp at h; subst h
          refine g0.mono attr id id id id id ?_
          rintro ⟨h1, h2, h3⟩
          refine ⟨h1, h2, ?_⟩
          rcases h3 with h3 | h3 | h3 | ⟨o', h3⟩ | ⟨o', h3⟩ | h3 | h3
          · by_cases e : r = x
            · subst e; exact Or.inr (Or.inr (Or.inr (Or.inr (Or.inl ⟨.deliveryErr, by simp⟩))))
            · exact Or.inl (tailw e h3)
          · exact Or.inr (Or.inl h3)
          · exact Or.inr (Or.inr (Or.inl h3))
          · exact Or.inr (Or.inr (Or.inr (Or.inl ⟨o', h3⟩)))
          · exact Or.inr (Or.inr (Or.inr (Or.inr (Or.inl ⟨o', List.mem_append_left _ h3⟩))))
          · exact Or.inr (Or.inr (Or.inr (Or.inr (Or.inr (Or.inl h3)))))
          · exact Or.inr (Or.inr (Or.inr (Or.inr (Or.inr (Or.inr h3)))))
      · next x o w hw =>
        simp at h; subst h
        refine g0.mono attr id id id id id ?_
        rintro ⟨h1, h2, h3⟩
        refine ⟨h1, h2, ?_⟩
        rcases h3 with h3 | h3 | h3 | ⟨o', h3⟩ | ⟨o', h3⟩ | h3 | h3
        · rw [hw] at h3; simp only [List.mem_cons] at h3
          rcases h3 with h3 | h3
          · cases h3
          · exact Or.inl h3
        · exact Or.inr (Or.inl h3)
        · exact Or.inr (Or.inr (Or.inl h3))
        · exact Or.inr (Or.inr (Or.inr (Or.inl ⟨o', h3⟩)))
        · exact Or.inr (Or.inr (Or.inr (Or.inr (Or.inl ⟨o', h3⟩))))
        · exact Or.inr (Or.inr (Or.inr (Or.inr (Or.inr (Or.inl h3)))))
        · exact Or.inr (Or.inr (Or.inr (Or.inr (Or.inr (Or.inr h3)))))
      · simp at h
  case eofB =>
    refine Or.inr ?_
    split at h
    · simp at h; subst h
      refine g0.mono attr id id id id id ?_
      rintro ⟨h1, h2, _⟩
      exact ⟨h1, h2, Or.inr (Or.inr (Or.inr (Or.inr (Or.inr (Or.inl rfl)))))⟩
    · simp at h
  case pop =>
    refine Or.inr ?_
    split at h
    · next x rest hph hf =>
      split at h <;> simp at h; subst h
      have g := g0
      have hfm : r ∈ s.fifo → r ∈ rest ∨ r = x := by
        intro hm; rw [hf] at hm; simp only [List.mem_cons] at hm
        rcases hm with hm | hm
        · exact Or.inr hm
        · exact Or.inl hm
      unfold Good Carrier at g ⊢
      rcases g with g | g
      · exact Or.inl g
      · refine Or.inr ?_
        cases hp : (attr r).place <;> simp only [hp] at g ⊢
        · rcases g with g | g
          · rcases hfm g with h1 | h1
            · exact Or.inl h1
            · exact Or.inr (by rw [h1])
          · rw [hph] at g; cases g
        · rcases g with g | g | ⟨h1, h2, h3⟩
          · exact Or.inl g
          · exact Or.inr (Or.inl g)
          · refine Or.inr (Or.inr ⟨h1, h2, ?_⟩)
            rcases h3 with h3 | h3 | h3 | ⟨o', h3⟩ | ⟨o', h3⟩ | h3 | h3
            · exact Or.inl h3
            · rcases hfm h3 with h4 | h4
              · exact Or.inr (Or.inl h4)
              · exact Or.inr (Or.inr (Or.inl (by rw [h4])))
            · rw [hph] at h3; cases h3
            · exact Or.inr (Or.inr (Or.inr (Or.inl ⟨o', h3⟩)))
            · exact Or.inr (Or.inr (Or.inr (Or.inr (Or.inl ⟨o', h3⟩))))
            · exact Or.inr (Or.inr (Or.inr (Or.inr (Or.inr (Or.inl h3)))))
            · exact Or.inr (Or.inr (Or.inr (Or.inr (Or.inr (Or.inr h3)))))
    · simp at h
  case finish o =>
    refine Or.inr ?_
    split at h
    · next x hph =>
      split at h
      · simp at h
      · split at h
        · next hcr => simp [Cfg.sound] at hcr
        · simp at h; subst h
          have c := route_core attr { s with phase := .idle, executed := s.executed ++ [(x, o)] } x o
          have g := g0
          have hbusy : s.phase = .busy r → r = x := by
            intro hb; rw [hph] at hb; injection hb with hb; exact hb.symm
          unfold Good Carrier at g ⊢
          rcases g with g | g
          · exact Or.inl (by rw [c.unsent]; exact g)
          · refine Or.inr ?_
            cases hp : (attr r).place <;> simp only [hp] at g ⊢
            · rcases g with g | g
              · exact Or.inl (by rw [c.fifo]; exact g)
              · have e := hbusy g; subst e
                exact absurd hn (route_loc_result attr _ r o hp)
            · rcases g with g | g | ⟨h1, h2, h3⟩
              · exact Or.inl (by rw [c.checked]; exact g)
              · exact Or.inr (Or.inl (by rw [c.aQ]; exact g))
              · refine Or.inr (Or.inr ⟨by rw [c.pendA]; exact h1, by rw [c.connA]; exact h2, ?_⟩)
                rcases h3 with h3 | h3 | h3 | ⟨o', h3⟩ | ⟨o', h3⟩ | h3 | h3
                · exact Or.inl (by rw [c.wireAB]; exact h3)
                · exact Or.inr (Or.inl (by rw [c.fifo]; exact h3))
                · have e := hbusy h3; subst e
                  rcases route_rem_bQ attr { s with phase := .idle, executed := s.executed ++ [(r, o)] } r o hp with h4 | h4
                  · exact Or.inr (Or.inr (Or.inr (Or.inl ⟨o, h4⟩)))
                  · rcases b_cannot_send hs h4 with h5 | h5
                    · exact Or.inr (Or.inr (Or.inr (Or.inr (Or.inr (Or.inl (by rw [c.connB]; exact h5))))))
                    · exact Or.inr (Or.inr (Or.inr (Or.inr (Or.inr (Or.inr (route_bQ_mem attr _ r o _ h5))))))
                · exact Or.inr (Or.inr (Or.inr (Or.inl ⟨o', route_bQ_mem attr _ x o _ h3⟩)))
                · exact Or.inr (Or.inr (Or.inr (Or.inr (Or.inl ⟨o', by rw [c.wireBA]; exact h3⟩))))
                · exact Or.inr (Or.inr (Or.inr (Or.inr (Or.inr (Or.inl (by rw [c.connB]; exact h3))))))
                · exact Or.inr (Or.inr (Or.inr (Or.inr (Or.inr (Or.inr (route_bQ_mem attr _ x o _ h3))))))
    · simp at h
  case drain =>
    refine Or.inr ?_
    split at h
    · next hph =>
      split at h
      · simp at h; subst h
        have c := routeAll_core attr { s with phase := .drained, fifo := [] } s.fifo .deliveryErr
        have g := g0
        unfold Good Carrier at g ⊢
        rcases g with g | g
        · exact Or.inl (by rw [c.unsent]; exact g)
        · refine Or.inr ?_
          cases hp : (attr r).place <;> simp only [hp] at g ⊢
          · rcases g with g | g
            · exact absurd hn (routeAll_loc_result attr _ _ _ r g hp)
            · rw [hph] at g; cases g
          · rcases g with g | g | ⟨h1, h2, h3⟩
            · exact Or.inl (by rw [c.checked]; exact g)
            · exact Or.inr (Or.inl (by rw [c.aQ]; exact g))
            · refine Or.inr (Or.inr ⟨by rw [c.pendA]; exact h1, by rw [c.connA]; exact h2, ?_⟩)
              rcases h3 with h3 | h3 | h3 | ⟨o', h3⟩ | ⟨o', h3⟩ | h3 | h3
              · exact Or.inl (by rw [c.wireAB]; exact h3)
              · rcases routeAll_rem_bQ attr { s with phase := .drained, fifo := [] } s.fifo .deliveryErr r h3 hp with h4 | h4
                · exact Or.inr (Or.inr (Or.inr (Or.inl ⟨.deliveryErr, h4⟩)))
                · rcases b_cannot_send hs h4 with h5 | h5
                  · exact Or.inr (Or.inr (Or.inr (Or.inr (Or.inr (Or.inl (by rw [c.connB]; exact h5))))))
                  · exact Or.inr (Or.inr (Or.inr (Or.inr (Or.inr (Or.inr (routeAll_bQ_mem attr _ _ _ _ h5))))))
              · rw [hph] at h3; cases h3
              · exact Or.inr (Or.inr (Or.inr (Or.inl ⟨o', routeAll_bQ_mem attr _ _ _ _ h3⟩)))
              · exact Or.inr (Or.inr (Or.inr (Or.inr (Or.inl ⟨o', by rw [c.wireBA]; exact h3⟩))))
              · exact Or.inr (Or.inr (Or.inr (Or.inr (Or.inr (Or.inl (by rw [c.connB]; exact h3))))))
              · exact Or.inr (Or.inr (Or.inr (Or.inr (Or.inr (Or.inr (routeAll_bQ_mem attr _ _ _ _ h3))))))
      · simp at h
    · simp at h


/-- the carrier-or-lost invariant -/
def CInvL (s : State) : Prop :=
  ∀ r ∈ s.issued, s.result r = none → r ∈ s.lost ∨ Good attr s r

theorem cinvl_init : CInvL attr init := by
  intro r hr; simp [init] at hr

theorem cinvl_step {s s' : State} {a : Act} (hs : SInv Cfg.sound s) (ha : AInv s) (hc : CInvL attr s)
    (h : step Cfg.sound attr s a = some s') : CInvL attr s' := by
  intro r hr hn
  rcases issued_back attr _ h r hr with h0 | h0
  · rcases hc r h0 (result_none_back attr _ h r hn) with hl | g0
    · exact Or.inl (lost_mono attr _ h r hl)
    · exact good_step attr hs ha h r hn hr g0
  · exact Or.inr (Or.inl h0)

end QmiModel.Rpc
