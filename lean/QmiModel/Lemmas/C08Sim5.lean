import QmiModel.Lemmas.C08Sim4
/-! C08, simulation layer — micro steps of the subscribing context: local subscriptions, send attempts, connection cleanup. -/
set_option linter.unusedSimpArgs false
namespace QmiModel.PubSub
open Proto

/-- the subscriber-side stutter lemma in its general form: the tables of the key, the inbox of the connection, the
observed operations of the socket thread and the lost-request status are unchanged -/
theorem sim_a_stutter {s s' : State} {cn : ConnId} {ob : Obj} {sg : Sg} {x : AS} (af : AFrame s s' cn)
    (hls : (s'.ctx (cliOf s cn)).lsubs (keyOf s cn ob sg) = [] ↔ (s.ctx (cliOf s cn)).lsubs (keyOf s cn ob sg) = [])
    (hpo : poOf (s'.ctx (cliOf s cn)) (keyOf s cn ob sg) = poOf (s.ctx (cliOf s cn)) (keyOf s cn ob sg))
    (hib : ((s'.conn cn).half true).inbox = ((s.conn cn).half true).inbox)
    (hsr : MOp.sigRemoved (keyOf s cn ob sg) ∈ s'.prog (.sock (cliOf s cn)) ↔ MOp.sigRemoved (keyOf s cn ob sg) ∈ s.prog (.sock (cliOf s cn)))
    (hpr : MOp.peerRemoved (.name (srvOf s cn)) ∈ s'.prog (.sock (cliOf s cn)) ↔ MOp.peerRemoved (.name (srvOf s cn)) ∈ s.prog (.sock (cliOf s cn)))
    (hpp : MOp.popPeer (.name (srvOf s cn)) ∈ s'.prog (.sock (cliOf s cn)) ↔ MOp.popPeer (.name (srvOf s cn)) ∈ s.prog (.sock (cliOf s cn)))
    (hhr : ∀ id, curOf (s.ctx (cliOf s cn)) (keyOf s cn ob sg) = some id →
      (MOp.handleReply id true ∈ s'.prog (.sock (cliOf s cn)) ↔ MOp.handleReply id true ∈ s.prog (.sock (cliOf s cn))))
    (hfail : ∀ id, curOf (s.ctx (cliOf s cn)) (keyOf s cn ob sg) = some id → (FailCar s' cn id ↔ FailCar s cn id))
    (h : Sim s cn ob sg x) : Sim s' cn ob sg x := by
  refine sim_stutter af.srv ?_ (fun th' hth' => by rw [af.progP th' hth']) hfail h
  rw [af.view ob sg hib]
  exact ⟨Iff.rfl, hls, rfl, hpo, fun _ _ => rfl, rfl, hsr, and_congr hpr (not_congr hpp), hhr⟩


/-- local subscribe / unsubscribe and the removal of an own object work on keys of the own context -/
theorem sim_a_local {s s' : State} {th : Th} {ch ch2 : Nat} {op : MOp} {rest : List MOp} {o : Out}
    (hr : Reach s) (hprog : s.prog th = op :: rest) (hs : microStep s th ch ch2 op rest = some (s', o))
    {cn : ConnId} {ob : Obj} {sg : Sg} {x : AS} (hth : th.ctx = cliOf s cn) (hne : cliOf s cn ≠ srvOf s cn)
    (hop : (∃ k r, op = .addLocal k r) ∨ (∃ k r, op = .removeLocal k r) ∨ (∃ ob', op = .objRemoved ob'))
    (h : Sim s cn ob sg x) : Sim s' cn ob sg x := by
  have hlk := lkInv_reach hr
  have hnk : ∀ k', k'.pc = Peer.name th.ctx → keyOf s cn ob sg ≠ k' := by
    intro k' hk e
    rw [← e] at hk
    simp only [keyOf, Peer.name.injEq] at hk
    exact hne (hth ▸ hk.symm)
  rcases hop with ⟨k', r, rfl⟩ | ⟨k', r, rfl⟩ | ⟨ob', rfl⟩
  · refine sim_a_quiet hr hprog hs hth hne ?_ rfl rfl (by intro d m e; cases e) h
    have hk := hlk th _ k' (by rw [hprog]; exact List.mem_cons_self) rfl
    simp only [microStep, Option.some.injEq, Prod.mk.injEq] at hs
    obtain ⟨rfl, -⟩ := hs
    simp only [setProg_ctx, setCtx_ctx, hth, if_true, upd, if_neg (hnk k' hk)]
  · refine sim_a_quiet hr hprog hs hth hne ?_ rfl rfl (by intro d m e; cases e) h
    have hk := hlk th _ k' (by rw [hprog]; exact List.mem_cons_self) rfl
    simp only [microStep, Option.some.injEq, Prod.mk.injEq] at hs
    obtain ⟨rfl, -⟩ := hs
    simp only [setProg_ctx, setCtx_ctx, hth, if_true, upd, if_neg (hnk k' hk)]
  · refine sim_a_quiet hr hprog hs hth hne ?_ rfl rfl (by intro d m e; cases e) h
    simp only [microStep, Option.some.injEq, Prod.mk.injEq] at hs
    obtain ⟨rfl, -⟩ := hs
    simp only [setProg_ctx, setCtx_ctx, hth, if_true]
    rw [if_neg]
    intro ⟨e, _⟩
    simp only [keyOf, Peer.name.injEq] at e
    exact hne (hth ▸ e.symm)


/-- the outstanding request of a key is addressed to the publisher context of the key -/
theorem typed_dest_of_cur {cs : CtxSt} (hp : PendOk cs) {d : Peer} {id : ReqId} {ob' : Obj} {sg' : Sg} {b : Bool} {k : Key}
    (h : reqTyped cs d (.subReq id ob' sg' b)) (hc : curOf cs k = some id) : d = k.pc := by
  obtain ⟨pid', po', h1, h2, h3, -⟩ := h
  simp only [curOf, poOf] at hc
  cases hk : cs.byKey k with
  | none => simp [hk] at hc
  | some pid =>
    cases hpo : cs.pobj pid with
    | none => simp [hk, hpo] at hc
    | some po =>
      simp only [hk, Option.bind_some, hpo, Option.map_some, Option.some.injEq] at hc
      have hcur := hp.byKey_cur _ pid po hk hpo
      rw [hc, h1] at hcur
      have e1 : pid' = pid := Option.some.inj hcur
      subst e1
      rw [hpo] at h2
      have e2 : po = po' := Option.some.inj h2
      subst e2
      have := (hp.byKey_obj _ pid' po hk hpo).1
      rw [h3] at this
      rw [← this]

set_option maxHeartbeats 1000000 in
/-- `MessageRouter.send_message` in a thread of the subscribing context: the outstanding request of the key is
addressed to the connected publisher, so the send is not refused -/
theorem sim_a_sendChk {s s' : State} {th : Th} {ch ch2 : Nat} {d : Peer} {m : Msg} {rest : List MOp} {o : Out}
    (hr : Reach s) (hprog : s.prog th = .sendChk d m :: rest) (hs : microStep s th ch ch2 (.sendChk d m) rest = some (s', o))
    {cn : ConnId} {ob : Obj} {sg : Sg} {x : AS} (hth : th.ctx = cliOf s cn) (hl : Live s cn)
    (h : Sim s cn ob sg x) : Sim s' cn ob sg x := by
  have hlf := live_facts hr hl
  have af := aframe_micro hs hth hlf.ne
  have hf := microStep_frame hs
  have hfl := microStep_fields hs
  have hconn : s'.conn = s.conn := hfl.conn rfl
  have hctx : s'.ctx (cliOf s cn) = s.ctx (cliOf s cn) := by
    simp only [microStep] at hs
    split at hs <;> simp only [Option.some.injEq, Prod.mk.injEq] at hs <;> obtain ⟨rfl, -⟩ := hs <;> rfl
  -- what the program of the thread looks like afterwards
  have hpr : s'.prog th = .enq d m :: rest ∨
      (s'.prog th = onSendFail m ++ rest ∧ ∀ id, curOf (s.ctx (cliOf s cn)) (keyOf s cn ob sg) = some id → m.reqId? ≠ some id) := by
    simp only [microStep] at hs
    split at hs <;> simp only [Option.some.injEq, Prod.mk.injEq] at hs <;> obtain ⟨rfl, -⟩ := hs
    · left; simp [State.setProg, upd]
    · rename_i hcond
      right
      refine ⟨by simp [State.setProg, upd], ?_⟩
      intro id hcur hid
      apply hcond
      cases m <;> simp only [Msg.reqId?, Option.some.injEq, reduceCtorEq] at hid
      subst hid
      have typed := (ctInv_reach hr).ops th d _ (Or.inl (by rw [hprog]; exact List.mem_cons_self))
      rw [hth] at typed
      have hd := typed_dest_of_cur (pendInv_reach hr _) typed hcur
      simp only [keyOf] at hd
      subst hd
      have h1 := hl.regA; have h2 := hl.upA
      rw [hth]; simp [h1, h2]
  have hmemX : ∀ X : MOp, (∀ d' m', X ≠ .enq d' m') → (∀ d' m', X ≠ .sendChk d' m') → X ∉ onSendFail m →
      (X ∈ s'.prog th ↔ X ∈ s.prog th) := by
    intro X hX1 hX2 hX3
    rw [hprog]
    rcases hpr with hp | ⟨hp, -⟩ <;> rw [hp]
    · simp only [List.mem_cons]
      exact ⟨fun h => h.elim (fun e => absurd e (hX1 _ _)) Or.inr, fun h => h.elim (fun e => absurd e (hX2 _ _)) Or.inr⟩
    · simp only [List.mem_append, List.mem_cons]
      exact ⟨fun h => h.elim (fun e => absurd e hX3) Or.inr, fun h => h.elim (fun e => absurd e (hX2 _ _)) Or.inr⟩
  have hnf : ∀ X : MOp, (∀ id, X ≠ .handleReply id false) → X ∉ onSendFail m := by
    intro X hX hm'
    cases m <;> simp [onSendFail] at hm'
    exact hX _ hm'
  have hpsa : ∀ X : MOp, (∀ d' m', X ≠ .enq d' m') → (∀ d' m', X ≠ .sendChk d' m') → (∀ id, X ≠ .handleReply id false) →
      (X ∈ s'.prog (.sock (cliOf s cn)) ↔ X ∈ s.prog (.sock (cliOf s cn))) := by
    intro X h1 h2 h3
    by_cases e : Th.sock (cliOf s cn) = th
    · subst e; exact hmemX X h1 h2 (hnf X h3)
    · rw [hf.prog_other _ e]
  refine sim_a_stutter af (by rw [hctx]) (by rw [hctx]) (by rw [hconn])
    (hpsa _ (by intros; simp) (by intros; simp) (by intros; simp))
    (hpsa _ (by intros; simp) (by intros; simp) (by intros; simp))
    (hpsa _ (by intros; simp) (by intros; simp) (by intros; simp))
    (fun id _ => hpsa _ (by intros; simp) (by intros; simp) (by intros; simp)) ?_ h
  intro id hcur
  refine failCar_congr af.cli ?_ (fun n => af.own n true) (fun n _ _ => by rw [hconn])
  intro th' _
  by_cases e : th' = th
  · subst e
    rw [hprog]
    rcases hpr with hp | ⟨hp, hne'⟩ <;> rw [hp]
    · simp
    · simp only [List.mem_append, List.mem_cons, reduceCtorEq, false_or]
      constructor
      · rintro (hm' | hm')
        · cases m <;> simp [onSendFail] at hm'
          exact absurd (by simp [Msg.reqId?, hm']) (hne' id hcur)
        · exact hm'
      · exact Or.inr
  · rw [hf.prog_other _ e]


set_option maxHeartbeats 2000000 in
/-- connection cleanup in the socket thread of the subscribing context -/
theorem sim_a_td {s s' : State} {th : Th} {ch ch2 : Nat} {op : MOp} {rest : List MOp} {o : Out}
    (hr : Reach s) (hprog : s.prog th = op :: rest) (hs : microStep s th ch ch2 op rest = some (s', o))
    {cn : ConnId} {ob : Obj} {sg : Sg} {x : AS} (hth : th.ctx = cliOf s cn) (hl : Live s cn) (hl' : Live s' cn)
    (htd : op.isTd = true) (h : Sim s cn ob sg x) : ∃ x', Sim s' cn ob sg x' ∧ (x' = x ∨ x' ∈ next x) := by
  have hlf := live_facts hr hl
  have af := aframe_micro hs hth hlf.ne
  have hf := microStep_frame hs
  have hfl := microStep_fields hs
  have htdi := tdInv_reach hr
  obtain ⟨c, rfl⟩ : ∃ c, th = .sock c := by
    cases th with
    | sock c => exact ⟨c, rfl⟩
    | user c t => have := htdi.user c t op (by rw [hprog]; simp); rw [htd] at this; cases this
  simp only [Th.ctx] at hth; subst hth
  have hctx : (Th.sock (cliOf s cn)).ctx = cliOf s cn := rfl
  obtain ⟨a1, a2⟩ := dsp_obs_absent (dspInv_reach hr) hprog hs (by intro k e; subst e; simp [MOp.isTd] at htd)
    (by intro id e; subst e; simp [MOp.isTd] at htd)
  have hsr : MOp.sigRemoved (keyOf s cn ob sg) ∈ s'.prog (.sock (cliOf s cn)) ↔ MOp.sigRemoved (keyOf s cn ob sg) ∈ s.prog (.sock (cliOf s cn)) :=
    ⟨fun h => absurd h (a1 _).2, fun h => absurd h (a1 _).1⟩
  have hhr : ∀ id, MOp.handleReply id true ∈ s'.prog (.sock (cliOf s cn)) ↔ MOp.handleReply id true ∈ s.prog (.sock (cliOf s cn)) :=
    fun id => ⟨fun h => absurd h (a2 _).2, fun h => absurd h (a2 _).1⟩
  have hoth : ∀ th', th' ≠ Th.sock (cliOf s cn) → s'.prog th' = s.prog th' := hf.prog_other
  have hsh := htdi.sock (cliOf s cn)
  rw [hprog] at hsh
  generalize hl0 : op :: rest = l at hsh
  cases hsh with
  | free hfree => subst hl0; have := hfree op List.mem_cons_self; rw [htd] at this; cases this
  | pop n cn' cli r hr' =>
    simp only [List.cons.injEq] at hl0; obtain ⟨rfl, rfl⟩ := hl0
    simp only [microStep] at hs; rw [hctx] at hs
    simp only [Option.some.injEq, Prod.mk.injEq] at hs; obtain ⟨rfl, -⟩ := hs
    have hn : n ≠ .name (srvOf s cn) := by
      intro e; subst e
      have := hl'.regA
      simp [cliOf, srvOf, upd] at this
    refine ⟨_, sim_a_stutter af (by simp) (by simp [poOf]) rfl hsr ?_ ?_ (fun id _ => hhr id) ?_ h, Or.inl rfl⟩
    · rw [hprog]; simp
    · rw [hprog]; simp [Ne.symm hn]
    · intro id _
      refine failCar_congr af.cli ?_ (fun n => af.own n true) (fun n _ _ => Iff.rfl)
      intro th' _
      by_cases e : th' = .sock (cliOf s cn)
      · subst e; rw [hprog]; simp
      · rw [hoth th' e]
  | rem n cn' cli r hr' =>
    simp only [List.cons.injEq] at hl0; obtain ⟨rfl, rfl⟩ := hl0
    simp only [microStep] at hs; rw [hctx] at hs
    simp only [Option.some.injEq, Prod.mk.injEq] at hs; obtain ⟨rfl, -⟩ := hs
    have hrtd : ∀ X : MOp, X.isTd = true → X ∉ r := fun X hX hm => by have := hr' X hm; rw [hX] at this; cases this
    have hfail : ∀ id, FailCar ((s.setCtx (cliOf s cn) (peerRemovedStep (s.ctx (cliOf s cn)) n)).setProg (.sock (cliOf s cn))
        (.closeConn cn' cli :: r)) cn id ↔ FailCar s cn id := by
      intro id
      refine failCar_congr af.cli ?_ (fun n => af.own n true) (fun n _ _ => Iff.rfl)
      intro th' _
      by_cases e : th' = .sock (cliOf s cn)
      · subst e; rw [hprog]; simp
      · rw [hoth th' e]
    by_cases hn : n = .name (srvOf s cn)
    · subst hn
      obtain ⟨rm, failed, hrel, hfs, rfl⟩ := h
      have hsim := af.sim' (ob := ob) (sg := sg) (failed' := failed) hrel
        (by intro id hid
            have : curOf (s.ctx (cliOf s cn)) (keyOf s cn ob sg) = some id := by simpa [curOf, poOf, peerRemovedStep] using hid
            rw [hfs id this, hfail])
        (v' := { viewOf s cn ob sg with ls := [], psa := .closeConn cn' cli :: r })
        (by rw [af.view ob sg rfl]; simp [viewOf, keyOf, peerRemovedStep, poOf])
      refine ⟨_, hsim, Or.inr ?_⟩
      rw [absV_aside (by simp only [viewOf]; rw [hprog]; simp) (by intro id _; simp only [viewOf]; rw [hprog]; simp)]
      have hwp : (absOf s cn ob sg rm failed).wp = true := by
        simp only [absOf, absV, viewOf, keyOf, hprog, decide_eq_true_eq]
        refine ⟨by simp, ?_⟩
        simp only [List.mem_cons, reduceCtorEq, false_or]
        exact hrtd _ rfl
      have := next_wp hwp
      refine cast (congrArg (· ∈ next _) ?_) this
      refine AS.ext' rfl ?_ rfl rfl rfl rfl rfl rfl ?_
      · simp
      · simp only [keyOf, List.mem_cons, reduceCtorEq, false_or]
        have := hrtd (.peerRemoved (.name (srvOf s cn))) rfl
        simp [this]
    · refine ⟨_, sim_a_stutter af ?_ (by simp [poOf, peerRemovedStep]) rfl hsr ?_ ?_ (fun id _ => hhr id) (fun id _ => hfail id) h, Or.inl rfl⟩
      · simp only [setProg_ctx, setCtx_ctx, if_true, peerRemovedStep, keyOf]
        rw [if_neg (Ne.symm hn)]
      · rw [hprog]; simp [Ne.symm hn]
      · rw [hprog]; simp
  | close cn' cli r hr' =>
    simp only [List.cons.injEq] at hl0; obtain ⟨rfl, rfl⟩ := hl0
    have hnc : ¬(cn' = cn ∧ cli = true) := by
      rintro ⟨rfl, rfl⟩; exact live_not_closing hr hl hprog
    have hownc := ((ownInv_reach hr).close (.sock (cliOf s cn)) cn' cli (by rw [hprog]; exact List.mem_cons_self)).2
    simp only [Th.ctx] at hownc
    simp only [microStep, Option.some.injEq, Prod.mk.injEq] at hs; obtain ⟨rfl, -⟩ := hs
    have hhalf : ∀ n b, ¬(n = cn' ∧ b = cli) →
        ((upd s.conn cn' ((s.conn cn').setHalf cli { (s.conn cn').half cli with isOpen := false, inbox := [], pend := [] }) n).half b) =
          (s.conn n).half b := by
      intro n b hne
      simp only [upd]; split
      · rename_i e; subst e; rw [half_setHalf', if_neg (fun e => hne ⟨rfl, e⟩)]
      · rfl
    have hcn : ¬(cn = cn' ∧ true = cli) := by
      rintro ⟨rfl, rfl⟩; exact hnc ⟨rfl, rfl⟩
    have hmapX : ∀ X : MOp, (∀ id, X ≠ .handleReply id false) →
        X ∉ ((s.conn cn').half cli).pend.map (fun id => MOp.handleReply id false) := by
      intro X hX hm; simp only [List.mem_map] at hm; obtain ⟨id, -, rfl⟩ := hm; exact hX id rfl
    refine ⟨_, sim_a_stutter af Iff.rfl rfl ?_ hsr ?_ ?_ (fun id _ => hhr id) ?_ h, Or.inl rfl⟩
    · simp only [setProg_conn]; rw [hhalf cn true hcn]
    · rw [hprog]; simp only [setProg_prog, if_true, List.mem_append, List.mem_cons, reduceCtorEq, false_or]
      exact ⟨fun h => h.elim (fun h => absurd h (hmapX _ (by intros; simp))) id, Or.inr⟩
    · rw [hprog]; simp only [setProg_prog, if_true, List.mem_append, List.mem_cons, reduceCtorEq, false_or]
      exact ⟨fun h => h.elim (fun h => absurd h (hmapX _ (by intros; simp))) id, Or.inr⟩
    · intro id _
      have hpendS := (idInv_reach hr).pendS cn'
      simp only [FailCar, af.cli]
      constructor
      · rintro (⟨th', h1, h2⟩ | ⟨n', h1, h2, h3⟩)
        · by_cases e : th' = .sock (cliOf s cn)
          · subst e
            simp only [setProg_prog, if_true, List.mem_append, List.mem_map] at h2
            rcases h2 with ⟨id', hid', e'⟩ | h2
            · simp only [MOp.handleReply.injEq, and_true] at e'; subst e'
              cases cli with
              | false => rw [hpendS] at hid'; simp at hid'
              | true => exact Or.inr ⟨cn', fun e => hnc ⟨e, rfl⟩, hownc, hid'⟩
            · exact Or.inl ⟨_, rfl, by rw [hprog]; exact List.mem_cons_of_mem _ h2⟩
          · rw [hoth th' e] at h2; exact Or.inl ⟨th', h1, h2⟩
        · simp only [setProg_conn] at h2 h3
          by_cases e : n' = cn' ∧ true = cli
          · obtain ⟨rfl, rfl⟩ := e
            simp [upd, half_setHalf'] at h3
          · rw [hhalf n' true e] at h2 h3
            exact Or.inr ⟨n', h1, h2, h3⟩
      · rintro (⟨th', h1, h2⟩ | ⟨n', h1, h2, h3⟩)
        · by_cases e : th' = .sock (cliOf s cn)
          · subst e
            rw [hprog] at h2
            simp only [List.mem_cons, reduceCtorEq, false_or] at h2
            exact Or.inl ⟨.sock (cliOf s cn), rfl, by simp only [setProg_prog, if_true, List.mem_append]; exact Or.inr h2⟩
          · exact Or.inl ⟨th', h1, by rw [hoth th' e]; exact h2⟩
        · by_cases e : n' = cn' ∧ true = cli
          · obtain ⟨rfl, rfl⟩ := e
            exact Or.inl ⟨.sock (cliOf s cn), rfl, by
              simp only [setProg_prog, if_true, List.mem_append, List.mem_map]
              exact Or.inl ⟨id, h3, rfl⟩⟩
          · refine Or.inr ⟨n', h1, ?_, ?_⟩
            · simp only [setProg_conn]; rw [hhalf n' true e]; exact h2
            · simp only [setProg_conn]; rw [hhalf n' true e]; exact h3

end QmiModel.PubSub
