import QmiModel.Lemmas.C08NetTok
import QmiModel.Lemmas.C08Quiet
/-! C08 — a termination measure for the internal activity of the pub/sub model: definitions.

The measure is a triple, ordered lexicographically:
* `mu0`: publications and object removals that have not yet taken their snapshot of a table (the amount of work they
  cause depends on the table), and connection ends that are open and not yet being closed (an end-of-stream is handled
  once per end);
* `mu1`: everything else, with weights that do not depend on the state: every operation, queued callback and message in
  transit pays for what it may cause; a pending unsubscribe request with waiting subscribers, and a pending subscribe
  request marked by a removal notice, carry the potential `Wcyc` for the one re-send they may cause;
* `mu2`: deliveries still to make from snapshots already taken. -/
namespace QmiModel.PubSub

/-- `Σ_{i<n} f i` -/
def sumTo : Nat → (Nat → Nat) → Nat
  | 0, _ => 0
  | n + 1, f => sumTo n f + f n

theorem sumTo_congr {n : Nat} {f g : Nat → Nat} (h : ∀ i, i < n → f i = g i) : sumTo n f = sumTo n g := by
  induction n with
  | zero => rfl
  | succ n ih =>
    simp only [sumTo]
    rw [ih (fun i hi => h i (Nat.lt_succ_of_lt hi)), h n (Nat.lt_succ_self n)]

/-- two families that differ at one index -/
theorem sumTo_update {n : Nat} {f g : Nat → Nat} {i : Nat} (hi : i < n) (h : ∀ j, j ≠ i → f j = g j) :
    sumTo n f + g i = sumTo n g + f i := by
  induction n with
  | zero => exact absurd hi (Nat.not_lt_zero _)
  | succ n ih =>
    simp only [sumTo]
    by_cases e : i = n
    · subst e
      rw [sumTo_congr (fun j hj => h j (Nat.ne_of_lt hj))]
      omega
    · have hi' : i < n := Nat.lt_of_le_of_ne (Nat.le_of_lt_succ hi) e
      have := ih hi'
      rw [h n (fun e' => e e'.symm)]
      omega

theorem sumTo_zero {n : Nat} {f : Nat → Nat} (h : ∀ i, i < n → f i = 0) : sumTo n f = 0 := by
  induction n with
  | zero => rfl
  | succ n ih => simp only [sumTo]; rw [ih (fun i hi => h i (Nat.lt_succ_of_lt hi)), h n (Nat.lt_succ_self n)]

theorem sumTo_le {n : Nat} {f g : Nat → Nat} (h : ∀ i, i < n → f i ≤ g i) : sumTo n f ≤ sumTo n g := by
  induction n with
  | zero => exact Nat.le_refl _
  | succ n ih =>
    simp only [sumTo]
    exact Nat.add_le_add (ih (fun i hi => h i (Nat.lt_succ_of_lt hi))) (h n (Nat.lt_succ_self n))

/-! ### weights -/

/-- `_handle_subscription_reply` -/
def Whr : Nat := 1

/-- a reply: message read by the subscriber's socket thread, then the reply handler -/
def wmReply : Nat := 1 + Whr
/-- `sendChk` of a reply in the publisher's socket thread: check, hand-over, send, message -/
def wSendReply : Nat := 1 + (1 + (1 + wmReply))

def wReqChk2 : Nat := 1 + (1 + wSendReply)
def wReqChk1 : Nat := 1 + (1 + wReqChk2)

/-- a request message in the publisher's inbox -/
def wmReq : Nat := 1 + wReqChk1
/-- a request in the subscriber's event-loop queue: send (registers it on the connection end), or fail -/
def wcbReq : Nat := 1 + wmReq + Whr
/-- `sendChk` of a request: check, hand-over -/
def wSendReq : Nat := 1 + (1 + wcbReq)

/-- the potential of a pending request that may be sent again once -/
def Wcyc : Nat := wSendReq

def wSigRemoved : Nat := 1 + Wcyc
def wmRemoved : Nat := 1 + wSigRemoved
/-- `enq` of a removal notice -/
def wEnqRemoved : Nat := 1 + (1 + wmRemoved)

/-- a signal message: read, snapshot of the local subscribers -/
def wmSignal : Nat := 1 + 1
def wEnqSignal : Nat := 1 + (1 + wmSignal)

def wMsg : Msg → Nat
  | .signal .. => wmSignal
  | .subReq .. => wmReq
  | .subReply .. => wmReply
  | .removed .. => wmRemoved

/-- a request that cannot be sent is answered locally by `_handle_subscription_reply(False)` -/
def reqW (m : Msg) : Nat := match m.reqId? with | some _ => Whr | none => 0

/-- a callback in an event-loop queue -/
def wCb : Cb → Nat
  | .smSend _ m => 1 + wMsg m + reqW m
  | .disconnect .. => 1 + (1 + 1 + 1 + 1)

/-- the weight of an operation in `mu1` -/
def w1 : MOp → Nat
  | .snapLocal .. => 1
  | .deliver .. => 0
  | .snapRemote .. => 0
  | .pubSend ps _ _ _ => ps.length * (1 + wEnqSignal)
  | .sendChk d m => 1 + (1 + wCb (.smSend d m))
  | .enq d m => 1 + wCb (.smSend d m)
  | .chkObj1 .. => 2
  | .addLocal .. => 1
  | .chkObj2 .. => 2
  | .removeLocal .. => 1
  | .subRemote .. => 1 + wSendReq + 2
  | .wait _ => 2
  | .unsubRemote .. => 1 + Wcyc + wSendReq
  | .handleReply .. => Whr
  | .markObj _ => 2
  | .objRemoved _ => 0
  | .notify ns _ => ns.length * (1 + wEnqRemoved)
  | .delObj _ => 1
  | .reserveObj _ => 2
  | .registerObj _ => 1
  | .reqChk1 .. => wReqChk1
  | .addRemote .. => 1
  | .reqChk2 .. => wReqChk2
  | .removeRemote .. => 1
  | .sigRemoved _ => wSigRemoved
  | .popPeer _ => 1
  | .peerRemoved _ => 1
  | .closeConn .. => 1
  | .finish .. => 1
  | .enqDisc _ => 1 + wCb (.disconnect (.name 0) 0)
  | .waitFut => 2
  | .ret _ => 1
  | .raise .. => 1

def W1 (l : List MOp) : Nat := (l.map w1).sum

/-- operations counted in `mu0` -/
def w0 : MOp → Nat
  | .snapRemote .. => 1
  | .objRemoved _ => 1
  | _ => 0

def W0 (l : List MOp) : Nat := (l.map w0).sum

/-- deliveries still to make -/
def w2 : MOp → Nat
  | .deliver _ rs _ _ => rs.length
  | _ => 0

def W2 (l : List MOp) : Nat := (l.map w2).sum

theorem Whr_eq : Whr = 1 := rfl
theorem wmReply_eq : wmReply = 2 := rfl
theorem wSendReply_eq : wSendReply = 5 := rfl
theorem wReqChk2_eq : wReqChk2 = 7 := rfl
theorem wReqChk1_eq : wReqChk1 = 9 := rfl
theorem wmReq_eq : wmReq = 10 := rfl
theorem wcbReq_eq : wcbReq = 12 := rfl
theorem wSendReq_eq : wSendReq = 14 := rfl
theorem Wcyc_eq : Wcyc = 14 := rfl
theorem wSigRemoved_eq : wSigRemoved = 15 := rfl
theorem wmRemoved_eq : wmRemoved = 16 := rfl
theorem wEnqRemoved_eq : wEnqRemoved = 18 := rfl
theorem wmSignal_eq : wmSignal = 2 := rfl
theorem wEnqSignal_eq : wEnqSignal = 4 := rfl

theorem W1_cons (op : MOp) (l : List MOp) : W1 (op :: l) = w1 op + W1 l := by simp [W1]
theorem W1_append (l m : List MOp) : W1 (l ++ m) = W1 l + W1 m := by simp [W1]
theorem W1_nil : W1 [] = 0 := rfl
theorem W0_cons (op : MOp) (l : List MOp) : W0 (op :: l) = w0 op + W0 l := by simp [W0]
theorem W0_append (l m : List MOp) : W0 (l ++ m) = W0 l + W0 m := by simp [W0]
theorem W0_nil : W0 [] = 0 := rfl
theorem W2_cons (op : MOp) (l : List MOp) : W2 (op :: l) = w2 op + W2 l := by simp [W2]
theorem W2_append (l m : List MOp) : W2 (l ++ m) = W2 l + W2 m := by simp [W2]
theorem W2_nil : W2 [] = 0 := rfl

/-- the sum of a weight over all threads of the contexts below `B` (user threads below `T`) -/
def progSum (W : List MOp → Nat) (B T : Nat) (s : State) : Nat :=
  sumTo B (fun c => sumTo T (fun t => W (s.prog (.user c t))) + W (s.prog (.sock c)))

def loopW (l : List Cb) : Nat := (l.map wCb).sum
def inboxW (l : List Msg) : Nat := (l.map wMsg).sum

/-- the potential of one entry of the pending table `byId` -/
def potEnt (byId : ReqId → Option ReqId) (pobj : ReqId → Option PObj) (id : ReqId) : Nat :=
  match byId id with
  | none => 0
  | some pid =>
    match pobj pid with
    | none => 0
    | some po => (if po.sub then 0 else Wcyc) + (if po.cancelled then Wcyc else 0)

def potTab (byId : ReqId → Option ReqId) (pobj : ReqId → Option PObj) (n : Nat) : Nat := sumTo n (potEnt byId pobj)

def potPend (cs : CtxSt) : Nat := potTab cs.byId cs.pobj cs.nextReq

/-- an open connection end that is not yet being closed -/
def openPot (s : State) (n : ConnId) (b : Bool) : Nat :=
  if ((s.conn n).half b).isOpen = true ∧ MOp.closeConn n b ∉ s.prog (.sock ((s.conn n).half b).owner) then 1 else 0

def halfW (h : Half) : Nat := inboxW h.inbox + h.pend.length * Whr

def mu0 (B T : Nat) (s : State) : Nat :=
  progSum W0 B T s + sumTo s.nextConn (fun n => openPot s n true + openPot s n false)

def mu1 (B T : Nat) (s : State) : Nat :=
  progSum W1 B T s + sumTo B (fun c => loopW (s.ctx c).loopQ + potPend (s.ctx c)) +
  sumTo s.nextConn (fun n => halfW ((s.conn n).half true) + halfW ((s.conn n).half false))

def mu2 (B T : Nat) (s : State) : Nat := progSum W2 B T s


/-! ### states with finitely many active contexts and threads -/

/-- contexts `≥ B` and threads outside the bounds have never been used -/
structure Bnd (B T : Nat) (s : State) : Prop where
  pos : 0 < B
  own : OwnersBelow s B
  ctx : ∀ c, B ≤ c → s.ctx c = CtxSt.init
  prog : ∀ th : Th, ¬ th.below B T → s.prog th = []

theorem Th.below_mono {B T B' T' : Nat} (hB : B ≤ B') (hT : T ≤ T') {th : Th} (h : th.below B T) : th.below B' T' := by
  cases th with
  | user c t => exact ⟨Nat.lt_of_lt_of_le h.1 hB, Nat.lt_of_lt_of_le h.2 hT⟩
  | sock c => exact Nat.lt_of_lt_of_le h hB

theorem Bnd.mono {B T B' T' : Nat} {s : State} (h : Bnd B T s) (hB : B ≤ B') (hT : T ≤ T') : Bnd B' T' s :=
  ⟨Nat.lt_of_lt_of_le h.pos hB, fun cn cli => Nat.lt_of_lt_of_le (h.own cn cli) hB, fun c hc => h.ctx c (Nat.le_trans hB hc),
   fun th hn => h.prog th (fun hb => hn (Th.below_mono hB hT hb))⟩

theorem Bnd.below {B T : Nat} {s : State} (h : Bnd B T s) {th : Th} (hp : s.prog th ≠ []) : th.below B T :=
  Classical.byContradiction (fun hn => hp (h.prog th hn))

/-- a step of an action within the bounds keeps the bounds -/
theorem bnd_step {B T : Nat} {s s' : State} {a : Act} {o : Out} (h : Bnd B T s) (hs : step s a = some (s', o))
    (ha : a.below B T) : Bnd B T s' := by
  obtain ⟨h1, h2, h3⟩ := step_bounded h.pos hs ha h.own
  exact ⟨h.pos, h1, fun c hc => by rw [h2 c hc]; exact h.ctx c hc, fun th hn => by rw [h3 th hn]; exact h.prog th hn⟩

/-- an internal action that is enabled in a bounded state is within the bounds -/
theorem internal_below {B T : Nat} {s s' : State} {a : Act} {o : Out} (h : Bnd B T s) (hi : a.internal = true)
    (hs : step s a = some (s', o)) : a.below B T := by
  cases a with
  | micro th ch ch2 =>
    obtain ⟨-, op, rest, hp, -⟩ := step_micro_inv hs
    exact h.below (by rw [hp]; simp)
  | cb c ok =>
    simp only [Act.below]
    refine Classical.byContradiction (fun hn => ?_)
    have := h.ctx c (Nat.le_of_not_lt hn)
    simp only [step, this, CtxSt.init] at hs
    split at hs <;> simp at hs
  | arrive cn cli => trivial
  | eof cn cli => trivial
  | _ => simp [Act.internal] at hi

theorem act_below_exists (a : Act) (B T : Nat) : ∃ B' T', B ≤ B' ∧ T ≤ T' ∧ a.below B' T' := by
  have key : ∀ c t : Nat, ∃ B' T', B ≤ B' ∧ T ≤ T' ∧ c < B' ∧ t < T' := fun c t =>
    ⟨B + c + 1, T + t + 1, by omega, by omega, by omega, by omega⟩
  have key2 : ∀ x y z : Nat, y < x + y + z + 1 ∧ z < x + y + z + 1 := fun x y z => ⟨by omega, by omega⟩
  cases a with
  | begin c t op => obtain ⟨B', T', h1, h2, h3, h4⟩ := key c t; exact ⟨B', T', h1, h2, h3, h4⟩
  | micro th ch ch2 =>
    cases th with
    | user c t => obtain ⟨B', T', h1, h2, h3, h4⟩ := key c t; exact ⟨B', T', h1, h2, h3, h4⟩
    | sock c => obtain ⟨B', T', h1, h2, h3, -⟩ := key c 0; exact ⟨B', T', h1, h2, h3⟩
  | cb c ok => obtain ⟨B', T', h1, h2, h3, -⟩ := key c 0; exact ⟨B', T', h1, h2, h3⟩
  | arrive cn cli => exact ⟨B, T, Nat.le_refl _, Nat.le_refl _, trivial⟩
  | eof cn cli => exact ⟨B, T, Nat.le_refl _, Nat.le_refl _, trivial⟩
  | connect a p =>
    refine ⟨B + a + p + 1, T, ?_, Nat.le_refl _, ?_, ?_⟩
    · omega
    · exact (key2 B a p).1
    · exact (key2 B a p).2
  | routerOk th =>
    cases th with
    | user c t => obtain ⟨B', T', h1, h2, h3, h4⟩ := key c t; exact ⟨B', T', h1, h2, h3, h4⟩
    | sock c => obtain ⟨B', T', h1, h2, h3, -⟩ := key c 0; exact ⟨B', T', h1, h2, h3⟩
  | stopReq c => obtain ⟨B', T', h1, h2, h3, -⟩ := key c 0; exact ⟨B', T', h1, h2, h3⟩
  | stop c => obtain ⟨B', T', h1, h2, h3, -⟩ := key c 0; exact ⟨B', T', h1, h2, h3⟩

/-- every reachable state is bounded -/
theorem reach_bounded {s : State} (hr : Reach s) : ∃ B T, Bnd B T s := by
  induction hr with
  | init =>
    refine ⟨1, 0, Nat.one_pos, ?_, fun _ _ => rfl, fun _ _ => rfl⟩
    intro cn cli; cases cli <;> simp [State.init, Conn.half, Half.init]
  | @step s0 s1 a o _ hs ih =>
    obtain ⟨B, T, hb⟩ := ih
    obtain ⟨B', T', h1, h2, h3⟩ := act_below_exists a B T
    exact ⟨B', T', bnd_step (hb.mono h1 h2) hs h3⟩

end QmiModel.PubSub
