import QmiModel.Lemmas.C13Loops
/-!
# C13 helper lemmas, part 5: `discard_read`, `open`, `close` keep the stream accounting
-/
namespace QmiModel.Transport

theorem flushSplit_bytes : ∀ d : Script, (flushSplit d).1 ++ devBytes (flushSplit d).2 = devBytes d := by
  intro d
  induction d with
  | nil => simp [flushSplit, devBytes]
  | cons x rest ih =>
    obtain ⟨e, r⟩ := x
    cases e with
    | succ k => simp [flushSplit]
    | zero =>
      cases r with
      | timeout => simp [flushSplit]
      | eof => simp [flushSplit]
      | data bs =>
        simp only [flushSplit, devBytes, List.append_assoc]
        rw [ih]

theorem sockDiscardLoop_spec : ∀ (fuel : Nat) (s : St), s.buf = [] →
    tot (sockDiscardLoop fuel s).1 = tot s ∧ Same s (sockDiscardLoop fuel s).1 ∧ (sockDiscardLoop fuel s).1.buf = [] := by
  intro fuel
  induction fuel with
  | zero => intro s hb; exact ⟨rfl, Same.refl s, hb⟩
  | succ fuel ih =>
    intro s hb
    simp only [sockDiscardLoop]
    have hR := sockRecv_spec s s.maxP false
    generalize sockRecv s s.maxP false = rr at *
    obtain ⟨s1, rx⟩ := rr
    obtain ⟨hS, hL, hB, hD⟩ := hR
    have hL' : s1.log = s.log := hL
    have hB' : s1.buf = [] := by have : s1.buf = s.buf := hB; rw [this, hb]
    have hD' : rxBytes rx ++ devBytes s1.dev = devBytes s.dev := hD
    have hS' : Same s s1 := hS
    have base : ∀ (h : rxBytes rx = []), tot s1 = tot s := by
      intro h
      simp only [tot, hL', hB', hb, ← hD', h, List.append_nil, List.nil_append]
    cases rx with
    | timeout => exact ⟨base rfl, hS', hB'⟩
    | eof => exact ⟨base rfl, hS', hB'⟩
    | exhausted => exact ⟨base rfl, hS', hB'⟩
    | oserr l =>
      refine ⟨?_, ⟨hS'.kind, hS'.minP, hS'.maxP, hS'.isOpen, hS'.wlog⟩, hB'⟩
      simp only [rxBytes] at hD'
      simp only [tot, hL', hB', hb, ← hD', logBytes_append, logBytes_single, List.append_nil, List.append_assoc]
    | data b =>
      simp only
      split
      · rename_i he
        have : b = [] := by simpa using he
        exact ⟨base (by simp [rxBytes, this]), hS', hB'⟩
      · have hI := ih { s1 with log := s1.log ++ [(Tag.disc, b)] } hB'
        obtain ⟨h1, h2, h3⟩ := hI
        refine ⟨?_, ⟨h2.kind.trans hS'.kind, h2.minP.trans hS'.minP, h2.maxP.trans hS'.maxP, h2.isOpen.trans hS'.isOpen, h2.wlog.trans hS'.wlog⟩, h3⟩
        rw [h1]
        simp only [rxBytes] at hD'
        simp only [tot, hL', hB', hb, ← hD', logBytes_append, logBytes_single, List.append_nil, List.append_assoc]

theorem sockDiscard_spec (s : St) : tot (sockDiscard s).1 = tot s ∧ Same s (sockDiscard s).1 := by
  simp only [sockDiscard]
  split
  · exact ⟨rfl, Same.refl s⟩
  · have h := sockDiscardLoop_spec (fuelOf s.dev)
      (setTimeout { s with buf := [], log := s.log ++ [(Tag.disc, s.buf)] } (some 0)).1 rfl
    obtain ⟨h1, h2, _⟩ := h
    refine ⟨?_, ⟨h2.kind, h2.minP, h2.maxP, h2.isOpen, h2.wlog⟩⟩
    rw [h1]
    simp only [tot, setTimeout, logBytes_append, logBytes_single, List.append_nil]

theorem serialDiscard_spec (s : St) : tot (serialDiscard s).1 = tot s ∧ Same s (serialDiscard s).1 := by
  simp only [serialDiscard]
  split
  · exact ⟨rfl, Same.refl s⟩
  · refine ⟨?_, ⟨rfl, rfl, rfl, rfl, rfl⟩⟩
    have := flushSplit_bytes s.dev
    simp only [tot, logBytes_append, logBytes_single, List.append_nil, List.append_assoc, this]

theorem doOpen_tot (s : St) : tot (doOpen s).1 = tot s := by
  simp only [doOpen]
  split
  · rfl
  · cases s.kind <;> cases s.openPlan.headD .ok <;>
      simp only [tot, logBytes_append, logBytes_single, List.append_nil, List.append_assoc]

/-- configuration is untouched by `open`, and the flag is set exactly when the outcome is success -/
theorem doOpen_cfg (s : St) :
    (doOpen s).1.kind = s.kind ∧ (doOpen s).1.minP = s.minP ∧ (doOpen s).1.maxP = s.maxP ∧
    (doOpen s).1.dev = s.dev ∧ (doOpen s).1.clock = s.clock ∧ (doOpen s).1.wlog = s.wlog := by
  simp only [doOpen]
  split
  · exact ⟨rfl, rfl, rfl, rfl, rfl, rfl⟩
  · cases hk : s.kind <;> cases s.openPlan.headD .ok <;> exact ⟨by simp, rfl, rfl, rfl, rfl, rfl⟩

theorem doOpen_flag (s : St) :
    (doOpen s).1.isOpen = (s.isOpen || decide ((doOpen s).2 = .unit)) := by
  simp only [doOpen]
  split
  · rename_i h; simp [h]
  · rename_i h
    have h' : s.isOpen = false := by simpa using h
    cases s.kind <;> cases s.openPlan.headD .ok <;> simp [h']

theorem doOpen_exc (s : St) :
    (doOpen s).2 = .unit ∨ (doOpen s).2 = .exc .invalidOp ∨ (doOpen s).2 = .exc .timeout ∨ (doOpen s).2 = .exc .osError := by
  simp only [doOpen]
  split
  · simp
  · cases s.kind <;> cases s.openPlan.headD .ok <;> simp

theorem doClose_tot (s : St) : tot (doClose s).1 = tot s := by
  simp only [doClose]
  split <;> rfl

theorem doOpen_closed_out (s : St) (h : s.isOpen = false) :
    (doOpen s).2 = .unit ∨ (doOpen s).2 = .exc .timeout ∨ (doOpen s).2 = .exc .osError := by
  simp only [doOpen, h, Bool.false_eq_true, if_false]
  cases s.kind <;> cases s.openPlan.headD .ok <;> simp

/-- sockets / ports the transport has created and not closed, read off the device-interaction trace -/
def unclosed (io : List Io) : Int := (io.count Io.mk : Int) - (io.count Io.cl : Int)

theorem unclosed_append (a b : List Io) : unclosed (a ++ b) = unclosed a + unclosed b := by
  simp only [unclosed, List.count_append]; omega

/-- what `open` on a closed transport does to the device objects: on success exactly one more socket / port
is open; on every failure path each socket it created has been closed again -/
theorem doOpen_unclosed (s : St) (h : s.isOpen = false) :
    ((doOpen s).2 = .unit → unclosed (doOpen s).1.io = unclosed s.io + 1) ∧
    ((doOpen s).2 ≠ .unit → unclosed (doOpen s).1.io = unclosed s.io) := by
  have e1 : unclosed [Io.mk, Io.cn, Io.cl] = 0 := by decide
  have e2 : unclosed [Io.gh, Io.mk, Io.bd, Io.cl] = 0 := by decide
  have e3 : unclosed [Io.gh] = 0 := by decide
  have e4 : unclosed [Io.mk] = 1 := by decide
  have e5 : unclosed [Io.mk, Io.cn] = 1 := by decide
  have e6 : unclosed [Io.gh, Io.mk, Io.bd] = 1 := by decide
  simp only [doOpen, h, Bool.false_eq_true, if_false]
  cases s.kind <;> cases s.openPlan.headD .ok <;>
    simp [unclosed_append, e1, e2, e3, e4, e5, e6]

theorem doWrite_spec (s : St) (d : Bytes) :
    tot (doWrite s d).1 = tot s ∧ (doWrite s d).1.kind = s.kind ∧ (doWrite s d).1.minP = s.minP ∧
    (doWrite s d).1.maxP = s.maxP ∧ (doWrite s d).1.isOpen = s.isOpen ∧ (doWrite s d).1.dev = s.dev ∧
    (doWrite s d).1.buf = s.buf ∧ (doWrite s d).1.clock = s.clock ∧ (doWrite s d).1.log = s.log := by
  simp only [doWrite]
  split
  · exact ⟨rfl, rfl, rfl, rfl, rfl, rfl, rfl, rfl, rfl⟩
  · cases hk : s.kind <;> exact ⟨rfl, by simp, rfl, rfl, rfl, rfl, rfl, rfl, rfl⟩

theorem ReadSpec.tot_eq {s : St} {r : St × Out} (h : ReadSpec s r) (hn : r.2 ≠ .exc .runtime) : tot r.1 = tot s := by
  obtain ⟨s', o⟩ := r
  cases o with
  | unit => exact absurd h (by simp [ReadSpec])
  | ret bs =>
    simp only [ReadSpec] at h
    obtain ⟨_, hl, hb⟩ := h
    simp only [tot, hl, logBytes_append, logBytes_single, List.append_assoc, hb]
  | exc e =>
    cases e with
    | runtime => exact absurd rfl hn
    | _ => exact Ext.tot_eq h

theorem ReadSpec.same {s : St} {r : St × Out} (h : ReadSpec s r) : Same s r.1 := by
  obtain ⟨s', o⟩ := r
  cases o with
  | unit => exact absurd h (by simp [ReadSpec])
  | ret bs => exact h.1
  | exc e =>
    cases e with
    | runtime => exact Lost.same h
    | _ => exact Ext.same h

end QmiModel.Transport
