import QmiModel.Model.Interbus
import QmiModel.Model.Apt
import QmiModel.Model.T2
/-!
# Helper lemmas for C15 part B — Interbus CRC and byte escaping (core Lean only, no `decide` over large domains)

* CRC: arithmetic form of one bit step (`crcBit_eq`), bound, the **residue** lemma (`crcStep_residue`,
  `crcOf_append_crc`) by an algebraic argument (after xoring its own high byte the state has an empty high byte, so
  eight steps are a plain shift), and **injectivity** of the bit/byte steps for an odd polynomial
  (`crcBit_inj`, …, `crcOf_single_byte`).
* Escaping: `escSet e off qs bs` is the stream in which exactly the bytes of `qs` are sent as `e, b+off`;
  one pass of the encoder loop adds a byte to `qs` (`replace1_escSet`), one pass of the decoder loop removes one
  (`replace2_escSet`), under side conditions that are *computed* by `escChain` / `unescChain` for the loop orders
  found in the source.

* APT: little-endian cell lemmas, `InRange`/`AllInRange`, `unpack_pack`, `pack_unpack`, `readN` lemmas.
* T2: unfolding lemmas of `process`.
-/
namespace QmiModel.Interbus

theorem and_8000 (x : Nat) (h : x < 65536) : x &&& 0x8000 = if 32768 ≤ x then 32768 else 0 := by
  have h1 : (x &&& 0x8000) / 2 ^ 15 = x / 2 ^ 15 &&& 0x8000 / 2 ^ 15 := Nat.and_div_two_pow
  have h2 : (x &&& 0x8000) % 2 ^ 15 = x % 2 ^ 15 &&& 0x8000 % 2 ^ 15 := Nat.and_mod_two_pow
  have e1 : (0x8000 : Nat) / 2 ^ 15 = 1 := by decide
  have e2 : (0x8000 : Nat) % 2 ^ 15 = 0 := by decide
  rw [e1, Nat.and_one_is_mod] at h1
  rw [e2, Nat.and_zero] at h2
  split <;> omega

theorem shl1_and (x : Nat) : (x <<< 1) &&& 0xffff = (2 * x) % 65536 := by
  have : (0xffff : Nat) = 2 ^ 16 - 1 := by decide
  rw [this, Nat.and_two_pow_sub_one_eq_mod, Nat.shiftLeft_eq]
  omega

/-- arithmetic form of `crcBit` -/
theorem crcBit_eq (poly x : Nat) (h : x < 65536) :
    crcBit poly x = if 32768 ≤ x then (2 * x - 65536) ^^^ poly else 2 * x := by
  unfold crcBit
  simp only [shl1_and, and_8000 x h]
  by_cases hx : 32768 ≤ x
  · simp only [hx, if_true]
    have : (2 * x) % 65536 = 2 * x - 65536 := by omega
    simp [this]
  · simp only [hx, if_false]
    have : (2 * x) % 65536 = 2 * x := by omega
    simp [this]
end QmiModel.Interbus
namespace QmiModel.Interbus

theorem crcBit_lt (poly x : Nat) (hp : poly < 65536) (h : x < 65536) : crcBit poly x < 65536 := by
  rw [crcBit_eq poly x h]
  split
  · exact Nat.xor_lt_two_pow (n := 16) (by omega) hp
  · omega

theorem crcBit_small (poly x : Nat) (h : x < 32768) : crcBit poly x = 2 * x := by
  rw [crcBit_eq poly x (by omega)]
  simp [show ¬ 32768 ≤ x by omega]

theorem xor_hi (crc : Nat) : crc ^^^ ((crc / 256) <<< 8) = crc % 256 := by
  have h1 : (crc ^^^ ((crc / 256) <<< 8)) / 2 ^ 8 = crc / 2 ^ 8 ^^^ ((crc / 256) <<< 8) / 2 ^ 8 := Nat.xor_div_two_pow
  have h2 : (crc ^^^ ((crc / 256) <<< 8)) % 2 ^ 8 = crc % 2 ^ 8 ^^^ ((crc / 256) <<< 8) % 2 ^ 8 := Nat.xor_mod_two_pow
  rw [Nat.shiftLeft_eq] at h1 h2
  have e1 : crc / 256 * 2 ^ 8 / 2 ^ 8 = crc / 256 := by omega
  have e2 : crc / 256 * 2 ^ 8 % 2 ^ 8 = 0 := by omega
  rw [e1] at h1
  rw [e2, Nat.xor_zero] at h2
  have e3 : crc / 2 ^ 8 = crc / 256 := by rfl
  rw [e3, Nat.xor_self] at h1
  rw [Nat.shiftLeft_eq]
  omega

theorem crcStep_lt (poly crc c : Nat) (hp : poly < 65536) (h : crc < 65536) (hc : c < 256) :
    crcStep poly crc c < 65536 := by
  unfold crcStep
  have h0 : crc ^^^ (c <<< 8) < 65536 := by
    apply Nat.xor_lt_two_pow (n := 16) h
    rw [Nat.shiftLeft_eq]; omega
  simp only
  exact crcBit_lt _ _ hp (crcBit_lt _ _ hp (crcBit_lt _ _ hp (crcBit_lt _ _ hp (crcBit_lt _ _ hp
    (crcBit_lt _ _ hp (crcBit_lt _ _ hp (crcBit_lt _ _ hp h0)))))))

/-- a CRC state with an empty high byte is shifted out unchanged -/
theorem crcStep_low (poly l : Nat) (h : l < 256) :
    crcBit poly (crcBit poly (crcBit poly (crcBit poly (crcBit poly (crcBit poly (crcBit poly (crcBit poly l))))))) = 256 * l := by
  rw [crcBit_small poly l (by omega), crcBit_small poly (2 * l) (by omega), crcBit_small poly (2 * (2 * l)) (by omega),
      crcBit_small poly (2 * (2 * (2 * l))) (by omega), crcBit_small poly (2 * (2 * (2 * (2 * l)))) (by omega),
      crcBit_small poly (2 * (2 * (2 * (2 * (2 * l))))) (by omega),
      crcBit_small poly (2 * (2 * (2 * (2 * (2 * (2 * l)))))) (by omega),
      crcBit_small poly (2 * (2 * (2 * (2 * (2 * (2 * (2 * l))))))) (by omega)]
  omega

/-- **residue**: feeding the CRC's own two bytes (high, low) drives the state to 0 -/
theorem crcStep_residue (poly crc : Nat) :
    crcStep poly (crcStep poly crc (crc / 256)) (crc % 256) = 0 := by
  have h1 : crcStep poly crc (crc / 256) = 256 * (crc % 256) := by
    unfold crcStep
    simp only [xor_hi]
    exact crcStep_low poly _ (by omega)
  rw [h1]
  unfold crcStep
  have : 256 * (crc % 256) ^^^ (crc % 256) <<< 8 = 0 := by
    rw [Nat.shiftLeft_eq, Nat.mul_comm]; exact Nat.xor_self _
  simp only [this]
  exact crcStep_low poly 0 (by omega)

theorem crcOf_lt (poly : Nat) (hp : poly < 65536) (bs : Bytes) : crcOf poly bs < 65536 := by
  unfold crcOf
  suffices ∀ s, s < 65536 → List.foldl (fun crc b => crcStep poly crc b.toNat) s bs < 65536 from this 0 (by omega)
  induction bs with
  | nil => intro s hs; exact hs
  | cons b bs ih =>
    intro s hs
    exact ih _ (crcStep_lt poly s b.toNat hp hs (UInt8.toNat_lt b))

theorem crcOf_append_crc (poly : Nat) (hp : poly < 65536) (bs : Bytes) :
    crcOf poly (bs ++ [UInt8.ofNat (crcOf poly bs / 256), UInt8.ofNat (crcOf poly bs % 256)]) = 0 := by
  have hlt := crcOf_lt poly hp bs
  unfold crcOf at *
  rw [List.foldl_append]
  simp only [List.foldl_cons, List.foldl_nil, UInt8.toNat_ofNat']
  generalize List.foldl (fun crc b => crcStep poly crc b.toNat) 0 bs = c at *
  have e1 : c / 256 % 2 ^ 8 = c / 256 := by omega
  have e2 : c % 256 % 2 ^ 8 = c % 256 := by omega
  rw [e1, e2]
  exact crcStep_residue poly c

end QmiModel.Interbus
namespace QmiModel.Interbus

theorem xor_cancel_right (a b p : Nat) (h : a ^^^ p = b ^^^ p) : a = b := by
  have := congrArg (· ^^^ p) h
  simpa [Nat.xor_assoc] using this

theorem crcBit_inj (poly x y : Nat) (hodd : poly % 2 = 1) (hx : x < 65536) (hy : y < 65536)
    (h : crcBit poly x = crcBit poly y) : x = y := by
  rw [crcBit_eq poly x hx, crcBit_eq poly y hy] at h
  have odd : ∀ a : Nat, a % 2 = 0 → (a ^^^ poly) % 2 = 1 := by
    intro a ha
    rw [Nat.xor_mod_two_eq_one]
    omega
  by_cases h1 : 32768 ≤ x <;> by_cases h2 : 32768 ≤ y <;> simp only [h1, h2, if_true, if_false] at h
  · have := xor_cancel_right _ _ _ h; omega
  · have := odd (2 * x - 65536) (by omega); omega
  · have := odd (2 * y - 65536) (by omega); omega
  · omega

theorem crcStep_inj_crc (poly x y c : Nat) (hodd : poly % 2 = 1) (hp : poly < 65536) (hx : x < 65536) (hy : y < 65536)
    (hc : c < 256) (h : crcStep poly x c = crcStep poly y c) : x = y := by
  unfold crcStep at h
  simp only at h
  have hc' : c <<< 8 < 2 ^ 16 := by rw [Nat.shiftLeft_eq]; omega
  have bx : x ^^^ c <<< 8 < 65536 := Nat.xor_lt_two_pow (n := 16) hx hc'
  have By : y ^^^ c <<< 8 < 65536 := Nat.xor_lt_two_pow (n := 16) hy hc'
  have l := crcBit_lt poly
  have i := crcBit_inj poly
  have := i _ _ hodd bx By <|
    i _ _ hodd (l _ hp bx) (l _ hp By) <|
    i _ _ hodd (l _ hp (l _ hp bx)) (l _ hp (l _ hp By)) <|
    i _ _ hodd (l _ hp (l _ hp (l _ hp bx))) (l _ hp (l _ hp (l _ hp By))) <|
    i _ _ hodd (l _ hp (l _ hp (l _ hp (l _ hp bx)))) (l _ hp (l _ hp (l _ hp (l _ hp By)))) <|
    i _ _ hodd (l _ hp (l _ hp (l _ hp (l _ hp (l _ hp bx))))) (l _ hp (l _ hp (l _ hp (l _ hp (l _ hp By))))) <|
    i _ _ hodd (l _ hp (l _ hp (l _ hp (l _ hp (l _ hp (l _ hp bx)))))) (l _ hp (l _ hp (l _ hp (l _ hp (l _ hp (l _ hp By)))))) <|
    i _ _ hodd (l _ hp (l _ hp (l _ hp (l _ hp (l _ hp (l _ hp (l _ hp bx))))))) (l _ hp (l _ hp (l _ hp (l _ hp (l _ hp (l _ hp (l _ hp By))))))) h
  exact xor_cancel_right _ _ _ this

theorem crcStep_inj_byte (poly s c d : Nat) (hodd : poly % 2 = 1) (hp : poly < 65536) (hs : s < 65536)
    (hc : c < 256) (hd : d < 256) (h : crcStep poly s c = crcStep poly s d) : c = d := by
  unfold crcStep at h
  simp only at h
  have hc' : c <<< 8 < 2 ^ 16 := by rw [Nat.shiftLeft_eq]; omega
  have hd' : d <<< 8 < 2 ^ 16 := by rw [Nat.shiftLeft_eq]; omega
  have bx : s ^^^ c <<< 8 < 65536 := Nat.xor_lt_two_pow (n := 16) hs hc'
  have By : s ^^^ d <<< 8 < 65536 := Nat.xor_lt_two_pow (n := 16) hs hd'
  have l := crcBit_lt poly
  have i := crcBit_inj poly
  have := i _ _ hodd bx By <|
    i _ _ hodd (l _ hp bx) (l _ hp By) <|
    i _ _ hodd (l _ hp (l _ hp bx)) (l _ hp (l _ hp By)) <|
    i _ _ hodd (l _ hp (l _ hp (l _ hp bx))) (l _ hp (l _ hp (l _ hp By))) <|
    i _ _ hodd (l _ hp (l _ hp (l _ hp (l _ hp bx)))) (l _ hp (l _ hp (l _ hp (l _ hp By)))) <|
    i _ _ hodd (l _ hp (l _ hp (l _ hp (l _ hp (l _ hp bx))))) (l _ hp (l _ hp (l _ hp (l _ hp (l _ hp By))))) <|
    i _ _ hodd (l _ hp (l _ hp (l _ hp (l _ hp (l _ hp (l _ hp bx)))))) (l _ hp (l _ hp (l _ hp (l _ hp (l _ hp (l _ hp By)))))) <|
    i _ _ hodd (l _ hp (l _ hp (l _ hp (l _ hp (l _ hp (l _ hp (l _ hp bx))))))) (l _ hp (l _ hp (l _ hp (l _ hp (l _ hp (l _ hp (l _ hp By))))))) h
  have e : c <<< 8 = d <<< 8 := by
    have := congrArg (s ^^^ ·) this
    simpa [← Nat.xor_assoc] using this
  rw [Nat.shiftLeft_eq, Nat.shiftLeft_eq] at e
  omega

/-- the fold keeps two different CRC states different -/
theorem crc_fold_inj (poly : Nat) (hodd : poly % 2 = 1) (hp : poly < 65536) (bs : Bytes) :
    ∀ s t, s < 65536 → t < 65536 →
      List.foldl (fun crc b => crcStep poly crc b.toNat) s bs = List.foldl (fun crc b => crcStep poly crc b.toNat) t bs → s = t := by
  induction bs with
  | nil => intro s t _ _ h; exact h
  | cons b bs ih =>
    intro s t hs ht h
    have hb := UInt8.toNat_lt b
    have := ih _ _ (crcStep_lt poly s _ hp hs hb) (crcStep_lt poly t _ hp ht hb) h
    exact crcStep_inj_crc poly s t _ hodd hp hs ht hb this

/-- **every single-byte change of a message changes its CRC** -/
theorem crcOf_single_byte (poly : Nat) (hodd : poly % 2 = 1) (hp : poly < 65536) (pre post : Bytes) (b b' : UInt8)
    (hne : b ≠ b') : crcOf poly (pre ++ b :: post) ≠ crcOf poly (pre ++ b' :: post) := by
  intro h
  unfold crcOf at h
  rw [List.foldl_append, List.foldl_append, List.foldl_cons, List.foldl_cons] at h
  have hs := crcOf_lt poly hp pre
  unfold crcOf at hs
  generalize List.foldl (fun crc b => crcStep poly crc b.toNat) 0 pre = s at *
  have := crc_fold_inj poly hodd hp post _ _ (crcStep_lt poly s _ hp hs (UInt8.toNat_lt b))
    (crcStep_lt poly s _ hp hs (UInt8.toNat_lt b')) h
  have := crcStep_inj_byte poly s _ _ hodd hp hs (UInt8.toNat_lt b) (UInt8.toNat_lt b') this
  exact hne (UInt8.toNat_inj.mp this)

end QmiModel.Interbus

namespace QmiModel.Interbus

/-- the stream in which exactly the bytes of `qs` are escaped -/
def escSet (e off : UInt8) (qs : List UInt8) (bs : Bytes) : Bytes :=
  bs.flatMap (fun b => if qs.contains b then [e, b + off] else [b])

theorem escSet_nil (e off : UInt8) (qs) : escSet e off qs [] = [] := rfl
theorem escSet_cons (e off : UInt8) (qs) (b) (bs : Bytes) :
    escSet e off qs (b :: bs) = (if qs.contains b then [e, b + off] else [b]) ++ escSet e off qs bs := by
  simp [escSet]

theorem escSet_empty (e off : UInt8) (bs : Bytes) : escSet e off [] bs = bs := by
  induction bs with
  | nil => rfl
  | cons b bs ih => rw [escSet_cons, ih]; simp

theorem replace1_append (v : UInt8) (r a b : Bytes) : replace1 v r (a ++ b) = replace1 v r a ++ replace1 v r b := by
  induction a with
  | nil => rfl
  | cons x t ih =>
    simp only [List.cons_append, replace1]
    split <;> simp [ih]

/-- one pass of the encoder loop -/
theorem replace1_escSet (e off v : UInt8) (qs : List UInt8)
    (hok : qs.all (fun b => e != v && b + off != v) = true) (bs : Bytes) :
    replace1 v [e, v + off] (escSet e off qs bs) = escSet e off (v :: qs) bs := by
  induction bs with
  | nil => rfl
  | cons b bs ih =>
    rw [escSet_cons, escSet_cons, replace1_append, ih]
    congr 1
    by_cases hb : qs.contains b = true
    · have hb' : (v :: qs).contains b = true := by simp at hb ⊢; exact Or.inr hb
      rw [if_pos hb, if_pos hb']
      have := List.all_eq_true.mp hok b (by simpa using hb)
      simp only [Bool.and_eq_true, bne_iff_ne, ne_eq] at this
      simp [replace1, this.1, this.2]
    · rw [if_neg hb]
      by_cases hv : b = v
      · subst hv
        have : (b :: qs).contains b = true := by simp
        rw [if_pos this]
        simp [replace1]
      · have : ¬ (v :: qs).contains b = true := by
          simp at hb ⊢; exact ⟨hv, hb⟩
        rw [if_neg this]
        simp [replace1, hv]

theorem replace2_cons_ne (a c x : UInt8) (r t : Bytes) (h : x ≠ a) : replace2 a c r (x :: t) = x :: replace2 a c r t := by
  cases t with
  | nil => simp [replace2]
  | cons y rest => simp [replace2, h]

/-- one pass of the decoder loop -/
theorem replace2_escSet (e off v : UInt8) (qs : List UInt8)
    (he : qs.contains e = true) (hsnd : qs.all (fun b => b + off != e) = true) (bs : Bytes) :
    replace2 e (v + off) [v] (escSet e off qs bs) = escSet e off (qs.filter (· != v)) bs := by
  induction bs with
  | nil => rfl
  | cons b bs ih =>
    rw [escSet_cons, escSet_cons]
    by_cases hb : qs.contains b = true
    · rw [if_pos hb]
      have hb2 := List.all_eq_true.mp hsnd b (by simpa using hb)
      simp only [bne_iff_ne, ne_eq] at hb2
      by_cases hv : b = v
      · subst hv
        have : ¬ (qs.filter (· != b)).contains b = true := by simp
        rw [if_neg this]
        simp [replace2, ih]
      · have : (qs.filter (· != v)).contains b = true := by
          simp at hb ⊢; exact ⟨hb, hv⟩
        rw [if_pos this]
        have hne : ¬ (b + off = v + off) := by
          intro h; exact hv (by simpa using h)
        simp only [List.cons_append, List.nil_append, replace2, hne, and_false, if_false]
        rw [replace2_cons_ne _ _ _ _ _ hb2, ih]
    · rw [if_neg hb]
      have hbe : b ≠ e := by
        intro h; subst h; exact hb he
      have : ¬ (qs.filter (· != v)).contains b = true := by
        simp at hb ⊢; intro h; exact absurd h hb
      rw [if_neg this]
      simp only [List.cons_append, List.nil_append]
      rw [replace2_cons_ne _ _ _ _ _ hbe, ih]

end QmiModel.Interbus

namespace QmiModel.Interbus

/-- side conditions of the encoder loop, pass by pass: returns the set of escaped bytes at the end -/
def escChain (e off : UInt8) : List UInt8 → List UInt8 → Option (List UInt8)
  | qs, [] => some qs
  | qs, v :: vs => if qs.all (fun b => e != v && b + off != v) then escChain e off (v :: qs) vs else none

/-- side conditions of the decoder loop, pass by pass: returns the set of bytes still escaped at the end -/
def unescChain (e off : UInt8) : List UInt8 → List UInt8 → Option (List UInt8)
  | qs, [] => some qs
  | qs, v :: vs =>
    if qs.contains e && qs.all (fun b => b + off != e) then unescChain e off (qs.filter (· != v)) vs else none

theorem foldl_escChain (e off : UInt8) (order : List UInt8) :
    ∀ qs qs', escChain e off qs order = some qs' → ∀ bs : Bytes,
      order.foldl (fun acc v => replace1 v [e, v + off] acc) (escSet e off qs bs) = escSet e off qs' bs := by
  induction order with
  | nil => intro qs qs' h bs; simp only [escChain, Option.some.injEq] at h; subst h; rfl
  | cons v vs ih =>
    intro qs qs' h bs
    simp only [escChain] at h
    split at h
    · rename_i hok
      rw [List.foldl_cons, replace1_escSet e off v qs hok]
      exact ih _ _ h bs
    · cases h

theorem foldl_unescChain (e off : UInt8) (order : List UInt8) :
    ∀ qs qs', unescChain e off qs order = some qs' → ∀ bs : Bytes,
      order.foldl (fun acc v => replace2 e (v + off) [v] acc) (escSet e off qs bs) = escSet e off qs' bs := by
  induction order with
  | nil => intro qs qs' h bs; simp only [unescChain, Option.some.injEq] at h; subst h; rfl
  | cons v vs ih =>
    intro qs qs' h bs
    simp only [unescChain] at h
    split at h
    · rename_i hok
      simp only [Bool.and_eq_true] at hok
      rw [List.foldl_cons, replace2_escSet e off v qs hok.1 hok.2]
      exact ih _ _ h bs
    · cases h

theorem length_le_escSet (e off : UInt8) (qs : List UInt8) (bs : Bytes) : bs.length ≤ (escSet e off qs bs).length := by
  induction bs with
  | nil => simp [escSet_nil]
  | cons b bs ih =>
    rw [escSet_cons]
    split <;> simp <;> omega

/-- a byte that is escaped, is not the escape byte and is no escape code does not occur in the escaped stream -/
theorem not_mem_escSet (e off t : UInt8) (qs : List UInt8) (hq : qs.contains t = true) (he : e ≠ t)
    (hc : qs.all (fun b => b + off != t) = true) (bs : Bytes) : t ∉ escSet e off qs bs := by
  induction bs with
  | nil => simp [escSet_nil]
  | cons b bs ih =>
    rw [escSet_cons]
    by_cases hb : qs.contains b = true
    · rw [if_pos hb]
      have := List.all_eq_true.mp hc b (by simpa using hb)
      simp only [bne_iff_ne, ne_eq] at this
      simp only [List.cons_append, List.nil_append, List.mem_cons, not_or]
      exact ⟨fun h => he h.symm, fun h => this h.symm, ih⟩
    · rw [if_neg hb]
      simp only [List.cons_append, List.nil_append, List.mem_cons, not_or]
      refine ⟨fun h => ?_, ih⟩
      subst h; exact hb hq

end QmiModel.Interbus

/-! ## Interbus: the device's one-pass un-escaping (specification) -/

namespace QmiModel.Interbus

/-- the un-escaping procedure of the NKT manual, as a device does it: one pass, an escape byte means
"the next byte minus the offset"; a dangling escape byte is an error -/
def specUnescape (e off : UInt8) : Bytes → Option Bytes
  | [] => some []
  | [x] => if x = e then none else some [x]
  | x :: y :: rest =>
    if x = e then (specUnescape e off rest).map ((y - off) :: ·) else (specUnescape e off (y :: rest)).map (x :: ·)

theorem specUnescape_cons_ne (e off x : UInt8) (t : Bytes) (h : x ≠ e) :
    specUnescape e off (x :: t) = (specUnescape e off t).map (x :: ·) := by
  cases t with
  | nil => simp [specUnescape, h]
  | cons y rest => simp [specUnescape, h]

theorem specUnescape_escSet (e off : UInt8) (qs : List UInt8) (he : qs.contains e = true) (bs : Bytes) :
    specUnescape e off (escSet e off qs bs) = some bs := by
  induction bs with
  | nil => rfl
  | cons b bs ih =>
    rw [escSet_cons]
    by_cases hb : qs.contains b = true
    · rw [if_pos hb]
      simp [specUnescape, ih]
    · rw [if_neg hb]
      have hbe : b ≠ e := by intro h; subst h; exact hb he
      simp only [List.cons_append, List.nil_append]
      rw [specUnescape_cons_ne _ _ _ _ hbe, ih]
      rfl

end QmiModel.Interbus

/-! ## Interbus: linearity of the CRC step, uniqueness of the residue bytes, length of the un-escaped stream -/

namespace QmiModel.Interbus


/-- eight bit steps = the body of `_crc_ccitt` after the xor -/
def crcByte (poly x : Nat) : Nat :=
  crcBit poly (crcBit poly (crcBit poly (crcBit poly (crcBit poly (crcBit poly (crcBit poly (crcBit poly x)))))))

theorem crcStep_eq_crcByte (poly crc c : Nat) : crcStep poly crc c = crcByte poly (crc ^^^ (c <<< 8)) := rfl

theorem xor_xor_xor_cancel (a b p : Nat) : (a ^^^ p) ^^^ (b ^^^ p) = a ^^^ b := by
  apply Nat.eq_of_testBit_eq
  intro i
  simp only [Nat.testBit_xor]
  cases a.testBit i <;> cases b.testBit i <;> cases p.testBit i <;> rfl

theorem xor_right_comm' (a b p : Nat) : (a ^^^ b) ^^^ p = (a ^^^ p) ^^^ b := by
  apply Nat.eq_of_testBit_eq
  intro i
  simp only [Nat.testBit_xor]
  cases a.testBit i <;> cases b.testBit i <;> cases p.testBit i <;> rfl

/-- the bit step is linear over xor -/
theorem crcBit_xor (poly a b : Nat) (ha : a < 65536) (hb : b < 65536) :
    crcBit poly (a ^^^ b) = crcBit poly a ^^^ crcBit poly b := by
  have hab : a ^^^ b < 65536 := Nat.xor_lt_two_pow (n := 16) ha hb
  unfold crcBit
  have hy : ((a ^^^ b) <<< 1) &&& 0xffff = ((a <<< 1) &&& 0xffff) ^^^ ((b <<< 1) &&& 0xffff) := by
    rw [Nat.shiftLeft_xor_distrib, Nat.and_xor_distrib_right]
  have hf : (a ^^^ b) &&& 0x8000 = (a &&& 0x8000) ^^^ (b &&& 0x8000) := Nat.and_xor_distrib_right
  simp only [hy, hf, and_8000 a ha, and_8000 b hb]
  generalize (a <<< 1) &&& 0xffff = ya
  generalize (b <<< 1) &&& 0xffff = yb
  by_cases h1 : 32768 ≤ a <;> by_cases h2 : 32768 ≤ b
  · simp only [h1, h2, if_true, Nat.xor_self, bne_self_eq_false, Bool.false_eq_true, if_false]
    exact (xor_xor_xor_cancel ya yb poly).symm
  · simp only [h1, h2, if_true, if_false, Nat.xor_zero]
    have : ((32768 : Nat) != 0) = true := by decide
    simp only [this, if_true]
    exact xor_right_comm' ya yb poly
  · simp only [h1, h2, if_true, if_false, Nat.zero_xor]
    have : ((32768 : Nat) != 0) = true := by decide
    simp only [this, if_true]
    exact Nat.xor_assoc ya yb poly
  · simp only [h1, h2, if_false, Nat.xor_self, bne_self_eq_false, Bool.false_eq_true]

theorem crcByte_lt (poly x : Nat) (hp : poly < 65536) (hx : x < 65536) : crcByte poly x < 65536 := by
  unfold crcByte
  exact crcBit_lt _ _ hp (crcBit_lt _ _ hp (crcBit_lt _ _ hp (crcBit_lt _ _ hp (crcBit_lt _ _ hp
    (crcBit_lt _ _ hp (crcBit_lt _ _ hp (crcBit_lt _ _ hp hx)))))))

theorem crcByte_xor (poly a b : Nat) (hp : poly < 65536) (ha : a < 65536) (hb : b < 65536) :
    crcByte poly (a ^^^ b) = crcByte poly a ^^^ crcByte poly b := by
  have l := crcBit_lt poly
  unfold crcByte
  rw [crcBit_xor poly a b ha hb,
      crcBit_xor poly _ _ (l _ hp ha) (l _ hp hb),
      crcBit_xor poly _ _ (l _ hp (l _ hp ha)) (l _ hp (l _ hp hb)),
      crcBit_xor poly _ _ (l _ hp (l _ hp (l _ hp ha))) (l _ hp (l _ hp (l _ hp hb))),
      crcBit_xor poly _ _ (l _ hp (l _ hp (l _ hp (l _ hp ha)))) (l _ hp (l _ hp (l _ hp (l _ hp hb)))),
      crcBit_xor poly _ _ (l _ hp (l _ hp (l _ hp (l _ hp (l _ hp ha))))) (l _ hp (l _ hp (l _ hp (l _ hp (l _ hp hb))))),
      crcBit_xor poly _ _ (l _ hp (l _ hp (l _ hp (l _ hp (l _ hp (l _ hp ha)))))) (l _ hp (l _ hp (l _ hp (l _ hp (l _ hp (l _ hp hb)))))),
      crcBit_xor poly _ _ (l _ hp (l _ hp (l _ hp (l _ hp (l _ hp (l _ hp (l _ hp ha))))))) (l _ hp (l _ hp (l _ hp (l _ hp (l _ hp (l _ hp (l _ hp hb)))))))]

/-- the low byte of the CRC table entry of a non-zero byte is non-zero (checked for the polynomial in use) -/
def crcTableOk (poly : Nat) : Bool :=
  (List.range 256).all fun d => d == 0 || crcByte poly (d <<< 8) % 256 != 0

theorem crcTableOk_spec (poly d : Nat) (h : crcTableOk poly = true) (hd : d < 256) (hz : crcByte poly (d <<< 8) % 256 = 0) : d = 0 := by
  have := List.all_eq_true.mp h d (by simpa using hd)
  simp only [Bool.or_eq_true, beq_iff_eq, bne_iff_ne, ne_eq] at this
  rcases this with h0 | h0
  · exact h0
  · exact absurd hz h0

theorem xor_eq_zero (a b : Nat) (h : a ^^^ b = 0) : a = b := by
  have := xor_cancel_right a b b (by rw [h, Nat.xor_self])
  exact this

/-- **the two bytes that drive a CRC state to 0 are unique**: they are the state's own high and low byte -/
theorem crcStep_residue_unique (poly s c1 c2 : Nat) (hodd : poly % 2 = 1) (hp : poly < 65536) (ht : crcTableOk poly = true)
    (hs : s < 65536) (h1 : c1 < 256) (h2 : c2 < 256)
    (hz : crcStep poly (crcStep poly s c1) c2 = 0) : c1 = s / 256 ∧ c2 = s % 256 := by
  have hres := crcStep_residue poly s
  have hh : s / 256 < 256 := by omega
  have hl : s % 256 < 256 := by omega
  have sh8 : ∀ c, c < 256 → c <<< 8 < 65536 := by intro c hc; rw [Nat.shiftLeft_eq]; omega
  -- first byte
  have hX1 := crcStep_lt poly s c1 hp hs h1
  have hX2 := crcStep_lt poly s (s / 256) hp hs hh
  have e : crcStep poly (crcStep poly s c1) c2 = crcStep poly (crcStep poly s (s / 256)) (s % 256) := by rw [hz, hres]
  simp only [crcStep_eq_crcByte] at e hX1 hX2
  -- crcByte is injective
  have inj : ∀ x y, x < 65536 → y < 65536 → crcByte poly x = crcByte poly y → x = y := by
    intro x y hx hy hxy
    have l := crcBit_lt poly
    have i := crcBit_inj poly
    unfold crcByte at hxy
    exact i _ _ hodd hx hy <|
      i _ _ hodd (l _ hp hx) (l _ hp hy) <|
      i _ _ hodd (l _ hp (l _ hp hx)) (l _ hp (l _ hp hy)) <|
      i _ _ hodd (l _ hp (l _ hp (l _ hp hx))) (l _ hp (l _ hp (l _ hp hy))) <|
      i _ _ hodd (l _ hp (l _ hp (l _ hp (l _ hp hx)))) (l _ hp (l _ hp (l _ hp (l _ hp hy)))) <|
      i _ _ hodd (l _ hp (l _ hp (l _ hp (l _ hp (l _ hp hx))))) (l _ hp (l _ hp (l _ hp (l _ hp (l _ hp hy))))) <|
      i _ _ hodd (l _ hp (l _ hp (l _ hp (l _ hp (l _ hp (l _ hp hx)))))) (l _ hp (l _ hp (l _ hp (l _ hp (l _ hp (l _ hp hy)))))) <|
      i _ _ hodd (l _ hp (l _ hp (l _ hp (l _ hp (l _ hp (l _ hp (l _ hp hx))))))) (l _ hp (l _ hp (l _ hp (l _ hp (l _ hp (l _ hp (l _ hp hy))))))) hxy
  have e2 := inj _ _ (Nat.xor_lt_two_pow (n := 16) hX1 (sh8 c2 h2)) (Nat.xor_lt_two_pow (n := 16) hX2 (sh8 _ hl)) e
  -- low bytes
  have e3 := congrArg (· % 2 ^ 8) e2
  simp only [Nat.xor_mod_two_pow] at e3
  have z1 : c2 <<< 8 % 2 ^ 8 = 0 := by rw [Nat.shiftLeft_eq]; omega
  have z2 : (s % 256) <<< 8 % 2 ^ 8 = 0 := by rw [Nat.shiftLeft_eq]; omega
  rw [z1, z2, Nat.xor_zero, Nat.xor_zero] at e3
  -- linearity
  rw [crcByte_xor poly s _ hp hs (sh8 c1 h1), crcByte_xor poly s _ hp hs (sh8 _ hh)] at e3
  have e4 : (crcByte poly (c1 <<< 8) ^^^ crcByte poly ((s / 256) <<< 8)) % 2 ^ 8 = 0 := by
    have := congrArg (fun v => (crcByte poly s % 2 ^ 8) ^^^ v) e3
    simp only [Nat.xor_mod_two_pow] at this ⊢
    have k : ∀ A B C : Nat, (A ^^^ (A ^^^ B) = A ^^^ (A ^^^ C)) → B ^^^ C = 0 := by
      intro A B C hk
      rw [← Nat.xor_assoc, ← Nat.xor_assoc, Nat.xor_self, Nat.zero_xor, Nat.zero_xor] at hk
      rw [hk, Nat.xor_self]
    exact k _ _ _ this
  rw [← crcByte_xor poly _ _ hp (sh8 c1 h1) (sh8 _ hh), ← Nat.shiftLeft_xor_distrib] at e4
  have hc : c1 ^^^ s / 256 < 256 := Nat.xor_lt_two_pow (n := 8) h1 hh
  have := crcTableOk_spec poly _ ht hc e4
  have hc1 : c1 = s / 256 := xor_eq_zero _ _ this
  refine ⟨hc1, ?_⟩
  subst hc1
  exact crcStep_inj_byte poly _ c2 (s % 256) hodd hp (crcStep_lt poly s _ hp hs hh) h2 hl (by rw [hz, hres])

theorem crcOf_residue_unique (poly : Nat) (hodd : poly % 2 = 1) (hp : poly < 65536) (ht : crcTableOk poly = true)
    (bs : Bytes) (c1 c2 : UInt8) (hz : crcOf poly (bs ++ [c1, c2]) = 0) :
    c1 = UInt8.ofNat (crcOf poly bs / 256) ∧ c2 = UInt8.ofNat (crcOf poly bs % 256) := by
  have hs := crcOf_lt poly hp bs
  unfold crcOf at *
  rw [List.foldl_append] at hz
  simp only [List.foldl_cons, List.foldl_nil] at hz
  have := crcStep_residue_unique poly _ _ _ hodd hp ht hs (UInt8.toNat_lt c1) (UInt8.toNat_lt c2) hz
  constructor
  · apply UInt8.toNat_inj.mp; rw [this.1, UInt8.toNat_ofNat']; omega
  · apply UInt8.toNat_inj.mp; rw [this.2, UInt8.toNat_ofNat']; omega



theorem replace2_length_le (a b : UInt8) (r : Bytes) (hr : r.length ≤ 2) (bs : Bytes) :
    (replace2 a b r bs).length ≤ bs.length := by
  fun_induction replace2 a b r bs with
  | case1 => simp
  | case2 x => simp
  | case3 x y rest h ih => simp only [List.length_append, List.length_cons]; omega
  | case4 x y rest h ih => simp only [List.length_cons] at ih ⊢; omega

theorem length_unescape_le (p : Params) (bs : Bytes) : (unescape p bs).length ≤ bs.length := by
  unfold unescape
  generalize p.unescOrder = order
  induction order generalizing bs with
  | nil => simp
  | cons v vs ih =>
    rw [List.foldl_cons]
    exact Nat.le_trans (ih _) (replace2_length_le _ _ _ (by simp) bs)

theorem list_split4 (l : Bytes) (h : 4 ≤ l.length) :
    l = [l.getD 0 0, l.getD 1 0, l.getD 2 0, l.getD 3 0] ++ l.drop 4 := by
  match l, h with
  | a :: b :: c :: d :: rest, _ => simp

end QmiModel.Interbus

/-! ## APT cells -/

namespace QmiModel.Apt

theorem leBytes_length (n v : Nat) : (leBytes n v).length = n := by
  induction n generalizing v with
  | zero => rfl
  | succ n ih => simp [leBytes, ih]

theorem leVal_lt (bs : Bytes) : leVal bs < 256 ^ bs.length := by
  induction bs with
  | nil => simp [leVal]
  | cons b bs ih =>
    have := UInt8.toNat_lt b
    simp only [leVal, List.length_cons, Nat.pow_succ]
    omega

theorem leVal_leBytes (n v : Nat) : leVal (leBytes n v) = v % 256 ^ n := by
  induction n generalizing v with
  | zero => simp [leBytes, leVal, Nat.mod_one]
  | succ n ih =>
    simp only [leBytes, leVal, ih, UInt8.toNat_ofNat']
    have h1 : v % 256 % 2 ^ 8 = v % 256 := by omega
    rw [h1, Nat.pow_succ, Nat.mul_comm (256 ^ n) 256, Nat.mod_mul]

theorem leBytes_leVal (bs : Bytes) : leBytes bs.length (leVal bs) = bs := by
  induction bs with
  | nil => rfl
  | cons b bs ih =>
    have hb := UInt8.toNat_lt b
    simp only [List.length_cons, leBytes, leVal]
    have h1 : (b.toNat + 256 * leVal bs) % 256 = b.toNat := by omega
    have h2 : (b.toNat + 256 * leVal bs) / 256 = leVal bs := by omega
    rw [h1, h2, ih]
    simp

/-- the values a cell can hold -/
def InRange (c : Cell) (v : Int) : Prop :=
  if c.signed then -((256 ^ c.size / 2 : Nat) : Int) ≤ v ∧ v < ((256 ^ c.size / 2 : Nat) : Int)
  else 0 ≤ v ∧ v < ((256 ^ c.size : Nat) : Int)

instance (c : Cell) (v : Int) : Decidable (InRange c v) := by unfold InRange; infer_instance

theorem encCell_length (c : Cell) (v : Int) : (encCell c v).length = c.size := leBytes_length _ _

theorem pow256_even (n : Nat) (h : 2 ≤ 256 ^ n) : 256 ^ n = 2 * (256 ^ n / 2) := by
  cases n with
  | zero => simp at h
  | succ n => rw [Nat.pow_succ]; omega

theorem decCell_encCell (c : Cell) (v : Int) (h : InRange c v) : decCell c (encCell c v) = v := by
  unfold decCell encCell
  simp only [leVal_leBytes]
  generalize hM : 256 ^ c.size = M at *
  have hMpos : 0 < M := by rw [← hM]; exact Nat.pow_pos (by omega)
  unfold InRange at h
  rw [hM] at h
  by_cases hs : c.signed = true
  · rw [if_pos hs] at h
    have hM2 : 2 ≤ M := by omega
    have hev := pow256_even c.size (by rw [hM]; exact hM2)
    rw [hM] at hev
    by_cases hv : 0 ≤ v
    · have e : v % (M : Int) = v := Int.emod_eq_of_lt hv (by omega)
      rw [e]
      have e2 : v.toNat % M = v.toNat := Nat.mod_eq_of_lt (by omega)
      rw [e2]
      have : ¬ (c.signed = true ∧ 2 * v.toNat ≥ M) := by omega
      rw [if_neg this]; omega
    · have e : v % (M : Int) = v + M := by
        rw [← Int.add_emod_right v M]
        exact Int.emod_eq_of_lt (by omega) (by omega)
      rw [e]
      have e2 : (v + M).toNat % M = (v + M).toNat := Nat.mod_eq_of_lt (by omega)
      rw [e2]
      have : (c.signed = true ∧ 2 * (v + M).toNat ≥ M) := ⟨hs, by omega⟩
      rw [if_pos this]; omega
  · rw [if_neg hs] at h
    have e : v % (M : Int) = v := Int.emod_eq_of_lt h.1 h.2
    rw [e]
    have e2 : v.toNat % M = v.toNat := Nat.mod_eq_of_lt (by omega)
    rw [e2]
    have : ¬ (c.signed = true ∧ 2 * v.toNat ≥ M) := fun x => hs x.1
    rw [if_neg this]; omega

theorem encCell_decCell (c : Cell) (bs : Bytes) (h : bs.length = c.size) : encCell c (decCell c bs) = bs := by
  unfold decCell encCell
  have hlt := leVal_lt bs
  rw [h] at hlt
  generalize hM : 256 ^ c.size = M at *
  have key : ∀ x : Int, x % (M : Int) = (leVal bs : Int) → leBytes c.size (x % (M : Int)).toNat = bs := by
    intro x hx
    rw [hx, Int.toNat_natCast, ← h]
    exact leBytes_leVal bs
  simp only
  split
  · apply key
    rw [Int.sub_emod_right]
    exact Int.emod_eq_of_lt (by omega) (by omega)
  · apply key
    exact Int.emod_eq_of_lt (by omega) (by omega)

/-- element-wise range condition for a whole packet -/
def AllInRange : List Cell → List Int → Prop
  | [], [] => True
  | c :: cs, v :: vs => InRange c v ∧ AllInRange cs vs
  | _, _ => False

theorem pack_length (cs : List Cell) (vs : List Int) : (pack cs vs).length = cellsSize cs := by
  induction cs generalizing vs with
  | nil => simp [pack, cellsSize]
  | cons c cs ih =>
    cases vs with
    | nil => simp [pack, cellsSize, encCell_length, ih] 
    | cons v vs => simp [pack, cellsSize, encCell_length, ih]

/-- **unpack ∘ pack = id** on in-range values (trailing bytes are ignored) -/
theorem unpack_pack (cs : List Cell) (vs : List Int) (h : AllInRange cs vs) (rest : Bytes) :
    unpack cs (pack cs vs ++ rest) = vs := by
  induction cs generalizing vs with
  | nil => cases vs with
    | nil => rfl
    | cons v vs => exact absurd h (by simp [AllInRange])
  | cons c cs ih =>
    cases vs with
    | nil => exact absurd h (by simp [AllInRange])
    | cons v vs =>
      simp only [AllInRange] at h
      simp only [pack, unpack, List.append_assoc]
      have hl := encCell_length c v
      rw [List.take_left' hl, List.drop_left' hl, decCell_encCell c v h.1, ih vs h.2]

/-- **pack ∘ unpack = id** on buffers of the structure's size -/
theorem pack_unpack (cs : List Cell) (bs : Bytes) (h : bs.length = cellsSize cs) : pack cs (unpack cs bs) = bs := by
  induction cs generalizing bs with
  | nil => simp [cellsSize] at h; simp [pack, h]
  | cons c cs ih =>
    simp only [cellsSize, List.map_cons, List.sum_cons] at h
    simp only [unpack, pack]
    rw [encCell_decCell c _ (by simp; omega), ih _ (by simp [cellsSize]; omega)]
    exact List.take_append_drop _ _


theorem encCell_nat (c : Cell) (x : Nat) (hx : x < 256 ^ c.size) : encCell c (x : Int) = leBytes c.size x := by
  unfold encCell
  have : (x : Int) % ((256 ^ c.size : Nat) : Int) = x := Int.emod_eq_of_lt (by omega) (by omega)
  rw [this, Int.toNat_natCast]

theorem inRange_nat (sz x : Nat) (hx : x < 256 ^ sz) : InRange ⟨sz, false⟩ (x : Int) := by
  unfold InRange
  simp only [Bool.false_eq_true, if_false]
  omega

theorem leBytes2 (x : Nat) : leBytes 2 x = [UInt8.ofNat (x % 256), UInt8.ofNat (x / 256 % 256)] := by simp [leBytes]
theorem leBytes1 (x : Nat) : leBytes 1 x = [UInt8.ofNat (x % 256)] := by simp [leBytes]


theorem readN_append (n : Nat) (a b : Bytes) (h : a.length = n) : readN n (a ++ b) = (some a, b) := by
  unfold readN
  rw [if_neg (by simp; omega), List.take_left' h, List.drop_left' h]


theorem readN_short (n : Nat) (buf : Bytes) (h : buf.length < n) : readN n buf = (none, buf) := by
  unfold readN; rw [if_pos h]

theorem readN_ok (n : Nat) (buf : Bytes) (h : ¬ buf.length < n) : readN n buf = (some (buf.take n), buf.drop n) := by
  unfold readN; rw [if_neg h]


end QmiModel.Apt

/-! ## T2 unfolding -/

namespace QmiModel.T2

theorem process_nil (p : Params) (c : Nat) : process p c [] = (c, []) := rfl

theorem process_cons (p : Params) (c r : Nat) (rs : List Nat) :
    process p c (r :: rs) =
      if isOverflow p r then process p (c + recTag p r) rs
      else ((process p c rs).1, ⟨recType p r, c * p.period + recTag p r⟩ :: (process p c rs).2) := by
  by_cases h : isOverflow p r = true
  · simp [process, step, h]
  · simp [process, step, h]

end QmiModel.T2
