import QmiModel.Lemmas.C07NetFlow
/-! C07, network layer — the FIFO pipeline invariant (`FifoInv`): the publications of one publishing thread travel
event-loop queue → connection → socket thread of the receiving context in publication order, also across disconnects and
reconnects, and a context never gets its own publications back. -/
namespace QmiModel.PubSub

/-- `a` was published before `b` if both stem from the same publishing thread -/
def Pub.lt (a b : Pub) : Prop := a.c = b.c → a.tid = b.tid → a.seq < b.seq

def inPubs (l : List Msg) : List Pub := l.filterMap msgPub

def cbPub (n : ConnId) : Cb → Option Pub
  | .smSend d m => if d = .alias n then msgPub m else none
  | _ => none

def lqPubs (n : ConnId) (l : List Cb) : List Pub := l.filterMap (cbPub n)

def opPub (n : ConnId) : MOp → Option Pub
  | .enq d m => if d = .alias n then msgPub m else none
  | .pubSend ps _ _ p => if Peer.alias n ∈ ps then some p else none
  | _ => none

def prPubs (n : ConnId) (l : List MOp) : List Pub := l.filterMap (opPub n)

def slPub : MOp → Option Pub
  | .snapLocal _ p => some p
  | _ => none

def snapPub (c : Ctx) (sn : Snap) : Option Pub := if sn.taker = .sock c then some sn.p else none

/-- what the socket thread of `c` has taken off its connections: snapshots taken, and the one it is about to take -/
def consumed (s : State) (c : Ctx) : List Pub := s.snaps.filterMap (snapPub c) ++ (s.prog (.sock c)).filterMap slPub

/-- what is on its way to the client end of connection `n`, seen from thread `th` of the server context -/
def stream (s : State) (n : ConnId) (th : Th) : List Pub :=
  inPubs ((s.conn n).half true).inbox ++ lqPubs n (s.ctx ((s.conn n).half false).owner).loopQ ++ prPubs n (s.prog th)

/-- the client end of `n` is open and not being torn down -/
def Active (s : State) (n : ConnId) : Prop :=
  ((s.conn n).half true).isOpen = true ∧ MOp.closeConn n true ∉ s.prog (.sock ((s.conn n).half true).owner)

/-- a publication that has left its publishing thread -/
def netLoc (s : State) (a : Pub) : Prop :=
  (∃ c, a ∈ consumed s c) ∨ (∃ n, a ∈ inPubs ((s.conn n).half true).inbox) ∨
  (∃ c d ob sg, Cb.smSend d (.signal ob sg a) ∈ (s.ctx c).loopQ)

structure FifoInv (s : State) : Prop where
  orig_lq : ∀ c d ob sg p, Cb.smSend d (.signal ob sg p) ∈ (s.ctx c).loopQ → p.c = c
  orig_in : ∀ n, ∀ p ∈ inPubs ((s.conn n).half true).inbox, p.c = ((s.conn n).half false).owner
  foreign : ∀ c, ∀ p ∈ consumed s c, p.c ≠ c
  bound : ∀ a, netLoc s a → a.seq < s.nextSeq a.tid
  fresh : ∀ th ob sg q, MOp.snapRemote ob sg q ∈ s.prog th → ∀ a, netLoc s a → Pub.lt a q
  sorted : ∀ n th, th.ctx = ((s.conn n).half false).owner → (stream s n th).Pairwise Pub.lt
  cons : ∀ c, (consumed s c).Pairwise Pub.lt
  cross : ∀ n, Active s n → ∀ th, th.ctx = ((s.conn n).half false).owner →
    ∀ a ∈ consumed s ((s.conn n).half true).owner, ∀ b ∈ stream s n th, Pub.lt a b

theorem fifoInv_init : FifoInv State.init := by
  constructor <;> simp [State.init, CtxSt.init, consumed, stream, inPubs, lqPubs, prPubs, netLoc, Conn.half, Half.init]

theorem mem_lqPubs {n : ConnId} {l : List Cb} {p : Pub} :
    p ∈ lqPubs n l ↔ ∃ ob sg, Cb.smSend (.alias n) (.signal ob sg p) ∈ l := by
  simp only [lqPubs, List.mem_filterMap]
  constructor
  · rintro ⟨cb, hm, hc⟩
    cases cb with
    | smSend d m =>
      simp only [cbPub] at hc
      split at hc
      · rename_i e; subst e
        cases m <;> simp only [msgPub] at hc <;> try contradiction
        simp only [Option.some.injEq] at hc; subst hc
        exact ⟨_, _, hm⟩
      · cases hc
    | disconnect n t => simp [cbPub] at hc
  · rintro ⟨ob, sg, hm⟩
    exact ⟨_, hm, by simp [cbPub, msgPub]⟩

theorem mem_inPubs {l : List Msg} {p : Pub} : p ∈ inPubs l ↔ ∃ ob sg, Msg.signal ob sg p ∈ l := by
  simp only [inPubs, List.mem_filterMap]
  constructor
  · rintro ⟨m, hm, hc⟩
    cases m <;> simp only [msgPub] at hc <;> try contradiction
    simp only [Option.some.injEq] at hc; subst hc
    exact ⟨_, _, hm⟩
  · rintro ⟨ob, sg, hm⟩
    exact ⟨_, hm, rfl⟩

/-- **transfer**: a step after which everything in flight was in flight before, in the same order -/
theorem FifoInv.transfer {s s' : State} (h : FifoInv s)
    (hlq : ∀ c d ob sg p, Cb.smSend d (.signal ob sg p) ∈ (s'.ctx c).loopQ → p.c = c)
    (hoin : ∀ n, ∀ p ∈ inPubs ((s'.conn n).half true).inbox, p.c = ((s'.conn n).half false).owner)
    (hloc : ∀ a, netLoc s' a → netLoc s a)
    (hcons : ∀ c, consumed s' c = consumed s c)
    (hsr : ∀ th ob sg q, MOp.snapRemote ob sg q ∈ s'.prog th →
      MOp.snapRemote ob sg q ∈ s.prog th ∨ ∀ a, netLoc s a → Pub.lt a q)
    (hstr : ∀ n th, (stream s' n th).Sublist (stream s n th))
    (hown : ∀ n, ((s'.conn n).half false).owner = ((s.conn n).half false).owner ∨ ∀ th, stream s' n th = [])
    (hact : ∀ n, Active s' n → (Active s n ∧ ((s'.conn n).half true).owner = ((s.conn n).half true).owner) ∨ ∀ th, stream s' n th = [])
    (hseq : ∀ t, s.nextSeq t ≤ s'.nextSeq t) : FifoInv s' := by
  constructor
  · exact hlq
  · exact hoin
  · intro c p hp; rw [hcons] at hp; exact h.foreign c p hp
  · intro a ha; exact Nat.lt_of_lt_of_le (h.bound a (hloc a ha)) (hseq _)
  · intro th ob sg q hm a ha
    rcases hsr _ _ _ _ hm with h1 | h1
    · exact h.fresh th ob sg q h1 a (hloc a ha)
    · exact h1 a (hloc a ha)
  · intro n th hth
    rcases hown n with e | e
    · rw [e] at hth; exact (h.sorted n th hth).sublist (hstr n th)
    · rw [e th]; exact List.Pairwise.nil
  · intro c; rw [hcons]; exact h.cons c
  · intro n ha th hth a hm b hb
    rcases hact n ha with ⟨h1, h2⟩ | h1
    · rcases hown n with e | e
      · rw [e] at hth
        rw [h2, hcons] at hm
        exact h.cross n h1 th hth a hm b ((hstr n th).subset hb)
      · rw [e th] at hb; simp at hb
    · rw [h1 th] at hb; simp at hb

/-! ### micro steps that move nothing along the pipeline -/

theorem opPub_of_netPub_none {n : ConnId} {op : MOp} (h : op.netPub = none) : opPub n op = none := by
  cases op <;> simp_all [MOp.netPub, opPub]

theorem prPubs_free {n : ConnId} {x : List MOp} (h : netFree x) : prPubs n x = [] := by
  simp only [prPubs, List.filterMap_eq_nil_iff]
  intro op ho; exact opPub_of_netPub_none (h op ho).1

theorem slPub_of_not_snapLocal {op : MOp} (h : op.isSnapLocal = false) : slPub op = none := by
  cases op <;> simp_all [MOp.isSnapLocal, slPub]

theorem slPubs_free {x : List MOp} (h : netFree x) : x.filterMap slPub = [] := by
  simp only [List.filterMap_eq_nil_iff]
  intro op ho; exact slPub_of_not_snapLocal (h op ho).2

theorem prPubs_cons (n : ConnId) (op : MOp) (l : List MOp) : prPubs n (op :: l) = (opPub n op).toList ++ prPubs n l := by
  simp only [prPubs, List.filterMap_cons]; cases opPub n op <;> simp

theorem prPubs_append (n : ConnId) (x y : List MOp) : prPubs n (x ++ y) = prPubs n x ++ prPubs n y := by
  simp [prPubs]

theorem lqPubs_append (n : ConnId) (x y : List Cb) : lqPubs n (x ++ y) = lqPubs n x ++ lqPubs n y := by
  simp [lqPubs]

theorem lqPubs_cons (n : ConnId) (cb : Cb) (l : List Cb) : lqPubs n (cb :: l) = (cbPub n cb).toList ++ lqPubs n l := by
  simp only [lqPubs, List.filterMap_cons]; cases cbPub n cb <;> simp

/-- the event-loop queue under a micro step -/
theorem microStep_loopQ_cases {s s' : State} {th : Th} {ch ch2 : Nat} {op : MOp} {rest : List MOp} {o : Out}
    (hs : microStep s th ch ch2 op rest = some (s', o)) (c : Ctx) :
    (s'.ctx c).loopQ = (s.ctx c).loopQ ∨
    (c = th.ctx ∧ ∃ d m, op = .enq d m ∧ (s'.ctx c).loopQ = (s.ctx c).loopQ ++ [.smSend d m]) ∨
    (c = th.ctx ∧ ∃ n t, (s'.ctx c).loopQ = (s.ctx c).loopQ ++ [.disconnect n t]) := by
  by_cases he : op.isEnq = true
  · cases op <;> simp only [MOp.isEnq] at he <;> (try contradiction) <;> simp only [microStep] at hs
    · simp only [Option.some.injEq, Prod.mk.injEq] at hs; obtain ⟨rfl, -⟩ := hs
      simp only [setProg_ctx, setCtx_ctx]; split
      · rename_i e; subst e; exact Or.inr (Or.inl ⟨rfl, _, _, rfl, rfl⟩)
      · exact Or.inl rfl
    · split at hs
      · simp only [Option.some.injEq, Prod.mk.injEq] at hs; obtain ⟨rfl, -⟩ := hs
        simp only [setProg_ctx, setCtx_ctx]; split
        · rename_i e; subst e; exact Or.inr (Or.inr ⟨rfl, _, _, rfl⟩)
        · exact Or.inl rfl
      · simp at hs
  · exact Or.inl ((microStep_fields hs).loopQ (by simpa using he) c)

/-- a micro step that is not `enq` of a signal adds no signal to any event-loop queue -/
theorem microStep_lq_plain {s s' : State} {th : Th} {ch ch2 : Nat} {op : MOp} {rest : List MOp} {o : Out}
    (hop : ∀ d m, op = .enq d m → msgPub m = none) (hs : microStep s th ch ch2 op rest = some (s', o)) :
    (∀ c d ob sg p, Cb.smSend d (.signal ob sg p) ∈ (s'.ctx c).loopQ → Cb.smSend d (.signal ob sg p) ∈ (s.ctx c).loopQ) ∧
    (∀ n c, lqPubs n (s'.ctx c).loopQ = lqPubs n (s.ctx c).loopQ) := by
  constructor
  · intro c d ob sg p hm
    rcases microStep_loopQ_cases hs c with e | ⟨-, d', m', rfl, e⟩ | ⟨-, n, t, e⟩ <;> rw [e] at hm
    · exact hm
    · rcases List.mem_append.1 hm with h1 | h1
      · exact h1
      · simp only [List.mem_singleton, Cb.smSend.injEq] at h1
        have := hop d' m' rfl; rw [← h1.2] at this; simp [msgPub] at this
    · rcases List.mem_append.1 hm with h1 | h1
      · exact h1
      · simp at h1
  · intro n c
    rcases microStep_loopQ_cases hs c with e | ⟨-, d', m', rfl, e⟩ | ⟨-, n', t, e⟩ <;> rw [e]
    · rw [lqPubs_append]; simp [lqPubs, cbPub, hop d' m' rfl]
    · rw [lqPubs_append]; simp [lqPubs, cbPub]

/-- inboxes under a micro step: unchanged, or emptied by `closeConn` -/
theorem microStep_inbox {s s' : State} {th : Th} {ch ch2 : Nat} {op : MOp} {rest : List MOp} {o : Out}
    (hs : microStep s th ch ch2 op rest = some (s', o)) (n : ConnId) (cli : Bool) :
    ((s'.conn n).half cli).inbox = ((s.conn n).half cli).inbox ∨ ((s'.conn n).half cli).inbox = [] := by
  by_cases hc : op.isClose = true
  · cases op <;> simp only [MOp.isClose] at hc <;> try contradiction
    simp only [microStep, Option.some.injEq, Prod.mk.injEq] at hs
    obtain ⟨rfl, -⟩ := hs
    simp only [setProg_conn, upd]; split
    · rename_i e; subst e; rw [half_setHalf']; split
      · exact Or.inr rfl
      · exact Or.inl rfl
    · exact Or.inl rfl
  · rw [(microStep_fields hs).conn (by simpa using hc)]; exact Or.inl rfl

/-- activity of a connection end is never gained by a micro step -/
theorem microStep_active {s s' : State} {th : Th} {ch ch2 : Nat} {op : MOp} {rest : List MOp} {o : Out}
    (hso : ∀ c, sockOps (s.prog (.sock c))) (hprog : s.prog th = op :: rest)
    (hs : microStep s th ch ch2 op rest = some (s', o)) (n : ConnId) (ha : Active s' n) :
    Active s n ∧ ((s'.conn n).half true).owner = ((s.conn n).half true).owner := by
  have hown := microStep_owner hs n true
  obtain ⟨h1, h2⟩ := ha
  obtain ⟨ho, hne⟩ := microStep_open hs h1
  refine ⟨⟨ho, ?_⟩, hown⟩
  intro hm
  apply h2
  rw [hown]
  by_cases e : Th.sock ((s.conn n).half true).owner = th
  · subst e
    rw [hprog] at hm
    rcases List.mem_cons.1 hm with h0 | h0
    · exact absurd h0.symm hne
    · have hsop : op.isSockOp = true := by
        have := hso ((s.conn n).half true).owner; rw [hprog] at this; exact this op List.mem_cons_self
      exact microStep_sock_rest hsop hs _ h0
  · rw [(microStep_frame hs).prog_other _ e]; exact hm

theorem stream_sublist {s s' : State} {n : ConnId} {th : Th}
    (h1 : (inPubs ((s'.conn n).half true).inbox).Sublist (inPubs ((s.conn n).half true).inbox))
    (h2 : (lqPubs n (s'.ctx ((s'.conn n).half false).owner).loopQ).Sublist (lqPubs n (s.ctx ((s.conn n).half false).owner).loopQ))
    (h3 : (prPubs n (s'.prog th)).Sublist (prPubs n (s.prog th))) : (stream s' n th).Sublist (stream s n th) :=
  (h1.append h2).append h3

/-- `consumed` under a micro step that is not `snapLocal` of a socket thread: unchanged -/
theorem microStep_consumed {s s' : State} {th : Th} {ch ch2 : Nat} {op : MOp} {rest : List MOp} {o : Out}
    (hso : ∀ c, sockOps (s.prog (.sock c))) (hprog : s.prog th = op :: rest)
    (hs : microStep s th ch ch2 op rest = some (s', o)) (c : Ctx) : consumed s' c = consumed s c := by
  have hpo := (microStep_frame hs).prog_other
  by_cases hl : op.isSnapLocal = true
  · clear hpo
    cases op <;> simp only [MOp.isSnapLocal] at hl <;> try contradiction
    rename_i k p
    simp only [microStep, Option.some.injEq, Prod.mk.injEq] at hs
    obtain ⟨rfl, -⟩ := hs
    simp only [consumed, List.filterMap_append, setProg_prog]
    by_cases e : Th.sock c = th
    · subst e
      simp only [if_true, hprog, List.filterMap_cons, List.filterMap_nil, snapPub, slPub, List.append_assoc]
      split <;> simp [List.filterMap_cons, slPub]
    · have e' : ¬ th = Th.sock c := fun x => e x.symm
      simp only [e, if_false, List.filterMap_cons, List.filterMap_nil, snapPub, e', List.append_nil]
  · have hl' : op.isSnapLocal = false := by simpa using hl
    have hsn : s'.snaps = s.snaps := (microStep_fields hs).snaps hl'
    simp only [consumed, hsn]
    by_cases e : Th.sock c = th
    · subst e
      rw [hprog, List.filterMap_cons, slPub_of_not_snapLocal hl']
      cases hq : op.netPub with
      | none =>
        obtain ⟨x, hx, e1 | ⟨e1, e2⟩⟩ := microStep_netShape hq hs
        · rw [e1, List.filterMap_append, slPubs_free hx]; rfl
        · exfalso
          -- a socket thread never runs an operation that ends its program
          have := hso c op (by rw [hprog]; exact List.mem_cons_self)
          rw [e2] at this; cases this
      | some q =>
        clear hpo hsn
        cases op <;> simp only [MOp.netPub] at hq <;> (try contradiction) <;> simp only [microStep] at hs
        all_goals (try (split at hs))
        all_goals (try (split at hs))
        all_goals (try (simp at hs))
        all_goals (try (obtain ⟨rfl, -⟩ := hs))
        all_goals (simp only [setProg_prog, if_true, State.setProg, upd])
        all_goals (try split)
        all_goals (try split)
        all_goals (try (simp [List.filterMap_cons, slPub]; done))
        all_goals (rw [List.filterMap_append, slPubs_free (onSendFail_netFree _)]; rfl)
    · rw [hpo _ e]

/-- a micro step that hands no publication to the event loop and starts no remote publication preserves the invariant -/
theorem fifoInv_micro_quiet {s s' : State} {th : Th} {ch ch2 : Nat} {op : MOp} {rest : List MOp} {o : Out}
    (h : FifoInv s) (hso : ∀ c, sockOps (s.prog (.sock c))) (hprog : s.prog th = op :: rest)
    (hs : microStep s th ch ch2 op rest = some (s', o))
    (hpr : ∀ n, (prPubs n (s'.prog th)).Sublist (prPubs n (s.prog th)))
    (hsr : ∀ ob sg q, MOp.snapRemote ob sg q ∈ s'.prog th → MOp.snapRemote ob sg q ∈ s.prog th)
    (henq : ∀ d m, op = .enq d m → msgPub m = none) : FifoInv s' := by
  have hf := microStep_frame hs
  have hown := microStep_owner hs
  have hcons := microStep_consumed hso hprog hs
  obtain ⟨hlq1, hlq2⟩ := microStep_lq_plain henq hs
  have hin : ∀ n, (inPubs ((s'.conn n).half true).inbox).Sublist (inPubs ((s.conn n).half true).inbox) := by
    intro n
    rcases microStep_inbox hs n true with e | e <;> rw [e]
    · exact List.Sublist.refl _
    · exact List.nil_sublist _
  refine h.transfer ?_ ?_ ?_ hcons ?_ ?_ (fun n => Or.inl (hown n false)) ?_ (fun t => by rw [hf.nextSeq]; exact Nat.le_refl _)
  · intro c d ob sg p hm; exact h.orig_lq c d ob sg p (hlq1 _ _ _ _ _ hm)
  · intro n p hp; rw [hown]; exact h.orig_in n p ((hin n).subset hp)
  · rintro a (⟨c, hc⟩ | ⟨n, hn⟩ | ⟨c, d, ob, sg, hq⟩)
    · exact Or.inl ⟨c, by rw [← hcons]; exact hc⟩
    · exact Or.inr (Or.inl ⟨n, (hin n).subset hn⟩)
    · exact Or.inr (Or.inr ⟨c, d, ob, sg, hlq1 _ _ _ _ _ hq⟩)
  · intro th' ob sg q hm
    left
    by_cases e : th' = th
    · subst e; exact hsr ob sg q hm
    · rw [hf.prog_other _ e] at hm; exact hm
  · intro n th'
    refine stream_sublist (hin n) ?_ ?_
    · rw [hown, hlq2]; exact List.Sublist.refl _
    · by_cases e : th' = th
      · subst e; exact hpr n
      · rw [hf.prog_other _ e]; exact List.Sublist.refl _
  · intro n ha
    exact Or.inl (microStep_active hso hprog hs n ha)

/-- … in particular every operation that is not a network operation of `publish_signal` -/
theorem fifoInv_micro_plain {s s' : State} {th : Th} {ch ch2 : Nat} {op : MOp} {rest : List MOp} {o : Out}
    (h : FifoInv s) (hso : ∀ c, sockOps (s.prog (.sock c))) (hprog : s.prog th = op :: rest)
    (hop : op.netPub = none) (hs : microStep s th ch ch2 op rest = some (s', o)) : FifoInv s' := by
  obtain ⟨x, hx, e⟩ := microStep_netShape hop hs
  have hmem : ∀ op' ∈ s'.prog th, op' ∈ x ∨ op' ∈ rest := by
    intro op' hm
    rcases e with e | ⟨e, -⟩ <;> rw [e] at hm
    · exact List.mem_append.1 hm
    · exact Or.inl hm
  refine fifoInv_micro_quiet h hso hprog hs ?_ ?_ ?_
  · intro n
    rw [hprog, prPubs_cons, opPub_of_netPub_none hop]
    rcases e with e | ⟨e, -⟩ <;> rw [e]
    · rw [prPubs_append, prPubs_free hx]; exact List.Sublist.refl _
    · rw [prPubs_free hx]; exact List.nil_sublist _
  · intro ob sg q hm
    rcases hmem _ hm with h1 | h1
    · have := (hx _ h1).1; simp [MOp.netPub] at this
    · rw [hprog]; exact List.mem_cons_of_mem _ h1
  · intro d m e; subst e; simpa [MOp.netPub] using hop

theorem netPub_of_opPub {n : ConnId} {op : MOp} {p : Pub} (h : opPub n op = some p) : op.netPub = some p := by
  cases op <;> simp only [opPub] at h <;> try contradiction
  · split at h
    · exact h
    · cases h
  · split at h
    · exact h
    · cases h

theorem prPubs_of_netOps_nil {n : ConnId} {l : List MOp} (h : netOps l = []) : prPubs n l = [] := by
  simp only [prPubs, List.filterMap_eq_nil_iff]
  intro op ho
  cases hq : opPub n op with
  | none => rfl
  | some p =>
    have : op ∈ netOps l := mem_netOps.2 ⟨ho, by rw [netPub_of_opPub hq]; rfl⟩
    rw [h] at this; simp at this

/-- `pubSend`: one subscriber is taken off the list; its message is handed to `enq` or dropped -/
theorem fifoInv_micro_pubSend {s s' : State} {th : Th} {ch ch2 : Nat} {ps : List Peer} {ob : Obj} {sg : Sg} {q : Pub}
    {rest : List MOp} {o : Out}
    (h : FifoInv s) (hfl : FlowInv s) (hso : ∀ c, sockOps (s.prog (.sock c))) (hprog : s.prog th = .pubSend ps ob sg q :: rest)
    (hs : microStep s th ch ch2 (.pubSend ps ob sg q) rest = some (s', o)) : FifoInv s' := by
  have hsh := hfl.shape th
  rw [hprog, netOps_cons_some (p := q) rfl] at hsh
  have hr0 : netOps rest = [] ∧ ps.Nodup := by
    generalize hn : netOps rest = nr at hsh; cases hsh; exact ⟨rfl, ‹_›⟩
  have hsr0 : ∀ ob sg q, MOp.snapRemote ob sg q ∉ rest := by
    intro ob sg q hm
    have : MOp.snapRemote ob sg q ∈ netOps rest := mem_netOps.2 ⟨hm, rfl⟩
    rw [hr0.1] at this; simp at this
  have hpr0 : ∀ n, prPubs n rest = [] := fun n => prPubs_of_netOps_nil hr0.1
  refine fifoInv_micro_quiet h hso hprog hs ?_ ?_ (by intro d m e; cases e)
  · intro n
    rw [hprog, prPubs_cons, hpr0]
    simp only [microStep] at hs
    split at hs
    · simp at hs
    · rename_i d hfind
      have hd : d ∈ ps := List.mem_of_find?_eq_some hfind
      have hni := nodup_erase_not_mem hr0.2 d
      have hiff : ∀ x, x ≠ d → (x ∈ ps.erase d ↔ x ∈ ps) := fun x hx => List.mem_erase_of_ne hx
      split at hs <;> (simp only [Option.some.injEq, Prod.mk.injEq] at hs; obtain ⟨rfl, -⟩ := hs) <;>
        simp only [State.setProg, upd, if_true] <;> split <;>
        simp only [prPubs_cons, hpr0, opPub, msgPub, List.append_nil]
      all_goals (by_cases e : d = Peer.alias n)
      all_goals first
        | (subst e; simp_all; done)
        | (have hx := hiff (Peer.alias n) (fun x => e x.symm); simp only [hx]; simp_all; done)
        | (have hx := hiff (Peer.alias n) (fun x => e x.symm); simp only [hx]; split <;> simp; done)
        | (simp [e]; done)
  · intro ob' sg' q' hm
    exfalso
    simp only [microStep] at hs
    split at hs
    · simp at hs
    · split at hs <;> (simp only [Option.some.injEq, Prod.mk.injEq] at hs; obtain ⟨rfl, -⟩ := hs) <;>
        simp only [State.setProg, upd, if_true] at hm <;> split at hm <;>
        (try simp only [List.mem_cons, reduceCtorEq, false_or] at hm)
      all_goals (exact hsr0 _ _ _ hm)

theorem netLoc_of_stream_net {s : State} {n : ConnId} {a : Pub}
    (h : a ∈ inPubs ((s.conn n).half true).inbox ++ lqPubs n (s.ctx ((s.conn n).half false).owner).loopQ) : netLoc s a := by
  rcases List.mem_append.1 h with h1 | h1
  · exact Or.inr (Or.inl ⟨n, h1⟩)
  · obtain ⟨ob, sg, hm⟩ := mem_lqPubs.1 h1
    exact Or.inr (Or.inr ⟨_, _, ob, sg, hm⟩)

theorem pairwise_append_of {α : Type} {R : α → α → Prop} {l x : List α} (hl : l.Pairwise R) (hx : x.Pairwise R)
    (h : ∀ a ∈ l, ∀ b ∈ x, R a b) : (l ++ x).Pairwise R := List.pairwise_append.2 ⟨hl, hx, h⟩

/-- `snapRemote`: the publication enters the pipeline behind everything that is already in flight -/
theorem fifoInv_micro_snapRemote {s s' : State} {th : Th} {ch ch2 : Nat} {ob : Obj} {sg : Sg} {q : Pub}
    {rest : List MOp} {o : Out}
    (h : FifoInv s) (hfl : FlowInv s) (hso : ∀ c, sockOps (s.prog (.sock c))) (hprog : s.prog th = .snapRemote ob sg q :: rest)
    (hs : microStep s th ch ch2 (.snapRemote ob sg q) rest = some (s', o)) : FifoInv s' := by
  have hf := microStep_frame hs
  have hfl' := microStep_fields hs
  have hown := microStep_owner hs
  have hcons := microStep_consumed hso hprog hs
  have hconn : s'.conn = s.conn := hfl'.conn rfl
  have hlq : ∀ c, (s'.ctx c).loopQ = (s.ctx c).loopQ := hfl'.loopQ rfl
  have hsh := hfl.shape th
  rw [hprog, netOps_cons_some (p := q) rfl] at hsh
  have hr0 : netOps rest = [] := by
    generalize hn : netOps rest = nr at hsh; cases hsh; rfl
  have hsr0 : ∀ ob sg q, MOp.snapRemote ob sg q ∉ rest := by
    intro ob sg q hm
    have : MOp.snapRemote ob sg q ∈ netOps rest := mem_netOps.2 ⟨hm, rfl⟩
    rw [hr0] at this; simp at this
  have hpr0 : ∀ n, prPubs n rest = [] := fun n => prPubs_of_netOps_nil hr0
  have hmemq : MOp.snapRemote ob sg q ∈ s.prog th := by rw [hprog]; exact List.mem_cons_self
  -- the new program of the acting thread
  have hpr : s'.prog th = rest ∨ ∃ ps, s'.prog th = .pubSend ps ob sg q :: rest := by
    simp only [microStep, Option.some.injEq, Prod.mk.injEq] at hs
    obtain ⟨rfl, -⟩ := hs
    simp only [setProg_prog, if_true]
    split
    · exact Or.inl rfl
    · exact Or.inr ⟨_, rfl⟩
  have hloc : ∀ a, netLoc s' a → netLoc s a := by
    rintro a (⟨c, hc⟩ | ⟨n, hn⟩ | ⟨c, d, ob, sg, hq⟩)
    · exact Or.inl ⟨c, by rw [← hcons]; exact hc⟩
    · exact Or.inr (Or.inl ⟨n, by rw [← hconn]; exact hn⟩)
    · exact Or.inr (Or.inr ⟨c, d, ob, sg, by rw [← hlq]; exact hq⟩)
  -- streams: unchanged, or `q` appended
  have hstream : ∀ n th', stream s' n th' = stream s n th' ∨ (th' = th ∧ stream s' n th' = stream s n th' ++ [q]) := by
    intro n th'
    simp only [stream, hconn, hlq]
    by_cases e : th' = th
    · subst e
      rw [hprog, prPubs_cons, hpr0]
      rcases hpr with e1 | ⟨ps, e1⟩ <;> rw [e1]
      · left; rw [hpr0]; simp [opPub]
      · rw [prPubs_cons, hpr0]
        simp only [opPub]
        split
        · right; exact ⟨trivial, by simp⟩
        · left; simp
    · left; rw [hf.prog_other _ e]
  constructor
  · intro c d ob sg p hm; rw [hlq] at hm; exact h.orig_lq c d ob sg p hm
  · intro n p hp; rw [hconn] at hp ⊢; exact h.orig_in n p hp
  · intro c p hp; rw [hcons] at hp; exact h.foreign c p hp
  · intro a ha; rw [hf.nextSeq]; exact h.bound a (hloc a ha)
  · intro th' ob' sg' q' hm a ha
    refine h.fresh th' ob' sg' q' ?_ a (hloc a ha)
    by_cases e : th' = th
    · subst e
      rcases hpr with e1 | ⟨ps, e1⟩ <;> rw [e1] at hm
      · exact absurd hm (hsr0 _ _ _)
      · rcases List.mem_cons.1 hm with h0 | h0
        · cases h0
        · exact absurd h0 (hsr0 _ _ _)
    · rw [hf.prog_other _ e] at hm; exact hm
  · intro n th' hth
    rw [hconn] at hth
    rcases hstream n th' with e | ⟨rfl, e⟩ <;> rw [e]
    · exact h.sorted n th' hth
    · refine pairwise_append_of (h.sorted n _ hth) (List.pairwise_singleton _ _) ?_
      intro a ha b hb
      simp only [List.mem_singleton] at hb; subst hb
      refine h.fresh _ ob sg b hmemq a ?_
      simp only [stream, hprog, prPubs_cons, hpr0, opPub, Option.toList, List.append_nil] at ha
      exact netLoc_of_stream_net ha
  · intro c; rw [hcons]; exact h.cons c
  · intro n ha th' hth a hm b hb
    obtain ⟨ha0, hown1⟩ := microStep_active hso hprog hs n ha
    rw [hconn] at hth
    rw [hown1, hcons] at hm
    rcases hstream n th' with e | ⟨rfl, e⟩ <;> rw [e] at hb
    · exact h.cross n ha0 th' hth a hm b hb
    · rcases List.mem_append.1 hb with h1 | h1
      · exact h.cross n ha0 _ hth a hm b h1
      · simp only [List.mem_singleton] at h1; subst h1
        exact h.fresh _ ob sg b hmemq a (Or.inl ⟨_, hm⟩)

theorem user_injective {a b : Pub} (h : Th.user a.c a.tid = Th.user b.c b.tid) : a.c = b.c ∧ a.tid = b.tid := by
  simpa using h

/-- `enq` of a signal: the publication moves from the publishing thread to the tail of the event-loop queue -/
theorem fifoInv_micro_enqSig {s s' : State} {th : Th} {ch ch2 : Nat} {d : Peer} {ob : Obj} {sg : Sg} {p : Pub}
    {rest : List MOp} {o : Out}
    (h : FifoInv s) (hfl : FlowInv s) (hso : ∀ c, sockOps (s.prog (.sock c)))
    (hprog : s.prog th = .enq d (.signal ob sg p) :: rest)
    (hs : microStep s th ch ch2 (.enq d (.signal ob sg p)) rest = some (s', o)) : FifoInv s' := by
  have hf := microStep_frame hs
  have hfl' := microStep_fields hs
  have hcons := microStep_consumed hso hprog hs
  have hconn : s'.conn = s.conn := hfl'.conn rfl
  have hmem0 : MOp.enq d (.signal ob sg p) ∈ s.prog th := by rw [hprog]; exact List.mem_cons_self
  have hid : th = .user p.c p.tid := hfl.ident th _ p hmem0 rfl
  have hctx : th.ctx = p.c := by rw [hid]; rfl
  have hsh := hfl.shape th
  rw [hprog, netOps_cons_some (p := p) rfl] at hsh
  have hnosr : ∀ ob' sg' q', MOp.snapRemote ob' sg' q' ∉ s.prog th := by
    intro ob' sg' q' hm
    rw [hprog] at hm
    rcases List.mem_cons.1 hm with h0 | h0
    · cases h0
    · have : MOp.snapRemote ob' sg' q' ∈ netOps rest := mem_netOps.2 ⟨h0, rfl⟩
      generalize hn : netOps rest = nr at hsh this
      cases hsh with
      | enq => simp at this
      | both d ps ob sg q h1 h2 => simp at this
  have hpth : s'.prog th = rest := by
    simp only [microStep, Option.some.injEq, Prod.mk.injEq] at hs
    obtain ⟨rfl, -⟩ := hs
    simp only [setProg_prog, if_true]
  have hlq : ∀ c, (s'.ctx c).loopQ = if c = th.ctx then (s.ctx c).loopQ ++ [.smSend d (.signal ob sg p)] else (s.ctx c).loopQ := by
    intro c
    simp only [microStep, Option.some.injEq, Prod.mk.injEq] at hs
    obtain ⟨rfl, -⟩ := hs
    simp only [setProg_ctx, setCtx_ctx]
    split
    · rename_i e; subst e; rfl
    · rfl
  have hlqmem : ∀ c d' ob' sg' a, Cb.smSend d' (.signal ob' sg' a) ∈ (s'.ctx c).loopQ →
      Cb.smSend d' (.signal ob' sg' a) ∈ (s.ctx c).loopQ ∨ (c = th.ctx ∧ a = p) := by
    intro c d' ob' sg' a hm
    rw [hlq] at hm
    split at hm
    · rcases List.mem_append.1 hm with h1 | h1
      · exact Or.inl h1
      · simp only [List.mem_singleton, Cb.smSend.injEq, Msg.signal.injEq] at h1
        exact Or.inr ⟨‹_›, h1.2.2.2⟩
    · exact Or.inl hm
  have hloc : ∀ a, netLoc s' a → netLoc s a ∨ a = p := by
    rintro a (⟨c, hc⟩ | ⟨n, hn⟩ | ⟨c, d', ob', sg', hq⟩)
    · exact Or.inl (Or.inl ⟨c, by rw [← hcons]; exact hc⟩)
    · exact Or.inl (Or.inr (Or.inl ⟨n, by rw [← hconn]; exact hn⟩))
    · rcases hlqmem _ _ _ _ _ hq with h1 | ⟨-, h1⟩
      · exact Or.inl (Or.inr (Or.inr ⟨c, d', ob', sg', h1⟩))
      · exact Or.inr h1
  -- the moved element, as seen by connection `n`
  have hX : ∀ n, (opPub n (.enq d (.signal ob sg p))).toList = (cbPub n (.smSend d (.signal ob sg p))).toList := by
    intro n; simp [opPub, cbPub]
  have hXmem : ∀ n b, b ∈ (cbPub n (.smSend d (.signal ob sg p))).toList → b = p := by
    intro n b hb
    simp only [cbPub, msgPub] at hb
    split at hb <;> simp at hb
    exact hb
  -- streams of the other threads of the same context get the element in the middle; all others are unchanged
  have hstream : ∀ n th', th'.ctx = ((s.conn n).half false).owner →
      (stream s' n th' = stream s n th') ∨
      (th' ≠ th ∧ th.ctx = ((s.conn n).half false).owner ∧
        stream s' n th' = inPubs ((s.conn n).half true).inbox ++ lqPubs n (s.ctx ((s.conn n).half false).owner).loopQ ++
          (cbPub n (.smSend d (.signal ob sg p))).toList ++ prPubs n (s.prog th')) := by
    intro n th' hth
    simp only [stream, hconn, hlq]
    by_cases ec : ((s.conn n).half false).owner = th.ctx
    · simp only [ec, if_true, lqPubs_append, lqPubs_cons]
      by_cases e : th' = th
      · subst e
        left
        rw [hpth, hprog, prPubs_cons, hX]
        simp [lqPubs]
      · right
        refine ⟨e, trivial, ?_⟩
        rw [hf.prog_other _ e]
        simp [lqPubs]
    · left
      have e : th' ≠ th := by intro e; subst e; exact ec hth.symm
      simp only [ec, if_false]
      rw [hf.prog_other _ e]
  constructor
  · intro c d' ob' sg' a hm
    rcases hlqmem _ _ _ _ _ hm with h1 | ⟨h1, h2⟩
    · exact h.orig_lq c d' ob' sg' a h1
    · rw [h1, h2, hctx]
  · intro n a ha; rw [hconn] at ha ⊢; exact h.orig_in n a ha
  · intro c a ha; rw [hcons] at ha; exact h.foreign c a ha
  · intro a ha
    rw [hf.nextSeq]
    rcases hloc a ha with h1 | rfl
    · exact h.bound a h1
    · exact hfl.bound th _ a hmem0 rfl
  · intro th' ob' sg' q' hm a ha
    have hm0 : MOp.snapRemote ob' sg' q' ∈ s.prog th' := by
      by_cases e : th' = th
      · subst e; rw [hpth] at hm; rw [hprog]; exact List.mem_cons_of_mem _ hm
      · rw [hf.prog_other _ e] at hm; exact hm
    rcases hloc a ha with h1 | rfl
    · exact h.fresh th' ob' sg' q' hm0 a h1
    · intro hc ht
      exfalso
      have hid' : th' = .user q'.c q'.tid := hfl.ident th' _ q' hm0 rfl
      have : th' = th := by rw [hid', hid, hc, ht]
      subst this
      exact hnosr _ _ _ hm0
  · intro n th' hth
    rw [hconn] at hth
    rcases hstream n th' hth with e | ⟨hne, hthc, e⟩ <;> rw [e]
    · exact h.sorted n th' hth
    · have h1 := h.sorted n th' hth
      have h2 := h.sorted n th hthc
      simp only [stream, hprog, prPubs_cons, hX, List.append_assoc] at h1 h2 ⊢
      rw [List.pairwise_append] at h1 h2 ⊢
      obtain ⟨a1, a2, a3⟩ := h1
      obtain ⟨b1, b2, b3⟩ := h2
      rw [List.pairwise_append] at a2 b2
      obtain ⟨c1, c2, c3⟩ := a2
      obtain ⟨d1, d2, d3⟩ := b2
      rw [List.pairwise_append] at d2
      have hXP : ∀ x ∈ (cbPub n (Cb.smSend d (Msg.signal ob sg p))).toList, ∀ b ∈ prPubs n (s.prog th'), Pub.lt x b := by
        intro x hx b hb
        have := hXmem n x hx; subst this
        intro hc ht
        exfalso
        obtain ⟨op', ho', hq'⟩ := List.mem_filterMap.1 hb
        have hid' : th' = .user b.c b.tid := hfl.ident th' op' b ho' (netPub_of_opPub hq')
        exact hne (by rw [hid', hid, hc, ht])
      refine ⟨a1, ?_, ?_⟩
      · rw [List.pairwise_append]
        refine ⟨c1, List.pairwise_append.2 ⟨d2.1, c2, hXP⟩, ?_⟩
        intro x hx b hb
        rcases List.mem_append.1 hb with h0 | h0
        · exact d3 x hx b (List.mem_append_left _ h0)
        · exact c3 x hx b h0
      · intro x hx b hb
        rcases List.mem_append.1 hb with h0 | h0
        · exact a3 x hx b (List.mem_append_left _ h0)
        · rcases List.mem_append.1 h0 with h0 | h0
          · exact b3 x hx b (List.mem_append_right _ (List.mem_append_left _ h0))
          · exact a3 x hx b (List.mem_append_right _ h0)
  · intro c; rw [hcons]; exact h.cons c
  · intro n ha th' hth a hm b hb
    obtain ⟨ha0, hown1⟩ := microStep_active hso hprog hs n ha
    rw [hconn] at hth
    rw [hown1, hcons] at hm
    rcases hstream n th' hth with e | ⟨hne, hthc, e⟩ <;> rw [e] at hb
    · exact h.cross n ha0 th' hth a hm b hb
    · simp only [List.mem_append] at hb
      rcases hb with ((h0 | h0) | h0) | h0
      · exact h.cross n ha0 th' hth a hm b (by simp only [stream, List.mem_append]; exact Or.inl (Or.inl h0))
      · exact h.cross n ha0 th' hth a hm b (by simp only [stream, List.mem_append]; exact Or.inl (Or.inr h0))
      · refine h.cross n ha0 th hthc a hm b ?_
        simp only [stream, hprog, prPubs_cons, hX, List.mem_append]
        exact Or.inr (Or.inl h0)
      · exact h.cross n ha0 th' hth a hm b (by simp only [stream, List.mem_append]; exact Or.inr h0)

/-- all micro steps -/
theorem fifoInv_micro {s s' : State} {th : Th} {ch ch2 : Nat} {op : MOp} {rest : List MOp} {o : Out}
    (h : FifoInv s) (hfl : FlowInv s) (hso : ∀ c, sockOps (s.prog (.sock c))) (hprog : s.prog th = op :: rest)
    (hs : microStep s th ch ch2 op rest = some (s', o)) : FifoInv s' := by
  cases hq : op.netPub with
  | none => exact fifoInv_micro_plain h hso hprog hq hs
  | some q =>
    have hsh := hfl.shape th
    rw [hprog, netOps_cons_some hq] at hsh
    cases op <;> simp only [MOp.netPub] at hq <;> try contradiction
    · exact fifoInv_micro_snapRemote h hfl hso hprog hs
    · exact fifoInv_micro_pubSend h hfl hso hprog hs
    · rename_i d m
      cases m <;> simp only [msgPub] at hq <;> try contradiction
      exact fifoInv_micro_enqSig h hfl hso hprog hs

/-! ### the other actions -/

/-- an action that moves no publication along the pipeline -/
theorem FifoInv.quietN {s s' : State} (h : FifoInv s)
    (hp1 : ∀ n x, (prPubs n (s'.prog x)).Sublist (prPubs n (s.prog x)))
    (hp2 : ∀ c, (s'.prog (.sock c)).filterMap slPub = (s.prog (.sock c)).filterMap slPub)
    (hp3 : ∀ c op, op ∈ s.prog (.sock c) → op ∈ s'.prog (.sock c))
    (hsr : ∀ th ob sg q, MOp.snapRemote ob sg q ∈ s'.prog th →
      MOp.snapRemote ob sg q ∈ s.prog th ∨ ∀ a, netLoc s a → Pub.lt a q)
    (hlq : ∀ c, (s'.ctx c).loopQ.Sublist (s.ctx c).loopQ)
    (hown : ∀ n cli, ((s'.conn n).half cli).owner = ((s.conn n).half cli).owner)
    (hopen : ∀ n, ((s'.conn n).half true).isOpen = true → ((s.conn n).half true).isOpen = true)
    (hin : ∀ n, (inPubs ((s'.conn n).half true).inbox).Sublist (inPubs ((s.conn n).half true).inbox))
    (hsn : s'.snaps = s.snaps) (hseq : ∀ t, s.nextSeq t ≤ s'.nextSeq t) : FifoInv s' := by
  have hcons : ∀ c, consumed s' c = consumed s c := by intro c; simp only [consumed, hsn, hp2]
  refine h.transfer ?_ ?_ ?_ hcons hsr ?_ (fun n => Or.inl (hown n false)) ?_ hseq
  · intro c d ob sg p hm; exact h.orig_lq c d ob sg p ((hlq c).subset hm)
  · intro n p hp; rw [hown]; exact h.orig_in n p ((hin n).subset hp)
  · rintro a (⟨c, hc⟩ | ⟨n, hn⟩ | ⟨c, d, ob, sg, hq⟩)
    · exact Or.inl ⟨c, by rw [← hcons]; exact hc⟩
    · exact Or.inr (Or.inl ⟨n, (hin n).subset hn⟩)
    · exact Or.inr (Or.inr ⟨c, d, ob, sg, (hlq c).subset hq⟩)
  · intro n th
    refine stream_sublist (hin n) ?_ (hp1 n th)
    rw [hown]; exact (hlq _).filterMap _
  · intro n ha
    left
    refine ⟨⟨hopen n ha.1, ?_⟩, hown n true⟩
    intro hm
    apply ha.2
    rw [hown]; exact hp3 _ _ hm

theorem quiet_setProg {s X : State} (hX : X.prog = s.prog) (th : Th) (pr : List MOp) (hidle : s.prog th = [])
    (hfree : netFree pr) :
    (∀ n x, (prPubs n ((X.setProg th pr).prog x)).Sublist (prPubs n (s.prog x))) ∧
    (∀ c, ((X.setProg th pr).prog (.sock c)).filterMap slPub = (s.prog (.sock c)).filterMap slPub) ∧
    (∀ c op, op ∈ s.prog (.sock c) → op ∈ (X.setProg th pr).prog (.sock c)) ∧
    (∀ th' ob sg q, MOp.snapRemote ob sg q ∈ (X.setProg th pr).prog th' → MOp.snapRemote ob sg q ∈ s.prog th') := by
  refine ⟨?_, ?_, ?_, ?_⟩
  · intro n x; simp only [setProg_prog, hX]; split
    · rw [prPubs_free hfree]; exact List.nil_sublist _
    · exact List.Sublist.refl _
  · intro c; simp only [setProg_prog, hX]; split
    · rename_i e; rw [e, hidle, slPubs_free hfree]; rfl
    · rfl
  · intro c op hm; simp only [setProg_prog, hX]; split
    · rename_i e; rw [e, hidle] at hm; simp at hm
    · exact hm
  · intro th' ob sg q hm; simp only [setProg_prog, hX] at hm; split at hm
    · have := (hfree _ hm).1; simp [MOp.netPub] at this
    · exact hm

theorem netFree_beginProg_other' (c : Ctx) (t : Tid) (n : Nat) (o : Op) (h : ∀ ob sg, o ≠ .publish ob sg) :
    netFree (beginProg c t n o) := by
  cases o with
  | publish ob sg => exact absurd rfl (h ob sg)
  | _ => simp only [beginProg] <;> (try split) <;> simp [netFree, MOp.netPub, msgPub, MOp.isSnapLocal]

theorem netFree_dispatch' (src : Peer) {m : Msg} (h : msgPub m = none) : netFree (dispatch src m) := by
  cases m with
  | subReq id ob sg b => cases b <;> simp [dispatch, netFree, MOp.netPub, msgPub, MOp.isSnapLocal]
  | signal ob sg p => simp [msgPub] at h
  | _ => simp [dispatch, netFree, MOp.netPub, msgPub, MOp.isSnapLocal]

theorem setCtx_loopQ_sublist (s : State) (c : Ctx) (cs : CtxSt) (h : cs.loopQ.Sublist (s.ctx c).loopQ) (x : Ctx) :
    ((s.setCtx c cs).ctx x).loopQ.Sublist (s.ctx x).loopQ := by
  simp only [setCtx_ctx]; split
  · rename_i e; subst e; exact h
  · exact List.Sublist.refl _

theorem lqPubs_fresh {N : Nat} {l : List Cb} (h : ∀ cb ∈ l, cb.ok N = true) : lqPubs N l = [] := by
  simp only [lqPubs, List.filterMap_eq_nil_iff]
  intro cb hcb
  have := h cb hcb
  cases cb with
  | smSend d m =>
    simp only [cbPub]
    split
    · rename_i e; subst e
      simp only [Cb.ok, sendOk, Peer.isName, Peer.okA] at this
      split at this <;> simp at this
    · rfl
  | disconnect n t => rfl

theorem prPubs_fresh {N : Nat} {l : List MOp} (h : okOps N l = true) : prPubs N l = [] := by
  simp only [prPubs, List.filterMap_eq_nil_iff]
  intro op ho
  have := List.all_eq_true.1 h op ho
  cases op <;> simp only [opPub] <;> try rfl
  · rename_i ps ob sg p
    split
    · rename_i e
      simp only [MOp.ok, List.all_eq_true] at this
      have := this _ e
      simp [Peer.okA] at this
    · rfl
  · rename_i d m
    split
    · rename_i e; subst e
      simp only [MOp.ok, sendOk, Peer.isName, Peer.okA] at this
      split at this <;> simp at this
    · rfl

theorem inPubs_append (x y : List Msg) : inPubs (x ++ y) = inPubs x ++ inPubs y := by simp [inPubs]

theorem inPubs_cons (m : Msg) (l : List Msg) : inPubs (m :: l) = (msgPub m).toList ++ inPubs l := by
  simp only [inPubs, List.filterMap_cons]; cases msgPub m <;> simp

theorem connState_loopQ (s : State) (a p : Ctx) (x : Ctx) : ((connState s a p).ctx x).loopQ = (s.ctx x).loopQ := by
  simp only [connState, setCtx_ctx]
  (repeat' split) <;> simp_all

theorem fifoInv_connect {s : State} {a p : Ctx} (h : FifoInv s) (ht : TopoInv s) (hty : TypInv s) : FifoInv (connState s a p) := by
  have hcons : ∀ c, consumed (connState s a p) c = consumed s c := fun c => rfl
  have hinb : ∀ n, (((connState s a p).conn n).half true).inbox = if n = s.nextConn then [] else ((s.conn n).half true).inbox := by
    intro n; rw [connState_conn]; split <;> simp [newConn, Conn.half]
  have hown : ∀ n, n ≠ s.nextConn → ∀ cli, (((connState s a p).conn n).half cli).owner = ((s.conn n).half cli).owner := by
    intro n hn cli; rw [connState_conn, if_neg hn]
  have hnew : ∀ th, stream (connState s a p) s.nextConn th = [] := by
    intro th
    simp only [stream, hinb, if_true, connState_loopQ, connState_prog]
    rw [lqPubs_fresh (hty.cbs _), prPubs_fresh (hty.ops th)]; rfl
  have hold : ∀ n, n ≠ s.nextConn → ∀ th, stream (connState s a p) n th = stream s n th := by
    intro n hn th
    simp only [stream, hinb, if_neg hn, connState_loopQ, connState_prog, hown n hn]
  refine h.transfer ?_ ?_ ?_ hcons (fun _ _ _ _ hm => Or.inl hm) ?_ ?_ ?_ (fun _ => Nat.le_refl _)
  · intro c d ob sg q hm; rw [connState_loopQ] at hm; exact h.orig_lq c d ob sg q hm
  · intro n q hq
    rw [hinb] at hq
    split at hq
    · simp [inPubs] at hq
    · rename_i e; rw [hown n e]; exact h.orig_in n q hq
  · rintro x (⟨c, hc⟩ | ⟨n, hn⟩ | ⟨c, d, ob, sg, hq⟩)
    · exact Or.inl ⟨c, hc⟩
    · rw [hinb] at hn; split at hn
      · simp [inPubs] at hn
      · exact Or.inr (Or.inl ⟨n, hn⟩)
    · rw [connState_loopQ] at hq; exact Or.inr (Or.inr ⟨c, d, ob, sg, hq⟩)
  · intro n th
    by_cases e : n = s.nextConn
    · subst e; rw [hnew]; exact List.nil_sublist _
    · rw [hold n e]; exact List.Sublist.refl _
  · intro n
    by_cases e : n = s.nextConn
    · subst e; exact Or.inr hnew
    · exact Or.inl (hown n e false)
  · intro n ha
    by_cases e : n = s.nextConn
    · subst e; exact Or.inr hnew
    · left
      obtain ⟨h1, h2⟩ := ha
      rw [connState_conn, if_neg e] at h1
      rw [connState_prog, hown n e] at h2
      exact ⟨⟨h1, h2⟩, hown n e true⟩

/-- a queued message is written to its connection: it moves from the head of the event-loop queue to the tail of the
inbox of the other end (or is dropped) -/
theorem fifoInv_cbSent {s : State} {c : Ctx} {d : Peer} {m : Msg} {q : List Cb} {cn : ConnId}
    (h : FifoInv s) (ht : TopoInv s) (hty : TypInv s) (hidle : s.prog (.sock c) = [])
    (hq : (s.ctx c).loopQ = .smSend d m :: q) (hpeer : (s.ctx c).peers d = some cn) :
    FifoInv (({ (s.setCtx c { (s.ctx c) with loopQ := q }) with conn := upd s.conn cn (sentConn (s.conn cn) d.isName m) }).setProg (.sock c) []) := by
  have hok : sendOk s.nextConn d m = true := hty.cbs c (.smSend d m) (by rw [hq]; exact List.mem_cons_self)
  obtain ⟨q1, q2, q3, q4⟩ := quiet_setProg (s := s)
    (X := { (s.setCtx c { (s.ctx c) with loopQ := q }) with conn := upd s.conn cn (sentConn (s.conn cn) d.isName m) }) rfl (.sock c) [] hidle netFree_nil
  have hlqs := setCtx_loopQ_sublist s c { (s.ctx c) with loopQ := q } (by rw [hq]; exact List.sublist_cons_self _ _)
  have hownc : ∀ n cli, (((upd s.conn cn (sentConn (s.conn cn) d.isName m)) n).half cli).owner = ((s.conn n).half cli).owner := by
    intro n cli; simp only [upd]; split
    · rename_i e; subst e; exact sentConn_owner _ _ _ _
    · rfl
  have hopenc : ∀ n cli, (((upd s.conn cn (sentConn (s.conn cn) d.isName m)) n).half cli).isOpen = ((s.conn n).half cli).isOpen := by
    intro n cli; simp only [upd]; split
    · rename_i e; subst e; exact sentConn_isOpen _ _ _ _
    · rfl
  have hinb : ∀ n, (((upd s.conn cn (sentConn (s.conn cn) d.isName m)) n).half true).inbox =
      if n = cn ∧ d.isName = false ∧ ((s.conn cn).half true).isOpen = true then ((s.conn n).half true).inbox ++ [m]
      else ((s.conn n).half true).inbox := by
    intro n; simp only [upd]
    by_cases e : n = cn
    · subst e
      simp only [if_true, sentConn_inbox, true_and]
      cases d.isName <;> simp
    · simp [e]
  cases hm : msgPub m with
  | none =>
    refine h.quietN q1 q2 q3 (fun th ob sg q hm => Or.inl (q4 th ob sg q hm)) hlqs hownc (fun n ho => by rw [← hopenc]; exact ho) ?_ rfl
      (fun _ => Nat.le_refl _)
    intro n
    show (inPubs (((upd s.conn cn (sentConn (s.conn cn) d.isName m)) n).half true).inbox).Sublist _
    rw [hinb]; split
    · rw [inPubs_append]; simp [inPubs, hm]
    · exact List.Sublist.refl _
  | some p =>
    -- a signal: it travels under the alias of its connection, from the server context
    obtain ⟨ob, sg, rfl⟩ : ∃ ob sg, m = .signal ob sg p := by
      cases m <;> simp only [msgPub] at hm <;> try contradiction
      simp only [Option.some.injEq] at hm; subst hm; exact ⟨_, _, rfl⟩
    obtain ⟨k, rfl⟩ : ∃ k, d = .alias k := by
      cases d with
      | name x => simp [sendOk, Msg.isUp, Peer.okA] at hok
      | alias k => exact ⟨k, rfl⟩
    obtain ⟨rfl, hlt, hsrv⟩ := ht.peersA c k cn hpeer
    have hpc : p.c = c := h.orig_lq c _ ob sg p (by rw [hq]; exact List.mem_cons_self)
    have hcons : ∀ x, consumed (({ (s.setCtx c { (s.ctx c) with loopQ := q }) with conn := upd s.conn cn (sentConn (s.conn cn) (Peer.alias cn).isName (.signal ob sg p)) }).setProg (.sock c) []) x = consumed s x := by
      intro x; simp only [consumed, q2]; rfl
    have hloopQ : ∀ x, ((s.setCtx c { (s.ctx c) with loopQ := q }).ctx x).loopQ = if x = c then q else (s.ctx x).loopQ := by
      intro x; simp only [setCtx_ctx]; split <;> rfl
    refine h.transfer ?_ ?_ ?_ hcons (fun th ob sg q hm => Or.inl (q4 th ob sg q hm)) ?_ (fun n => Or.inl (hownc n false)) ?_ (fun _ => Nat.le_refl _)
    · intro x d' ob' sg' a hm'; exact h.orig_lq x d' ob' sg' a ((hlqs x).subset hm')
    · intro n a ha
      show a.c = (((upd s.conn cn (sentConn (s.conn cn) (Peer.alias cn).isName (.signal ob sg p))) n).half false).owner
      rw [hownc]
      change a ∈ inPubs (((upd s.conn cn (sentConn (s.conn cn) (Peer.alias cn).isName (.signal ob sg p))) n).half true).inbox at ha
      rw [hinb] at ha
      split at ha
      · rename_i e
        rw [inPubs_append] at ha
        rcases List.mem_append.1 ha with h1 | h1
        · exact h.orig_in n a h1
        · simp only [inPubs, List.filterMap_cons, msgPub, List.filterMap_nil, List.mem_singleton] at h1
          subst h1; rw [e.1, hsrv, hpc]
      · exact h.orig_in n a ha
    · rintro a (⟨x, hx⟩ | ⟨n, hn⟩ | ⟨x, d', ob', sg', hq'⟩)
      · exact Or.inl ⟨x, by rw [← hcons]; exact hx⟩
      · change a ∈ inPubs (((upd s.conn cn (sentConn (s.conn cn) (Peer.alias cn).isName (.signal ob sg p))) n).half true).inbox at hn
        rw [hinb] at hn
        split at hn
        · rw [inPubs_append] at hn
          rcases List.mem_append.1 hn with h1 | h1
          · exact Or.inr (Or.inl ⟨n, h1⟩)
          · simp only [inPubs, List.filterMap_cons, msgPub, List.filterMap_nil, List.mem_singleton] at h1
            subst h1
            exact Or.inr (Or.inr ⟨c, _, ob, sg, by rw [hq]; exact List.mem_cons_self⟩)
        · exact Or.inr (Or.inl ⟨n, hn⟩)
      · exact Or.inr (Or.inr ⟨x, d', ob', sg', (hlqs x).subset hq'⟩)
    · intro n th
      show (inPubs (((upd s.conn cn (sentConn (s.conn cn) (Peer.alias cn).isName (.signal ob sg p))) n).half true).inbox ++
        lqPubs n ((s.setCtx c { (s.ctx c) with loopQ := q }).ctx (((upd s.conn cn (sentConn (s.conn cn) (Peer.alias cn).isName (.signal ob sg p))) n).half false).owner).loopQ ++
        prPubs n ((({ (s.setCtx c { (s.ctx c) with loopQ := q }) with conn := upd s.conn cn (sentConn (s.conn cn) (Peer.alias cn).isName (.signal ob sg p)) }).setProg (.sock c) []).prog th)).Sublist (stream s n th)
      rw [hownc, hinb, hloopQ]
      by_cases e : n = cn
      · subst e
        simp only [true_and, hsrv, if_true, stream, hq, lqPubs_cons, cbPub, msgPub, Option.toList]
        split
        · rw [inPubs_append]
          simp only [inPubs, List.filterMap_cons, msgPub, List.filterMap_nil, List.append_assoc, List.singleton_append]
          exact (List.Sublist.refl _).append (((List.Sublist.refl _).cons₂ _).append (q1 n th))
        · simp only [List.append_assoc, List.singleton_append]
          exact (List.Sublist.refl _).append (((List.Sublist.refl _).append (q1 n th)).cons _)
      · simp only [e, false_and, if_false, stream]
        refine ((List.Sublist.refl _).append ?_).append (q1 n th)
        split
        · rename_i e2; rw [e2, hq, lqPubs_cons]
          simp [cbPub, fun x : cn = n => e x.symm]
        · exact List.Sublist.refl _
    · intro n ha
      left
      obtain ⟨h1, h2⟩ := ha
      refine ⟨⟨by rw [← hopenc]; exact h1, ?_⟩, hownc n true⟩
      intro hm'; apply h2
      show MOp.closeConn n true ∈ (({ (s.setCtx c { (s.ctx c) with loopQ := q }) with conn := upd s.conn cn (sentConn (s.conn cn) (Peer.alias cn).isName (.signal ob sg p)) }).setProg (.sock c) []).prog (.sock (((upd s.conn cn (sentConn (s.conn cn) (Peer.alias cn).isName (.signal ob sg p))) n).half true).owner)
      rw [hownc]; exact q3 _ _ hm'

/-- everything on its way to connection `n` was published in the server context of `n` -/
theorem stream_origin {s : State} (h : FifoInv s) (hfl : FlowInv s) {n : ConnId} {th : Th}
    (hth : th.ctx = ((s.conn n).half false).owner) {b : Pub} (hb : b ∈ stream s n th) : b.c = ((s.conn n).half false).owner := by
  simp only [stream, List.mem_append] at hb
  rcases hb with (h0 | h0) | h0
  · exact h.orig_in n b h0
  · obtain ⟨ob, sg, hm⟩ := mem_lqPubs.1 h0
    exact h.orig_lq _ _ ob sg b hm
  · obtain ⟨op, ho, hq⟩ := List.mem_filterMap.1 h0
    have := hfl.ident th op b ho (netPub_of_opPub hq)
    rw [← hth, this]; rfl

/-- the socket thread reads the next message of a connection end -/
theorem fifoInv_arrive {s : State} {cn : ConnId} {cli : Bool} {m : Msg} {ms : List Msg}
    (h : FifoInv s) (hfl : FlowInv s) (ht : TopoInv s) (hty : TypInv s) (hrg : RegInv s) (hlt : cn < s.nextConn)
    (hidle : s.prog (.sock ((s.conn cn).half cli).owner) = []) (hopen : ((s.conn cn).half cli).isOpen = true)
    (hin : ((s.conn cn).half cli).inbox = m :: ms) :
    FifoInv (({ s with conn := upd s.conn cn ((s.conn cn).setHalf cli (readHalf ((s.conn cn).half cli) m ms)) }).setProg
        (.sock ((s.conn cn).half cli).owner) (dispatch (srcName s cn cli) m)) := by
  have hownc : ∀ n b, (((upd s.conn cn ((s.conn cn).setHalf cli (readHalf ((s.conn cn).half cli) m ms))) n).half b).owner =
      ((s.conn n).half b).owner := by
    intro n b; simp only [upd]; split
    · rename_i e; subst e; rw [half_setHalf']; split
      · rename_i e; subst e; exact readHalf_owner _ _ _
      · rfl
    · rfl
  have hopenc : ∀ n b, (((upd s.conn cn ((s.conn cn).setHalf cli (readHalf ((s.conn cn).half cli) m ms))) n).half b).isOpen =
      ((s.conn n).half b).isOpen := by
    intro n b; simp only [upd]; split
    · rename_i e; subst e; rw [half_setHalf']; split
      · rename_i e; subst e; exact readHalf_isOpen _ _ _
      · rfl
    · rfl
  have hinb : ∀ n, (((upd s.conn cn ((s.conn cn).setHalf cli (readHalf ((s.conn cn).half cli) m ms))) n).half true).inbox =
      if n = cn ∧ cli = true then ms else ((s.conn n).half true).inbox := by
    intro n; simp only [upd]
    by_cases e : n = cn
    · subst e
      simp only [if_true, half_setHalf', true_and]
      cases cli <;> simp [readHalf_inbox]
    · simp [e]
  have hinsub : ∀ n, (inPubs (((upd s.conn cn ((s.conn cn).setHalf cli (readHalf ((s.conn cn).half cli) m ms))) n).half true).inbox).Sublist
      (inPubs ((s.conn n).half true).inbox) := by
    intro n; rw [hinb]; split
    · rename_i e; obtain ⟨rfl, rfl⟩ := e
      rw [hin, inPubs_cons]; exact List.sublist_append_right _ _
    · exact List.Sublist.refl _
  cases hm : msgPub m with
  | none =>
    obtain ⟨q1, q2, q3, q4⟩ := quiet_setProg (s := s)
      (X := { s with conn := upd s.conn cn ((s.conn cn).setHalf cli (readHalf ((s.conn cn).half cli) m ms)) }) rfl
      (.sock ((s.conn cn).half cli).owner) _ hidle (netFree_dispatch' (srcName s cn cli) hm)
    exact h.quietN q1 q2 q3 (fun th ob sg q hm => Or.inl (q4 th ob sg q hm)) (fun _ => List.Sublist.refl _) hownc
      (fun n ho => by rw [← hopenc]; exact ho) hinsub rfl (fun _ => Nat.le_refl _)
  | some p =>
    obtain ⟨ob, sg, rfl⟩ : ∃ ob sg, m = .signal ob sg p := by
      cases m <;> simp only [msgPub] at hm <;> try contradiction
      simp only [Option.some.injEq] at hm; subst hm; exact ⟨_, _, rfl⟩
    have hup := hty.inbox cn cli _ (by rw [hin]; exact List.mem_cons_self)
    cases cli with
    | false => simp [Msg.isUp] at hup
    | true =>
    -- the publication moves from the head of the inbox to the socket thread
    have hpin : p ∈ inPubs ((s.conn cn).half true).inbox := by rw [hin, inPubs_cons]; simp [msgPub]
    have hpc : p.c = ((s.conn cn).half false).owner := h.orig_in cn p hpin
    have hact0 : Active s cn := ⟨hopen, by rw [hidle]; simp⟩
    have hprog : ∀ x, (({ s with conn := upd s.conn cn ((s.conn cn).setHalf true (readHalf ((s.conn cn).half true) (.signal ob sg p) ms)) }).setProg
        (.sock ((s.conn cn).half true).owner) (dispatch (srcName s cn true) (.signal ob sg p))).prog x =
        if x = .sock ((s.conn cn).half true).owner then [.snapLocal ⟨srcName s cn true, ob, sg⟩ p] else s.prog x := by
      intro x; simp only [setProg_prog, dispatch]
    have hcons : ∀ x, consumed (({ s with conn := upd s.conn cn ((s.conn cn).setHalf true (readHalf ((s.conn cn).half true) (.signal ob sg p) ms)) }).setProg
        (.sock ((s.conn cn).half true).owner) (dispatch (srcName s cn true) (.signal ob sg p))) x =
        if x = ((s.conn cn).half true).owner then consumed s x ++ [p] else consumed s x := by
      intro x
      simp only [consumed, hprog]
      split
      · rename_i e; simp only [Th.sock.injEq] at e; subst e
        simp [hidle, slPub]
      · rename_i e; simp only [Th.sock.injEq] at e; simp [e]
    have hprsub : ∀ n x, (prPubs n ((({ s with conn := upd s.conn cn ((s.conn cn).setHalf true (readHalf ((s.conn cn).half true) (.signal ob sg p) ms)) }).setProg
        (.sock ((s.conn cn).half true).owner) (dispatch (srcName s cn true) (.signal ob sg p))).prog x)).Sublist (prPubs n (s.prog x)) := by
      intro n x; rw [hprog]; split
      · simp only [prPubs, List.filterMap_cons, List.filterMap_nil, opPub]; exact List.nil_sublist _
      · exact List.Sublist.refl _
    have hstr : ∀ n th, (stream (({ s with conn := upd s.conn cn ((s.conn cn).setHalf true (readHalf ((s.conn cn).half true) (.signal ob sg p) ms)) }).setProg
        (.sock ((s.conn cn).half true).owner) (dispatch (srcName s cn true) (.signal ob sg p))) n th).Sublist (stream s n th) := by
      intro n th
      refine stream_sublist (hinsub n) ?_ (hprsub n th)
      show (lqPubs n (s.ctx (((upd s.conn cn ((s.conn cn).setHalf true (readHalf ((s.conn cn).half true) (.signal ob sg p) ms))) n).half false).owner).loopQ).Sublist _
      rw [hownc]; exact List.Sublist.refl _
    have hloc : ∀ a, netLoc (({ s with conn := upd s.conn cn ((s.conn cn).setHalf true (readHalf ((s.conn cn).half true) (.signal ob sg p) ms)) }).setProg
        (.sock ((s.conn cn).half true).owner) (dispatch (srcName s cn true) (.signal ob sg p))) a → netLoc s a := by
      rintro a (⟨x, hx⟩ | ⟨n, hn⟩ | ⟨x, d', ob', sg', hq'⟩)
      · rw [hcons] at hx; split at hx
        · rcases List.mem_append.1 hx with h1 | h1
          · exact Or.inl ⟨x, h1⟩
          · simp only [List.mem_singleton] at h1; subst h1; exact Or.inr (Or.inl ⟨cn, hpin⟩)
        · exact Or.inl ⟨x, hx⟩
      · exact Or.inr (Or.inl ⟨n, (hinsub n).subset hn⟩)
      · exact Or.inr (Or.inr ⟨x, d', ob', sg', hq'⟩)
    have hactN : ∀ n, Active (({ s with conn := upd s.conn cn ((s.conn cn).setHalf true (readHalf ((s.conn cn).half true) (.signal ob sg p) ms)) }).setProg
        (.sock ((s.conn cn).half true).owner) (dispatch (srcName s cn true) (.signal ob sg p))) n → Active s n := by
      rintro n ⟨h1, h2⟩
      refine ⟨by rw [← hopenc]; exact h1, ?_⟩
      intro hm'
      have e0 := hownc n true
      simp only [setProg_conn] at h2
      rw [e0, hprog] at h2
      split at h2
      · rename_i e; simp only [Th.sock.injEq] at e; rw [e, hidle] at hm'; simp at hm'
      · exact h2 hm'
    constructor
    · intro x d' ob' sg' a hm'; exact h.orig_lq x d' ob' sg' a hm'
    · intro n a ha
      show a.c = (((upd s.conn cn ((s.conn cn).setHalf true (readHalf ((s.conn cn).half true) (.signal ob sg p) ms))) n).half false).owner
      rw [hownc]; exact h.orig_in n a ((hinsub n).subset ha)
    · intro x a ha
      rw [hcons] at ha; split at ha
      · rename_i e; subst e
        rcases List.mem_append.1 ha with h1 | h1
        · exact h.foreign _ a h1
        · simp only [List.mem_singleton] at h1; subst h1
          rw [hpc]; exact fun e => ht.owners cn hlt e.symm
      · exact h.foreign x a ha
    · intro a ha; exact h.bound a (hloc a ha)
    · intro th ob' sg' q' hm' a ha
      refine h.fresh th ob' sg' q' ?_ a (hloc a ha)
      rw [hprog] at hm'; split at hm'
      · simp at hm'
      · exact hm'
    · intro n th hth
      change th.ctx = (((upd s.conn cn ((s.conn cn).setHalf true (readHalf ((s.conn cn).half true) (.signal ob sg p) ms))) n).half false).owner at hth
      rw [hownc] at hth
      exact (h.sorted n th hth).sublist (hstr n th)
    · intro x
      rw [hcons]; split
      · rename_i e; subst e
        refine pairwise_append_of (h.cons _) (List.pairwise_singleton _ _) ?_
        intro a ha b hb
        simp only [List.mem_singleton] at hb; subst hb
        refine h.cross cn hact0 (.sock ((s.conn cn).half false).owner) rfl a ha b ?_
        simp only [stream, List.mem_append]; exact Or.inl (Or.inl hpin)
      · exact h.cons x
    · intro n ha th hth a ham b hb
      have ha0 := hactN n ha
      change th.ctx = (((upd s.conn cn ((s.conn cn).setHalf true (readHalf ((s.conn cn).half true) (.signal ob sg p) ms))) n).half false).owner at hth
      rw [hownc] at hth
      change a ∈ consumed _ (((upd s.conn cn ((s.conn cn).setHalf true (readHalf ((s.conn cn).half true) (.signal ob sg p) ms))) n).half true).owner at ham
      rw [hownc, hcons] at ham
      have hb0 := (hstr n th).subset hb
      split at ham
      · rename_i eo
        rcases List.mem_append.1 ham with h1 | h1
        · exact h.cross n ha0 th hth a h1 b hb0
        · simp only [List.mem_singleton] at h1; subst h1
          by_cases e : n = cn
          · subst e
            -- `a` was the head of this very stream
            have hs0 := h.sorted n th hth
            have hb' : b ∈ inPubs ms ++ lqPubs n (s.ctx ((s.conn n).half false).owner).loopQ ++ prPubs n (s.prog th) := by
              have : (stream (({ s with conn := upd s.conn n ((s.conn n).setHalf true (readHalf ((s.conn n).half true) (.signal ob sg a) ms)) }).setProg
                  (.sock ((s.conn n).half true).owner) (dispatch (srcName s n true) (.signal ob sg a))) n th).Sublist
                  (inPubs ms ++ lqPubs n (s.ctx ((s.conn n).half false).owner).loopQ ++ prPubs n (s.prog th)) := by
                refine (List.Sublist.append ?_ ?_).append (hprsub n th)
                · show (inPubs (((upd s.conn n ((s.conn n).setHalf true (readHalf ((s.conn n).half true) (.signal ob sg a) ms))) n).half true).inbox).Sublist _
                  rw [hinb]; simp
                · show (lqPubs n (s.ctx (((upd s.conn n ((s.conn n).setHalf true (readHalf ((s.conn n).half true) (.signal ob sg a) ms))) n).half false).owner).loopQ).Sublist _
                  rw [hownc]; exact List.Sublist.refl _
              exact this.subset hb
            simp only [stream, hin, inPubs_cons, msgPub, Option.toList, List.singleton_append, List.cons_append] at hs0
            exact (List.pairwise_cons.1 hs0).1 b hb'
          · -- another active connection of the same client: it leads to a different server context
            intro hc _
            exfalso
            have hbc := stream_origin h hfl hth hb0
            have hsame : ((s.conn n).half false).owner = ((s.conn cn).half false).owner := by rw [← hbc, ← hc, hpc]
            have r1 := hrg.reg n true ha0.1
            have r2 := hrg.reg cn true hopen
            rcases r1 with r1 | r1
            · rcases r2 with r2 | r2
              · have s1 : srcName s n true = srcName s cn true := by
                  simp only [srcName, if_true]
                  have := hsame; simp only [Conn.half, Bool.false_eq_true, if_false] at this; rw [this]
                rw [eo, s1, r2] at r1
                simp only [Option.some.injEq] at r1
                exact e r1.symm
              · rw [hidle] at r2; simp at r2
            · exact ha0.2 r1
      · exact h.cross n ha0 th hth a ham b hb0

theorem fifoInv_nstep {s s' : State} (h : FifoInv s) (hfl : FlowInv s) (ht : TopoInv s) (hty : TypInv s) (hrg : RegInv s)
    (hs : NStep s s') : FifoInv s' := by
  cases hs
  case beginOther c t op _ hidle hno =>
    obtain ⟨q1, q2, q3, q4⟩ := quiet_setProg (X := s) rfl (.user c t) _ hidle (netFree_beginProg_other' c t 0 op hno)
    exact h.quietN q1 q2 q3 (fun th ob sg q hm => Or.inl (q4 th ob sg q hm)) (fun _ => List.Sublist.refl _) (fun _ _ => rfl)
      (fun _ h => h) (fun _ => List.Sublist.refl _) rfl (fun _ => Nat.le_refl _)
  case routerOk th =>
    exact h.quietN (fun _ _ => List.Sublist.refl _) (fun _ => rfl) (fun _ _ h => h) (fun _ _ _ _ hm => Or.inl hm)
      (fun _ => List.Sublist.refl _) (fun _ _ => rfl) (fun _ h => h) (fun _ => List.Sublist.refl _) rfl (fun _ => Nat.le_refl _)
  case stopReq c _ =>
    exact h.quietN (fun _ _ => List.Sublist.refl _) (fun _ => rfl) (fun _ _ h => h) (fun _ _ _ _ hm => Or.inl hm)
      (setCtx_loopQ_sublist s c _ (List.Sublist.refl _)) (fun _ _ => rfl) (fun _ h => h) (fun _ => List.Sublist.refl _) rfl
      (fun _ => Nat.le_refl _)
  case cbUnknown c d m q _ hidle hq _ =>
    obtain ⟨q1, q2, q3, q4⟩ := quiet_setProg (s := s) (X := s.setCtx c { (s.ctx c) with loopQ := q }) rfl (.sock c) _ hidle (onSendFail_netFree m)
    exact h.quietN q1 q2 q3 (fun th ob sg q hm => Or.inl (q4 th ob sg q hm))
      (setCtx_loopQ_sublist s c _ (by rw [hq]; exact List.sublist_cons_self _ _)) (fun _ _ => rfl)
      (fun _ h => h) (fun _ => List.Sublist.refl _) rfl (fun _ => Nat.le_refl _)
  case cbFail c d m q cn _ hidle hq _ _ =>
    obtain ⟨q1, q2, q3, q4⟩ := quiet_setProg (s := s) (X := s.setCtx c { (s.ctx c) with loopQ := q }) rfl (.sock c) _ hidle (onSendFail_netFree m)
    exact h.quietN q1 q2 q3 (fun th ob sg q hm => Or.inl (q4 th ob sg q hm))
      (setCtx_loopQ_sublist s c _ (by rw [hq]; exact List.sublist_cons_self _ _)) (fun _ _ => rfl)
      (fun _ h => h) (fun _ => List.Sublist.refl _) rfl (fun _ => Nat.le_refl _)
  case cbDiscNone c n t q _ hidle hq _ =>
    obtain ⟨q1, q2, q3, q4⟩ := quiet_setProg (s := s) (X := s.setCtx c { (s.ctx c) with loopQ := q }) rfl (.sock c) [.finish t false] hidle
      (by simp [netFree, MOp.netPub, MOp.isSnapLocal])
    exact h.quietN q1 q2 q3 (fun th ob sg q hm => Or.inl (q4 th ob sg q hm))
      (setCtx_loopQ_sublist s c _ (by rw [hq]; exact List.sublist_cons_self _ _)) (fun _ _ => rfl)
      (fun _ h => h) (fun _ => List.Sublist.refl _) rfl (fun _ => Nat.le_refl _)
  case cbDisc c n t q cn _ hidle hq _ =>
    obtain ⟨q1, q2, q3, q4⟩ := quiet_setProg (s := s) (X := s.setCtx c { (s.ctx c) with loopQ := q }) rfl (.sock c)
      [.popPeer n, .peerRemoved n, .closeConn cn n.isName, .finish t true] hidle (by simp [netFree, MOp.netPub, MOp.isSnapLocal])
    exact h.quietN q1 q2 q3 (fun th ob sg q hm => Or.inl (q4 th ob sg q hm))
      (setCtx_loopQ_sublist s c _ (by rw [hq]; exact List.sublist_cons_self _ _)) (fun _ _ => rfl)
      (fun _ h => h) (fun _ => List.Sublist.refl _) rfl (fun _ => Nat.le_refl _)
  case eof cn cli _ _ hidle _ _ _ =>
    obtain ⟨q1, q2, q3, q4⟩ := quiet_setProg (s := s) (X := s) rfl (.sock ((s.conn cn).half cli).owner)
      [.popPeer (srcName s cn cli), .peerRemoved (srcName s cn cli), .closeConn cn cli] hidle (by simp [netFree, MOp.netPub, MOp.isSnapLocal])
    exact h.quietN q1 q2 q3 (fun th ob sg q hm => Or.inl (q4 th ob sg q hm)) (fun _ => List.Sublist.refl _) (fun _ _ => rfl)
      (fun _ h => h) (fun _ => List.Sublist.refl _) rfl (fun _ => Nat.le_refl _)
  case stop c _ =>
    refine h.quietN (fun _ _ => List.Sublist.refl _) (fun _ => rfl) (fun _ _ h => h) (fun _ _ _ _ hm => Or.inl hm)
      (setCtx_loopQ_sublist s c _ (List.nil_sublist _)) (fun n cli => stopConn_owner c (s.conn n) cli) ?_ ?_ rfl (fun _ => Nat.le_refl _)
    · intro n ho; simp only [stopConn_isOpen] at ho; split at ho
      · cases ho
      · exact ho
    · intro n; simp only [stopConn_inbox]; split
      · exact List.nil_sublist _
      · exact List.Sublist.refl _
  case beginPub c t ob sg _ hidle =>
    refine h.quietN ?_ ?_ ?_ ?_ (fun _ => List.Sublist.refl _) (fun _ _ => rfl) (fun _ h => h) (fun _ => List.Sublist.refl _) rfl ?_
    · intro n x; simp only [setProg_prog]; split
      · simp only [beginProg, prPubs, List.filterMap_cons, List.filterMap_nil, opPub]; exact List.nil_sublist _
      · exact List.Sublist.refl _
    · intro c'; simp only [setProg_prog]; rw [if_neg (by simp)]
    · intro c' op hm; simp only [setProg_prog]; rw [if_neg (by simp)]; exact hm
    · intro th ob' sg' q' hm
      simp only [setProg_prog] at hm
      split at hm
      · right
        simp only [beginProg, List.mem_cons, List.not_mem_nil, or_false, reduceCtorEq, false_or, MOp.snapRemote.injEq] at hm
        obtain ⟨-, -, rfl⟩ := hm
        intro a ha _ htid
        have := h.bound a ha
        rw [htid] at this; exact this
      · exact Or.inl hm
    · intro t'; simp only [upd]; split
      · rename_i e; subst e; exact Nat.le_succ _
      · exact Nat.le_refl _
  case cbSent c d m q cn _ hidle hq hpeer => exact fifoInv_cbSent h ht hty hidle hq hpeer
  case arrive cn cli m ms hlt _ hidle hopen hin => exact fifoInv_arrive h hfl ht hty hrg hlt hidle hopen hin
  case connect a p hne _ _ hnone => exact fifoInv_connect h ht hty

theorem fifoInv_reach {s : State} (h : Reach s) : FifoInv s := by
  induction h with
  | init => exact fifoInv_init
  | step hr hs ih =>
    rename_i s0 s1 a o
    by_cases ha : ∃ th ch ch2, a = .micro th ch ch2
    · obtain ⟨th, ch, ch2, rfl⟩ := ha
      obtain ⟨-, op, rest, hp, hm⟩ := step_micro_inv hs
      exact fifoInv_micro ih (flowInv_reach hr) (sockOps_reach hr) hp hm
    · exact fifoInv_nstep ih (flowInv_reach hr) (topoInv_reach hr) (typInv_reach hr) (regInv_reach hr)
        (step_nonmicro_cases (fun th ch ch2 e => ha ⟨th, ch, ch2, e⟩) hs)

theorem pair_sublist_of_getElem? {α : Type} : ∀ {l : List α} {i j : Nat} {a b : α},
    i < j → l[i]? = some a → l[j]? = some b → [a, b].Sublist l
  | [], i, j, a, b, _, hi, _ => by simp at hi
  | x :: xs, 0, j + 1, a, b, _, hi, hj => by
    simp only [List.getElem?_cons_zero, Option.some.injEq] at hi
    simp only [List.getElem?_cons_succ] at hj
    subst hi
    exact List.Sublist.cons₂ _ (List.singleton_sublist.2 (List.mem_of_getElem? hj))
  | x :: xs, i + 1, j + 1, a, b, hij, hi, hj => by
    simp only [List.getElem?_cons_succ] at hi hj
    exact (pair_sublist_of_getElem? (Nat.lt_of_succ_lt_succ hij) hi hj).cons _

end QmiModel.PubSub
