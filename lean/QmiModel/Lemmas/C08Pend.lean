import QmiModel.Lemmas.C07Basic
/-! Structure of the pending-request tables (`_pending_subscription_request_by_request_id/_by_signal_name`). -/
namespace QmiModel.PubSub

/-- consistency of the three pending tables of one context -/
structure PendOk (cs : CtxSt) : Prop where
  byId_obj : ∀ id pid, cs.byId id = some pid → ∃ po, cs.pobj pid = some po ∧ cs.byKey po.key = some pid
  byId_inj : ∀ id id' pid, cs.byId id = some pid → cs.byId id' = some pid → id = id'
  fresh : ∀ id, cs.nextReq ≤ id → cs.byId id = none ∧ cs.pobj id = none
  byKey_obj : ∀ k pid, cs.byKey k = some pid → ∃ po, cs.pobj pid = some po ∧ po.key = k ∧ po.done = none

def PendInv (s : State) : Prop := ∀ c, PendOk (s.ctx c)

theorem pendOk_init : PendOk CtxSt.init := by
  constructor <;> simp [CtxSt.init]

theorem handleReplyStep_pendOk {cs cs' : CtxSt} {id : ReqId} {ok : Bool} {more : List MOp} {o : Out}
    (h : PendOk cs) (hs : handleReplyStep cs id ok = some (cs', more, o)) : PendOk cs' := by
  unfold handleReplyStep at hs
  split at hs
  · simp at hs
  · rename_i pid hpid
    split at hs
    · simp at hs
    · rename_i po hpo
      have a1 := h.byId_obj
      have a2 := h.byId_inj
      have a3 := h.fresh
      have a4 := h.byKey_obj
      split at hs
      · simp only [Option.some.injEq, Prod.mk.injEq] at hs
        obtain ⟨rfl, -, -⟩ := hs
        constructor <;> intros <;> simp only [upd] at * <;> grind
      · split at hs
        · simp only [Option.some.injEq, Prod.mk.injEq] at hs
          obtain ⟨rfl, -, -⟩ := hs
          constructor <;> intros <;> simp only [upd] at * <;> grind
        · simp only [Option.some.injEq, Prod.mk.injEq] at hs
          obtain ⟨rfl, -, -⟩ := hs
          constructor <;> intros <;> simp only [upd] at * <;> grind

end QmiModel.PubSub
