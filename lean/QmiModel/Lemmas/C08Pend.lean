import QmiModel.Lemmas.C07Basic
/-! Structure of the pending-request tables (`_pending_subscription_request_by_request_id/_by_signal_name`). -/
namespace QmiModel.PubSub

/-- consistency of the three pending tables of one context (stated without existentials) -/
structure PendOk (cs : CtxSt) : Prop where
  byId_some : ∀ id pid, cs.byId id = some pid → cs.pobj pid ≠ none
  byId_key : ∀ id pid po, cs.byId id = some pid → cs.pobj pid = some po → cs.byKey po.key = some pid
  byId_inj : ∀ id id' pid, cs.byId id = some pid → cs.byId id' = some pid → id = id'
  fresh : ∀ id, cs.nextReq ≤ id → cs.byId id = none ∧ cs.pobj id = none
  byKey_some : ∀ k pid, cs.byKey k = some pid → cs.pobj pid ≠ none
  byKey_obj : ∀ k pid po, cs.byKey k = some pid → cs.pobj pid = some po → po.key = k ∧ po.done = none
  byKey_cur : ∀ k pid po, cs.byKey k = some pid → cs.pobj pid = some po → cs.byId po.cur = some pid

def PendInv (s : State) : Prop := ∀ c, PendOk (s.ctx c)

theorem pendOk_init : PendOk CtxSt.init := by
  constructor <;> simp [CtxSt.init]

theorem handleReplyStep_pendOk {cs cs' : CtxSt} {id : ReqId} {ok : Bool} {more : List MOp} {o : Out}
    (h : PendOk cs) (hs : handleReplyStep cs id ok = some (cs', more, o)) : PendOk cs' := by
  unfold handleReplyStep at hs
  split at hs
  · simp only [Option.some.injEq, Prod.mk.injEq] at hs; obtain ⟨rfl, rfl, rfl⟩ := hs; exact h
  · rename_i pid hpid
    split at hs
    · simp only [Option.some.injEq, Prod.mk.injEq] at hs; obtain ⟨rfl, rfl, rfl⟩ := hs; exact h
    · rename_i po hpo
      have a1 := h.byId_some
      have a2 := h.byId_key
      have a3 := h.byId_inj
      have a4 := h.fresh
      have a5 := h.byKey_some
      have a6 := h.byKey_obj
      have a7 := h.byKey_cur
      split at hs
      · simp only [Option.some.injEq, Prod.mk.injEq] at hs
        obtain ⟨rfl, -, -⟩ := hs
        constructor <;> intros <;> simp only [upd] at * <;> grind
      · split at hs
        · simp only [Option.some.injEq, Prod.mk.injEq] at hs
          obtain ⟨rfl, -, -⟩ := hs
          constructor <;> intros <;> simp only [upd] at * <;> grind
        · simp only [Option.some.injEq, Prod.mk.injEq] at hs
          obtain ⟨rfl, -, -⟩ := hs
          constructor <;> intros <;> simp only [upd] at * <;> grind

/-- marking pending objects as cancelled does not affect the table structure -/
theorem PendOk.cancel {cs : CtxSt} (h : PendOk cs) (l : Key → List Rcv) (g : ReqId → PObj → Bool) :
    PendOk { cs with lsubs := l, pobj := fun pid => (cs.pobj pid).map (fun po => po.cancelIf (g pid po)) } := by
  constructor
  · intro id pid hid
    have := h.byId_some id pid hid
    simp only
    cases hp : cs.pobj pid <;> simp_all
  · intro id pid po hid hpo
    simp only at hpo
    cases hp : cs.pobj pid with
    | none => simp [hp] at hpo
    | some po0 =>
      simp only [hp, Option.map_some, Option.some.injEq] at hpo
      subst hpo
      simpa using h.byId_key id pid po0 hid hp
  · exact h.byId_inj
  · intro id hid
    have := h.fresh id hid
    exact ⟨this.1, by simp [this.2]⟩
  · intro k pid hk
    have := h.byKey_some k pid hk
    simp only
    cases hp : cs.pobj pid <;> simp_all
  · intro k pid po hk hpo
    simp only at hpo
    cases hp : cs.pobj pid with
    | none => simp [hp] at hpo
    | some po0 =>
      simp only [hp, Option.map_some, Option.some.injEq] at hpo
      subst hpo
      simpa using h.byKey_obj k pid po0 hk hp
  · intro k pid po hk hpo
    simp only at hpo
    cases hp : cs.pobj pid with
    | none => simp [hp] at hpo
    | some po0 =>
      simp only [hp, Option.map_some, Option.some.injEq] at hpo
      subst hpo
      simpa using h.byKey_cur k pid po0 hk hp

set_option maxHeartbeats 1000000 in
theorem pendInv_micro {s s' : State} {th : Th} {ch ch2 : Nat} {op : MOp} {rest : List MOp} {o : Out}
    (h : PendInv s) (hs : microStep s th ch ch2 op rest = some (s', o)) : PendInv s' := by
  have h0 := h th.ctx
  have a1 := h0.byId_some
  have a2 := h0.byId_key
  have a3 := h0.byId_inj
  have a4 := h0.fresh
  have a5 := h0.byKey_some
  have a6 := h0.byKey_obj
  have a7 := h0.byKey_cur
  cases op <;> simp only [microStep] at hs
  all_goals (try (split at hs))
  all_goals (try (split at hs))
  all_goals (try (split at hs))
  all_goals (try (split at hs))
  all_goals (try (simp at hs))
  all_goals (try (obtain ⟨rfl, -⟩ := hs))
  all_goals (intro c; simp only [setProg_ctx, setCtx_ctx, State.setProg]; (try split))
  all_goals (try exact h c)
  all_goals (try (rename_i e; subst e))
  all_goals (try exact h0)
  all_goals (try exact handleReplyStep_pendOk h0 ‹handleReplyStep _ _ _ = some _›)
  all_goals (try exact h0.cancel _ _)
  all_goals (try (constructor <;> intros <;> simp only [upd, peerRemovedStep] at * <;> grind))


theorem PendOk.of_same {a b : CtxSt} (h : PendOk b) (e : SameTables a b) : PendOk a := by
  have a1 := h.byId_some
  have a2 := h.byId_key
  have a3 := h.byId_inj
  have a4 := h.fresh
  have a5 := h.byKey_some
  have a6 := h.byKey_obj
  have a7 := h.byKey_cur
  constructor <;> intros <;> simp only [e.pobj, e.byId, e.byKey, e.nextReq] at * <;> grind

theorem pendInv_step {s s' : State} {a : Act} {o : Out} (h : PendInv s) (hs : step s a = some (s', o)) : PendInv s' := by
  by_cases ha : ∃ th ch ch2, a = .micro th ch ch2
  · obtain ⟨th, ch, ch2, rfl⟩ := ha
    obtain ⟨-, op, rest, -, hm⟩ := step_micro_inv hs
    exact pendInv_micro h hm
  · have ha' : ∀ th ch ch2, a ≠ .micro th ch ch2 := fun th ch ch2 e => ha ⟨th, ch, ch2, e⟩
    intro c
    exact (h c).of_same (step_nonmicro_tables ha' hs c)

theorem pendInv_reach {s : State} (h : Reach s) : PendInv s := by
  induction h with
  | init => intro c; exact pendOk_init
  | step _ hs ih => exact pendInv_step ih hs

end QmiModel.PubSub
