import QmiModel.Lemmas.C20Ranges
/-! ASCII letter case: `str.upper()` (used by the parser) and `str.lower()` (used by the manager) induce the
same equivalence; case-insensitive lookup. Core Lean only. -/
namespace QmiModel.Adbasic

theorem toNat_ofNat_small (n : Nat) (h : n < 0xD800) : (Char.ofNat n).toNat = n := by
  have hv : n.isValidChar := Or.inl h
  simp only [Char.ofNat, hv, dif_pos, Char.ofNatAux, Char.toNat]
  simp [UInt32.toNat_ofNatLT]

theorem le_toNat (c d : Char) : c ≤ d ↔ c.toNat ≤ d.toNat := by
  rw [Char.le_def, UInt32.le_iff_toNat_le]; rfl

theorem upperC_toNat (c : Char) :
    (upperC c).toNat = if 97 ≤ c.toNat ∧ c.toNat ≤ 122 then c.toNat - 32 else c.toNat := by
  unfold upperC
  have e1 : ('a' ≤ c) ↔ 97 ≤ c.toNat := le_toNat 'a' c
  have e2 : (c ≤ 'z') ↔ c.toNat ≤ 122 := le_toNat c 'z'
  by_cases h : 'a' ≤ c ∧ c ≤ 'z'
  · have h' : 97 ≤ c.toNat ∧ c.toNat ≤ 122 := ⟨e1.1 h.1, e2.1 h.2⟩
    rw [if_pos h, if_pos h', toNat_ofNat_small _ (by omega)]
  · have h' : ¬ (97 ≤ c.toNat ∧ c.toNat ≤ 122) := fun hh => h ⟨e1.2 hh.1, e2.2 hh.2⟩
    rw [if_neg h, if_neg h']

theorem lowerC_toNat (c : Char) :
    (lowerC c).toNat = if 65 ≤ c.toNat ∧ c.toNat ≤ 90 then c.toNat + 32 else c.toNat := by
  unfold lowerC
  have e1 : ('A' ≤ c) ↔ 65 ≤ c.toNat := le_toNat 'A' c
  have e2 : (c ≤ 'Z') ↔ c.toNat ≤ 90 := le_toNat c 'Z'
  by_cases h : 'A' ≤ c ∧ c ≤ 'Z'
  · have h' : 65 ≤ c.toNat ∧ c.toNat ≤ 90 := ⟨e1.1 h.1, e2.1 h.2⟩
    rw [if_pos h, if_pos h', toNat_ofNat_small _ (by omega)]
  · have h' : ¬ (65 ≤ c.toNat ∧ c.toNat ≤ 90) := fun hh => h ⟨e1.2 hh.1, e2.2 hh.2⟩
    rw [if_neg h, if_neg h']

theorem upperC_eq_iff_lowerC_eq (c d : Char) : upperC c = upperC d ↔ lowerC c = lowerC d := by
  rw [← Char.toNat_inj, ← Char.toNat_inj, upperC_toNat, upperC_toNat, lowerC_toNat, lowerC_toNat]
  split <;> split <;> split <;> split <;> omega

/-- on the model's strings, "equal after `.upper()`" and "equal after `.lower()`" coincide -/
theorem upper_eq_iff_lower_eq (a b : Str) : upper a = upper b ↔ lower a = lower b := by
  induction a generalizing b with
  | nil => cases b <;> simp [upper, lower]
  | cons x xs ih =>
    cases b with
    | nil => simp [upper, lower]
    | cons y ys =>
      simp only [upper, lower, List.map_cons, List.cons.injEq] at ih ⊢
      rw [upperC_eq_iff_lowerC_eq, ih ys]

/-! ### `_get_dict_item_case_insensitive` -/

theorem lookupCI_some {β : Type} (b : Dict Str β) (n : Str) (d : β) (h : lookupCI b n = some d) :
    ∃ key, (key, d) ∈ b ∧ lower n = lower key := by
  induction b with
  | nil => simp [lookupCI] at h
  | cons kv rest ih =>
    obtain ⟨k, v⟩ := kv
    simp only [lookupCI] at h
    split at h
    · rename_i hk
      injection h with h; subst h
      exact ⟨k, List.mem_cons_self, hk⟩
    · obtain ⟨key, h1, h2⟩ := ih h
      exact ⟨key, List.mem_cons_of_mem _ h1, h2⟩

theorem lookupCI_isSome_of_mem {β : Type} (b : Dict Str β) (n key : Str) (d : β)
    (hm : (key, d) ∈ b) (hl : lower n = lower key) : (lookupCI b n).isSome := by
  induction b with
  | nil => simp at hm
  | cons kv rest ih =>
    obtain ⟨k, v⟩ := kv
    simp only [lookupCI]
    split
    · rfl
    · rename_i hk
      rcases List.mem_cons.1 hm with h | h
      · injection h with h1 h2
        subst h1
        exact absurd hl hk
      · exact ih h

theorem dictGet_mem {α β : Type} [DecidableEq α] (b : Dict α β) (k : α) (d : β) (h : dictGet b k = some d) :
    (k, d) ∈ b := by
  induction b with
  | nil => simp [dictGet] at h
  | cons kv rest ih =>
    obtain ⟨x, y⟩ := kv
    simp only [dictGet] at h
    split at h
    · rename_i hx
      injection h with h; subst h; subst hx
      exact List.mem_cons_self
    · exact List.mem_cons_of_mem _ (ih h)

theorem dictGet_of_mem_nodup {α β : Type} [DecidableEq α] (b : Dict α β) (k : α) (d : β)
    (hn : (dictKeys b).Nodup) (h : (k, d) ∈ b) : dictGet b k = some d := by
  induction b with
  | nil => simp at h
  | cons kv rest ih =>
    obtain ⟨x, y⟩ := kv
    simp only [dictKeys, List.map_cons, List.nodup_cons] at hn
    simp only [dictGet]
    rcases List.mem_cons.1 h with h | h
    · injection h with h1 h2
      subst h1; subst h2
      simp
    · have hx : x ≠ k := by
        intro e; subst e
        exact hn.1 (List.mem_map_of_mem (f := Prod.fst) h)
      simp only [hx, if_false]
      exact ih hn.2 h

end QmiModel.Adbasic
