import QmiModel.Lemmas.C20Ranges
/-! ASCII letter case: `str.upper()` (used by the parser) and `str.lower()` (used by the manager) induce the
same equivalence; case-insensitive lookup. Core Lean only. -/
namespace QmiModel.Adbasic

theorem toNat_ofNat_small (n : Nat) (h : n < 0xD800) : (Char.ofNat n).toNat = n := by
  have hv : n.isValidChar := Or.inl h
  simp only [Char.ofNat, hv, dif_pos, Char.ofNatAux, Char.toNat]
  simp [UInt32.toNat_ofNatLT]

theorem le_toNat (c d : Char) : c ≤ d ↔ c.toNat ≤ d.toNat := by
  rw [Char.le_def, UInt32.le_iff_toNat_le]; rfl

theorem upperC_toNat (c : Char) :
    (upperC c).toNat = if 97 ≤ c.toNat ∧ c.toNat ≤ 122 then c.toNat - 32 else c.toNat := by
  unfold upperC
  have e1 : ('a' ≤ c) ↔ 97 ≤ c.toNat := le_toNat 'a' c
  have e2 : (c ≤ 'z') ↔ c.toNat ≤ 122 := le_toNat c 'z'
  by_cases h : 'a' ≤ c ∧ c ≤ 'z'
  · have h' : 97 ≤ c.toNat ∧ c.toNat ≤ 122 := ⟨e1.1 h.1, e2.1 h.2⟩
    rw [if_pos h, if_pos h', toNat_ofNat_small _ (by omega)]
  · have h' : ¬ (97 ≤ c.toNat ∧ c.toNat ≤ 122) := fun hh => h ⟨e1.2 hh.1, e2.2 hh.2⟩
    rw [if_neg h, if_neg h']

theorem lowerC_toNat (c : Char) :
    (lowerC c).toNat = if 65 ≤ c.toNat ∧ c.toNat ≤ 90 then c.toNat + 32 else c.toNat := by
  unfold lowerC
  have e1 : ('A' ≤ c) ↔ 65 ≤ c.toNat := le_toNat 'A' c
  have e2 : (c ≤ 'Z') ↔ c.toNat ≤ 90 := le_toNat c 'Z'
  by_cases h : 'A' ≤ c ∧ c ≤ 'Z'
  · have h' : 65 ≤ c.toNat ∧ c.toNat ≤ 90 := ⟨e1.1 h.1, e2.1 h.2⟩
    rw [if_pos h, if_pos h', toNat_ofNat_small _ (by omega)]
  · have h' : ¬ (65 ≤ c.toNat ∧ c.toNat ≤ 90) := fun hh => h ⟨e1.2 hh.1, e2.2 hh.2⟩
    rw [if_neg h, if_neg h']

theorem upperC_eq_iff_lowerC_eq (c d : Char) : upperC c = upperC d ↔ lowerC c = lowerC d := by
  rw [← Char.toNat_inj, ← Char.toNat_inj, upperC_toNat, upperC_toNat, lowerC_toNat, lowerC_toNat]
  split <;> split <;> split <;> split <;> omega

theorem upperS_ascii (c : Char) (h : c.toNat < 128) : upperS c = [upperC c] := by
  have hne : ∀ n, 128 ≤ n → n < 0xD800 → c ≠ Char.ofNat n := by
    intro n h1 h2 he
    have := toNat_ofNat_small n h2
    rw [← he] at this
    omega
  unfold upperS
  simp only [hne 0xDF (by omega) (by omega), hne 0x131 (by omega) (by omega), hne 0x17F (by omega) (by omega), if_false]
  have hbig : ∀ n, 0xDFFF < n → n < 0x110000 → c ≠ Char.ofNat n := by
    intro n h1 h2 he
    have hv : n.isValidChar := Or.inr ⟨h1, h2⟩
    have : (Char.ofNat n).toNat = n := by
      simp only [Char.ofNat, hv, dif_pos, Char.ofNatAux, Char.toNat]
      simp [UInt32.toNat_ofNatLT]
    rw [← he] at this
    omega
  simp only [hbig 0xFB00 (by omega) (by omega), hbig 0xFB01 (by omega) (by omega), hbig 0xFB02 (by omega) (by omega),
    hbig 0xFB03 (by omega) (by omega), hbig 0xFB04 (by omega) (by omega), hbig 0xFB05 (by omega) (by omega),
    hbig 0xFB06 (by omega) (by omega), if_false]

theorem lowerS_ascii (c : Char) (h : c.toNat < 128) : lowerS c = [lowerC c] := by
  have : c ≠ Char.ofNat 0x212A := by
    intro he
    have := toNat_ofNat_small 0x212A (by omega)
    rw [← he] at this
    omega
  unfold lowerS
  simp only [this, if_false]

theorem upper_ascii (a : Str) (h : isAscii a) : upper a = a.map upperC := by
  induction a with
  | nil => rfl
  | cons x xs ih =>
    have hx := h x (List.mem_cons_self)
    have := ih (fun c hc => h c (List.mem_cons_of_mem _ hc))
    simp only [upper, List.flatMap_cons, List.map_cons] at this ⊢
    rw [upperS_ascii x hx, this]
    rfl

theorem lower_ascii (a : Str) (h : isAscii a) : lower a = a.map lowerC := by
  induction a with
  | nil => rfl
  | cons x xs ih =>
    have hx := h x (List.mem_cons_self)
    have := ih (fun c hc => h c (List.mem_cons_of_mem _ hc))
    simp only [lower, List.flatMap_cons, List.map_cons] at this ⊢
    rw [lowerS_ascii x hx, this]
    rfl

theorem map_upper_eq_iff_map_lower_eq (a b : Str) : a.map upperC = b.map upperC ↔ a.map lowerC = b.map lowerC := by
  induction a generalizing b with
  | nil => cases b <;> simp
  | cons x xs ih =>
    cases b with
    | nil => simp
    | cons y ys =>
      simp only [List.map_cons, List.cons.injEq]
      rw [upperC_eq_iff_lowerC_eq, ih ys]

/-- on ASCII strings, "equal after `.upper()`" and "equal after `.lower()`" coincide (they do not beyond
ASCII: U+212A KELVIN SIGN; this is why parser and manager now both fold with `upper()`, fix 5ae01c1) -/
theorem upper_eq_iff_lower_eq (a b : Str) (ha : isAscii a) (hb : isAscii b) :
    upper a = upper b ↔ lower a = lower b := by
  rw [upper_ascii a ha, upper_ascii b hb, lower_ascii a ha, lower_ascii b hb]
  exact map_upper_eq_iff_map_lower_eq a b

/-! ### `_get_dict_item_case_insensitive` -/

theorem lookupCI_some {β : Type} (b : Dict Str β) (n : Str) (d : β) (h : lookupCI b n = some d) :
    ∃ key, (key, d) ∈ b ∧ upper n = upper key := by
  induction b with
  | nil => simp [lookupCI] at h
  | cons kv rest ih =>
    obtain ⟨k, v⟩ := kv
    simp only [lookupCI] at h
    split at h
    · rename_i hk
      injection h with h; subst h
      exact ⟨k, List.mem_cons_self, hk⟩
    · obtain ⟨key, h1, h2⟩ := ih h
      exact ⟨key, List.mem_cons_of_mem _ h1, h2⟩

theorem lookupCI_isSome_of_mem {β : Type} (b : Dict Str β) (n key : Str) (d : β)
    (hm : (key, d) ∈ b) (hl : upper n = upper key) : (lookupCI b n).isSome := by
  induction b with
  | nil => simp at hm
  | cons kv rest ih =>
    obtain ⟨k, v⟩ := kv
    simp only [lookupCI]
    split
    · rfl
    · rename_i hk
      rcases List.mem_cons.1 hm with h | h
      · injection h with h1 h2
        subst h1
        exact absurd hl hk
      · exact ih h

theorem dictGet_mem {α β : Type} [DecidableEq α] (b : Dict α β) (k : α) (d : β) (h : dictGet b k = some d) :
    (k, d) ∈ b := by
  induction b with
  | nil => simp [dictGet] at h
  | cons kv rest ih =>
    obtain ⟨x, y⟩ := kv
    simp only [dictGet] at h
    split at h
    · rename_i hx
      injection h with h; subst h; subst hx
      exact List.mem_cons_self
    · exact List.mem_cons_of_mem _ (ih h)

theorem dictGet_of_mem_nodup {α β : Type} [DecidableEq α] (b : Dict α β) (k : α) (d : β)
    (hn : (dictKeys b).Nodup) (h : (k, d) ∈ b) : dictGet b k = some d := by
  induction b with
  | nil => simp at h
  | cons kv rest ih =>
    obtain ⟨x, y⟩ := kv
    simp only [dictKeys, List.map_cons, List.nodup_cons] at hn
    simp only [dictGet]
    rcases List.mem_cons.1 h with h | h
    · injection h with h1 h2
      subst h1; subst h2
      simp
    · have hx : x ≠ k := by
        intro e; subst e
        exact hn.1 (List.mem_map_of_mem (f := Prod.fst) h)
      simp only [hx, if_false]
      exact ih hn.2 h

end QmiModel.Adbasic

namespace QmiModel.Adbasic

theorem mem_dictSet {α β : Type} [DecidableEq α] (d : Dict α β) (k : α) (v : β) (x : α × β)
    (h : x ∈ dictSet d k v) : x = (k, v) ∨ x ∈ d := by
  induction d with
  | nil => simp [dictSet] at h; exact Or.inl h
  | cons kv rest ih =>
    obtain ⟨a, b⟩ := kv
    simp only [dictSet] at h
    split at h
    · rename_i hak
      rcases List.mem_cons.1 h with h | h
      · subst hak; exact Or.inl h
      · exact Or.inr (List.mem_cons_of_mem _ h)
    · rcases List.mem_cons.1 h with h | h
      · exact Or.inr (h ▸ List.mem_cons_self)
      · rcases ih h with h | h
        · exact Or.inl h
        · exact Or.inr (List.mem_cons_of_mem _ h)

end QmiModel.Adbasic
