import QmiModel.Model.Task
/-!
# C10 — the inductive invariant of the task-lifecycle transition system, and frame lemmas

`Inv` holds in `init` and is preserved by every enabled action (`inv_step`), hence in every state reachable by
any finite interleaving of task-thread actions, runner-constructor actions and runner operations (`inv_reachable`).
The property theorems in `Props/C10.lean` are consequences of `Inv` plus the frame lemmas below, which tie the
ghost fields to the history (`runs` = number of `runEnter` actions, …).
-/
namespace QmiModel.Task

def Pc.ranOut? : Pc → Bool | .ranOut _ => true | _ => false

structure Inv (s : State) : Prop where
  init_st    : s.pc = .init → (s.st = .initial ∨ (s.st = .stopped ∧ s.shut = true))
  initial_pc : s.st = .initial → s.pc = .init
  up_pc      : (s.phase = .up ∨ s.phase = .removed) → s.pc ≠ .init
  ready_pc   : s.st = .ready → s.pc = .waiting
  waiting    : s.pc = .waiting → (s.st = .ready ∨ s.st = .running ∨ s.st = .stopped)
  inside     : (s.pc = .goRun ∨ s.pc = .inRun ∨ s.pc = .inUpd ∨ s.pc = .inPub ∨ s.pc.ranOut? = true) → s.st = .running
  after      : (s.pc = .exiting ∨ s.pc = .ended) →
                 (s.st = .excInit ∨ s.st = .stopped ∨ s.st = .completed ∨ s.st = .excRun)
  up_st      : s.phase = .up → (s.st ≠ .initial ∧ s.st ≠ .excInit)
  ctor1_st   : s.phase = .ctor1 → s.st ≠ .initial
  rpc_up     : s.rpc ≠ .idle → s.phase = .up
  startMid   : s.rpc = .startMid → (s.st = .ready ∨ (s.shut = true ∧ s.st = .stopped))
  runs_def   : s.runs = if (s.pc = .inRun ∨ s.pc = .inUpd ∨ s.pc = .inPub ∨ s.pc.ranOut? = true ∨
                             s.st = .completed ∨ s.st = .excRun)
                        then 1 else 0
  started_iff   : s.started = true ↔ (s.st = .running ∨ s.st = .completed ∨ s.st = .excRun)
  stopped_sf : s.st = .stopped → s.stopFirst = true
  sf_st      : s.stopFirst = true → (s.st = .stopped ∨ (s.st = .excInit ∧ s.shut = true))
  exc_iff    : s.exc = true ↔ (s.st = .excInit ∨ s.st = .excRun)
  out_pc     : ∀ o, s.pc = .ranOut o → s.runOutcome = some o
  out_none   : (s.pc = .init ∨ s.pc = .waiting ∨ s.pc = .goRun ∨ s.pc = .inRun ∨ s.pc = .inUpd ∨ s.pc = .inPub ∨
                s.st = .stopped ∨ s.st = .excInit) → s.runOutcome = none
  out_completed : s.st = .completed → ∃ o, s.runOutcome = some o ∧ o ≠ .otherExc
  out_excRun : s.st = .excRun → s.runOutcome = some .otherExc
  posted_iff : s.posted = s.slot.isSome
  slot_last  : ∀ v, s.slot = some v → s.lastPosted = some v
  inUpd_slot : s.pc = .inUpd → s.slot.isSome = true
  joined_ended  : s.joined = true → s.pc = .ended
  removed_joined : s.phase = .removed → s.joined = true
  compJoin_stop  : ∀ c, s.rpc = .compJoin c → (s.stopReq = true ∨ s.st = .stopped)
  ext_shut   : 0 < s.extMid → s.shut = true
  joinMid_ended : ∀ c, s.rpc = .joinMid c → s.pc = .ended
  inPub_settings : s.pc = .inPub → s.settings.isSome = true
  pub_def    : s.adopted = s.published ++ (if s.pc = .inPub then s.settings.toList else [])

theorem inv_initS (v0 : Option Nat) : Inv (initS v0) := by
  constructor <;> simp [initS, init, Pc.ranOut?]

theorem inv_init : Inv init := inv_initS none

/-- unfold one action, split its guards, discharge every field of `Inv` for the successor state -/
syntax "inv_tac " ident : tactic
macro_rules
  | `(tactic| inv_tac $hs) => `(tactic| (
      simp only [step, State.free, State.stopCtx, State.joinCtx, Bool.and_eq_true, beq_iff_eq] at $hs:ident
      (repeat' split at $hs:ident) <;>
        first
        | contradiction
        | (simp only [Option.some.injEq] at $hs:ident; subst $hs:ident
           constructor <;> first | grind [Pc.ranOut?, Rpc.afterStop] | simp_all [Pc.ranOut?, Rpc.afterStop])))

theorem inv_initOk {s s' : State} (h : Inv s) (hs : step s .initOk = some s') : Inv s' := by
  obtain ⟨⟩ := h; inv_tac hs
theorem inv_initFail {s s' : State} (h : Inv s) (hs : step s .initFail = some s') : Inv s' := by
  obtain ⟨⟩ := h; inv_tac hs
theorem inv_wake {s s' : State} (h : Inv s) (hs : step s .wake = some s') : Inv s' := by
  obtain ⟨⟩ := h; inv_tac hs
theorem inv_runEnter {s s' : State} (h : Inv s) (hs : step s .runEnter = some s') : Inv s' := by
  obtain ⟨⟩ := h; inv_tac hs
theorem inv_updCheck {s s' : State} (h : Inv s) (hs : step s .updCheck = some s') : Inv s' := by
  obtain ⟨⟩ := h; inv_tac hs
theorem inv_updPop {s s' : State} (h : Inv s) (hs : step s .updPop = some s') : Inv s' := by
  obtain ⟨⟩ := h; inv_tac hs
theorem inv_updPub {s s' : State} (h : Inv s) (hs : step s .updPub = some s') : Inv s' := by
  obtain ⟨⟩ := h; inv_tac hs
theorem inv_setStatus {s s' : State} (v : Nat) (h : Inv s) (hs : step s (.setStatus v) = some s') : Inv s' := by
  obtain ⟨⟩ := h; inv_tac hs
theorem inv_getStatus {s s' : State} (h : Inv s) (hs : step s .getStatus = some s') : Inv s' := by
  obtain ⟨⟩ := h; inv_tac hs
theorem inv_exitBegin {s s' : State} (h : Inv s) (hs : step s .exitBegin = some s') : Inv s' := by
  obtain ⟨⟩ := h; inv_tac hs
theorem inv_releaseBegin {s s' : State} (h : Inv s) (hs : step s .releaseBegin = some s') : Inv s' := by
  obtain ⟨⟩ := h; inv_tac hs
theorem inv_extStopRegion {s s' : State} (h : Inv s) (hs : step s .extStopRegion = some s') : Inv s' := by
  obtain ⟨⟩ := h; inv_tac hs
theorem inv_extStopSet {s s' : State} (h : Inv s) (hs : step s .extStopSet = some s') : Inv s' := by
  obtain ⟨⟩ := h; inv_tac hs
theorem inv_runEnd {s s' : State} (o : Outcome) (h : Inv s) (hs : step s (.runEnd o) = some s') : Inv s' := by
  obtain ⟨⟩ := h; inv_tac hs
theorem inv_mark {s s' : State} (h : Inv s) (hs : step s .mark = some s') : Inv s' := by
  obtain ⟨⟩ := h; inv_tac hs
theorem inv_threadEnd {s s' : State} (h : Inv s) (hs : step s .threadEnd = some s') : Inv s' := by
  obtain ⟨⟩ := h; inv_tac hs
theorem inv_ctorWait {s s' : State} (h : Inv s) (hs : step s .ctorWait = some s') : Inv s' := by
  obtain ⟨⟩ := h; inv_tac hs
theorem inv_ctorGet {s s' : State} (h : Inv s) (hs : step s .ctorGet = some s') : Inv s' := by
  obtain ⟨⟩ := h; inv_tac hs
theorem inv_startCheck {s s' : State} (h : Inv s) (hs : step s .startCheck = some s') : Inv s' := by
  obtain ⟨⟩ := h; inv_tac hs
theorem inv_startKick {s s' : State} (h : Inv s) (hs : step s .startKick = some s') : Inv s' := by
  obtain ⟨⟩ := h; inv_tac hs

theorem stopCtx_some {s : State} {c : Comp} (h : s.stopCtx = some c) :
    s.phase = .up ∧ ((s.rpc = .idle ∧ c = .plain) ∨ s.rpc = .compStop c) := by
  simp only [State.stopCtx] at h
  split at h
  · rename_i hup
    refine ⟨hup, ?_⟩
    split at h <;> simp_all
  · contradiction

theorem joinCtx_some {s : State} {c : Comp} (h : s.joinCtx = some c) :
    s.phase = .up ∧ ((s.rpc = .idle ∧ c = .plain) ∨ s.rpc = .compJoin c) := by
  simp only [State.joinCtx] at h
  split at h
  · rename_i hup
    refine ⟨hup, ?_⟩
    split at h <;> simp_all
  · contradiction

/-- the same as `inv_tac`, for an action whose composition context `c` is already fixed -/
syntax "inv_ctx_tac " ident ident : tactic
macro_rules
  | `(tactic| inv_ctx_tac $hs $hc) => `(tactic| (
      simp only [step, $hc:ident] at $hs:ident
      (repeat' split at $hs:ident) <;>
        first
        | contradiction
        | (simp only [Option.some.injEq] at $hs:ident; subst $hs:ident
           constructor <;> first | grind [Pc.ranOut?, Rpc.afterStop] | simp_all [Pc.ranOut?, Rpc.afterStop])))

theorem inv_stopRegion_plain {s s' : State} (h : Inv s) (hc : s.stopCtx = some .plain)
    (hs : step s .stopRegion = some s') : Inv s' := by
  obtain ⟨hup, hr⟩ := stopCtx_some hc
  obtain ⟨⟩ := h; inv_ctx_tac hs hc
theorem inv_stopRegion_exit {s s' : State} (h : Inv s) (hc : s.stopCtx = some .exit)
    (hs : step s .stopRegion = some s') : Inv s' := by
  obtain ⟨hup, hr⟩ := stopCtx_some hc
  obtain ⟨⟩ := h; inv_ctx_tac hs hc
theorem inv_stopRegion_release {s s' : State} (h : Inv s) (hc : s.stopCtx = some .release)
    (hs : step s .stopRegion = some s') : Inv s' := by
  obtain ⟨hup, hr⟩ := stopCtx_some hc
  obtain ⟨⟩ := h; inv_ctx_tac hs hc
theorem inv_stopRegion {s s' : State} (h : Inv s) (hs : step s .stopRegion = some s') : Inv s' := by
  cases hc : s.stopCtx with
  | none => simp [step, hc] at hs
  | some c =>
    cases c
    · exact inv_stopRegion_plain h hc hs
    · exact inv_stopRegion_exit h hc hs
    · exact inv_stopRegion_release h hc hs
theorem inv_stopSet {s s' : State} (h : Inv s) (hs : step s .stopSet = some s') : Inv s' := by
  obtain ⟨⟩ := h; inv_tac hs
theorem inv_join {s s' : State} (h : Inv s) (hs : step s .join = some s') : Inv s' := by
  cases hc : s.joinCtx with
  | none => simp [step, hc] at hs
  | some c =>
    obtain ⟨hup, hr⟩ := joinCtx_some hc
    obtain ⟨⟩ := h; inv_ctx_tac hs hc

theorem inv_joinSet_plain {s s' : State} (h : Inv s) (hc : s.rpc = .joinMid .plain)
    (hs : step s .joinSet = some s') : Inv s' := by
  obtain ⟨⟩ := h; inv_ctx_tac hs hc
theorem inv_joinSet_exit {s s' : State} (h : Inv s) (hc : s.rpc = .joinMid .exit)
    (hs : step s .joinSet = some s') : Inv s' := by
  obtain ⟨⟩ := h; inv_ctx_tac hs hc
theorem inv_joinSet_release {s s' : State} (h : Inv s) (hc : s.rpc = .joinMid .release)
    (hs : step s .joinSet = some s') : Inv s' := by
  obtain ⟨⟩ := h; inv_ctx_tac hs hc
theorem inv_joinSet {s s' : State} (h : Inv s) (hs : step s .joinSet = some s') : Inv s' := by
  cases hc : s.rpc with
  | joinMid c =>
    cases c
    · exact inv_joinSet_plain h hc hs
    · exact inv_joinSet_exit h hc hs
    · exact inv_joinSet_release h hc hs
  | _ => simp [step, hc] at hs
theorem inv_isRunning {s s' : State} (h : Inv s) (hs : step s .isRunning = some s') : Inv s' := by
  obtain ⟨⟩ := h; inv_tac hs
theorem inv_setSettings {s s' : State} (v : Nat) (h : Inv s) (hs : step s (.setSettings v) = some s') : Inv s' := by
  obtain ⟨⟩ := h; inv_tac hs
theorem inv_getSettings {s s' : State} (h : Inv s) (hs : step s .getSettings = some s') : Inv s' := by
  obtain ⟨⟩ := h; inv_tac hs
theorem inv_getPending {s s' : State} (h : Inv s) (hs : step s .getPending = some s') : Inv s' := by
  obtain ⟨⟩ := h; inv_tac hs

theorem join_enabled {s s' : State} (hj : step s .join = some s') : s.phase = .up ∧ s.pc = .ended := by
  cases hc : s.joinCtx with
  | none => simp [step, hc] at hj
  | some c =>
    refine ⟨(joinCtx_some hc).1, ?_⟩
    simp only [step, hc] at hj
    split at hj
    · assumption
    · contradiction

theorem joinSet_enabled {s s' : State} (hj : step s .joinSet = some s') :
    s.phase = .up ∧ ∃ c, s.rpc = .joinMid c := by
  simp only [step] at hj
  split at hj
  · rename_i c hc
    split at hj
    · rename_i hup; exact ⟨hup, c, hc⟩
    · contradiction
  · contradiction

theorem stop_enabled {s s' : State} (hj : step s .stopRegion = some s') : s.phase = .up := by
  cases hc : s.stopCtx with
  | none => simp [step, hc] at hj
  | some c => exact (stopCtx_some hc).1

/-- `Inv` is inductive: preserved by every enabled action of every actor -/
theorem inv_step {s s' : State} {a : Act} (h : Inv s) (hs : step s a = some s') : Inv s' := by
  cases a with
  | initOk => exact inv_initOk h hs
  | initFail => exact inv_initFail h hs
  | wake => exact inv_wake h hs
  | runEnter => exact inv_runEnter h hs
  | updCheck => exact inv_updCheck h hs
  | updPop => exact inv_updPop h hs
  | updPub => exact inv_updPub h hs
  | setStatus v => exact inv_setStatus v h hs
  | getStatus => exact inv_getStatus h hs
  | exitBegin => exact inv_exitBegin h hs
  | releaseBegin => exact inv_releaseBegin h hs
  | extStopRegion => exact inv_extStopRegion h hs
  | extStopSet => exact inv_extStopSet h hs
  | runEnd o => exact inv_runEnd o h hs
  | mark => exact inv_mark h hs
  | threadEnd => exact inv_threadEnd h hs
  | ctorWait => exact inv_ctorWait h hs
  | ctorGet => exact inv_ctorGet h hs
  | startCheck => exact inv_startCheck h hs
  | startKick => exact inv_startKick h hs
  | stopRegion => exact inv_stopRegion h hs
  | stopSet => exact inv_stopSet h hs
  | join => exact inv_join h hs
  | joinSet => exact inv_joinSet h hs
  | isRunning => exact inv_isRunning h hs
  | setSettings v => exact inv_setSettings v h hs
  | getSettings => exact inv_getSettings h hs
  | getPending => exact inv_getPending h hs

/-! ### histories -/

theorem exec_cons {s : State} {a : Act} {tr : List Act} {s' : State} :
    exec s (a :: tr) = some s' ↔ ∃ s1, step s a = some s1 ∧ exec s1 tr = some s' := by
  simp only [exec]
  cases h : step s a with
  | none => simp
  | some s1 => simp

theorem exec_append {s : State} {t1 t2 : List Act} {s' : State} :
    exec s (t1 ++ t2) = some s' ↔ ∃ s1, exec s t1 = some s1 ∧ exec s1 t2 = some s' := by
  induction t1 generalizing s with
  | nil => simp [exec]
  | cons a t ih =>
    simp only [List.cons_append, exec_cons, ih]
    constructor
    · rintro ⟨s1, h1, s2, h2, h3⟩; exact ⟨s2, ⟨s1, h1, h2⟩, h3⟩
    · rintro ⟨s2, ⟨s1, h1, h2⟩, h3⟩; exact ⟨s1, h1, s2, h2, h3⟩

theorem inv_exec {tr : List Act} {s s' : State} (h : Inv s) (he : exec s tr = some s') : Inv s' := by
  induction tr generalizing s with
  | nil => simp only [exec, Option.some.injEq] at he; exact he ▸ h
  | cons a t ih =>
    obtain ⟨s1, h1, h2⟩ := exec_cons.1 he
    exact ih (inv_step h h1) h2

theorem inv_reachable {s : State} (h : Reachable s) : Inv s := by
  obtain ⟨v0, tr, he⟩ := h
  exact inv_exec (inv_initS v0) he

theorem reachable_step {s s' : State} {a : Act} (h : Reachable s) (hs : step s a = some s') : Reachable s' := by
  obtain ⟨v0, tr, he⟩ := h
  exact ⟨v0, tr ++ [a], exec_append.2 ⟨s, he, by simp [exec, hs]⟩⟩

theorem reachable_exec {s s' : State} {tr : List Act} (h : Reachable s) (he : exec s tr = some s') : Reachable s' := by
  obtain ⟨v0, t0, h0⟩ := h
  exact ⟨v0, t0 ++ tr, exec_append.2 ⟨s, h0, he⟩⟩

/-! ### frame lemmas: what one action does to a ghost field -/

syntax "frame_tac " ident : tactic
macro_rules
  | `(tactic| frame_tac $hs) => `(tactic| (
      simp only [step, State.free, State.stopCtx, State.joinCtx, Bool.and_eq_true, beq_iff_eq] at $hs:ident
      (repeat' split at $hs:ident) <;>
        first
        | contradiction
        | (simp only [Option.some.injEq] at $hs:ident; subst $hs:ident; simp_all)))

/-- the ghost counter counts `runEnter` actions -/
theorem step_runs {s s' : State} {a : Act} (hs : step s a = some s') :
    s'.runs = s.runs + (if a = .runEnter then 1 else 0) := by
  cases a <;> frame_tac hs

/-- `started` is set by a `start_task` region that found READY_TO_RUN, and by nothing else; never cleared -/
theorem step_started {s s' : State} {a : Act} (hs : step s a = some s') :
    s'.started = (s.started || (a == .startKick && s.st == .ready)) := by
  cases a <;> frame_tac hs

/-- `stopFirst` is set by a `stop_task` region (on the RPC worker or outside it) that found INITIAL / READY_TO_RUN,
and by nothing else; never cleared -/
theorem step_stopFirst {s s' : State} {a : Act} (hs : step s a = some s') :
    s'.stopFirst = (s.stopFirst || ((a == .stopRegion || a == .extStopRegion) && (s.st == .ready || s.st == .initial))) := by
  cases a <;> frame_tac hs

/-- posting history: `lastPosted` is the argument of the latest `setSettings` -/
theorem step_lastPosted {s s' : State} {a : Act} (hs : step s a = some s') :
    s'.lastPosted = (match a with | .setSettings v => some v | _ => s.lastPosted) := by
  cases a <;> frame_tac hs

/-- `posted` is raised by `setSettings`, lowered by a `pop`, untouched by everything else
(a `pop` from an empty slot cannot happen, see `Inv.inUpd_slot`; there `posted` is already false) -/
theorem step_posted {s s' : State} {a : Act} (h : Inv s) (hs : step s a = some s') :
    s'.posted = (match a with | .setSettings _ => true | .updPop => false | _ => s.posted) := by
  have h1 := h.posted_iff
  have h2 := h.inUpd_slot
  cases a <;> frame_tac hs

/-- the task's `settings` change only in a `pop`, to the popped value -/
theorem step_settings {s s' : State} {a : Act} (hs : step s a = some s') :
    s'.settings = (match a with | .updPop => (match s.slot with | some v => some v | none => s.settings) | _ => s.settings) := by
  cases a <;> frame_tac hs

/-- `_joined` is set by a `join` that found one of the three final states, and is never cleared -/
theorem step_joined {s s' : State} {a : Act} (hs : step s a = some s') :
    s'.joined = (s.joined || (a == .joinSet && (s.st == .completed || s.st == .stopped || s.st == .excRun))) := by
  cases a <;> frame_tac hs

/-- a removed runner stays removed -/
theorem step_removed {s s' : State} {a : Act} (hs : step s a = some s') (h : s.phase = .removed) :
    s'.phase = .removed := by
  cases a <;> frame_tac hs

/-- `task.status` changes only when the task body writes it -/
theorem step_status {s s' : State} {a : Act} (hs : step s a = some s') :
    s'.status = (match a with | .setStatus v => some v | _ => s.status) := by
  cases a <;> frame_tac hs

/-! ### ghost fields as functions of the history alone -/

/-- the value the task body wrote to `self.status` last, read off the history -/
def lastStatusFrom (o : Option Nat) : List Act → Option Nat
  | [] => o
  | .setStatus v :: t => lastStatusFrom (some v) t
  | _ :: t => lastStatusFrom o t

def lastStatus (tr : List Act) : Option Nat := lastStatusFrom none tr

/-- "a value was posted since the previous successful update", read off the history -/
def postedSinceFrom (b : Bool) : List Act → Bool
  | [] => b
  | .setSettings _ :: t => postedSinceFrom true t
  | .updPop :: t => postedSinceFrom false t
  | _ :: t => postedSinceFrom b t

/-- the most recently posted value, read off the history -/
def lastPostFrom (o : Option Nat) : List Act → Option Nat
  | [] => o
  | .setSettings v :: t => lastPostFrom (some v) t
  | _ :: t => lastPostFrom o t

def postedSince (tr : List Act) : Bool := postedSinceFrom false tr
def lastPost (tr : List Act) : Option Nat := lastPostFrom none tr

theorem exec_runs {tr : List Act} {s s' : State} (he : exec s tr = some s') :
    s'.runs = s.runs + tr.count .runEnter := by
  induction tr generalizing s with
  | nil => simp only [exec, Option.some.injEq] at he; simp [he]
  | cons a t ih =>
    obtain ⟨s1, h1, h2⟩ := exec_cons.1 he
    rw [ih h2, step_runs h1, List.count_cons]
    by_cases ha : a = .runEnter <;> simp [ha] <;> omega

theorem exec_started_mono {tr : List Act} {s s' : State} (he : exec s tr = some s') (h : s.started = true) :
    s'.started = true := by
  induction tr generalizing s with
  | nil => simp only [exec, Option.some.injEq] at he; exact he ▸ h
  | cons a t ih =>
    obtain ⟨s1, h1, h2⟩ := exec_cons.1 he
    exact ih h2 (by rw [step_started h1, h]; rfl)

theorem exec_stopFirst_mono {tr : List Act} {s s' : State} (he : exec s tr = some s') (h : s.stopFirst = true) :
    s'.stopFirst = true := by
  induction tr generalizing s with
  | nil => simp only [exec, Option.some.injEq] at he; exact he ▸ h
  | cons a t ih =>
    obtain ⟨s1, h1, h2⟩ := exec_cons.1 he
    exact ih h2 (by rw [step_stopFirst h1, h]; rfl)

theorem exec_posted {tr : List Act} {s s' : State} (h : Inv s) (he : exec s tr = some s') :
    s'.posted = postedSinceFrom s.posted tr := by
  induction tr generalizing s with
  | nil => simp only [exec, Option.some.injEq] at he; simp [he, postedSinceFrom]
  | cons a t ih =>
    obtain ⟨s1, h1, h2⟩ := exec_cons.1 he
    rw [ih (inv_step h h1) h2, step_posted h h1]
    cases a <;> simp [postedSinceFrom]

theorem exec_lastPosted {tr : List Act} {s s' : State} (he : exec s tr = some s') :
    s'.lastPosted = lastPostFrom s.lastPosted tr := by
  induction tr generalizing s with
  | nil => simp only [exec, Option.some.injEq] at he; simp [he, lastPostFrom]
  | cons a t ih =>
    obtain ⟨s1, h1, h2⟩ := exec_cons.1 he
    rw [ih h2, step_lastPosted h1]
    cases a <;> simp [lastPostFrom]

theorem exec_status {tr : List Act} {s s' : State} (he : exec s tr = some s') :
    s'.status = lastStatusFrom s.status tr := by
  induction tr generalizing s with
  | nil => simp only [exec, Option.some.injEq] at he; simp [he, lastStatusFrom]
  | cons a t ih =>
    obtain ⟨s1, h1, h2⟩ := exec_cons.1 he
    rw [ih h2, step_status h1]
    cases a <;> simp [lastStatusFrom]

/-- from a joined state on, the state stays joined and `run()` is not invoked again -/
theorem exec_no_run_after_joined {tr : List Act} {s s' : State} (hr : Reachable s) (hj : s.joined = true)
    (he : exec s tr = some s') : s'.joined = true ∧ tr.count .runEnter = 0 := by
  induction tr generalizing s with
  | nil => simp only [exec, Option.some.injEq] at he; subst he; exact ⟨hj, rfl⟩
  | cons a t ih =>
    obtain ⟨s1, h1, h2⟩ := exec_cons.1 he
    have hpc := (inv_reachable hr).joined_ended hj
    have hne : a ≠ .runEnter := by
      intro ha; subst ha; simp [step, hpc] at h1
    have hj1 : s1.joined = true := by rw [step_joined h1, hj]; rfl
    obtain ⟨h3, h4⟩ := ih (reachable_step hr h1) hj1 h2
    refine ⟨h3, ?_⟩
    rw [List.count_cons]
    simp [hne, h4]

theorem exec_removed_stable {tr : List Act} {s s' : State} (he : exec s tr = some s') (h : s.phase = .removed) :
    s'.phase = .removed := by
  induction tr generalizing s with
  | nil => simp only [exec, Option.some.injEq] at he; exact he ▸ h
  | cons a t ih =>
    obtain ⟨s1, h1, h2⟩ := exec_cons.1 he
    exact ih h2 (step_removed h1 h)

/-- if `started` holds after a history it was raised by a `startKick` taken in READY_TO_RUN somewhere in it -/
theorem started_witness {tr : List Act} {s s' : State} (he : exec s tr = some s') (h0 : s.started = false)
    (h1 : s'.started = true) :
    ∃ p1 p2 s1, tr = p1 ++ .startKick :: p2 ∧ exec s p1 = some s1 ∧ s1.st = .ready ∧ s1.started = false := by
  induction tr generalizing s with
  | nil =>
    simp only [exec, Option.some.injEq] at he
    rw [he] at h0; rw [h0] at h1; contradiction
  | cons a t ih =>
    obtain ⟨s1, hs1, h2⟩ := exec_cons.1 he
    by_cases hst : s1.started = true
    · -- raised by this very action
      have := step_started hs1
      rw [hst, h0] at this
      simp only [Bool.false_or, Bool.true_eq, Bool.and_eq_true, beq_iff_eq] at this
      exact ⟨[], t, s, by simp [this.1], by simp [exec], this.2, h0⟩
    · have hst' : s1.started = false := by simpa using hst
      obtain ⟨p1, p2, s2, e1, e2, e3, e4⟩ := ih h2 hst'
      exact ⟨a :: p1, p2, s2, by simp [e1], exec_cons.2 ⟨s1, hs1, e2⟩, e3, e4⟩

end QmiModel.Task
