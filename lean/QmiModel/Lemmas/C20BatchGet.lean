import QmiModel.Lemmas.C20Batch
/-! Lemmas about `get_par_multiple` and the one-at-a-time read fold. Core Lean only. -/
namespace QmiModel.Adbasic

theorem SameRegs.refl (a : Dev) : SameRegs a a := ⟨rfl, rfl, rfl⟩
theorem SameRegs.trans {a b c : Dev} (h1 : SameRegs a b) (h2 : SameRegs b c) : SameRegs a c :=
  ⟨h1.par.trans h2.par, h1.fpar.trans h2.fpar, h1.data.trans h2.data⟩
theorem SameRegs.readReg {a b : Dev} (h : SameRegs a b) (r : Desc) : a.readReg r = b.readReg r := by
  cases r <;> simp [Dev.readReg, h.par, h.fpar, h.data]

def Desc.isElem : Desc → Bool
  | .elem _ _ => true
  | _ => false

/-! ### the read fold -/

theorem getPar_bound (b : Dict Str Desc) (dv : Dev) (n : Str) (r : Desc) (h : lookupCI b n = some r) :
    ∃ dv', getPar b dv n = ⟨dv', .ok (dv.readReg r)⟩ ∧ SameRegs dv' dv := by
  cases r with
  | par i => exact ⟨{ dv with log := .getPar i :: dv.log }, by simp [getPar, h, Dev.doGetPar, Dev.readReg], ⟨rfl, rfl, rfl⟩⟩
  | fpar i => exact ⟨{ dv with log := .getFPar i :: dv.log }, by simp [getPar, h, Dev.doGetFPar, Dev.readReg], ⟨rfl, rfl, rfl⟩⟩
  | elem d e =>
    refine ⟨{ dv with log := .getData d e 1 :: dv.log }, ?_, ⟨rfl, rfl, rfl⟩⟩
    simp [getPar, h, Dev.doGetData, Dev.readReg, List.range_succ]

theorem getFold_spec (b : Dict Str Desc) (names : List Str) (dv : Dev) (res : Dict Str Val)
    (hb : ∀ n ∈ names, (lookupCI b n).isSome) :
    ∃ dv' res', getFold b names dv res = ⟨dv', .ok res'⟩ ∧ SameRegs dv' dv ∧
      ∀ k, dictGet res' k = if k ∈ names then (lookupCI b k).map dv.readReg else dictGet res k := by
  induction names generalizing dv res with
  | nil => exact ⟨dv, res, rfl, SameRegs.refl _, by simp⟩
  | cons n ns ih =>
    have hn := hb n (List.mem_cons_self)
    cases hl : lookupCI b n with
    | none => rw [hl] at hn; simp at hn
    | some r =>
      obtain ⟨dv1, g1, g2⟩ := getPar_bound b dv n r hl
      obtain ⟨dv', res', i1, i2, i3⟩ := ih dv1 (dictSet res n (dv.readReg r)) (fun m hm => hb m (List.mem_cons_of_mem _ hm))
      refine ⟨dv', res', by simp [getFold, g1, i1], i2.trans g2, ?_⟩
      intro k
      rw [i3 k]
      by_cases hk : k ∈ ns
      · have : k ∈ n :: ns := List.mem_cons_of_mem _ hk
        simp only [hk, this, if_true]
        cases lookupCI b k with
        | none => rfl
        | some r' => simp [g2.readReg]
      · simp only [hk, if_false, dictGet_dictSet]
        by_cases hkn : n = k
        · subst hkn
          simp [hl]
        · have : k ∉ n :: ns := by
            intro hm
            rcases List.mem_cons.1 hm with h | h
            · exact hkn h.symm
            · exact hk h
          simp [hkn, this]

theorem getFold_unbound (b : Dict Str Desc) (names : List Str) (dv : Dev) (res : Dict Str Val)
    (hu : ∃ n ∈ names, lookupCI b n = none) :
    ∃ dv', getFold b names dv res = ⟨dv', .error .valueError⟩ ∧ SameRegs dv' dv := by
  induction names generalizing dv res with
  | nil => obtain ⟨n, hn, _⟩ := hu; simp at hn
  | cons n ns ih =>
    cases hl : lookupCI b n with
    | none => exact ⟨dv, by simp [getFold, getPar, hl], SameRegs.refl _⟩
    | some r =>
      obtain ⟨dv1, g1, g2⟩ := getPar_bound b dv n r hl
      have hu' : ∃ m ∈ ns, lookupCI b m = none := by
        obtain ⟨m, hm, hm2⟩ := hu
        rcases List.mem_cons.1 hm with rfl | hm
        · rw [hl] at hm2; simp at hm2
        · exact ⟨m, hm, hm2⟩
      obtain ⟨dv', i1, i2⟩ := ih dv1 (dictSet res n (dv.readReg r)) hu'
      exact ⟨dv', by simp [getFold, g1, i1], i2.trans g2⟩

/-! ### phase 1 of `get_par_multiple` -/

theorem getPhase1_spec (b : Dict Str Desc) (names : List Str) (st : GState)
    (hb : ∀ n ∈ names, (lookupCI b n).isSome) :
    ∃ st', getPhase1 b names st = .ok st' ∧ SameRegs st'.dev st.dev ∧
      (∀ k, dictGet st'.result k =
        if k ∈ names ∧ (∃ r, lookupCI b k = some r ∧ r.isElem = false) then (lookupCI b k).map st.dev.readReg
        else dictGet st.result k) ∧
      (∀ d e n, pendGet st'.pdata d e = some n →
        (n ∈ names ∧ lookupCI b n = some (.elem d e)) ∨ pendGet st.pdata d e = some n) ∧
      (∀ d e, (∃ n ∈ names, lookupCI b n = some (.elem d e)) → (pendGet st'.pdata d e).isSome) ∧
      (∀ d e, (pendGet st.pdata d e).isSome → (pendGet st'.pdata d e).isSome) := by
  induction names generalizing st with
  | nil =>
    refine ⟨st, rfl, SameRegs.refl _, by simp, fun d e n h => Or.inr h, ?_, fun d e h => h⟩
    intro d e ⟨n, hn, _⟩; simp at hn
  | cons n ns ih =>
    have hn := hb n (List.mem_cons_self)
    have hb' : ∀ m ∈ ns, (lookupCI b m).isSome := fun m hm => hb m (List.mem_cons_of_mem _ hm)
    cases hl : lookupCI b n with
    | none => rw [hl] at hn; simp at hn
    | some r =>
      -- the scalar and the element case share the bookkeeping below
      have scalar : ∀ (dv1 : Dev) (v : Val), r.isElem = false → SameRegs dv1 st.dev → v = st.dev.readReg r →
          getPhase1 b (n :: ns) st = getPhase1 b ns { st with dev := dv1, result := dictSet st.result n v } →
          ∃ st', getPhase1 b (n :: ns) st = .ok st' ∧ SameRegs st'.dev st.dev ∧
            (∀ k, dictGet st'.result k =
              if k ∈ n :: ns ∧ (∃ r, lookupCI b k = some r ∧ r.isElem = false) then (lookupCI b k).map st.dev.readReg
              else dictGet st.result k) ∧
            (∀ d e m, pendGet st'.pdata d e = some m →
              (m ∈ n :: ns ∧ lookupCI b m = some (.elem d e)) ∨ pendGet st.pdata d e = some m) ∧
            (∀ d e, (∃ m ∈ n :: ns, lookupCI b m = some (.elem d e)) → (pendGet st'.pdata d e).isSome) ∧
            (∀ d e, (pendGet st.pdata d e).isSome → (pendGet st'.pdata d e).isSome) := by
        intro dv1 v hre hsame hv hstep
        obtain ⟨st', i1, i2, i3, i4, i5, i6⟩ := ih { st with dev := dv1, result := dictSet st.result n v } hb'
        refine ⟨st', by rw [hstep, i1], i2.trans hsame, ?_, ?_, ?_, i6⟩
        · intro k
          rw [i3 k]
          simp only
          by_cases hk : k ∈ ns ∧ (∃ r, lookupCI b k = some r ∧ r.isElem = false)
          · have : k ∈ n :: ns ∧ (∃ r, lookupCI b k = some r ∧ r.isElem = false) :=
              ⟨List.mem_cons_of_mem _ hk.1, hk.2⟩
            rw [if_pos hk, if_pos this]
            cases lookupCI b k with
            | none => rfl
            | some r' => simp [hsame.readReg]
          · rw [if_neg hk, dictGet_dictSet]
            by_cases hkn : n = k
            · subst hkn
              have : n ∈ n :: ns ∧ (∃ r, lookupCI b n = some r ∧ r.isElem = false) :=
                ⟨List.mem_cons_self, r, hl, hre⟩
              rw [if_pos rfl, if_pos this, hl, hv]
              rfl
            · rw [if_neg hkn]
              have : ¬ (k ∈ n :: ns ∧ (∃ r, lookupCI b k = some r ∧ r.isElem = false)) := by
                intro ⟨h1, h2⟩
                rcases List.mem_cons.1 h1 with h | h
                · exact hkn h.symm
                · exact hk ⟨h, h2⟩
              rw [if_neg this]
        · intro d e m hm
          rcases i4 d e m hm with ⟨h1, h2⟩ | h
          · exact Or.inl ⟨List.mem_cons_of_mem _ h1, h2⟩
          · exact Or.inr h
        · intro d e ⟨m, hm, hm2⟩
          rcases List.mem_cons.1 hm with rfl | hm
          · rw [hl] at hm2
            injection hm2 with hm2
            subst hm2
            simp [Desc.isElem] at hre
          · exact i5 d e ⟨m, hm, hm2⟩
      cases r with
      | par i =>
        exact scalar { st.dev with log := .getPar i :: st.dev.log } (st.dev.par i) rfl ⟨rfl, rfl, rfl⟩ rfl
          (by simp [getPhase1, hl, Dev.doGetPar])
      | fpar i =>
        exact scalar { st.dev with log := .getFPar i :: st.dev.log } (st.dev.fpar i) rfl ⟨rfl, rfl, rfl⟩ rfl
          (by simp [getPhase1, hl, Dev.doGetFPar])
      | elem d0 e0 =>
        have hstep : getPhase1 b (n :: ns) st = getPhase1 b ns { st with pdata := pdataSet st.pdata d0 e0 n } := by
          simp [getPhase1, hl]
        obtain ⟨st', i1, i2, i3, i4, i5, i6⟩ := ih { st with pdata := pdataSet st.pdata d0 e0 n } hb'
        refine ⟨st', by rw [hstep, i1], i2, ?_, ?_, ?_, ?_⟩
        · intro k
          rw [i3 k]
          simp only
          by_cases hk : k ∈ ns ∧ (∃ r, lookupCI b k = some r ∧ r.isElem = false)
          · have : k ∈ n :: ns ∧ (∃ r, lookupCI b k = some r ∧ r.isElem = false) :=
              ⟨List.mem_cons_of_mem _ hk.1, hk.2⟩
            rw [if_pos hk, if_pos this]
          · rw [if_neg hk]
            have : ¬ (k ∈ n :: ns ∧ (∃ r, lookupCI b k = some r ∧ r.isElem = false)) := by
              intro ⟨h1, r', h2, h3⟩
              rcases List.mem_cons.1 h1 with h | h
              · subst h
                rw [hl] at h2
                injection h2 with h2
                subst h2
                simp [Desc.isElem] at h3
              · exact hk ⟨h, r', h2, h3⟩
            rw [if_neg this]
        · intro d e m hm
          rcases i4 d e m hm with ⟨h1, h2⟩ | h
          · exact Or.inl ⟨List.mem_cons_of_mem _ h1, h2⟩
          · simp only [pendGet_pdataSet] at h
            by_cases hde : d0 = d ∧ e0 = e
            · obtain ⟨rfl, rfl⟩ := hde
              simp only [and_self, if_true] at h
              injection h with h
              subst h
              exact Or.inl ⟨List.mem_cons_self, hl⟩
            · rw [if_neg hde] at h
              exact Or.inr h
        · intro d e ⟨m, hm, hm2⟩
          rcases List.mem_cons.1 hm with rfl | hm
          · rw [hl] at hm2
            injection hm2 with hm2
            injection hm2 with h1 h2
            subst h1; subst h2
            apply i6
            simp [pendGet_pdataSet]
          · exact i5 d e ⟨m, hm, hm2⟩
        · intro d e h
          apply i6
          simp only [pendGet_pdataSet]
          by_cases hde : d0 = d ∧ e0 = e
          · simp [hde]
          · simp [hde, h]

theorem getPhase1_unbound (b : Dict Str Desc) (names : List Str) (st : GState)
    (hu : ∃ n ∈ names, lookupCI b n = none) :
    ∃ dv', getPhase1 b names st = .error (dv', .valueError) ∧ SameRegs dv' st.dev := by
  induction names generalizing st with
  | nil => obtain ⟨n, hn, _⟩ := hu; simp at hn
  | cons n ns ih =>
    cases hl : lookupCI b n with
    | none => exact ⟨st.dev, by simp [getPhase1, hl], SameRegs.refl _⟩
    | some r =>
      have hu' : ∃ m ∈ ns, lookupCI b m = none := by
        obtain ⟨m, hm, hm2⟩ := hu
        rcases List.mem_cons.1 hm with rfl | hm
        · rw [hl] at hm2; simp at hm2
        · exact ⟨m, hm, hm2⟩
      cases r with
      | par i =>
        obtain ⟨dv', i1, i2⟩ := ih { st with dev := { st.dev with log := .getPar i :: st.dev.log }, result := dictSet st.result n (st.dev.par i) } hu'
        exact ⟨dv', by simpa [getPhase1, hl, Dev.doGetPar] using i1, i2.trans ⟨rfl, rfl, rfl⟩⟩
      | fpar i =>
        obtain ⟨dv', i1, i2⟩ := ih { st with dev := { st.dev with log := .getFPar i :: st.dev.log }, result := dictSet st.result n (st.dev.fpar i) } hu'
        exact ⟨dv', by simpa [getPhase1, hl, Dev.doGetFPar] using i1, i2.trans ⟨rfl, rfl, rfl⟩⟩
      | elem d e =>
        obtain ⟨dv', i1, i2⟩ := ih { st with pdata := pdataSet st.pdata d e n } hu'
        exact ⟨dv', by simpa [getPhase1, hl] using i1, i2⟩

/-! ### phase 2 of `get_par_multiple` -/

theorem storeValues_spec (elems : Dict Nat Str) (s : Nat) (vals : List Val) (k0 : Nat) (res : Dict Str Val)
    (hk : ∀ j, j < vals.length → (dictGet elems (s + k0 + j)).isSome)
    (hinj : ∀ e e' k, dictGet elems e = some k → dictGet elems e' = some k → e = e') :
    ∃ res', storeValues elems s k0 vals res = .ok res' ∧
      (∀ j, j < vals.length → ∀ k dflt, dictGet elems (s + k0 + j) = some k → dictGet res' k = some (vals.getD j dflt)) ∧
      (∀ k, (∀ j, j < vals.length → dictGet elems (s + k0 + j) ≠ some k) → dictGet res' k = dictGet res k) := by
  induction vals generalizing k0 res with
  | nil => exact ⟨res, rfl, fun j hj => absurd hj (by simp), fun k _ => rfl⟩
  | cons v vs ih =>
    have h0 := hk 0 (by simp)
    cases hname : dictGet elems (s + k0) with
    | none => rw [Nat.add_zero, hname] at h0; simp at h0
    | some name =>
      have hk' : ∀ j, j < vs.length → (dictGet elems (s + (k0 + 1) + j)).isSome := by
        intro j hj
        have := hk (j + 1) (by simp; omega)
        have e : s + k0 + (j + 1) = s + (k0 + 1) + j := by omega
        rw [e] at this; exact this
      obtain ⟨res', i1, i2, i3⟩ := ih (k0 + 1) (dictSet res name v) hk'
      refine ⟨res', by simp [storeValues, hname, i1], ?_, ?_⟩
      · intro j hj k dflt hjk
        cases j with
        | zero =>
          rw [Nat.add_zero, hname] at hjk
          injection hjk with hjk
          subst hjk
          have : ∀ j, j < vs.length → dictGet elems (s + (k0 + 1) + j) ≠ some name := by
            intro j _ hc
            have := hinj _ _ _ hc hname
            omega
          rw [i3 name this, dictGet_dictSet_self]
          rfl
        | succ j =>
          have e : s + k0 + (j + 1) = s + (k0 + 1) + j := by omega
          rw [e] at hjk
          have := i2 j (by simp at hj; omega) k dflt hjk
          simpa using this
      · intro k hnk
        have hne : name ≠ k := by
          intro h; subst h
          exact hnk 0 (by simp) (by rw [Nat.add_zero]; exact hname)
        have : ∀ j, j < vs.length → dictGet elems (s + (k0 + 1) + j) ≠ some k := by
          intro j hj
          have := hnk (j + 1) (by simp; omega)
          have e : s + k0 + (j + 1) = s + (k0 + 1) + j := by omega
          rw [e] at this; exact this
        rw [i3 k this, dictGet_dictSet_ne _ _ hne]

theorem getRanges_spec (d : Nat) (elems : Dict Nat Str) (rs : List (Nat × Nat)) (dv : Dev) (res : Dict Str Val)
    (hrs : ∀ r ∈ rs, r.1 ≤ r.2 ∧ ∀ i, r.1 ≤ i → i ≤ r.2 → (dictGet elems i).isSome)
    (hinj : ∀ e e' k, dictGet elems e = some k → dictGet elems e' = some k → e = e') :
    ∃ dv' res', getRanges d elems rs dv res = .ok (dv', res') ∧ SameRegs dv' dv ∧
      (∀ e k, covered rs e → dictGet elems e = some k → dictGet res' k = some (dv.data d e)) ∧
      (∀ k, (∀ e, covered rs e → dictGet elems e ≠ some k) → dictGet res' k = dictGet res k) := by
  induction rs generalizing dv res with
  | nil =>
    refine ⟨dv, res, rfl, SameRegs.refl _, ?_, fun k _ => rfl⟩
    intro e k ⟨r, hr, _⟩; simp at hr
  | cons r rs ih =>
    obtain ⟨s, e0⟩ := r
    have hr := hrs (s, e0) (List.mem_cons_self)
    simp only at hr
    have hlen : ((List.range (e0 + 1 - s)).map (fun k => dv.data d (s + k))).length = e0 + 1 - s := by simp
    obtain ⟨res1, s1, s2, s3⟩ := storeValues_spec elems s ((List.range (e0 + 1 - s)).map (fun k => dv.data d (s + k))) 0 res
      (by intro j hj; rw [hlen] at hj; exact hr.2 _ (by omega) (by omega)) hinj
    obtain ⟨dv', res', i1, i2, i3, i4⟩ := ih { dv with log := .getData d s (e0 + 1 - s) :: dv.log } res1
      (fun r hr' => hrs r (List.mem_cons_of_mem _ hr'))
    refine ⟨dv', res', by simp [getRanges, Dev.doGetData, s1, i1], i2.trans ⟨rfl, rfl, rfl⟩, ?_, ?_⟩
    · intro e k hc hek
      by_cases hcr : covered rs e
      · exact i3 e k hcr hek
      · obtain ⟨r, hr', hr1, hr2⟩ := hc
        rcases List.mem_cons.1 hr' with rfl | hr'
        · simp only at hr1 hr2
          have hnot : ∀ e', covered rs e' → dictGet elems e' ≠ some k := by
            intro e' hc' hc2
            have := hinj _ _ _ hc2 hek
            subst this
            exact hcr hc'
          rw [i4 k hnot]
          have := s2 (e - s) (by rw [hlen]; omega) k (dv.data d e) (by
            have : s + 0 + (e - s) = e := by omega
            rw [this]; exact hek)
          rw [this]
          have hlt : e - s < e0 + 1 - s := by omega
          simp [List.getD, hlt]
          congr 1
          omega
        · exact absurd ⟨r, hr', hr1, hr2⟩ hcr
    · intro k hnk
      have h1 : ∀ e, covered rs e → dictGet elems e ≠ some k := by
        intro e ⟨r, hr', h2⟩
        exact hnk e ⟨r, List.mem_cons_of_mem _ hr', h2⟩
      rw [i4 k h1]
      apply s3
      intro j hj
      rw [hlen] at hj
      have : s + 0 + j = s + j := by omega
      rw [this]
      exact hnk (s + j) ⟨(s, e0), List.mem_cons_self, by simp, by simp; omega⟩

theorem getArrays_spec (pd : Dict Nat (Dict Nat Str)) (ds : List Nat) (dv : Dev) (res : Dict Str Val)
    (hds : ∀ d ∈ ds, (dictGet pd d).isSome)
    (hinj : ∀ d e d' e' k, pendGet pd d e = some k → pendGet pd d' e' = some k → d = d' ∧ e = e') :
    ∃ dv' res', getArrays pd ds dv res = .ok (dv', res') ∧ SameRegs dv' dv ∧
      (∀ d e k, d ∈ ds → pendGet pd d e = some k → dictGet res' k = some (dv.data d e)) ∧
      (∀ k, (∀ d e, d ∈ ds → pendGet pd d e ≠ some k) → dictGet res' k = dictGet res k) := by
  induction ds generalizing dv res with
  | nil =>
    refine ⟨dv, res, rfl, SameRegs.refl _, ?_, fun k _ => rfl⟩
    intro d e k hd; simp at hd
  | cons d0 ds ih =>
    have h0 := hds d0 (List.mem_cons_self)
    cases hm : dictGet pd d0 with
    | none => rw [hm] at h0; simp at h0
    | some elems =>
      have pg : ∀ e, pendGet pd d0 e = dictGet elems e := by
        intro e; unfold pendGet; rw [hm]
      obtain ⟨fr1, fr2⟩ := findRanges_keys elems
      have hinj0 : ∀ e e' k, dictGet elems e = some k → dictGet elems e' = some k → e = e' := by
        intro e e' k h1 h2
        exact (hinj d0 e d0 e' k (by rw [pg]; exact h1) (by rw [pg]; exact h2)).2
      obtain ⟨dv1, res1, r1, r2, r3, r4⟩ := getRanges_spec d0 elems (findRanges (dictKeys elems)) dv res fr1 hinj0
      obtain ⟨dv', res', i1, i2, i3, i4⟩ := ih dv1 res1 (fun d hd => hds d (List.mem_cons_of_mem _ hd))
      refine ⟨dv', res', by simp [getArrays, hm, r1, i1], i2.trans r2, ?_, ?_⟩
      · intro d e k hd hp
        by_cases hin : d ∈ ds
        · rw [i3 d e k hin hp, r2.data]
        · rcases List.mem_cons.1 hd with rfl | hd
          · have hnot : ∀ d' e', d' ∈ ds → pendGet pd d' e' ≠ some k := by
              intro d' e' hd' hc
              have := (hinj _ _ _ _ _ hc hp).1
              subst this
              exact hin hd'
            rw [i4 k hnot]
            rw [pg] at hp
            exact r3 e k ((fr2 e).2 (by rw [hp]; rfl)) hp
          · exact absurd hd hin
      · intro k hnk
        have h1 : ∀ d e, d ∈ ds → pendGet pd d e ≠ some k := fun d e hd => hnk d e (List.mem_cons_of_mem _ hd)
        rw [i4 k h1]
        apply r4
        intro e _ hc
        exact hnk d0 e (List.mem_cons_self) (by rw [pg]; exact hc)

end QmiModel.Adbasic
