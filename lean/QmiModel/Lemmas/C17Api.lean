import QmiModel.Model.DataSetApi
import QmiModel.Lemmas.C17Layout
/-! every dataset built through the public constructor and setters is well formed -/
namespace QmiModel.C17.ApiL
open QmiModel.C17

theorem new_valid (shape : List Int) (d : DSApi) (h : DSApi.new shape = .ok d) : d.Valid := by
  unfold DSApi.new at h
  split at h
  · cases h
  · rename_i hlen
    split at h
    · cases h
    · rename_i hany
      injection h with h; subst h
      have hpos : ∀ n ∈ shape, (1 : Int) ≤ n := by
        intro n hn
        by_cases hh : n < 1
        · exact absurd (List.any_eq_true.2 ⟨n, hn, by simpa using hh⟩) hany
        · omega
      have hnat : ∀ m ∈ shape.map Int.toNat, 1 ≤ m := by
        intro m hm
        obtain ⟨n, hn, rfl⟩ := List.mem_map.1 hm
        have := hpos n hn; omega
      have hl : (shape.map Int.toNat).length = shape.length := List.length_map _
      refine ⟨?_, ?_, ?_, ?_, ?_⟩
      · intro he
        have := congrArg List.length he
        simp only [List.length_dropLast, List.length_map, List.length_nil] at this
        omega
      · intro n hn; exact hnat n ((List.dropLast_sublist _).subset hn)
      · cases hs : shape.map Int.toNat with
        | nil => rw [hs] at hl; simp at hl; omega
        | cons a as =>
          show 1 ≤ (a :: as).getLastD 0
          have hm : (a :: as).getLastD 0 ∈ a :: as := by
            rw [List.getLastD_eq_getLast?, List.getLast?_eq_some_getLast (by simp)]
            exact List.getLast_mem _
          exact hnat _ (by rw [hs]; exact hm)
      · simp only [List.length_replicate, List.length_dropLast]
      · intro ax n hx
        simp only [List.getElem?_replicate] at hx
        split at hx <;> cases hx

theorem setScale_valid (d d' : DSApi) (axis : Int) (len : Nat) (fin : Bool) (hv : d.Valid)
    (h : d.setScale axis len fin = .ok d') : d'.Valid := by
  unfold DSApi.setScale at h
  split at h
  · cases h
  · rename_i hax
    split at h
    · cases h
    · rename_i hlen
      split at h
      · cases h
      · injection h with h; subst h
        refine ⟨hv.dims_ne, hv.dims_pos, hv.ncol_pos, ?_, ?_⟩
        · simp only [List.length_set]; exact hv.scales_len
        · intro ax n hx
          simp only [List.getElem?_set] at hx
          split at hx
          · rename_i he
            split at hx
            · injection hx with hx; injection hx with hx
              subst he; subst hx
              simpa using hlen
            · cases hx
          · exact hv.scale_len ax n hx

/-- the dataset handed to the writers satisfies the hypothesis of the layout round-trip theorems -/
theorem valid_layout_wf {α : Type} (d : DSApi) (hv : d.Valid) (data : List α) (scales : List (Option (List α)))
    (hdata : data.length = prod d.dims * d.ncol)
    (hsc : scales.length = d.scales.length)
    (hlen : ∀ (ax : Nat) (s : List α), scales[ax]? = some (some s) → d.scales[ax]? = some (some s.length)) :
    LayoutL.WF ({ dims := d.dims, ncol := d.ncol, data := data, scales := scales } : Layout α) :=
  ⟨hv.dims_ne, hv.dims_pos, hv.ncol_pos, hdata, by rw [hsc]; exact hv.scales_len,
   fun ax s hs => hv.scale_len ax s.length (hlen ax s hs)⟩

end QmiModel.C17.ApiL
