import QmiModel.Model.Store
/-!
# C17 lemmas: DataFolder.write_dataset / DataStore.make_folder / DataStore.find_latest_folder
-/
namespace QmiModel.C17.StoreL
open QmiModel.C17

/-! ## Folder: get / put -/

theorem folder_get_put (fs : Folder) (p q : Str) (c : Nat) :
    (Folder.put fs p c).get q = if q = p then some c else fs.get q := by
  induction fs with
  | nil =>
    by_cases hq : q = p
    · simp [Folder.put, Folder.get, hq]
    · have : ¬ p = q := fun h => hq h.symm
      simp [Folder.put, Folder.get, hq, this]
  | cons e rest ih =>
    unfold Folder.get at ih ⊢
    unfold Folder.put
    by_cases hep : e.1 = p
    · by_cases hq : q = p
      · simp [hep, hq]
      · have : ¬ p = q := fun h => hq h.symm
        simp [hep, hq, this]
    · by_cases heq : e.1 = q
      · have : ¬ q = p := fun h => hep (heq.trans h)
        simp [heq, this]
      · simp only [hep, if_false, List.find?_cons, heq, decide_false]
        exact ih

/-! ## write_dataset -/

/-- the write raised before touching the file system -/
theorem writeDataset_of_target_none (fs : Folder) (op : WriteOp) (h : op.target = none) :
    ∃ e, writeDataset fs op = (fs, .error e) := by
  unfold WriteOp.target at h
  unfold writeDataset
  by_cases hm : matchPlus nameChar op.name = true
  · cases hf : op.fmt <;> simp_all
  · simp_all

/-- the write reached the file system with path `p` -/
theorem writeDataset_of_target_some (fs : Folder) (op : WriteOp) (p : Str) (h : op.target = some p) :
    writeDataset fs op =
      if !op.overwrite && (fs.get p).isSome then (fs, .error .fileExistsError)
      else if op.writerFails then (fs.put p 0, .error .valueError)
      else (fs.put p op.content, .ok ()) := by
  unfold WriteOp.target at h
  unfold writeDataset
  by_cases hm : matchPlus nameChar op.name = true
  · cases hf : op.fmt <;> simp_all
  · simp_all

/-- a write never touches any other file -/
theorem write_other_untouched (fs : Folder) (op : WriteOp) (q : Str) (hq : op.target ≠ some q) :
    (writeDataset fs op).1.get q = fs.get q := by
  cases ht : op.target with
  | none =>
    obtain ⟨e, he⟩ := writeDataset_of_target_none fs op ht
    rw [he]
  | some p =>
    have hne : ¬ q = p := by
      intro h; apply hq; rw [ht, h]
    rw [writeDataset_of_target_some fs op p ht]
    split
    · rfl
    · split
      · simp only [folder_get_put, hne, if_false]
      · simp only [folder_get_put, hne, if_false]

/-- one write either leaves an existing file's content alone or was an overwrite request for exactly that file -/
theorem write_no_silent_overwrite (fs : Folder) (op : WriteOp) (p : Str) (c : Nat) (h : fs.get p = some c) :
    (writeDataset fs op).1.get p = some c ∨ (op.overwrite = true ∧ op.target = some p) := by
  by_cases ht : op.target = some p
  · cases hov : op.overwrite with
    | true => exact Or.inr ⟨rfl, ht⟩
    | false =>
      left
      rw [writeDataset_of_target_some fs op p ht]
      simp [hov, h]
  · left
    rw [write_other_untouched fs op p ht]
    exact h

/-- over every history of writes: a file keeps its content unless some write asked to overwrite that very file -/
theorem no_silent_overwrite (fs : Folder) (ops : List WriteOp) (p : Str) (c : Nat) (h : fs.get p = some c)
    (hno : ∀ op ∈ ops, ¬ (op.overwrite = true ∧ op.target = some p)) :
    (runWrites fs ops).get p = some c := by
  induction ops generalizing fs with
  | nil => exact h
  | cons op rest ih =>
    unfold runWrites
    rw [List.foldl_cons]
    apply ih
    · rcases write_no_silent_overwrite fs op p c h with h1 | h1
      · exact h1
      · exact absurd h1 (hno op (List.mem_cons_self ..))
    · intro op' hop'
      exact hno op' (List.mem_cons_of_mem _ hop')

/-- a refused write says so and changes nothing -/
theorem write_existing_refused (fs : Folder) (op : WriteOp) (p : Str) (ht : op.target = some p)
    (hex : (fs.get p).isSome = true) (hov : op.overwrite = false) :
    writeDataset fs op = (fs, .error .fileExistsError) := by
  rw [writeDataset_of_target_some fs op p ht]
  simp [hov, hex]

/-- a successful write stores exactly the new content under the target -/
theorem write_ok_stores (fs : Folder) (op : WriteOp) (h : (writeDataset fs op).2 = .ok ()) :
    ∃ p, op.target = some p ∧ (writeDataset fs op).1.get p = some op.content := by
  cases ht : op.target with
  | none =>
    obtain ⟨e, he⟩ := writeDataset_of_target_none fs op ht
    rw [he] at h
    cases h
  | some p =>
    refine ⟨p, rfl, ?_⟩
    rw [writeDataset_of_target_some fs op p ht] at h ⊢
    split at h
    · cases h
    · split at h
      · cases h
      · rename_i h1 h2
        simp only [h1, h2]
        simp [folder_get_put]

/-! ## DataStore: get / put / hasFolder -/

theorem dstore_get_put (st : DStore) (d q : Str) (v : Option (List (Str × Bool))) :
    (DStore.put st d v).get q = if q = d then some v else st.get q := by
  induction st with
  | nil =>
    by_cases hq : q = d
    · simp [DStore.put, DStore.get, hq]
    · have : ¬ d = q := fun h => hq h.symm
      simp [DStore.put, DStore.get, hq, this]
  | cons e rest ih =>
    unfold DStore.get at ih ⊢
    unfold DStore.put
    by_cases hep : e.1 = d
    · by_cases hq : q = d
      · simp [hep, hq]
      · have : ¬ d = q := fun h => hq h.symm
        simp [hep, hq, this]
    · by_cases heq : e.1 = q
      · have : ¬ q = d := fun h => hep (heq.trans h)
        simp [heq, this]
      · simp only [hep, if_false, List.find?_cons, heq, decide_false]
        exact ih

theorem hasFolder_put (st : DStore) (d : Str) (ch : List (Str × Bool)) (d' f' : Str) :
    (st.put d (some ch)).hasFolder d' f' =
      if d' = d then ch.any (fun e => e.1 = f') else st.hasFolder d' f' := by
  unfold DStore.hasFolder
  rw [dstore_get_put]
  by_cases hd : d' = d <;> simp [hd]

/-- what a successful `make_folder` did -/
theorem makeFolder_ok (st st' : DStore) (a : MkArgs) (d f : Str) (h : makeFolder st a = (st', .ok (d, f))) :
    ∃ t, a.codes = some (d, t) ∧ (a.label.isEmpty || !matchPlus labelChar a.label) = false ∧
      f = folderName t a.label ∧
      ((∃ ch, st.get d = some (some ch) ∧ ch.any (fun e => e.1 = f) = false ∧
          st' = st.put d (some (ch ++ [(f, true)]))) ∨
       (st.get d = none ∧ st' = st.put d (some [(f, true)]))) := by
  unfold makeFolder at h
  split at h
  · cases h
  · rename_i d0 t0 hc
    split at h
    · cases h
    · rename_i hl
      split at h
      · cases h
      · rename_i ch hg
        dsimp only at h
        split at h
        · cases h
        · rename_i hany
          injection h with h1 h2
          injection h2 with h2
          injection h2 with h2 h3
          subst h2
          refine ⟨t0, hc, by simpa using hl, h3.symm, Or.inl ⟨ch, hg, ?_, ?_⟩⟩
          · rw [← h3]; exact Bool.eq_false_iff.mpr hany
          · rw [← h3]; exact h1.symm
      · rename_i hg
        dsimp only at h
        injection h with h1 h2
        injection h2 with h2
        injection h2 with h2 h3
        subst h2
        refine ⟨t0, hc, by simpa using hl, h3.symm, Or.inr ⟨hg, ?_⟩⟩
        rw [← h3]; exact h1.symm

/-- make_folder never hands out an existing folder as new, creates it, and keeps every existing folder -/
theorem make_folder_fresh (st st' : DStore) (a : MkArgs) (d f : Str) (h : makeFolder st a = (st', .ok (d, f))) :
    st.hasFolder d f = false ∧ st'.hasFolder d f = true ∧
    (∀ d' f', st.hasFolder d' f' = true → st'.hasFolder d' f' = true) := by
  obtain ⟨t, _, _, _, hcase⟩ := makeFolder_ok st st' a d f h
  rcases hcase with ⟨ch, hg, hany, hst⟩ | ⟨hg, hst⟩
  · subst hst
    refine ⟨?_, ?_, ?_⟩
    · simp only [DStore.hasFolder, hg, hany]
    · simp [hasFolder_put]
    · intro d' f' hh
      rw [hasFolder_put]
      split
      · rename_i hd
        subst hd
        simp only [DStore.hasFolder, hg] at hh
        simp [hh]
      · exact hh
  · subst hst
    refine ⟨?_, ?_, ?_⟩
    · simp only [DStore.hasFolder, hg]
    · simp [hasFolder_put]
    · intro d' f' hh
      rw [hasFolder_put]
      split
      · rename_i hd
        subst hd
        simp [DStore.hasFolder, hg] at hh
      · exact hh

/-- asking again for a folder that exists raises FileExistsError and changes nothing (same-second creation) -/
theorem make_folder_twice (st st' : DStore) (a : MkArgs) (d f : Str) (h : makeFolder st a = (st', .ok (d, f))) :
    makeFolder st' a = (st', .error .fileExistsError) := by
  obtain ⟨t, hc, hl, hf, hcase⟩ := makeFolder_ok st st' a d f h
  have hget : ∃ ch', st'.get d = some (some ch') ∧ ch'.any (fun e => e.1 = f) = true := by
    rcases hcase with ⟨ch, hg, hany, hst⟩ | ⟨hg, hst⟩
    · exact ⟨ch ++ [(f, true)], by rw [hst, dstore_get_put]; simp, by simp⟩
    · exact ⟨[(f, true)], by rw [hst, dstore_get_put]; simp, by simp⟩
  obtain ⟨ch', hg', hany'⟩ := hget
  unfold makeFolder
  simp only [hc, hl, Bool.false_eq_true, if_false, hg', ← hf, hany', if_true]

/-! ## parseNat on digit strings -/

theorem parseNat_fold (s : Str) (acc : Nat) :
    s.foldl (fun acc c => acc * 10 + (c - 48)) acc = acc * 10 ^ s.length + parseNat s := by
  unfold parseNat
  induction s generalizing acc with
  | nil => simp
  | cons c s ih =>
    simp only [List.foldl_cons, List.length_cons]
    rw [ih, ih (0 * 10 + (c - 48)), Nat.pow_succ, Nat.add_mul, Nat.add_mul]
    rw [Nat.mul_assoc, Nat.mul_comm 10 (10 ^ s.length)]
    omega

theorem parseNat_cons (c : Nat) (s : Str) :
    parseNat (c :: s) = (c - 48) * 10 ^ s.length + parseNat s := by
  have h := parseNat_fold s (0 * 10 + (c - 48))
  simp only [Nat.zero_mul, Nat.zero_add] at h
  unfold parseNat at h ⊢
  simp only [List.foldl_cons, Nat.zero_mul, Nat.zero_add]
  exact h

theorem parseNat_lt (s : Str) (h : s.all isDigit = true) : parseNat s < 10 ^ s.length := by
  induction s with
  | nil => simp [parseNat]
  | cons c s ih =>
    simp only [List.all_cons, Bool.and_eq_true] at h
    have hc := h.1
    have hs := ih h.2
    simp only [isDigit, Bool.and_eq_true, decide_eq_true_eq] at hc
    rw [parseNat_cons, List.length_cons, Nat.pow_succ]
    have : (c - 48) * 10 ^ s.length ≤ 9 * 10 ^ s.length := Nat.mul_le_mul_right _ (by omega)
    omega

/-- on strings of equal length made of decimal digits, code-point order = numeric order -/
theorem lex_eq_numeric (a b : Str) (ha : a.all isDigit = true) (hb : b.all isDigit = true) (hl : a.length = b.length) :
    strLe a b = decide (parseNat a ≤ parseNat b) := by
  induction a generalizing b with
  | nil => simp [strLe, parseNat]
  | cons x xs ih =>
    cases b with
    | nil => simp at hl
    | cons y ys =>
      simp only [List.all_cons, Bool.and_eq_true] at ha hb
      simp only [List.length_cons, Nat.add_right_cancel_iff] at hl
      have hx := ha.1
      have hy := hb.1
      simp only [isDigit, Bool.and_eq_true, decide_eq_true_eq] at hx hy
      have hpx := parseNat_lt xs ha.2
      have hpy := parseNat_lt ys hb.2
      rw [parseNat_cons, parseNat_cons, ← hl]
      rw [← hl] at hpy
      unfold strLe
      by_cases h1 : x < y
      · have : (x - 48 + 1) * 10 ^ xs.length ≤ (y - 48) * 10 ^ xs.length :=
          Nat.mul_le_mul_right _ (by omega)
        rw [Nat.add_mul, Nat.one_mul] at this
        simp only [h1, if_true]
        symm; rw [decide_eq_true_eq]; omega
      · by_cases h2 : y < x
        · have : (y - 48 + 1) * 10 ^ xs.length ≤ (x - 48) * 10 ^ xs.length :=
            Nat.mul_le_mul_right _ (by omega)
          rw [Nat.add_mul, Nat.one_mul] at this
          simp only [h1, h2, if_true, if_false]
          symm; rw [decide_eq_false_iff_not]; omega
        · have hxy : x = y := by omega
          subst hxy
          simp only [h1, if_false]
          rw [ih ys ha.2 hb.2 hl]
          simp only [Nat.add_le_add_iff_left]

/-! ## strLe is a total order -/

theorem strLe_refl (a : Str) : strLe a a = true := by
  induction a with
  | nil => rfl
  | cons x xs ih => simp [strLe, ih]

theorem strLe_total (a b : Str) : strLe a b = true ∨ strLe b a = true := by
  induction a generalizing b with
  | nil => left; rfl
  | cons x xs ih =>
    cases b with
    | nil => right; rfl
    | cons y ys =>
      unfold strLe
      by_cases h1 : x < y
      · left; simp [h1]
      · by_cases h2 : y < x
        · right; simp [h2]
        · simp only [h1, h2, if_false]
          exact ih ys

theorem strLe_trans (a b c : Str) (hab : strLe a b = true) (hbc : strLe b c = true) : strLe a c = true := by
  induction a generalizing b c with
  | nil => rfl
  | cons x xs ih =>
    cases b with
    | nil => simp [strLe] at hab
    | cons y ys =>
      cases c with
      | nil => simp [strLe] at hbc
      | cons z zs =>
        unfold strLe at hab hbc ⊢
        by_cases h1 : x < y
        · by_cases h3 : y < z
          · have : x < z := by omega
            simp [this]
          · by_cases h4 : z < y
            · simp [h3, h4] at hbc
            · have : x < z := by omega
              simp [this]
        · by_cases h2 : y < x
          · simp [h1, h2] at hab
          · simp only [h1, h2, if_false] at hab
            have hxy : x = y := by omega
            subst hxy
            by_cases h3 : x < z
            · simp [h3]
            · by_cases h4 : z < x
              · simp [h3, h4] at hbc
              · simp only [h3, h4, if_false] at hbc ⊢
                exact ih ys zs hab hbc

theorem strLe_antisymm (a b : Str) (hab : strLe a b = true) (hba : strLe b a = true) : a = b := by
  induction a generalizing b with
  | nil =>
    cases b with
    | nil => rfl
    | cons y ys => simp [strLe] at hba
  | cons x xs ih =>
    cases b with
    | nil => simp [strLe] at hab
    | cons y ys =>
      unfold strLe at hab hba
      by_cases h1 : x < y
      · have : ¬ y < x := by omega
        simp [h1, this] at hba
      · by_cases h2 : y < x
        · simp [h1, h2] at hab
        · simp only [h1, h2, if_false] at hab hba
          have hxy : x = y := by omega
          rw [hxy, ih ys hab hba]

/-- prefix monotonicity -/
theorem strLe_take (n : Nat) (a b : Str) (h : strLe a b = true) : strLe (a.take n) (b.take n) = true := by
  induction n generalizing a b with
  | zero => simp [strLe]
  | succ n ih =>
    cases a with
    | nil => simp [strLe]
    | cons x xs =>
      cases b with
      | nil => simp [strLe] at h
      | cons y ys =>
        simp only [List.take_succ_cons]
        unfold strLe at h ⊢
        by_cases h1 : x < y
        · simp [h1]
        · by_cases h2 : y < x
          · simp [h1, h2] at h
          · simp only [h1, h2, if_false] at h ⊢
            exact ih xs ys h

/-! ## sortDesc: a descending permutation -/

theorem insertDesc_perm (x : Str) (l : List Str) : (insertDesc x l).Perm (x :: l) := by
  induction l with
  | nil => exact List.Perm.refl _
  | cons y ys ih =>
    unfold insertDesc
    split
    · exact List.Perm.refl _
    · exact (List.Perm.cons y ih).trans (List.Perm.swap x y ys)

theorem sortDesc_perm (l : List Str) : (sortDesc l).Perm l := by
  induction l with
  | nil => exact List.Perm.refl _
  | cons x xs ih =>
    unfold sortDesc
    exact (insertDesc_perm x _).trans (List.Perm.cons x ih)

theorem mem_sortDesc (l : List Str) (x : Str) : x ∈ sortDesc l ↔ x ∈ l :=
  (sortDesc_perm l).mem_iff

/-- `a` comes before `b` in a descending list -/
abbrev Desc (a b : Str) : Prop := strLe b a = true

theorem insertDesc_pairwise (x : Str) (l : List Str) (h : l.Pairwise Desc) :
    (insertDesc x l).Pairwise Desc := by
  induction l with
  | nil => simp [insertDesc]
  | cons y ys ih =>
    rw [List.pairwise_cons] at h
    unfold insertDesc
    split
    · rename_i hyx
      rw [List.pairwise_cons]
      refine ⟨?_, List.pairwise_cons.mpr h⟩
      intro b hb
      rcases List.mem_cons.mp hb with hb | hb
      · subst hb; exact hyx
      · exact strLe_trans b y x (h.1 b hb) hyx
    · rename_i hyx
      rw [List.pairwise_cons]
      refine ⟨?_, ih h.2⟩
      intro b hb
      rcases List.mem_cons.mp ((insertDesc_perm x ys).mem_iff.mp hb) with hb | hb
      · subst hb
        rcases strLe_total y b with h1 | h1
        · exact absurd h1 hyx
        · exact h1
      · exact h.1 b hb

theorem sortDesc_pairwise (l : List Str) : (sortDesc l).Pairwise Desc := by
  induction l with
  | nil => simp [sortDesc]
  | cons x xs ih =>
    unfold sortDesc
    exact insertDesc_pairwise x _ ih

/-- in a descending list split at some element, every later element is ≤ it -/
theorem desc_split (pre post : List Str) (x y : Str) (h : (pre ++ x :: post).Pairwise Desc)
    (hy : y ∈ x :: post) : strLe y x = true := by
  rw [List.pairwise_append] at h
  rcases List.mem_cons.mp hy with hy | hy
  · subst hy; exact strLe_refl _
  · exact (List.pairwise_cons.mp h.2.1).1 y hy

/-! ## find_latest_folder -/

theorem matchFolderName_take (ff t lab : Str) (h : matchFolderName ff = some (t, lab)) : t = ff.take 6 := by
  unfold matchFolderName at h
  dsimp only at h
  split at h
  · split at h
    · split at h
      · injection h with h; injection h with h1 h2; exact h1.symm
      · cases h
    · cases h
  · cases h

/-- `ff` is a directory entry of `ch` carrying `label` -/
def Hit (label : Str) (ch : List (Str × Bool)) (ff : Str) : Prop :=
  (∃ t, matchFolderName ff = some (t, label)) ∧ ch.any (fun e => e.1 = ff && e.2) = true

theorem firstMatch_none (label : Str) (ch : List (Str × Bool)) (l : List Str)
    (h : firstMatch label ch l = none) : ∀ x ∈ l, ¬ Hit label ch x := by
  induction l with
  | nil => intro x hx; cases hx
  | cons y ys ih =>
    unfold firstMatch at h
    intro x hx
    rcases List.mem_cons.mp hx with hx | hx
    · subst hx
      rintro ⟨⟨t, ht⟩, hany⟩
      rw [ht] at h
      simp only [hany, Bool.and_true, decide_true, if_true] at h
      cases h
    · split at h
      · split at h
        · cases h
        · exact ih h x hx
      · exact ih h x hx

theorem firstMatch_some (label : Str) (ch : List (Str × Bool)) (l : List Str) (ff t : Str)
    (h : firstMatch label ch l = some (ff, t)) :
    ∃ pre post, l = pre ++ ff :: post ∧ matchFolderName ff = some (t, label) ∧
      ch.any (fun e => e.1 = ff && e.2) = true ∧ ∀ x ∈ pre, ¬ Hit label ch x := by
  induction l with
  | nil => cases h
  | cons y ys ih =>
    unfold firstMatch at h
    have hrec : firstMatch label ch ys = some (ff, t) → ¬ Hit label ch y →
        ∃ pre post, y :: ys = pre ++ ff :: post ∧ matchFolderName ff = some (t, label) ∧
          ch.any (fun e => e.1 = ff && e.2) = true ∧ ∀ x ∈ pre, ¬ Hit label ch x := by
      intro h hy
      obtain ⟨pre, post, h1, h2, h3, h4⟩ := ih h
      refine ⟨y :: pre, post, by rw [h1]; rfl, h2, h3, ?_⟩
      intro x hx
      rcases List.mem_cons.mp hx with hx | hx
      · subst hx; exact hy
      · exact h4 x hx
    split at h
    · rename_i t0 lab hm
      split at h
      · rename_i hc
        simp only [Bool.and_eq_true, decide_eq_true_eq] at hc
        injection h with h; injection h with h1 h2
        subst h1; subst h2
        refine ⟨[], ys, rfl, ?_, hc.2, ?_⟩
        · rw [hm, hc.1]
        · intro x hx; cases hx
      · rename_i hc
        apply hrec h
        rintro ⟨⟨t', ht'⟩, hany⟩
        rw [hm] at ht'
        injection ht' with ht'; injection ht' with _ hlab
        apply hc
        simp [hlab, hany]
    · rename_i hm
      apply hrec h
      rintro ⟨⟨t', ht'⟩, _⟩
      rw [hm] at ht'; cases ht'

/-- the date directory `dd` has no folder carrying `label` -/
def NoHit (st : DStore) (label dd : Str) : Prop :=
  ∃ ch, st.get dd = some (some ch) ∧ ∀ x ∈ sortDesc (ch.map (·.1)), ¬ Hit label ch x

theorem findIn_none (st : DStore) (label : Str) (l : List Str) (h : findIn st label l = .ok none) :
    ∀ x ∈ l, matchDigitsN 8 x = true → NoHit st label x := by
  induction l with
  | nil => intro x hx; cases hx
  | cons y ys ih =>
    unfold findIn at h
    intro x hx hm
    split at h
    · split at h
      · cases h
      · cases h
      · rename_i ch hg
        split at h
        · cases h
        · rename_i hf
          rcases List.mem_cons.mp hx with hx | hx
          · subst hx
            exact ⟨ch, hg, firstMatch_none label ch _ hf⟩
          · exact ih h x hx hm
    · rename_i hmy
      rcases List.mem_cons.mp hx with hx | hx
      · subst hx; exact absurd hm hmy
      · exact ih h x hx hm

theorem findIn_some (st : DStore) (label : Str) (l : List Str) (dd ff t : Str)
    (h : findIn st label l = .ok (some (dd, ff, t))) :
    ∃ pre post, l = pre ++ dd :: post ∧ matchDigitsN 8 dd = true ∧
      (∃ ch, st.get dd = some (some ch) ∧ firstMatch label ch (sortDesc (ch.map (·.1))) = some (ff, t)) ∧
      ∀ x ∈ pre, matchDigitsN 8 x = true → NoHit st label x := by
  induction l with
  | nil => cases h
  | cons y ys ih =>
    unfold findIn at h
    have hrec : findIn st label ys = .ok (some (dd, ff, t)) →
        (matchDigitsN 8 y = true → NoHit st label y) →
        ∃ pre post, y :: ys = pre ++ dd :: post ∧ matchDigitsN 8 dd = true ∧
          (∃ ch, st.get dd = some (some ch) ∧
            firstMatch label ch (sortDesc (ch.map (·.1))) = some (ff, t)) ∧
          ∀ x ∈ pre, matchDigitsN 8 x = true → NoHit st label x := by
      intro h hy
      obtain ⟨pre, post, h1, h2, h3, h4⟩ := ih h
      refine ⟨y :: pre, post, by rw [h1]; rfl, h2, h3, ?_⟩
      intro x hx
      rcases List.mem_cons.mp hx with hx | hx
      · subst hx; exact hy
      · exact h4 x hx
    split at h
    · rename_i hmy
      split at h
      · cases h
      · cases h
      · rename_i ch hg
        split at h
        · rename_i ff0 t0 hf
          injection h with h; injection h with h; injection h with h1 h2; injection h2 with h2 h3
          subst h1; subst h2; subst h3
          exact ⟨[], ys, rfl, hmy, ⟨ch, hg, hf⟩, fun x hx => by cases hx⟩
        · rename_i hf
          exact hrec h (fun _ => ⟨ch, hg, firstMatch_none label ch _ hf⟩)
    · rename_i hmy
      exact hrec h (fun hm => absurd hm hmy)

/-- a folder that find_latest_folder may return for `label` -/
def IsCandidate (st : DStore) (label dd ff t : Str) : Prop :=
  matchDigitsN 8 dd = true ∧ ∃ ch, st.get dd = some (some ch) ∧ (ff, true) ∈ ch ∧ matchFolderName ff = some (t, label)

theorem dstore_get_mem (st : DStore) (d : Str) (v : Option (List (Str × Bool))) (h : st.get d = some v) :
    d ∈ st.map (·.1) := by
  unfold DStore.get at h
  cases hf : st.find? (fun e => e.1 = d) with
  | none => rw [hf] at h; cases h
  | some e =>
    have h1 := List.mem_of_find?_eq_some hf
    have h2 := List.find?_some hf
    simp only [decide_eq_true_eq] at h2
    rw [← h2]
    exact List.mem_map.mpr ⟨e, h1, rfl⟩

theorem candidate_hit (st : DStore) (label dd ff t : Str) (h : IsCandidate st label dd ff t) :
    ∃ ch, st.get dd = some (some ch) ∧ ff ∈ sortDesc (ch.map (·.1)) ∧ Hit label ch ff := by
  obtain ⟨_, ch, hg, hmem, hm⟩ := h
  refine ⟨ch, hg, ?_, ⟨t, hm⟩, ?_⟩
  · rw [mem_sortDesc]
    exact List.mem_map.mpr ⟨(ff, true), hmem, rfl⟩
  · rw [List.any_eq_true]
    exact ⟨(ff, true), hmem, by simp⟩

theorem candidate_not_noHit (st : DStore) (label dd ff t : Str) (h : IsCandidate st label dd ff t)
    (hn : NoHit st label dd) : False := by
  obtain ⟨ch, hg, hmem, hhit⟩ := candidate_hit st label dd ff t h
  obtain ⟨ch', hg', hno⟩ := hn
  rw [hg] at hg'
  injection hg' with hg'; injection hg' with hg'
  subst hg'
  exact hno ff hmem hhit

/-- `None` is returned only when there is no candidate at all -/
theorem find_latest_none (st : DStore) (label : Str) (h : findLatest st label none = .ok none) :
    ∀ dd ff t, ¬ IsCandidate st label dd ff t := by
  intro dd ff t hc
  unfold findLatest at h
  dsimp only at h
  have hmem : dd ∈ sortDesc (st.map (·.1)) := by
    obtain ⟨_, ch, hg, _⟩ := hc
    rw [mem_sortDesc]; exact dstore_get_mem st dd _ hg
  exact candidate_not_noHit st label dd ff t hc (findIn_none st label _ h dd hmem hc.1)

/-- the lookup returns a candidate, and no candidate has a greater (date, time) -/
theorem find_latest_is_max (st : DStore) (label dd ff t : Str)
    (h : findLatest st label none = .ok (some (dd, ff, t))) :
    IsCandidate st label dd ff t ∧
    ∀ dd' ff' t', IsCandidate st label dd' ff' t' →
      (strLe dd' dd = true ∧ (dd' = dd → strLe t' t = true)) := by
  unfold findLatest at h
  dsimp only at h
  obtain ⟨pre, post, hl, hmd, ⟨ch, hg, hfm⟩, hpre⟩ := findIn_some st label _ dd ff t h
  obtain ⟨pre2, post2, hl2, hmf, hany, hpre2⟩ := firstMatch_some label ch _ ff t hfm
  have hpw := sortDesc_pairwise (st.map (·.1))
  rw [hl] at hpw
  have hpw2 := sortDesc_pairwise (ch.map (·.1))
  rw [hl2] at hpw2
  refine ⟨⟨hmd, ch, hg, ?_, hmf⟩, ?_⟩
  · rw [List.any_eq_true] at hany
    obtain ⟨e, he, hee⟩ := hany
    simp only [Bool.and_eq_true, decide_eq_true_eq] at hee
    have : e = (ff, true) := by
      cases e; simp only at hee; rw [hee.1, hee.2]
    rw [← this]; exact he
  · intro dd' ff' t' hc
    have hmem : dd' ∈ pre ++ dd :: post := by
      obtain ⟨_, ch', hg', _⟩ := hc
      rw [← hl, mem_sortDesc]; exact dstore_get_mem st dd' _ hg'
    have hdd : strLe dd' dd = true := by
      rcases List.mem_append.mp hmem with hm | hm
      · exact (candidate_not_noHit st label dd' ff' t' hc (hpre dd' hm hc.1)).elim
      · exact desc_split pre post dd dd' hpw hm
    refine ⟨hdd, ?_⟩
    intro heq
    subst heq
    obtain ⟨ch', hg', hmem', hhit'⟩ := candidate_hit st label dd' ff' t' hc
    rw [hg] at hg'
    injection hg' with hg'; injection hg' with hg'
    subst hg'
    rw [hl2] at hmem'
    have hff : strLe ff' ff = true := by
      rcases List.mem_append.mp hmem' with hm | hm
      · exact (hpre2 ff' hm hhit').elim
      · exact desc_split pre2 post2 ff ff' hpw2 hm
    rw [matchFolderName_take ff t label hmf, matchFolderName_take ff' t' label hc.2.choose_spec.2.2]
    exact strLe_take 6 ff' ff hff

/-! ## numeric reading of the order on time / date codes -/

theorem matchFolderName_digits (ff t lab : Str) (h : matchFolderName ff = some (t, lab)) :
    t.length = 6 ∧ t.all isDigit = true := by
  unfold matchFolderName at h
  dsimp only at h
  split at h
  · rename_i hc
    simp only [Bool.and_eq_true, decide_eq_true_eq] at hc
    split at h
    · split at h
      · injection h with h; injection h with h1 h2; rw [← h1]; exact hc
      · cases h
    · cases h
  · cases h

/-- within one date, the returned time code is numerically the largest among the candidates -/
theorem find_latest_time_numeric (st : DStore) (label dd ff t : Str)
    (h : findLatest st label none = .ok (some (dd, ff, t))) (ff' t' : Str)
    (hc : IsCandidate st label dd ff' t') : parseNat t' ≤ parseNat t := by
  obtain ⟨⟨_, _, _, _, hm⟩, hmax⟩ := find_latest_is_max st label dd ff t h
  have hle := (hmax dd ff' t' hc).2 rfl
  obtain ⟨_, _, _, _, hm'⟩ := hc
  have h1 := matchFolderName_digits ff t label hm
  have h2 := matchFolderName_digits ff' t' label hm'
  rw [lex_eq_numeric t' t h2.2 h1.2 (h2.1.trans h1.1.symm)] at hle
  exact of_decide_eq_true hle

theorem matchDigitsN_spec (n : Nat) (s : Str) (h : matchDigitsN n s = true) :
    s.length = n ∧ s.all isDigit = true := by
  unfold matchDigitsN at h
  simp only [Bool.and_eq_true, decide_eq_true_eq] at h
  exact h

/-- the returned date code is numerically the largest among the candidates -/
theorem find_latest_date_numeric (st : DStore) (label dd ff t : Str)
    (h : findLatest st label none = .ok (some (dd, ff, t))) (dd' ff' t' : Str)
    (hc : IsCandidate st label dd' ff' t') : parseNat dd' ≤ parseNat dd := by
  obtain ⟨⟨hmd, _⟩, hmax⟩ := find_latest_is_max st label dd ff t h
  have hle := (hmax dd' ff' t' hc).1
  have h1 := matchDigitsN_spec 8 dd' hc.1
  have h2 := matchDigitsN_spec 8 dd hmd
  rw [lex_eq_numeric dd' dd h1.2 h2.2 (h1.1.trans h2.1.symm)] at hle
  exact of_decide_eq_true hle

/-! ## non-vacuity: concrete histories -/

/-- decidable equality on results, for the `decide` examples only (private name: no clash with
other lemma files) -/
@[instance_reducible] def exceptDecEq {ε α : Type} [DecidableEq ε] [DecidableEq α] : DecidableEq (Except ε α)
  | .ok a, .ok b => if h : a = b then isTrue (by rw [h]) else isFalse (fun h' => h (by injection h'))
  | .error a, .error b => if h : a = b then isTrue (by rw [h]) else isFalse (fun h' => h (by injection h'))
  | .ok _, .error _ => isFalse (fun h => by cases h)
  | .error _, .ok _ => isFalse (fun h => by cases h)

attribute [local instance] exceptDecEq

/-- `write_dataset("a", fmt=text, overwrite=ov)` with content `c` -/
def exOp (ov : Bool) (c : Nat) : WriteOp :=
  { name := [97], fmt := .text, overwrite := ov, writerFails := false, content := c }

/-- "a.dat" -/
def exPath : Str := [97, 46, 100, 97, 116]

example : (exOp false 1).target = some exPath := by decide

-- first write creates the file
example : writeDataset [] (exOp false 1) = ([(exPath, 1)], .ok ()) := by decide
-- a second write with overwrite=False is refused and changes nothing
example : writeDataset [(exPath, 1)] (exOp false 2) = ([(exPath, 1)], .error .fileExistsError) := by decide
-- a write with overwrite=True replaces the content
example : writeDataset [(exPath, 1)] (exOp true 3) = ([(exPath, 3)], .ok ()) := by decide
-- the whole history
example : (runWrites [] [exOp false 1, exOp false 2]).get exPath = some 1 := by decide
example : (runWrites [] [exOp false 1, exOp false 2, exOp true 3]).get exPath = some 3 := by decide

def exD1 : Str := [50, 48, 50, 52, 48, 49, 48, 49]   -- "20240101"
def exD2 : Str := [50, 48, 50, 52, 48, 49, 48, 50]   -- "20240102"
def exF1 : Str := [50, 51, 53, 57, 53, 57, 95, 120]  -- "235959_x"
def exF2 : Str := [48, 56, 48, 48, 48, 48, 95, 120]  -- "080000_x"
def exF3 : Str := [48, 57, 48, 48, 48, 48, 95, 120]  -- "090000_x"
def exF4 : Str := [49, 48, 48, 48, 48, 48, 95, 121]  -- "100000_y"

/-- three folders labelled `x` over two dates, one folder labelled `y`, and a plain file `notes`
in the base directory -/
def exStore : DStore :=
  [ (exD1, some [(exF1, true)]),
    ([110, 111, 116, 101, 115], none),
    (exD2, some [(exF2, true), (exF4, true), (exF3, true)]) ]

example : findLatest exStore [120] none = .ok (some (exD2, exF3, [48, 57, 48, 48, 48, 48])) := by decide
example : findLatest exStore [121] none = .ok (some (exD2, exF4, [49, 48, 48, 48, 48, 48])) := by decide
example : findLatest exStore [122] none = .ok none := by decide
example : IsCandidate exStore [120] exD1 exF1 [50, 51, 53, 57, 53, 57] :=
  ⟨by decide, _, rfl, by decide, by decide⟩

/-- `make_folder(label="x", date_str="20240102", time_str="090000")` -/
def exMk : MkArgs :=
  { label := [120], hasTs := false, date := some exD2, time := some [48, 57, 48, 48, 48, 48], derived := ([], []) }

example : (makeFolder [] exMk).2 = .ok (exD2, exF3) := by decide
example : (makeFolder (makeFolder [] exMk).1 exMk).2 = .error .fileExistsError := by decide

end QmiModel.C17.StoreL
