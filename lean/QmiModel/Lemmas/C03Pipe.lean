import QmiModel.Lemmas.C03Held
namespace QmiModel.Pipeline

theorem local_ready_nil {T : Topo} {s : State} (w : WF T s) (c k o : Nat) (hl : T.home o = k) :
    (s.ready k).filter (sel c k o) = [] := by
  rw [List.filter_eq_nil_iff]; intro y hy hs
  have := (sel_iff _ _ _ y).1 hs
  have h2 := (w.ready_k k y hy).2
  rw [this.2.2] at h2; exact h2 hl

theorem local_wire_nil {T : Topo} {s : State} (w : WF T s) (c k o : Nat) (hl : T.home o = k) :
    (s.wire k (T.home o)).filter (sel c k o) = [] := by
  rw [List.filter_eq_nil_iff]; intro y hy _
  exact (w.wire_kd _ _ y hy).2.2 hl

theorem local_heldL_nil {T : Topo} {s : State} (w : WF T s) (c k o : Nat) (hl : T.home o = k) :
    (s.heldL (T.home o)).toList.filter (sel c k o) = [] := by
  rw [List.filter_eq_nil_iff]; intro y hy hs
  have hy' : s.heldL (T.home o) = some y := by
    cases h : s.heldL (T.home o) with
    | none => rw [h] at hy; simp at hy
    | some z => rw [h] at hy; simp at hy; rw [hy]
  have := (sel_iff _ _ _ y).1 hs
  have h2 := (w.heldL_d _ y hy').2
  rw [this.2.1] at h2; exact h2 hl.symm

theorem remote_heldC_nil {T : Topo} {s : State} (w : WF T s) (c k o : Nat) (hr : T.home o ≠ k) :
    (s.heldC c).toList.filter (sel c k o) = [] := by
  rw [List.filter_eq_nil_iff]; intro y hy hs
  have hy' : s.heldC c = some y := by
    cases h : s.heldC c with
    | none => rw [h] at hy; simp at hy
    | some z => rw [h] at hy; simp at hy; rw [hy]
  have := (sel_iff _ _ _ y).1 hs
  have h2 := (w.heldC_c _ y hy').2
  rw [this.2.1, this.2.2] at h2; exact hr h2

theorem pipe_step {T : Topo} {s s' : State} {a : Act} (h : step T s a = some s') (w : WF T s) (f : FInv s)
    (hi : HInv s) (hp : ∀ c k o, (stages T s c k o).filter (sel c k o) = issuedBy s c k o) :
    ∀ c k o, (stages T s' c k o).filter (sel c k o) = issuedBy s' c k o := by
  intro c k o
  have hp' := hp c k o
  cases a with
  | start o0 wk =>
    simp only [step] at h
    split at h
    · simp only [Option.some.injEq] at h; subst h; exact hp'
    · simp at h
  | unregister o0 => simp only [step, Option.some.injEq] at h; subst h; exact hp'
  | stopMark o0 => simp only [step, Option.some.injEq] at h; subst h; exact hp'
  | shutdownReq o0 =>
    simp only [step] at h
    split at h
    · simp only [Option.some.injEq] at h; subst h; exact hp'
    · simp at h
  | workerLeave wk o0 =>
    simp only [step] at h
    split at h
    · simp only [Option.some.injEq] at h; subst h; exact hp'
    · simp at h
  | issue c0 k0 o0 r0 =>
    simp only [step] at h
    split at h
    · next g =>
      simp only [Option.some.injEq] at h; subst h
      simp only [stages, issuedBy, List.filter_append, upd] at hp' ⊢
      by_cases hs : sel c k o ⟨c0, k0, o0, r0⟩ = true
      · obtain ⟨e1, e2, e3⟩ := (sel_iff c k o _).1 hs
        simp only at e1 e2 e3
        subst e1; subst e2; subst e3
        rw [g.1] at hp'
        simp only [if_true, Option.toList, List.filter_cons, hs, List.filter_nil, List.append_nil] at hp' ⊢
        rw [← hp']
      · have hs' : sel c k o ⟨c0, k0, o0, r0⟩ = false := by simpa using hs
        by_cases hc : c = c0
        · subst hc
          rw [g.1] at hp'
          simp only [if_true, Option.toList, List.filter_cons, hs', List.filter_nil, List.append_nil] at hp' ⊢
          simpa using hp'
        · simp only [if_neg hc, List.filter_cons, hs', List.filter_nil, List.append_nil, Bool.false_eq_true, if_false]
          exact hp'
    · simp at h
  | lookupLocal c0 =>
    simp only [step] at h
    split at h
    · next x hx =>
      split at h
      · next g =>
        have hxc := w.hand_c c0 x hx
        subst hxc
        split at h
        · -- not registered: refused
          simp only [Option.some.injEq] at h; subst h
          simp only [stages, issuedBy, List.filter_append, upd] at hp' ⊢
          by_cases hs : sel c k o x = true
          · obtain ⟨rfl, rfl, rfl⟩ := (sel_iff c k o x).1 hs
            have e1 := local_ready_nil w x.caller x.via x.obj g.1
            have e2 := local_wire_nil w x.caller x.via x.obj g.1
            have e3 := local_heldL_nil w x.caller x.via x.obj g.1
            simp only [e1, e2, e3] at hp' ⊢
            rw [hx, g.2] at hp'
            simp only [g.2, if_true, Option.toList, List.filter_cons, hs, List.filter_nil,
              List.append_nil] at hp' ⊢
            rw [← hp']; simp [hs]
          · have hs' : sel c k o x = false := by simpa using hs
            by_cases h1 : o = x.obj <;> by_cases h2 : c = x.caller
            all_goals simp_all [sel]
        · -- handler found
          simp only [Option.some.injEq] at h; subst h
          simp only [stages, issuedBy, List.filter_append, upd] at hp' ⊢
          by_cases h2 : c = x.caller
          · subst h2
            rw [hx, g.2] at hp'
            simp only [if_true, Option.toList, List.filter_nil, List.append_nil] at hp' ⊢
            exact hp'
          · simp only [if_neg h2]; exact hp'
      · simp at h
    · simp at h
  | pushLocal c0 =>
    simp only [step] at h
    split at h
    · next x hx =>
      obtain ⟨hxc, hloc⟩ := w.heldC_c c0 x hx
      subst hxc
      split at h
      · -- stopped: refused
        simp only [Option.some.injEq] at h; subst h
        simp only [stages, issuedBy, List.filter_append, upd] at hp' ⊢
        by_cases hs : sel c k o x = true
        · obtain ⟨rfl, rfl, rfl⟩ := (sel_iff c k o x).1 hs
          have e1 := local_ready_nil w x.caller x.via x.obj hloc
          have e2 := local_wire_nil w x.caller x.via x.obj hloc
          have e3 := local_heldL_nil w x.caller x.via x.obj hloc
          simp only [e1, e2, e3] at hp' ⊢
          rw [hx] at hp'
          simp only [if_true, Option.toList, List.filter_cons, hs, List.filter_nil,
            List.append_nil] at hp' ⊢
          rw [← hp']; simp [hs]
        · have hs' : sel c k o x = false := by simpa using hs
          by_cases h1 : o = x.obj <;> by_cases h2 : c = x.caller
          all_goals simp_all [sel]
      · next hns =>
        -- running: appended to the fifo
        simp only [Option.some.injEq] at h; subst h
        simp only [stages, issuedBy, List.filter_append, upd] at hp' ⊢
        by_cases hs : sel c k o x = true
        · obtain ⟨rfl, rfl, rfl⟩ := (sel_iff c k o x).1 hs
          have e1 := local_ready_nil w x.caller x.via x.obj hloc
          have e2 := local_wire_nil w x.caller x.via x.obj hloc
          have e3 := local_heldL_nil w x.caller x.via x.obj hloc
          have e4 : (s.refused x.obj).filter (sel x.caller x.via x.obj) = [] := by
            rcases hi.heldC_ok _ x hx with e | e
            · exact e
            · exact absurd e hns
          simp only [e1, e2, e3, e4] at hp' ⊢
          rw [hx] at hp'
          simp only [if_true, Option.toList, List.filter_cons, hs, List.filter_nil,
            List.append_nil] at hp' ⊢
          rw [← hp']; simp [hs]
        · have hs' : sel c k o x = false := by simpa using hs
          by_cases h1 : o = x.obj <;> by_cases h2 : c = x.caller
          all_goals simp_all [sel]
    · simp at h
  | enqRemote c0 =>
    simp only [step] at h
    split at h
    · next x hx =>
      split at h
      · simp at h
      · next g =>
        simp only [Option.some.injEq] at h; subst h
        have hxc := w.hand_c c0 x hx
        subst hxc
        have g2 : s.heldC x.caller = none := by
          cases hh : s.heldC x.caller with
          | none => rfl
          | some z => exact absurd (Or.inr (by rw [hh]; simp)) g
        simp only [stages, issuedBy, List.filter_append, upd] at hp' ⊢
        by_cases hs : sel c k o x = true
        · obtain ⟨rfl, rfl, rfl⟩ := (sel_iff c k o x).1 hs
          rw [hx, g2] at hp'
          simp only [g2, if_true, Option.toList, List.filter_cons, hs, List.filter_nil, List.append_nil] at hp' ⊢
          rw [← hp']; simp [hs]
        · have hs' : sel c k o x = false := by simpa using hs
          by_cases h1 : k = x.via <;> by_cases h2 : c = x.caller
          all_goals simp_all [sel]
    · simp at h
  | loopRun k0 =>
    simp only [step] at h
    split at h
    · next x rest hx =>
      simp only [Option.some.injEq] at h; subst h
      have hxk := (w.ready_k k0 x (by rw [hx]; exact List.mem_cons_self)).1
      subst hxk
      simp only [stages, issuedBy, List.filter_append, upd, upd2] at hp' ⊢
      by_cases hs : sel c k o x = true
      · obtain ⟨rfl, rfl, rfl⟩ := (sel_iff c k o x).1 hs
        rw [hx] at hp'
        simp only [if_true, and_self, List.filter_cons, hs] at hp' ⊢
        rw [← hp']; simp [hs]
      · have hs' : sel c k o x = false := by simpa using hs
        by_cases h1 : k = x.via <;> by_cases h2 : T.home o = T.home x.obj
        all_goals simp_all [sel]
    · simp at h
  | lookupWire k0 d0 =>
    simp only [step] at h
    split at h
    · next x rest hx =>
      obtain ⟨hk, hd, _⟩ := w.wire_kd k0 d0 x (by rw [hx]; exact List.mem_cons_self)
      subst hk; subst hd
      split at h
      · next g =>
        split at h
        · -- unknown destination: refused
          simp only [Option.some.injEq] at h; subst h
          simp only [stages, issuedBy, List.filter_append, upd, upd2] at hp' ⊢
          by_cases hs : sel c k o x = true
          · obtain ⟨rfl, rfl, rfl⟩ := (sel_iff c k o x).1 hs
            rw [hx, g] at hp'
            simp only [g, if_true, and_self, Option.toList, List.filter_cons, hs, List.filter_nil,
              List.append_nil] at hp' ⊢
            rw [← hp']; simp [hs]
          · have hs' : sel c k o x = false := by simpa using hs
            by_cases h1 : k = x.via <;> by_cases h2 : T.home o = T.home x.obj <;> by_cases h3 : o = x.obj
            all_goals simp_all [sel]
        · -- handler found: the loop thread holds it
          simp only [Option.some.injEq] at h; subst h
          simp only [stages, issuedBy, List.filter_append, upd, upd2] at hp' ⊢
          by_cases hs : sel c k o x = true
          · obtain ⟨rfl, rfl, rfl⟩ := (sel_iff c k o x).1 hs
            rw [hx, g] at hp'
            simp only [if_true, and_self, Option.toList, List.filter_cons, hs, List.filter_nil,
              List.append_nil] at hp' ⊢
            rw [← hp']; simp [hs]
          · have hs' : sel c k o x = false := by simpa using hs
            by_cases h1 : k = x.via <;> by_cases h2 : T.home o = T.home x.obj
            all_goals simp_all [sel]
      · simp at h
    · simp at h
  | pushWire d0 =>
    simp only [step] at h
    split at h
    · next x hx =>
      obtain ⟨hd, _⟩ := w.heldL_d d0 x hx
      subst hd
      split at h
      · -- stopped: refused
        simp only [Option.some.injEq] at h; subst h
        simp only [stages, issuedBy, List.filter_append, upd] at hp' ⊢
        by_cases hs : sel c k o x = true
        · obtain ⟨rfl, rfl, rfl⟩ := (sel_iff c k o x).1 hs
          rw [hx] at hp'
          simp only [if_true, Option.toList, List.filter_cons, hs, List.filter_nil, List.append_nil] at hp' ⊢
          rw [← hp']; simp [hs]
        · have hs' : sel c k o x = false := by simpa using hs
          by_cases h2 : T.home o = T.home x.obj <;> by_cases h3 : o = x.obj
          all_goals simp_all [sel]
      · next hns =>
        simp only [Option.some.injEq] at h; subst h
        simp only [stages, issuedBy, List.filter_append, upd] at hp' ⊢
        by_cases hs : sel c k o x = true
        · obtain ⟨rfl, rfl, rfl⟩ := (sel_iff c k o x).1 hs
          have e4 : (s.refused x.obj).filter (sel x.caller x.via x.obj) = [] := by
            rcases hi.heldL_ok _ x hx with e | e
            · exact e
            · exact absurd e hns
          rw [hx] at hp'
          simp only [e4, if_true, Option.toList, List.filter_cons, hs, List.filter_nil, List.append_nil] at hp' ⊢
          rw [← hp']; simp [hs]
        · have hs' : sel c k o x = false := by simpa using hs
          by_cases h2 : T.home o = T.home x.obj <;> by_cases h3 : o = x.obj
          all_goals simp_all [sel]
    · simp at h
  | workerPop wk o0 =>
    simp only [step] at h
    split at h
    · next g =>
      split at h
      · next x rest hx =>
        simp only [Option.some.injEq] at h; subst h
        have hxo := w.fifo_o o0 x (by rw [hx]; exact List.mem_cons_self)
        subst hxo
        have hrej : s.rejected x.obj = [] := by
          cases hr : s.rejected x.obj with
          | nil => rfl
          | cons a l =>
            have := f.left_shut _ (f.rej_left x.obj (by rw [hr]; simp))
            rw [g.2.2] at this; simp at this
        simp only [stages, issuedBy, List.filter_append, upd] at hp' ⊢
        by_cases hs : sel c k o x = true
        · obtain ⟨rfl, rfl, rfl⟩ := (sel_iff c k o x).1 hs
          rw [hx, g.2.1, hrej] at hp'
          simp only [hrej, if_true, Option.toList, List.filter_cons, hs, List.filter_nil, List.append_nil,
            List.nil_append] at hp' ⊢
          rw [← hp']; simp
        · have hs' : sel c k o x = false := by simpa using hs
          by_cases h3 : o = x.obj
          all_goals simp_all [sel]
      · simp at h
    · simp at h
  | workerFinish wk o0 =>
    simp only [step] at h
    split at h
    · split at h
      · next x hx =>
        simp only [Option.some.injEq] at h; subst h
        have hxo := w.cur_o o0 x hx
        subst hxo
        simp only [stages, issuedBy, List.filter_append, upd] at hp' ⊢
        by_cases hs : sel c k o x = true
        · obtain ⟨rfl, rfl, rfl⟩ := (sel_iff c k o x).1 hs
          rw [hx] at hp'
          simp only [if_true, Option.toList, List.filter_cons, hs, List.filter_nil] at hp' ⊢
          rw [← hp']; simp [hs]
        · have hs' : sel c k o x = false := by simpa using hs
          by_cases h3 : o = x.obj
          all_goals simp_all [sel]
      · simp at h
    · simp at h
  | rejectOne wk o0 =>
    simp only [step] at h
    split at h
    · split at h
      · next x rest hx =>
        simp only [Option.some.injEq] at h; subst h
        have hxo := w.fifo_o o0 x (by rw [hx]; exact List.mem_cons_self)
        subst hxo
        simp only [stages, issuedBy, List.filter_append, upd] at hp' ⊢
        by_cases hs : sel c k o x = true
        · obtain ⟨rfl, rfl, rfl⟩ := (sel_iff c k o x).1 hs
          rw [hx] at hp'
          simp only [if_true, List.filter_cons, hs] at hp' ⊢
          rw [← hp']; simp [hs]
        · have hs' : sel c k o x = false := by simpa using hs
          by_cases h3 : o = x.obj
          all_goals simp_all [sel]
      · simp at h
    · simp at h

end QmiModel.Pipeline
