import QmiModel.Lemmas.C12MM
namespace QmiModel.Context
/-- kernel-checked: first maker `instr` (constructor raises: false) against every second maker under all 512 schedules -/
theorem mmTable_instr_false : mmTable (mmMk .instr false) = true := by decide +kernel
end QmiModel.Context
