import QmiModel.Lemmas.C01Struct
/-! Structural invariants of the client side (context A) of the RPC model: mirror of the B-side fields of `SInv`,
plus: nothing is ever lost while the client context has not been stopped. -/
namespace QmiModel.Rpc

variable (cfg : Cfg) (attr : ReqId → Attr)

structure AInv (s : State) : Prop where
  aQ_ok      : okQ s.connA s.aQ = true
  aSock_conn : s.aSock ≠ .up → s.connA = false
  aDown_q    : s.aSock = .down → s.aQ = []
  aSock_rt   : s.aSock ≠ .up → s.aRouter = false
  aStop_rt   : Cb.stopLoop ∈ s.aQ → s.aRouter = false
  lost_stop  : s.aStop = false → s.lost = []

theorem ainv_init : AInv init := by
  constructor <;> simp [init, okQ]

theorem ainv_step {s s' : State} {a : Act} (hs : SInv cfg s) (hi : AInv s) (h : step cfg attr s a = some s') :
    AInv s' := by
  obtain ⟨i1, i2, i3, i4, i5, i6⟩ := hi
  cases a <;> simp only [step] at h
  case stopA =>
    split at h <;> simp at h; subst h
    next hr =>
    refine ⟨?_, i2, ?_, fun _ => rfl, fun _ => rfl, fun hc => by simp at hc⟩
    · show okQ s.connA (s.aQ ++ [.closeAll, .stopLoop]) = true
      rw [okQ_append_stop]; exact i1
    · intro hd
      have := i4 (by rw [hd]; simp)
      simp [hr] at this
  case discA =>
    split at h <;> simp at h; subst h
    next hc =>
    refine ⟨?_, i2, ?_, i4, ?_, i6⟩
    · show okQ s.connA (s.aQ ++ [.closeAll]) = true
      rw [okQ_append_close]; exact i1
    · intro hd; rw [hc.2] at hd; simp at hd
    · intro hm; simp at hm; exact i5 hm
  case enq r =>
    split at h
    · split at h <;> simp at h <;> subst h
      · next hd =>
        refine ⟨i1, i2, i3, i4, i5, ?_⟩
        intro hc
        have := (hs.aNoStop hc).1
        rw [hd] at this; simp at this
      · next hnd =>
        refine ⟨?_, i2, fun hd => absurd hd hnd, i4, ?_, i6⟩
        · show okQ s.connA (s.aQ ++ [.sendReq r]) = true
          rw [okQ_append_req]; exact i1
        · intro hm; simp at hm; exact i5 hm
    · simp at h
  case loopA =>
    split at h
    · simp at h
    · next hnd =>
      split at h
      · simp at h
      · next r q haq =>
        have t1 : okQ s.connA q = true := okQ_tail_of_cons (by rw [← haq]; exact i1) (by simp)
        have t5 : Cb.stopLoop ∈ q → s.aRouter = false := fun hm => i5 (by rw [haq]; exact List.mem_cons_of_mem _ hm)
        repeat' split at h
        all_goals
          simp at h; subst h
          exact ⟨t1, i2, fun hd => absurd hd hnd, i4, t5, i6⟩
      · next r o q haq =>
        simp at h; subst h
        exact ⟨okQ_tail_of_cons (by rw [← haq]; exact i1) (by simp), i2, fun hd => absurd hd hnd, i4,
          fun hm => i5 (by rw [haq]; exact List.mem_cons_of_mem _ hm), i6⟩
      · next q haq =>
        simp at h; subst h
        exact ⟨okQ_false q, fun _ => rfl, fun hd => absurd hd hnd, i4,
          fun hm => i5 (by rw [haq]; exact List.mem_cons_of_mem _ hm), i6⟩
      · next q haq =>
        simp at h; subst h
        have hc : s.connA = false := by
          have := i1; rw [haq] at this; simp only [okQ, Bool.and_eq_true, Bool.not_eq_true'] at this; exact this.1
        refine ⟨by rw [hc]; exact okQ_false q, fun _ => hc, ?_, fun _ => i5 (by rw [haq]; simp),
          fun hm => i5 (by rw [haq]; exact List.mem_cons_of_mem _ hm), i6⟩
        intro hd; simp at hd
  case loopExitA =>
    split at h
    · next hst =>
      simp at h; subst h
      have hc : s.connA = false := i2 (by rw [hst]; simp)
      refine ⟨by simp [okQ], fun _ => hc, fun _ => rfl, fun _ => i4 (by rw [hst]; simp), fun hm => by simp at hm, ?_⟩
      intro hA
      have := (hs.aNoStop hA).1
      rw [hst] at this; simp at this
    · simp at h
  case eofA =>
    split at h
    · simp at h; subst h
      exact ⟨okQ_false _, fun _ => rfl, i3, i4, i5, i6⟩
    · simp at h
  case finish o =>
    split at h
    · next x hph =>
      split at h
      · simp at h
      · split at h
        · simp at h; subst h; exact ⟨i1, i2, i3, i4, i5, i6⟩
        · simp at h; subst h
          have c := route_core attr { s with phase := .idle, executed := s.executed ++ [(x, o)] } x o
          refine ⟨?_, ?_, ?_, ?_, ?_, ?_⟩
          · rw [c.connA, c.aQ]; exact i1
          · rw [c.aSock, c.connA]; exact i2
          · rw [c.aSock, c.aQ]; exact i3
          · rw [c.aSock, c.aRouter]; exact i4
          · rw [c.aQ, c.aRouter]; exact i5
          · rw [c.aStop, c.lost]; exact i6
    · simp at h
  case drain =>
    split at h
    · split at h
      · simp at h; subst h
        have c := routeAll_core attr { s with phase := .drained, fifo := [] } s.fifo .deliveryErr
        refine ⟨?_, ?_, ?_, ?_, ?_, ?_⟩
        · rw [c.connA, c.aQ]; exact i1
        · rw [c.aSock, c.connA]; exact i2
        · rw [c.aSock, c.aQ]; exact i3
        · rw [c.aSock, c.aRouter]; exact i4
        · rw [c.aQ, c.aRouter]; exact i5
        · rw [c.aStop, c.lost]; exact i6
      · simp at h
    · simp at h
  all_goals
    repeat' split at h
    all_goals first
      | (simp at h; done)
      | (simp at h; subst h; exact ⟨i1, i2, i3, i4, i5, i6⟩)

end QmiModel.Rpc
