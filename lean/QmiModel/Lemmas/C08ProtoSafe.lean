import QmiModel.Lemmas.C08ProtoReach
/-! C08 — the reachable set of the abstract protocol (`reachFn`, generated) is closed under `Proto.next`, contains
`Proto.inits`, and its settled states have `R = A`.  Kernel-evaluated. -/
namespace QmiModel.PubSub.Proto

def memB (x : AS) : Bool := (reachFn x.tok x.pend x.rm x.obj).contains (x.R, x.A, x.D, x.sr, x.wp)

def allT : List T := [.none, .req, .chk1, .preAdd, .added, .preRem false, .preRem true, .rep false, .rep true, .inD, .hr false, .hr true]
def allP : List P := [.none, .sub false, .sub true, .unsub false, .unsub true]
def allRm : List Rm := [.none, .pre, .np, .post]
def allOb : List ObjSt := [.absent, .reserved, .present]

theorem mem_allT (t : T) : t ∈ allT := by cases t <;> (try rename_i b; cases b) <;> simp [allT]
theorem mem_allP (t : P) : t ∈ allP := by cases t <;> (try rename_i b; cases b) <;> simp [allP]
theorem mem_allRm (t : Rm) : t ∈ allRm := by cases t <;> simp [allRm]
theorem mem_allOb (t : ObjSt) : t ∈ allOb := by cases t <;> simp [allOb]

def mk (t : T) (p : P) (r : Rm) (o : ObjSt) (e : Bool × Bool × List DTok × Bool × Bool) : AS :=
  ⟨e.1, e.2.1, o, r, p, t, e.2.2.1, e.2.2.2.1, e.2.2.2.2⟩

def forallB (f : AS → Bool) : Bool :=
  allT.all fun t => allP.all fun p => allRm.all fun r => allOb.all fun o => (reachFn t p r o).all fun e => f (mk t p r o e)

theorem forallB_spec {f : AS → Bool} (h : forallB f = true) {x : AS} (hx : memB x = true) : f x = true := by
  simp only [forallB, List.all_eq_true] at h
  have h1 := h x.tok (mem_allT _) x.pend (mem_allP _) x.rm (mem_allRm _) x.obj (mem_allOb _) (x.R, x.A, x.D, x.sr, x.wp)
    (by simpa [memB] using hx)
  exact h1

def closedB : Bool := forallB fun x => (next x).all memB
def safeB : Bool := forallB fun x => !settled x || x.R == x.A
def initsB : Bool := inits.all memB

theorem closedB_true : closedB = true := by decide +kernel
theorem safeB_true : safeB = true := by decide +kernel
theorem initsB_true : initsB = true := by decide +kernel

/-- the reachable set is closed under `next` -/
theorem reach_closed {x y : AS} (hx : memB x = true) (hy : y ∈ next x) : memB y = true := by
  have := forallB_spec closedB_true hx
  simp only [List.all_eq_true] at this
  exact this y hy

theorem reach_inits {y : AS} (hy : y ∈ inits) : memB y = true := by
  have := initsB_true
  simp only [initsB, List.all_eq_true] at this
  exact this y hy

/-- a settled reachable state has `R = A` -/
theorem reach_safe {x : AS} (hx : memB x = true) (hs : settled x = true) : x.R = x.A := by
  have := forallB_spec safeB_true hx
  simpa [hs] using this

end QmiModel.PubSub.Proto
