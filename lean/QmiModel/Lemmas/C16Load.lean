import QmiModel.Lemmas.C16Strip
/-!
# C16 — duplicate keys, and the lines of `json.dumps(indent=4)` are token lines
-/
namespace QmiModel.Config

/-! ## duplicate keys -/

/-- some object of the raw tree has a duplicate key -/
inductive HasDupKey : PV → Prop
  | here {kvs : List (Str × PV)} : hasDup (keysOf kvs) = true → HasDupKey (.dict kvs)
  | inDict {kvs : List (Str × PV)} {k : Str} {v : PV} : (k, v) ∈ kvs → HasDupKey v → HasDupKey (.dict kvs)
  | inList {xs : List PV} {x : PV} : x ∈ xs → HasDupKey x → HasDupKey (.list xs)
  | inTuple {xs : List PV} {x : PV} : x ∈ xs → HasDupKey x → HasDupKey (.tuple xs)
  | inInst {c : Str} {kvs : List (Str × PV)} {k : Str} {v : PV} : (k, v) ∈ kvs → HasDupKey v → HasDupKey (.inst c kvs)

theorem hasDup_iff (ks : List Str) : hasDup ks = true ↔ ¬ ks.Nodup := by
  induction ks with
  | nil => simp [hasDup]
  | cons k ks ih =>
    simp only [hasDup, Bool.or_eq_true, List.contains_eq_mem, decide_eq_true_eq, ih, List.nodup_cons, not_and]
    constructor
    · rintro (h | h)
      · intro hk; exact absurd h hk
      · intro _; exact h
    · intro h
      by_cases hk : k ∈ ks
      · exact Or.inl hk
      · exact Or.inr (h hk)

mutual
theorem hasDupKey_of_hookOk_false : ∀ (j : PV), hookOk j = false → HasDupKey j
  | .none, h => by simp [hookOk] at h
  | .bool _, h => by simp [hookOk] at h
  | .int _, h => by simp [hookOk] at h
  | .flt _, h => by simp [hookOk] at h
  | .fltOfInt _, h => by simp [hookOk] at h
  | .str _, h => by simp [hookOk] at h
  | .list xs, h => by
    simp only [hookOk] at h
    obtain ⟨x, hx, hd⟩ := hasDupKeyL xs h
    exact .inList hx hd
  | .tuple xs, h => by
    simp only [hookOk] at h
    obtain ⟨x, hx, hd⟩ := hasDupKeyL xs h
    exact .inTuple hx hd
  | .dict kvs, h => by
    simp only [hookOk, Bool.and_eq_false_iff, Bool.not_eq_eq_eq_not, Bool.not_false] at h
    rcases h with h | h
    · exact .here h
    · obtain ⟨k, v, hx, hd⟩ := hasDupKeyK kvs h
      exact .inDict hx hd
  | .inst c kvs, h => by
    simp only [hookOk] at h
    obtain ⟨k, v, hx, hd⟩ := hasDupKeyK kvs h
    exact .inInst hx hd
theorem hasDupKeyL : ∀ (xs : List PV), hookOkL xs = false → ∃ x, x ∈ xs ∧ HasDupKey x
  | [], h => by simp [hookOkL] at h
  | x :: xs, h => by
    simp only [hookOkL, Bool.and_eq_false_iff] at h
    rcases h with h | h
    · exact ⟨x, by simp, hasDupKey_of_hookOk_false x h⟩
    · obtain ⟨y, hy, hd⟩ := hasDupKeyL xs h
      exact ⟨y, by simp [hy], hd⟩
theorem hasDupKeyK : ∀ (kvs : List (Str × PV)), hookOkK kvs = false → ∃ k v, (k, v) ∈ kvs ∧ HasDupKey v
  | [], h => by simp [hookOkK] at h
  | (k, v) :: kvs, h => by
    simp only [hookOkK, Bool.and_eq_false_iff] at h
    rcases h with h | h
    · exact ⟨k, v, by simp, hasDupKey_of_hookOk_false v h⟩
    · obtain ⟨k', v', hy, hd⟩ := hasDupKeyK kvs h
      exact ⟨k', v', by simp [hy], hd⟩
end

theorem hookOkL_false_of_mem {xs : List PV} {x : PV} (hx : x ∈ xs) (h : hookOk x = false) : hookOkL xs = false := by
  induction xs with
  | nil => simp at hx
  | cons y ys ih =>
    simp only [List.mem_cons] at hx
    simp only [hookOkL, Bool.and_eq_false_iff]
    rcases hx with rfl | hx
    · exact Or.inl h
    · exact Or.inr (ih hx)

theorem hookOkK_false_of_mem {kvs : List (Str × PV)} {k : Str} {x : PV} (hx : (k, x) ∈ kvs) (h : hookOk x = false) :
    hookOkK kvs = false := by
  induction kvs with
  | nil => simp at hx
  | cons y ys ih =>
    obtain ⟨k', v'⟩ := y
    simp only [List.mem_cons, Prod.mk.injEq] at hx
    simp only [hookOkK, Bool.and_eq_false_iff]
    rcases hx with ⟨rfl, rfl⟩ | hx
    · exact Or.inl h
    · exact Or.inr (ih hx)

theorem hookOk_false_of_hasDupKey {j : PV} (h : HasDupKey j) : hookOk j = false := by
  induction h with
  | here hd => simp [hookOk, hd]
  | inDict hx _ ih => simp [hookOk, hookOkK_false_of_mem hx ih]
  | inList hx _ ih => simp [hookOk, hookOkL_false_of_mem hx ih]
  | inTuple hx _ ih => simp [hookOk, hookOkL_false_of_mem hx ih]
  | inInst hx _ ih => simp [hookOk, hookOkK_false_of_mem hx ih]

theorem hookOk_iff (j : PV) : hookOk j = true ↔ ¬ HasDupKey j := by
  constructor
  · intro h hd; rw [hookOk_false_of_hasDupKey hd] at h; exact absurd h (by simp)
  · intro h
    cases hk : hookOk j with
    | true => rfl
    | false => exact absurd (hasDupKey_of_hookOk_false j hk) h

/-! ## the lines of `render` -/

/-- a good line: made of tokens, no line terminator inside -/
def Good (l : List Nat) : Prop := Toks l ∧ NoNL l

theorem NoNL.append {a b : List Nat} (ha : NoNL a) (hb : NoNL b) : NoNL (a ++ b) := by
  intro c hc
  simp only [List.mem_append] at hc
  rcases hc with hc | hc
  · exact ha c hc
  · exact hb c hc

theorem Good.append {a b : List Nat} (ha : Good a) (hb : Good b) : Good (a ++ b) :=
  ⟨ha.1.append hb.1, ha.2.append hb.2⟩

/-- characters that are neither `#`, `"`, `\`, LF nor CR -/
def plainCh (c : Nat) : Prop := c ≠ 35 ∧ c ≠ 34 ∧ c ≠ 92 ∧ c ≠ 10 ∧ c ≠ 13

theorem good_of_plain {l : List Nat} (h : ∀ c ∈ l, plainCh c) : Good l := by
  induction l with
  | nil => exact ⟨.nil, fun c hc => by simp at hc⟩
  | cons c cs ih =>
    have hc := h c (by simp)
    have := ih (fun x hx => h x (by simp [hx]))
    refine ⟨.ch hc.1 hc.2.1 this.1, ?_⟩
    intro x hx
    simp only [List.mem_cons] at hx
    rcases hx with rfl | hx
    · exact ⟨hc.2.2.2.1, hc.2.2.2.2⟩
    · exact this.2 x hx

theorem hexDigit_plain (n : Nat) (h : n < 16) : plainCh (hexDigit n) := by
  unfold hexDigit plainCh
  split <;> omega

theorem StrBody.append {a b : List Nat} (ha : StrBody a) (hb : StrBody b) : StrBody (a ++ b) := by
  induction ha with
  | nil => simpa using hb
  | ch h1 h2 _ ih => exact .ch h1 h2 ih
  | esc h1 _ ih => exact .esc h1 ih

theorem u4_body (n : Nat) : StrBody (u4 n) ∧ NoNL (u4 n) := by
  have h1 := hexDigit_plain (n / 4096 % 16) (Nat.mod_lt _ (by decide))
  have h2 := hexDigit_plain (n / 256 % 16) (Nat.mod_lt _ (by decide))
  have h3 := hexDigit_plain (n / 16 % 16) (Nat.mod_lt _ (by decide))
  have h4 := hexDigit_plain (n % 16) (Nat.mod_lt _ (by decide))
  constructor
  · exact .esc (by decide) (.ch h1.2.1 h1.2.2.1 (.ch h2.2.1 h2.2.2.1 (.ch h3.2.1 h3.2.2.1 (.ch h4.2.1 h4.2.2.1 .nil))))
  · intro c hc
    simp only [u4, List.mem_cons, List.not_mem_nil, or_false] at hc
    rcases hc with rfl | rfl | rfl | rfl | rfl | rfl
    · decide
    · decide
    · exact h1.2.2.2
    · exact h2.2.2.2
    · exact h3.2.2.2
    · exact h4.2.2.2

theorem escChar_body (c : Nat) : StrBody (escChar c) ∧ NoNL (escChar c) := by
  unfold escChar
  split
  · exact ⟨.esc (by decide) .nil, by intro x hx; simp at hx; rcases hx with rfl | rfl <;> decide⟩
  split
  · exact ⟨.esc (by decide) .nil, by intro x hx; simp at hx; subst hx; decide⟩
  split
  · exact ⟨.esc (by decide) .nil, by intro x hx; simp at hx; rcases hx with rfl | rfl <;> decide⟩
  split
  · exact ⟨.esc (by decide) .nil, by intro x hx; simp at hx; rcases hx with rfl | rfl <;> decide⟩
  split
  · exact ⟨.esc (by decide) .nil, by intro x hx; simp at hx; rcases hx with rfl | rfl <;> decide⟩
  split
  · exact ⟨.esc (by decide) .nil, by intro x hx; simp at hx; rcases hx with rfl | rfl <;> decide⟩
  split
  · exact ⟨.esc (by decide) .nil, by intro x hx; simp at hx; rcases hx with rfl | rfl <;> decide⟩
  split
  · rename_i h1 h2 _ _ _ _ _ hr
    exact ⟨.ch h1 h2 .nil, by intro x hx; simp at hx; subst hx; omega⟩
  split
  · exact u4_body c
  · exact ⟨(u4_body _).1.append (u4_body _).1, (u4_body _).2.append (u4_body _).2⟩

theorem escBody_body (s : Str) : StrBody (escBody s) ∧ NoNL (escBody s) := by
  induction s with
  | nil => exact ⟨.nil, fun c hc => by simp [escBody] at hc⟩
  | cons c cs ih =>
    simp only [escBody]
    exact ⟨(escChar_body c).1.append ih.1, (escChar_body c).2.append ih.2⟩

theorem strLit_good (s : Str) : Good (strLit s) := by
  have := escBody_body s
  constructor
  · exact Toks.str this.1 .nil
  · intro c hc
    simp only [strLit, List.mem_cons, List.mem_append, List.not_mem_nil, or_false] at hc
    rcases hc with rfl | hc | rfl
    · decide
    · exact this.2 c hc
    · decide

theorem natDigits_mem (fuel n : Nat) (acc : List Nat) :
    ∀ c ∈ natDigits fuel n acc, (48 ≤ c ∧ c ≤ 57) ∨ c ∈ acc := by
  induction fuel generalizing n acc with
  | zero => intro c hc; exact Or.inr hc
  | succ fuel ih =>
    intro c hc
    simp only [natDigits] at hc
    split at hc
    · simp only [List.mem_cons] at hc
      rcases hc with rfl | hc
      · left; omega
      · exact Or.inr hc
    · rcases ih _ _ c hc with h | h
      · exact Or.inl h
      · simp only [List.mem_cons] at h
        rcases h with rfl | h
        · left; omega
        · exact Or.inr h

theorem intLit_plain (n : Int) : ∀ c ∈ intLit n, plainCh c := by
  intro c hc
  unfold intLit at hc
  split at hc
  · simp only [List.mem_cons] at hc
    rcases hc with rfl | hc
    · unfold plainCh; decide
    · rcases natDigits_mem _ _ _ c hc with h | h
      · unfold plainCh; omega
      · simp at h
  · rcases natDigits_mem _ _ _ c hc with h | h
    · unfold plainCh; omega
    · simp at h

/-- a float literal (`repr`) without `#`, `"`, `\`, LF, CR -/
def cleanLit (l : Str) : Bool := l.all (fun c => c != 35 && c != 34 && c != 92 && c != 10 && c != 13)

theorem floatLit_good (l : Str) (h : cleanLit l = true) : Good (floatLit l) := by
  unfold floatLit
  split
  · exact good_of_plain (by intro c hc; simp at hc; unfold plainCh; rcases hc with rfl | rfl | rfl <;> decide)
  split
  · exact good_of_plain (by intro c hc; simp at hc; unfold plainCh; omega)
  split
  · exact good_of_plain (by intro c hc; simp at hc; unfold plainCh; omega)
  · apply good_of_plain
    intro c hc
    simp only [cleanLit, List.all_eq_true, Bool.and_eq_true, bne_iff_ne, ne_eq] at h
    have := h c hc
    exact ⟨this.1.1.1.1, this.1.1.1.2, this.1.1.2, this.1.2, this.2⟩

mutual
/-- JSON-serialisable with well-behaved float literals -/
def clean : PV → Bool
  | .flt l => cleanLit l
  | .list xs => cleanL xs
  | .tuple xs => cleanL xs
  | .dict kvs => cleanK kvs
  | .inst _ _ => false
  | _ => true
def cleanL : List PV → Bool
  | [] => true
  | x :: xs => clean x && cleanL xs
def cleanK : List (Str × PV) → Bool
  | [] => true
  | (_, v) :: kvs => clean v && cleanK kvs
end

def AllGood (ls : List (List Nat)) : Prop := ∀ l ∈ ls, Good l

theorem allGood_prefixFirst {pre : List Nat} {ls : List (List Nat)} (hp : Good pre) (h : AllGood ls) :
    AllGood (prefixFirst pre ls) := by
  cases ls with
  | nil => intro l hl; simp [prefixFirst] at hl; subst hl; exact hp
  | cons a as =>
    intro l hl
    simp only [prefixFirst, List.mem_cons] at hl
    rcases hl with rfl | hl
    · exact hp.append (h a (by simp))
    · exact h l (by simp [hl])

theorem allGood_suffixLast {suf : List Nat} {ls : List (List Nat)} (hs : Good suf) (h : AllGood ls) :
    AllGood (suffixLast suf ls) := by
  induction ls with
  | nil => intro l hl; simp [suffixLast] at hl; subst hl; exact hs
  | cons a as ih =>
    cases as with
    | nil => intro l hl; simp [suffixLast] at hl; subst hl; exact (h a (by simp)).append hs
    | cons b bs =>
      intro l hl
      simp only [suffixLast, List.mem_cons] at hl
      rcases hl with rfl | hl
      · exact h _ (by simp)
      · exact ih (fun x hx => h x (by simp [hx])) l (by simpa [suffixLast] using hl)

theorem AllGood.append {a b : List (List Nat)} (ha : AllGood a) (hb : AllGood b) : AllGood (a ++ b) := by
  intro l hl
  simp only [List.mem_append] at hl
  rcases hl with hl | hl
  · exact ha l hl
  · exact hb l hl

theorem indent_good (lvl : Nat) : Good (indent lvl) :=
  good_of_plain (by intro c hc; simp [indent] at hc; unfold plainCh; omega)

theorem good_single (c : Nat) (h : plainCh c) : Good [c] :=
  good_of_plain (by intro x hx; simp at hx; subst hx; exact h)

mutual
theorem render_good : ∀ (lvl : Nat) (j : PV), clean j = true → AllGood (render lvl j)
  | _, .none, _ => by
    intro l hl; simp [render] at hl; subst hl
    exact good_of_plain (by intro c hc; simp at hc; unfold plainCh; omega)
  | _, .bool true, _ => by
    intro l hl; simp [render] at hl; subst hl
    exact good_of_plain (by intro c hc; simp at hc; unfold plainCh; omega)
  | _, .bool false, _ => by
    intro l hl; simp [render] at hl; subst hl
    exact good_of_plain (by intro c hc; simp at hc; unfold plainCh; omega)
  | _, .int n, _ => by
    intro l hl; simp [render] at hl; subst hl
    exact good_of_plain (intLit_plain n)
  | _, .flt lit, h => by
    intro l hl; simp [render] at hl; subst hl
    exact floatLit_good lit (by simpa [clean] using h)
  | _, .fltOfInt n, _ => by
    intro l hl; simp [render] at hl; subst hl
    apply good_of_plain
    intro c hc
    simp only [List.mem_cons, List.mem_append, List.not_mem_nil, or_false] at hc
    rcases hc with rfl | hc | rfl
    · unfold plainCh; decide
    · exact intLit_plain n c hc
    · unfold plainCh; decide
  | _, .str s, _ => by
    intro l hl; simp [render] at hl; subst hl
    exact strLit_good s
  | lvl, .list xs, h => by
    cases xs with
    | nil =>
      intro l hl; simp [render] at hl; subst hl
      exact good_of_plain (by intro c hc; simp at hc; unfold plainCh; omega)
    | cons x xs =>
      simp only [render]
      intro l hl
      simp only [List.mem_cons, List.mem_append, List.not_mem_nil, or_false] at hl
      rcases hl with rfl | hl | rfl
      · exact good_single 91 (by unfold plainCh; decide)
      · exact renderItems_good (lvl + 1) (x :: xs) (by simpa [clean] using h) l hl
      · exact (indent_good lvl).append (good_single 93 (by unfold plainCh; decide))
  | lvl, .tuple xs, h => by
    cases xs with
    | nil =>
      intro l hl; simp [render] at hl; subst hl
      exact good_of_plain (by intro c hc; simp at hc; unfold plainCh; omega)
    | cons x xs =>
      simp only [render]
      intro l hl
      simp only [List.mem_cons, List.mem_append, List.not_mem_nil, or_false] at hl
      rcases hl with rfl | hl | rfl
      · exact good_single 91 (by unfold plainCh; decide)
      · exact renderItems_good (lvl + 1) (x :: xs) (by simpa [clean] using h) l hl
      · exact (indent_good lvl).append (good_single 93 (by unfold plainCh; decide))
  | lvl, .dict kvs, h => by
    cases kvs with
    | nil =>
      intro l hl; simp [render] at hl; subst hl
      exact good_of_plain (by intro c hc; simp at hc; unfold plainCh; omega)
    | cons kv kvs =>
      simp only [render]
      intro l hl
      simp only [List.mem_cons, List.mem_append, List.not_mem_nil, or_false] at hl
      rcases hl with rfl | hl | rfl
      · exact good_single 123 (by unfold plainCh; decide)
      · exact renderPairs_good (lvl + 1) (kv :: kvs) (by simpa [clean] using h) l hl
      · exact (indent_good lvl).append (good_single 125 (by unfold plainCh; decide))
  | _, .inst _ _, h => by simp [clean] at h
theorem renderItems_good : ∀ (lvl : Nat) (xs : List PV), cleanL xs = true → AllGood (renderItems lvl xs)
  | _, [], _ => by intro l hl; simp [renderItems] at hl
  | lvl, [x], h => by
    simp only [cleanL, Bool.and_eq_true] at h
    simp only [renderItems]
    exact allGood_prefixFirst (indent_good lvl) (render_good lvl x h.1)
  | lvl, x :: y :: ys, h => by
    simp only [cleanL, Bool.and_eq_true] at h
    simp only [renderItems]
    refine AllGood.append (allGood_suffixLast (good_single 44 (by unfold plainCh; decide))
      (allGood_prefixFirst (indent_good lvl) (render_good lvl x h.1))) ?_
    exact renderItems_good lvl (y :: ys) (by simp [cleanL, h.2])
theorem renderPairs_good : ∀ (lvl : Nat) (kvs : List (Str × PV)), cleanK kvs = true → AllGood (renderPairs lvl kvs)
  | _, [], _ => by intro l hl; simp [renderPairs] at hl
  | lvl, [(k, v)], h => by
    simp only [cleanK, Bool.and_eq_true] at h
    simp only [renderPairs]
    refine allGood_prefixFirst ?_ (render_good lvl v h.1)
    exact ((indent_good lvl).append (strLit_good k)).append
      (good_of_plain (by intro c hc; simp at hc; unfold plainCh; omega))
  | lvl, (k, v) :: kv2 :: kvs, h => by
    simp only [cleanK, Bool.and_eq_true] at h
    simp only [renderPairs]
    refine AllGood.append (allGood_suffixLast (good_single 44 (by unfold plainCh; decide))
      (allGood_prefixFirst ?_ (render_good lvl v h.1))) ?_
    · exact ((indent_good lvl).append (strLit_good k)).append
        (good_of_plain (by intro c hc; simp at hc; unfold plainCh; omega))
    · exact renderPairs_good lvl (kv2 :: kvs) (by obtain ⟨k2, v2⟩ := kv2; simp [cleanK] at h ⊢; exact h.2)
end

theorem render_ne_nil (lvl : Nat) (j : PV) : render lvl j ≠ [] := by
  cases j with
  | bool b => cases b <;> simp [render]
  | list xs => cases xs <;> simp [render]
  | tuple xs => cases xs <;> simp [render]
  | dict xs => cases xs <;> simp [render]
  | _ => simp [render]

end QmiModel.Config
