import QmiModel.Lemmas.C08Term2
import QmiModel.Lemmas.C08Own
import QmiModel.Lemmas.C08Live
import QmiModel.Lemmas.C08SimShape
/-! C08 — termination measure: every micro step lowers the measure. -/
namespace QmiModel.PubSub
set_option linter.unusedSimpArgs false

/-- lexicographic order on triples -/
def Lt3 (a b : Nat × Nat × Nat) : Prop :=
  a.1 < b.1 ∨ (a.1 = b.1 ∧ (a.2.1 < b.2.1 ∨ (a.2.1 = b.2.1 ∧ a.2.2 < b.2.2)))

def mu (B T : Nat) (s : State) : Nat × Nat × Nat := (mu0 B T s, mu1 B T s, mu2 B T s)

theorem lt3_of0 {a b : Nat × Nat × Nat} (h : a.1 < b.1) : Lt3 a b := Or.inl h

theorem lt3_of1 {a b : Nat × Nat × Nat} (h0 : a.1 ≤ b.1) (h1 : a.2.1 < b.2.1) : Lt3 a b := by
  unfold Lt3; omega

theorem lt3_of2 {a b : Nat × Nat × Nat} (h0 : a.1 ≤ b.1) (h1 : a.2.1 ≤ b.2.1) (h2 : a.2.2 < b.2.2) : Lt3 a b := by
  unfold Lt3; omega

/-! ### sums -/

theorem progSum_update {W : List MOp → Nat} {B T : Nat} {s s' : State} {th : Th} (hb : th.below B T)
    (h : ∀ th', th' ≠ th → s'.prog th' = s.prog th') :
    progSum W B T s' + W (s.prog th) = progSum W B T s + W (s'.prog th) := by
  unfold progSum
  cases th with
  | user c t =>
    have hc : c < B := hb.1
    have ht : t < T := hb.2
    have hin := sumTo_update (n := T) (f := fun t' => W (s'.prog (.user c t'))) (g := fun t' => W (s.prog (.user c t')))
      (i := t) ht (fun j hj => by
        show W (s'.prog (.user c j)) = W (s.prog (.user c j))
        rw [h _ (by intro e; cases e; exact hj rfl)])
    have hsock : s'.prog (.sock c) = s.prog (.sock c) := h _ (by intro e; cases e)
    have hout := sumTo_update (n := B)
      (f := fun c' => sumTo T (fun t' => W (s'.prog (.user c' t'))) + W (s'.prog (.sock c')))
      (g := fun c' => sumTo T (fun t' => W (s.prog (.user c' t'))) + W (s.prog (.sock c'))) (i := c) hc (fun j hj => by
        show sumTo T (fun t' => W (s'.prog (.user j t'))) + W (s'.prog (.sock j))
          = sumTo T (fun t' => W (s.prog (.user j t'))) + W (s.prog (.sock j))
        rw [h (.sock j) (by intro e; cases e)]
        congr 1
        exact sumTo_congr (fun t' _ => by rw [h _ (by intro e; cases e; exact hj rfl)]))
    rw [hsock] at hout
    omega
  | sock c =>
    have hc : c < B := hb
    have hout := sumTo_update (n := B)
      (f := fun c' => sumTo T (fun t' => W (s'.prog (.user c' t'))) + W (s'.prog (.sock c')))
      (g := fun c' => sumTo T (fun t' => W (s.prog (.user c' t'))) + W (s.prog (.sock c'))) (i := c) hc (fun j hj => by
        show sumTo T (fun t' => W (s'.prog (.user j t'))) + W (s'.prog (.sock j))
          = sumTo T (fun t' => W (s.prog (.user j t'))) + W (s.prog (.sock j))
        rw [h (.sock j) (by intro e; cases e; exact hj rfl)]
        congr 1
        exact sumTo_congr (fun t' _ => by rw [h _ (by intro e; cases e)]))
    have hin : sumTo T (fun t' => W (s'.prog (.user c t'))) = sumTo T (fun t' => W (s.prog (.user c t'))) :=
      sumTo_congr (fun t' _ => by rw [h _ (by intro e; cases e)])
    rw [hin] at hout
    omega

/-- the part of `mu1` that belongs to a context -/
def ctxW (cs : CtxSt) : Nat := loopW cs.loopQ + potPend cs

/-- the part of `mu1` that belongs to a connection -/
def connW (x : Conn) : Nat := halfW (x.half true) + halfW (x.half false)

theorem mu1_eq (B T : Nat) (s : State) :
    mu1 B T s = progSum W1 B T s + sumTo B (fun c => ctxW (s.ctx c)) + sumTo s.nextConn (fun n => connW (s.conn n)) := rfl

theorem ctxSum_update {B : Nat} {s s' : State} {c : Ctx} (hc : c < B) (h : ∀ c', c' ≠ c → s'.ctx c' = s.ctx c') :
    sumTo B (fun c => ctxW (s'.ctx c)) + ctxW (s.ctx c) = sumTo B (fun c => ctxW (s.ctx c)) + ctxW (s'.ctx c) :=
  sumTo_update (f := fun c => ctxW (s'.ctx c)) (g := fun c => ctxW (s.ctx c)) hc (fun j hj => by show ctxW (s'.ctx j) = ctxW (s.ctx j); rw [h j hj])

/-! ### open connection ends -/

theorem openPot_le_of {s s' : State} {n : ConnId} {b : Bool}
    (hown : ((s'.conn n).half b).owner = ((s.conn n).half b).owner)
    (hopen : ((s'.conn n).half b).isOpen = true → ((s.conn n).half b).isOpen = true)
    (hcl : ((s'.conn n).half b).isOpen = true → MOp.closeConn n b ∈ s.prog (.sock ((s.conn n).half b).owner) →
      MOp.closeConn n b ∈ s'.prog (.sock ((s.conn n).half b).owner)) :
    openPot s' n b ≤ openPot s n b := by
  unfold openPot
  split
  · rename_i h
    rw [hown] at h
    rw [if_pos ⟨hopen h.1, fun hm => h.2 (hcl h.1 hm)⟩]
    exact Nat.le_refl _
  · exact Nat.zero_le _

theorem openPot_micro {s s' : State} {th : Th} {ch ch2 : Nat} {op : MOp} {rest : List MOp} {o : Out}
    (hso : ∀ c, sockOps (s.prog (.sock c))) (hprog : s.prog th = op :: rest)
    (hs : microStep s th ch ch2 op rest = some (s', o)) (n : ConnId) (b : Bool) : openPot s' n b ≤ openPot s n b := by
  refine openPot_le_of (microStep_owner hs n b) (fun h => (microStep_open hs h).1) (fun h hm => ?_)
  have hne := (microStep_open hs h).2
  by_cases e : th = .sock ((s.conn n).half b).owner
  · rw [← e] at hm ⊢
    rw [hprog] at hm
    have hop : op.isSockOp = true := by
      have := hso ((s.conn n).half b).owner op (by rw [← e, hprog]; exact List.mem_cons_self)
      exact this
    refine microStep_sock_rest hop hs _ ?_
    cases hm with
    | head => exact absurd rfl hne
    | tail _ h' => exact h'
  · rw [(microStep_frame hs).prog_other _ (fun e' => e e'.symm)]; exact hm

/-! ### one micro-operation: `mu0`, `mu2`, closing a connection end -/

theorem W0_onSendFail (m : Msg) : W0 (onSendFail m) = 0 := by
  cases m <;> simp [onSendFail, W0, w0]

theorem W0_pubTail (ps : List Peer) (ob : Obj) (sg : Sg) (p : Pub) (rest : List MOp) :
    W0 (if ps = [] then rest else .pubSend ps ob sg p :: rest) = W0 rest := by
  split <;> simp [W0_cons, w0]

theorem W0_notTail (ns : List (Sg × Peer)) (ob : Obj) (rest : List MOp) :
    W0 (if ns = [] then rest else .notify ns ob :: rest) = W0 rest := by
  split <;> simp [W0_cons, w0]

theorem W0_snapTail (rs : List Rcv) (sid : Nat) (k : Key) (p : Pub) (rest : List MOp) :
    W0 (if rs = [] then rest else .deliver sid rs k p :: rest) = W0 rest := by
  split <;> simp [W0_cons, w0]

theorem W0_hrs (l : List ReqId) : W0 (l.map (fun id => MOp.handleReply id false)) = 0 := by
  induction l with
  | nil => rfl
  | cons a l ih => simp only [List.map_cons, W0_cons, w0, ih]

theorem W1_hrs (l : List ReqId) : W1 (l.map (fun id => MOp.handleReply id false)) = l.length := by
  induction l with
  | nil => rfl
  | cons a l ih => simp only [List.map_cons, W1_cons, w1, ih, Whr_eq, List.length_cons]; omega

theorem W0_of_pushes {more : List MOp} (h : ∀ op' ∈ more, ∃ d id ob sg, op' = MOp.sendChk d (.subReq id ob sg true)) : W0 more = 0 := by
  induction more with
  | nil => rfl
  | cons a l ih =>
    obtain ⟨d, id, ob, sg, rfl⟩ := h a List.mem_cons_self
    simp only [W0_cons, w0, Nat.zero_add]
    exact ih (fun op' ho => h op' (List.mem_cons_of_mem _ ho))

set_option maxHeartbeats 4000000 in
/-- no micro-operation puts a `snapRemote` or an `objRemoved` into its program -/
theorem micro_W0 {s s' : State} {th : Th} {ch ch2 : Nat} {op : MOp} {rest : List MOp} {o : Out}
    (hs : microStep s th ch ch2 op rest = some (s', o)) : W0 (s'.prog th) ≤ W0 rest := by
  cases op <;> simp only [microStep] at hs
  all_goals (try (split at hs))
  all_goals (try (split at hs))
  all_goals (try (split at hs))
  all_goals (try (split at hs))
  all_goals (try (simp at hs))
  all_goals (try (have f1 := handleReplyStep_pushes ‹handleReplyStep _ _ _ = some _›; have f2 := W0_of_pushes f1))
  all_goals (try (obtain ⟨rfl, -⟩ := hs))
  all_goals (simp only [State.setProg, State.setCtx, upd, if_true, W0_cons, W0_append, W0_nil, w0, W0_onSendFail, W0_pubTail,
    W0_notTail, W0_snapTail, W0_hrs])
  all_goals (try omega)


/-- a delivery leaves `mu1` alone and lowers `mu2` -/
theorem micro_deliver {s s' : State} {th : Th} {ch ch2 : Nat} {sid : Nat} {rs : List Rcv} {k : Key} {p : Pub} {rest : List MOp} {o : Out}
    (hs : microStep s th ch ch2 (.deliver sid rs k p) rest = some (s', o)) :
    W1 (s'.prog th) = W1 rest ∧ ctxW (s'.ctx th.ctx) = ctxW (s.ctx th.ctx) ∧ W2 (s'.prog th) < W2 (.deliver sid rs k p :: rest) := by
  simp only [microStep] at hs
  split at hs
  · rename_i hm
    simp only [Option.some.injEq, Prod.mk.injEq] at hs
    obtain ⟨rfl, -⟩ := hs
    have hlen := List.length_erase_of_mem hm
    have hpos := List.length_pos_of_mem hm
    simp only [State.setProg, State.setCtx, upd, if_true, ctxW, potPend]
    refine ⟨?_, trivial, ?_⟩
    · split <;> simp [W1_cons, w1]
    · split
      · simp only [W2_cons, w2]; omega
      · simp only [W2_cons, w2]; omega
  · simp at hs

theorem halfW_closed (h : Half) : halfW { h with isOpen := false, inbox := [], pend := [] } = 0 := by
  simp [halfW, inboxW]

/-- `_PeerTcpConnection.close`: the failure replies are paid for by the requests registered on the connection end -/
theorem micro_close {s s' : State} {th : Th} {ch ch2 : Nat} {cn : ConnId} {cli : Bool} {rest : List MOp} {o : Out}
    (hs : microStep s th ch ch2 (.closeConn cn cli) rest = some (s', o)) :
    s'.ctx = s.ctx ∧ (∀ n, n ≠ cn → s'.conn n = s.conn n) ∧
    W1 (s'.prog th) + connW (s'.conn cn) < W1 (.closeConn cn cli :: rest) + connW (s.conn cn) := by
  simp only [microStep, Option.some.injEq, Prod.mk.injEq] at hs
  obtain ⟨rfl, -⟩ := hs
  refine ⟨rfl, fun n hn => by simp [State.setProg, upd, hn], ?_⟩
  simp only [State.setProg, upd, if_true, W1_append, W1_hrs, W1_cons, w1, connW]
  cases cli <;> simp only [Conn.half, Conn.setHalf, if_true, Bool.false_eq_true, if_false, halfW_closed] <;>
    simp only [halfW, Whr_eq] <;> omega

theorem slow_cases {op : MOp} (h : op.slow = true) :
    (∃ ob sg p, op = .snapRemote ob sg p) ∨ (∃ ob, op = .objRemoved ob) ∨ (∃ sid rs k p, op = .deliver sid rs k p) ∨
    (∃ cn cli, op = .closeConn cn cli) := by
  cases op <;> simp [MOp.slow] at h
  · exact Or.inr (Or.inr (Or.inl ⟨_, _, _, _, rfl⟩))
  · exact Or.inl ⟨_, _, _, rfl⟩
  · exact Or.inr (Or.inl ⟨_, rfl⟩)
  · exact Or.inr (Or.inr (Or.inr ⟨_, _, rfl⟩))

/-- every micro step lowers the measure -/
theorem micro_decr {B T : Nat} {s s' : State} {th : Th} {ch ch2 : Nat} {op : MOp} {rest : List MOp} {o : Out}
    (hr : Reach s) (hb : Bnd B T s) (hprog : s.prog th = op :: rest)
    (hs : microStep s th ch ch2 op rest = some (s', o)) : Lt3 (mu B T s') (mu B T s) := by
  have hbl : th.below B T := hb.below (by rw [hprog]; simp)
  have hc : th.ctx < B := Th.below_ctx hbl
  have hfr := microStep_frame hs
  have hfl := microStep_fields hs
  have hP0 := progSum_update (W := W0) hbl hfr.prog_other
  have hP1 := progSum_update (W := W1) hbl hfr.prog_other
  have hP2 := progSum_update (W := W2) hbl hfr.prog_other
  have hC := ctxSum_update hc hfr.ctx_other
  have hw0 := micro_W0 hs
  have hO : sumTo s'.nextConn (fun n => openPot s' n true + openPot s' n false)
      ≤ sumTo s.nextConn (fun n => openPot s n true + openPot s n false) := by
    rw [hfr.nextConn]
    exact sumTo_le (fun n _ => Nat.add_le_add (openPot_micro (sockOps_reach hr) hprog hs n true)
      (openPot_micro (sockOps_reach hr) hprog hs n false))
  rw [hprog, W0_cons] at hP0
  have h0 : mu0 B T s' + w0 op ≤ mu0 B T s := by simp only [mu0]; omega
  have h0' : mu0 B T s' ≤ mu0 B T s := Nat.le_trans (Nat.le_add_right _ _) h0
  cases hsl : op.slow with
  | false =>
    have hl := micro_loc1 (pendInv_reach hr th.ctx) hs hsl
    have hcl : op.isClose = false := by cases op <;> simp_all [MOp.slow, MOp.isClose]
    refine lt3_of1 h0' ?_
    show mu1 B T s' < mu1 B T s
    rw [mu1_eq, mu1_eq, hfr.nextConn, hfl.conn hcl]
    simp only [loc1] at hl
    simp only [ctxW] at hC ⊢
    rw [hprog] at hP1
    omega
  | true =>
    rcases slow_cases hsl with ⟨ob, sg, p, rfl⟩ | ⟨ob, rfl⟩ | ⟨sid, rs, k, p, rfl⟩ | ⟨cn, cli, rfl⟩
    · exact lt3_of0 (by simp only [w0] at h0; show mu0 B T s' < mu0 B T s; omega)
    · exact lt3_of0 (by simp only [w0] at h0; show mu0 B T s' < mu0 B T s; omega)
    · obtain ⟨d1, d2, d3⟩ := micro_deliver hs
      have hcl : (MOp.deliver sid rs k p).isClose = false := rfl
      refine lt3_of2 h0' ?_ ?_
      · show mu1 B T s' ≤ mu1 B T s
        rw [mu1_eq, mu1_eq, hfr.nextConn, hfl.conn hcl]
        rw [hprog, W1_cons] at hP1
        simp only [w1] at hP1
        omega
      · show mu2 B T s' < mu2 B T s
        simp only [mu2]
        rw [hprog] at hP2
        omega
    · obtain ⟨c1, c2, c3⟩ := micro_close hs
      have hcn := ((ownInv_reach hr).close th cn cli (by rw [hprog]; exact List.mem_cons_self)).1
      refine lt3_of1 h0' ?_
      show mu1 B T s' < mu1 B T s
      rw [mu1_eq, mu1_eq, hfr.nextConn, c1]
      have hN := sumTo_update (n := s.nextConn) (f := fun n => connW (s'.conn n)) (g := fun n => connW (s.conn n)) hcn
        (fun j hj => by show connW (s'.conn j) = connW (s.conn j); rw [c2 j hj])
      rw [hprog] at hP1
      omega

end QmiModel.PubSub
