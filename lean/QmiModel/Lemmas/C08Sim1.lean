import QmiModel.Lemmas.C08SimAbs
import QmiModel.Lemmas.C08SimMisc
/-! C08, simulation layer — steps that the abstraction does not see. -/
set_option linter.unusedSimpArgs false
namespace QmiModel.PubSub
open Proto

/-- what a live connection of a reachable state looks like -/
structure LiveFacts (s : State) (cn : ConnId) : Prop where
  ne : cliOf s cn ≠ srvOf s cn
  lt : cn < s.nextConn
  openA : ((s.conn cn).half true).isOpen = true
  openP : ((s.conn cn).half false).isOpen = true

theorem live_facts {s : State} (hr : Reach s) {cn : ConnId} (hl : Live s cn) : LiveFacts s cn := by
  have ht := topoInv_reach hr
  obtain ⟨hlt, -, -⟩ := ht.peersN _ _ _ hl.regA
  exact ⟨ht.owners cn hlt, hlt, registered_is_open hr hl.aliveA hl.regA, registered_is_open hr hl.aliveP hl.regP⟩

/-- a step that changes nothing the abstraction looks at -/
theorem sim_stutter {s s' : State} {cn : ConnId} {ob : Obj} {sg : Sg} {x : AS}
    (hp : srvOf s' cn = srvOf s cn)
    (hv : VEq cn (keyOf s cn ob sg) (viewOf s cn ob sg) (viewOf s' cn ob sg))
    (hrm : ∀ th : Th, th.ctx = srvOf s cn → remPhase cn ob sg (s'.prog th) = remPhase cn ob sg (s.prog th))
    (hfail : ∀ id, curOf (s.ctx (cliOf s cn)) (keyOf s cn ob sg) = some id → (FailCar s' cn id ↔ FailCar s cn id))
    (h : Sim s cn ob sg x) : Sim s' cn ob sg x := by
  obtain ⟨rm, failed, hrel, hf, rfl⟩ := h
  have hk : keyOf s' cn ob sg = keyOf s cn ob sg := by simp only [keyOf, hp]
  have hcur : curOf (s'.ctx (cliOf s' cn)) (keyOf s' cn ob sg) = curOf (s.ctx (cliOf s cn)) (keyOf s cn ob sg) := by
    have := hv.po; simp only [viewOf] at this; simp only [curOf, this]
  refine ⟨rm, failed, ⟨?_, ?_⟩, ?_, ?_⟩
  · intro th hth hne
    rw [hp] at hth; rw [hrm th hth] at hne ⊢; exact hrel.all th hth hne
  · intro hne
    obtain ⟨th, hth, e⟩ := hrel.ex hne
    exact ⟨th, by rw [hp]; exact hth, by rw [hrm th hth]; exact e⟩
  · intro id hid
    rw [hcur] at hid
    rw [hf id hid, hfail id hid]
  · simp only [absOf, hk]; exact (absV_congr hv rm failed).symm


/-- `FailCar` depends on the programs of the threads of the subscribing context and on the pending tables of its other
connection ends -/
theorem failCar_congr {s s' : State} {cn : ConnId} {id : ReqId} (hc : cliOf s' cn = cliOf s cn)
    (hprog : ∀ th : Th, th.ctx = cliOf s cn → (MOp.handleReply id false ∈ s'.prog th ↔ MOp.handleReply id false ∈ s.prog th))
    (hown : ∀ n, ((s'.conn n).half true).owner = ((s.conn n).half true).owner)
    (hpend : ∀ n, n ≠ cn → ((s.conn n).half true).owner = cliOf s cn →
      (id ∈ ((s'.conn n).half true).pend ↔ id ∈ ((s.conn n).half true).pend)) :
    FailCar s' cn id ↔ FailCar s cn id := by
  simp only [FailCar, hc, hown]
  constructor
  · rintro (⟨th, h1, h2⟩ | ⟨n, h1, h2, h3⟩)
    · exact Or.inl ⟨th, h1, (hprog th h1).1 h2⟩
    · exact Or.inr ⟨n, h1, h2, (hpend n h1 h2).1 h3⟩
  · rintro (⟨th, h1, h2⟩ | ⟨n, h1, h2, h3⟩)
    · exact Or.inl ⟨th, h1, (hprog th h1).2 h2⟩
    · exact Or.inr ⟨n, h1, h2, (hpend n h1 h2).2 h3⟩

/-- a micro step of a thread of a third context -/
theorem sim_micro_foreign {s s' : State} {th : Th} {ch ch2 : Nat} {op : MOp} {rest : List MOp} {o : Out}
    (hr : Reach s) (hprog : s.prog th = op :: rest) (hs : microStep s th ch ch2 op rest = some (s', o))
    {cn : ConnId} {ob : Obj} {sg : Sg} {x : AS} (hA : th.ctx ≠ cliOf s cn) (hP : th.ctx ≠ srvOf s cn)
    (h : Sim s cn ob sg x) : Sim s' cn ob sg x := by
  have hf := microStep_frame hs
  have hown := microStep_owner hs
  have hhalf : ∀ n b, ((s.conn n).half b).owner ≠ th.ctx → (s'.conn n).half b = (s.conn n).half b := by
    intro n b hne
    rcases microStep_half hs n b with e | ⟨-, -, -, e⟩
    · exact e
    · exact absurd ((ownInv_reach hr).close th n b (by rw [hprog, e]; exact List.mem_cons_self)).2 hne
  have hpo : ∀ th' : Th, th'.ctx ≠ th.ctx → s'.prog th' = s.prog th' := fun th' hne =>
    hf.prog_other th' (fun e => hne (by rw [e]))
  refine sim_stutter (hown cn false) ?_ (fun th' hth => by rw [hpo th' (by rw [hth]; exact Ne.symm hP)]) ?_ h
  · simp only [viewOf, cliOf, srvOf, keyOf, hown]
    have e1 := hf.ctx_other _ (Ne.symm hA)
    have e2 := hf.ctx_other _ (Ne.symm hP)
    have e3 := hpo (.sock (cliOf s cn)) (by simp only [Th.ctx]; exact Ne.symm hA)
    have e4 := hpo (.sock (srvOf s cn)) (by simp only [Th.ctx]; exact Ne.symm hP)
    have e5 := hhalf cn true (Ne.symm hA)
    simp only [cliOf, srvOf] at e1 e2 e3 e4
    rw [e1, e2, e3, e4, e5]
    exact VEq.rfl' _ _ _
  · intro id _
    refine failCar_congr (hown cn true) (fun th' hth => by rw [hpo th' (by rw [hth]; exact Ne.symm hA)]) (fun n => hown n true) ?_
    intro n _ ho
    rw [hhalf n true (by rw [ho]; exact Ne.symm hA)]


theorem hdlTok_dspFree {src : Peer} {id : ReqId} {l : List MOp} (h : dspFree l) : hdlTok src id l = none := by
  cases l with
  | nil => rfl
  | cons op l =>
    have h1 := h op List.mem_cons_self
    cases op <;> simp only [MOp.isDsp] at h1 <;> (try (cases h1; done)) <;> (try rfl)
    all_goals (rename_i d m; cases m <;> simp only [MOp.isDsp] at h1 <;> (try (cases h1; done)) <;> rfl)

theorem remPhase_remFree {cn : ConnId} {ob : Obj} {sg : Sg} {l : List MOp} (h : remFree l) : remPhase cn ob sg l = .none := by
  cases l with
  | nil => rfl
  | cons op l =>
    have h1 := h op List.mem_cons_self
    cases op <;> simp only [MOp.isRem] at h1 <;> (try (cases h1; done)) <;> (try rfl)
    all_goals (rename_i d m; cases m <;> simp only [MOp.isRem] at h1 <;> (try (cases h1; done)) <;> rfl)

theorem remPhase_holds {cn : ConnId} {ob : Obj} {sg : Sg} {l : List MOp} (h : remPhase cn ob sg l ≠ .none) : holds ob l = true := by
  cases l with
  | nil => exact absurd rfl h
  | cons op l =>
    cases op with
    | objRemoved ob' =>
      by_cases e : ob' = ob
      · simp [holds, e]
      · simp [remPhase, e] at h
    | notify ns ob' =>
      by_cases e : ob' = ob
      · simp [holds, e]
      · simp [remPhase, e] at h
    | delObj ob' =>
      by_cases e : ob' = ob
      · simp [holds, e]
      · simp [remPhase, e] at h
    | enq d m =>
      cases m with
      | removed ob' sg' =>
        by_cases e : ob' = ob
        · simp [holds, e]
        · simp [remPhase, e] at h
      | _ => exact absurd rfl h
    | _ => exact absurd rfl h

/-- what a step of a thread of the publisher context leaves alone -/
structure PFrame (s s' : State) (cn : ConnId) : Prop where
  cli : cliOf s' cn = cliOf s cn
  srv : srvOf s' cn = srvOf s cn
  ctxA : s'.ctx (cliOf s cn) = s.ctx (cliOf s cn)
  progA : ∀ th : Th, th.ctx = cliOf s cn → s'.prog th = s.prog th
  halfA : ∀ n, ((s.conn n).half true).owner = cliOf s cn → (s'.conn n).half true = (s.conn n).half true
  own : ∀ n, ((s'.conn n).half true).owner = ((s.conn n).half true).owner

theorem PFrame.view {s s' : State} {cn : ConnId} (h : PFrame s s' cn) (ob : Obj) (sg : Sg) :
    viewOf s' cn ob sg = { viewOf s cn ob sg with
      rs := (s'.ctx (srvOf s cn)).rsubs ⟨ob, sg⟩, obj := (s'.ctx (srvOf s cn)).objs ob,
      psp := s'.prog (.sock (srvOf s cn)), lq := (s'.ctx (srvOf s cn)).loopQ } := by
  simp only [viewOf, keyOf, h.cli, h.srv, h.ctxA, h.progA (.sock (cliOf s cn)) rfl, h.halfA cn rfl]

theorem PFrame.fail {s s' : State} {cn : ConnId} (h : PFrame s s' cn) (id : ReqId) : FailCar s' cn id ↔ FailCar s cn id :=
  failCar_congr h.cli (fun th hth => by rw [h.progA th hth]) h.own (fun n _ ho => by rw [h.halfA n ho])

theorem PFrame.cur {s s' : State} {cn : ConnId} (h : PFrame s s' cn) (ob : Obj) (sg : Sg) :
    curOf (s'.ctx (cliOf s' cn)) (keyOf s' cn ob sg) = curOf (s.ctx (cliOf s cn)) (keyOf s cn ob sg) := by
  simp only [keyOf, h.cli, h.srv, h.ctxA]

/-- a micro step of a thread of the publisher context leaves the subscriber's side alone -/
theorem pframe_micro {s s' : State} {th : Th} {ch ch2 : Nat} {op : MOp} {rest : List MOp} {o : Out}
    (hr : Reach s) (hprog : s.prog th = op :: rest) (hs : microStep s th ch ch2 op rest = some (s', o))
    {cn : ConnId} (hth : th.ctx = srvOf s cn) (hne : cliOf s cn ≠ srvOf s cn) : PFrame s s' cn := by
  have hf := microStep_frame hs
  have hown := microStep_owner hs
  refine ⟨hown cn true, hown cn false, hf.ctx_other _ (by rw [hth]; exact hne), ?_, ?_, fun n => hown n true⟩
  · intro th' hth'
    exact hf.prog_other th' (fun e => hne (by rw [← hth', e, hth]))
  · intro n ho
    rcases microStep_half hs n true with e | ⟨-, -, -, e⟩
    · exact e
    · have := ((ownInv_reach hr).close th n true (by rw [hprog, e]; exact List.mem_cons_self)).2
      exact absurd (ho.symm.trans (this.trans hth)) hne


theorem RmRel.keep {s s' : State} {cn : ConnId} {ob : Obj} {sg : Sg} {rm : Rm} (h : RmRel s cn ob sg rm)
    (hp : srvOf s' cn = srvOf s cn)
    (hrm : ∀ th : Th, th.ctx = srvOf s cn → remPhase cn ob sg (s'.prog th) = remPhase cn ob sg (s.prog th)) :
    RmRel s' cn ob sg rm := by
  constructor
  · intro th hth hne
    rw [hp] at hth; rw [hrm th hth] at hne ⊢; exact h.all th hth hne
  · intro hne
    obtain ⟨th, hth, e⟩ := h.ex hne
    exact ⟨th, by rw [hp]; exact hth, by rw [hrm th hth]; exact e⟩

theorem RmRel.update {s s' : State} {cn : ConnId} {ob : Obj} {sg : Sg} (hp : srvOf s' cn = srvOf s cn) (th : Th)
    (hth : th.ctx = srvOf s cn) (hother : ∀ th', th' ≠ th → s'.prog th' = s.prog th')
    (huniq : ∀ th' : Th, th' ≠ th → th'.ctx = srvOf s cn → remPhase cn ob sg (s.prog th') = .none) :
    RmRel s' cn ob sg (remPhase cn ob sg (s'.prog th)) := by
  constructor
  · intro th' hth' hne
    by_cases e : th' = th
    · rw [e]
    · rw [hp] at hth'; rw [hother th' e, huniq th' e hth'] at hne; exact absurd rfl hne
  · intro _; exact ⟨th, by rw [hp]; exact hth, rfl⟩

/-- the thread that holds the reserved object is the only one with a removal phase -/
theorem rem_unique {s : State} (hrem : RemInv s) {cn : ConnId} {ob : Obj} {sg : Sg} {th : Th} (hh : holds ob (s.prog th) = true) :
    ∀ th' : Th, th' ≠ th → th'.ctx = th.ctx → remPhase cn ob sg (s.prog th') = .none := by
  intro th' hne hc
  cases hph : remPhase cn ob sg (s.prog th') with
  | none => rfl
  | _ => exact absurd (hrem.uniq th' th ob hc (remPhase_holds (by rw [hph]; simp)) hh) hne

/-- nobody is removing an object that is not reserved -/
theorem rem_none_of_not_reserved {s : State} (hrem : RemInv s) {cn : ConnId} {ob : Obj} {sg : Sg} {c : Ctx}
    (hobj : (s.ctx c).objs ob ≠ .reserved) : ∀ th' : Th, th'.ctx = c → remPhase cn ob sg (s.prog th') = .none := by
  intro th' hc
  cases hph : remPhase cn ob sg (s.prog th') with
  | none => rfl
  | _ => exact absurd (hc ▸ hrem.res th' ob (remPhase_holds (by rw [hph]; simp))) hobj

/-- the abstraction of a state reached by a step of the publisher's side, in terms of the old view -/
theorem PFrame.sim {s s' : State} {cn : ConnId} {ob : Obj} {sg : Sg} (h : PFrame s s' cn) {rm' : Rm} {failed : Bool}
    (hf : ∀ id, curOf (s.ctx (cliOf s cn)) (keyOf s cn ob sg) = some id → (failed = true ↔ FailCar s cn id))
    (hrm : RmRel s' cn ob sg rm') :
    Sim s' cn ob sg (absV cn (keyOf s cn ob sg) { viewOf s cn ob sg with
      rs := (s'.ctx (srvOf s cn)).rsubs ⟨ob, sg⟩, obj := (s'.ctx (srvOf s cn)).objs ob,
      psp := s'.prog (.sock (srvOf s cn)), lq := (s'.ctx (srvOf s cn)).loopQ } rm' failed) := by
  refine ⟨rm', failed, hrm, ?_, ?_⟩
  · intro id hid
    rw [h.cur] at hid
    rw [hf id hid, h.fail]
  · simp only [absOf, h.view, keyOf, h.srv]

set_option maxHeartbeats 1000000 in
/-- a micro step of the publisher's side that touches neither the subscriber table, the object map, the event-loop
queue nor a handler -/
theorem sim_p_quiet {s s' : State} {th : Th} {ch ch2 : Nat} {op : MOp} {rest : List MOp} {o : Out}
    (hr : Reach s) (hprog : s.prog th = op :: rest) (hs : microStep s th ch ch2 op rest = some (s', o))
    {cn : ConnId} {ob : Obj} {sg : Sg} {x : AS} (hth : th.ctx = srvOf s cn) (hne : cliOf s cn ≠ srvOf s cn)
    (h1 : op.isRsub = false) (h2 : op.isRem = false) (h3 : op.isEnq = false) (h4 : op.isDsp = false)
    (h : Sim s cn ob sg x) : Sim s' cn ob sg x := by
  have pf := pframe_micro hr hprog hs hth hne
  have hf := microStep_frame hs
  have hfl := microStep_fields hs
  have hdsp := dspInv_reach hr
  have hrem := remInv_reach hr
  have hfree : dspFree (op :: rest) := by
    cases th with
    | user c t => exact hprog ▸ hdsp.user c t
    | sock c =>
      rcases hdsp.sock c with hfr | hform
      · exact hprog ▸ hfr
      · rw [hprog] at hform
        generalize hl : op :: rest = l at hform
        cases hform <;> simp only [List.cons.injEq] at hl <;> obtain ⟨rfl, -⟩ := hl <;> simp [MOp.isDsp] at h4
  have hrfree : remFree (op :: rest) := by
    cases th with
    | sock c => exact hprog ▸ hrem.sock c
    | user c t =>
      rcases hrem.user c t with hfr | hform
      · exact hprog ▸ hfr
      · rw [hprog] at hform
        generalize hl : op :: rest = l at hform
        cases hform <;> simp only [List.cons.injEq] at hl <;> obtain ⟨rfl, -⟩ := hl <;> simp [MOp.isRem] at h2
  refine sim_stutter pf.srv ?_ ?_ (fun id _ => pf.fail id) h
  · rw [pf.view]
    refine ⟨?_, Iff.rfl, ?_, rfl, ?_, ?_, Iff.rfl, Iff.rfl, fun _ _ => Iff.rfl⟩
    · simp only [viewOf]; rw [hfl.rsubs h1]
    · simp only [viewOf]; rw [microStep_objs h2 hs]
    · intro id _
      simp only [viewOf]
      by_cases e : Th.sock (srvOf s cn) = th
      · subst e
        rw [hdlTok_dspFree (dspFree_micro hfree hs), hprog, hdlTok_dspFree hfree]
      · rw [hf.prog_other _ e]
    · simp only [dV, viewOf]; rw [hfl.loopQ h3]
  · intro th' hth'
    by_cases e : th' = th
    · subst e
      rw [remPhase_remFree (remFree_micro hrfree hs), hprog, remPhase_remFree hrfree]
    · rw [hf.prog_other _ e]

end QmiModel.PubSub
