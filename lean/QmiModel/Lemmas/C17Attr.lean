import QmiModel.Model.TextAttr
/-!
# C17 lemmas: `_parse_attribute_value (repr v) = v` for the value kinds where it holds
-/
namespace QmiModel.C17.AttrL
open QmiModel.C17

/-! ## hex digits -/

theorem hexDigit_props (n : Nat) (h : n < 16) :
    isHex (hexDigit n) = true ∧ hexVal (hexDigit n) = n ∧
    ((48 ≤ hexDigit n ∧ hexDigit n ≤ 57) ∨ (97 ≤ hexDigit n ∧ hexDigit n ≤ 102)) := by
  have : ∀ k : Fin 16, isHex (hexDigit k.1) = true ∧ hexVal (hexDigit k.1) = k.1 ∧
      ((48 ≤ hexDigit k.1 ∧ hexDigit k.1 ≤ 57) ∨ (97 ≤ hexDigit k.1 ∧ hexDigit k.1 ≤ 102)) := by
    decide
  exact this ⟨n, h⟩

theorem isHex_hexDigit (n : Nat) (h : n < 16) : isHex (hexDigit n) = true := (hexDigit_props n h).1
theorem hexVal_hexDigit (n : Nat) (h : n < 16) : hexVal (hexDigit n) = n := (hexDigit_props n h).2.1

/-- a lower-case hex digit character -/
def LHex (x : Nat) : Prop := (48 ≤ x ∧ x ≤ 57) ∨ (97 ≤ x ∧ x ≤ 102)

theorem lhex_hexDigit (n : Nat) (h : n < 16) : LHex (hexDigit n) := (hexDigit_props n h).2.2

theorem lhex_hexN (w n : Nat) : ∀ x ∈ hexN w n, LHex x := by
  induction w generalizing n with
  | zero => intro x hx; simp [hexN] at hx
  | succ w ih =>
    intro x hx
    simp only [hexN, List.mem_append, List.mem_singleton] at hx
    rcases hx with hx | hx
    · exact ih _ x hx
    · subst hx; exact lhex_hexDigit _ (Nat.mod_lt _ (by decide))

theorem hexN2 (c : Nat) : hexN 2 c = [hexDigit (c / 16 % 16), hexDigit (c % 16)] := by
  simp [hexN]

theorem hexN4 (c : Nat) : hexN 4 c =
    [hexDigit (c / 16 / 16 / 16 % 16), hexDigit (c / 16 / 16 % 16), hexDigit (c / 16 % 16), hexDigit (c % 16)] := by
  simp [hexN]

/-! ## the unescape automaton on the output of `escChar` -/

theorem unesc_norm_ne (c : Nat) (rest : Str) (h : c ≠ 92) :
    unescapeFrom .norm (c :: rest) = c :: unescapeFrom .norm rest := by
  simp [unescapeFrom, escStep, h]

theorem unesc_norm_bs (rest : Str) :
    unescapeFrom .norm (92 :: rest) = unescapeFrom .bs rest := by
  simp [unescapeFrom, escStep]

theorem unesc_hex_more (need v : Nat) (lit : Str) (x : Nat) (rest : Str)
    (hx : isHex x = true) (hn : need ≠ 1) :
    unescapeFrom (.hex need v lit) (x :: rest) =
      unescapeFrom (.hex (need - 1) (v * 16 + hexVal x) (lit ++ [x])) rest := by
  simp [unescapeFrom, escStep, hx, hn]

theorem unesc_hex_last (v : Nat) (lit : Str) (x : Nat) (rest : Str) (hx : isHex x = true) :
    unescapeFrom (.hex 1 v lit) (x :: rest) = (v * 16 + hexVal x) :: unescapeFrom .norm rest := by
  simp [unescapeFrom, escStep, hx]

theorem unesc_x (c : Nat) (rest : Str) (h : c < 256) :
    unescapeFrom .norm (92 :: 120 :: (hexN 2 c ++ rest)) = c :: unescapeFrom .norm rest := by
  have h1 : c / 16 % 16 < 16 := Nat.mod_lt _ (by decide)
  have h2 : c % 16 < 16 := Nat.mod_lt _ (by decide)
  rw [unesc_norm_bs, hexN2]
  have : ∀ l : Str, unescapeFrom .bs (120 :: l) = unescapeFrom (.hex 2 0 [120]) l := by
    intro l; simp [unescapeFrom, escStep, simpleEsc, isOct]
  simp only [List.cons_append, List.nil_append]
  rw [this]
  rw [unesc_hex_more _ _ _ _ _ (isHex_hexDigit _ h1) (by decide)]
  rw [unesc_hex_last _ _ _ _ (isHex_hexDigit _ h2)]
  rw [hexVal_hexDigit _ h1, hexVal_hexDigit _ h2]
  congr 1
  omega

theorem unesc_u (c : Nat) (rest : Str) (h : c < 65536) :
    unescapeFrom .norm (92 :: 117 :: (hexN 4 c ++ rest)) = c :: unescapeFrom .norm rest := by
  have h0 : c / 16 / 16 / 16 % 16 < 16 := Nat.mod_lt _ (by decide)
  have h1 : c / 16 / 16 % 16 < 16 := Nat.mod_lt _ (by decide)
  have h2 : c / 16 % 16 < 16 := Nat.mod_lt _ (by decide)
  have h3 : c % 16 < 16 := Nat.mod_lt _ (by decide)
  rw [unesc_norm_bs, hexN4]
  have : ∀ l : Str, unescapeFrom .bs (117 :: l) = unescapeFrom (.hex 4 0 [117]) l := by
    intro l; simp [unescapeFrom, escStep, simpleEsc, isOct]
  simp only [List.cons_append, List.nil_append]
  rw [this]
  rw [unesc_hex_more _ _ _ _ _ (isHex_hexDigit _ h0) (by decide)]
  rw [unesc_hex_more _ _ _ _ _ (isHex_hexDigit _ h1) (by decide)]
  rw [unesc_hex_more _ _ _ _ _ (isHex_hexDigit _ h2) (by decide)]
  rw [unesc_hex_last _ _ _ _ (isHex_hexDigit _ h3)]
  rw [hexVal_hexDigit _ h0, hexVal_hexDigit _ h1, hexVal_hexDigit _ h2, hexVal_hexDigit _ h3]
  congr 1
  omega

/-- `\U` + 8 hex digits of a code point (< 0x110000) — the alternative added by fix 1c58093 -/
theorem unesc_U (c : Nat) (rest : Str) (h : c < 1114112) :
    unescapeFrom .norm (92 :: 85 :: (hexN 8 c ++ rest)) = c :: unescapeFrom .norm rest := by
  have e7 : c / 16 / 16 / 16 / 16 / 16 / 16 / 16 % 16 = 0 := by omega
  have e6 : c / 16 / 16 / 16 / 16 / 16 / 16 % 16 = 0 := by omega
  have h4 : c / 16 / 16 / 16 / 16 % 16 < 16 := Nat.mod_lt _ (by decide)
  have h3 : c / 16 / 16 / 16 % 16 < 16 := Nat.mod_lt _ (by decide)
  have h2 : c / 16 / 16 % 16 < 16 := Nat.mod_lt _ (by decide)
  have h1 : c / 16 % 16 < 16 := Nat.mod_lt _ (by decide)
  have h0 : c % 16 < 16 := Nat.mod_lt _ (by decide)
  have hx : hexN 8 c = [hexDigit (c / 16 / 16 / 16 / 16 / 16 / 16 / 16 % 16), hexDigit (c / 16 / 16 / 16 / 16 / 16 / 16 % 16),
      hexDigit (c / 16 / 16 / 16 / 16 / 16 % 16), hexDigit (c / 16 / 16 / 16 / 16 % 16), hexDigit (c / 16 / 16 / 16 % 16),
      hexDigit (c / 16 / 16 % 16), hexDigit (c / 16 % 16), hexDigit (c % 16)] := by simp [hexN]
  rw [unesc_norm_bs, hx, e7, e6]
  have hU : ∀ l : Str, unescapeFrom .bs (85 :: l) = unescapeFrom (.uni 0 0 [85]) l := by
    intro l; simp [unescapeFrom, escStep, simpleEsc, isOct]
  have hz : hexDigit 0 = 48 := by decide
  -- the four variable hex digits
  have step : ∀ (pos v : Nat) (lit : Str) (x : Nat) (l : Str), 4 ≤ pos → pos < 7 → isHex x = true →
      unescapeFrom (.uni pos v lit) (x :: l) = unescapeFrom (.uni (pos + 1) (v * 16 + hexVal x) (lit ++ [x])) l := by
    intro pos v lit x l hp hp' hxx
    have a1 : ¬ pos < 2 := by omega
    have a2 : ¬ pos = 2 := by omega
    have a3 : ¬ pos = 3 := by omega
    have a7 : ¬ pos = 7 := by omega
    simp [unescapeFrom, escStep, a1, a2, a3, a7, hxx]
  have last : ∀ (v : Nat) (lit : Str) (x : Nat) (l : Str), isHex x = true →
      unescapeFrom (.uni 7 v lit) (x :: l) = (v * 16 + hexVal x) :: unescapeFrom .norm l := by
    intro v lit x l hxx
    simp [unescapeFrom, escStep, hxx]
  simp only [List.cons_append, List.nil_append, hz]
  rw [hU]
  have p01 : ∀ l : Str, unescapeFrom (.uni 0 0 [85]) (48 :: 48 :: l) = unescapeFrom (.uni 2 0 [85, 48, 48]) l := by
    intro l; simp [unescapeFrom, escStep]
  rw [p01]
  by_cases h5 : c / 16 / 16 / 16 / 16 / 16 % 16 = 0
  · rw [h5, hz]
    have p23 : ∀ (x : Nat) (l : Str), isHex x = true →
        unescapeFrom (.uni 2 0 [85, 48, 48]) (48 :: x :: l) = unescapeFrom (.uni 4 (hexVal x) [85, 48, 48, 48, x]) l := by
      intro x l hxx; simp [unescapeFrom, escStep, hxx]
    rw [p23 _ _ (isHex_hexDigit _ h4)]
    rw [step 4 _ _ _ _ (by decide) (by decide) (isHex_hexDigit _ h3)]
    rw [step 5 _ _ _ _ (by decide) (by decide) (isHex_hexDigit _ h2)]
    rw [step 6 _ _ _ _ (by decide) (by decide) (isHex_hexDigit _ h1)]
    rw [last _ _ _ _ (isHex_hexDigit _ h0)]
    rw [hexVal_hexDigit _ h4, hexVal_hexDigit _ h3, hexVal_hexDigit _ h2, hexVal_hexDigit _ h1, hexVal_hexDigit _ h0]
    congr 1
    omega
  · have h51 : c / 16 / 16 / 16 / 16 / 16 % 16 = 1 := by omega
    have h40 : c / 16 / 16 / 16 / 16 % 16 = 0 := by omega
    rw [h51, h40, hz]
    have ho : hexDigit 1 = 49 := by decide
    rw [ho]
    have p23 : ∀ l : Str,
        unescapeFrom (.uni 2 0 [85, 48, 48]) (49 :: 48 :: l) = unescapeFrom (.uni 4 16 [85, 48, 48, 49, 48]) l := by
      intro l; simp [unescapeFrom, escStep]
    rw [p23]
    rw [step 4 _ _ _ _ (by decide) (by decide) (isHex_hexDigit _ h3)]
    rw [step 5 _ _ _ _ (by decide) (by decide) (isHex_hexDigit _ h2)]
    rw [step 6 _ _ _ _ (by decide) (by decide) (isHex_hexDigit _ h1)]
    rw [last _ _ _ _ (isHex_hexDigit _ h0)]
    rw [hexVal_hexDigit _ h3, hexVal_hexDigit _ h2, hexVal_hexDigit _ h1, hexVal_hexDigit _ h0]
    congr 1
    omega

/-- a Python `str`: every element is a code point (`repr` writes a non-printable character above U+FFFF
as `\Uhhhhhhhh`; the reader knows that escape since fix 1c58093) -/
def StrOk (s : Str) : Prop := ∀ c ∈ s, c < 1114112

theorem unesc_bs_simple (c v : Nat) (rest : Str) (h : simpleEsc c = some v) :
    unescapeFrom .bs (c :: rest) = v :: unescapeFrom .norm rest := by
  simp [unescapeFrom, escStep, h]

theorem unesc_escChar (pr : Nat → Bool) (q c : Nat) (rest : Str) (hq : q = 39 ∨ q = 34)
    (hc : c < 1114112) :
    unescapeFrom .norm (escChar pr q c ++ rest) = c :: unescapeFrom .norm rest := by
  unfold escChar
  split
  · -- quote or backslash
    rename_i h
    simp only [Bool.or_eq_true, decide_eq_true_eq] at h
    simp only [List.cons_append, List.nil_append]
    rw [unesc_norm_bs]
    rcases h with h | h
    · subst h
      rcases hq with hq | hq <;> subst hq <;> exact unesc_bs_simple _ _ _ (by decide)
    · subst h
      simp [unescapeFrom, escStep, simpleEsc]
  split
  · rename_i h; subst h
    simp only [List.cons_append, List.nil_append]
    rw [unesc_norm_bs]; exact unesc_bs_simple _ _ _ (by decide)
  split
  · rename_i h; subst h
    simp only [List.cons_append, List.nil_append]
    rw [unesc_norm_bs]; exact unesc_bs_simple _ _ _ (by decide)
  split
  · rename_i h; subst h
    simp only [List.cons_append, List.nil_append]
    rw [unesc_norm_bs]; exact unesc_bs_simple _ _ _ (by decide)
  split
  · rename_i h
    simp only [Bool.or_eq_true, decide_eq_true_eq] at h
    simp only [List.cons_append]
    exact unesc_x c rest (by omega)
  split
  · rename_i h1 _ _ _ _ _
    simp only [Bool.or_eq_true, decide_eq_true_eq, not_or] at h1
    simp only [List.cons_append, List.nil_append]
    exact unesc_norm_ne c rest h1.2
  split
  · rename_i h1 _ _ _ _ _ _
    simp only [Bool.or_eq_true, decide_eq_true_eq, not_or] at h1
    simp only [List.cons_append, List.nil_append]
    exact unesc_norm_ne c rest h1.2
  split
  · rename_i h
    simp only [List.cons_append]
    exact unesc_x c rest (by omega)
  split
  · rename_i h
    simp only [List.cons_append]
    exact unesc_u c rest (by omega)
  · simp only [List.cons_append]
    exact unesc_U c rest hc

theorem unesc_escBody (pr : Nat → Bool) (q : Nat) (s : Str) (hq : q = 39 ∨ q = 34)
    (h : StrOk s) : unescape (escBody pr q s) = s := by
  unfold unescape escBody
  induction s with
  | nil => simp [unescapeFrom, escFinish]
  | cons c s ih =>
    rw [List.flatMap_cons, unesc_escChar pr q c _ hq (h c (List.mem_cons_self ..))]
    rw [ih (fun x hx => h x (List.mem_cons_of_mem _ hx))]

/-! ## `stripEsc` of the escaped body has no quote -/

theorem stripEsc_cons_ne (c : Nat) (l : Str) (h : c ≠ 92) : stripEsc (c :: l) = c :: stripEsc l := by
  cases l with
  | nil => simp [stripEsc]
  | cons d r => simp [stripEsc, h]

theorem stripEsc_esc (d : Nat) (l : Str) (h : d ≠ 10) : stripEsc (92 :: d :: l) = stripEsc l := by
  simp [stripEsc, h]

theorem stripEsc_append_ne (pre l : Str) (h : ∀ x ∈ pre, x ≠ 92) :
    stripEsc (pre ++ l) = pre ++ stripEsc l := by
  induction pre with
  | nil => rfl
  | cons x pre ih =>
    rw [List.cons_append, stripEsc_cons_ne _ _ (h x (List.mem_cons_self ..)),
      ih (fun y hy => h y (List.mem_cons_of_mem _ hy))]
    rfl

theorem lhex_ne {x : Nat} (h : LHex x) : x ≠ 92 ∧ x ≠ 39 ∧ x ≠ 34 := by
  unfold LHex at h; omega

/-- `\` + a non-newline char + lower-case hex digits: stripped to the hex digits -/
theorem strip_esc_hex (q d : Nat) (hs rest : Str) (hd : d ≠ 10) (hh : ∀ x ∈ hs, LHex x)
    (hq : q = 39 ∨ q = 34) (hm : q ∈ stripEsc (92 :: d :: (hs ++ rest))) : q ∈ stripEsc rest := by
  rw [stripEsc_esc _ _ hd, stripEsc_append_ne _ _ (fun x hx => (lhex_ne (hh x hx)).1)] at hm
  rcases List.mem_append.1 hm with hm | hm
  · have := lhex_ne (hh q hm); omega
  · exact hm

theorem strip_esc_two (q d : Nat) (rest : Str) (hd : d ≠ 10)
    (hm : q ∈ stripEsc (92 :: d :: rest)) : q ∈ stripEsc rest := by
  rw [stripEsc_esc _ _ hd] at hm; exact hm

theorem strip_plain (q c : Nat) (rest : Str) (h1 : c ≠ 92) (h2 : c ≠ q)
    (hm : q ∈ stripEsc (c :: rest)) : q ∈ stripEsc rest := by
  rw [stripEsc_cons_ne _ _ h1] at hm
  rcases List.mem_cons.1 hm with hm | hm
  · exact absurd hm.symm h2
  · exact hm

theorem strip_escChar (pr : Nat → Bool) (q c : Nat) (rest : Str) (hq : q = 39 ∨ q = 34)
    (hm : q ∈ stripEsc (escChar pr q c ++ rest)) : q ∈ stripEsc rest := by
  unfold escChar at hm
  split at hm
  · rename_i h
    simp only [Bool.or_eq_true, decide_eq_true_eq] at h
    exact strip_esc_two q c rest (by omega) hm
  split at hm
  · exact strip_esc_two q _ rest (by decide) hm
  split at hm
  · exact strip_esc_two q _ rest (by decide) hm
  split at hm
  · exact strip_esc_two q _ rest (by decide) hm
  split at hm
  · exact strip_esc_hex q 120 _ rest (by decide) (lhex_hexN 2 c) hq hm
  split at hm
  · rename_i h1 _ _ _ _ _
    simp only [Bool.or_eq_true, decide_eq_true_eq, not_or] at h1
    exact strip_plain q c rest h1.2 h1.1 hm
  split at hm
  · rename_i h1 _ _ _ _ _ _
    simp only [Bool.or_eq_true, decide_eq_true_eq, not_or] at h1
    exact strip_plain q c rest h1.2 h1.1 hm
  split at hm
  · exact strip_esc_hex q 120 _ rest (by decide) (lhex_hexN 2 c) hq hm
  split at hm
  · exact strip_esc_hex q 117 _ rest (by decide) (lhex_hexN 4 c) hq hm
  · exact strip_esc_hex q 85 _ rest (by decide) (lhex_hexN 8 c) hq hm

theorem strip_escBody (pr : Nat → Bool) (q : Nat) (s : Str) (hq : q = 39 ∨ q = 34) :
    q ∉ stripEsc (escBody pr q s) := by
  unfold escBody
  induction s with
  | nil => simp [stripEsc]
  | cons c s ih =>
    rw [List.flatMap_cons]
    exact fun hm => ih (strip_escChar pr q c _ hq hm)

/-! ## strings -/

theorem quoteOf_cases (s : Str) : quoteOf s = 39 ∨ quoteOf s = 34 := by
  unfold quoteOf; split <;> simp

theorem parseAttr_quoted (q : Nat) (body : Str) (hq : q = 39 ∨ q = 34)
    (hs : q ∉ stripEsc body) :
    parseAttr (q :: (body ++ [q])) = .ok (.str (unescape body)) := by
  have h1 : ((q :: (body ++ [q])).contains 39 || (q :: (body ++ [q])).contains 34) = true := by
    rcases hq with hq | hq <;> subst hq <;> simp
  have h2 : (q ≠ 39 && q ≠ 34) = false := by
    rcases hq with hq | hq <;> subst hq <;> decide
  have h3 : (body ++ [q]).getLast? = some q := by simp
  have h4 : (body ++ [q]).dropLast = body := by simp
  have h5 : (stripEsc body).contains q = false := by
    simpa using hs
  unfold parseAttr
  rw [if_pos h1]
  simp only [h2, h3, h4, h5]
  simp

theorem str_roundtrip (pr : Nat → Bool) (s : Str) (h : StrOk s) :
    parseAttr (reprStr pr s) = .ok (.str s) := by
  unfold reprStr
  rw [parseAttr_quoted _ _ (quoteOf_cases s) (strip_escBody pr _ s (quoteOf_cases s)),
    unesc_escBody pr _ s (quoteOf_cases s) h]

/-! ## integers -/

theorem parseNat_concat (a : Str) (c : Nat) : parseNat (a ++ [c]) = parseNat a * 10 + (c - 48) := by
  simp [parseNat, List.foldl_append]

theorem natDigitsAux_spec (fuel : Nat) : ∀ (n : Nat) (acc : Str), n < fuel →
    ∃ ds, natDigitsAux fuel n acc = ds ++ acc ∧ ds ≠ [] ∧ (∀ x ∈ ds, isDigit x = true) ∧ parseNat ds = n := by
  induction fuel with
  | zero => intro n acc h; omega
  | succ fuel ih =>
    intro n acc h
    unfold natDigitsAux
    split
    · rename_i hn
      refine ⟨[48 + n], rfl, by simp, ?_, ?_⟩
      · intro x hx
        simp only [List.mem_singleton] at hx
        subst hx
        simp only [isDigit, Bool.and_eq_true, decide_eq_true_eq]; omega
      · simp [parseNat]
    · rename_i hn
      obtain ⟨ds, h1, h2, h3, h4⟩ := ih (n / 10) ((48 + n % 10) :: acc) (by omega)
      refine ⟨ds ++ [48 + n % 10], by rw [h1]; simp, by simp, ?_, ?_⟩
      · intro x hx
        rcases List.mem_append.1 hx with hx | hx
        · exact h3 x hx
        · simp only [List.mem_singleton] at hx
          subst hx
          simp only [isDigit, Bool.and_eq_true, decide_eq_true_eq]; omega
      · rw [parseNat_concat, h4]; omega

theorem natDigits_spec (n : Nat) :
    natDigits n ≠ [] ∧ (∀ x ∈ natDigits n, isDigit x = true) ∧ parseNat (natDigits n) = n := by
  obtain ⟨ds, h1, h2, h3, h4⟩ := natDigitsAux_spec (n + 1) n [] (by omega)
  unfold natDigits
  rw [h1, List.append_nil]
  exact ⟨h2, h3, h4⟩

theorem isDigit_bounds {x : Nat} (h : isDigit x = true) : 48 ≤ x ∧ x ≤ 57 := by
  simpa [isDigit] using h

/-- a non-empty list whose last element satisfies `p` -/
theorem getLast?_of_all {l : Str} {p : Nat → Prop} (hne : l ≠ []) (h : ∀ x ∈ l, p x) :
    ∃ c, l.getLast? = some c ∧ p c := by
  refine ⟨l.getLast hne, List.getLast?_eq_some_getLast hne, h _ (List.getLast_mem hne)⟩

theorem digits_getLast_ne {l : Str} (hne : l ≠ []) (h : ∀ x ∈ l, isDigit x = true) :
    l.getLast? ≠ some 10 := by
  obtain ⟨c, h1, h2⟩ := getLast?_of_all (p := fun x => isDigit x = true) hne h
  rw [h1]
  have := isDigit_bounds h2
  intro hc
  injection hc with hc
  omega

theorem digits_no_quote {l : Str} (h : ∀ x ∈ l, isDigit x = true) (q : Nat) (hq : q = 39 ∨ q = 34) :
    l.contains q = false := by
  rw [← Bool.not_eq_true, List.contains_iff_mem]
  intro hm
  have := isDigit_bounds (h q hm)
  omega

theorem digits_all {l : Str} (h : ∀ x ∈ l, isDigit x = true) : l.all isDigit = true := by
  simpa using h

theorem int_roundtrip_nat (n : Nat) : parseAttr (natDigits n) = .ok (.int (Int.ofNat n)) := by
  obtain ⟨hne, hd, hp⟩ := natDigits_spec n
  generalize natDigits n = ds at *
  have h39 := digits_no_quote hd 39 (Or.inl rfl)
  have h34 := digits_no_quote hd 34 (Or.inr rfl)
  have hl := digits_getLast_ne hne hd
  cases ds with
  | nil => exact absurd rfl hne
  | cons c r =>
    have hc := isDigit_bounds (hd c (List.mem_cons_self ..))
    have hc1 : (c = 43 || c = 45) = false := by
      simp only [Bool.or_eq_false_iff, decide_eq_false_iff_not]; omega
    have hreg : intRegex (c :: r) = true := by
      unfold intRegex
      simp only [hl, if_false, hc1]
      exact digits_all hd
    have hint : pyInt (c :: r) = some (Int.ofNat n) := by
      unfold pyInt
      have h45 : c ≠ 45 := by omega
      have h43 : c ≠ 43 := by omega
      simp only [hl, if_false, h45, h43, hp]
    unfold parseAttr
    simp only [h39, h34, hreg, hint]
    simp

theorem int_roundtrip_neg (n : Nat) :
    parseAttr (45 :: natDigits (n + 1)) = .ok (.int (Int.negSucc n)) := by
  obtain ⟨hne, hd, hp⟩ := natDigits_spec (n + 1)
  generalize natDigits (n + 1) = ds at *
  have h39 : (45 :: ds).contains 39 = false := by
    rw [List.contains_cons, digits_no_quote hd 39 (Or.inl rfl)]; decide
  have h34 : (45 :: ds).contains 34 = false := by
    rw [List.contains_cons, digits_no_quote hd 34 (Or.inr rfl)]; decide
  have hl : (45 :: ds).getLast? ≠ some 10 := by
    rw [List.getLast?_cons_of_ne_nil hne]; exact digits_getLast_ne hne hd
  have hreg : intRegex (45 :: ds) = true := by
    unfold intRegex
    simp only [hl, if_false]
    exact digits_all hd
  have hemp : ds.isEmpty = false := by
    cases ds with
    | nil => exact absurd rfl hne
    | cons _ _ => rfl
  have hint : pyInt (45 :: ds) = some (Int.negSucc n) := by
    unfold pyInt
    simp only [hl, if_false, hemp, hp]
    rfl
  unfold parseAttr
  simp only [h39, h34, hreg, hint]
  simp

theorem int_roundtrip (i : Int) : parseAttr (reprInt i) = .ok (.int i) := by
  cases i with
  | ofNat n => exact int_roundtrip_nat n
  | negSucc n => exact int_roundtrip_neg n

theorem bool_roundtrip (pr : Nat → Bool) (b : Bool) :
    parseAttr (pyRepr pr (.bool b)) = .ok (.bool b) := by
  cases b <;> rfl

/-! ## floats -/

def Digits (l : Str) : Prop := ∀ x ∈ l, isDigit x = true

/-- `rest` does not continue a digit run (for `spanDigits` and for `spanDigitsU`) -/
def Stops (rest : Str) : Prop := ∀ c r, rest = c :: r → isDigit c = false ∧ c ≠ 95

theorem spanDigits_append (s : Str) : (spanDigits s).1 ++ (spanDigits s).2 = s := by
  induction s with
  | nil => rfl
  | cons c r ih =>
    unfold spanDigits
    split
    · simp only [List.cons_append, ih]
    · rfl

theorem spanDigits_digits (s : Str) : Digits (spanDigits s).1 := by
  induction s with
  | nil => intro x hx; simp [spanDigits] at hx
  | cons c r ih =>
    unfold spanDigits
    split
    · rename_i h
      intro x hx
      rcases List.mem_cons.1 hx with hx | hx
      · subst hx; exact h
      · exact ih x hx
    · intro x hx; simp at hx

theorem spanU_app (ds : Str) : ∀ (fuel : Nat) (rest : Str), (ds ++ rest).length < fuel → ds ≠ [] →
    Digits ds → Stops rest → spanDigitsU fuel (ds ++ rest) = some rest := by
  induction ds with
  | nil => intro fuel rest _ h; exact absurd rfl h
  | cons c ds ih =>
    intro fuel rest hf _ hd hs
    have hc : isDigit c = true := hd c (List.mem_cons_self ..)
    cases fuel with
    | zero => omega
    | succ fuel =>
      cases ds with
      | nil =>
        simp only [List.cons_append, List.nil_append]
        unfold spanDigitsU
        simp only [hc, if_true]
        split
        · rename_i d r2 
          have := (hs 95 (d :: r2) rfl).2
          exact absurd rfl this
        · rename_i d r2 _
          rw [(hs d r2 rfl).1]; simp
        · rfl
      | cons c2 ds =>
        have hc2 : isDigit c2 = true := hd c2 (List.mem_cons_of_mem _ (List.mem_cons_self ..))
        have h95 : c2 ≠ 95 := by have := isDigit_bounds hc2; omega
        have hrec := ih fuel rest (by simp only [List.length_cons, List.cons_append] at hf ⊢; omega)
          (by simp) (fun x hx => hd x (List.mem_cons_of_mem _ hx)) hs
        simp only [List.cons_append] at hrec ⊢
        unfold spanDigitsU
        simp only [hc, if_true]
        split
        · rename_i heq
          simp only [List.cons.injEq] at heq
          exact absurd heq.1 h95
        · rename_i d r2 _ heq
          simp only [List.cons.injEq] at heq
          rw [← heq.1, ← heq.2, hc2]
          simpa using hrec
        · rename_i heq; simp at heq

/-- `e`, sign, at least two digits -/
def ExpShape (t : Str) : Prop :=
  ∃ sg es, t = 101 :: sg :: es ∧ (sg = 43 ∨ sg = 45) ∧ 2 ≤ es.length ∧ Digits es

theorem isExpRepr_shape (t : Str) (h : isExpRepr t = true) : ExpShape t := by
  unfold isExpRepr at h
  split at h
  · rename_i sg ds
    simp only [Bool.and_eq_true, Bool.or_eq_true, decide_eq_true_eq, List.all_eq_true] at h
    exact ⟨sg, ds, rfl, h.1.1, h.1.2, h.2⟩
  · exact absurd h (by decide)

theorem expPart_shape (t : Str) (h : ExpShape t) : expPart t = true := by
  obtain ⟨sg, es, rfl, hsg, hlen, hd⟩ := h
  have hne : es ≠ [] := by intro h; subst h; simp at hlen
  have hsp := spanU_app es (es.length + 1) [] (by simp) hne hd (by intro c r h; cases h)
  rw [List.append_nil] at hsp
  have hsg' : (sg = 43 || sg = 45) = true := by simpa using hsg
  simp only [expPart, hsg', if_true, hsp]
  simp

/-- the body of `float.__repr__` output after the sign, other than `inf`/`nan` -/
inductive FShape (u : Str) : Prop
  | dot (ds ds2 t : Str) (hu : u = ds ++ 46 :: (ds2 ++ t)) (h1 : ds ≠ []) (h2 : Digits ds)
      (h3 : ds2 ≠ []) (h4 : Digits ds2) (h5 : t = [] ∨ ExpShape t)
  | exp (ds t : Str) (hu : u = ds ++ t) (h1 : ds ≠ []) (h2 : Digits ds) (h5 : ExpShape t)

theorem fshape_of_span (u : Str)
    (h : (match spanDigits u with
      | ([], _) => false
      | (_, 46 :: r) =>
        (match spanDigits r with
         | ([], _) => false
         | (_, []) => true
         | (_, t) => isExpRepr t)
      | (_, t) => isExpRepr t) = true) : FShape u := by
  have hu := spanDigits_append u
  have hd := spanDigits_digits u
  generalize spanDigits u = p at *
  obtain ⟨ds, rest⟩ := p
  simp only at hu hd
  split at h
  · exact absurd h (by decide)
  · rename_i fst r hne heq
    simp only [Prod.mk.injEq] at heq
    obtain ⟨h1, h2⟩ := heq
    subst h1 h2
    have hr := spanDigits_append r
    have hdr := spanDigits_digits r
    generalize spanDigits r = p2 at *
    obtain ⟨ds2, t⟩ := p2
    simp only at hr hdr
    split at h
    · exact absurd h (by decide)
    · rename_i fst hne2 heq
      simp only [Prod.mk.injEq] at heq
      obtain ⟨h1, h2⟩ := heq
      subst h1 h2
      exact .dot ds ds2 [] (by rw [hr, hu]) hne hd hne2 hdr (Or.inl rfl)
    · rename_i fst t' hne2 _ heq
      simp only [Prod.mk.injEq] at heq
      obtain ⟨h1, h2⟩ := heq
      subst h1 h2
      exact .dot ds ds2 t (by rw [hr, hu]) hne hd hne2 hdr (Or.inr (isExpRepr_shape _ h))
  · rename_i x t hne hne2 heq
    simp only [Prod.mk.injEq] at heq
    obtain ⟨h1, h2⟩ := heq
    subst h1 h2
    refine .exp ds rest hu.symm ?_ hd (isExpRepr_shape _ h)
    exact hne

/-- the characters that occur in a `float.__repr__` -/
def FChar (x : Nat) : Prop := isDigit x = true ∨ x = 46 ∨ x = 101 ∨ x = 43 ∨ x = 45

def LastDigit (l : Str) : Prop := ∃ c, l.getLast? = some c ∧ isDigit c = true

theorem lastDigit_digits {es : Str} (hne : es ≠ []) (hd : Digits es) : LastDigit es :=
  getLast?_of_all (p := fun x => isDigit x = true) hne hd

theorem lastDigit_append_right (pre : Str) {l : Str} (h : LastDigit l) : LastDigit (pre ++ l) := by
  obtain ⟨c, h1, h2⟩ := h
  exact ⟨c, by rw [List.getLast?_append, h1]; rfl, h2⟩

theorem lastDigit_cons (x : Nat) {l : Str} (h : LastDigit l) : LastDigit (x :: l) :=
  lastDigit_append_right [x] h

theorem lastDigit_ne {l : Str} (h : LastDigit l) : l.getLast? ≠ some 10 := by
  obtain ⟨c, h1, h2⟩ := h
  rw [h1]
  have := isDigit_bounds h2
  intro hc; injection hc with hc; omega

theorem expShape_fchar {t : Str} (h : ExpShape t) : ∀ x ∈ t, FChar x := by
  obtain ⟨sg, es, rfl, hsg, _, hd⟩ := h
  intro x hx
  simp only [List.mem_cons] at hx
  unfold FChar
  rcases hx with hx | hx | hx
  · omega
  · omega
  · exact Or.inl (hd x hx)

theorem expShape_last {t : Str} (h : ExpShape t) : LastDigit t := by
  obtain ⟨sg, es, rfl, _, hlen, hd⟩ := h
  have hne : es ≠ [] := by intro h; subst h; simp at hlen
  exact lastDigit_cons _ (lastDigit_cons _ (lastDigit_digits hne hd))

theorem expShape_stops {t : Str} (h : t = [] ∨ ExpShape t) : Stops t := by
  intro c r hc
  rcases h with h | ⟨sg, es, h, _⟩
  · subst h; cases hc
  · rw [h] at hc
    simp only [List.cons.injEq] at hc
    rw [← hc.1]; decide

theorem expShape_head {t : Str} (h : ExpShape t) : ∀ r, t ≠ 46 :: r := by
  obtain ⟨sg, es, rfl, _⟩ := h
  intro r hr; simp at hr

theorem all_false_of (ds : Str) (x : Nat) (more : Str) (hx : isDigit x = false) :
    (ds ++ x :: more).all isDigit = false := by
  simp [List.all_append, hx]

theorem fshape_fchar {u : Str} (h : FShape u) : ∀ x ∈ u, FChar x := by
  cases h with
  | dot ds ds2 t hu h1 h2 h3 h4 h5 =>
    subst hu
    intro x hx
    simp only [List.mem_append, List.mem_cons] at hx
    rcases hx with hx | hx | hx | hx
    · exact Or.inl (h2 x hx)
    · exact Or.inr (Or.inl hx)
    · exact Or.inl (h4 x hx)
    · rcases h5 with h5 | h5
      · subst h5; simp at hx
      · exact expShape_fchar h5 x hx
  | exp ds t hu h1 h2 h5 =>
    subst hu
    intro x hx
    rcases List.mem_append.1 hx with hx | hx
    · exact Or.inl (h2 x hx)
    · exact expShape_fchar h5 x hx

theorem fshape_head {u : Str} (h : FShape u) : ∃ c r, u = c :: r ∧ isDigit c = true := by
  have key : ∀ ds rest : Str, ds ≠ [] → Digits ds → ∃ c r, ds ++ rest = c :: r ∧ isDigit c = true := by
    intro ds rest hne hd
    cases ds with
    | nil => exact absurd rfl hne
    | cons c r => exact ⟨c, r ++ rest, rfl, hd c (List.mem_cons_self ..)⟩
  cases h with
  | dot ds ds2 t hu h1 h2 h3 h4 h5 => subst hu; exact key _ _ h1 h2
  | exp ds t hu h1 h2 h5 => subst hu; exact key _ _ h1 h2

theorem fshape_last {u : Str} (h : FShape u) : LastDigit u := by
  cases h with
  | dot ds ds2 t hu h1 h2 h3 h4 h5 =>
    subst hu
    refine lastDigit_append_right _ (lastDigit_cons _ ?_)
    rcases h5 with h5 | h5
    · subst h5; rw [List.append_nil]; exact lastDigit_digits h3 h4
    · exact lastDigit_append_right _ (expShape_last h5)
  | exp ds t hu h1 h2 h5 =>
    subst hu
    exact lastDigit_append_right _ (expShape_last h5)

theorem fshape_notAllDigits {u : Str} (h : FShape u) : u.all isDigit = false := by
  cases h with
  | dot ds ds2 t hu h1 h2 h3 h4 h5 => subst hu; exact all_false_of _ _ _ (by decide)
  | exp ds t hu h1 h2 h5 =>
    obtain ⟨sg, es, rfl, _⟩ := h5
    subst hu; exact all_false_of _ _ _ (by decide)

theorem isFloatBody_dot (u r t : Str) (hh : ∃ c r0, u = c :: r0 ∧ isDigit c = true)
    (h1 : spanDigitsU (u.length + 1) u = some (46 :: r))
    (h2 : spanDigitsU (u.length + 1) r = some t) (h3 : expPart t = true) :
    isFloatBody u = true := by
  obtain ⟨c, r0, hu, hc⟩ := hh
  unfold isFloatBody
  simp only []
  split
  · simp only [List.cons.injEq] at hu
    rw [← hu.1] at hc
    exact absurd hc (by decide)
  · rw [h1]
    simp only [h2, h3]

theorem isFloatBody_exp (u t : Str) (hh : ∃ c r0, u = c :: r0 ∧ isDigit c = true)
    (h1 : spanDigitsU (u.length + 1) u = some t) (hne : ∀ r, t ≠ 46 :: r)
    (h3 : expPart t = true) : isFloatBody u = true := by
  obtain ⟨c, r0, hu, hc⟩ := hh
  unfold isFloatBody
  simp only []
  split
  · simp only [List.cons.injEq] at hu
    rw [← hu.1] at hc
    exact absurd hc (by decide)
  · rw [h1]
    split
    · rename_i heq; cases heq
    · rename_i r' heq
      simp only [Option.some.injEq] at heq
      exact absurd heq (hne r')
    · rename_i heq
      simp only [Option.some.injEq] at heq
      rw [← heq]; exact h3

theorem expPart_tail {t : Str} (h : t = [] ∨ ExpShape t) : expPart t = true := by
  rcases h with h | h
  · subst h; rfl
  · exact expPart_shape t h

theorem fshape_body {u : Str} (h : FShape u) : isFloatBody u = true := by
  have hh := fshape_head h
  cases h with
  | dot ds ds2 t hu h1 h2 h3 h4 h5 =>
    have s1 : spanDigitsU (u.length + 1) u = some (46 :: (ds2 ++ t)) := by
      have := spanU_app ds (u.length + 1) (46 :: (ds2 ++ t)) (by rw [← hu]; omega) h1 h2
        (by intro c r hc; simp only [List.cons.injEq] at hc; rw [← hc.1]; decide)
      rw [← hu] at this; exact this
    have s2 : spanDigitsU (u.length + 1) (ds2 ++ t) = some t := by
      refine spanU_app ds2 (u.length + 1) t ?_ h3 h4 (expShape_stops h5)
      rw [hu]; simp only [List.length_append, List.length_cons]; omega
    exact isFloatBody_dot u _ t hh s1 s2 (expPart_tail h5)
  | exp ds t hu h1 h2 h5 =>
    have s1 : spanDigitsU (u.length + 1) u = some t := by
      have := spanU_app ds (u.length + 1) t (by rw [← hu]; omega) h1 h2 (expShape_stops (Or.inr h5))
      rw [← hu] at this; exact this
    exact isFloatBody_exp u t hh s1 (expShape_head h5) (expPart_shape t h5)

theorem fchar_no_quote {l : Str} (h : ∀ x ∈ l, FChar x) (q : Nat) (hq : q = 39 ∨ q = 34) :
    l.contains q = false := by
  rw [← Bool.not_eq_true, List.contains_iff_mem]
  intro hm
  rcases h q hm with h | h
  · have := isDigit_bounds h; omega
  · omega

theorem dropWhileEnd_last {p : Nat → Bool} {l : Str} {c : Nat} (h1 : l.getLast? = some c)
    (h2 : p c = false) : dropWhileEnd p l = l := by
  obtain ⟨ys, rfl⟩ := List.getLast?_eq_some_iff.1 h1
  unfold dropWhileEnd
  rw [List.reverse_append, List.reverse_singleton, List.singleton_append,
    List.dropWhile_cons_of_neg (by simp [h2]), List.reverse_cons, List.reverse_reverse]

theorem parseAttr_float_of (l : Str) (h39 : l.contains 39 = false) (h34 : l.contains 34 = false)
    (hreg : intRegex l = false) (ht : l ≠ strTrue) (hf : l ≠ strFalse) (hlit : isFloatLit l = true) :
    parseAttr l = .ok (.float l) := by
  unfold parseAttr
  simp only [h39, h34, hreg, hlit, ht, hf]
  simp

theorem digit_not_space {c : Nat} (h : isDigit c = true) : isSpace c = false := by
  have := isDigit_bounds h
  simp only [isSpace, Bool.or_eq_false_iff, Bool.and_eq_false_iff, decide_eq_false_iff_not]
  omega

theorem digit_not_sign {c : Nat} (h : isDigit c = true) : (c = 43 || c = 45) = false := by
  have := isDigit_bounds h
  simp only [Bool.or_eq_false_iff, decide_eq_false_iff_not]; omega

/-- the common core: `l` is `u` or `-u` with `u` of float-repr shape -/
theorem float_core (l u : Str) (hl : l = u ∨ l = 45 :: u) (hs : FShape u)
    (ht : l ≠ strTrue) (hf : l ≠ strFalse) : parseAttr l = .ok (.float l) := by
  obtain ⟨c, r, hu, hc⟩ := fshape_head hs
  have hfc := fshape_fchar hs
  have hlast := fshape_last hs
  have hnd := fshape_notAllDigits hs
  have hbody := fshape_body hs
  have hlfc : ∀ x ∈ l, FChar x := by
    rcases hl with hl | hl <;> subst hl
    · exact hfc
    · intro x hx
      rcases List.mem_cons.1 hx with hx | hx
      · subst hx; exact Or.inr (Or.inr (Or.inr (Or.inr rfl)))
      · exact hfc x hx
  have hllast : LastDigit l := by
    rcases hl with hl | hl <;> subst hl
    · exact hlast
    · exact lastDigit_cons _ hlast
  have hl10 := lastDigit_ne hllast
  have hsign := digit_not_sign hc
  refine parseAttr_float_of l (fchar_no_quote hlfc 39 (Or.inl rfl)) (fchar_no_quote hlfc 34 (Or.inr rfl))
    ?_ ht hf ?_
  · -- intRegex
    unfold intRegex
    simp only [hl10, if_false]
    rcases hl with hl | hl <;> subst hl
    · subst hu
      simp only [hsign]
      exact hnd
    · simp only [Bool.or_true, decide_true, if_true]
      exact hnd
  · -- isFloatLit
    obtain ⟨d, hd1, hd2⟩ := hllast
    have hdw : l.dropWhile isSpace = l := by
      rcases hl with hl | hl <;> subst hl
      · subst hu
        exact List.dropWhile_cons_of_neg (by simp [digit_not_space hc])
      · exact List.dropWhile_cons_of_neg (by decide)
    unfold isFloatLit
    simp only [hdw, dropWhileEnd_last hd1 (digit_not_space hd2)]
    rcases hl with hl | hl <;> subst hl
    · subst hu
      simp only [hsign]
      simp only [Bool.false_eq_true, if_false, hbody, Bool.or_true]
    · simp only [Bool.or_true, decide_true, if_true, hbody]

/-- a float literal in `float.__repr__` form parses back to the same literal -/
theorem float_roundtrip (l : Str) (h : isFloatRepr l = true) : parseAttr l = .ok (.float l) := by
  have ht : l ≠ strTrue := by intro hh; subst hh; revert h; decide
  have hf : l ≠ strFalse := by intro hh; subst hh; revert h; decide
  unfold isFloatRepr at h
  simp only [] at h
  split at h
  · rename_i r
    split at h
    · rename_i hinf; subst hinf; rfl
    split at h
    · rename_i hnan; simp [strNan] at hnan
    · exact float_core _ r (Or.inr rfl) (fshape_of_span r h) ht hf
  · split at h
    · rename_i hinf; subst hinf; rfl
    split at h
    · rename_i hnan; subst hnan; rfl
    · exact float_core l l (Or.inl rfl) (fshape_of_span l h) ht hf

/-! ## the full round trip -/

/-- well-formed attribute values: a `str` is a list of code points, a `float` is carried as the literal
`float.__repr__` produces.  These are typing conditions of the model's carrier, not exclusions. -/
def ValidAttr : AttrVal → Prop
  | .str s => StrOk s
  | .int _ => True
  | .bool _ => True
  | .float l => isFloatRepr l = true

theorem attr_roundtrip (pr : Nat → Bool) (v : AttrVal) (h : ValidAttr v) :
    parseAttr (pyRepr pr v) = .ok v := by
  cases v with
  | str s => exact str_roundtrip pr s h
  | int i => exact int_roundtrip i
  | bool b => exact bool_roundtrip pr b
  | float l => exact float_roundtrip l h

/-- historical example (a constant, not the source): the text `np.float64(1.5)`, which the writer produced
before fix 4c93d47 for the timestamp of a dataset read from HDF5, is not a readable attribute value -/
theorem npfloat_text_unreadable :
    parseAttr [110, 112, 46, 102, 108, 111, 97, 116, 54, 52, 40, 49, 46, 53, 41] = .error .valueError := by rfl

/-! ## the hypotheses are satisfiable by non-trivial values -/

/-- `it's "q" \ <newline> <0x01> <0x7f> <0x85> <U+FFFE> <U+E0001> <U+10FFFF>` -/
example : StrOk [105, 116, 39, 115, 32, 34, 113, 34, 32, 92, 10, 1, 127, 133, 65534, 917505, 1114111] := by
  intro c hc
  simp only [List.mem_cons, List.not_mem_nil, or_false] at hc
  omega

/-- `repr` goes through every escape form: `\'`, `"`, `\\`, `\n`, `\x01`, `\x85`, `\ufffe`, `\U000e0001` -/
example : reprStr (fun _ => false) [39, 34, 92, 10, 1, 133, 65534, 917505] =
    [39, 92, 39, 34, 92, 92, 92, 110, 92, 120, 48, 49, 92, 120, 56, 53, 92, 117, 102, 102, 102, 101,
     92, 85, 48, 48, 48, 101, 48, 48, 48, 49, 39] := by
  decide

example : parseAttr (reprStr (fun _ => false) [39, 34, 92, 10, 1, 133, 65534, 917505, 1114111]) =
    .ok (.str [39, 34, 92, 10, 1, 133, 65534, 917505, 1114111]) := by rfl

/-- an escape outside `\U00000000 … \U0010FFFF` is left alone, like any backslash that starts no alternative -/
example : parseAttr [39, 92, 85, 48, 48, 49, 49, 48, 48, 48, 48, 39] =
    .ok (.str [92, 85, 48, 48, 49, 49, 48, 48, 48, 48]) := by rfl

/-- `1.5` -/
example : isFloatRepr [49, 46, 53] = true := by decide
/-- `1e-07` -/
example : isFloatRepr [49, 101, 45, 48, 55] = true := by decide
/-- `-inf` -/
example : isFloatRepr [45, 105, 110, 102] = true := by decide
/-- `nan` -/
example : isFloatRepr [110, 97, 110] = true := by decide
/-- `1790779036.4647868` -/
example : isFloatRepr [49, 55, 57, 48, 55, 55, 57, 48, 51, 54, 46, 52, 54, 52, 55, 56, 54, 56] = true := by decide
/-- `-2.5e+20` -/
example : isFloatRepr [45, 50, 46, 53, 101, 43, 50, 48] = true := by decide
/-- an integer literal `15` is not a float repr (it would read back as an `int`) -/
example : isFloatRepr [49, 53] = false := by decide

example : ValidAttr (.float [49, 101, 45, 48, 55]) := by
  show isFloatRepr _ = true; decide
example : parseAttr [49, 101, 45, 48, 55] = .ok (.float [49, 101, 45, 48, 55]) := by rfl

end QmiModel.C17.AttrL
