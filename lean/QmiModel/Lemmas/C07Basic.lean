import QmiModel.Model.PubSub
/-! Helper lemmas for C07/C08: list-as-set operations and the shape of `step`. -/
namespace QmiModel.PubSub

theorem upd_same {α β : Type} [DecidableEq α] (f : α → β) (a : α) (b : β) : upd f a b a = b := by simp [upd]
theorem upd_other {α β : Type} [DecidableEq α] (f : α → β) {a x : α} (b : β) (h : x ≠ a) : upd f a b x = f x := by simp [upd, h]

theorem ins_nodup {l : List Nat} (h : l.Nodup) (x : Nat) : (ins l x).Nodup := by
  unfold ins
  split
  · exact h
  · rw [List.nodup_append]
    refine ⟨h, by simp, ?_⟩
    intro a ha b hb
    simp at hb
    subst hb
    intro e
    subst e
    contradiction

theorem mem_ins {l : List Nat} {x y : Nat} : y ∈ ins l x ↔ y ∈ l ∨ y = x := by
  unfold ins
  split <;> simp_all

theorem foldl_ins_nodup (m : List Nat) : ∀ {l : List Nat}, l.Nodup → (m.foldl ins l).Nodup := by
  induction m with
  | nil => intro l h; exact h
  | cons x xs ih => intro l h; exact ih (ins_nodup h x)

theorem uni_nodup {l : List Nat} (h : l.Nodup) (m : List Nat) : (uni l m).Nodup := foldl_ins_nodup m h

theorem mem_foldl_ins (m : List Nat) : ∀ {l : List Nat} {y : Nat}, y ∈ m.foldl ins l ↔ y ∈ l ∨ y ∈ m := by
  induction m with
  | nil => intro l y; simp
  | cons x xs ih =>
    intro l y
    simp only [List.foldl_cons, ih, mem_ins, List.mem_cons]
    constructor
    · rintro ((h | h) | h) <;> simp [h]
    · rintro (h | h | h) <;> simp [h]

theorem mem_uni {l m : List Nat} {y : Nat} : y ∈ uni l m ↔ y ∈ l ∨ y ∈ m := mem_foldl_ins m

end QmiModel.PubSub

namespace QmiModel.PubSub

@[simp] theorem setCtx_ctx (s : State) (c : Ctx) (cs : CtxSt) (x : Ctx) :
    (s.setCtx c cs).ctx x = if x = c then cs else s.ctx x := by simp [State.setCtx, upd]
@[simp] theorem setCtx_prog (s : State) (c : Ctx) (cs : CtxSt) : (s.setCtx c cs).prog = s.prog := rfl
@[simp] theorem setCtx_conn (s : State) (c : Ctx) (cs : CtxSt) : (s.setCtx c cs).conn = s.conn := rfl
@[simp] theorem setCtx_snaps (s : State) (c : Ctx) (cs : CtxSt) : (s.setCtx c cs).snaps = s.snaps := rfl
@[simp] theorem setCtx_nextConn (s : State) (c : Ctx) (cs : CtxSt) : (s.setCtx c cs).nextConn = s.nextConn := rfl
@[simp] theorem setCtx_nextSeq (s : State) (c : Ctx) (cs : CtxSt) : (s.setCtx c cs).nextSeq = s.nextSeq := rfl
@[simp] theorem setProg_ctx (s : State) (th : Th) (p : List MOp) : (s.setProg th p).ctx = s.ctx := rfl
@[simp] theorem setProg_prog (s : State) (th : Th) (p : List MOp) (x : Th) :
    (s.setProg th p).prog x = if x = th then p else s.prog x := by simp [State.setProg, upd]
@[simp] theorem setProg_conn (s : State) (th : Th) (p : List MOp) : (s.setProg th p).conn = s.conn := rfl
@[simp] theorem setProg_snaps (s : State) (th : Th) (p : List MOp) : (s.setProg th p).snaps = s.snaps := rfl
@[simp] theorem setProg_nextConn (s : State) (th : Th) (p : List MOp) : (s.setProg th p).nextConn = s.nextConn := rfl
@[simp] theorem setProg_nextSeq (s : State) (th : Th) (p : List MOp) : (s.setProg th p).nextSeq = s.nextSeq := rfl

/-- every stored receiver set is duplicate-free (they are Python sets) -/
structure SetsInv (s : State) : Prop where
  lsubs : ∀ c k, ((s.ctx c).lsubs k).Nodup
  rcvs : ∀ c pid po, (s.ctx c).pobj pid = some po → po.rcvs.Nodup

theorem setsInv_init : SetsInv State.init := by
  constructor <;> simp [State.init, CtxSt.init]

theorem handleReplyStep_sets {cs cs' : CtxSt} {id : ReqId} {ok : Bool} {more : List MOp} {o : Out}
    (hl : ∀ k, (cs.lsubs k).Nodup) (hr : ∀ pid po, cs.pobj pid = some po → po.rcvs.Nodup)
    (h : handleReplyStep cs id ok = some (cs', more, o)) :
    (∀ k, (cs'.lsubs k).Nodup) ∧ (∀ pid po, cs'.pobj pid = some po → po.rcvs.Nodup) := by
  unfold handleReplyStep at h
  split at h
  · simp only [Option.some.injEq, Prod.mk.injEq] at h; obtain ⟨rfl, rfl, rfl⟩ := h; exact ⟨hl, hr⟩
  · rename_i pid hpid
    split at h
    · simp only [Option.some.injEq, Prod.mk.injEq] at h; obtain ⟨rfl, rfl, rfl⟩ := h; exact ⟨hl, hr⟩
    · rename_i po hpo
      have hpor := hr pid po hpo
      split at h
      · simp only [Option.some.injEq, Prod.mk.injEq] at h
        obtain ⟨rfl, -, -⟩ := h
        refine ⟨fun k => ?_, fun pid' po' h' => ?_⟩
        · simp only [upd]
          split
          · split
            · exact uni_nodup (hl _) _
            · exact hl _
          · exact hl k
        · simp only [upd] at h'
          split at h'
          · simp only [Option.some.injEq] at h'; subst h'; exact hpor
          · exact hr _ _ h'
      · split at h
        · simp only [Option.some.injEq, Prod.mk.injEq] at h
          obtain ⟨rfl, -, -⟩ := h
          refine ⟨fun k => hl k, fun pid' po' h' => ?_⟩
          simp only [upd] at h'
          split at h'
          · simp only [Option.some.injEq] at h'; subst h'; exact hpor
          · exact hr _ _ h'
        · simp only [Option.some.injEq, Prod.mk.injEq] at h
          obtain ⟨rfl, -, -⟩ := h
          exact ⟨fun k => hl k, fun pid' po' h' => hr _ _ h'⟩

end QmiModel.PubSub

namespace QmiModel.PubSub

theorem erase_nodup' {l : List Nat} (h : l.Nodup) (x : Nat) : (l.erase x).Nodup := h.erase x

/-- `SetsInv` only depends on the `lsubs` / `pobj` fields of the contexts -/
theorem SetsInv.of_ctx {s s' : State}
    (h : SetsInv s)
    (hl : ∀ c k, ((s'.ctx c).lsubs k).Nodup)
    (hr : ∀ c pid po, (s'.ctx c).pobj pid = some po → po.rcvs.Nodup) : SetsInv s' := ⟨hl, hr⟩

set_option maxHeartbeats 1000000 in
theorem setsInv_micro {s s' : State} {th : Th} {ch ch2 : Nat} {op : MOp} {rest : List MOp} {o : Out}
    (h : SetsInv s) (hs : microStep s th ch ch2 op rest = some (s', o)) : SetsInv s' := by
  have hl := h.lsubs
  have hr := h.rcvs
  cases op <;> simp only [microStep] at hs
  all_goals (try (split at hs))
  all_goals (try (split at hs))
  all_goals (try (split at hs))
  all_goals (try (split at hs))
  all_goals (try (simp at hs))
  all_goals (try (obtain ⟨rfl, -⟩ := hs))
  all_goals (try (constructor <;> intro c <;> simp <;> (try split) <;> (try simp [upd]) <;> intros <;> (try split) <;> first | exact hl _ _ | exact hr _ _ _ ‹_› | exact ins_nodup (hl _ _) _ | exact (hl _ _).erase _ | skip))
  all_goals first
    | exact List.nodup_nil
    | (rename_i hp; split at hp
       · simp only [Option.some.injEq] at hp; subst hp
         first | exact ins_nodup (hr _ _ _ ‹_›) _ | simp
       · exact hr _ _ _ hp)
    | exact (handleReplyStep_sets (hl _) (hr _) ‹handleReplyStep _ _ _ = some _›).1 _
    | exact (handleReplyStep_sets (hl _) (hr _) ‹handleReplyStep _ _ _ = some _›).2 _ _ ‹_›
    | (simp only [peerRemovedStep]; split <;> first | exact List.nodup_nil | exact hl _ _)
    | skip

end QmiModel.PubSub

namespace QmiModel.PubSub

/-- `_SocketManager.send_message` touches connections only -/
theorem smSendStep_frame {s s1 : State} {c : Ctx} {d : Peer} {m : Msg} {ok : Bool} {pr : List MOp}
    (h : smSendStep s c d m ok = some (s1, pr)) :
    s1.ctx = s.ctx ∧ s1.prog = s.prog ∧ s1.snaps = s.snaps ∧ s1.nextConn = s.nextConn ∧ s1.nextSeq = s.nextSeq
      ∧ (pr = [] ∨ pr = onSendFail m) := by
  unfold smSendStep at h
  dsimp only at h
  split at h
  · simp only [Option.some.injEq, Prod.mk.injEq] at h
    obtain ⟨rfl, rfl⟩ := h
    simp
  · split at h
    · simp only [Option.some.injEq, Prod.mk.injEq] at h
      obtain ⟨rfl, rfl⟩ := h
      simp
    · split at h
      · simp at h
      · simp only [Option.some.injEq, Prod.mk.injEq] at h
        obtain ⟨rfl, rfl⟩ := h
        simp

/-- steps other than `micro` do not touch `lsubs` / `pobj` -/
theorem setsInv_step {s s' : State} {a : Act} {o : Out} (h : SetsInv s) (hs : step s a = some (s', o)) : SetsInv s' := by
  have hl := h.lsubs
  have hr := h.rcvs
  cases a with
  | micro th ch ch2 =>
    simp only [step] at hs
    split at hs
    · split at hs
      · simp at hs
      · exact setsInv_micro h hs
    · simp at hs
  | begin c t op =>
    simp only [step] at hs
    split at hs
    · cases op <;> simp at hs <;> obtain ⟨rfl, -⟩ := hs <;> exact ⟨fun c k => hl c k, fun c pid po hp => hr c pid po hp⟩
    · simp at hs
  | cb c ok =>
    simp only [step] at hs
    split at hs
    · split at hs
      · simp at hs
      · split at hs
        · simp at hs
        · rename_i heq
          obtain ⟨hc, -, -, -, -, -⟩ := smSendStep_frame heq
          simp only [Option.some.injEq, Prod.mk.injEq] at hs
          obtain ⟨rfl, -⟩ := hs
          constructor <;> intro c' <;> simp [hc] <;> (try split) <;> intros <;> first | exact hl _ _ | exact hr _ _ _ ‹_›
      · split at hs
        all_goals
          simp at hs; obtain ⟨rfl, -⟩ := hs
          constructor <;> intro c' <;> simp <;> (try split) <;> intros <;> first | exact hl _ _ | exact hr _ _ _ ‹_›
    · simp at hs
  | arrive cn cli =>
    simp only [step] at hs
    split at hs
    · split at hs
      · simp at hs
      · simp at hs; obtain ⟨rfl, -⟩ := hs
        exact ⟨fun c k => hl c k, fun c pid po hp => hr c pid po hp⟩
    · simp at hs
  | eof cn cli =>
    simp only [step] at hs
    split at hs
    · simp at hs; obtain ⟨rfl, -⟩ := hs
      exact ⟨fun c k => hl c k, fun c pid po hp => hr c pid po hp⟩
    · simp at hs
  | connect a p =>
    simp only [step] at hs
    split at hs
    · simp at hs; obtain ⟨rfl, -⟩ := hs
      constructor <;> intro c' <;> simp <;> (repeat' split) <;> intros <;> first | exact hl _ _ | exact hr _ _ _ ‹_›
    · simp at hs
  | routerOk c =>
    simp only [step] at hs
    split at hs
    · simp at hs; obtain ⟨rfl, -⟩ := hs
      constructor <;> intro c' <;> simp <;> (repeat' split) <;> intros <;> first | exact hl _ _ | exact hr _ _ _ ‹_›
    · simp at hs
  | stopReq c =>
    simp only [step] at hs
    split at hs
    · simp at hs; obtain ⟨rfl, -⟩ := hs
      constructor <;> intro c' <;> simp <;> (repeat' split) <;> intros <;> first | exact hl _ _ | exact hr _ _ _ ‹_›
    · simp at hs
  | stop c =>
    simp only [step] at hs
    split at hs
    · simp at hs; obtain ⟨rfl, -⟩ := hs
      constructor <;> intro c' <;> simp <;> (repeat' split) <;> intros <;> first | exact hl _ _ | exact hr _ _ _ ‹_›
    · simp at hs

theorem setsInv_reach {s : State} (h : Reach s) : SetsInv s := by
  induction h with
  | init => exact setsInv_init
  | step _ hs ih => exact setsInv_step ih hs


theorem reach_run {s : State} (h : Reach s) : ∀ {as : List Act} {s' : State}, run s as = some s' → Reach s' := by
  intro as
  induction as generalizing s with
  | nil => intro s' hr; simp only [run, Option.some.injEq] at hr; subst hr; exact h
  | cons a as ih =>
    intro s' hr
    simp only [run] at hr
    split at hr
    · rename_i s1 o heq
      exact ih (Reach.step h heq) hr
    · simp at hr

theorem filter_length_le_one_of_nodup_map {α β : Type} [DecidableEq β] (f : α → β) (b : β) :
    ∀ {l : List α}, (l.map f).Nodup → (l.filter (fun x => f x = b)).length ≤ 1 := by
  intro l
  induction l with
  | nil => intro _; simp
  | cons x xs ih =>
    intro h
    simp only [List.map_cons, List.nodup_cons] at h
    simp only [List.filter_cons]
    split
    · rename_i hx
      simp only [decide_eq_true_eq] at hx
      have : xs.filter (fun x => f x = b) = [] := by
        rw [List.filter_eq_nil_iff]
        intro y hy
        simp only [decide_eq_true_eq]
        intro hyb
        exact h.1 (by rw [hx, ← hyb]; exact List.mem_map_of_mem hy)
      simp [this]
    · exact ih h.2


/-- the subscription / pending / object tables and queues of two context states agree -/
structure SameTables (a b : CtxSt) : Prop where
  lsubs : a.lsubs = b.lsubs
  rsubs : a.rsubs = b.rsubs
  rdom : a.rdom = b.rdom
  pobj : a.pobj = b.pobj
  byId : a.byId = b.byId
  byKey : a.byKey = b.byKey
  nextReq : a.nextReq = b.nextReq
  objs : a.objs = b.objs
  got : a.got = b.got
  fut : a.fut = b.fut

theorem SameTables.rfl' (a : CtxSt) : SameTables a a := ⟨rfl, rfl, rfl, rfl, rfl, rfl, rfl, rfl, rfl, rfl⟩

/-- only micro steps touch the tables; the other actions move callbacks, messages, connections and programs -/
theorem step_nonmicro_tables {s s' : State} {a : Act} {o : Out} (ha : ∀ th ch ch2, a ≠ .micro th ch ch2)
    (hs : step s a = some (s', o)) : ∀ c, SameTables (s'.ctx c) (s.ctx c) := by
  intro c'
  cases a with
  | micro th ch ch2 => exact absurd rfl (ha th ch ch2)
  | begin c t op =>
    simp only [step] at hs
    split at hs
    · cases op <;> simp at hs <;> obtain ⟨rfl, -⟩ := hs <;> exact SameTables.rfl' _
    · simp at hs
  | cb c ok =>
    simp only [step] at hs
    split at hs
    · split at hs
      · simp at hs
      · split at hs
        · simp at hs
        · rename_i heq
          obtain ⟨hc, -, -, -, -, -⟩ := smSendStep_frame heq
          simp only [Option.some.injEq, Prod.mk.injEq] at hs
          obtain ⟨rfl, -⟩ := hs
          simp only [setProg_ctx, hc, setCtx_ctx]
          split
          · rename_i e; subst e; exact ⟨rfl, rfl, rfl, rfl, rfl, rfl, rfl, rfl, rfl, rfl⟩
          · exact SameTables.rfl' _
      · split at hs
        all_goals
          simp at hs; obtain ⟨rfl, -⟩ := hs
          simp only [setProg_ctx, setCtx_ctx]
          split
          · rename_i e; subst e; exact ⟨rfl, rfl, rfl, rfl, rfl, rfl, rfl, rfl, rfl, rfl⟩
          · exact SameTables.rfl' _
    · simp at hs
  | arrive cn cli =>
    simp only [step] at hs
    split at hs
    · split at hs
      · simp at hs
      · simp at hs; obtain ⟨rfl, -⟩ := hs
        exact SameTables.rfl' _
    · simp at hs
  | eof cn cli =>
    simp only [step] at hs
    split at hs
    · simp at hs; obtain ⟨rfl, -⟩ := hs
      exact SameTables.rfl' _
    · simp at hs
  | connect a p =>
    simp only [step] at hs
    split at hs
    · simp at hs; obtain ⟨rfl, -⟩ := hs
      simp only [setCtx_ctx]
      repeat' split
      all_goals (try subst_vars)
      all_goals first | exact SameTables.rfl' _ | exact ⟨rfl, rfl, rfl, rfl, rfl, rfl, rfl, rfl, rfl, rfl⟩
    · simp at hs
  | routerOk c =>
    simp only [step] at hs
    split at hs
    · simp only [Option.some.injEq, Prod.mk.injEq] at hs
      obtain ⟨rfl, -⟩ := hs
      exact SameTables.rfl' _
    · simp at hs
  | stopReq c =>
    simp only [step] at hs
    split at hs
    · simp at hs; obtain ⟨rfl, -⟩ := hs
      simp only [setCtx_ctx]
      split
      · rename_i e; subst e; exact ⟨rfl, rfl, rfl, rfl, rfl, rfl, rfl, rfl, rfl, rfl⟩
      · exact SameTables.rfl' _
    · simp at hs
  | stop c =>
    simp only [step] at hs
    split at hs
    · simp at hs; obtain ⟨rfl, -⟩ := hs
      simp only [setCtx_ctx]
      split
      · rename_i e; subst e; exact ⟨rfl, rfl, rfl, rfl, rfl, rfl, rfl, rfl, rfl, rfl⟩
      · exact SameTables.rfl' _
    · simp at hs

/-- unfold one `step` that is a micro step -/
theorem step_micro_inv {s s' : State} {th : Th} {ch ch2 : Nat} {o : Out}
    (hs : step s (.micro th ch ch2) = some (s', o)) :
    (s.ctx th.ctx).alive = true ∧ ∃ op rest, s.prog th = op :: rest ∧ microStep s th ch ch2 op rest = some (s', o) := by
  simp only [step] at hs
  split at hs
  · rename_i ha
    split at hs
    · simp at hs
    · rename_i op rest hp
      exact ⟨ha, op, rest, hp, hs⟩
  · simp at hs

end QmiModel.PubSub
