import QmiModel.Lemmas.C08Sim7
/-! C08, simulation layer — the three arrivals the abstraction sees: a request at the publisher, a reply and a removal
notice at the subscriber. -/
set_option linter.unusedSimpArgs false
namespace QmiModel.PubSub
open Proto

theorem pipe_nodup {s : State} (hr : Reach s) {cn : ConnId} (ho : ((s.conn cn).half true).isOpen = true) : (srvPipe s cn).Nodup :=
  ((srvInv_reach hr).pipe cn ho).nodup ((tokInv_reach hr).nd_pend cn)

/-- the handler works on request `id`: the id is in the handler part of the pipeline -/
theorem hdl_in_srvIds {s : State} {cn : ConnId} {id : ReqId} {t : T}
    (h : hdlTok (.alias cn) id (s.prog (.sock (srvOf s cn))) = some t) : id ∈ srvIds cn (s.prog (.sock (srvOf s cn))) := by
  generalize s.prog (.sock (srvOf s cn)) = l at h
  have key : ∀ op ∈ l, opSrvId cn op = some id → id ∈ srvIds cn l := fun op ho he => by
    simp only [srvIds, List.mem_filterMap]; exact ⟨op, ho, he⟩
  cases l with
  | nil => simp [hdlTok] at h
  | cons op l =>
    cases op <;> (try (simp only [hdlTok] at h)) <;> try (cases h; done)
    case reqChk1 src i ob sg =>
      split at h <;> try (cases h; done)
      rename_i e; obtain ⟨rfl, rfl⟩ := e
      exact key _ List.mem_cons_self (by simp [opSrvId])
    case reqChk2 src i ob sg =>
      split at h <;> try (cases h; done)
      rename_i e; obtain ⟨rfl, rfl⟩ := e
      exact key _ List.mem_cons_self (by simp [opSrvId])
    case addRemote src ob sg =>
      cases l with
      | nil => simp [hdlTok] at h
      | cons op2 l =>
        cases op2 <;> (try (simp only [hdlTok] at h)) <;> try (cases h; done)
        split at h <;> try (cases h; done)
        rename_i e; obtain ⟨rfl, rfl⟩ := e
        exact key _ (List.mem_cons_of_mem _ List.mem_cons_self) (by simp [opSrvId])
    case removeRemote src ob sg =>
      cases l with
      | nil => simp [hdlTok] at h
      | cons op2 l =>
        cases op2 <;> (try (simp only [hdlTok] at h)) <;> try (cases h; done)
        rename_i d m
        cases m <;> (try (simp only [hdlTok] at h)) <;> try (cases h; done)
        split at h <;> try (cases h; done)
        rename_i e; obtain ⟨rfl, rfl⟩ := e
        exact key _ (List.mem_cons_of_mem _ List.mem_cons_self) (by simp [opSrvId, msgRepId])
    case sendChk d m =>
      cases m <;> (try (simp only [hdlTok] at h)) <;> try (cases h; done)
      split at h <;> try (cases h; done)
      rename_i e; obtain ⟨rfl, rfl⟩ := e
      exact key _ List.mem_cons_self (by simp [opSrvId, msgRepId])
    case enq d m =>
      cases m <;> (try (simp only [hdlTok] at h)) <;> try (cases h; done)
      split at h <;> try (cases h; done)
      rename_i e; obtain ⟨rfl, rfl⟩ := e
      exact key _ List.mem_cons_self (by simp [opSrvId, msgRepId])


set_option maxHeartbeats 2000000 in
/-- the publisher's socket thread reads the outstanding request of the key -/
theorem sim_arrive_req {s : State} {cn : ConnId} {ob : Obj} {sg : Sg} {x : AS} (hr : Reach s) (hl : Live s cn)
    {id : ReqId} {ob' : Obj} {sg' : Sg} {b : Bool} {ms : List Msg}
    (hidle : s.prog (.sock (srvOf s cn)) = []) (hin : ((s.conn cn).half false).inbox = .subReq id ob' sg' b :: ms)
    (hcur : curOf (s.ctx (cliOf s cn)) (keyOf s cn ob sg) = some id)
    (h : Sim s cn ob sg x) :
    ∃ x', Sim (arrState s cn false (.subReq id ob' sg' b) ms) cn ob sg x' ∧ (x' = x ∨ x' ∈ next x) := by
  have hlf := live_facts hr hl
  have hpo := pendInv_reach hr (cliOf s cn)
  have hmem : Msg.subReq id ob' sg' b ∈ ((s.conn cn).half false).inbox := by rw [hin]; exact List.mem_cons_self
  have typed := (ctInv_reach hr).srvIn cn _ hmem hlf.openA
  obtain ⟨rfl, rfl⟩ := typed_key_of_cur hpo typed hcur
  obtain ⟨po, hpoOf, -, hsub⟩ := cur_of_typed hpo typed
  have hpipe : id ∈ srvPipe s cn := srvPipe_inbox hmem rfl
  have hnd := pipe_nodup hr hlf.openA
  -- the request is nowhere else
  have hsplit : srvPipe s cn = (((s.conn cn).half true).inbox.filterMap msgRepId ++
      (s.ctx (srvOf s cn)).loopQ.filterMap (cbRepId cn)) ++
      (srvIds cn (s.prog (.sock (srvOf s cn))) ++ ((s.conn cn).half false).inbox.filterMap Msg.reqId?) := by
    simp only [srvPipe, srvOf, List.append_assoc]
  have hD : id ∈ ((s.conn cn).half false).inbox.filterMap Msg.reqId? := by
    simp only [List.mem_filterMap]; exact ⟨_, hmem, rfl⟩
  have hnr : NoRep cn id (viewOf s cn ob' sg') := by
    rw [hsplit, List.nodup_append] at hnd
    obtain ⟨-, -, hdj⟩ := hnd
    constructor
    · intro ok hm
      refine hdj id (List.mem_append.2 (Or.inl ?_)) id (List.mem_append.2 (Or.inr hD)) rfl
      simp only [List.mem_filterMap]; exact ⟨_, hm, rfl⟩
    · intro ok hm
      refine hdj id (List.mem_append.2 (Or.inr ?_)) id (List.mem_append.2 (Or.inr hD)) rfl
      simp only [List.mem_filterMap]; exact ⟨_, hm, by simp [cbRepId, msgRepId]⟩
  obtain ⟨rm, failed, hrel, hfs, rfl⟩ := h
  have hnf : failed = false := by
    cases hfv : failed with
    | false => rfl
    | true => exact absurd ((hfs id hcur).1 hfv) (srv_not_failed hr hlf.openA hpipe)
  subst hnf
  have hcv : (viewOf s cn ob' sg').po.map (·.cur) = some id := hcur
  have hnoHr : MOp.handleReply id true ∉ s.prog (.sock (cliOf s cn)) := by
    intro hm
    exact not_in_pipe_of_prog hr hlf.openA (th := .sock (cliOf s cn)) rfl hm hpipe
  have hxtok : (absOf s cn ob' sg' rm false).tok = .req := by
    simp only [absOf]; rw [absV_tok_some hcv, tokV_client (by simp only [viewOf]; rw [hidle]; rfl) hnr]
    rw [if_neg (by exact hnoHr)]
  have hxpend : (absOf s cn ob' sg' rm false).pend = (if b then P.sub po.cancelled else P.unsub (decide (po.rcvs ≠ []))) := by
    simp only [absOf, absV, viewOf, keyOf, hpoOf, pendP, hsub]
  -- the publisher's side moves
  have pf : PFrame s (arrState s cn false (.subReq id ob' sg' b) ms) cn := by
    refine ⟨arrState_owner _ _ _ _ _ _ _, arrState_owner _ _ _ _ _ _ _, rfl, ?_, ?_, fun n => arrState_owner _ _ _ _ _ _ _⟩
    · intro th hth
      simp only [arrState, setProg_prog]
      rw [if_neg]
      intro e; subst e
      simp only [Th.ctx] at hth
      exact hlf.ne hth.symm
    · intro n' _
      rw [arrState_half, if_neg (by simp)]
  have hrm : ∀ th : Th, th.ctx = srvOf s cn → remPhase cn ob' sg' ((arrState s cn false (.subReq id ob' sg' b) ms).prog th) =
      remPhase cn ob' sg' (s.prog th) := by
    intro th _
    simp only [arrState, setProg_prog]; split
    · rename_i e; subst e
      have : s.prog (.sock ((s.conn cn).half false).owner) = [] := hidle
      rw [this, remPhase_dispatch]; rfl
    · rfl
  have hsim := pf.sim' (ob := ob') (sg := sg') hfs (hrel.keep pf.srv hrm)
    (v' := { viewOf s cn ob' sg' with psp := dispatch (.alias cn) (.subReq id ob' sg' b) })
    (by rw [pf.view]; simp [viewOf, arrState, srcName, srvOf])
  refine ⟨_, hsim, Or.inr ?_⟩
  cases b with
  | true =>
    simp only [if_true] at hxpend
    have := next_reqSub hxtok hxpend
    refine cast (congrArg (· ∈ next _) ?_) this
    refine AS.ext' rfl rfl rfl rfl rfl ?_ rfl rfl rfl
    rw [absV_tok_some (by exact hcv)]
    exact (tokV_hdl (by simp [dispatch, hdlTok])).symm
  | false =>
    simp only [Bool.false_eq_true, if_false] at hxpend
    have := next_reqUnsub hxtok hxpend
    refine cast (congrArg (· ∈ next _) ?_) this
    refine AS.ext' rfl rfl rfl rfl rfl ?_ rfl rfl rfl
    rw [absV_tok_some (by exact hcv)]
    exact (tokV_hdl (by simp [dispatch, hdlTok])).symm


theorem aframe_arrive (s : State) (cn : ConnId) (m : Msg) (ms : List Msg) (hne : cliOf s cn ≠ srvOf s cn) :
    AFrame s (arrState s cn true m ms) cn := by
  refine ⟨arrState_owner _ _ _ _ _ _ _, arrState_owner _ _ _ _ _ _ _, rfl, ?_, fun n b => arrState_owner _ _ _ _ _ _ _⟩
  intro th hth
  simp only [arrState, setProg_prog]
  rw [if_neg]
  intro e; subst e
  simp only [Th.ctx] at hth
  exact hne hth

theorem AFrame.view' {s s' : State} {cn : ConnId} (h : AFrame s s' cn) (ob : Obj) (sg : Sg) :
    viewOf s' cn ob sg = { viewOf s cn ob sg with
      ls := (s'.ctx (cliOf s cn)).lsubs (keyOf s cn ob sg), po := poOf (s'.ctx (cliOf s cn)) (keyOf s cn ob sg),
      psa := s'.prog (.sock (cliOf s cn)), ib := ((s'.conn cn).half true).inbox } := by
  simp only [viewOf, keyOf, h.cli, h.srv, h.ctxP, h.progP (.sock (srvOf s cn)) rfl]

set_option maxHeartbeats 2000000 in
/-- the subscriber's socket thread reads the reply to the outstanding request of the key -/
theorem sim_arrive_rep {s : State} {cn : ConnId} {ob : Obj} {sg : Sg} {x : AS} (hr : Reach s) (hl : Live s cn)
    {id : ReqId} {ok : Bool} {ms : List Msg}
    (hr' : Reach (arrState s cn true (.subReply id ok) ms))
    (hidle : s.prog (.sock (cliOf s cn)) = []) (hin : ((s.conn cn).half true).inbox = .subReply id ok :: ms)
    (hcur : curOf (s.ctx (cliOf s cn)) (keyOf s cn ob sg) = some id)
    (h : Sim s cn ob sg x) :
    ∃ x', Sim (arrState s cn true (.subReply id ok) ms) cn ob sg x' ∧ (x' = x ∨ x' ∈ next x) := by
  have hlf := live_facts hr hl
  have af := aframe_arrive s cn (.subReply id ok) ms hlf.ne
  have hmem : Msg.subReply id ok ∈ ((s.conn cn).half true).inbox := by rw [hin]; exact List.mem_cons_self
  have hpipe : id ∈ srvPipe s cn := by
    simp only [srvPipe, List.mem_append, List.mem_filterMap]
    exact Or.inl (Or.inl (Or.inl ⟨_, hmem, rfl⟩))
  have hnd := pipe_nodup hr hlf.openA
  have hsplit : srvPipe s cn = (id :: ms.filterMap msgRepId) ++
      ((s.ctx (srvOf s cn)).loopQ.filterMap (cbRepId cn) ++
      (srvIds cn (s.prog (.sock (srvOf s cn))) ++ ((s.conn cn).half false).inbox.filterMap Msg.reqId?)) := by
    simp only [srvPipe, srvOf, hin, List.filterMap_cons, msgRepId, List.append_assoc, List.cons_append]
  rw [hsplit, List.nodup_append] at hnd
  obtain ⟨hndA, -, hdj⟩ := hnd
  have hh : hdlTok (.alias cn) id (s.prog (.sock (srvOf s cn))) = none := by
    cases ht : hdlTok (.alias cn) id (s.prog (.sock (srvOf s cn))) with
    | none => rfl
    | some t =>
      exact absurd rfl (hdj id List.mem_cons_self id
        (List.mem_append.2 (Or.inr (List.mem_append.2 (Or.inl (hdl_in_srvIds ht))))))
  have hnr : NoRep cn id { viewOf s cn ob sg with ib := ms, psa := [.handleReply id ok] } := by
    constructor
    · intro ok' hm
      have : id ∈ ms.filterMap msgRepId := by simp only [List.mem_filterMap]; exact ⟨_, hm, rfl⟩
      exact (List.nodup_cons.1 hndA).1 this
    · intro ok' hm
      refine hdj id List.mem_cons_self id (List.mem_append.2 (Or.inl ?_)) rfl
      simp only [List.mem_filterMap]; exact ⟨_, hm, by simp [cbRepId, msgRepId]⟩
  obtain ⟨rm, failed, hrel, hfs, rfl⟩ := h
  have hnf : failed = false := by
    cases hfv : failed with
    | false => rfl
    | true => exact absurd ((hfs id hcur).1 hfv) (srv_not_failed hr hlf.openA hpipe)
  subst hnf
  have hcv : (viewOf s cn ob sg).po.map (·.cur) = some id := hcur
  have hprog' : (arrState s cn true (.subReply id ok) ms).prog (.sock (cliOf s cn)) = [.handleReply id ok] := by
    simp [arrState, cliOf, dispatch]
  have hf' : ∀ id0, curOf ((arrState s cn true (.subReply id ok) ms).ctx (cliOf s cn)) (keyOf s cn ob sg) = some id0 →
      ((!ok) = true ↔ FailCar (arrState s cn true (.subReply id ok) ms) cn id0) := by
    intro id0 hid
    have : id0 = id := by
      have h1 : curOf ((arrState s cn true (.subReply id ok) ms).ctx (cliOf s cn)) (keyOf s cn ob sg) = some id := hcur
      rw [h1] at hid; exact (Option.some.inj hid).symm
    subst this
    cases ok with
    | false =>
      simp only [Bool.not_false, true_iff]
      exact Or.inl ⟨.sock (cliOf s cn), by simp only [Th.ctx]; exact af.cli.symm, by rw [hprog']; exact List.mem_cons_self⟩
    | true =>
      simp only [Bool.not_true, Bool.false_eq_true, false_iff]
      refine hr_true_not_failed hr' ?_
      rw [af.cli, hprog']; exact List.mem_cons_self
  have hsim := af.sim' (ob := ob) (sg := sg) (failed' := !ok) hrel hf'
    (v' := { viewOf s cn ob sg with ib := ms, psa := [.handleReply id ok] })
    (by rw [af.view' ob sg, hprog', arrState_half, if_pos ⟨rfl, rfl⟩, readHalf_inbox]; rfl)
  obtain ⟨hD, hidleS, heq⟩ := absV_readRep (cn := cn) (k := keyOf s cn ob sg) (rm := rm) (ms := ms) (ok := ok) hcv
    (by simp only [viewOf]; exact hin) (by simp only [viewOf]; exact hidle) (by simp only [viewOf]; exact hh) hnr
  refine ⟨_, hsim, Or.inr ?_⟩
  rw [heq]
  exact next_readRep (x := absOf s cn ob sg rm false) hidleS hD


set_option maxHeartbeats 2000000 in
/-- the subscriber's socket thread reads a removal notice for the signal -/
theorem sim_arrive_notice {s : State} {cn : ConnId} {ob : Obj} {sg : Sg} {x : AS} (hr : Reach s) (hl : Live s cn)
    {ms : List Msg}
    (hidle : s.prog (.sock (cliOf s cn)) = []) (hin : ((s.conn cn).half true).inbox = .removed ob sg :: ms)
    (h : Sim s cn ob sg x) :
    ∃ x', Sim (arrState s cn true (.removed ob sg) ms) cn ob sg x' ∧ (x' = x ∨ x' ∈ next x) := by
  have hlf := live_facts hr hl
  have af := aframe_arrive s cn (.removed ob sg) ms hlf.ne
  obtain ⟨rm, failed, hrel, hfs, rfl⟩ := h
  have hprog' : (arrState s cn true (.removed ob sg) ms).prog (.sock (cliOf s cn)) = [.sigRemoved (keyOf s cn ob sg)] := by
    simp [arrState, cliOf, dispatch, srcName, keyOf, srvOf, Conn.half]
  have hfail : ∀ id, FailCar (arrState s cn true (.removed ob sg) ms) cn id ↔ FailCar s cn id := by
    intro id
    refine failCar_congr af.cli ?_ (fun n => af.own n true) ?_
    · intro th hth
      by_cases e : th = .sock (cliOf s cn)
      · subst e; rw [hprog', hidle]; simp
      · simp only [arrState, setProg_prog]; rw [if_neg]; exact e
    · intro n' _ _
      rw [arrState_half]; split
      · rename_i e; obtain ⟨rfl, -⟩ := e; rfl
      · exact Iff.rfl
  have hsim := af.sim' (ob := ob) (sg := sg) (failed' := failed) hrel
    (by intro id hid
        have : curOf (s.ctx (cliOf s cn)) (keyOf s cn ob sg) = some id := hid
        rw [hfs id this, hfail])
    (v' := { viewOf s cn ob sg with ib := ms, psa := [.sigRemoved (keyOf s cn ob sg)] })
    (by rw [af.view' ob sg, hprog', arrState_half, if_pos ⟨rfl, rfl⟩, readHalf_inbox]; rfl)
  obtain ⟨hD, heq, hidleS⟩ := absV_readN (cn := cn) (k := keyOf s cn ob sg) (v := viewOf s cn ob sg) (rm := rm) (f := failed) (ms := ms)
    hin hidle
  refine ⟨_, hsim, Or.inr ?_⟩
  rw [heq]
  exact next_readN (x := absOf s cn ob sg rm failed) hidleS hD

end QmiModel.PubSub
