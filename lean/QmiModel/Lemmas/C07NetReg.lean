import QmiModel.Lemmas.C07NetBase
/-! C07/C08, network layer — teardown blocks of socket threads (`TdShape`) and the registration invariant (`RegInv`):
an open connection end is registered in its owner's peer map, or its owner's socket thread is about to close it. -/
namespace QmiModel.PubSub

def MOp.isTd : MOp → Bool
  | .popPeer .. => true
  | .peerRemoved .. => true
  | .closeConn .. => true
  | _ => false

def tdFree (l : List MOp) : Prop := ∀ op ∈ l, op.isTd = false

theorem tdFree_nil : tdFree [] := by simp [tdFree]
theorem tdFree_cons {op : MOp} {l : List MOp} : tdFree (op :: l) ↔ op.isTd = false ∧ tdFree l := by simp [tdFree]

/-- the teardown operations of a program form one block at its head -/
inductive TdShape : List MOp → Prop
  | free {l : List MOp} : tdFree l → TdShape l
  | pop (n : Peer) (cn : ConnId) (cli : Bool) (r : List MOp) : tdFree r → TdShape (.popPeer n :: .peerRemoved n :: .closeConn cn cli :: r)
  | rem (n : Peer) (cn : ConnId) (cli : Bool) (r : List MOp) : tdFree r → TdShape (.peerRemoved n :: .closeConn cn cli :: r)
  | close (cn : ConnId) (cli : Bool) (r : List MOp) : tdFree r → TdShape (.closeConn cn cli :: r)

theorem handleReplyStep_noTd {cs cs' : CtxSt} {id : ReqId} {ok : Bool} {more : List MOp} {o : Out}
    (h : handleReplyStep cs id ok = some (cs', more, o)) : ∀ op ∈ more, op.isTd = false := by
  intro op ho
  have := handleReplyStep_cars h op ho
  cases op <;> simp_all [MOp.isCar, MOp.isTd]

set_option maxHeartbeats 1000000 in
/-- a micro step never pushes a teardown operation -/
theorem microStep_noTd {s s' : State} {th : Th} {ch ch2 : Nat} {op : MOp} {rest : List MOp} {o : Out}
    (hs : microStep s th ch ch2 op rest = some (s', o)) :
    ∀ op' ∈ s'.prog th, op'.isTd = true → op' ∈ rest := by
  have f1 : ∀ m, ∀ op ∈ onSendFail m, op.isTd = false := by
    intro m op ho; cases m <;> simp_all [onSendFail, MOp.isTd]
  cases op <;> simp only [microStep] at hs
  all_goals (try (split at hs))
  all_goals (try (split at hs))
  all_goals (try (split at hs))
  all_goals (try (split at hs))
  all_goals (try (simp at hs))
  all_goals (try (obtain ⟨rfl, -⟩ := hs))
  all_goals (intro op' hm hx)
  all_goals (simp only [setProg_prog, if_true, State.setProg, upd] at hm)
  all_goals (try (have f2 := handleReplyStep_noTd ‹handleReplyStep _ _ _ = some _›))
  all_goals (try (split at hm))
  all_goals (try (simp only [List.mem_append, List.mem_cons, List.mem_map, List.not_mem_nil, or_false, false_or] at hm))
  all_goals (try exact hm)
  all_goals (try (grind [MOp.isTd]))

set_option maxHeartbeats 1000000 in
/-- a socket operation keeps the rest of the program -/
theorem microStep_sock_rest {s s' : State} {th : Th} {ch ch2 : Nat} {op : MOp} {rest : List MOp} {o : Out}
    (hop : op.isSockOp = true) (hs : microStep s th ch ch2 op rest = some (s', o)) : ∀ op' ∈ rest, op' ∈ s'.prog th := by
  cases op <;> simp only [MOp.isSockOp] at hop <;> (try contradiction) <;> simp only [microStep] at hs
  all_goals (try (split at hs))
  all_goals (try (split at hs))
  all_goals (try (split at hs))
  all_goals (try (split at hs))
  all_goals (try (simp at hs))
  all_goals (try (obtain ⟨rfl, -⟩ := hs))
  all_goals (intro op' hm)
  all_goals (simp only [setProg_prog, if_true, State.setProg, upd])
  all_goals (try split)
  all_goals (try (simp only [List.mem_append, List.mem_cons]))
  all_goals (first | exact hm | exact Or.inr hm | exact Or.inr (Or.inr hm) | skip)

/-- user threads never tear connections down; a socket thread has at most one teardown block, at the head of its program -/
structure TdInv (s : State) : Prop where
  user : ∀ c t, tdFree (s.prog (.user c t))
  sock : ∀ c, TdShape (s.prog (.sock c))

theorem tdInv_init : TdInv State.init := by
  constructor
  · intro c t; simp [State.init, tdFree]
  · intro c; exact TdShape.free (by simp [State.init, tdFree])

theorem tdFree_micro {s s' : State} {th : Th} {ch ch2 : Nat} {op : MOp} {rest : List MOp} {o : Out}
    (h : tdFree (op :: rest)) (hs : microStep s th ch ch2 op rest = some (s', o)) : tdFree (s'.prog th) := by
  intro op' hm
  cases hx : op'.isTd with
  | false => rfl
  | true =>
    have := microStep_noTd hs op' hm hx
    have h2 := h op' (List.mem_cons_of_mem _ this)
    rw [hx] at h2; exact h2

theorem tdInv_micro {s s' : State} {th : Th} {ch ch2 : Nat} {op : MOp} {rest : List MOp} {o : Out}
    (h : TdInv s) (hprog : s.prog th = op :: rest) (hs : microStep s th ch ch2 op rest = some (s', o)) : TdInv s' := by
  have hf := microStep_frame hs
  constructor
  · intro c t
    by_cases e : Th.user c t = th
    · subst e
      have := h.user c t; rw [hprog] at this
      exact tdFree_micro this hs
    · rw [hf.prog_other _ e]; exact h.user c t
  · intro c
    by_cases e : Th.sock c = th
    · subst e
      have hsh := h.sock c
      rw [hprog] at hsh
      generalize hl : op :: rest = l at hsh
      cases hsh with
      | free hfree => subst hl; exact TdShape.free (tdFree_micro hfree hs)
      | pop n cn cli r hr =>
        simp only [List.cons.injEq] at hl
        obtain ⟨rfl, rfl⟩ := hl
        simp only [microStep, Option.some.injEq, Prod.mk.injEq] at hs
        obtain ⟨rfl, -⟩ := hs
        simp only [setProg_prog, if_true]
        exact TdShape.rem n cn cli r hr
      | rem n cn cli r hr =>
        simp only [List.cons.injEq] at hl
        obtain ⟨rfl, rfl⟩ := hl
        simp only [microStep, Option.some.injEq, Prod.mk.injEq] at hs
        obtain ⟨rfl, -⟩ := hs
        simp only [setProg_prog, if_true]
        exact TdShape.close cn cli r hr
      | close cn cli r hr =>
        simp only [List.cons.injEq] at hl
        obtain ⟨rfl, rfl⟩ := hl
        simp only [microStep, Option.some.injEq, Prod.mk.injEq] at hs
        obtain ⟨rfl, -⟩ := hs
        simp only [setProg_prog, if_true]
        refine TdShape.free ?_
        intro op' hm
        rcases List.mem_append.1 hm with h1 | h1
        · simp only [List.mem_map] at h1; obtain ⟨_, -, rfl⟩ := h1; rfl
        · exact hr op' h1
    · rw [hf.prog_other _ e]; exact h.sock c

theorem tdFree_beginProg (c : Ctx) (t : Tid) (n : Nat) (o : Op) : tdFree (beginProg c t n o) := by
  cases o <;> simp only [beginProg] <;> (try split) <;> simp [tdFree, MOp.isTd]

theorem tdFree_onSendFail (m : Msg) : tdFree (onSendFail m) := by
  cases m <;> simp [onSendFail, tdFree, MOp.isTd]

theorem tdFree_dispatch (src : Peer) (m : Msg) : tdFree (dispatch src m) := by
  cases m with
  | subReq id ob sg b => cases b <;> simp [dispatch, tdFree, MOp.isTd]
  | _ => simp [dispatch, tdFree, MOp.isTd]

theorem TdInv.setSock {s : State} (h : TdInv s) (c : Ctx) (pr : List MOp) (hp : TdShape pr) : TdInv (s.setProg (.sock c) pr) := by
  constructor
  · intro c' t; simp only [setProg_prog]; rw [if_neg (by simp)]; exact h.user c' t
  · intro c'; simp only [setProg_prog]; split
    · exact hp
    · exact h.sock c'

theorem TdInv.setUser {s : State} (h : TdInv s) (c : Ctx) (t : Tid) (pr : List MOp) (hp : tdFree pr) : TdInv (s.setProg (.user c t) pr) := by
  constructor
  · intro c' t'; simp only [setProg_prog]; split
    · exact hp
    · exact h.user c' t'
  · intro c'; simp only [setProg_prog]; rw [if_neg (by simp)]; exact h.sock c'

theorem TdInv.congr {s s' : State} (h : TdInv s) (hp : s'.prog = s.prog) : TdInv s' :=
  ⟨fun c t => by rw [hp]; exact h.user c t, fun c => by rw [hp]; exact h.sock c⟩

theorem tdInv_nstep {s s' : State} (h : TdInv s) (hs : NStep s s') : TdInv s' := by
  cases hs
  case beginPub c t ob sg _ _ => exact (h.setUser c t _ (tdFree_beginProg _ _ _ _)).congr rfl
  case beginOther c t op _ _ _ => exact h.setUser c t _ (tdFree_beginProg _ _ _ _)
  case cbUnknown c d m q _ _ _ _ => exact (h.congr (s' := s.setCtx c _) rfl).setSock c _ (TdShape.free (tdFree_onSendFail _))
  case cbSent c d m q cn _ _ _ _ => exact (h.congr (s' := { (s.setCtx c _) with conn := _ }) rfl).setSock c _ (TdShape.free tdFree_nil)
  case cbFail c d m q cn _ _ _ _ _ => exact (h.congr (s' := s.setCtx c _) rfl).setSock c _ (TdShape.free (tdFree_onSendFail _))
  case cbDiscNone c n t q _ _ _ _ => exact (h.congr (s' := s.setCtx c _) rfl).setSock c _ (TdShape.free (by simp [tdFree, MOp.isTd]))
  case cbDisc c n t q cn _ _ _ _ =>
    exact (h.congr (s' := s.setCtx c _) rfl).setSock c _ (TdShape.pop _ _ _ _ (by simp [tdFree, MOp.isTd]))
  case arrive cn cli m ms _ _ _ _ _ => exact (h.congr (s' := { s with conn := upd s.conn cn ((s.conn cn).setHalf cli (readHalf ((s.conn cn).half cli) m ms)) }) rfl).setSock _ _ (TdShape.free (tdFree_dispatch _ _))
  case eof cn cli _ _ _ _ _ _ => exact h.setSock _ _ (TdShape.pop _ _ _ _ tdFree_nil)
  case connect => exact h.congr rfl
  case routerOk => exact h.congr rfl
  case stopReq => exact h.congr rfl
  case stop => exact h.congr rfl

theorem tdInv_reach {s : State} (h : Reach s) : TdInv s := by
  induction h with
  | init => exact tdInv_init
  | step hr hs ih =>
    rename_i s0 s1 a o
    by_cases ha : ∃ th ch ch2, a = .micro th ch ch2
    · obtain ⟨th, ch, ch2, rfl⟩ := ha
      obtain ⟨-, op, rest, hp, hm⟩ := step_micro_inv hs
      exact tdInv_micro ih hp hm
    · exact tdInv_nstep ih (step_nonmicro_cases (fun th ch ch2 e => ha ⟨th, ch, ch2, e⟩) hs)

/-! ### registration -/

/-- an open connection end is registered under its peer name, or is about to be closed by its owner's socket thread;
a teardown block that has not started yet belongs to a registered connection -/
structure RegInv (s : State) : Prop where
  pop : ∀ c n n' cn cli r, s.prog (.sock c) = .popPeer n :: .peerRemoved n' :: .closeConn cn cli :: r →
    (s.ctx c).peers n = some cn ∧ cli = n.isName
  reg : ∀ cn cli, ((s.conn cn).half cli).isOpen = true →
    (s.ctx ((s.conn cn).half cli).owner).peers (srcName s cn cli) = some cn ∨
    .closeConn cn cli ∈ s.prog (.sock ((s.conn cn).half cli).owner)

theorem regInv_init : RegInv State.init := by
  constructor
  · intro c n n' cn cli r h; simp [State.init] at h
  · intro cn cli h; cases cli <;> simp [State.init, Conn.half, Half.init] at h

theorem srcName_isName (s : State) (cn : ConnId) (cli : Bool) : (srcName s cn cli).isName = cli := by
  cases cli <;> simp [srcName, Peer.isName]

theorem srcName_congr {s s' : State} (h : ∀ cn cli, ((s'.conn cn).half cli).owner = ((s.conn cn).half cli).owner)
    (cn : ConnId) (cli : Bool) : srcName s' cn cli = srcName s cn cli := by
  have := h cn false
  simp only [Conn.half, Bool.false_eq_true, if_false] at this
  cases cli <;> simp [srcName, this]

theorem microStep_open {s s' : State} {th : Th} {ch ch2 : Nat} {op : MOp} {rest : List MOp} {o : Out}
    (hs : microStep s th ch ch2 op rest = some (s', o)) {cn : ConnId} {cli : Bool}
    (ho : ((s'.conn cn).half cli).isOpen = true) : ((s.conn cn).half cli).isOpen = true ∧ op ≠ .closeConn cn cli := by
  by_cases hc : op.isClose = true
  · cases op <;> simp only [MOp.isClose] at hc <;> try contradiction
    rename_i cn0 cli0
    simp only [microStep, Option.some.injEq, Prod.mk.injEq] at hs
    obtain ⟨rfl, -⟩ := hs
    simp only [setProg_conn, upd] at ho
    split at ho
    · rename_i e; subst e
      rw [half_setHalf'] at ho
      split at ho
      · simp at ho
      · rename_i e; exact ⟨ho, by intro h; cases h; exact e rfl⟩
    · rename_i e; exact ⟨ho, by intro h; cases h; exact e rfl⟩
  · have := (microStep_fields hs).conn (by simpa using hc)
    rw [this] at ho
    exact ⟨ho, by intro h; subst h; exact hc rfl⟩

theorem microStep_peers_ne {s s' : State} {th : Th} {ch ch2 : Nat} {op : MOp} {rest : List MOp} {o : Out}
    (hs : microStep s th ch ch2 op rest = some (s', o)) {c : Ctx} {n : Peer} (h : op ≠ .popPeer n ∨ c ≠ th.ctx) :
    (s'.ctx c).peers n = (s.ctx c).peers n := by
  by_cases hp : op.isPop = true
  · cases op <;> simp only [MOp.isPop] at hp <;> try contradiction
    rename_i n0
    simp only [microStep, Option.some.injEq, Prod.mk.injEq] at hs
    obtain ⟨rfl, -⟩ := hs
    simp only [setProg_ctx, setCtx_ctx]
    split
    · rename_i e; subst e
      simp only [upd]
      split
      · rename_i e; subst e; rcases h with h | h <;> exact absurd rfl h
      · rfl
    · rfl
  · rw [(microStep_fields hs).peers (by simpa using hp)]

theorem regInv_micro {s s' : State} {th : Th} {ch ch2 : Nat} {op : MOp} {rest : List MOp} {o : Out}
    (h : RegInv s) (htd : TdInv s) (hso : ∀ c, sockOps (s.prog (.sock c)))
    (hprog : s.prog th = op :: rest) (hs : microStep s th ch ch2 op rest = some (s', o)) : RegInv s' := by
  have hf := microStep_frame hs
  have hown := microStep_owner hs
  have hsrc := srcName_congr hown
  -- a user thread never executes a teardown operation
  have huser : ∀ c t, th = .user c t → op.isTd = false := by
    intro c t e
    have := htd.user c t
    rw [← e, hprog] at this
    exact this op List.mem_cons_self
  constructor
  · intro c n n' cn cli r hp
    by_cases e : Th.sock c = th
    · subst e
      exfalso
      have hmem : MOp.popPeer n ∈ rest := microStep_noTd hs _ (by rw [hp]; exact List.mem_cons_self) rfl
      have hsh := htd.sock c
      rw [hprog] at hsh
      generalize hl : op :: rest = l at hsh
      cases hsh with
      | free hfree => subst hl; have := hfree _ (List.mem_cons_of_mem _ hmem); simp [MOp.isTd] at this
      | pop n0 cn0 cli0 r0 hr =>
        simp only [List.cons.injEq] at hl; obtain ⟨-, rfl⟩ := hl
        simp only [List.mem_cons] at hmem
        rcases hmem with h0 | h0 | h0
        · cases h0
        · cases h0
        · have := hr _ h0; simp [MOp.isTd] at this
      | rem n0 cn0 cli0 r0 hr =>
        simp only [List.cons.injEq] at hl; obtain ⟨-, rfl⟩ := hl
        simp only [List.mem_cons] at hmem
        rcases hmem with h0 | h0
        · cases h0
        · have := hr _ h0; simp [MOp.isTd] at this
      | close cn0 cli0 r0 hr =>
        simp only [List.cons.injEq] at hl; obtain ⟨-, rfl⟩ := hl
        have := hr _ hmem; simp [MOp.isTd] at this
    · rw [hf.prog_other _ e] at hp
      have := h.pop c n n' cn cli r hp
      rw [microStep_peers_ne hs]
      · exact this
      · by_cases ec : c = th.ctx
        · left
          cases th with
          | user c0 t0 => intro ho; have := huser c0 t0 rfl; rw [ho] at this; simp [MOp.isTd] at this
          | sock c0 => simp only [Th.ctx] at ec; subst ec; exact absurd rfl e
        · exact Or.inr ec
  · intro cn cli ho
    obtain ⟨ho0, hnc⟩ := microStep_open hs ho
    rw [hown, hsrc]
    by_cases e : Th.sock ((s.conn cn).half cli).owner = th
    · subst e
      have hsop : op.isSockOp = true := by
        have := hso ((s.conn cn).half cli).owner; rw [hprog] at this; exact this op List.mem_cons_self
      rcases h.reg cn cli ho0 with hr | hr
      · by_cases ep : op = .popPeer (srcName s cn cli)
        · subst ep
          right
          have hsh := htd.sock ((s.conn cn).half cli).owner
          rw [hprog] at hsh
          generalize hl : MOp.popPeer (srcName s cn cli) :: rest = l at hsh
          cases hsh with
          | free hfree => subst hl; have := hfree _ List.mem_cons_self; simp [MOp.isTd] at this
          | pop n0 cn0 cli0 r0 hr0 =>
            simp only [List.cons.injEq, MOp.popPeer.injEq] at hl; obtain ⟨rfl, rfl⟩ := hl
            obtain ⟨p1, p2⟩ := h.pop _ _ _ _ _ _ hprog
            rw [hr] at p1; simp only [Option.some.injEq] at p1; subst p1
            rw [srcName_isName] at p2; subst p2
            simp only [microStep, Option.some.injEq, Prod.mk.injEq] at hs
            obtain ⟨rfl, -⟩ := hs
            simp only [setProg_prog, if_true]
            simp
          | rem n0 cn0 cli0 r0 hr0 => simp at hl
          | close cn0 cli0 r0 hr0 => simp at hl
        · left
          rw [microStep_peers_ne hs (Or.inl ep)]; exact hr
      · right
        rw [hprog] at hr
        rcases List.mem_cons.1 hr with h0 | h0
        · exact absurd h0.symm hnc
        · exact microStep_sock_rest hsop hs _ h0
    · rw [hf.prog_other _ e]
      rcases h.reg cn cli ho0 with hr | hr
      · left
        rw [microStep_peers_ne hs]
        · exact hr
        · by_cases ec : ((s.conn cn).half cli).owner = th.ctx
          · left
            cases th with
            | user c0 t0 => intro hq; have := huser c0 t0 rfl; rw [hq] at this; simp [MOp.isTd] at this
            | sock c0 => simp only [Th.ctx] at ec; rw [ec] at e; exact absurd rfl e
          · exact Or.inr ec
      · exact Or.inr hr

/-- steps that leave registrations, owners and open flags alone and start programs only on idle socket threads -/
theorem RegInv.of {s s' : State} (h : RegInv s)
    (hprog : ∀ c, s'.prog (.sock c) = s.prog (.sock c) ∨ (s.prog (.sock c) = [] ∧
      ∀ n n' cn cli r, s'.prog (.sock c) = .popPeer n :: .peerRemoved n' :: .closeConn cn cli :: r →
        (s.ctx c).peers n = some cn ∧ cli = n.isName))
    (hpe : ∀ c, (s'.ctx c).peers = (s.ctx c).peers)
    (hown : ∀ cn cli, ((s'.conn cn).half cli).owner = ((s.conn cn).half cli).owner)
    (hop : ∀ cn cli, ((s'.conn cn).half cli).isOpen = ((s.conn cn).half cli).isOpen) : RegInv s' := by
  constructor
  · intro c n n' cn cli r hp
    rw [hpe]
    rcases hprog c with e | ⟨-, e⟩
    · rw [e] at hp; exact h.pop c n n' cn cli r hp
    · exact e n n' cn cli r hp
  · intro cn cli ho
    rw [hop] at ho
    rw [hown, hpe, srcName_congr hown]
    rcases h.reg cn cli ho with hr | hr
    · exact Or.inl hr
    · rcases hprog ((s.conn cn).half cli).owner with e | ⟨e, -⟩
      · rw [e]; exact Or.inr hr
      · rw [e] at hr; simp at hr

theorem setProg_sock_of (s0 s : State) (c : Ctx) (pr : List MOp) (hidle : s.prog (.sock c) = [])
    (h : ∀ n n' cn cli r, pr = .popPeer n :: .peerRemoved n' :: .closeConn cn cli :: r → (s0.ctx c).peers n = some cn ∧ cli = n.isName)
    (x : Ctx) : (s.setProg (.sock c) pr).prog (.sock x) = s.prog (.sock x) ∨ (s.prog (.sock x) = [] ∧
      ∀ n n' cn cli r, (s.setProg (.sock c) pr).prog (.sock x) = .popPeer n :: .peerRemoved n' :: .closeConn cn cli :: r →
        (s0.ctx x).peers n = some cn ∧ cli = n.isName) := by
  simp only [setProg_prog]
  split
  · rename_i e; simp only [Th.sock.injEq] at e; subst e; exact Or.inr ⟨hidle, h⟩
  · exact Or.inl rfl

/-- the state after `connect a p` (as in `NStep.connect`) -/
def connState (s : State) (a p : Ctx) : State :=
  { ((s.setCtx a { (s.ctx a) with peers := upd (s.ctx a).peers (.name p) (some s.nextConn) }).setCtx p
      { ((s.setCtx a { (s.ctx a) with peers := upd (s.ctx a).peers (.name p) (some s.nextConn) }).ctx p) with
        peers := upd ((s.setCtx a { (s.ctx a) with peers := upd (s.ctx a).peers (.name p) (some s.nextConn) }).ctx p).peers
          (.alias s.nextConn) (some s.nextConn) }) with
    conn := upd s.conn s.nextConn { cli := { owner := a, isOpen := true, inbox := [], pend := [] },
                                    srv := { owner := p, isOpen := true, inbox := [], pend := [] } },
    nextConn := s.nextConn + 1 }

theorem connState_peers (s : State) {a p : Ctx} (hne : a ≠ p) (x : Ctx) (n : Peer) :
    ((connState s a p).ctx x).peers n =
      if x = p ∧ n = .alias s.nextConn then some s.nextConn
      else if x = a ∧ n = .name p then some s.nextConn else (s.ctx x).peers n := by
  simp only [connState, setCtx_ctx]
  by_cases h1 : x = p
  · subst h1
    have : ¬ x = a := fun e => hne e.symm
    simp only [if_true, this, if_false, true_and, false_and, upd]
  · by_cases h2 : x = a
    · subst h2; simp only [h1, if_false, if_true, false_and, true_and, upd]
    · simp only [h1, h2, if_false, false_and]

theorem connState_prog (s : State) (a p : Ctx) : (connState s a p).prog = s.prog := rfl

/-- the fresh connection made by `connect a p` -/
def newConn (a p : Ctx) : Conn :=
  { cli := { owner := a, isOpen := true, inbox := [], pend := [] }, srv := { owner := p, isOpen := true, inbox := [], pend := [] } }

theorem connState_conn (s : State) (a p : Ctx) (cn : ConnId) :
    (connState s a p).conn cn = if cn = s.nextConn then newConn a p else s.conn cn := by
  simp only [connState, upd, newConn]

theorem connState_nextConn (s : State) (a p : Ctx) : (connState s a p).nextConn = s.nextConn + 1 := rfl

theorem regInv_nstep {s s' : State} (h : RegInv s) (ht : TopoInv s) (hs : NStep s s') : RegInv s' := by
  cases hs
  case beginPub c t ob sg _ _ =>
    refine h.of (fun x => Or.inl ?_) (fun _ => rfl) (fun _ _ => rfl) (fun _ _ => rfl)
    simp only [setProg_prog]; rw [if_neg (by simp)]
  case beginOther c t op _ _ _ =>
    refine h.of (fun x => Or.inl ?_) (fun _ => rfl) (fun _ _ => rfl) (fun _ _ => rfl)
    simp only [setProg_prog]; rw [if_neg (by simp)]
  case routerOk => exact h.of (fun _ => Or.inl rfl) (fun _ => rfl) (fun _ _ => rfl) (fun _ _ => rfl)
  case stopReq c _ => exact h.of (fun _ => Or.inl rfl) (setCtx_peers_of_eq s c _ rfl) (fun _ _ => rfl) (fun _ _ => rfl)
  case cbUnknown c d m q _ hidle _ _ =>
    refine h.of ?_ (setCtx_peers_of_eq s c _ rfl) (fun _ _ => rfl) (fun _ _ => rfl)
    refine setProg_sock_of s (s.setCtx c _) c _ hidle ?_
    intro n n' cn cli r e; cases m <;> simp [onSendFail] at e
  case cbFail c d m q cn _ hidle _ _ _ =>
    refine h.of ?_ (setCtx_peers_of_eq s c _ rfl) (fun _ _ => rfl) (fun _ _ => rfl)
    refine setProg_sock_of s (s.setCtx c _) c _ hidle ?_
    intro n n' cn cli r e; cases m <;> simp [onSendFail] at e
  case cbDiscNone c n t q _ hidle _ _ =>
    refine h.of ?_ (setCtx_peers_of_eq s c _ rfl) (fun _ _ => rfl) (fun _ _ => rfl)
    refine setProg_sock_of s (s.setCtx c _) c _ hidle ?_
    intro n n' cn cli r e; simp at e
  case cbDisc c n t q cn _ hidle _ hpeer =>
    refine h.of ?_ (setCtx_peers_of_eq s c _ rfl) (fun _ _ => rfl) (fun _ _ => rfl)
    refine setProg_sock_of s (s.setCtx c _) c _ hidle ?_
    intro n0 n' cn0 cli r e
    simp only [List.cons.injEq, MOp.popPeer.injEq, MOp.closeConn.injEq] at e
    obtain ⟨rfl, -, ⟨rfl, rfl⟩, -⟩ := e
    exact ⟨hpeer, rfl⟩
  case cbSent c d m q cn _ hidle _ _ =>
    refine h.of ?_ (setCtx_peers_of_eq s c _ rfl) ?_ ?_
    · refine setProg_sock_of s ({ (s.setCtx c _) with conn := _ }) c _ hidle ?_
      intro n n' cn cli r e; simp at e
    · intro cn' cli'; simp only [setProg_conn, upd]; split
      · rename_i e; subst e; exact sentConn_owner _ _ _ _
      · rfl
    · intro cn' cli'; simp only [setProg_conn, upd]; split
      · rename_i e; subst e; exact sentConn_isOpen _ _ _ _
      · rfl
  case arrive cn cli m ms _ _ hidle _ _ =>
    refine h.of ?_ (fun _ => rfl) ?_ ?_
    · refine setProg_sock_of s ({ s with conn := upd s.conn cn ((s.conn cn).setHalf cli (readHalf ((s.conn cn).half cli) m ms)) }) _ _ hidle ?_
      intro n n' cn0 cli0 r e
      cases m with
      | subReq id ob sg b => cases b <;> simp [dispatch] at e
      | _ => simp [dispatch] at e
    · intro cn' cli'; simp only [setProg_conn, upd]; split
      · rename_i e; subst e; rw [half_setHalf']; split
        · rename_i e; subst e; exact readHalf_owner _ _ _
        · rfl
      · rfl
    · intro cn' cli'; simp only [setProg_conn, upd]; split
      · rename_i e; subst e; rw [half_setHalf']; split
        · rename_i e; subst e; exact readHalf_isOpen _ _ _
        · rfl
      · rfl
  case eof cn cli _ _ hidle hopen _ _ =>
    refine h.of ?_ (fun _ => rfl) (fun _ _ => rfl) (fun _ _ => rfl)
    refine setProg_sock_of s s _ _ hidle ?_
    intro n0 n' cn0 cli0 r e
    simp only [List.cons.injEq, MOp.popPeer.injEq, MOp.closeConn.injEq] at e
    obtain ⟨rfl, -, ⟨rfl, rfl⟩, -⟩ := e
    rcases h.reg cn cli hopen with hr | hr
    · exact ⟨hr, (srcName_isName s cn cli).symm⟩
    · rw [hidle] at hr; simp at hr
  case connect a p hne hal hpl hnone =>
    show RegInv (connState s a p)
    constructor
    · intro c n n' cn cli r hp
      rw [connState_prog] at hp
      obtain ⟨h1, h2⟩ := h.pop c n n' cn cli r hp
      refine ⟨?_, h2⟩
      rw [connState_peers s hne]
      split
      · rename_i e; obtain ⟨rfl, rfl⟩ := e
        obtain ⟨t1, t2, -⟩ := ht.peersA _ _ _ h1
        subst t1; exact absurd t2 (Nat.lt_irrefl _)
      · split
        · rename_i e; obtain ⟨rfl, rfl⟩ := e
          rw [hnone] at h1; cases h1
        · exact h1
    · intro cn cli ho
      rw [connState_conn] at ho
      rw [connState_prog]
      by_cases e : cn = s.nextConn
      · subst e
        left
        cases cli with
        | true => simp [connState_conn, newConn, Conn.half, srcName, connState_peers s hne, hne]
        | false => simp [connState_conn, newConn, Conn.half, srcName, connState_peers s hne]
      · simp only [e, if_false] at ho
        have hsrc : srcName (connState s a p) cn cli = srcName s cn cli := by
          cases cli <;> simp [srcName, connState_conn, e]
        have hown : (((connState s a p).conn cn).half cli).owner = ((s.conn cn).half cli).owner := by
          simp [connState_conn, e]
        rw [hsrc, hown]
        rcases h.reg cn cli ho with hr | hr
        · left
          rw [connState_peers s hne]
          split
          · rename_i e2
            cases cli with
            | true => simp [srcName] at e2
            | false => simp only [srcName, Bool.false_eq_true, if_false, Peer.alias.injEq] at e2; exact absurd e2.2 e
          · split
            · rename_i e2; rw [e2.1, e2.2, hnone] at hr; cases hr
            · exact hr
        · exact Or.inr hr
  case stop c hal =>
    constructor
    · intro c' n n' cn cli r hp
      have := h.pop c' n n' cn cli r hp
      simp only [setCtx_ctx]; split
      · rename_i e; subst e; exact this
      · exact this
    · intro cn cli ho
      simp only [stopConn_isOpen] at ho
      split at ho
      · cases ho
      · have hsrc : srcName { (s.setCtx c { (s.ctx c) with alive := false, loopQ := [] }) with conn := fun cn => stopConn c (s.conn cn) } cn cli
            = srcName s cn cli := srcName_congr (fun cn cli => stopConn_owner c (s.conn cn) cli) cn cli
        rw [hsrc]
        simp only [stopConn_owner, setCtx_ctx]
        rcases h.reg cn cli ho with hr | hr
        · left; split
          · rename_i e; rw [e] at hr; exact hr
          · exact hr
        · exact Or.inr hr

theorem regInv_reach {s : State} (h : Reach s) : RegInv s := by
  induction h with
  | init => exact regInv_init
  | step hr hs ih =>
    rename_i s0 s1 a o
    by_cases ha : ∃ th ch ch2, a = .micro th ch ch2
    · obtain ⟨th, ch, ch2, rfl⟩ := ha
      obtain ⟨-, op, rest, hp, hm⟩ := step_micro_inv hs
      exact regInv_micro ih (tdInv_reach hr) (sockOps_reach hr) hp hm
    · exact regInv_nstep ih (topoInv_reach hr) (step_nonmicro_cases (fun th ch ch2 e => ha ⟨th, ch, ch2, e⟩) hs)

end QmiModel.PubSub
