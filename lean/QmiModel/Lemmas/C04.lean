import QmiModel.Model.Lock
/-!
# Helper lemmas and specification vocabulary for C04 (object lock)

Core Lean only.  Nothing here is a property theorem; `Props/C04.lean` states those.
-/
namespace QmiModel.Lock

/-! ## Specification vocabulary (used in the statements of `Props/C04.lean`) -/

/-- the token a `lock p custom` request carries (`none`: no such proxy, or the custom token is one of the reserved
reply placeholders and `lock()` raises `QMI_UsageException` without sending anything) -/
def lockToken (s : Sys) (p : Nat) (custom : Option String) : Option Token :=
  match s.proxies[p]? with
  | none => none
  | some px =>
    match s.ctxs[px.ctx]? with
    | none => none
    | some c =>
      if reservedCustom custom then none else
      some (match custom with
            | some t => ⟨c.name, t⟩
            | none => mkToken c.name c.nonce (c.counter + 1))

/-- the token an `unlock p custom` request carries; outer `none`: no such proxy -/
def unlockToken (s : Sys) (p : Nat) (custom : Option String) : Option (Option Token) :=
  match s.proxies[p]? with
  | none => none
  | some px =>
    match s.ctxs[px.ctx]? with
    | none => none
    | some c => some (match custom with
                      | some t => some ⟨c.name, t⟩
                      | none => px.tok)

/-- the token a method call through proxy `p` carries; outer `none`: no such proxy -/
def callToken (s : Sys) (p : Nat) (nb : Bool) : Option (Option Token) :=
  match s.proxies[p]? with
  | none => none
  | some px => some (if nb then px.nbTok else px.tok)

/-- proxy index and its context index are valid -/
def validProxy (s : Sys) (p : Nat) : Prop :=
  ∃ px c, s.proxies[p]? = some px ∧ s.ctxs[px.ctx]? = some c

/-- lock / unlock / force-unlock / query operations -/
def Op.isLockOp : Op → Bool
  | .lock .. | .unlock .. | .forceUnlock .. | .isLocked .. => true
  | _ => false

/-- execution trace: (state before, op, state after, output) -/
def trace (s : Sys) : List Op → List (Sys × Op × Sys × Out)
  | [] => []
  | o :: os => (s, o, (step s o).1, (step s o).2) :: trace (step s o).1 os

/-! ## The generated table against the reference -/

theorem lockStep_spec (srv : String) (owner : Option Token) (a : Act) (req : Option Token)
    (hi : issuable a req) :
    lockStep srv owner a req = .ok (lockSpec srv owner a req) := by
  cases a <;> cases owner <;> cases req <;>
    first
    | (rename_i o t
       by_cases h : o = t
       · subst h; simp_all [issuable, lockStep, lockStepWith, Gen.LockFsm.table, relOf, interpSt, interpRep, lockSpec]
       · have h' : ¬ t = o := fun e => h e.symm
         simp_all [issuable, lockStep, lockStepWith, Gen.LockFsm.table, relOf, interpSt, interpRep, lockSpec])
    | simp_all [issuable, lockStep, lockStepWith, Gen.LockFsm.table, relOf, interpSt, interpRep, lockSpec]

theorem guardStep_spec (owner req : Option Token) :
    guardStep owner req = if dispatchGuard owner req then .exec else .refused := by
  cases owner <;> cases req <;>
    first
    | (rename_i o t
       by_cases h : o = t
       · subst h; simp [guardStep, Gen.LockFsm.guard, relOf, dispatchGuard]
       · have h' : ¬ t = o := fun e => h e.symm
         simp [guardStep, Gen.LockFsm.guard, relOf, dispatchGuard, h, h'])
    | simp [guardStep, Gen.LockFsm.guard, relOf, dispatchGuard]

/-! ## One request delivered to the worker -/

theorem lockRequest_dead {s : Sys} {a : Act} {req : Option Token} (h : s.dead ≠ none) :
    lockRequest s a req = (s, none) := by
  unfold lockRequest
  cases hd : s.dead with
  | none => exact absurd hd h
  | some e => rfl

theorem lockRequest_ok {s : Sys} {a : Act} {req : Option Token} (h : s.dead = none)
    (hi : issuable a req) :
    lockRequest s a req =
      ({ s with owner := (lockSpec s.srv s.owner a req).1 }, some (lockSpec s.srv s.owner a req).2) := by
  unfold lockRequest
  rw [h]
  simp only [lockStep_spec s.srv s.owner a req hi]

/-- a lock request touches nothing but `owner` and `dead` -/
theorem lockRequest_frame (s : Sys) (a : Act) (req : Option Token) :
    (lockRequest s a req).1.srv = s.srv ∧ (lockRequest s a req).1.ctxs = s.ctxs ∧
    (lockRequest s a req).1.proxies = s.proxies ∧ (lockRequest s a req).1.count = s.count ∧
    (lockRequest s a req).1.gens = s.gens := by
  unfold lockRequest
  split
  · simp
  · split <;> simp

/-- a reply means the worker was and stays alive -/
theorem lockRequest_reply {s s' : Sys} {a : Act} {req : Option Token} {rep : Option Token}
    (h : lockRequest s a req = (s', some rep)) : s.dead = none ∧ s'.dead = none := by
  unfold lockRequest at h
  split at h
  · simp at h
  · rename_i hd
    split at h
    · simp only [Prod.mk.injEq, Option.some.injEq] at h
      obtain ⟨h1, _⟩ := h
      subst h1
      exact ⟨hd, hd⟩
    · simp at h

theorem callRequest_frame (s : Sys) (req : Option Token) :
    (callRequest s req).1.srv = s.srv ∧ (callRequest s req).1.ctxs = s.ctxs ∧
    (callRequest s req).1.proxies = s.proxies ∧ (callRequest s req).1.owner = s.owner ∧
    (callRequest s req).1.gens = s.gens := by
  unfold callRequest
  split
  · simp
  · split <;> simp

theorem callRequest_spec {s : Sys} (req : Option Token) (h : s.dead = none) :
    callRequest s req =
      if dispatchGuard s.owner req then ({ s with count := s.count + 1 }, .ran (s.count + 1)) else (s, .locked) := by
  unfold callRequest
  rw [h]
  simp only [guardStep_spec]
  cases dispatchGuard s.owner req <;> rfl

theorem callRequest_dead {s : Sys} (req : Option Token) (h : s.dead ≠ none) :
    callRequest s req = (s, .hang) := by
  unfold callRequest
  cases hd : s.dead with
  | none => exact absurd hd h
  | some e => rfl

/-! ## The proxy operations, characterised through the reference lock -/

theorem lockPre_frame (s : Sys) (p : Nat) (px : Proxy) (c : Ctx) (custom : Option String) :
    (lockPre s p px c custom).1.owner = s.owner ∧ (lockPre s p px c custom).1.dead = s.dead ∧
    (lockPre s p px c custom).1.srv = s.srv ∧ (lockPre s p px c custom).1.proxies = s.proxies ∧
    (lockPre s p px c custom).1.count = s.count := by
  cases custom <;> simp [lockPre, freshToken]

theorem lockToken_eq {s : Sys} {p : Nat} {custom : Option String} {px : Proxy} {c : Ctx}
    (hp : s.proxies[p]? = some px) (hc : s.ctxs[px.ctx]? = some c) (hr : reservedCustom custom = false) :
    lockToken s p custom = some (lockPre s p px c custom).2 := by
  unfold lockToken
  rw [hp]; simp only [hc, hr]
  cases custom <;> rfl

theorem lockToken_reserved {s : Sys} {p : Nat} {custom : Option String} (hr : reservedCustom custom = true) :
    lockToken s p custom = none := by
  unfold lockToken
  split
  · rfl
  · split
    · rfl
    · simp [hr]

/-- the reserved placeholder strings are refused before anything happens -/
theorem proxyLock_reserved {s : Sys} {p : Nat} {custom : Option String} {px : Proxy} {c : Ctx}
    (hp : s.proxies[p]? = some px) (hc : s.ctxs[px.ctx]? = some c) (hr : reservedCustom custom = true) :
    proxyLock s p custom = (s, .usage) := by
  unfold proxyLock
  rw [hp]; simp only [hc, hr, ↓reduceIte]

theorem proxyLock_alive {s : Sys} {p : Nat} {custom : Option String} {px : Proxy} {c : Ctx}
    (hp : s.proxies[p]? = some px) (hc : s.ctxs[px.ctx]? = some c) (hr : reservedCustom custom = false)
    (h : s.dead = none) :
    proxyLock s p custom =
      (let sm := lockPre s p px c custom
       let r := lockSpec s.srv s.owner .acquire (some sm.2)
       if r.2 = some sm.2 then (setProxyTok { sm.1 with owner := r.1 } p px (some sm.2), .bool true)
       else ({ sm.1 with owner := r.1 }, .bool false)) := by
  unfold proxyLock
  rw [hp]; simp only [hc, hr, Bool.false_eq_true, ↓reduceIte]
  have hf := lockPre_frame s p px c custom
  have hreq := lockRequest_ok (s := (lockPre s p px c custom).1) (a := .acquire) (req := some (lockPre s p px c custom).2)
    (by rw [hf.2.1]; exact h) (by simp [issuable])
  rw [hreq]
  simp only [hf.1, hf.2.2.1]

theorem proxyLock_dead {s : Sys} {p : Nat} {custom : Option String} {px : Proxy} {c : Ctx}
    (hp : s.proxies[p]? = some px) (hc : s.ctxs[px.ctx]? = some c) (hr : reservedCustom custom = false)
    (h : s.dead ≠ none) :
    proxyLock s p custom = ((lockPre s p px c custom).1, .hang) := by
  unfold proxyLock
  rw [hp]; simp only [hc, hr, Bool.false_eq_true, ↓reduceIte]
  have hf := lockPre_frame s p px c custom
  rw [lockRequest_dead (by rw [hf.2.1]; exact h)]

theorem unlockToken_eq {s : Sys} {p : Nat} {custom : Option String} {px : Proxy} {c : Ctx}
    (hp : s.proxies[p]? = some px) (hc : s.ctxs[px.ctx]? = some c) :
    unlockToken s p custom = some (unlockReq px c custom) := by
  unfold unlockToken
  rw [hp]; simp only [hc]
  cases custom <;> rfl

theorem proxyUnlock_alive {s : Sys} {p : Nat} {custom : Option String} {px : Proxy} {c : Ctx}
    (hp : s.proxies[p]? = some px) (hc : s.ctxs[px.ctx]? = some c) (h : s.dead = none) :
    proxyUnlock s p custom =
      (let r := lockSpec s.srv s.owner .release (unlockReq px c custom)
       if r.2 = none then (setProxyTok { s with owner := r.1 } p px none, .bool true)
       else ({ s with owner := r.1 }, .bool false)) := by
  unfold proxyUnlock
  rw [hp]; simp only [hc]
  have hreq := lockRequest_ok (s := s) (a := .release) (req := unlockReq px c custom) h (by simp [issuable])
  rw [hreq]

theorem proxyUnlock_dead {s : Sys} {p : Nat} {custom : Option String} {px : Proxy} {c : Ctx}
    (hp : s.proxies[p]? = some px) (hc : s.ctxs[px.ctx]? = some c) (h : s.dead ≠ none) :
    proxyUnlock s p custom = (s, .hang) := by
  unfold proxyUnlock
  rw [hp]; simp only [hc]
  rw [lockRequest_dead h]

/-- `force_unlock()` on a live object, locked or not: answered, unlocked afterwards, the proxy forgets its token -/
theorem proxyForce_alive {s : Sys} {p : Nat} {px : Proxy}
    (hp : s.proxies[p]? = some px) (h : s.dead = none) :
    proxyForceUnlock s p = (setProxyTok { s with owner := none } p px none, .unit) := by
  unfold proxyForceUnlock
  rw [hp]
  have hreq := lockRequest_ok (s := s) (a := .forceRelease) (req := px.tok) h (by simp [issuable])
  simp only [hreq, lockSpec, ↓reduceIte]

theorem proxyForce_dead {s : Sys} {p : Nat} {px : Proxy}
    (hp : s.proxies[p]? = some px) (h : s.dead ≠ none) :
    proxyForceUnlock s p = (s, .hang) := by
  unfold proxyForceUnlock
  rw [hp]
  simp only [lockRequest_dead h]

theorem proxyIsLocked_alive {s : Sys} {p : Nat} {px : Proxy}
    (hp : s.proxies[p]? = some px) (h : s.dead = none) :
    proxyIsLocked s p = (s, .bool s.owner.isSome) := by
  unfold proxyIsLocked
  rw [hp]
  have hreq := lockRequest_ok (s := s) (a := .query) (req := px.tok) h (by simp [issuable])
  simp only [hreq]
  cases ho : s.owner with
  | none =>
    simp only [lockSpec, Option.isSome]
    congr 1
    cases s; simp_all
  | some o =>
    simp only [lockSpec, Option.isSome]
    congr 1
    cases s; simp_all

theorem proxyIsLocked_dead {s : Sys} {p : Nat} {px : Proxy}
    (hp : s.proxies[p]? = some px) (h : s.dead ≠ none) :
    proxyIsLocked s p = (s, .hang) := by
  unfold proxyIsLocked
  rw [hp]
  simp only [lockRequest_dead h]

theorem proxyCall_eq {s : Sys} {p : Nat} {nb : Bool} {px : Proxy} (hp : s.proxies[p]? = some px) :
    proxyCall s p nb = callRequest s (if nb then px.nbTok else px.tok) := by
  unfold proxyCall
  rw [hp]

/-- inductive invariant of every reachable system state -/
structure Inv (s : Sys) : Prop where
  gens_ok : ∀ g ∈ s.gens, ∃ c, s.ctxs[g.ctx]? = some c ∧ 1 ≤ g.n ∧ g.n ≤ c.counter ∧ g.tok = mkToken c.name c.nonce g.n
  gens_pw : s.gens.Pairwise (fun a b => ¬ (a.ctx = b.ctx ∧ a.n = b.n))
  sync : ∀ px ∈ s.proxies, px.tok = px.nbTok

theorem Inv_init (srv nonce : String) : Inv (init srv nonce) := by
  constructor <;> simp [init]

theorem Inv_congr {s s' : Sys} (hc : s'.ctxs = s.ctxs) (hg : s'.gens = s.gens) (hp : s'.proxies = s.proxies)
    (h : Inv s) : Inv s' := by
  constructor
  · rw [hg, hc]; exact h.gens_ok
  · rw [hg]; exact h.gens_pw
  · rw [hp]; exact h.sync

theorem Inv_setProxyTok {s : Sys} (p : Nat) (px : Proxy) (t : Option Token) (h : Inv s) :
    Inv (setProxyTok s p px t) := by
  constructor
  · exact h.gens_ok
  · exact h.gens_pw
  · intro q hq
    simp only [setProxyTok] at hq
    rcases List.mem_or_eq_of_mem_set hq with hq | rfl
    · exact h.sync q hq
    · rfl

/-- incrementing the counter of context instance `ci` keeps every recorded generation valid -/
theorem gens_ok_bump {s : Sys} {ci : Nat} {c : Ctx} (hc : s.ctxs[ci]? = some c) (h : Inv s) :
    ∀ g ∈ s.gens, ∃ c', (s.ctxs.set ci { c with counter := c.counter + 1 })[g.ctx]? = some c' ∧ 1 ≤ g.n ∧
      g.n ≤ c'.counter ∧ g.tok = mkToken c'.name c'.nonce g.n := by
  intro g hg
  obtain ⟨c0, h0, h1, h2, h3⟩ := h.gens_ok g hg
  have hlt : ci < s.ctxs.length := (List.getElem?_eq_some_iff.1 hc).1
  by_cases hi : ci = g.ctx
  · rw [← hi] at h0 ⊢
    rw [hc] at h0
    cases h0
    exact ⟨{ c with counter := c.counter + 1 }, by simp [hlt], h1, Nat.le_succ_of_le h2, h3⟩
  · refine ⟨c0, ?_, h1, h2, h3⟩
    rw [List.getElem?_set_ne hi]; exact h0

theorem Inv_bump {s : Sys} {ci : Nat} {c : Ctx} (hc : s.ctxs[ci]? = some c) (h : Inv s) :
    Inv { s with ctxs := s.ctxs.set ci { c with counter := c.counter + 1 } } :=
  ⟨gens_ok_bump hc h, h.gens_pw, h.sync⟩

theorem Inv_freshToken {s : Sys} {p : Nat} {px : Proxy} {c : Ctx} (hc : s.ctxs[px.ctx]? = some c) (h : Inv s) :
    Inv (freshToken s p px c).1 := by
  have hlt : px.ctx < s.ctxs.length := (List.getElem?_eq_some_iff.1 hc).1
  constructor
  · intro g hg
    simp only [freshToken, List.mem_cons] at hg ⊢
    rcases hg with rfl | hg
    · exact ⟨{ c with counter := c.counter + 1 }, by simp [hlt], by simp, by simp, rfl⟩
    · exact gens_ok_bump hc h g hg
  · simp only [freshToken, List.pairwise_cons]
    refine ⟨?_, h.gens_pw⟩
    intro g hg hcontra
    obtain ⟨c0, h0, _, h2, _⟩ := h.gens_ok g hg
    rw [← hcontra.1, hc] at h0
    cases h0
    omega
  · exact h.sync

theorem Inv_lockPre {s : Sys} {p : Nat} {px : Proxy} {c : Ctx} (custom : Option String)
    (hc : s.ctxs[px.ctx]? = some c) (h : Inv s) : Inv (lockPre s p px c custom).1 := by
  cases custom with
  | some t => exact h
  | none => exact Inv_freshToken hc h

theorem Inv_lockRequest {s : Sys} (a : Act) (req : Option Token) (h : Inv s) : Inv (lockRequest s a req).1 := by
  have hf := lockRequest_frame s a req
  exact Inv_congr hf.2.1 hf.2.2.2.2 hf.2.2.1 h

theorem Inv_callRequest {s : Sys} (req : Option Token) (h : Inv s) : Inv (callRequest s req).1 := by
  have hf := callRequest_frame s req
  exact Inv_congr hf.2.1 hf.2.2.2.2 hf.2.2.1 h

theorem Inv_step {s : Sys} (o : Op) (h : Inv s) : Inv (step s o).1 := by
  cases o with
  | newCtx name nonce =>
    simp only [step]
    refine ⟨?_, h.gens_pw, h.sync⟩
    intro g hg
    obtain ⟨c0, h0, h1, h2, h3⟩ := h.gens_ok g hg
    refine ⟨c0, ?_, h1, h2, h3⟩
    have hlt : g.ctx < s.ctxs.length := (List.getElem?_eq_some_iff.1 h0).1
    rw [List.getElem?_append_left hlt]; exact h0
  | newProxy c =>
    simp only [step]
    split
    · refine ⟨h.gens_ok, h.gens_pw, ?_⟩
      intro q hq
      simp only [List.mem_append, List.mem_singleton] at hq
      rcases hq with hq | rfl
      · exact h.sync q hq
      · rfl
    · exact h
  | lock p custom =>
    simp only [step]
    unfold proxyLock
    cases hp : s.proxies[p]? with
    | none => exact h
    | some px =>
      dsimp only
      cases hc : s.ctxs[px.ctx]? with
      | none => exact h
      | some c =>
        dsimp only
        split
        · exact h
        · have h2 := Inv_lockRequest .acquire (some (lockPre s p px c custom).2) (Inv_lockPre (p := p) custom hc h)
          generalize lockRequest (lockPre s p px c custom).1 .acquire (some (lockPre s p px c custom).2) = r at h2 ⊢
          rcases r with ⟨s2, _ | their⟩
          · exact h2
          · dsimp only at h2 ⊢
            split
            · exact Inv_setProxyTok _ _ _ h2
            · exact h2
  | unlock p custom =>
    simp only [step]
    unfold proxyUnlock
    cases hp : s.proxies[p]? with
    | none => exact h
    | some px =>
      dsimp only
      cases hc : s.ctxs[px.ctx]? with
      | none => exact h
      | some c =>
        dsimp only
        have h2 := Inv_lockRequest .release (unlockReq px c custom) h
        generalize lockRequest s .release (unlockReq px c custom) = r at h2 ⊢
        rcases r with ⟨s2, _ | their⟩
        · exact h2
        · dsimp only at h2 ⊢
          split
          · exact Inv_setProxyTok _ _ _ h2
          · exact h2
  | forceUnlock p =>
    simp only [step]
    unfold proxyForceUnlock
    cases hp : s.proxies[p]? with
    | none => exact h
    | some px =>
      dsimp only
      have h2 := Inv_lockRequest .forceRelease px.tok h
      generalize lockRequest s .forceRelease px.tok = r at h2 ⊢
      rcases r with ⟨s2, _ | their⟩
      · exact h2
      · dsimp only at h2 ⊢
        split
        · exact Inv_setProxyTok _ _ _ h2
        · exact h2
  | isLocked p =>
    simp only [step]
    unfold proxyIsLocked
    cases hp : s.proxies[p]? with
    | none => exact h
    | some px =>
      dsimp only
      have h2 := Inv_lockRequest .query px.tok h
      generalize lockRequest s .query px.tok = r at h2 ⊢
      rcases r with ⟨s2, _ | their⟩
      · exact h2
      · exact h2
  | call p nb =>
    simp only [step]
    unfold proxyCall
    cases hp : s.proxies[p]? with
    | none => exact h
    | some px => exact Inv_callRequest _ h
  | burn c =>
    simp only [step]
    cases hcx : s.ctxs[c]? with
    | none => exact h
    | some cx => exact Inv_bump hcx h
  | recreate => exact Inv_congr (s := s) rfl rfl rfl h
  | stopCtx c => exact h

theorem Inv_exec {s : Sys} (ops : List Op) (h : Inv s) : Inv (exec s ops) := by
  induction ops generalizing s with
  | nil => exact h
  | cons o os ih => exact ih (Inv_step o h)


/-! ## Histories -/

theorem exec_cons (s : Sys) (o : Op) (os : List Op) : exec s (o :: os) = exec (step s o).1 os := rfl

theorem run_fst (s : Sys) (ops : List Op) : (run s ops).1 = exec s ops := by
  induction ops generalizing s with
  | nil => rfl
  | cons o os ih => simp only [run, exec_cons]; exact ih _

/-- every trace entry is a step taken from a state satisfying the invariant -/
theorem trace_mem {s : Sys} {ops : List Op} {e : Sys × Op × Sys × Out} (h : e ∈ trace s ops) (hinv : Inv s) :
    Inv e.1 ∧ e.2.2 = step e.1 e.2.1 := by
  induction ops generalizing s with
  | nil => simp [trace] at h
  | cons o os ih =>
    simp only [trace, List.mem_cons] at h
    rcases h with rfl | h
    · exact ⟨hinv, rfl⟩
    · exact ih h (Inv_step o hinv)

/-! ## Token source -/

theorem natRepr_inj {n m : Nat} (h : toString n = toString m) : n = m := by
  simp only [Nat.toString_eq_repr] at h
  have h2 : Nat.toDigits 10 n = Nat.toDigits 10 m := by
    rw [← Nat.toList_repr, ← Nat.toList_repr, h]
  have hn := Nat.ofDigitChars_toDigits (b := 10) (n := n) (by omega) (by omega)
  have hm := Nat.ofDigitChars_toDigits (b := 10) (n := m) (by omega) (by omega)
  rw [h2] at hn
  omega

/-- a separator that does not occur before it splits a list uniquely -/
theorem append_sep_inj {c : Char} : ∀ (a b x y : List Char), c ∉ a → c ∉ b → a ++ c :: x = b ++ c :: y → a = b ∧ x = y
  | [], [], x, y, _, _, h => by simpa using h
  | [], d :: b, x, y, _, hb, h => by
    simp only [List.nil_append, List.cons_append, List.cons.injEq] at h
    exact absurd (by simp [h.1]) hb
  | e :: a, [], x, y, ha, _, h => by
    simp only [List.nil_append, List.cons_append, List.cons.injEq] at h
    exact absurd (by simp [h.1]) ha
  | e :: a, d :: b, x, y, ha, hb, h => by
    simp only [List.cons_append, List.cons.injEq] at h
    have := append_sep_inj a b x y (fun hm => ha (List.mem_cons_of_mem _ hm)) (fun hm => hb (List.mem_cons_of_mem _ hm)) h.2
    exact ⟨by rw [h.1, this.1], this.2⟩

/-- `make_unique_token` is injective in (context name, instance identifier, counter value) — for *arbitrary* identifier
strings: the decimal counter contains no `_`, so the last `_` separates the two -/
theorem mkToken_inj {a b na nb : String} {n m : Nat} (h : mkToken a na n = mkToken b nb m) : a = b ∧ na = nb ∧ n = m := by
  simp only [mkToken, Token.mk.injEq] at h
  refine ⟨h.1, ?_⟩
  have h2 := congrArg String.toList h.2
  simp only [String.toList_append, List.append_assoc] at h2
  have h3 := List.append_cancel_left h2
  have h4 := congrArg List.reverse h3
  simp only [List.reverse_append] at h4
  have hu : ("_" : String).toList.reverse = ['_'] := by decide
  rw [hu] at h4
  simp only [List.append_assoc, List.singleton_append] at h4
  have hnd : ∀ k : Nat, '_' ∉ (toString k).toList.reverse := by
    intro k hk
    rw [List.mem_reverse, Nat.toString_eq_repr, Nat.toList_repr] at hk
    exact Nat.underscore_not_in_toDigits hk
  obtain ⟨hd, hx⟩ := append_sep_inj _ _ _ _ (hnd n) (hnd m) h4
  have hd' : (toString n).toList = (toString m).toList := by simpa using congrArg List.reverse hd
  have hx' : na.toList = nb.toList := by simpa using congrArg List.reverse hx
  exact ⟨String.toList_inj.1 hx', natRepr_inj (String.toList_inj.1 hd')⟩


/-! ## Extracting the proxy / context records from the specification vocabulary -/

theorem lockToken_some {s : Sys} {p : Nat} {custom : Option String} {t : Token} (h : lockToken s p custom = some t) :
    ∃ px c, s.proxies[p]? = some px ∧ s.ctxs[px.ctx]? = some c ∧ reservedCustom custom = false ∧
      t = (lockPre s p px c custom).2 := by
  unfold lockToken at h
  cases hp : s.proxies[p]? with
  | none => simp [hp] at h
  | some px =>
    cases hc : s.ctxs[px.ctx]? with
    | none => simp [hp, hc] at h
    | some c =>
      cases hr : reservedCustom custom with
      | true => simp [hp, hc, hr] at h
      | false =>
        refine ⟨px, c, rfl, hc, rfl, ?_⟩
        simp only [hp, hc, hr, Bool.false_eq_true, ↓reduceIte, Option.some.injEq] at h
        rw [← h]
        cases custom <;> rfl

theorem autoTok_ne_denied (nonce : String) (n : Nat) :
    "$lock_" ++ nonce ++ "_" ++ toString n ≠ Gen.LockFsm.deniedPlaceholder := by
  intro h
  have h2 := congrArg (fun s => s.toList.head?) h
  simp only [String.toList_append, List.append_assoc] at h2
  have h3 : ("$lock_" : String).toList = '$' :: "lock_".toList := by decide
  have h4 : Gen.LockFsm.deniedPlaceholder.toList.head? = some '_' := by decide
  rw [h3, h4] at h2
  simp at h2

/-- a token that `lock()` actually sends is never the denial reply of the owning context: custom placeholders are
refused, automatic tokens start with `$` -/
theorem lockToken_ne_denied {s : Sys} {p : Nat} {custom : Option String} {t : Token}
    (h : lockToken s p custom = some t) : t ≠ deniedTok s.srv := by
  obtain ⟨px, c, _, _, hr, rfl⟩ := lockToken_some h
  intro heq
  cases custom with
  | some x =>
    simp only [lockPre, deniedTok, Token.mk.injEq] at heq
    simp [reservedCustom, heq.2] at hr
  | none =>
    simp only [lockPre, freshToken, mkToken, deniedTok, Token.mk.injEq] at heq
    exact autoTok_ne_denied _ _ heq.2

theorem unlockToken_some {s : Sys} {p : Nat} {custom : Option String} {t : Option Token}
    (h : unlockToken s p custom = some t) :
    ∃ px c, s.proxies[p]? = some px ∧ s.ctxs[px.ctx]? = some c ∧ t = unlockReq px c custom := by
  unfold unlockToken at h
  cases hp : s.proxies[p]? with
  | none => simp [hp] at h
  | some px =>
    cases hc : s.ctxs[px.ctx]? with
    | none => simp [hp, hc] at h
    | some c =>
      refine ⟨px, c, rfl, hc, ?_⟩
      simp only [hp, hc, Option.some.injEq] at h
      rw [← h]
      cases custom <;> rfl

theorem callToken_eq {s : Sys} {p : Nat} {nb : Bool} {px : Proxy} (hp : s.proxies[p]? = some px) :
    callToken s p nb = some (if nb then px.nbTok else px.tok) := by
  unfold callToken
  rw [hp]

/-! ## Effect of one step on `owner` / `dead` -/

theorem owner_lock (s : Sys) (p : Nat) (custom : Option String) :
    (step s (.lock p custom)).1.owner = s.owner ∨
    (s.owner = none ∧ s.dead = none ∧ (step s (.lock p custom)).1.owner = lockToken s p custom) := by
  simp only [step]
  cases hp : s.proxies[p]? with
  | none => left; simp [proxyLock, hp]
  | some px =>
    cases hc : s.ctxs[px.ctx]? with
    | none => left; simp [proxyLock, hp, hc]
    | some c =>
      have hf := lockPre_frame s p px c custom
      cases hr : reservedCustom custom with
      | true => left; rw [proxyLock_reserved hp hc hr]
      | false =>
        cases hd : s.dead with
        | some e => left; rw [proxyLock_dead hp hc hr (by simp [hd])]; exact hf.1
        | none =>
          rw [proxyLock_alive hp hc hr hd, lockToken_eq hp hc hr]
          cases ho : s.owner with
          | none => right; simp [lockSpec, setProxyTok]
          | some o =>
            left
            simp only [lockSpec]
            split <;> (split <;> simp [setProxyTok])

theorem owner_unlock (s : Sys) (p : Nat) (custom : Option String) :
    (step s (.unlock p custom)).1.owner = s.owner ∨
    (s.dead = none ∧ (step s (.unlock p custom)).1.owner = none ∧ unlockToken s p custom = some s.owner) := by
  simp only [step]
  cases hp : s.proxies[p]? with
  | none => left; simp [proxyUnlock, hp]
  | some px =>
    cases hc : s.ctxs[px.ctx]? with
    | none => left; simp [proxyUnlock, hp, hc]
    | some c =>
      cases hd : s.dead with
      | some e => left; rw [proxyUnlock_dead hp hc (by simp [hd])]
      | none =>
        rw [proxyUnlock_alive hp hc hd, unlockToken_eq hp hc]
        cases ho : s.owner with
        | none => left; simp [lockSpec, setProxyTok]
        | some o =>
          simp only [lockSpec]
          by_cases h : unlockReq px c custom = some o
          · right; simp [h, setProxyTok]
          · left; simp [h]

theorem owner_force (s : Sys) (p : Nat) :
    (step s (.forceUnlock p)).1.owner = s.owner ∨ (step s (.forceUnlock p)).1.owner = none := by
  simp only [step]
  cases hp : s.proxies[p]? with
  | none => left; simp [proxyForceUnlock, hp]
  | some px =>
    cases hd : s.dead with
    | some e => left; rw [proxyForce_dead hp (by simp [hd])]
    | none => right; rw [proxyForce_alive hp hd]; simp [setProxyTok]

theorem owner_isLocked (s : Sys) (p : Nat) : (step s (.isLocked p)).1.owner = s.owner := by
  simp only [step]
  cases hp : s.proxies[p]? with
  | none => simp [proxyIsLocked, hp]
  | some px =>
    cases hd : s.dead with
    | some e => rw [proxyIsLocked_dead hp (by simp [hd])]
    | none => rw [proxyIsLocked_alive hp hd]

theorem owner_call (s : Sys) (p : Nat) (nb : Bool) : (step s (.call p nb)).1.owner = s.owner := by
  simp only [step]
  cases hp : s.proxies[p]? with
  | none => simp [proxyCall, hp]
  | some px => rw [proxyCall_eq hp]; exact (callRequest_frame s _).2.2.2.1

/-- *every* step of a live object is answered and leaves the worker serving -/
theorem step_total {s : Sys} {op : Op} (halive : s.dead = none) :
    (step s op).1.dead = none ∧ (step s op).2 ≠ .hang := by
  cases op with
  | newCtx name nonce => exact ⟨halive, by simp [step]⟩
  | newProxy c => simp only [step]; split <;> exact ⟨halive, by simp⟩
  | burn c => simp only [step]; split <;> exact ⟨halive, by simp⟩
  | recreate => simp [step]
  | stopCtx c => exact ⟨halive, by simp [step]⟩
  | lock p custom =>
    simp only [step]
    cases hp : s.proxies[p]? with
    | none => simp [proxyLock, hp, halive]
    | some px =>
      cases hc : s.ctxs[px.ctx]? with
      | none => simp [proxyLock, hp, hc, halive]
      | some c =>
        have hf := lockPre_frame s p px c custom
        cases hr : reservedCustom custom with
        | true => rw [proxyLock_reserved hp hc hr]; simp [halive]
        | false =>
          rw [proxyLock_alive hp hc hr halive]
          dsimp only
          split <;> simp [setProxyTok, hf.2.1, halive]
  | unlock p custom =>
    simp only [step]
    cases hp : s.proxies[p]? with
    | none => simp [proxyUnlock, hp, halive]
    | some px =>
      cases hc : s.ctxs[px.ctx]? with
      | none => simp [proxyUnlock, hp, hc, halive]
      | some c =>
        rw [proxyUnlock_alive hp hc halive]
        dsimp only
        split <;> simp [setProxyTok, halive]
  | forceUnlock p =>
    simp only [step]
    cases hp : s.proxies[p]? with
    | none => simp [proxyForceUnlock, hp, halive]
    | some px => rw [proxyForce_alive hp halive]; simp [setProxyTok, halive]
  | isLocked p =>
    simp only [step]
    cases hp : s.proxies[p]? with
    | none => simp [proxyIsLocked, hp, halive]
    | some px => rw [proxyIsLocked_alive hp halive]; simp [halive]
  | call p nb =>
    simp only [step]
    cases hp : s.proxies[p]? with
    | none => simp [proxyCall, hp, halive]
    | some px =>
      rw [proxyCall_eq hp, callRequest_spec _ halive]
      cases dispatchGuard s.owner (if nb then px.nbTok else px.tok) <;> simp [halive]

theorem no_hang_aux (ops : List Op) : ∀ s : Sys, s.dead = none →
    (exec s ops).dead = none ∧ ∀ e ∈ trace s ops, e.2.2.2 ≠ .hang := by
  induction ops with
  | nil => intro s hs; exact ⟨hs, by simp [trace]⟩
  | cons o os ih =>
    intro s hs
    have hst := step_total (op := o) hs
    have := ih (step s o).1 hst.1
    refine ⟨this.1, ?_⟩
    intro e he
    simp only [trace, List.mem_cons] at he
    rcases he with rfl | he
    · exact hst.2
    · exact this.2 e he

theorem getElem?_nonce_inj {l : List Ctx} {i j : Nat} {a b : Ctx} (hn : (l.map Ctx.nonce).Nodup)
    (hi : l[i]? = some a) (hj : l[j]? = some b) (hab : a.nonce = b.nonce) : i = j := by
  obtain ⟨hi1, hi2⟩ := List.getElem?_eq_some_iff.1 hi
  obtain ⟨hj1, hj2⟩ := List.getElem?_eq_some_iff.1 hj
  have h1 : (l.map Ctx.nonce)[i]'(by simpa using hi1) = (l.map Ctx.nonce)[j]'(by simpa using hj1) := by
    simp [hi2, hj2, hab]
  exact (List.getElem_inj hn).1 h1

/-! ## Who holds which token (user level) -/

/-- the shape of automatically generated token strings: `$lock_<instance id>_<n>` -/
def autoShaped (t : String) : Prop := ∃ (nonce : String) (n : Nat), t = "$lock_" ++ nonce ++ "_" ++ toString n

/-- a custom token does not imitate the automatic namespace (deliberate forgery is outside the property) -/
def Op.honest : Op → Prop
  | .lock _ (some c) => ¬ autoShaped c
  | _ => True

/-- every token a proxy remembers was generated for that very proxy, or is not of the automatic shape -/
def Holder (s : Sys) : Prop :=
  ∀ p px t, s.proxies[p]? = some px → px.tok = some t →
    (∃ g ∈ s.gens, g.tok = t ∧ g.proxy = p) ∨ ¬ autoShaped t.tok

theorem Holder_init (srv nonce : String) : Holder (init srv nonce) := by
  intro p px t hp; simp [init] at hp

theorem Holder_congr {s s' : Sys} (hp : s'.proxies = s.proxies) (hg : s'.gens = s.gens) (h : Holder s) : Holder s' := by
  intro p px t; rw [hp, hg]; exact h p px t

theorem Holder_set {s : Sys} {p : Nat} {px : Proxy} {t : Option Token} (h : Holder s)
    (ht : ∀ t', t = some t' → (∃ g ∈ s.gens, g.tok = t' ∧ g.proxy = p) ∨ ¬ autoShaped t'.tok) :
    Holder (setProxyTok s p px t) := by
  intro q qx t' hq hqt
  simp only [setProxyTok] at hq ⊢
  rw [List.getElem?_set] at hq
  split at hq
  · rename_i hpq
    subst hpq
    split at hq
    · cases hq; exact ht t' hqt
    · cases hq
  · exact h q qx t' hq hqt

theorem Holder_gens_cons {s : Sys} {g0 : GenRec} {cs : List Ctx} (h : Holder s) :
    Holder { s with ctxs := cs, gens := g0 :: s.gens } := by
  intro p px t hp ht
  rcases h p px t hp ht with ⟨g, hg, h1, h2⟩ | h'
  · exact Or.inl ⟨g, List.mem_cons_of_mem _ hg, h1, h2⟩
  · exact Or.inr h'

theorem Holder_lockPre {s : Sys} {p : Nat} {px : Proxy} {c : Ctx} (custom : Option String) (h : Holder s) :
    Holder (lockPre s p px c custom).1 := by
  cases custom with
  | some t => exact h
  | none => exact Holder_gens_cons h

theorem lockPre_token_ok {s : Sys} {p : Nat} {px : Proxy} {c : Ctx} (custom : Option String)
    (hh : (Op.lock p custom).honest) :
    (∃ g ∈ (lockPre s p px c custom).1.gens, g.tok = (lockPre s p px c custom).2 ∧ g.proxy = p) ∨
    ¬ autoShaped (lockPre s p px c custom).2.tok := by
  cases custom with
  | some t => right; exact hh
  | none => left; exact ⟨_, List.mem_cons_self, rfl, rfl⟩

theorem Holder_step {s : Sys} (o : Op) (hh : o.honest) (h : Holder s) : Holder (step s o).1 := by
  cases o with
  | newCtx name nonce => exact Holder_congr rfl rfl h
  | burn c => simp only [step]; split <;> exact Holder_congr rfl rfl h
  | recreate => exact Holder_congr (s := s) rfl rfl h
  | stopCtx c => exact h
  | newProxy c =>
    simp only [step]
    split
    · intro p px t hp ht
      simp only at hp ⊢
      rw [List.getElem?_append] at hp
      split at hp
      · exact h p px t hp ht
      · simp only [List.getElem?_singleton] at hp
        split at hp
        · cases hp; cases ht
        · cases hp
    · exact h
  | lock p custom =>
    simp only [step]
    unfold proxyLock
    cases hp : s.proxies[p]? with
    | none => exact h
    | some px =>
      dsimp only
      cases hc : s.ctxs[px.ctx]? with
      | none => exact h
      | some c =>
        dsimp only
        split
        · exact h
        · have h1 : Holder (lockPre s p px c custom).1 := Holder_lockPre custom h
          have hf := lockRequest_frame (lockPre s p px c custom).1 .acquire (some (lockPre s p px c custom).2)
          have htok := lockPre_token_ok (s := s) (px := px) (c := c) custom hh
          generalize lockRequest (lockPre s p px c custom).1 .acquire (some (lockPre s p px c custom).2) = r at hf ⊢
          rcases r with ⟨s2, _ | their⟩
          · exact Holder_congr hf.2.2.1 hf.2.2.2.2 h1
          · dsimp only at hf ⊢
            have h2 : Holder s2 := Holder_congr hf.2.2.1 hf.2.2.2.2 h1
            split
            · refine Holder_set h2 ?_
              intro t' ht'
              cases ht'
              rw [hf.2.2.2.2]
              exact htok
            · exact h2
  | unlock p custom =>
    simp only [step]
    unfold proxyUnlock
    cases hp : s.proxies[p]? with
    | none => exact h
    | some px =>
      dsimp only
      cases hc : s.ctxs[px.ctx]? with
      | none => exact h
      | some c =>
        dsimp only
        have hf := lockRequest_frame s .release (unlockReq px c custom)
        generalize lockRequest s .release (unlockReq px c custom) = r at hf ⊢
        rcases r with ⟨s2, _ | their⟩
        · exact Holder_congr hf.2.2.1 hf.2.2.2.2 h
        · dsimp only at hf ⊢
          have h2 : Holder s2 := Holder_congr hf.2.2.1 hf.2.2.2.2 h
          split
          · exact Holder_set h2 (by intro t' ht'; cases ht')
          · exact h2
  | forceUnlock p =>
    simp only [step]
    unfold proxyForceUnlock
    cases hp : s.proxies[p]? with
    | none => exact h
    | some px =>
      dsimp only
      have hf := lockRequest_frame s .forceRelease px.tok
      generalize lockRequest s .forceRelease px.tok = r at hf ⊢
      rcases r with ⟨s2, _ | their⟩
      · exact Holder_congr hf.2.2.1 hf.2.2.2.2 h
      · dsimp only at hf ⊢
        have h2 : Holder s2 := Holder_congr hf.2.2.1 hf.2.2.2.2 h
        split
        · exact Holder_set h2 (by intro t' ht'; cases ht')
        · exact h2
  | isLocked p =>
    simp only [step]
    unfold proxyIsLocked
    cases hp : s.proxies[p]? with
    | none => exact h
    | some px =>
      dsimp only
      have hf := lockRequest_frame s .query px.tok
      generalize lockRequest s .query px.tok = r at hf ⊢
      rcases r with ⟨s2, _ | their⟩
      · exact Holder_congr hf.2.2.1 hf.2.2.2.2 h
      · exact Holder_congr hf.2.2.1 hf.2.2.2.2 h
  | call p nb =>
    simp only [step]
    unfold proxyCall
    cases hp : s.proxies[p]? with
    | none => exact h
    | some px =>
      have hf := callRequest_frame s (if nb then px.nbTok else px.tok)
      exact Holder_congr hf.2.2.1 hf.2.2.2.2 h

theorem Holder_exec {s : Sys} (ops : List Op) (hh : ∀ o ∈ ops, o.honest) (h : Holder s) : Holder (exec s ops) := by
  induction ops generalizing s with
  | nil => exact h
  | cons o os ih =>
    exact ih (fun o' ho' => hh o' (List.mem_cons_of_mem _ ho')) (Holder_step o (hh o List.mem_cons_self) h)

theorem gens_same_key_eq {s : Sys} (hinv : Inv s) {a b : GenRec} (ha : a ∈ s.gens) (hb : b ∈ s.gens)
    (hk : a.ctx = b.ctx ∧ a.n = b.n) : a = b := by
  refine Decidable.byContradiction fun hne => ?_
  have hp := hinv.gens_pw
  rw [List.pairwise_iff_getElem] at hp
  obtain ⟨i, hi, rfl⟩ := List.getElem_of_mem ha
  obtain ⟨j, hj, rfl⟩ := List.getElem_of_mem hb
  rcases Nat.lt_trichotomy i j with hlt | heq | hgt
  · exact hp i j hi hj hlt hk
  · subst heq; exact hne rfl
  · exact hp j i hj hi hgt ⟨hk.1.symm, hk.2.symm⟩

theorem auto_tokens_distinct_state {s : Sys} (hinv : Inv s) (hn : (s.ctxs.map Ctx.nonce).Nodup) :
    ∀ g1 ∈ s.gens, ∀ g2 ∈ s.gens, g1.tok = g2.tok → g1.ctx = g2.ctx ∧ g1.n = g2.n := by
  intro g1 h1 g2 h2 heq
  obtain ⟨c1, hc1, _, _, ht1⟩ := hinv.gens_ok g1 h1
  obtain ⟨c2, hc2, _, _, ht2⟩ := hinv.gens_ok g2 h2
  rw [ht1, ht2] at heq
  obtain ⟨_, hnonce, hnn⟩ := mkToken_inj heq
  exact ⟨getElem?_nonce_inj hn hc1 hc2 hnonce, hnn⟩

end QmiModel.Lock
