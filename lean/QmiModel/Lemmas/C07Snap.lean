import QmiModel.Lemmas.C07Basic
/-! Layer 1 of C07: snapshot semantics of `_deliver_local` (frame lemmas + the delivery invariant). -/
namespace QmiModel.PubSub

def MOp.isDeliver : MOp → Bool
  | .deliver .. => true
  | _ => false

def MOp.isSnapLocal : MOp → Bool
  | .snapLocal .. => true
  | _ => false

/-- no deliver operation in a list of micro-operations -/
def noDlv (l : List MOp) : Prop := ∀ op ∈ l, op.isDeliver = false

theorem noDlv_nil : noDlv [] := by simp [noDlv]
theorem noDlv_cons {op : MOp} {l : List MOp} : noDlv (op :: l) ↔ op.isDeliver = false ∧ noDlv l := by simp [noDlv]
theorem noDlv_append {l m : List MOp} : noDlv (l ++ m) ↔ noDlv l ∧ noDlv m := by
  simp only [noDlv, List.mem_append]
  constructor
  · intro h; exact ⟨fun op ho => h op (Or.inl ho), fun op ho => h op (Or.inr ho)⟩
  · rintro ⟨h1, h2⟩ op (ho | ho)
    · exact h1 op ho
    · exact h2 op ho

theorem noDlv_map_handleReply (l : List ReqId) : noDlv (l.map (fun id => MOp.handleReply id false)) := by
  intro op ho
  simp only [List.mem_map] at ho
  obtain ⟨id, -, rfl⟩ := ho
  rfl

theorem noDlv_onSendFail (m : Msg) : noDlv (onSendFail m) := by
  cases m <;> simp [onSendFail, noDlv, MOp.isDeliver]

theorem noDlv_dispatch (src : Peer) (m : Msg) : noDlv (dispatch src m) := by
  cases m with
  | subReq id ob sg b => cases b <;> simp [dispatch, noDlv, MOp.isDeliver]
  | _ => simp [dispatch, noDlv, MOp.isDeliver]

theorem noDlv_beginProg (c : Ctx) (t : Tid) (n : Nat) (o : Op) : noDlv (beginProg c t n o) := by
  cases o <;> simp only [beginProg] <;> (try split) <;> simp [noDlv, MOp.isDeliver]

theorem handleReplyStep_noDlv {cs cs' : CtxSt} {id : ReqId} {ok : Bool} {more : List MOp} {o : Out}
    (h : handleReplyStep cs id ok = some (cs', more, o)) : noDlv more ∧ cs'.got = cs.got ∧ cs'.alive = cs.alive := by
  unfold handleReplyStep at h
  split at h
  · simp only [Option.some.injEq, Prod.mk.injEq] at h; obtain ⟨rfl, rfl, rfl⟩ := h; exact ⟨noDlv_nil, rfl, rfl⟩
  · split at h
    · simp only [Option.some.injEq, Prod.mk.injEq] at h; obtain ⟨rfl, rfl, rfl⟩ := h; exact ⟨noDlv_nil, rfl, rfl⟩
    · split at h
      · simp only [Option.some.injEq, Prod.mk.injEq] at h
        obtain ⟨rfl, rfl, -⟩ := h
        exact ⟨noDlv_nil, rfl, rfl⟩
      · split at h
        · simp only [Option.some.injEq, Prod.mk.injEq] at h
          obtain ⟨rfl, rfl, -⟩ := h
          exact ⟨by simp [noDlv, MOp.isDeliver], rfl, rfl⟩
        · simp only [Option.some.injEq, Prod.mk.injEq] at h
          obtain ⟨rfl, rfl, -⟩ := h
          exact ⟨noDlv_nil, rfl, rfl⟩

/-- what every micro step leaves alone -/
structure MicroFrame (s s' : State) (th : Th) : Prop where
  ctx_other : ∀ c, c ≠ th.ctx → s'.ctx c = s.ctx c
  prog_other : ∀ th', th' ≠ th → s'.prog th' = s.prog th'
  nextConn : s'.nextConn = s.nextConn
  nextSeq : s'.nextSeq = s.nextSeq
  alive : (s'.ctx th.ctx).alive = (s.ctx th.ctx).alive

set_option maxHeartbeats 1000000 in
theorem microStep_frame {s s' : State} {th : Th} {ch ch2 : Nat} {op : MOp} {rest : List MOp} {o : Out}
    (hs : microStep s th ch ch2 op rest = some (s', o)) : MicroFrame s s' th := by
  cases op <;> simp only [microStep] at hs
  all_goals (try (split at hs))
  all_goals (try (split at hs))
  all_goals (try (split at hs))
  all_goals (try (split at hs))
  all_goals (try (simp at hs))
  all_goals (try (obtain ⟨rfl, -⟩ := hs))
  all_goals (try (constructor <;> (try intro x hx) <;> simp_all [upd, peerRemovedStep]))
  all_goals (exact (handleReplyStep_noDlv ‹handleReplyStep _ _ _ = some _›).2.2)

set_option maxHeartbeats 1000000 in
/-- micro steps other than `snapLocal` / `deliver` neither deliver nor take a snapshot, and leave no deliver
operation in the program of the acting thread -/
theorem microStep_other {s s' : State} {th : Th} {ch ch2 : Nat} {op : MOp} {rest : List MOp} {o : Out}
    (hd : op.isDeliver = false) (hl : op.isSnapLocal = false) (hr : noDlv rest)
    (hs : microStep s th ch ch2 op rest = some (s', o)) :
    s'.snaps = s.snaps ∧ (∀ c, (s'.ctx c).got = (s.ctx c).got) ∧ noDlv (s'.prog th) := by
  cases op <;> simp only [MOp.isDeliver, MOp.isSnapLocal] at hd hl <;> (try contradiction) <;> simp only [microStep] at hs
  all_goals (try (split at hs))
  all_goals (try (split at hs))
  all_goals (try (split at hs))
  all_goals (try (split at hs))
  all_goals (try (simp at hs))
  all_goals (try (obtain ⟨rfl, -⟩ := hs))
  all_goals (try (refine ⟨by simp, ?_, ?_⟩))
  all_goals (try (intro c; simp [upd, peerRemovedStep]; (try split) <;> simp_all))
  all_goals (try (simp [noDlv_cons, noDlv_append, noDlv_onSendFail, noDlv_map_handleReply, noDlv_nil, MOp.isDeliver, hr]))
  all_goals (try (split <;> simp [noDlv_cons, noDlv_nil, MOp.isDeliver, hr]))
  all_goals (try (intro hm; exact absurd (hr _ hm) (by simp [MOp.isDeliver])))
  all_goals first
    | exact (handleReplyStep_noDlv ‹handleReplyStep _ _ _ = some _›).2.1
    | (refine ⟨fun hm => ?_, fun hm => ?_⟩
       · first
           | exact absurd (noDlv_onSendFail _ _ hm) (by simp [MOp.isDeliver])
           | exact absurd ((handleReplyStep_noDlv ‹handleReplyStep _ _ _ = some _›).1 _ hm) (by simp [MOp.isDeliver])
       · exact absurd (hr _ hm) (by simp [MOp.isDeliver]))


/-- the deliver operation a thread is working on, if any: (snapshot id, receivers still to do, key, publication) -/
def headDlv : List MOp → Option (Nat × List Rcv × Key × Pub)
  | .deliver sid rs k p :: _ => some (sid, rs, k, p)
  | _ => none

theorem headDlv_of_noDlv {l : List MOp} (h : noDlv l) : headDlv l = none := by
  cases l with
  | nil => rfl
  | cons op t =>
    have := h op List.mem_cons_self
    cases op <;> simp_all [headDlv, MOp.isDeliver]

theorem noDlv_tail {l : List MOp} (h : noDlv l) : noDlv l.tail := fun op ho => h op (List.mem_of_mem_tail ho)

/-- Layer-1 invariant: how deliveries relate to the snapshots taken by `_deliver_local` -/
structure DlvInv (s : State) : Prop where
  tail : ∀ th, noDlv (s.prog th).tail
  wf : ∀ th sid rs k p, headDlv (s.prog th) = some (sid, rs, k, p) →
        ∃ rs0, s.snaps[sid]? = some ⟨th.ctx, k, p, rs0, th⟩ ∧ rs.Nodup ∧ rs ≠ [] ∧ (∀ r ∈ rs, r ∈ rs0) ∧
          (∀ r ∈ rs, ∀ it ∈ (s.ctx th.ctx).got r, it.sid ≠ sid)
  uniq : ∀ th th' sid rs k p rs' k' p', headDlv (s.prog th) = some (sid, rs, k, p) →
        headDlv (s.prog th') = some (sid, rs', k', p') → th = th'
  got_snap : ∀ c r it, it ∈ (s.ctx c).got r → ∃ rs0 tk, s.snaps[it.sid]? = some ⟨c, it.k, it.p, rs0, tk⟩ ∧ r ∈ rs0
  got_once : ∀ c r, (((s.ctx c).got r).map Item.sid).Nodup
  all : ∀ sid sn, s.snaps[sid]? = some sn → ∀ r ∈ sn.rs,
        (∃ it ∈ (s.ctx sn.c).got r, it.sid = sid) ∨
        (∃ th rs, th.ctx = sn.c ∧ headDlv (s.prog th) = some (sid, rs, sn.k, sn.p) ∧ r ∈ rs)

theorem dlvInv_init : DlvInv State.init := by
  constructor <;> simp [State.init, CtxSt.init, noDlv, headDlv]

/-- a step that neither delivers nor takes a snapshot, and leaves no deliver operation in the programs it changes -/
theorem DlvInv.of_quiet {s s' : State} (h : DlvInv s) (hsn : s'.snaps = s.snaps)
    (hg : ∀ c, (s'.ctx c).got = (s.ctx c).got)
    (hp : ∀ th, s'.prog th = s.prog th ∨ (noDlv (s'.prog th) ∧ headDlv (s.prog th) = none)) : DlvInv s' := by
  have hh : ∀ th x, headDlv (s'.prog th) = some x → s'.prog th = s.prog th := by
    intro th x hx
    rcases hp th with e | ⟨hn, -⟩
    · exact e
    · rw [headDlv_of_noDlv hn] at hx; simp at hx
  constructor
  · intro th
    rcases hp th with e | ⟨hn, -⟩
    · rw [e]; exact h.tail th
    · exact noDlv_tail hn
  · intro th sid rs k p hx
    have e := hh th _ hx
    rw [e] at hx
    obtain ⟨rs0, h1, h2, h3, h4, h5⟩ := h.wf th sid rs k p hx
    exact ⟨rs0, by rw [hsn]; exact h1, h2, h3, h4, by rw [hg]; exact h5⟩
  · intro th th' sid rs k p rs' k' p' hx hx'
    have e := hh th _ hx
    have e' := hh th' _ hx'
    rw [e] at hx; rw [e'] at hx'
    exact h.uniq th th' sid rs k p rs' k' p' hx hx'
  · intro c r it hi
    rw [hg] at hi; rw [hsn]
    exact h.got_snap c r it hi
  · intro c r
    rw [hg]; exact h.got_once c r
  · intro sid sn hs r hr
    rw [hsn] at hs
    rcases h.all sid sn hs r hr with h1 | ⟨th, rs, h1, h2, h3⟩
    · left; rw [hg]; exact h1
    · right
      refine ⟨th, rs, h1, ?_, h3⟩
      rcases hp th with e | ⟨-, hn⟩
      · rw [e]; exact h2
      · rw [hn] at h2; simp at h2


theorem getElem?_append_of_some {α : Type} {l : List α} {i : Nat} {x y : α} (h : l[i]? = some x) :
    (l ++ [y])[i]? = some x := by
  have hi : i < l.length := by
    rcases Nat.lt_or_ge i l.length with hlt | hge
    · exact hlt
    · rw [List.getElem?_eq_none hge] at h; simp at h
  rw [List.getElem?_append_left hi]; exact h

theorem lt_of_getElem?_some {α : Type} {l : List α} {i : Nat} {x : α} (h : l[i]? = some x) : i < l.length := by
  rcases Nat.lt_or_ge i l.length with hlt | hge
  · exact hlt
  · rw [List.getElem?_eq_none hge] at h; simp at h

theorem dlvInv_snapLocal {s : State} {th : Th} {k : Key} {p : Pub} {rest : List MOp}
    (h : DlvInv s) (hset : SetsInv s) (hprog : s.prog th = .snapLocal k p :: rest) :
    DlvInv { (s.setProg th (if (s.ctx th.ctx).lsubs k = [] then rest
                else .deliver s.snaps.length ((s.ctx th.ctx).lsubs k) k p :: rest)) with
             snaps := s.snaps ++ [⟨th.ctx, k, p, (s.ctx th.ctx).lsubs k, th⟩] } := by
  have hrest : noDlv rest := by have := h.tail th; rw [hprog] at this; exact this
  have hnone : headDlv (s.prog th) = none := by rw [hprog]; rfl
  constructor
  · intro th'
    simp only [setProg_prog]
    split
    · split
      · exact noDlv_tail hrest
      · exact hrest
    · exact h.tail th'
  · intro th' sid rs k' p' hx
    simp only [setProg_prog] at hx
    split at hx
    · rename_i e; subst e
      split at hx
      · rw [headDlv_of_noDlv hrest] at hx; simp at hx
      · rename_i hne
        simp only [headDlv, Option.some.injEq, Prod.mk.injEq] at hx
        obtain ⟨rfl, rfl, rfl, rfl⟩ := hx
        refine ⟨(s.ctx th'.ctx).lsubs k, by simp, hset.lsubs _ _, hne, fun r hr => hr, ?_⟩
        intro r _ it hit
        obtain ⟨rs0, tk, hs0, -⟩ := h.got_snap _ _ _ hit
        have := lt_of_getElem?_some hs0
        simp only [setProg_ctx] at *
        omega
    · obtain ⟨rs0, h1, h2, h3, h4, h5⟩ := h.wf th' sid rs k' p' hx
      exact ⟨rs0, getElem?_append_of_some h1, h2, h3, h4, h5⟩
  · intro th1 th2 sid rs k1 p1 rs' k2 p2 hx1 hx2
    simp only [setProg_prog] at hx1 hx2
    by_cases e1 : th1 = th <;> by_cases e2 : th2 = th
    · rw [e1, e2]
    · exfalso
      simp only [e1, if_true, e2, if_false] at hx1 hx2
      split at hx1
      · rw [headDlv_of_noDlv hrest] at hx1; simp at hx1
      · simp only [headDlv, Option.some.injEq, Prod.mk.injEq] at hx1
        obtain ⟨rs0, h1, -⟩ := h.wf th2 sid rs' k2 p2 hx2
        have := lt_of_getElem?_some h1
        omega
    · exfalso
      simp only [e1, if_true, e2, if_false] at hx1 hx2
      split at hx2
      · rw [headDlv_of_noDlv hrest] at hx2; simp at hx2
      · simp only [headDlv, Option.some.injEq, Prod.mk.injEq] at hx2
        obtain ⟨rs0, h1, -⟩ := h.wf th1 sid rs k1 p1 hx1
        have := lt_of_getElem?_some h1
        omega
    · simp only [e1, e2, if_false] at hx1 hx2
      exact h.uniq th1 th2 sid rs k1 p1 rs' k2 p2 hx1 hx2
  · intro c r it hit
    obtain ⟨rs0, tk, h1, h2⟩ := h.got_snap c r it hit
    exact ⟨rs0, tk, getElem?_append_of_some h1, h2⟩
  · intro c r
    exact h.got_once c r
  · intro sid sn hs r hr
    by_cases hlt : sid < s.snaps.length
    · have hs' : s.snaps[sid]? = some sn := by
        simp only at hs
        rw [List.getElem?_append_left hlt] at hs; exact hs
      rcases h.all sid sn hs' r hr with h1 | ⟨th0, rs, h1, h2, h3⟩
      · left; exact h1
      · right
        refine ⟨th0, rs, h1, ?_, h3⟩
        simp only [setProg_prog]
        split
        · rename_i e; subst e; rw [hnone] at h2; simp at h2
        · exact h2
    · have hlen : sid = s.snaps.length := by
        have := lt_of_getElem?_some hs
        simp at this; omega
      subst hlen
      simp at hs
      subst hs
      right
      refine ⟨th, (s.ctx th.ctx).lsubs k, rfl, ?_, hr⟩
      simp only [setProg_prog, if_true]
      split
      · rename_i e; simp only at hr; rw [e] at hr; simp at hr
      · rfl


theorem dlvInv_deliver {s : State} {th : Th} {sid : Nat} {rs : List Rcv} {k : Key} {p : Pub} {rest : List MOp} {r0 : Rcv}
    (h : DlvInv s) (hprog : s.prog th = .deliver sid rs k p :: rest) (hr0 : r0 ∈ rs) :
    DlvInv ((s.setCtx th.ctx { (s.ctx th.ctx) with
                got := upd (s.ctx th.ctx).got r0 ((s.ctx th.ctx).got r0 ++ [⟨k, p, sid⟩]) }).setProg th
              (if rs.erase r0 = [] then rest else .deliver sid (rs.erase r0) k p :: rest)) := by
  have hrest : noDlv rest := by have := h.tail th; rw [hprog] at this; exact this
  have hhead : headDlv (s.prog th) = some (sid, rs, k, p) := by rw [hprog]; rfl
  obtain ⟨rs0, w1, w2, w3, w4, w5⟩ := h.wf th sid rs k p hhead
  -- the queues after the step
  have hgot : ∀ c r it, it ∈ ((if c = th.ctx then { (s.ctx th.ctx) with
                got := upd (s.ctx th.ctx).got r0 ((s.ctx th.ctx).got r0 ++ [⟨k, p, sid⟩]) } else s.ctx c).got r) ↔
        (it ∈ (s.ctx c).got r ∨ (c = th.ctx ∧ r = r0 ∧ it = ⟨k, p, sid⟩)) := by
    intro c r it
    by_cases hc : c = th.ctx
    · subst hc
      simp only [if_true, upd]
      by_cases hr : r = r0
      · subst hr; simp
      · simp [hr]
    · simp [hc]
  constructor
  · intro th'
    simp only [setProg_prog]
    split
    · split
      · exact noDlv_tail hrest
      · exact hrest
    · exact h.tail th'
  · intro th' sid' rs' k' p' hx
    simp only [setProg_prog] at hx
    simp only [setProg_ctx, setCtx_ctx, setProg_snaps, setCtx_snaps]
    split at hx
    · rename_i e; subst e
      split at hx
      · rw [headDlv_of_noDlv hrest] at hx; simp at hx
      · rename_i hne
        simp only [headDlv, Option.some.injEq, Prod.mk.injEq] at hx
        obtain ⟨rfl, rfl, rfl, rfl⟩ := hx
        refine ⟨rs0, w1, w2.erase _, hne, fun r hr => w4 r (List.mem_of_mem_erase hr), ?_⟩
        intro r hr it hit
        rw [hgot] at hit
        rcases hit with hit | ⟨-, rfl, -⟩
        · exact w5 r (List.mem_of_mem_erase hr) it hit
        · exact absurd hr (by rw [w2.mem_erase_iff]; simp)
    · rename_i hne
      obtain ⟨rs1, h1, h2, h3, h4, h5⟩ := h.wf th' sid' rs' k' p' hx
      refine ⟨rs1, h1, h2, h3, h4, ?_⟩
      intro r hr it hit
      rw [hgot] at hit
      rcases hit with hit | ⟨-, -, rfl⟩
      · exact h5 r hr it hit
      · intro e
        simp only at e
        subst e
        exact hne (h.uniq th' th _ _ _ _ _ _ _ hx hhead)
  · intro th1 th2 sid' rs1 k1 p1 rs2 k2 p2 hx1 hx2
    simp only [setProg_prog] at hx1 hx2
    have key : ∀ th' sd rs' k' p', headDlv (if th' = th then (if rs.erase r0 = [] then rest else .deliver sid (rs.erase r0) k p :: rest) else s.prog th') = some (sd, rs', k', p') →
        ∃ rs'' k'' p'', headDlv (s.prog th') = some (sd, rs'', k'', p'') := by
      intro th' sd rs' k' p' hx
      split at hx
      · rename_i e; subst e
        split at hx
        · rw [headDlv_of_noDlv hrest] at hx; simp at hx
        · simp only [headDlv, Option.some.injEq, Prod.mk.injEq] at hx
          obtain ⟨rfl, -, -, -⟩ := hx
          exact ⟨_, _, _, hhead⟩
      · exact ⟨_, _, _, hx⟩
    obtain ⟨_, _, _, y1⟩ := key _ _ _ _ _ hx1
    obtain ⟨_, _, _, y2⟩ := key _ _ _ _ _ hx2
    exact h.uniq _ _ _ _ _ _ _ _ _ y1 y2
  · intro c r it hit
    simp only [setProg_ctx, setCtx_ctx] at hit
    simp only [setProg_snaps, setCtx_snaps]
    rw [hgot] at hit
    rcases hit with hit | ⟨rfl, rfl, rfl⟩
    · exact h.got_snap c r it hit
    · exact ⟨rs0, th, w1, w4 _ hr0⟩
  · intro c r
    simp only [setProg_ctx, setCtx_ctx]
    by_cases hc : c = th.ctx
    · subst hc
      simp only [if_true, upd]
      by_cases hr : r = r0
      · subst hr
        simp only [if_true, List.map_append, List.map_cons, List.map_nil]
        rw [List.nodup_append]
        refine ⟨h.got_once _ _, by simp, ?_⟩
        intro a ha b hb
        simp only [List.mem_singleton] at hb
        subst hb
        simp only [List.mem_map] at ha
        obtain ⟨it, hit, rfl⟩ := ha
        exact w5 r hr0 it hit
      · simp only [hr, if_false]; exact h.got_once _ _
    · simp only [hc, if_false]; exact h.got_once _ _
  · intro sid' sn hs r hr
    simp only [setProg_snaps, setCtx_snaps] at hs
    simp only [setProg_ctx, setCtx_ctx, setProg_prog]
    rcases h.all sid' sn hs r hr with ⟨it, h1, h2⟩ | ⟨th0, rs1, h1, h2, h3⟩
    · left; exact ⟨it, (hgot _ _ _).2 (Or.inl h1), h2⟩
    · by_cases e : th0 = th
      · subst e
        rw [hhead] at h2
        simp only [Option.some.injEq, Prod.mk.injEq] at h2
        obtain ⟨rfl, rfl, rfl, rfl⟩ := h2
        by_cases er : r = r0
        · left
          exact ⟨⟨sn.k, sn.p, sid⟩, (hgot _ _ _).2 (Or.inr ⟨h1.symm, er, rfl⟩), rfl⟩
        · right
          have hm : r ∈ rs.erase r0 := by rw [w2.mem_erase_iff]; exact ⟨er, h3⟩
          refine ⟨th0, rs.erase r0, h1, ?_, hm⟩
          simp only [if_true]
          split
          · rename_i e0; rw [e0] at hm; simp at hm
          · rfl
      · right
        exact ⟨th0, rs1, h1, by simp only [e, if_false]; exact h2, h3⟩


theorem dlvInv_micro {s s' : State} {th : Th} {ch ch2 : Nat} {op : MOp} {rest : List MOp} {o : Out}
    (h : DlvInv s) (hset : SetsInv s) (hprog : s.prog th = op :: rest)
    (hs : microStep s th ch ch2 op rest = some (s', o)) : DlvInv s' := by
  by_cases hd : op.isDeliver = true
  · cases op <;> simp only [MOp.isDeliver] at hd <;> try contradiction
    rename_i sid rs k p
    simp only [microStep] at hs
    split at hs
    · rename_i hmem
      simp only [Option.some.injEq, Prod.mk.injEq] at hs
      obtain ⟨rfl, -⟩ := hs
      exact dlvInv_deliver h hprog hmem
    · simp at hs
  · by_cases hl : op.isSnapLocal = true
    · cases op <;> simp only [MOp.isSnapLocal] at hl <;> try contradiction
      rename_i k p
      simp only [microStep, Option.some.injEq, Prod.mk.injEq] at hs
      obtain ⟨rfl, -⟩ := hs
      exact dlvInv_snapLocal h hset hprog
    · have hd' : op.isDeliver = false := by simpa using hd
      have hl' : op.isSnapLocal = false := by simpa using hl
      have hrest : noDlv rest := by have := h.tail th; rw [hprog] at this; exact this
      obtain ⟨h1, h2, h3⟩ := microStep_other hd' hl' hrest hs
      have hf := microStep_frame hs
      refine h.of_quiet h1 h2 (fun th' => ?_)
      by_cases e : th' = th
      · subst e
        right
        refine ⟨h3, ?_⟩
        rw [hprog]
        cases op <;> simp_all [headDlv, MOp.isDeliver]
      · left; exact hf.prog_other th' e

theorem dlvInv_step {s s' : State} {a : Act} {o : Out} (h : DlvInv s) (hset : SetsInv s)
    (hs : step s a = some (s', o)) : DlvInv s' := by
  cases a with
  | micro th ch ch2 =>
    simp only [step] at hs
    split at hs
    · split at hs
      · simp at hs
      · rename_i op rest hprog
        exact dlvInv_micro h hset hprog hs
    · simp at hs
  | begin c t op =>
    simp only [step] at hs
    split at hs
    · rename_i hc
      have hnone : headDlv (s.prog (.user c t)) = none := by rw [hc.2]; rfl
      cases op <;> simp at hs <;> obtain ⟨rfl, -⟩ := hs <;>
        (refine h.of_quiet (by simp) (fun c' => by simp) (fun th' => ?_)
         simp only [setProg_prog]
         split
         · rename_i e; subst e; right; exact ⟨noDlv_beginProg _ _ _ _, hnone⟩
         · left; rfl)
    · simp at hs
  | cb c ok =>
    simp only [step] at hs
    split at hs
    · rename_i hc
      have hnone : headDlv (s.prog (.sock c)) = none := by rw [hc.2]; rfl
      split at hs
      · simp at hs
      · split at hs
        · simp at hs
        · rename_i heq
          obtain ⟨hcx, hpx, hsx, -, -, hpr⟩ := smSendStep_frame heq
          simp only [Option.some.injEq, Prod.mk.injEq] at hs
          obtain ⟨rfl, -⟩ := hs
          refine h.of_quiet (by simp [hsx]) (fun c' => by simp [hcx]; split <;> simp_all) (fun th' => ?_)
          simp only [setProg_prog, hpx, setCtx_prog]
          split
          · rename_i e; subst e; right
            refine ⟨?_, hnone⟩
            rcases hpr with e | e <;> rw [e]
            · exact noDlv_nil
            · exact noDlv_onSendFail _
          · left; rfl
      · split at hs
        all_goals
          simp at hs; obtain ⟨rfl, -⟩ := hs
          refine h.of_quiet (by simp) (fun c' => by simp; split <;> simp_all) (fun th' => ?_)
          simp only [setProg_prog, setCtx_prog]
          split
          · rename_i e; subst e; right; exact ⟨by simp [noDlv, MOp.isDeliver], hnone⟩
          · left; rfl
    · simp at hs
  | arrive cn cli =>
    simp only [step] at hs
    split at hs
    · rename_i hc
      have hnone : headDlv (s.prog (.sock ((s.conn cn).half cli).owner)) = none := by rw [hc.2.2.1]; rfl
      split at hs
      · simp at hs
      · simp only [Option.some.injEq, Prod.mk.injEq] at hs
        obtain ⟨rfl, -⟩ := hs
        refine h.of_quiet (by simp [State.setProg]) (fun c' => by simp [State.setProg]) (fun th' => ?_)
        simp only [State.setProg, upd]
        split
        · rename_i e; subst e; right; exact ⟨noDlv_dispatch _ _, hnone⟩
        · left; rfl
    · simp at hs
  | eof cn cli =>
    simp only [step] at hs
    split at hs
    · rename_i hc
      have hnone : headDlv (s.prog (.sock ((s.conn cn).half cli).owner)) = none := by rw [hc.2.2.1]; rfl
      simp only [Option.some.injEq, Prod.mk.injEq] at hs
      obtain ⟨rfl, -⟩ := hs
      refine h.of_quiet (by simp) (fun c' => by simp) (fun th' => ?_)
      simp only [setProg_prog]
      split
      · rename_i e; subst e; right; exact ⟨by simp [noDlv, MOp.isDeliver], hnone⟩
      · left; rfl
    · simp at hs
  | connect a p =>
    simp only [step] at hs
    split at hs
    · simp only [Option.some.injEq, Prod.mk.injEq] at hs
      obtain ⟨rfl, -⟩ := hs
      refine h.of_quiet (by simp) (fun c' => by simp; repeat' split <;> simp_all) (fun th' => Or.inl (by simp))
    · simp at hs
  | routerOk c =>
    simp only [step] at hs
    split at hs
    · simp only [Option.some.injEq, Prod.mk.injEq] at hs
      obtain ⟨rfl, -⟩ := hs
      refine h.of_quiet (by simp) (fun c' => by simp; repeat' split <;> simp_all) (fun th' => Or.inl (by simp))
    · simp at hs
  | stopReq c =>
    simp only [step] at hs
    split at hs
    · simp only [Option.some.injEq, Prod.mk.injEq] at hs
      obtain ⟨rfl, -⟩ := hs
      refine h.of_quiet (by simp) (fun c' => by simp; repeat' split <;> simp_all) (fun th' => Or.inl (by simp))
    · simp at hs
  | stop c =>
    simp only [step] at hs
    split at hs
    · simp only [Option.some.injEq, Prod.mk.injEq] at hs
      obtain ⟨rfl, -⟩ := hs
      refine h.of_quiet (by simp) (fun c' => by simp; repeat' split <;> simp_all) (fun th' => Or.inl (by simp))
    · simp at hs

theorem dlvInv_reach {s : State} (h : Reach s) : DlvInv s := by
  induction h with
  | init => exact dlvInv_init
  | step hr hs ih => exact dlvInv_step ih (setsInv_reach hr) hs

end QmiModel.PubSub
