import QmiModel.Lemmas.C18Packet
import QmiModel.Lemmas.C18Glob
/-! Helper lemmas and specification predicates for C18: requests, the responder, signed fields. -/
namespace QmiModel.Discovery

/-! ### what the property calls a well-formed request -/

/-- a datagram with the exact size, the magic and the type tag of a context-info request -/
def IsInfoRequest (L : Layout) (bs : Bytes) : Prop :=
  bs.length = sizeOf L .infoReq ∧ leNat (bs.take L.magicSz) = L.magic ∧
  leNat ((bs.drop L.magicSz).take L.tagSz) = L.tagInfoReq

def IsKillRequest (L : Layout) (bs : Bytes) : Prop :=
  bs.length = sizeOf L .kill ∧ leNat (bs.take L.magicSz) = L.magic ∧
  leNat ((bs.drop L.magicSz).take L.tagSz) = L.tagKillReq

/-- the raw fields of a request datagram: magic, tag, id, timestamp, workgroup filter, context filter -/
def reqFields (L : Layout) (bs : Bytes) : List Bytes := splitFields (sizesOf L .infoReq) bs

def reqWgFilter (L : Layout) (bs : Bytes) : Option (List Char) := utf8Decode (cstr ((reqFields L bs).getD 4 []))
def reqCtxFilter (L : Layout) (bs : Bytes) : Option (List Char) := utf8Decode (cstr ((reqFields L bs).getD 5 []))

/-- well-formed request: a kill request, or an info request whose two filters are text -/
def WellFormedRequest (L : Layout) (bs : Bytes) : Prop :=
  IsKillRequest L bs ∨ (IsInfoRequest L bs ∧ (reqWgFilter L bs).isSome ∧ (reqCtxFilter L bs).isSome)

theorem unpack_infoReq {L : Layout} (wf : WF L) {bs : Bytes} (h : IsInfoRequest L bs) :
    unpack L bs = .ok { kind := .infoReq, fields := reqFields L bs } :=
  unpack_of wf .infoReq bs h.1 h.2.1 h.2.2

theorem isInfoRequest_of_unpack {L : Layout} (wf : WF L) {bs : Bytes} {p : Packet}
    (h : unpack L bs = .ok p) (hk : p.kind = .infoReq) : IsInfoRequest L bs ∧ p.fields = reqFields L bs := by
  obtain ⟨h1, h2, h3, h4⟩ := unpack_ok wf h
  rw [hk] at h1 h2 h4
  exact ⟨⟨h1, h3, h4⟩, h2⟩

theorem isKillRequest_of_unpack {L : Layout} (wf : WF L) {bs : Bytes} {p : Packet}
    (h : unpack L bs = .ok p) (hk : p.kind = .kill) : IsKillRequest L bs := by
  obtain ⟨h1, _, h3, h4⟩ := unpack_ok wf h
  rw [hk] at h1 h4
  exact ⟨h1, h3, h4⟩

theorem size_lt_recv {L : Layout} (wf : WF L) (k : Kind) : sizeOf L k < L.recvMax := by
  cases k
  · exact wf.req_recv
  · have := hdrSize_le L .infoReq; have := wf.req_recv; rw [kill_size]; omega
  · exact wf.resp_recv

theorem size_lt_crecv {L : Layout} (wf : WF L) (k : Kind) : sizeOf L k < L.clientRecvMax := by
  cases k
  · exact wf.req_crecv
  · have := hdrSize_le L .infoReq; have := wf.req_crecv; rw [kill_size]; omega
  · exact wf.resp_crecv

/-- a datagram cut by `recvfrom(n)` that still unpacks was not cut -/
theorem take_eq_of_unpack {L : Layout} (wf : WF L) {bs : Bytes} {p : Packet} {n : Nat}
    (hn : ∀ k, sizeOf L k < n) (h : unpack L (bs.take n) = .ok p) : bs.take n = bs := by
  have hlen := (unpack_ok wf h).1
  have := hn p.kind
  rw [List.length_take] at hlen
  apply List.take_of_length_le
  omega

theorem take_of_small {L : Layout} {bs : Bytes} {n : Nat} {k : Kind} (hn : sizeOf L k < n)
    (h : bs.length = sizeOf L k) : bs.take n = bs := by
  apply List.take_of_length_le; omega

/-! ### signed integer fields -/

theorem pow256_even (n : Nat) (hn : 0 < n) : ∃ m, 256 ^ n = 2 * m := by
  cases n with
  | zero => omega
  | succ n => exact ⟨128 * 256 ^ n, by rw [Nat.pow_succ]; omega⟩

theorem intBytes_length (n : Nat) (v : Int) : (intBytes n v).length = n := leBytes_length _ _

/-- a value in the range of the field is read back unchanged -/
theorem sintOf_intBytes (n : Nat) (v : Int) (hlo : -((256 ^ n : Nat) : Int) ≤ 2 * v) (hhi : 2 * v < ((256 ^ n : Nat) : Int)) :
    sintOf (intBytes n v) = v := by
  have hM : (0 : Int) < ((256 ^ n : Nat) : Int) := by
    have : 0 < 256 ^ n := Nat.pow_pos (by omega)
    omega
  have hcast : ((256 : Int) ^ n) = ((256 ^ n : Nat) : Int) := by simp
  unfold sintOf intBytes
  rw [leBytes_length, hcast]
  generalize hMd : ((256 ^ n : Nat) : Int) = M at *
  have hnn : 0 ≤ v % M := Int.emod_nonneg _ (by omega)
  have hlt : v % M < M := Int.emod_lt_of_pos _ hM
  have hlt' : (v % M).toNat < 256 ^ n := by
    have : ((v % M).toNat : Int) < ((256 ^ n : Nat) : Int) := by rw [Int.toNat_of_nonneg hnn, hMd]; exact hlt
    exact Int.ofNat_lt.1 this
  rw [leNat_leBytes_of_lt _ _ hlt']
  have hto : (((v % M).toNat : Nat) : Int) = v % M := Int.toNat_of_nonneg hnn
  by_cases hv : 0 ≤ v
  · have hmod : v % M = v := Int.emod_eq_of_lt hv (by omega)
    have h2 : 2 * (v % M).toNat < 256 ^ n := by
      have : ((2 * (v % M).toNat : Nat) : Int) < ((256 ^ n : Nat) : Int) := by
        rw [Int.natCast_mul, hto, hmod, hMd]; simpa using hhi
      exact Int.ofNat_lt.1 this
    rw [if_pos h2, hto, hmod]
  · have hmod : v % M = v + M := by
      have : (v + M) % M = v % M := by simp
      rw [← this]
      exact Int.emod_eq_of_lt (by omega) (by omega)
    have h2 : ¬ 2 * (v % M).toNat < 256 ^ n := by
      intro hc
      have : ((2 * (v % M).toNat : Nat) : Int) < ((256 ^ n : Nat) : Int) := Int.ofNat_lt.2 hc
      rw [Int.natCast_mul, hto, hmod, hMd] at this
      simp at this
      omega
    rw [if_neg h2, hto, hmod]
    omega

/-! ### the response packet -/

/-- the ten fields of the response, in order -/
def respFieldsOf (L : Layout) (rid : Nat) (now : Bytes) (reqId : Nat) (reqTs : Bytes) (pid : Int) (n w : Bytes) (port : Int) :
    List Bytes :=
  [leBytes L.magicSz L.magic, leBytes L.tagSz L.tagInfoResp, leBytes L.idSz rid, now, leBytes L.rIdSz reqId, reqTs,
   intBytes L.pidSz pid, n, w, intBytes L.portSz port]

theorem packResponse_some {L : Layout} {rid reqId : Nat} {now reqTs name wg out : Bytes} {pid port : Int}
    (h : packResponse L rid now reqId reqTs pid name wg port = some out) :
    ∃ n w, cwrite L.nameLen name = some n ∧ cwrite L.wgLen wg = some w ∧
      out = (respFieldsOf L rid now reqId reqTs pid n w port).flatten := by
  unfold packResponse at h
  split at h
  · rename_i n w hn hw
    cases h
    exact ⟨n, w, hn, hw, by simp [respFieldsOf, List.flatten]⟩
  · cases h

theorem packResponse_isSome {L : Layout} (rid reqId : Nat) (now reqTs name wg : Bytes) (pid port : Int)
    (hn : (cstr name).length ≤ L.nameLen) (hw : (cstr wg).length ≤ L.wgLen) :
    ∃ out, packResponse L rid now reqId reqTs pid name wg port = some out := by
  have h1 := (cwrite_isSome_iff L.nameLen name).2 hn
  have h2 := (cwrite_isSome_iff L.wgLen wg).2 hw
  obtain ⟨n, hn'⟩ := Option.isSome_iff_exists.1 h1
  obtain ⟨w, hw'⟩ := Option.isSome_iff_exists.1 h2
  exact ⟨_, by unfold packResponse; rw [hn', hw']⟩

theorem packResponse_none_iff {L : Layout} (rid reqId : Nat) (now reqTs name wg : Bytes) (pid port : Int) :
    packResponse L rid now reqId reqTs pid name wg port = none ↔
      ¬ ((cstr name).length ≤ L.nameLen ∧ (cstr wg).length ≤ L.wgLen) := by
  constructor
  · intro h ⟨hn, hw⟩
    obtain ⟨out, ho⟩ := packResponse_isSome (L := L) rid reqId now reqTs name wg pid port hn hw
    rw [h] at ho; cases ho
  · intro h
    cases hr : packResponse L rid now reqId reqTs pid name wg port with
    | none => rfl
    | some out =>
      obtain ⟨n, w, hn, hw, _⟩ := packResponse_some hr
      exact absurd ⟨(cwrite_spec hn).2.2, (cwrite_spec hw).2.2⟩ h

/-- a response assembled from fields of the right lengths unpacks to exactly those fields -/
theorem unpack_respFields {L : Layout} (wf : WF L) (rid : Nat) (now : Bytes) (reqId : Nat) (reqTs : Bytes) (pid : Int)
    (n w : Bytes) (port : Int) (hnow : now.length = L.tsSz) (hts : reqTs.length = L.rTsSz)
    (hn : n.length = L.nameLen) (hw : w.length = L.wgLen) :
    unpack L (respFieldsOf L rid now reqId reqTs pid n w port).flatten =
      .ok { kind := .infoResp, fields := respFieldsOf L rid now reqId reqTs pid n w port } := by
  have hmap : (respFieldsOf L rid now reqId reqTs pid n w port).map List.length = sizesOf L .infoResp := by
    simp [respFieldsOf, sizesOf, hdrSizes, leBytes_length, intBytes_length, hnow, hts, hn, hw]
  have hlen : (respFieldsOf L rid now reqId reqTs pid n w port).flatten.length = sizeOf L .infoResp := by
    rw [flatten_length, hmap]; rfl
  have h := unpack_of wf .infoResp _ hlen ?_ ?_
  · rw [h, ← hmap, splitFields_of_flatten]
  · have : (respFieldsOf L rid now reqId reqTs pid n w port).flatten =
        leBytes L.magicSz L.magic ++ (respFieldsOf L rid now reqId reqTs pid n w port).tail.flatten := by
      simp [respFieldsOf]
    rw [this, List.take_left' (leBytes_length _ _), leNat_leBytes_of_lt _ _ wf.magic_lt]
  · have : (respFieldsOf L rid now reqId reqTs pid n w port).flatten =
        leBytes L.magicSz L.magic ++ (leBytes L.tagSz L.tagInfoResp ++
          (respFieldsOf L rid now reqId reqTs pid n w port).tail.tail.flatten) := by
      simp [respFieldsOf]
    rw [this, List.drop_left' (leBytes_length _ _), List.take_left' (leBytes_length _ _),
      leNat_leBytes_of_lt _ _ wf.resp_lt]
    rfl

/-! ### `_handle_read` on a datagram that unpacks -/

theorem handleRead_ok {L : Layout} {c : Ctx} {d : Dgram} {p : Packet} (hu : unpack L (d.data.take L.recvMax) = .ok p) :
    handleRead L c d = (match p.kind with
      | .infoReq => handleInfoRequest L c d p
      | .kill => .kill
      | .infoResp => .discardedType) := by
  unfold handleRead
  rw [hu]
  rfl

/-- what `_handle_read` does with a context-info request whose filters are text -/
theorem handleRead_request {L : Layout} (wf : WF L) (c : Ctx) (d : Dgram) (hreq : IsInfoRequest L d.data) :
    handleRead L c d = handleInfoRequest L c d { kind := .infoReq, fields := reqFields L d.data } := by
  unfold handleRead
  rw [take_of_small wf.req_recv hreq.1, unpack_infoReq wf hreq]

/-- everything `_handle_context_info_request_packet` can do -/
theorem handleInfoRequest_cases (L : Layout) (c : Ctx) (d : Dgram) (p : Packet) :
    handleInfoRequest L c d p = .noMatch ∨
    (handleInfoRequest L c d p = .escaped .unicodeDecodeError ∧
      (utf8Decode (cstr (p.fld 4)) = none ∨ utf8Decode (cstr (p.fld 5)) = none)) ∨
    (handleInfoRequest L c d p = .escaped .valueError ∧
      ¬ ((cstr (utf8Encode c.name)).length ≤ L.nameLen ∧ (cstr (utf8Encode c.workgroup)).length ≤ L.wgLen)) ∨
    (∃ out, handleInfoRequest L c d p = .sent d.addr out) := by
  unfold handleInfoRequest
  cases h4 : utf8Decode (cstr (p.fld 4)) with
  | none => exact Or.inr (Or.inl ⟨rfl, Or.inl rfl⟩)
  | some wgf =>
    simp only
    split
    · exact Or.inl rfl
    · cases h5 : utf8Decode (cstr (p.fld 5)) with
      | none => exact Or.inr (Or.inl ⟨rfl, Or.inr rfl⟩)
      | some cnf =>
        simp only
        split
        · exact Or.inl rfl
        · cases hp : packResponse L d.rid d.now (leNat (p.fld 2)) (p.fld 3) c.pid (utf8Encode c.name) (utf8Encode c.workgroup) c.port with
          | none => exact Or.inr (Or.inr (Or.inl ⟨rfl, (packResponse_none_iff _ _ _ _ _ _ _ _).1 hp⟩))
          | some out => exact Or.inr (Or.inr (Or.inr ⟨out, rfl⟩))


/-- answers iff both filters match, for names that fit the packet's name fields -/
theorem respond_iff_of_fit {L : Layout} (wf : WF L) (c : Ctx) (d : Dgram) (wgf cnf : List Char)
    (hreq : IsInfoRequest L d.data) (hw : reqWgFilter L d.data = some wgf) (hc : reqCtxFilter L d.data = some cnf)
    (hfitN : (cstr (utf8Encode c.name)).length ≤ L.nameLen)
    (hfitW : (cstr (utf8Encode c.workgroup)).length ≤ L.wgLen) :
    (∃ a out, handleRead L c d = .sent a out) ↔ (Matches wgf c.workgroup ∧ Matches cnf c.name) := by
  rw [handleRead_request wf c d hreq]
  unfold handleInfoRequest
  simp only [Packet.fld]
  unfold reqWgFilter at hw
  unfold reqCtxFilter at hc
  rw [hw]
  simp only
  by_cases h1 : globMatch wgf c.workgroup = true
  · rw [h1]
    simp only [Bool.not_true, Bool.false_eq_true, if_false]
    rw [hc]
    simp only
    by_cases h2 : globMatch cnf c.name = true
    · rw [h2]
      simp only [Bool.not_true, Bool.false_eq_true, if_false]
      obtain ⟨out, ho⟩ := packResponse_isSome (L := L) d.rid (leNat ((reqFields L d.data).getD 2 []))
        d.now ((reqFields L d.data).getD 3 []) (utf8Encode c.name) (utf8Encode c.workgroup) c.pid c.port hfitN hfitW
      rw [ho]
      simp only
      constructor
      · intro _; exact ⟨(globMatch_iff _ _).1 h1, (globMatch_iff _ _).1 h2⟩
      · intro _; exact ⟨d.addr, out, rfl⟩
    · have h2' : globMatch cnf c.name = false := by simpa using h2
      rw [h2']
      simp only [Bool.not_false, if_true]
      constructor
      · rintro ⟨a, out, h⟩; cases h
      · rintro ⟨_, hm⟩; exact absurd ((globMatch_iff _ _).2 hm) h2
  · have h1' : globMatch wgf c.workgroup = false := by simpa using h1
    rw [h1']
    simp only [Bool.not_false, if_true]
    constructor
    · rintro ⟨a, out, h⟩; cases h
    · rintro ⟨hm, _⟩; exact absurd ((globMatch_iff _ _).2 hm) h1


end QmiModel.Discovery
