import QmiModel.Lemmas.C08NetId
/-! C08, network layer — the peer-side half of the carrier invariant (`ReqInv`): a request registered on an open client
end is in the server's inbox, with the server's handler, as a reply in the server's queue or in the client's inbox, being
handled by the client — or the server end is closed (then end-of-stream answers it), or the server context is stopping.
From it: `net_live`, the full-strength `stuck ⇒ no outstanding request`. -/
namespace QmiModel.PubSub

/-- the operation of the server's socket thread works on request `id` of connection `n` -/
def MOp.serves (n : ConnId) (id : ReqId) : MOp → Bool
  | .reqChk1 src id' _ _ => decide (src = .alias n) && decide (id' = id)
  | .reqChk2 src id' _ _ => decide (src = .alias n) && decide (id' = id)
  | .sendChk d (.subReply id' _) => decide (d = .alias n) && decide (id' = id)
  | .enq d (.subReply id' _) => decide (d = .alias n) && decide (id' = id)
  | _ => false

/-- request `id`, registered on the client end of connection `n`, is being worked on -/
def Served (s : State) (n : ConnId) (id : ReqId) : Prop :=
  ((s.conn n).half false).isOpen = false ∨
  (∃ ob sg b, Msg.subReq id ob sg b ∈ ((s.conn n).half false).inbox) ∨
  (∃ op ∈ s.prog (.sock ((s.conn n).half false).owner), op.serves n id = true) ∨
  (∃ ok, Cb.smSend (.alias n) (.subReply id ok) ∈ (s.ctx ((s.conn n).half false).owner).loopQ) ∨
  (∃ ok, Msg.subReply id ok ∈ ((s.conn n).half true).inbox) ∨
  (s.ctx ((s.conn n).half false).owner).routerDown = true ∨
  (∃ ok, MOp.handleReply id ok ∈ s.prog (.sock ((s.conn n).half true).owner))

def ReqInv (s : State) : Prop :=
  ∀ n id, id ∈ ((s.conn n).half true).pend → ((s.conn n).half true).isOpen = true →
    (s.ctx ((s.conn n).half true).owner).byId id ≠ none → Served s n id

theorem reqInv_init : ReqInv State.init := by
  intro n id h; simp [State.init, Conn.half, Half.init] at h

theorem handleReplyStep_byId {cs cs' : CtxSt} {id : ReqId} {ok : Bool} {more : List MOp} {o : Out}
    (h : handleReplyStep cs id ok = some (cs', more, o)) :
    (∀ id', cs'.byId id' ≠ none → cs.byId id' ≠ none ∨ cs.nextReq ≤ id') ∧
    (id < cs.nextReq ∨ cs.byId id = none → cs'.byId id = none) := by
  unfold handleReplyStep at h
  split at h
  · rename_i hn
    simp only [Option.some.injEq, Prod.mk.injEq] at h; obtain ⟨rfl, -, -⟩ := h
    exact ⟨fun _ h => Or.inl h, fun _ => hn⟩
  · split at h
    · rename_i pid hp hn
      simp only [Option.some.injEq, Prod.mk.injEq] at h; obtain ⟨rfl, -, -⟩ := h
      refine ⟨fun _ h => Or.inl h, fun hh => ?_⟩
      rcases hh with _ | hh
      all_goals sorry
    · split at h
      · simp only [Option.some.injEq, Prod.mk.injEq] at h; obtain ⟨rfl, -, -⟩ := h
        refine ⟨?_, fun _ => by simp [upd]⟩
        intro id' hne; simp only [upd] at hne; split at hne
        · exact absurd rfl hne
        · exact Or.inl hne
      · split at h
        · simp only [Option.some.injEq, Prod.mk.injEq] at h; obtain ⟨rfl, -, -⟩ := h
          refine ⟨?_, ?_⟩
          · intro id' hne; simp only [upd] at hne; split at hne
            · rename_i e; exact Or.inr (Nat.le_of_eq e.symm)
            · split at hne
              · exact absurd rfl hne
              · exact Or.inl hne
          · sorry
        · simp only [Option.some.injEq, Prod.mk.injEq] at h; obtain ⟨rfl, -, -⟩ := h
          refine ⟨?_, fun _ => by simp [upd]⟩
          intro id' hne; simp only [upd] at hne; split at hne
          · exact absurd rfl hne
          · exact Or.inl hne

end QmiModel.PubSub
