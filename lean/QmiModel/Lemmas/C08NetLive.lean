import QmiModel.Lemmas.C08NetId
/-! C08, network layer — the peer-side half of the carrier invariant (`ReqInv`): a request registered on an open client
end is in the server's inbox, with the server's handler, as a reply in the server's queue or in the client's inbox, being
handled by the client — or the server end is closed (then end-of-stream answers it), or the server context is stopping.
From it: `net_live`, the full-strength `stuck ⇒ no outstanding request`. -/
namespace QmiModel.PubSub

/-- the operation of the server's socket thread works on request `id` of connection `n` -/
def MOp.serves (n : ConnId) (id : ReqId) : MOp → Bool
  | .reqChk1 src id' _ _ => decide (src = .alias n) && decide (id' = id)
  | .reqChk2 src id' _ _ => decide (src = .alias n) && decide (id' = id)
  | .sendChk d (.subReply id' _) => decide (d = .alias n) && decide (id' = id)
  | .enq d (.subReply id' _) => decide (d = .alias n) && decide (id' = id)
  | _ => false

/-- request `id`, registered on the client end of connection `n`, is being worked on -/
def Served (s : State) (n : ConnId) (id : ReqId) : Prop :=
  ((s.conn n).half false).isOpen = false ∨
  (∃ ob sg b, Msg.subReq id ob sg b ∈ ((s.conn n).half false).inbox) ∨
  (∃ op ∈ s.prog (.sock ((s.conn n).half false).owner), op.serves n id = true) ∨
  (∃ ok, Cb.smSend (.alias n) (.subReply id ok) ∈ (s.ctx ((s.conn n).half false).owner).loopQ) ∨
  (∃ ok, Msg.subReply id ok ∈ ((s.conn n).half true).inbox) ∨
  (s.ctx ((s.conn n).half false).owner).routerDown = true ∨
  (∃ ok, MOp.handleReply id ok ∈ s.prog (.sock ((s.conn n).half true).owner))

def ReqInv (s : State) : Prop :=
  ∀ n id, id ∈ ((s.conn n).half true).pend → ((s.conn n).half true).isOpen = true →
    (s.ctx ((s.conn n).half true).owner).byId id ≠ none → Served s n id

theorem reqInv_init : ReqInv State.init := by
  intro n id h; simp [State.init, Conn.half, Half.init] at h

theorem handleReplyStep_byId {cs cs' : CtxSt} {id : ReqId} {ok : Bool} {more : List MOp} {o : Out} (hp : PendOk cs)
    (h : handleReplyStep cs id ok = some (cs', more, o)) :
    (∀ id', cs'.byId id' ≠ none → cs.byId id' ≠ none ∨ cs.nextReq ≤ id') ∧ cs'.byId id = none := by
  unfold handleReplyStep at h
  split at h
  · rename_i hn
    simp only [Option.some.injEq, Prod.mk.injEq] at h; obtain ⟨rfl, -, -⟩ := h
    exact ⟨fun _ h => Or.inl h, hn⟩
  · rename_i pid hpid
    have hlt : id < cs.nextReq := by
      rcases Nat.lt_or_ge id cs.nextReq with hlt | hge
      · exact hlt
      · have := (hp.fresh id hge).1; rw [hpid] at this; cases this
    split at h
    · rename_i hn; exact absurd hn (hp.byId_some id pid hpid)
    · split at h
      · simp only [Option.some.injEq, Prod.mk.injEq] at h; obtain ⟨rfl, -, -⟩ := h
        refine ⟨?_, by simp [upd]⟩
        intro id' hne; simp only [upd] at hne; split at hne
        · exact absurd rfl hne
        · exact Or.inl hne
      · split at h
        · simp only [Option.some.injEq, Prod.mk.injEq] at h; obtain ⟨rfl, -, -⟩ := h
          refine ⟨?_, ?_⟩
          · intro id' hne; simp only [upd] at hne; split at hne
            · rename_i e; exact Or.inr (Nat.le_of_eq e.symm)
            · split at hne
              · exact absurd rfl hne
              · exact Or.inl hne
          · have : id ≠ cs.nextReq := Nat.ne_of_lt hlt
            simp [upd, this]
        · simp only [Option.some.injEq, Prod.mk.injEq] at h; obtain ⟨rfl, -, -⟩ := h
          refine ⟨?_, by simp [upd]⟩
          intro id' hne; simp only [upd] at hne; split at hne
          · exact absurd rfl hne
          · exact Or.inl hne

set_option maxHeartbeats 2000000 in
/-- request ids become outstanding only when they are created (`nextReq`) -/
theorem microStep_byId_mono {s s' : State} {th : Th} {ch ch2 : Nat} {op : MOp} {rest : List MOp} {o : Out}
    (hp : PendOk (s.ctx th.ctx)) (hs : microStep s th ch ch2 op rest = some (s', o)) (c : Ctx) (id : ReqId)
    (h : (s'.ctx c).byId id ≠ none) : (s.ctx c).byId id ≠ none ∨ (s.ctx c).nextReq ≤ id := by
  by_cases e : c = th.ctx
  · subst e
    cases op <;> simp only [microStep] at hs
    all_goals (try (split at hs))
    all_goals (try (split at hs))
    all_goals (try (split at hs))
    all_goals (try (split at hs))
    all_goals (try (simp at hs))
    all_goals (try (obtain ⟨rfl, -⟩ := hs))
    all_goals (try (have hh := (handleReplyStep_byId hp ‹handleReplyStep _ _ _ = some _›).1))
    all_goals (simp only [setProg_ctx, setCtx_ctx, if_true, State.setProg, peerRemovedStep] at h)
    all_goals (try (exact Or.inl h))
    all_goals (try (exact hh id h))
    all_goals (simp only [upd] at h; split at h)
    all_goals first
      | (rename_i e; exact Or.inr (Nat.le_of_eq e.symm))
      | exact Or.inl h
  · rw [(microStep_frame hs).ctx_other c e] at h; exact Or.inl h

/-- after `handleReply id` the request `id` is no longer outstanding -/
theorem microStep_handleReply_byId {s s' : State} {th : Th} {ch ch2 : Nat} {id : ReqId} {ok : Bool} {rest : List MOp} {o : Out}
    (hp : PendOk (s.ctx th.ctx)) (hs : microStep s th ch ch2 (.handleReply id ok) rest = some (s', o)) :
    (s'.ctx th.ctx).byId id = none := by
  simp only [microStep] at hs
  split at hs
  · simp at hs
  · rename_i cs' more o' heq
    simp only [Option.some.injEq, Prod.mk.injEq] at hs
    obtain ⟨rfl, -⟩ := hs
    simp only [setProg_ctx, setCtx_ctx, if_true]
    exact (handleReplyStep_byId hp heq).2

/-- the server's socket thread executes the operation that works on the request: the request moves on -/
theorem served_head {s s' : State} {ch ch2 : Nat} {op : MOp} {rest : List MOp} {o : Out} {n : ConnId} {id : ReqId}
    (hrg : RegInv s) (htd : TdInv s) (hprog : s.prog (.sock ((s.conn n).half false).owner) = op :: rest)
    (hsv : op.serves n id = true)
    (hs : microStep s (.sock ((s.conn n).half false).owner) ch ch2 op rest = some (s', o)) : Served s' n id := by
  have hown := microStep_owner hs
  have hfl := microStep_fields hs
  cases op <;> simp only [MOp.serves] at hsv <;> try contradiction
  case sendChk d m =>
    cases m <;> simp only [MOp.serves] at hsv <;> try contradiction
    rename_i id' ok
    simp only [Bool.and_eq_true, decide_eq_true_eq] at hsv
    obtain ⟨rfl, rfl⟩ := hsv
    by_cases hc : ((s.ctx ((s.conn n).half false).owner).peers (.alias n)).isSome = true ∧
        (s.passed (.sock ((s.conn n).half false).owner) || !(s.ctx ((s.conn n).half false).owner).routerDown) = true
    · -- handed to `enq`
      right; right; left
      simp only [microStep, Th.ctx, hc.1, hc.2, Bool.and_self, if_true, Option.some.injEq, Prod.mk.injEq] at hs
      obtain ⟨rfl, -⟩ := hs
      refine ⟨.enq (.alias n) (.subReply id' ok), ?_, by simp [MOp.serves]⟩
      simp [State.setProg, upd]
    · -- dropped: the peer is no longer registered (then this end is closed), or the context is stopping
      by_cases hrd : (s.ctx ((s.conn n).half false).owner).routerDown = true
      · right; right; right; right; right; left
        rw [hown, hfl.routerDown]; exact hrd
      · left
        rw [(microStep_half hs n false).resolve_right (by rintro ⟨-, -, -, e⟩; cases e)]
        cases hop : ((s.conn n).half false).isOpen with
        | false => rfl
        | true =>
          exfalso
          have hpn : (s.ctx ((s.conn n).half false).owner).peers (.alias n) = none := by
            cases hq : (s.ctx ((s.conn n).half false).owner).peers (.alias n) with
            | none => rfl
            | some x =>
              exfalso; apply hc
              simp only [hq, Option.isSome_some, true_and]
              simp only [Bool.not_eq_true] at hrd
              simp [hrd]
          rcases hrg.reg n false hop with hr | hr
          · simp only [srcName, Bool.false_eq_true, if_false] at hr
            rw [hpn] at hr; cases hr
          · have hsh := htd.sock ((s.conn n).half false).owner
            rw [hprog] at hsh hr
            generalize hl : MOp.sendChk (Peer.alias n) (Msg.subReply id' ok) :: rest = l at hsh
            cases hsh with
            | free hfree =>
              subst hl
              have := hfree _ hr; simp [MOp.isTd] at this
            | pop => simp at hl
            | rem => simp at hl
            | close => simp at hl
  case enq d m =>
    cases m <;> simp only [MOp.serves] at hsv <;> try contradiction
    rename_i id' ok
    simp only [Bool.and_eq_true, decide_eq_true_eq] at hsv
    obtain ⟨rfl, rfl⟩ := hsv
    right; right; right; left
    simp only [microStep, Option.some.injEq, Prod.mk.injEq] at hs
    obtain ⟨rfl, -⟩ := hs
    refine ⟨ok, ?_⟩
    simp [State.setProg, State.setCtx, upd, Th.ctx]
  case reqChk1 src id' ob sg =>
    simp only [Bool.and_eq_true, decide_eq_true_eq] at hsv
    obtain ⟨rfl, rfl⟩ := hsv
    right; right; left
    simp only [microStep] at hs
    split at hs <;> (simp only [Option.some.injEq, Prod.mk.injEq] at hs; obtain ⟨rfl, -⟩ := hs)
    · exact ⟨.reqChk2 (.alias n) id' ob sg, by simp [State.setProg, State.setCtx, upd], by simp [MOp.serves]⟩
    · exact ⟨.sendChk (.alias n) (.subReply id' false), by simp [State.setProg, State.setCtx, upd], by simp [MOp.serves]⟩
  case reqChk2 src id' ob sg =>
    simp only [Bool.and_eq_true, decide_eq_true_eq] at hsv
    obtain ⟨rfl, rfl⟩ := hsv
    right; right; left
    simp only [microStep] at hs
    split at hs <;> (simp only [Option.some.injEq, Prod.mk.injEq] at hs; obtain ⟨rfl, -⟩ := hs)
    · exact ⟨.sendChk (.alias n) (.subReply id' true), by simp [State.setProg, State.setCtx, upd], by simp [MOp.serves]⟩
    · exact ⟨.sendChk (.alias n) (.subReply id' false), by simp [State.setProg, State.setCtx, upd], by simp [MOp.serves]⟩

theorem reqInv_micro {s s' : State} {th : Th} {ch ch2 : Nat} {op : MOp} {rest : List MOp} {o : Out}
    (h : ReqInv s) (hid : IdInv s) (hpk : PendInv s) (hrg : RegInv s) (htd : TdInv s) (hso : ∀ c, sockOps (s.prog (.sock c)))
    (hprog : s.prog th = op :: rest) (hs : microStep s th ch ch2 op rest = some (s', o)) : ReqInv s' := by
  have hf := microStep_frame hs
  have hfl := microStep_fields hs
  have hown := microStep_owner hs
  intro n id hm hop hby
  -- the client end is untouched
  have hhalf : (s'.conn n).half true = (s.conn n).half true := by
    rcases microStep_half hs n true with e | ⟨e, -, -, -⟩
    · exact e
    · rw [e] at hop; cases hop
  rw [hhalf] at hm hop hby
  have hby0 : (s.ctx ((s.conn n).half true).owner).byId id ≠ none := by
    rcases microStep_byId_mono (hpk th.ctx) hs _ id hby with h1 | h1
    · exact h1
    · exact absurd (hid.pend n true id hm) (Nat.not_lt.2 h1)
  have hsv := h n id hm hop hby0
  have hsockop : ∀ c, th = .sock c → op.isSockOp = true := by
    intro c e; have := hso c; rw [← e, hprog] at this; exact this op List.mem_cons_self
  -- the server end: unchanged, or closed
  rcases microStep_half hs n false with hsrv | ⟨hcl, -, -, -⟩
  rotate_left
  · exact Or.inl hcl
  unfold Served
  rw [hsrv, hhalf]
  rcases hsv with h1 | ⟨ob, sg, b, h1⟩ | ⟨op', ho', hs'⟩ | ⟨ok, h1⟩ | ⟨ok, h1⟩ | h1 | ⟨ok, h1⟩
  · exact Or.inl h1
  · exact Or.inr (Or.inl ⟨ob, sg, b, h1⟩)
  · by_cases e : Th.sock ((s.conn n).half false).owner = th
    · subst e
      rw [hprog] at ho'
      rcases List.mem_cons.1 ho' with rfl | h0
      · have := served_head hrg htd hprog hs' hs
        unfold Served at this
        rw [hsrv, hhalf] at this
        exact this
      · exact Or.inr (Or.inr (Or.inl ⟨op', microStep_sock_rest (hsockop _ rfl) hs _ h0, hs'⟩))
    · rw [← hf.prog_other _ e] at ho'
      exact Or.inr (Or.inr (Or.inl ⟨op', ho', hs'⟩))
  · refine Or.inr (Or.inr (Or.inr (Or.inl ⟨ok, ?_⟩)))
    by_cases e : ((s.conn n).half false).owner = th.ctx
    · rw [e]; exact microStep_loopQ hs _ (by rw [← e]; exact h1)
    · rw [hf.ctx_other _ e]; exact h1
  · exact Or.inr (Or.inr (Or.inr (Or.inr (Or.inl ⟨ok, h1⟩))))
  · exact Or.inr (Or.inr (Or.inr (Or.inr (Or.inr (Or.inl (by rw [hfl.routerDown]; exact h1))))))
  · refine Or.inr (Or.inr (Or.inr (Or.inr (Or.inr (Or.inr ⟨ok, ?_⟩)))))
    by_cases e : Th.sock ((s.conn n).half true).owner = th
    · subst e
      rw [hprog] at h1
      rcases List.mem_cons.1 h1 with rfl | h0
      · exfalso
        exact hby (microStep_handleReply_byId (hpk _) hs)
      · exact microStep_sock_rest (hsockop _ rfl) hs _ h0
    · rw [hf.prog_other _ e]; exact h1

/-- monotone transfer of `Served` -/
theorem Served.mono {s s' : State} {n : ConnId} {id : ReqId} (h : Served s n id)
    (hown : ∀ b, ((s'.conn n).half b).owner = ((s.conn n).half b).owner)
    (hsrv : ((s.conn n).half false).isOpen = false → ((s'.conn n).half false).isOpen = false)
    (hinF : ∀ ob sg b, Msg.subReq id ob sg b ∈ ((s.conn n).half false).inbox →
      Msg.subReq id ob sg b ∈ ((s'.conn n).half false).inbox ∨ Served s' n id)
    (hprog : ∀ c op, op ∈ s.prog (.sock c) → op ∈ s'.prog (.sock c))
    (hlq : ∀ ok, Cb.smSend (.alias n) (.subReply id ok) ∈ (s.ctx ((s.conn n).half false).owner).loopQ →
      Cb.smSend (.alias n) (.subReply id ok) ∈ (s'.ctx ((s.conn n).half false).owner).loopQ ∨ Served s' n id)
    (hinT : ∀ ok, Msg.subReply id ok ∈ ((s.conn n).half true).inbox →
      Msg.subReply id ok ∈ ((s'.conn n).half true).inbox ∨ Served s' n id)
    (hrd : ∀ c, (s.ctx c).routerDown = true → (s'.ctx c).routerDown = true) : Served s' n id := by
  rcases h with h1 | ⟨ob, sg, b, h1⟩ | ⟨op', ho', hs'⟩ | ⟨ok, h1⟩ | ⟨ok, h1⟩ | h1 | ⟨ok, h1⟩
  · exact Or.inl (hsrv h1)
  · rcases hinF _ _ _ h1 with h2 | h2
    · exact Or.inr (Or.inl ⟨ob, sg, b, h2⟩)
    · exact h2
  · exact Or.inr (Or.inr (Or.inl ⟨op', by rw [hown]; exact hprog _ _ ho', hs'⟩))
  · rcases hlq _ h1 with h2 | h2
    · exact Or.inr (Or.inr (Or.inr (Or.inl ⟨ok, by rw [hown]; exact h2⟩)))
    · exact h2
  · rcases hinT _ h1 with h2 | h2
    · exact Or.inr (Or.inr (Or.inr (Or.inr (Or.inl ⟨ok, h2⟩))))
    · exact h2
  · exact Or.inr (Or.inr (Or.inr (Or.inr (Or.inr (Or.inl (by rw [hown]; exact hrd _ h1))))))
  · exact Or.inr (Or.inr (Or.inr (Or.inr (Or.inr (Or.inr ⟨ok, by rw [hown]; exact hprog _ _ h1⟩)))))

/-- steps that change no connection, queue or router flag and start programs only on idle socket threads -/
theorem ReqInv.quiet {s s' : State} (h : ReqInv s)
    (hconn : s'.conn = s.conn) (hby : ∀ c, (s'.ctx c).byId = (s.ctx c).byId)
    (hprog : ∀ c op, op ∈ s.prog (.sock c) → op ∈ s'.prog (.sock c))
    (hlq : ∀ c, ∀ cb ∈ (s.ctx c).loopQ, cb ∈ (s'.ctx c).loopQ)
    (hrd : ∀ c, (s.ctx c).routerDown = true → (s'.ctx c).routerDown = true) : ReqInv s' := by
  intro n id hm hop hb
  rw [hconn] at hm hop hb
  rw [hby] at hb
  refine (h n id hm hop hb).mono (fun b => by rw [hconn]) (fun e => by rw [hconn]; exact e) (fun _ _ _ hm => Or.inl (by rw [hconn]; exact hm))
    hprog (fun _ hcb => Or.inl (hlq _ _ hcb)) (fun _ hm => Or.inl (by rw [hconn]; exact hm)) hrd

theorem setProg_sock_mem (s : State) (c : Ctx) (pr : List MOp) (hidle : s.prog (.sock c) = []) (x : Ctx) (op : MOp)
    (h : op ∈ s.prog (.sock x)) : op ∈ (s.setProg (.sock c) pr).prog (.sock x) := by
  simp only [setProg_prog]; split
  · rename_i e; simp only [Th.sock.injEq] at e; subst e; rw [hidle] at h; simp at h
  · exact h

theorem setCtx_byId_of_eq (s : State) (c : Ctx) (cs : CtxSt) (h : cs.byId = (s.ctx c).byId) (x : Ctx) :
    ((s.setCtx c cs).ctx x).byId = (s.ctx x).byId := by
  simp only [setCtx_ctx]; split
  · rename_i e; subst e; exact h
  · rfl

theorem setCtx_byId_imp (s : State) (c : Ctx) (cs : CtxSt) (x : Ctx) (id : ReqId)
    (hx : ((s.setCtx c cs).ctx x).byId id ≠ none) (h : cs.byId = (s.ctx c).byId) : (s.ctx x).byId id ≠ none := by
  rw [setCtx_byId_of_eq s c cs h x] at hx; exact hx

theorem setCtx_routerDown_imp (s : State) (c : Ctx) (cs : CtxSt) (h : (s.ctx c).routerDown = true → cs.routerDown = true) (x : Ctx)
    (hx : (s.ctx x).routerDown = true) : ((s.setCtx c cs).ctx x).routerDown = true := by
  simp only [setCtx_ctx]; split
  · rename_i e; subst e; exact h hx
  · exact hx

theorem lq_tail (s : State) (c : Ctx) (cs : CtxSt) {cb0 : Cb} {q : List Cb} (hq : (s.ctx c).loopQ = cb0 :: q) (hcs : cs.loopQ = q)
    (x : Ctx) (cb : Cb) (h : cb ∈ (s.ctx x).loopQ) : cb ∈ ((s.setCtx c cs).ctx x).loopQ ∨ (x = c ∧ cb = cb0) := by
  simp only [setCtx_ctx]; split
  · rename_i e; subst e
    rw [hq] at h; rw [hcs]
    rcases List.mem_cons.1 h with h0 | h0
    · exact Or.inr ⟨rfl, h0⟩
    · exact Or.inl h0
  · exact Or.inl h

/-- a queued reply whose peer is no longer registered: the server end of that connection is closed -/
theorem closed_of_unregistered {s : State} (hrg : RegInv s) {n : ConnId}
    (hidle : s.prog (.sock ((s.conn n).half false).owner) = [])
    (hp : (s.ctx ((s.conn n).half false).owner).peers (.alias n) = none) : ((s.conn n).half false).isOpen = false := by
  cases hop : ((s.conn n).half false).isOpen with
  | false => rfl
  | true =>
    exfalso
    rcases hrg.reg n false hop with hr | hr
    · simp only [srcName, Bool.false_eq_true, if_false] at hr
      rw [hp] at hr; cases hr
    · rw [hidle] at hr; simp at hr

theorem reqInv_nstep {s s' : State} (h : ReqInv s) (hid : IdInv s) (ht : TopoInv s) (hty : TypInv s) (hrg : RegInv s)
    (hs : NStep s s') : ReqInv s' := by
  cases hs
  case beginPub c t ob sg _ _ =>
    refine h.quiet rfl (fun _ => rfl) ?_ (fun _ _ h => h) (fun _ h => h)
    intro x op hm; simp only [setProg_prog]; rw [if_neg (by simp)]; exact hm
  case beginOther c t op _ _ _ =>
    refine h.quiet rfl (fun _ => rfl) ?_ (fun _ _ h => h) (fun _ h => h)
    intro x op hm; simp only [setProg_prog]; rw [if_neg (by simp)]; exact hm
  case routerOk => exact h.quiet rfl (fun _ => rfl) (fun _ _ h => h) (fun _ _ h => h) (fun _ h => h)
  case stopReq c _ =>
    refine h.quiet rfl (setCtx_byId_of_eq s c _ rfl) (fun _ _ h => h) ?_ (setCtx_routerDown_imp s c _ (fun _ => rfl))
    exact fun x cb hcb => by simp only [setCtx_ctx]; split <;> simp_all
  case eof cn cli _ _ hidle _ _ _ =>
    exact h.quiet rfl (fun _ => rfl) (setProg_sock_mem s _ _ hidle) (fun _ _ h => h) (fun _ h => h)
  case cbDiscNone c n t q _ hidle hq _ =>
    intro n' id hm hop hb
    have hb0 : (s.ctx ((s.conn n').half true).owner).byId id ≠ none := by
      rw [← setCtx_byId_of_eq s c { (s.ctx c) with loopQ := q } rfl]; exact hb
    refine (h n' id hm hop hb0).mono (fun _ => rfl) (fun e => e) (fun _ _ _ hm => Or.inl hm)
      (setProg_sock_mem (s.setCtx c _) c _ hidle) ?_ (fun _ hm => Or.inl hm) (setCtx_routerDown_imp s c _ (fun e => e))
    intro ok hm'
    rcases lq_tail s c { (s.ctx c) with loopQ := q } hq rfl _ _ hm' with h1 | ⟨-, h1⟩
    · exact Or.inl h1
    · cases h1
  case cbDisc c n t q cn _ hidle hq _ =>
    intro n' id hm hop hb
    have hb0 : (s.ctx ((s.conn n').half true).owner).byId id ≠ none := by
      rw [← setCtx_byId_of_eq s c { (s.ctx c) with loopQ := q } rfl]; exact hb
    refine (h n' id hm hop hb0).mono (fun _ => rfl) (fun e => e) (fun _ _ _ hm => Or.inl hm)
      (setProg_sock_mem (s.setCtx c _) c _ hidle) ?_ (fun _ hm => Or.inl hm) (setCtx_routerDown_imp s c _ (fun e => e))
    intro ok hm'
    rcases lq_tail s c { (s.ctx c) with loopQ := q } hq rfl _ _ hm' with h1 | ⟨-, h1⟩
    · exact Or.inl h1
    · cases h1
  case cbUnknown c d m q _ hidle hq hpeer =>
    intro n' id hm hop hb
    have hb0 : (s.ctx ((s.conn n').half true).owner).byId id ≠ none := by
      rw [← setCtx_byId_of_eq s c { (s.ctx c) with loopQ := q } rfl]; exact hb
    refine (h n' id hm hop hb0).mono (fun _ => rfl) (fun e => e) (fun _ _ _ hm => Or.inl hm)
      (setProg_sock_mem (s.setCtx c _) c _ hidle) ?_ (fun _ hm => Or.inl hm) (setCtx_routerDown_imp s c _ (fun e => e))
    intro ok hm'
    rcases lq_tail s c { (s.ctx c) with loopQ := q } hq rfl _ _ hm' with h1 | ⟨h1, h2⟩
    · exact Or.inl h1
    · right; left
      simp only [Cb.smSend.injEq] at h2
      obtain ⟨rfl, -⟩ := h2
      exact closed_of_unregistered hrg (by rw [h1]; exact hidle) (by rw [h1]; exact hpeer)
  case cbFail c d m q cn _ hidle hq hpeer hcl =>
    intro n' id hm hop hb
    have hb0 : (s.ctx ((s.conn n').half true).owner).byId id ≠ none := by
      rw [← setCtx_byId_of_eq s c { (s.ctx c) with loopQ := q } rfl]; exact hb
    refine (h n' id hm hop hb0).mono (fun _ => rfl) (fun e => e) (fun _ _ _ hm => Or.inl hm)
      (setProg_sock_mem (s.setCtx c _) c _ hidle) ?_ (fun _ hm => Or.inl hm) (setCtx_routerDown_imp s c _ (fun e => e))
    intro ok hm'
    rcases lq_tail s c { (s.ctx c) with loopQ := q } hq rfl _ _ hm' with h1 | ⟨h1, h2⟩
    · exact Or.inl h1
    · exfalso
      simp only [Cb.smSend.injEq] at h2
      obtain ⟨rfl, -⟩ := h2
      obtain ⟨rfl, -, -⟩ := ht.peersA c _ cn hpeer
      simp only [Peer.isName, Bool.not_false] at hcl
      change ((s.conn cn).half true).isOpen = true at hop
      rw [hcl] at hop; cases hop
  case cbSent c d m q cn _ hidle hq hpeer =>
    have hok : sendOk s.nextConn d m = true := hty.cbs c (.smSend d m) (by rw [hq]; exact List.mem_cons_self)
    have hownc : ∀ n b, (((upd s.conn cn (sentConn (s.conn cn) d.isName m)) n).half b).owner = ((s.conn n).half b).owner := by
      intro n b; simp only [upd]; split
      · rename_i e; subst e; exact sentConn_owner _ _ _ _
      · rfl
    have hopenc : ∀ n b, (((upd s.conn cn (sentConn (s.conn cn) d.isName m)) n).half b).isOpen = ((s.conn n).half b).isOpen := by
      intro n b; simp only [upd]; split
      · rename_i e; subst e; exact sentConn_isOpen _ _ _ _
      · rfl
    have hinc : ∀ n b x, x ∈ ((s.conn n).half b).inbox → x ∈ (((upd s.conn cn (sentConn (s.conn cn) d.isName m)) n).half b).inbox := by
      intro n b x hx; simp only [upd]; split
      · rename_i e; subst e; rw [sentConn_inbox]; split
        · exact List.mem_append_left _ hx
        · exact hx
      · exact hx
    have hnew : ∀ b, b = !d.isName → ((s.conn cn).half b).isOpen = true →
        m ∈ (((upd s.conn cn (sentConn (s.conn cn) d.isName m)) cn).half b).inbox := by
      intro b hb ho; simp only [upd, if_true]; rw [sentConn_inbox, if_pos ⟨hb, ho⟩]; simp
    intro n' id hm hop hb
    change id ∈ (((upd s.conn cn (sentConn (s.conn cn) d.isName m)) n').half true).pend at hm
    change (((upd s.conn cn (sentConn (s.conn cn) d.isName m)) n').half true).isOpen = true at hop
    change ((s.setCtx c { (s.ctx c) with loopQ := q }).ctx (((upd s.conn cn (sentConn (s.conn cn) d.isName m)) n').half true).owner).byId id ≠ none at hb
    rw [hopenc] at hop
    rw [hownc] at hb
    have hb := setCtx_byId_imp s c _ _ _ hb rfl
    have hpend : id ∈ ((s.conn n').half true).pend ∨ (n' = cn ∧ d.isName = true ∧ m.reqId? = some id) := by
      simp only [upd] at hm; split at hm
      · rename_i e; subst e
        rw [sentConn_pend] at hm
        split at hm
        · rename_i e
          cases hr : m.reqId? with
          | none => rw [hr] at hm; exact Or.inl hm
          | some id' =>
            rw [hr] at hm
            rcases List.mem_append.1 hm with h1 | h1
            · exact Or.inl h1
            · simp only [List.mem_singleton] at h1; subst h1; exact Or.inr ⟨rfl, e.symm, rfl⟩
        · exact Or.inl hm
      · exact Or.inl hm
    rcases hpend with hm0 | ⟨rfl, hdn, hreq⟩
    · refine (h n' id hm0 hop hb).mono (fun b => hownc n' b) (fun e => (hopenc n' false).trans e)
        (fun _ _ _ hx => Or.inl (hinc _ _ _ hx)) (setProg_sock_mem _ c _ hidle) ?_ (fun _ hx => Or.inl (hinc _ _ _ hx))
        (setCtx_routerDown_imp s c _ (fun e => e))
      intro ok hm'
      rcases lq_tail s c { (s.ctx c) with loopQ := q } hq rfl _ _ hm' with h1 | ⟨h1, h2⟩
      · exact Or.inl h1
      · right
        simp only [Cb.smSend.injEq] at h2
        obtain ⟨rfl, rfl⟩ := h2
        obtain ⟨rfl, -, -⟩ := ht.peersA c _ cn hpeer
        exact Or.inr (Or.inr (Or.inr (Or.inr (Or.inl ⟨ok, hnew true (by simp [Peer.isName]) hop⟩))))
    · -- the request has just been written to the connection
      obtain ⟨ob, sg, b, rfl⟩ : ∃ ob sg b, m = .subReq id ob sg b := by
        cases m <;> simp only [Msg.reqId?] at hreq <;> try contradiction
        simp only [Option.some.injEq] at hreq; subst hreq; exact ⟨_, _, _, rfl⟩
      cases hsrv : ((s.conn n').half false).isOpen with
      | false => exact Or.inl ((hopenc n' false).trans hsrv)
      | true => exact Or.inr (Or.inl ⟨ob, sg, b, hnew false (by simp [hdn]) hsrv⟩)
  case arrive cn cli m ms hlt _ hidle hopen hin =>
    have hownc : ∀ n b, (((upd s.conn cn ((s.conn cn).setHalf cli (readHalf ((s.conn cn).half cli) m ms))) n).half b).owner =
        ((s.conn n).half b).owner := by
      intro n b; simp only [upd]; split
      · rename_i e; subst e; rw [half_setHalf']; split
        · rename_i e; subst e; exact readHalf_owner _ _ _
        · rfl
      · rfl
    have hopenc : ∀ n b, (((upd s.conn cn ((s.conn cn).setHalf cli (readHalf ((s.conn cn).half cli) m ms))) n).half b).isOpen =
        ((s.conn n).half b).isOpen := by
      intro n b; simp only [upd]; split
      · rename_i e; subst e; rw [half_setHalf']; split
        · rename_i e; subst e; exact readHalf_isOpen _ _ _
        · rfl
      · rfl
    have hinc : ∀ n b x, x ∈ ((s.conn n).half b).inbox →
        x ∈ (((upd s.conn cn ((s.conn cn).setHalf cli (readHalf ((s.conn cn).half cli) m ms))) n).half b).inbox ∨ (n = cn ∧ b = cli ∧ x = m) := by
      intro n b x hx; simp only [upd]; split
      · rename_i e; subst e; rw [half_setHalf']; split
        · rename_i e; subst e
          rw [readHalf_inbox]; rw [hin] at hx
          rcases List.mem_cons.1 hx with h0 | h0
          · exact Or.inr ⟨rfl, rfl, h0⟩
          · exact Or.inl h0
        · exact Or.inl hx
      · exact Or.inl hx
    have hpendc : ∀ n id, id ∈ (((upd s.conn cn ((s.conn cn).setHalf cli (readHalf ((s.conn cn).half cli) m ms))) n).half true).pend →
        id ∈ ((s.conn n).half true).pend := by
      intro n id hm; simp only [upd] at hm; split at hm
      · rename_i e; subst e; rw [half_setHalf'] at hm; split at hm
        · rename_i e; subst e
          cases m <;> simp only [readHalf] at hm <;> first | exact hm | exact List.mem_of_mem_erase hm
        · exact hm
      · exact hm
    have hpr : ∀ op ∈ dispatch (srcName s cn cli) m,
        op ∈ (({ s with conn := upd s.conn cn ((s.conn cn).setHalf cli (readHalf ((s.conn cn).half cli) m ms)) }).setProg
          (.sock ((s.conn cn).half cli).owner) (dispatch (srcName s cn cli) m)).prog (.sock ((s.conn cn).half cli).owner) := by
      intro op ho; simp only [setProg_prog, if_true]; exact ho
    intro n' id hm hop hb
    change (((upd s.conn cn ((s.conn cn).setHalf cli (readHalf ((s.conn cn).half cli) m ms))) n').half true).isOpen = true at hop
    change (s.ctx (((upd s.conn cn ((s.conn cn).setHalf cli (readHalf ((s.conn cn).half cli) m ms))) n').half true).owner).byId id ≠ none at hb
    rw [hopenc] at hop
    rw [hownc] at hb
    refine (h n' id (hpendc n' id hm) hop hb).mono (fun b => hownc n' b) (fun e => (hopenc n' false).trans e) ?_
      (setProg_sock_mem _ _ _ hidle) (fun _ hx => Or.inl hx) ?_ (fun _ e => e)
    · intro ob sg b hx
      rcases hinc _ _ _ hx with h1 | ⟨rfl, rfl, rfl⟩
      · exact Or.inl h1
      · right; right; right; left
        refine ⟨(if b then MOp.reqChk1 (.alias n') id ob sg else MOp.sendChk (.alias n') (.subReply id true)), ?_, ?_⟩
        · have := hpr (if b then MOp.reqChk1 (.alias n') id ob sg else MOp.sendChk (.alias n') (.subReply id true))
            (by cases b <;> simp [dispatch, srcName])
          simp only [setProg_conn]; rw [hownc]
          exact this
        · cases b <;> simp [MOp.serves]
    · intro ok hx
      rcases hinc _ _ _ hx with h1 | ⟨rfl, rfl, rfl⟩
      · exact Or.inl h1
      · right; right; right; right; right; right; right
        refine ⟨ok, ?_⟩
        have := hpr (.handleReply id ok) (by simp [dispatch])
        simp only [setProg_conn]; rw [hownc]
        exact this
  case connect a p hne _ _ _ =>
    show ReqInv (connState s a p)
    intro n' id hm hop hb
    rw [connState_conn] at hm hop hb
    by_cases e : n' = s.nextConn
    · subst e; simp [newConn, Conn.half] at hm
    · simp only [e, if_false] at hm hop hb
      have hby : ((connState s a p).ctx ((s.conn n').half true).owner).byId = (s.ctx ((s.conn n').half true).owner).byId := by
        simp only [connState, setCtx_ctx]; (repeat' split) <;> simp_all
      rw [hby] at hb
      refine (h n' id hm hop hb).mono (fun b => by rw [connState_conn, if_neg e]) (fun x => by rw [connState_conn, if_neg e]; exact x)
        (fun _ _ _ hx => Or.inl (by rw [connState_conn, if_neg e]; exact hx)) (fun _ _ hx => hx)
        (fun _ hx => Or.inl (by rw [connState_loopQ]; exact hx)) (fun _ hx => Or.inl (by rw [connState_conn, if_neg e]; exact hx)) ?_
      intro c hc; simp only [connState, setCtx_ctx]; (repeat' split) <;> simp_all
  case stop c _ =>
    intro n' id hm hop hb
    change id ∈ ((stopConn c (s.conn n')).half true).pend at hm
    change ((stopConn c (s.conn n')).half true).isOpen = true at hop
    change ((s.setCtx c { (s.ctx c) with alive := false, loopQ := [] }).ctx ((stopConn c (s.conn n')).half true).owner).byId id ≠ none at hb
    rw [stopConn_pend] at hm
    rw [stopConn_isOpen] at hop
    rw [stopConn_owner] at hb
    split at hop
    · cases hop
    · rename_i hne
      simp only [setCtx_ctx, hne, if_false] at hb
      -- the server end: closed by the stop, or untouched
      by_cases hsrv : ((s.conn n').half false).owner = c
      · left
        show ((stopConn c (s.conn n')).half false).isOpen = false
        rw [stopConn_isOpen, if_pos hsrv]
      · refine (h n' id hm hop hb).mono (fun b => stopConn_owner c _ b) ?_ ?_ (fun _ _ hx => hx) ?_ ?_ ?_
        · intro e; show ((stopConn c (s.conn n')).half false).isOpen = false
          rw [stopConn_isOpen, if_neg hsrv]; exact e
        · intro ob sg b hx; left
          show _ ∈ ((stopConn c (s.conn n')).half false).inbox
          rw [stopConn_inbox, if_neg hsrv]; exact hx
        · intro ok hx; left
          show _ ∈ ((s.setCtx c { (s.ctx c) with alive := false, loopQ := [] }).ctx _).loopQ
          simp only [setCtx_ctx, hsrv, if_false]; exact hx
        · intro ok hx; left
          show _ ∈ ((stopConn c (s.conn n')).half true).inbox
          rw [stopConn_inbox, if_neg hne]; exact hx
        · exact setCtx_routerDown_imp s c _ (fun e => e)

theorem reqInv_reach {s : State} (h : Reach s) : ReqInv s := by
  induction h with
  | init => exact reqInv_init
  | step hr hs ih =>
    rename_i s0 s1 a o
    by_cases ha : ∃ th ch ch2, a = .micro th ch ch2
    · obtain ⟨th, ch, ch2, rfl⟩ := ha
      obtain ⟨-, op, rest, hp, hm⟩ := step_micro_inv hs
      exact reqInv_micro ih (idInv_reach hr) (pendInv_reach hr) (regInv_reach hr) (tdInv_reach hr) (sockOps_reach hr) hp hm
    · exact reqInv_nstep ih (idInv_reach hr) (topoInv_reach hr) (typInv_reach hr) (regInv_reach hr)
        (step_nonmicro_cases (fun th ch ch2 e => ha ⟨th, ch, ch2, e⟩) hs)

/-! ### liveness of registered requests -/

/-- no live context is half-way through `MessageRouter.stop` (a stop that has begun is an enabled continuation: `Act.stop`) -/
def NoStopPending (s : State) : Prop := ∀ c, (s.ctx c).alive = true → (s.ctx c).routerDown = false

/-- **the peer-side obligation**, restricted to outstanding requests: a request that is registered on a connection end of a
live context and still outstanding there has an enabled internal action -/
def NetLiveOut (s : State) : Prop :=
  ∀ cn cli id, cn < s.nextConn → (s.ctx ((s.conn cn).half cli).owner).alive = true → id ∈ ((s.conn cn).half cli).pend →
    (s.ctx ((s.conn cn).half cli).owner).byId id ≠ none → ∃ a, a.internal = true ∧ (step s a).isSome = true

theorem sock_progress {s : State} (h : Reach s) {c : Ctx} (hal : (s.ctx c).alive = true) (hne : s.prog (.sock c) ≠ []) :
    ∃ a, a.internal = true ∧ (step s a).isSome = true := by
  cases hp : s.prog (.sock c) with
  | nil => exact absurd hp hne
  | cons op rest =>
    have hso := sockOps_reach h c op (by rw [hp]; exact List.mem_cons_self)
    obtain ⟨ch, ch2, he⟩ := micro_enabled h hp (isWait_false_of_sockOp hso)
    exact ⟨.micro (.sock c) ch ch2, rfl, step_micro_of_enabled hal hp he⟩

theorem arrive_enabled {s : State} {cn : ConnId} {cli : Bool} (hlt : cn < s.nextConn)
    (hal : (s.ctx ((s.conn cn).half cli).owner).alive = true) (hidle : s.prog (.sock ((s.conn cn).half cli).owner) = [])
    (hop : ((s.conn cn).half cli).isOpen = true) (hin : ((s.conn cn).half cli).inbox ≠ []) :
    (step s (.arrive cn cli)).isSome = true := by
  simp only [step, hlt, hal, hidle, hop, and_self, if_true]
  cases hi : ((s.conn cn).half cli).inbox with
  | nil => exact absurd hi hin
  | cons m ms => rfl

theorem eof_enabled {s : State} {cn : ConnId} {cli : Bool} (hlt : cn < s.nextConn)
    (hal : (s.ctx ((s.conn cn).half cli).owner).alive = true) (hidle : s.prog (.sock ((s.conn cn).half cli).owner) = [])
    (hop : ((s.conn cn).half cli).isOpen = true) (hin : ((s.conn cn).half cli).inbox = [])
    (hcl : ((s.conn cn).half (!cli)).isOpen = false) : (step s (.eof cn cli)).isSome = true := by
  simp only [step, hlt, hal, hidle, hop, hin, hcl, and_self, if_true]; rfl

/-- **net_live**: in every reachable state in which no context is half-way through its stop, every outstanding request
that is registered on a connection end of a live context has an enabled internal action — the request in the peer's
inbox, the peer's handler, the reply in the peer's queue or in our inbox, our own reply handler, or the end-of-stream /
teardown of the connection -/
theorem net_live {s : State} (h : Reach s) (hns : NoStopPending s) : NetLiveOut s := by
  intro cn cli id hlt hal hm hb
  have hidv := idInv_reach h
  have ht := topoInv_reach h
  cases cli with
  | false => rw [hidv.pendS cn] at hm; simp at hm
  | true =>
    have hop : ((s.conn cn).half true).isOpen = true := by
      cases ho : ((s.conn cn).half true).isOpen with
      | true => rfl
      | false => rw [hidv.pendClosed cn true ho hal] at hm; simp at hm
    -- the client's socket thread can always make progress once the server end is closed
    have hclosed : ((s.conn cn).half false).isOpen = false → ∃ a, a.internal = true ∧ (step s a).isSome = true := by
      intro hcl
      by_cases hidle : s.prog (.sock ((s.conn cn).half true).owner) = []
      · by_cases hin : ((s.conn cn).half true).inbox = []
        · exact ⟨.eof cn true, rfl, eof_enabled hlt hal hidle hop hin hcl⟩
        · exact ⟨.arrive cn true, rfl, arrive_enabled hlt hal hidle hop hin⟩
      · exact sock_progress h hal hidle
    cases hsrv : ((s.conn cn).half false).isOpen with
    | false => exact hclosed hsrv
    | true =>
      have halp := ht.alive cn false hsrv
      rcases reqInv_reach h cn id hm hop hb with h1 | ⟨ob, sg, b, h1⟩ | ⟨op', ho', -⟩ | ⟨ok, h1⟩ | ⟨ok, h1⟩ | h1 | ⟨ok, h1⟩
      · rw [hsrv] at h1; cases h1
      · by_cases hidle : s.prog (.sock ((s.conn cn).half false).owner) = []
        · exact ⟨.arrive cn false, rfl, arrive_enabled hlt halp hidle hsrv (by intro e; rw [e] at h1; simp at h1)⟩
        · exact sock_progress h halp hidle
      · exact sock_progress h halp (by intro e; rw [e] at ho'; simp at ho')
      · by_cases hidle : s.prog (.sock ((s.conn cn).half false).owner) = []
        · exact ⟨.cb _ true, rfl, cb_enabled halp hidle (by intro e; rw [e] at h1; simp at h1)⟩
        · exact sock_progress h halp hidle
      · by_cases hidle : s.prog (.sock ((s.conn cn).half true).owner) = []
        · exact ⟨.arrive cn true, rfl, arrive_enabled hlt hal hidle hop (by intro e; rw [e] at h1; simp at h1)⟩
        · exact sock_progress h hal hidle
      · rw [hns _ halp] at h1; cases h1
      · exact sock_progress h hal (by intro e; rw [e] at h1; simp at h1)

/-- **stuck ⇒ answered** (full strength): in a reachable state in which no internal action is enabled and no context is
half-way through its stop, no live context has an outstanding request and no thread of a live context sits in a
`subscribe` / `unsubscribe` call -/
theorem stuck_implies_answered_full {s : State} (h : Reach s) (hst : Stuck s) (hns : NoStopPending s) :
    (∀ c id, (s.ctx c).alive = true → (s.ctx c).byId id = none) ∧
    (∀ th, (s.ctx th.ctx).alive = true → s.prog th = [] ∨ ∃ rest, s.prog th = .waitFut :: rest) := by
  have hnet := net_live h hns
  have hcp := carPrefix_reach h
  have hmove : ∀ th op rest, (s.ctx th.ctx).alive = true → s.prog th = op :: rest → op.isWait = true := by
    intro th op rest hal hp
    cases hw : op.isWait with
    | true => rfl
    | false =>
      obtain ⟨ch, ch2, he⟩ := micro_enabled h hp hw
      have := hst (.micro th ch ch2) rfl
      have h2 := step_micro_of_enabled hal hp he
      rw [this] at h2; simp at h2
  have hans : ∀ c id, (s.ctx c).alive = true → (s.ctx c).byId id = none := by
    intro c id hal
    cases hb : (s.ctx c).byId id with
    | none => rfl
    | some pid =>
      exfalso
      rcases carrierInv_reach h c id hal (by rw [hb]; simp) with ⟨th, hc, op, ho, hcar⟩ | ⟨cb, hcb, hcar⟩ | ⟨cn, cli, h1, h2, h3⟩
      · cases hp : s.prog th with
        | nil => rw [hp] at ho; simp at ho
        | cons hd rest =>
          have hcar' : hd.isCar = true :=
            head_isCar_of_carPrefix (hp ▸ hcp th) ⟨op, hp ▸ ho, MOp.isCar_of_carries hcar⟩
          have := hmove th hd rest (by rw [hc]; exact hal) hp
          rw [isWait_false_of_isCar hcar'] at this; simp at this
      · cases hp : s.prog (.sock c) with
        | nil =>
          have := cb_enabled hal hp (by intro e; rw [e] at hcb; simp at hcb)
          rw [hst (.cb c true) rfl] at this; simp at this
        | cons hd rest =>
          have hso := sockOps_reach h c hd (by rw [hp]; exact List.mem_cons_self)
          have := hmove (.sock c) hd rest hal hp
          rw [isWait_false_of_sockOp hso] at this; simp at this
      · obtain ⟨a, ha, he⟩ := hnet cn cli id h1 (by rw [h2]; exact hal) h3 (by rw [h2, hb]; simp)
        rw [hst a ha] at he; simp at he
  refine ⟨hans, ?_⟩
  intro th hal
  cases hp : s.prog th with
  | nil => exact Or.inl rfl
  | cons hd rest =>
    right
    have hw := hmove th hd rest hal hp
    cases hd <;> simp only [MOp.isWait] at hw <;> (try contradiction)
    · rename_i pid
      exfalso
      have hwo := waitInv_reach h th pid (by rw [hp]; exact List.mem_cons_self)
      have hpk := pendInv_reach h th.ctx
      cases hpo : (s.ctx th.ctx).pobj pid with
      | none => exact hwo.ex hpo
      | some po =>
        rcases (hwo.live po hpo).2 with hd | hk
        · have : (microStep s th 0 0 (.wait pid) rest).isSome = true := by
            simp only [microStep, hpo]
            cases hdone : po.done with
            | none => exact absurd hdone hd
            | some b => cases b <;> rfl
          have h2 := step_micro_of_enabled hal hp this
          rw [hst (.micro th 0 0) rfl] at h2; simp at h2
        · have := hpk.byKey_cur _ pid po hk hpo
          rw [hans th.ctx po.cur hal] at this; simp at this
    · exact ⟨rest, rfl⟩

end QmiModel.PubSub
