import QmiModel.Model.Context
/-! Schedules of layer C (stop ‖ make): only the first `k` decisions matter, and they range over `allScheds k`. -/
namespace QmiModel.Context

def normSched : Nat → List Bool → List Bool
  | 0, _ => []
  | k + 1, l => l.headD true :: normSched k l.tail

theorem crun_norm (a : MakeArgs) : ∀ (k : Nat) (st : CState) (l : List Bool),
    crun a st l k = crun a st (normSched k l) k
  | 0, _, _ => rfl
  | k + 1, st, l => by
    simp only [crun, normSched, List.headD_cons, List.tail_cons]
    exact crun_norm a k _ l.tail

theorem normSched_mem : ∀ (k : Nat) (l : List Bool), normSched k l ∈ allScheds k
  | 0, _ => by simp [normSched, allScheds]
  | k + 1, l => by
    simp only [normSched, allScheds, List.mem_flatMap]
    refine ⟨normSched k l.tail, normSched_mem k l.tail, ?_⟩
    cases l.headD true <;> simp

/-- a property checked on the finite table `allScheds k` holds for every schedule -/
theorem forall_sched (a : MakeArgs) (st : CState) (k : Nat) (P : CState → Prop)
    (h : ∀ s ∈ allScheds k, P (crun a st s k)) (sched : List Bool) : P (crun a st sched k) := by
  rw [crun_norm]; exact h _ (normSched_mem k sched)

/-- the clean outcomes: stop returned, nothing is left, the maker got an answer, nothing was released twice -/
def COutcome.clean (o : COutcome) : Bool :=
  o.stop == some .ok && o.res == Residue.empty && o.make.isSome && !o.active &&
  o.released.all (fun i => o.released.count i == 1)

/-- the maker thread alone -/
def runM (a : MakeArgs) : Nat → Ctx × MPc → Ctx × MPc
  | 0, x => x
  | k + 1, (c, pc) => runM a k (stepM a c pc)

/-- the stopper thread alone -/
def runS : Nat → Ctx × SPc → Ctx × SPc
  | 0, x => x
  | k + 1, (c, pc) => runS k (stepS c pc)

theorem runS_done (k : Nat) (c : Ctx) (r : Out) : runS k (c, .done r) = (c, .done r) := by
  induction k with
  | zero => rfl
  | succ k ih => simp only [runS, stepS, ih]

theorem runS_managers : ∀ (l : List (Name × Nat)) (c : Ctx) (k : Nat), 2 * l.length ≤ k →
    runS k (c, nextS l) = ((stopManagers c l).1, .done (stopManagers c l).2)
  | [], c, k, _ => by simp only [nextS, stopManagers, runS_done]
  | (n, i) :: l, c, k, hk => by
    simp only [List.length_cons] at hk
    obtain ⟨k', rfl⟩ : ∃ k', k = k' + 2 := ⟨k - 2, by omega⟩
    simp only [nextS, runS, stepS, stopManagers]
    cases h1 : unregister c n i with
    | error e => simp only [runS, stepS, runS_done]
    | ok c1 =>
      simp only [runS, stepS]
      cases h2 : findMgr c1 i with
      | none => simp only [runS_done]
      | some o => exact runS_managers l (mgrStop c1 o) k' (by omega)

theorem collect_length (c : Ctx) : (collect c).length ≤ c.objMap.length := by
  simp only [collect]; exact List.length_filterMap_le _ _

theorem runS_stop (c : Ctx) : runS (2 + 2 * c.objMap.length) (c, .head) = ((stop c).1, .done (stop c).2) := by
  have e : 2 + 2 * c.objMap.length = (2 * c.objMap.length) + 1 + 1 := by omega
  rw [e]
  simp only [runS, stepS, stop]
  cases h1 : stopHead c with
  | error e =>
    cases e <;> simp only [runS_done]
  | ok c1 =>
    simp only [runS, stepS, stopCollect]
    apply runS_managers
    have : (collect c1).length ≤ c1.objMap.length := collect_length c1
    have h2 : c1.objMap = c.objMap := by
      unfold stopHead at h1
      split at h1
      · cases h1
      · split at h1
        · cases h1
        · cases h1; rfl
    rw [h2] at this
    omega

end QmiModel.Context
