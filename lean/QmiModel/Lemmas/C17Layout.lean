import QmiModel.Model.TextLayout
/-!
# C17 — lemmas about the matrix layout of the text format

Everything is proved for ALL shapes with at least one outer axis and all axis sizes ≥ 1;
no numeric bounds.  Core Lean only.
-/
namespace QmiModel.C17.LayoutL
open QmiModel.C17

/-! ## `prod` -/

@[simp] theorem prod_nil : prod [] = 1 := rfl

@[simp] theorem prod_cons (a : Nat) (l : List Nat) : prod (a :: l) = a * prod l := rfl

theorem prod_append (l₁ l₂ : List Nat) : prod (l₁ ++ l₂) = prod l₁ * prod l₂ := by
  induction l₁ with
  | nil => simp
  | cons a l ih => simp only [List.cons_append, prod_cons, ih, Nat.mul_assoc]

theorem prod_pos (l : List Nat) (h : ∀ n ∈ l, 1 ≤ n) : 1 ≤ prod l := by
  induction l with
  | nil => simp
  | cons a l ih =>
    simp only [prod_cons]
    have ha : 1 ≤ a := h a (by simp)
    have hl : 1 ≤ prod l := ih (fun n hn => h n (by simp [hn]))
    exact Nat.mul_pos ha hl

/-- `dims = take ax ++ dims[ax] :: drop (ax+1)` -/
theorem dims_split (dims : List Nat) (ax : Nat) (hax : ax < dims.length) :
    dims = dims.take ax ++ dims.getD ax 0 :: dims.drop (ax + 1) := by
  have h1 : dims.getD ax 0 = dims[ax] := by
    simp [List.getD, List.getElem?_eq_getElem hax]
  rw [h1, List.getElem_cons_drop hax, List.take_append_drop]

theorem prod_split (dims : List Nat) (ax : Nat) (hax : ax < dims.length) :
    prod dims = prod (dims.take ax) * (dims.getD ax 0 * prod (dims.drop (ax + 1))) := by
  conv => lhs; rw [dims_split dims ax hax]
  rw [prod_append, prod_cons]

/-! ## `repeatEach` -/

@[simp] theorem repeatEach_nil (k : Nat) : repeatEach k ([] : List α) = [] := rfl

@[simp] theorem repeatEach_cons (k : Nat) (x : α) (xs : List α) :
    repeatEach k (x :: xs) = List.replicate k x ++ repeatEach k xs := by
  simp [repeatEach]

theorem repeatEach_length (k : Nat) (xs : List α) : (repeatEach k xs).length = xs.length * k := by
  induction xs with
  | nil => simp
  | cons x xs ih =>
    simp only [repeatEach_cons, List.length_append, List.length_replicate, ih, List.length_cons,
      Nat.add_mul, Nat.one_mul]
    omega

theorem repeatEach_getElem? (k : Nat) (hk : 0 < k) (xs : List α) (i : Nat) :
    (repeatEach k xs)[i]? = xs[i / k]? := by
  induction xs generalizing i with
  | nil => simp
  | cons x xs ih =>
    rw [repeatEach_cons]
    by_cases hi : i < k
    · rw [List.getElem?_append_left (by simpa using hi), Nat.div_eq_of_lt hi]
      simp [hi]
    · have hki : k ≤ i := Nat.le_of_not_lt hi
      rw [List.getElem?_append_right (by simpa using hki), List.length_replicate, ih,
        Nat.div_eq_sub_div hk hki, List.getElem?_cons_succ]

/-! ## `tile` -/

@[simp] theorem tile_zero (xs : List α) : tile 0 xs = [] := rfl

@[simp] theorem tile_succ (m : Nat) (xs : List α) : tile (m + 1) xs = xs ++ tile m xs := by
  simp [tile, List.replicate_succ]

theorem tile_length (m : Nat) (xs : List α) : (tile m xs).length = m * xs.length := by
  induction m with
  | zero => simp
  | succ m ih => simp only [tile_succ, List.length_append, ih, Nat.add_mul, Nat.one_mul]; omega

theorem tile_getElem? (m : Nat) (ys : List α) (i : Nat) (hi : i < m * ys.length) :
    (tile m ys)[i]? = ys[i % ys.length]? := by
  induction m generalizing i with
  | zero => simp at hi
  | succ m ih =>
    rw [tile_succ]
    by_cases h : i < ys.length
    · rw [List.getElem?_append_left h, Nat.mod_eq_of_lt h]
    · have hle : ys.length ≤ i := Nat.le_of_not_lt h
      rw [List.getElem?_append_right hle, ih _ (by rw [Nat.add_mul, Nat.one_mul] at hi; omega),
        ← Nat.mod_eq_sub_mod hle]

/-! ## `axisColumn` -/

/-- length of a special column -/
theorem axisColumn_length (dims : List Nat) (ax : Nat) (vals : List α) (hax : ax < dims.length)
    (hv : vals.length = dims.getD ax 0) : (axisColumn dims ax vals).length = prod dims := by
  rw [axisColumn, tile_length, repeatEach_length, hv, ← prod_split dims ax hax]

/-- the cell of a special column in row `r` is the value at `r`'s coordinate along that axis
(row-major unravel) -/
theorem axisColumn_get (dims : List Nat) (ax : Nat) (vals : List α) (hax : ax < dims.length)
    (hv : vals.length = dims.getD ax 0) (r : Nat) (hr : r < prod dims) :
    (axisColumn dims ax vals)[r]? =
      vals[(r / prod (dims.drop (ax + 1))) % (dims.getD ax 0)]? := by
  rw [prod_split dims ax hax] at hr
  have hinner : 0 < prod (dims.drop (ax + 1)) := by
    apply Nat.pos_of_ne_zero
    intro h0
    rw [h0] at hr
    simp at hr
  rw [axisColumn, tile_getElem? _ _ _ (by rw [repeatEach_length, hv]; exact hr),
    repeatEach_getElem? _ hinner, repeatEach_length, hv, Nat.mod_mul_left_div_self]

/-! ## `takeEvery`, `pySlice` -/

@[simp] theorem takeEvery_nil (k fuel : Nat) : takeEvery k fuel ([] : List α) = [] := by
  cases fuel <;> rfl

theorem takeEvery_replicate_append (k fuel : Nat) (hk : 1 ≤ k) (x : α) (rest : List α) :
    takeEvery k (fuel + 1) (List.replicate k x ++ rest) = x :: takeEvery k fuel rest := by
  have hd : (List.replicate k x ++ rest).drop k = rest := by
    have := List.drop_left (l₁ := List.replicate k x) (l₂ := rest)
    simp only [List.length_replicate] at this
    exact this
  obtain ⟨k', rfl⟩ : ∃ k', k = k' + 1 := ⟨k - 1, by omega⟩
  rw [List.replicate_succ, List.cons_append] at hd ⊢
  simp only [takeEvery]
  rw [hd]

theorem takeEvery_repeatEach (k : Nat) (hk : 1 ≤ k) (s : List α) (fuel : Nat)
    (hf : s.length ≤ fuel) : takeEvery k fuel (repeatEach k s) = s := by
  induction s generalizing fuel with
  | nil => simp
  | cons x xs ih =>
    obtain ⟨f, rfl⟩ : ∃ f, fuel = f + 1 := ⟨fuel - 1, by simp at hf; omega⟩
    rw [repeatEach_cons, takeEvery_replicate_append k f hk, ih f (by simp at hf; omega)]

theorem take_tile (m : Nat) (hm : 1 ≤ m) (ys : List α) : (tile m ys).take ys.length = ys := by
  obtain ⟨m', rfl⟩ : ∃ m', m = m' + 1 := ⟨m - 1, by omega⟩
  rw [tile_succ, List.take_left]

/-- the reader's strided slice gives the scale back (all sizes ≥ 1) -/
theorem scale_recovered (dims : List Nat) (ax : Nat) (s : List α) (hax : ax < dims.length)
    (hpos : ∀ n ∈ dims, 1 ≤ n) (hs : s.length = dims.getD ax 0) :
    pySlice (dims.getD ax 0 * prod (dims.drop (ax + 1))) (prod (dims.drop (ax + 1)))
      (axisColumn dims ax s) = s := by
  have _ := hax
  have hinner : 1 ≤ prod (dims.drop (ax + 1)) :=
    prod_pos _ (fun n hn => hpos n (List.mem_of_mem_drop hn))
  have houter : 1 ≤ prod (dims.take ax) :=
    prod_pos _ (fun n hn => hpos n (List.mem_of_mem_take hn))
  have hlen : (repeatEach (prod (dims.drop (ax + 1))) s).length
      = dims.getD ax 0 * prod (dims.drop (ax + 1)) := by rw [repeatEach_length, hs]
  rw [pySlice, axisColumn, ← hlen, take_tile _ houter]
  apply takeEvery_repeatEach _ hinner
  rw [repeatEach_length]
  exact Nat.le_mul_of_pos_right _ hinner

/-! ## well-formed layouts -/

structure WF (d : Layout α) : Prop where
  dims_ne    : d.dims ≠ []
  dims_pos   : ∀ n ∈ d.dims, 1 ≤ n
  ncol_pos   : 1 ≤ d.ncol
  data_len   : d.data.length = prod d.dims * d.ncol
  scales_len : d.scales.length = d.dims.length
  scale_len  : ∀ ax s, d.scales[ax]? = some (some s) → s.length = d.dims.getD ax 0

/-- what a special column of a well-formed layout looks like -/
inductive IsSpecial (ι : Nat → α) (d : Layout α) : ColTag × List α → Prop
  | index (ax : Nat) (hax : ax < d.dims.length) :
      IsSpecial ι d (.index ax, axisColumn d.dims ax ((List.range (d.dims.getD ax 0)).map ι))
  | scale (ax : Nat) (hax : ax < d.dims.length) (s : List α) (hs : d.scales[ax]? = some (some s)) :
      IsSpecial ι d (.scale ax, axisColumn d.dims ax s)

theorem getD_none_eq_some {scales : List (Option (List α))} {ax : Nat} {s : List α}
    (h : scales.getD ax none = some s) : scales[ax]? = some (some s) := by
  rw [List.getD_eq_getElem?_getD] at h
  cases hx : scales[ax]? with
  | none => rw [hx] at h; simp at h
  | some o => rw [hx] at h; simp at h; rw [h]

theorem specialColumns_isSpecial (ι : Nat → α) (d : Layout α) :
    ∀ p ∈ specialColumns ι d, IsSpecial ι d p := by
  intro p hp
  simp only [specialColumns, List.mem_append] at hp
  rcases hp with hp | hp
  · split at hp
    · simp only [List.mem_map, List.mem_range] at hp
      obtain ⟨ax, hax, rfl⟩ := hp
      exact .index ax hax
    · simp at hp
  · simp only [List.mem_filterMap, List.mem_range] at hp
    obtain ⟨ax, hax, h⟩ := hp
    split at h
    · next s hs =>
      simp only [Option.some.injEq] at h
      subst h
      exact .scale ax hax s (getD_none_eq_some hs)
    · simp at h

theorem isSpecial_length {ι : Nat → α} {d : Layout α} (h : WF d) {p : ColTag × List α}
    (hp : IsSpecial ι d p) : p.2.length = prod d.dims := by
  cases hp with
  | index ax hax => exact axisColumn_length _ _ _ hax (by simp)
  | scale ax hax s hs => exact axisColumn_length _ _ _ hax (h.scale_len ax s hs)

theorem specialColumns_length (ι : Nat → α) (d : Layout α) (h : WF d) :
    ∀ c ∈ (specialColumns ι d).map (·.2), c.length = prod d.dims := by
  intro c hc
  simp only [List.mem_map] at hc
  obtain ⟨p, hp, rfl⟩ := hc
  exact isSpecial_length h (specialColumns_isSpecial ι d p hp)

/-! ## rows of the written matrix -/

theorem filterMap_congr' {f g : α → Option β} {l : List α} (h : ∀ x ∈ l, f x = g x) :
    l.filterMap f = l.filterMap g := by
  induction l with
  | nil => rfl
  | cons x xs ih =>
    have hx := h x (by simp)
    have ih' := ih (fun y hy => h y (by simp [hy]))
    simp only [List.filterMap_cons, hx, ih']

/-- the special cells of row `r`, when every column is long enough -/
theorem cells_getElem? (cols : List (List α)) (r : Nat) (hc : ∀ c ∈ cols, r < c.length) (j : Nat) :
    (cols.filterMap (fun c => c[r]?))[j]? = (cols[j]?).bind (fun c => c[r]?) := by
  induction cols generalizing j with
  | nil => simp
  | cons c cs ih =>
    have hrc : r < c.length := hc c (by simp)
    have h0 : c[r]? = some c[r] := List.getElem?_eq_getElem hrc
    rw [List.filterMap_cons_some (f := fun c => c[r]?) (a := c) h0]
    cases j with
    | zero => simp
    | succ j =>
      simp only [List.getElem?_cons_succ]
      exact ih (fun c' hc' => hc c' (by simp [hc'])) j

theorem cells_length (cols : List (List α)) (r : Nat) (hc : ∀ c ∈ cols, r < c.length) :
    (cols.filterMap (fun c => c[r]?)).length = cols.length := by
  induction cols with
  | nil => simp
  | cons c cs ih =>
    have hrc : r < c.length := hc c (by simp)
    have h0 : c[r]? = some c[r] := List.getElem?_eq_getElem hrc
    rw [List.filterMap_cons_some (f := fun c => c[r]?) (a := c) h0, List.length_cons, List.length_cons,
      ih (fun c' hc' => hc c' (by simp [hc']))]

theorem chunks_flatten (l : List α) (c n : Nat) :
    ((List.range n).map (fun r => (l.drop (r * c)).take c)).flatten = l.take (n * c) := by
  induction n with
  | zero => simp
  | succ n ih =>
    rw [List.range_succ, List.map_append, List.flatten_append, ih, Nat.add_mul, Nat.one_mul,
      List.take_add]
    simp

theorem map_congr' {f g : α → β} {l : List α} (h : ∀ x ∈ l, f x = g x) : l.map f = l.map g := by
  induction l with
  | nil => rfl
  | cons x xs ih =>
    simp only [List.map_cons, h x (by simp), ih (fun y hy => h y (by simp [hy]))]

theorem tags_length (ι : Nat → α) (d : Layout α) :
    (writeLayout ι d).tags.length = ((specialColumns ι d).map (·.2)).length := by
  simp [writeLayout]

/-- dropping the special columns of every row and flattening (= reshape) gives the data back -/
theorem reshape_roundtrip (ι : Nat → α) (d : Layout α) (h : WF d) :
    (((writeLayout ι d).rows.map (List.drop (writeLayout ι d).tags.length)).flatten) = d.data := by
  rw [tags_length]
  simp only [writeLayout, List.map_map]
  have hcong : ∀ r ∈ List.range (prod d.dims),
      (List.drop ((specialColumns ι d).map (·.2)).length ∘
          matrixRow ((specialColumns ι d).map (·.2)) d.ncol d.data) r
        = (fun r => (d.data.drop (r * d.ncol)).take d.ncol) r := by
    intro r hr
    have hr' : r < prod d.dims := List.mem_range.mp hr
    have hlen := cells_length ((specialColumns ι d).map (·.2)) r
      (fun c hc => by rw [specialColumns_length ι d h c hc]; exact hr')
    simp only [Function.comp, matrixRow]
    rw [← hlen, List.drop_left]
  rw [map_congr' hcong, chunks_flatten, ← h.data_len, List.take_length]

/-! ## columns of the written matrix -/

theorem filterMap_getElem?_range (l : List α) :
    (List.range l.length).filterMap (fun i => l[i]?) = l := by
  induction l with
  | nil => simp
  | cons x xs ih =>
    rw [List.length_cons, List.range_succ_eq_map, List.filterMap_cons_some (b := x) (by simp),
      List.filterMap_map]
    congr 1

/-- column `j` of the written matrix is the `j`-th special column -/
theorem column_of_written (ι : Nat → α) (d : Layout α) (h : WF d) (j : Nat)
    (hj : j < (specialColumns ι d).length) :
    ((specialColumns ι d).map (·.2))[j]? = some (column (writeLayout ι d).rows j) := by
  have hj' : j < ((specialColumns ι d).map (·.2)).length := by simpa using hj
  have hcj := specialColumns_length ι d h _ (List.getElem_mem hj')
  rw [List.getElem?_eq_getElem hj']
  congr 1
  simp only [column, writeLayout, List.filterMap_map]
  have hcong : ∀ r ∈ List.range (prod d.dims),
      ((fun (row : List α) => row[j]?) ∘
          matrixRow ((specialColumns ι d).map (·.2)) d.ncol d.data) r
        = (fun r => (((specialColumns ι d).map (·.2))[j])[r]?) r := by
    intro r hr
    have hr' : r < prod d.dims := List.mem_range.mp hr
    have hall : ∀ c ∈ (specialColumns ι d).map (·.2), r < c.length :=
      fun c hc => by rw [specialColumns_length ι d h c hc]; exact hr'
    simp only [Function.comp, matrixRow]
    rw [List.getElem?_append_left (by rw [cells_length _ _ hall]; exact hj'),
      cells_getElem? _ _ hall, List.getElem?_eq_getElem hj']
    rfl
  rw [filterMap_congr' hcong, ← hcj, filterMap_getElem?_range]

/-! ## the reader's scan of the special columns -/

/-- the scale list the reader builds from a list of special columns -/
def applyScales (dims : List Nat) :
    List (ColTag × List α) → List (Option (List α)) → List (Option (List α))
  | [], sc => sc
  | (.index _, _) :: rest, sc => applyScales dims rest sc
  | (.scale ax, c) :: rest, sc =>
    applyScales dims rest (sc.set ax (some
      (pySlice (dims.getD ax 0 * prod (dims.drop (ax + 1))) (prod (dims.drop (ax + 1))) c)))

theorem applyScales_append (dims : List Nat) (l₁ l₂ : List (ColTag × List α))
    (sc : List (Option (List α))) :
    applyScales dims (l₁ ++ l₂) sc = applyScales dims l₂ (applyScales dims l₁ sc) := by
  induction l₁ generalizing sc with
  | nil => rfl
  | cons p l ih =>
    obtain ⟨t, c⟩ := p
    cases t with
    | index ax => simp only [List.cons_append, applyScales, ih]
    | scale ax => simp only [List.cons_append, applyScales, ih]

theorem applyScales_index (dims : List Nat) (f : Nat → List α) (l : List Nat)
    (sc : List (Option (List α))) :
    applyScales dims (l.map (fun ax => (ColTag.index ax, f ax))) sc = sc := by
  induction l with
  | nil => rfl
  | cons a l ih => simp only [List.map_cons, applyScales, ih]

theorem readSpecial_ok [DecidableEq α] (ι : Nat → α) (d : Layout α) (h : WF d)
    (suf pre : List (ColTag × List α)) (scales : List (Option (List α)))
    (hsp : specialColumns ι d = pre ++ suf) :
    readSpecial ι d.dims (writeLayout ι d).rows (suf.map (·.1)) pre.length scales
      = .ok (applyScales d.dims suf scales) := by
  induction suf generalizing pre scales with
  | nil => simp [readSpecial, applyScales]
  | cons p suf ih =>
    have hmem : p ∈ specialColumns ι d := by rw [hsp]; simp
    have hj : pre.length < (specialColumns ι d).length := by rw [hsp]; simp
    have hcol : column (writeLayout ι d).rows pre.length = p.2 := by
      have := column_of_written ι d h pre.length hj
      rw [hsp] at this
      simp at this
      exact this.symm
    have hnext := ih (pre ++ [p]) (hsp := by rw [hsp]; simp)
    rw [List.length_append, List.length_singleton] at hnext
    have hspec := specialColumns_isSpecial ι d p hmem
    cases hspec with
    | index ax hax =>
      simp only [List.map_cons, readSpecial, applyScales]
      rw [if_pos hcol]
      exact hnext scales
    | scale ax hax s hs =>
      have hrec := scale_recovered d.dims ax s hax h.dims_pos (h.scale_len ax s hs)
      simp only [List.map_cons, readSpecial, applyScales]
      rw [hcol]
      simp only [hrec, if_true]
      exact hnext _

/-! ## the scale list is rebuilt -/

theorem scales_rebuilt (d : Layout α) (h : WF d) (f : Nat → Option (ColTag × List α))
    (hnone : ∀ ax, d.scales.getD ax none = none → f ax = none)
    (hsome : ∀ ax s, d.scales.getD ax none = some s →
      f ax = some (ColTag.scale ax, axisColumn d.dims ax s))
    (k : Nat) (hk : k ≤ d.dims.length) :
    applyScales d.dims ((List.range k).filterMap f) (List.replicate d.dims.length none)
    = d.scales.take k ++ List.replicate (d.dims.length - k) none := by
  induction k with
  | zero => simp [applyScales]
  | succ k ih =>
    have hk' : k < d.dims.length := hk
    have hks : k < d.scales.length := by rw [h.scales_len]; exact hk'
    rw [List.range_succ, List.filterMap_append, applyScales_append, ih (Nat.le_of_lt hk')]
    have hgd : d.scales.getD k none = d.scales[k] := by
      simp [List.getD, List.getElem?_eq_getElem hks]
    simp only [List.filterMap_cons, List.filterMap_nil]
    cases hsk : d.scales[k] with
    | none =>
      rw [hnone k (by rw [hgd, hsk])]
      simp only [applyScales]
      apply List.ext_getElem?
      intro i
      simp only [List.getElem?_append, List.getElem?_take, List.getElem?_replicate,
        List.length_take]
      have : d.scales[k]? = some none := by rw [List.getElem?_eq_getElem hks, hsk]
      grind
    | some s =>
      have hs : d.scales[k]? = some (some s) := by rw [List.getElem?_eq_getElem hks, hsk]
      have hrec := scale_recovered d.dims k s hk' h.dims_pos (h.scale_len k s hs)
      rw [hsome k s (by rw [hgd, hsk])]
      simp only [applyScales, hrec]
      apply List.ext_getElem?
      intro i
      simp only [List.getElem?_set, List.getElem?_append, List.getElem?_take,
        List.getElem?_replicate, List.length_take, List.length_append, List.length_replicate]
      grind

theorem applyScales_special (ι : Nat → α) (d : Layout α) (h : WF d) :
    applyScales d.dims (specialColumns ι d) (List.replicate d.dims.length none) = d.scales := by
  simp only [specialColumns]
  rw [applyScales_append]
  have hidx : ∀ sc, applyScales d.dims
      (if d.dims.length ≥ 2 then
        (List.range d.dims.length).map (fun ax =>
          (ColTag.index ax, axisColumn d.dims ax ((List.range (d.dims.getD ax 0)).map ι)))
       else []) sc = sc := by
    intro sc
    split
    · exact applyScales_index d.dims _ _ sc
    · rfl
  rw [hidx, scales_rebuilt d h _ (fun ax hn => by simp only [hn])
    (fun ax s hs => by simp only [hs]) d.dims.length (Nat.le_refl _), Nat.sub_self,
    ← h.scales_len, List.take_length]
  simp

/-! ## the full round trip -/

theorem head_length (ι : Nat → α) (d : Layout α) (h : WF d) :
    ((writeLayout ι d).rows.headD []).length = (writeLayout ι d).tags.length + d.ncol := by
  have hpos : 1 ≤ prod d.dims := prod_pos _ h.dims_pos
  obtain ⟨n, hn⟩ : ∃ n, prod d.dims = n + 1 := ⟨prod d.dims - 1, by omega⟩
  have hall : ∀ c ∈ (specialColumns ι d).map (·.2), 0 < c.length :=
    fun c hc => by rw [specialColumns_length ι d h c hc]; exact hpos
  have hd : d.ncol ≤ d.data.length := by
    rw [h.data_len, hn, Nat.add_mul, Nat.one_mul]; omega
  rw [tags_length]
  simp only [writeLayout, hn, List.range_succ_eq_map, List.map_cons, List.headD_cons, matrixRow,
    List.length_append, cells_length _ _ hall, Nat.zero_mul, List.drop_zero, List.length_take]
  omega

/-- the full reader inverts the writer -/
theorem layout_roundtrip [DecidableEq α] (ι : Nat → α) (d : Layout α) (h : WF d) :
    readLayout ι d.dims d.ncol (writeLayout ι d) = .ok d := by
  have hrows : (writeLayout ι d).rows.length = prod d.dims := by simp [writeLayout]
  have hhead := head_length ι d h
  have hsp := readSpecial_ok ι d h (specialColumns ι d) [] (List.replicate d.dims.length none)
    (by simp)
  have htags : (writeLayout ι d).tags = (specialColumns ι d).map (·.1) := rfl
  rw [List.length_nil, ← htags, applyScales_special ι d h] at hsp
  have hdata := reshape_roundtrip ι d h
  unfold readLayout
  rw [if_neg (by simp [hrows])]
  simp only [hhead]
  rw [if_neg (by omega)]
  simp only [Nat.add_sub_cancel, List.take_length, hsp, hdata]

/-- `column_of_written` in the `[j]!` form -/
theorem column_of_written' (ι : Nat → α) (d : Layout α) (h : WF d) (j : Nat)
    (hj : j < (specialColumns ι d).length) :
    column (writeLayout ι d).rows j = ((specialColumns ι d).map (·.2))[j]! := by
  rw [getElem!_def, column_of_written ι d h j hj]

/-! ## non-vacuity -/

deriving instance DecidableEq for Layout

/-- a 3-D example: shape (2, 3, 2), a scale on axis 0 only -/
def exLayout : Layout Nat :=
  { dims := [2, 3], ncol := 2, data := List.range 12, scales := [some [7, 8], none] }

theorem exLayout_wf : WF exLayout where
  dims_ne := by decide
  dims_pos := by decide
  ncol_pos := by decide
  data_len := by decide
  scales_len := by decide
  scale_len := by
    intro ax s hs
    match ax with
    | 0 => simp [exLayout] at hs; subst hs; rfl
    | 1 => simp [exLayout] at hs
    | ax + 2 => simp [exLayout] at hs

example : (writeLayout id exLayout).tags = [.index 0, .index 1, .scale 0] := by decide

example : (writeLayout id exLayout).rows =
    [[0, 0, 7, 0, 1], [0, 1, 7, 2, 3], [0, 2, 7, 4, 5],
     [1, 0, 8, 6, 7], [1, 1, 8, 8, 9], [1, 2, 8, 10, 11]] := by decide

example : readLayout id [2, 3] 2 (writeLayout id exLayout)
    = .ok { dims := [2, 3], ncol := 2, data := List.range 12, scales := [some [7, 8], none] } := by
  decide

/-- the general theorem instantiated at the example -/
example : readLayout id exLayout.dims exLayout.ncol (writeLayout id exLayout) = .ok exLayout :=
  layout_roundtrip id exLayout exLayout_wf

/-- a corrupted scale column is rejected (the reader's check is not vacuous) -/
example : readLayout id [2, 3] 2
    { tags := [.index 0, .index 1, .scale 0],
      rows := [[0, 0, 7, 0, 1], [0, 1, 7, 2, 3], [0, 2, 9, 4, 5],
               [1, 0, 8, 6, 7], [1, 1, 8, 8, 9], [1, 2, 8, 10, 11]] }
    = .error (.scale 0) := by decide

/-- 2-D data (one outer axis): no index columns -/
example : readLayout id [3] 2
      (writeLayout id { dims := [3], ncol := 2, data := List.range 6, scales := [some [4, 5, 6]] })
    = .ok { dims := [3], ncol := 2, data := List.range 6, scales := [some [4, 5, 6]] } := by
  decide

end QmiModel.C17.LayoutL
