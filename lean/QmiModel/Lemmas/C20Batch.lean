import QmiModel.Lemmas.C20Ranges
/-! Lemmas about the two-phase batch accessors of `AdwinProcess` (set side). Core Lean only. -/
namespace QmiModel.Adbasic

/-! ### pending array elements: `params_data[d][e]` -/

def pendGet {γ : Type} (pd : Dict Nat (Dict Nat γ)) (d e : Nat) : Option γ :=
  match dictGet pd d with
  | none => none
  | some m => dictGet m e

theorem pendGet_pdataSet {γ : Type} (pd : Dict Nat (Dict Nat γ)) (d e d' e' : Nat) (x : γ) :
    pendGet (pdataSet pd d e x) d' e' = if d = d' ∧ e = e' then some x else pendGet pd d' e' := by
  unfold pdataSet pendGet
  cases hd : dictGet pd d with
  | none =>
    simp only [dictGet_dictSet]
    by_cases h : d = d'
    · subst h
      simp only [if_true, hd, true_and]
      simp [dictGet]
    · simp [h]
  | some m =>
    simp only [dictGet_dictSet]
    by_cases h : d = d'
    · subst h
      simp only [if_true, hd, true_and, dictGet_dictSet]
    · simp [h]

theorem pendGet_some_key {γ : Type} (pd : Dict Nat (Dict Nat γ)) (d e : Nat) (x : γ)
    (h : pendGet pd d e = some x) : ∃ m, dictGet pd d = some m ∧ dictGet m e = some x := by
  unfold pendGet at h
  cases hd : dictGet pd d with
  | none => rw [hd] at h; simp at h
  | some m => rw [hd] at h; exact ⟨m, rfl, h⟩

/-- the data registers with the pending writes laid over them -/
def overlay (data : Nat → Nat → Val) (pd : Dict Nat (Dict Nat Val)) : Nat → Nat → Val :=
  fun d e => match pendGet pd d e with
    | some v => v
    | none => data d e

/-! ### `collectValues` and one `set_data` call per range -/

theorem collectValues_ok (elems : Dict Nat Val) (s c : Nat)
    (h : ∀ i, s ≤ i → i < s + c → (dictGet elems i).isSome) :
    ∃ vs, collectValues elems s c = .ok vs ∧ vs.length = c ∧
      ∀ k, k < c → ∀ dflt, dictGet elems (s + k) = some (vs.getD k dflt) := by
  induction c generalizing s with
  | zero => exact ⟨[], by simp [collectValues], rfl, fun k hk => absurd hk (by omega)⟩
  | succ c ih =>
    have h0 := h s (Nat.le_refl _) (by omega)
    cases hv : dictGet elems s with
    | none => rw [hv] at h0; simp at h0
    | some v =>
      obtain ⟨vs, h1, h2, h3⟩ := ih (s + 1) (fun i hi1 hi2 => h i (by omega) (by omega))
      refine ⟨v :: vs, ?_, by simp [h2], ?_⟩
      · simp [collectValues, hv, h1]
      · intro k hk dflt
        cases k with
        | zero => simpa using hv
        | succ k =>
          have := h3 k (by omega) dflt
          simp only [List.getD_cons_succ]
          rw [← this]
          congr 1
          omega

/-- registers of a device, ignoring the access log -/
structure SameRegs (a b : Dev) : Prop where
  par : a.par = b.par
  fpar : a.fpar = b.fpar
  data : a.data = b.data

theorem setRanges_spec (d : Nat) (elems : Dict Nat Val) (rs : List (Nat × Nat)) (dv : Dev)
    (hrs : ∀ r ∈ rs, r.1 ≤ r.2 ∧ ∀ i, r.1 ≤ i → i ≤ r.2 → (dictGet elems i).isSome) :
    ∃ dv', setRanges d elems rs dv = .ok dv' ∧ dv'.par = dv.par ∧ dv'.fpar = dv.fpar ∧
      (∀ d' e', d' = d → covered rs e' → dictGet elems e' = some (dv'.data d' e')) ∧
      (∀ d' e', ¬ (d' = d ∧ covered rs e') → dv'.data d' e' = dv.data d' e') := by
  induction rs generalizing dv with
  | nil =>
    refine ⟨dv, by simp [setRanges], rfl, rfl, ?_, fun _ _ _ => rfl⟩
    intro d' e' _ hc
    obtain ⟨r, hr, _⟩ := hc
    simp at hr
  | cons r rs ih =>
    obtain ⟨s, e⟩ := r
    have hr := hrs (s, e) (List.mem_cons_self)
    obtain ⟨vs, v1, v2, v3⟩ := collectValues_ok elems s (e + 1 - s)
      (fun i hi1 hi2 => hr.2 i hi1 (by simp only at hr; omega))
    obtain ⟨dv', i1, i2, i3, i4, i5⟩ := ih (dv.doSetData d s vs) (fun r hr' => hrs r (List.mem_cons_of_mem _ hr'))
    refine ⟨dv', by simp [setRanges, v1, i1], by rw [i2]; rfl, by rw [i3]; rfl, ?_, ?_⟩
    · intro d' e' hd hc
      obtain ⟨r, hr', hr1, hr2⟩ := hc
      by_cases hcr : covered rs e'
      · exact i4 d' e' hd hcr
      · rcases List.mem_cons.1 hr' with rfl | hr'
        · rw [i5 d' e' (fun h => hcr h.2)]
          simp only [Dev.doSetData] at hr1 hr2 ⊢
          have hin : d' = d ∧ s ≤ e' ∧ e' < s + vs.length := ⟨hd, hr1, by omega⟩
          rw [if_pos hin]
          have := v3 (e' - s) (by omega) (dv.data d' e')
          rw [← this]
          congr 1
          omega
        · exact absurd ⟨r, hr', hr1, hr2⟩ hcr
    · intro d' e' hn
      have hn1 : ¬ (d' = d ∧ covered rs e') := by
        intro ⟨h1, r, hr', h2⟩
        exact hn ⟨h1, r, List.mem_cons_of_mem _ hr', h2⟩
      rw [i5 d' e' hn1]
      simp only [Dev.doSetData]
      have : ¬ (d' = d ∧ s ≤ e' ∧ e' < s + vs.length) := by
        intro ⟨h1, h2, h3⟩
        exact hn ⟨h1, (s, e), List.mem_cons_self, h2, by simp only; omega⟩
      rw [if_neg this]

/-- the ranges computed from the keys of a dict lie inside the keys and cover them -/
theorem findRanges_keys {γ : Type} (elems : Dict Nat γ) :
    (∀ r ∈ findRanges (dictKeys elems), r.1 ≤ r.2 ∧ ∀ i, r.1 ≤ i → i ≤ r.2 → (dictGet elems i).isSome) ∧
    (∀ i, covered (findRanges (dictKeys elems)) i ↔ (dictGet elems i).isSome) := by
  have hs := sorted_sortNat (dictKeys elems)
  have hm := fun a => mem_sortNat a (dictKeys elems)
  have key : ∀ i, covered (findRanges (dictKeys elems)) i ↔ i ∈ dictKeys elems := by
    intro i
    rw [findRanges_eq]
    cases hl : sortNat (dictKeys elems) with
    | nil =>
      rw [hl] at hm
      have := hm i
      simp only [List.not_mem_nil, false_iff] at this
      simp [covered, this]
    | cons x xs =>
      rw [hl] at hs hm
      have hp := List.pairwise_cons.1 hs
      simp only
      rw [covered_rangesAux x x xs (Nat.le_refl _) hp.1 hp.2 i, ← hm i]
      simp only [List.mem_cons]
      constructor
      · rintro (h | h)
        · exact Or.inl (by omega)
        · exact Or.inr h
      · rintro (h | h)
        · exact Or.inl ⟨by omega, by omega⟩
        · exact Or.inr h
  have bounds : ∀ r ∈ findRanges (dictKeys elems), r.1 ≤ r.2 := by
    rw [findRanges_eq]
    cases hl : sortNat (dictKeys elems) with
    | nil => simp
    | cons x xs =>
      rw [hl] at hs
      have hp := List.pairwise_cons.1 hs
      intro r hr
      exact (rangesAux_bounds x x xs (Nat.le_refl _) hp.1 hp.2 r hr).2
  refine ⟨?_, fun i => by rw [key i, dictGet_isSome_iff]⟩
  intro r hr
  refine ⟨bounds r hr, ?_⟩
  intro i h1 h2
  rw [dictGet_isSome_iff, ← key i]
  exact ⟨r, hr, h1, h2⟩

theorem setArrays_spec (pd : Dict Nat (Dict Nat Val)) (ds : List Nat) (dv : Dev)
    (hds : ∀ d ∈ ds, (dictGet pd d).isSome) :
    ∃ dv', setArrays pd ds dv = .ok dv' ∧ dv'.par = dv.par ∧ dv'.fpar = dv.fpar ∧
      (∀ d e v, d ∈ ds → pendGet pd d e = some v → dv'.data d e = v) ∧
      (∀ d e, (d ∉ ds ∨ pendGet pd d e = none) → dv'.data d e = dv.data d e) := by
  induction ds generalizing dv with
  | nil =>
    refine ⟨dv, by simp [setArrays], rfl, rfl, ?_, fun _ _ _ => rfl⟩
    intro d e v hd; simp at hd
  | cons d0 ds ih =>
    have h0 := hds d0 (List.mem_cons_self)
    cases hm : dictGet pd d0 with
    | none => rw [hm] at h0; simp at h0
    | some elems =>
      obtain ⟨fr1, fr2⟩ := findRanges_keys elems
      obtain ⟨dv1, r1, r2, r3, r4, r5⟩ := setRanges_spec d0 elems (findRanges (dictKeys elems)) dv fr1
      obtain ⟨dv', i1, i2, i3, i4, i5⟩ := ih dv1 (fun d hd => hds d (List.mem_cons_of_mem _ hd))
      refine ⟨dv', by simp [setArrays, hm, r1, i1], by rw [i2, r2], by rw [i3, r3], ?_, ?_⟩
      · intro d e v hd hp
        by_cases hin : d ∈ ds
        · exact i4 d e v hin hp
        · rcases List.mem_cons.1 hd with rfl | hd
          · rw [i5 d e (Or.inl hin)]
            have hpe : dictGet elems e = some v := by
              unfold pendGet at hp; rw [hm] at hp; exact hp
            have hc : covered (findRanges (dictKeys elems)) e := (fr2 e).2 (by rw [hpe]; rfl)
            have := r4 d e rfl hc
            rw [hpe] at this
            exact (Option.some.inj this).symm
          · exact absurd hd hin
      · intro d e hcase
        have h1 : d ∉ ds ∨ pendGet pd d e = none := by
          rcases hcase with h | h
          · exact Or.inl (fun hh => h (List.mem_cons_of_mem _ hh))
          · exact Or.inr h
        rw [i5 d e h1]
        apply r5
        intro ⟨hd, hc⟩
        subst hd
        have hsome := (fr2 e).1 hc
        rcases hcase with h | h
        · exact h (List.mem_cons_self)
        · unfold pendGet at h; rw [hm] at h; simp only at h; rw [h] at hsome; simp at hsome

/-! ### phase 1 of `set_par_multiple` against the one-at-a-time fold -/

theorem lookup_doSetData_single (dv : Dev) (d e : Nat) (v : Val) (d' e' : Nat) :
    (dv.doSetData d e [v]).data d' e' = if d = d' ∧ e = e' then v else dv.data d' e' := by
  simp only [Dev.doSetData, List.length_cons, List.length_nil]
  by_cases h : d = d' ∧ e = e'
  · obtain ⟨rfl, rfl⟩ := h
    simp
  · rw [if_neg h]
    by_cases h2 : d' = d ∧ e ≤ e' ∧ e' < e + (0 + 1)
    · exfalso; apply h; exact ⟨h2.1.symm, by omega⟩
    · rw [if_neg h2]

theorem setPhase1_vs_fold (b : Dict Str Desc) (params : List (Str × Val)) (st : SState) (dvF : Dev)
    (hp : st.dev.par = dvF.par) (hf : st.dev.fpar = dvF.fpar) (hd : dvF.data = overlay st.dev.data st.pdata) :
    (∀ dvF', setFold b params dvF = ⟨dvF', .ok ()⟩ →
      ∃ st', setPhase1 b params st = .ok st' ∧ st'.dev.par = dvF'.par ∧ st'.dev.fpar = dvF'.fpar ∧
        dvF'.data = overlay st'.dev.data st'.pdata ∧ st'.dev.data = st.dev.data) ∧
    (∀ dvF' x, setFold b params dvF = ⟨dvF', .error x⟩ →
      ∃ dv', setPhase1 b params st = .error (dv', x) ∧ dv'.par = dvF'.par ∧ dv'.fpar = dvF'.fpar ∧
        dv'.data = st.dev.data) := by
  induction params generalizing st dvF with
  | nil =>
    constructor
    · intro dvF' h
      simp only [setFold] at h
      injection h with h1 h2
      subst h1
      exact ⟨st, rfl, hp, hf, hd, rfl⟩
    · intro dvF' x h
      simp [setFold] at h
  | cons nv ps ih =>
    obtain ⟨n, v⟩ := nv
    cases hl : lookupCI b n with
    | none =>
      constructor
      · intro dvF' h
        simp [setFold, setPar, hl] at h
      · intro dvF' x h
        simp only [setFold, setPar, hl] at h
        injection h with h1 h2
        injection h2 with h2
        subst h1; subst h2
        exact ⟨st.dev, by simp [setPhase1, hl], hp, hf, rfl⟩
    | some desc =>
      cases desc with
      | par i =>
        cases v with
        | flt x =>
          constructor
          · intro dvF' h
            simp [setFold, setPar, hl] at h
          · intro dvF' y h
            simp only [setFold, setPar, hl] at h
            injection h with h1 h2
            injection h2 with h2
            subst h1; subst h2
            exact ⟨st.dev, by simp [setPhase1, hl], hp, hf, rfl⟩
        | int x =>
          have hstep : setFold b ((n, Val.int x) :: ps) dvF = setFold b ps (dvF.doSetPar i (.int x)) := by
            simp [setFold, setPar, hl]
          have hph : setPhase1 b ((n, Val.int x) :: ps) st
              = setPhase1 b ps { st with dev := st.dev.doSetPar i (.int x) } := by
            simp [setPhase1, hl]
          rw [hstep, hph]
          have := ih { st with dev := st.dev.doSetPar i (.int x) } (dvF.doSetPar i (.int x))
            (by simp [Dev.doSetPar, hp]) (by simp [Dev.doSetPar, hf]) (by simpa [Dev.doSetPar] using hd)
          exact this
      | fpar i =>
        have hstep : setFold b ((n, v) :: ps) dvF = setFold b ps (dvF.doSetFPar i v) := by
          simp [setFold, setPar, hl]
        have hph : setPhase1 b ((n, v) :: ps) st = setPhase1 b ps { st with dev := st.dev.doSetFPar i v } := by
          simp [setPhase1, hl]
        rw [hstep, hph]
        exact ih { st with dev := st.dev.doSetFPar i v } (dvF.doSetFPar i v)
          (by simp [Dev.doSetFPar, hp]) (by simp [Dev.doSetFPar, hf]) (by simpa [Dev.doSetFPar] using hd)
      | elem d e =>
        have hstep : setFold b ((n, v) :: ps) dvF = setFold b ps (dvF.doSetData d e [v]) := by
          simp [setFold, setPar, hl]
        have hph : setPhase1 b ((n, v) :: ps) st = setPhase1 b ps { st with pdata := pdataSet st.pdata d e v } := by
          simp [setPhase1, hl]
        rw [hstep, hph]
        have hd' : (dvF.doSetData d e [v]).data = overlay st.dev.data (pdataSet st.pdata d e v) := by
          funext d' e'
          rw [lookup_doSetData_single]
          simp only [overlay, pendGet_pdataSet]
          by_cases h : d = d' ∧ e = e'
          · simp [h]
          · simp only [h, if_false]
            rw [hd]
            rfl
        exact ih { st with pdata := pdataSet st.pdata d e v } (dvF.doSetData d e [v])
          (by simp [Dev.doSetData, hp]) (by simp [Dev.doSetData, hf]) hd'

end QmiModel.Adbasic
