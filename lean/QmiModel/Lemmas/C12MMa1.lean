import QmiModel.Lemmas.C12MM
namespace QmiModel.Context
/-- kernel-checked: first maker `rpc` (constructor raises: true) against every second maker under all 512 schedules -/
theorem mmTable_rpc_true : mmTable (mmMk .rpc true) = true := by decide +kernel
end QmiModel.Context
