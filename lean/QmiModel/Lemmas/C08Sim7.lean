import QmiModel.Lemmas.C08Sim6
/-! C08, simulation layer — the actions other than micro steps. -/
set_option linter.unusedSimpArgs false
namespace QmiModel.PubSub
open Proto

/-- a step that changes the programs of threads only, in a way the abstraction does not see; contexts and connections
are as before -/
theorem sim_progs_only {s s' : State} {cn : ConnId} {ob : Obj} {sg : Sg} {x : AS}
    (hctx : s'.ctx = s.ctx) (hconn : s'.conn = s.conn)
    (hpsp : ∀ id, hdlTok (.alias cn) id (s'.prog (.sock (srvOf s cn))) = hdlTok (.alias cn) id (s.prog (.sock (srvOf s cn))))
    (hsr : MOp.sigRemoved (keyOf s cn ob sg) ∈ s'.prog (.sock (cliOf s cn)) ↔ MOp.sigRemoved (keyOf s cn ob sg) ∈ s.prog (.sock (cliOf s cn)))
    (hwp : (MOp.peerRemoved (.name (srvOf s cn)) ∈ s'.prog (.sock (cliOf s cn)) ∧ MOp.popPeer (.name (srvOf s cn)) ∉ s'.prog (.sock (cliOf s cn))) ↔
      (MOp.peerRemoved (.name (srvOf s cn)) ∈ s.prog (.sock (cliOf s cn)) ∧ MOp.popPeer (.name (srvOf s cn)) ∉ s.prog (.sock (cliOf s cn))))
    (hhr : ∀ id, MOp.handleReply id true ∈ s'.prog (.sock (cliOf s cn)) ↔ MOp.handleReply id true ∈ s.prog (.sock (cliOf s cn)))
    (hrm : ∀ th : Th, th.ctx = srvOf s cn → remPhase cn ob sg (s'.prog th) = remPhase cn ob sg (s.prog th))
    (hfl : ∀ id (th : Th), th.ctx = cliOf s cn → (MOp.handleReply id false ∈ s'.prog th ↔ MOp.handleReply id false ∈ s.prog th))
    (h : Sim s cn ob sg x) : Sim s' cn ob sg x := by
  have hc : cliOf s' cn = cliOf s cn := by simp only [cliOf, hconn]
  have hp : srvOf s' cn = srvOf s cn := by simp only [srvOf, hconn]
  refine sim_stutter hp ?_ hrm ?_ h
  · simp only [viewOf, keyOf, hc, hp, hctx, hconn]
    exact ⟨Iff.rfl, Iff.rfl, rfl, rfl, fun id _ => hpsp id, rfl, hsr, hwp, fun id _ => hhr id⟩
  · intro id _
    exact failCar_congr hc (hfl id) (fun n => by rw [hconn]) (fun n _ _ => by rw [hconn])

/-- a program that the abstraction does not see when it is started in an idle thread -/
structure Invisible (cn : ConnId) (ob : Obj) (sg : Sg) (k : Key) (pr : List MOp) : Prop where
  hdl : ∀ id, hdlTok (.alias cn) id pr = none
  rem : remPhase cn ob sg pr = .none
  sr : MOp.sigRemoved k ∉ pr
  wp : ¬(MOp.peerRemoved k.pc ∈ pr ∧ MOp.popPeer k.pc ∉ pr)
  hr : ∀ id, MOp.handleReply id true ∉ pr

/-- the general stutter lemma for actions other than micro steps: a program may be started in an idle thread `th0`, as
long as the abstraction does not see it; the tables the abstraction reads and the content of the channel are as before -/
theorem sim_nm {s s' : State} {cn : ConnId} {ob : Obj} {sg : Sg} {x : AS} (th0 : Th) (pr : List MOp)
    (hc : cliOf s' cn = cliOf s cn) (hp : srvOf s' cn = srvOf s cn)
    (hp0 : ∀ th, (th = th0 ∧ s'.prog th = pr ∧ s.prog th = []) ∨ s'.prog th = s.prog th)
    (hdl : th0 = .sock (srvOf s cn) → ∀ id, curOf (s.ctx (cliOf s cn)) (keyOf s cn ob sg) = some id → hdlTok (.alias cn) id pr = none)
    (hrem : th0.ctx = srvOf s cn → remPhase cn ob sg pr = .none)
    (hsr : th0 = .sock (cliOf s cn) → MOp.sigRemoved (keyOf s cn ob sg) ∉ pr)
    (hwp : th0 = .sock (cliOf s cn) → ¬(MOp.peerRemoved (.name (srvOf s cn)) ∈ pr ∧ MOp.popPeer (.name (srvOf s cn)) ∉ pr))
    (hhr : th0 = .sock (cliOf s cn) → ∀ id, curOf (s.ctx (cliOf s cn)) (keyOf s cn ob sg) = some id → MOp.handleReply id true ∉ pr)
    (hls : (s'.ctx (cliOf s cn)).lsubs = (s.ctx (cliOf s cn)).lsubs)
    (hbk : (s'.ctx (cliOf s cn)).byKey = (s.ctx (cliOf s cn)).byKey)
    (hpj : (s'.ctx (cliOf s cn)).pobj = (s.ctx (cliOf s cn)).pobj)
    (hrs : (s'.ctx (srvOf s cn)).rsubs = (s.ctx (srvOf s cn)).rsubs)
    (hob : (s'.ctx (srvOf s cn)).objs = (s.ctx (srvOf s cn)).objs)
    (hchan : ∀ cur, cur = curOf (s.ctx (cliOf s cn)) (keyOf s cn ob sg) →
      ((s'.conn cn).half true).inbox.filterMap (relev ob sg cur) ++ (s'.ctx (srvOf s cn)).loopQ.filterMap (relevCb cn ob sg cur) =
      ((s.conn cn).half true).inbox.filterMap (relev ob sg cur) ++ (s.ctx (srvOf s cn)).loopQ.filterMap (relevCb cn ob sg cur))
    (hfail : ∀ id, curOf (s.ctx (cliOf s cn)) (keyOf s cn ob sg) = some id → (FailCar s' cn id ↔ FailCar s cn id))
    (h : Sim s cn ob sg x) : Sim s' cn ob sg x := by
  refine sim_stutter hp ?_ ?_ hfail h
  · simp only [viewOf, keyOf, hc, hp, hls, hrs, hob, poOf, hbk, hpj]
    refine ⟨Iff.rfl, Iff.rfl, rfl, rfl, ?_, ?_, ?_, ?_, ?_⟩
    · intro id hid
      rcases hp0 (.sock (srvOf s cn)) with ⟨e0, e1, e2⟩ | e
      · simp only [e1, e2, hdl e0.symm id (by simpa only [curOf, poOf, keyOf] using hid)]; rfl
      · simp only [e]
    · exact hchan _ rfl
    · rcases hp0 (.sock (cliOf s cn)) with ⟨e0, e1, e2⟩ | e
      · simp only [e1, e2]; exact ⟨fun h => absurd h (hsr e0.symm), fun h => by simp at h⟩
      · simp only [e]
    · rcases hp0 (.sock (cliOf s cn)) with ⟨e0, e1, e2⟩ | e
      · simp only [e1, e2]; exact ⟨fun h => absurd h (hwp e0.symm), fun h => by simp at h⟩
      · simp only [e]
    · intro id hid
      rcases hp0 (.sock (cliOf s cn)) with ⟨e0, e1, e2⟩ | e
      · simp only [e1, e2]
        refine ⟨fun h => absurd h (hhr e0.symm id ?_), fun h => by simp at h⟩
        simpa only [curOf, poOf, keyOf] using hid
      · simp only [e]
  · intro th hth
    rcases hp0 th with ⟨e0, e1, e2⟩ | e
    · rw [e1, e2, hrem (e0 ▸ hth)]; rfl
    · rw [e]

/-- starting a program in an idle thread, contexts and connections unchanged -/
theorem sim_start_idle {s s' : State} {cn : ConnId} {ob : Obj} {sg : Sg} {x : AS} (th0 : Th) (pr : List MOp)
    (hidle : s.prog th0 = []) (hprog : ∀ th, s'.prog th = if th = th0 then pr else s.prog th)
    (hctx : s'.ctx = s.ctx) (hconn : s'.conn = s.conn) (hinv : Invisible cn ob sg (keyOf s cn ob sg) pr)
    (hnf : ∀ id, MOp.handleReply id false ∉ pr)
    (h : Sim s cn ob sg x) : Sim s' cn ob sg x := by
  have hp0 : ∀ th, (th = th0 ∧ s'.prog th = pr ∧ s.prog th = []) ∨ s'.prog th = s.prog th := by
    intro th; rw [hprog]
    by_cases e : th = th0
    · subst e; left; simp [hidle]
    · right; simp [e]
  have hc : cliOf s' cn = cliOf s cn := by simp only [cliOf, hconn]
  refine sim_nm th0 pr hc (by simp only [srvOf, hconn]) hp0 (fun _ id _ => hinv.hdl id) (fun _ => hinv.rem) (fun _ => hinv.sr)
    (fun _ => hinv.wp) (fun _ id _ => hinv.hr id) (by rw [hctx]) (by rw [hctx]) (by rw [hctx]) (by rw [hctx])
    (by rw [hctx]) (fun _ _ => by rw [hctx, hconn]) ?_ h
  intro id _
  refine failCar_congr hc ?_ (fun n => by rw [hconn]) (fun n _ _ => by rw [hconn])
  intro th _
  rcases hp0 th with ⟨-, e1, e2⟩ | e
  · rw [e1, e2]; exact ⟨fun h => absurd h (hnf id), fun h => by simp at h⟩
  · rw [e]

theorem invisible_beginProg (cn : ConnId) (ob : Obj) (sg : Sg) (k : Key) (c : Ctx) (t : Tid) (n : Nat) (o : Op) :
    Invisible cn ob sg k (beginProg c t n o) := by
  cases o <;> simp only [beginProg] <;> (try split) <;>
    exact ⟨fun _ => rfl, rfl, by simp, by simp, by simp⟩

theorem invisible_onSendFail_false (cn : ConnId) (ob : Obj) (sg : Sg) (k : Key) (m : Msg) :
    (∀ id, hdlTok (.alias cn) id (onSendFail m) = none) ∧ remPhase cn ob sg (onSendFail m) = .none ∧
    MOp.sigRemoved k ∉ onSendFail m ∧ ¬(MOp.peerRemoved k.pc ∈ onSendFail m ∧ MOp.popPeer k.pc ∉ onSendFail m) ∧
    (∀ id, MOp.handleReply id true ∉ onSendFail m) := by
  cases m <;> simp [onSendFail, hdlTok, remPhase]


/-- a step that leaves the programs and everything the abstraction reads from the two contexts and the connection alone -/
theorem sim_same_obs {s s' : State} {cn : ConnId} {ob : Obj} {sg : Sg} {x : AS}
    (hc : cliOf s' cn = cliOf s cn) (hp : srvOf s' cn = srvOf s cn) (hprog : s'.prog = s.prog)
    (hls : (s'.ctx (cliOf s cn)).lsubs = (s.ctx (cliOf s cn)).lsubs)
    (hbk : (s'.ctx (cliOf s cn)).byKey = (s.ctx (cliOf s cn)).byKey)
    (hpj : (s'.ctx (cliOf s cn)).pobj = (s.ctx (cliOf s cn)).pobj)
    (hrs : (s'.ctx (srvOf s cn)).rsubs = (s.ctx (srvOf s cn)).rsubs)
    (hob : (s'.ctx (srvOf s cn)).objs = (s.ctx (srvOf s cn)).objs)
    (hlq : (s'.ctx (srvOf s cn)).loopQ = (s.ctx (srvOf s cn)).loopQ)
    (hib : ((s'.conn cn).half true).inbox = ((s.conn cn).half true).inbox)
    (hfail : ∀ id, FailCar s' cn id ↔ FailCar s cn id)
    (h : Sim s cn ob sg x) : Sim s' cn ob sg x := by
  refine sim_stutter hp ?_ (fun th _ => by rw [hprog]) (fun id _ => hfail id) h
  simp only [viewOf, keyOf, hc, hp, hprog, hls, hrs, hob, hlq, hib, poOf, hbk, hpj]
  exact VEq.rfl' _ _ _

theorem invisible_teardown (cn : ConnId) (ob : Obj) (sg : Sg) (k : Key) (n : Peer) (cn' : ConnId) (b : Bool) (r : List MOp)
    (hr : ∀ op ∈ r, ∃ t ok, op = .finish t ok) :
    Invisible cn ob sg k (.popPeer n :: .peerRemoved n :: .closeConn cn' b :: r) := by
  refine ⟨fun _ => rfl, rfl, ?_, ?_, ?_⟩
  · intro hm
    simp only [List.mem_cons, reduceCtorEq, false_or] at hm
    obtain ⟨_, _, e⟩ := hr _ hm; cases e
  · rintro ⟨h1, h2⟩
    simp only [List.mem_cons, reduceCtorEq, MOp.peerRemoved.injEq, false_or] at h1
    rcases h1 with h1 | h1
    · subst h1; exact h2 List.mem_cons_self
    · obtain ⟨_, _, e⟩ := hr _ h1; cases e
  · intro id hm
    simp only [List.mem_cons, reduceCtorEq, false_or] at hm
    obtain ⟨_, _, e⟩ := hr _ hm; cases e


/-- an action of a third context -/
theorem sim_nm_foreign {s s' : State} {cn : ConnId} {ob : Obj} {sg : Sg} {x : AS}
    (hctxA : s'.ctx (cliOf s cn) = s.ctx (cliOf s cn)) (hctxP : s'.ctx (srvOf s cn) = s.ctx (srvOf s cn))
    (hprogs : ∀ th : Th, th.ctx = cliOf s cn ∨ th.ctx = srvOf s cn → s'.prog th = s.prog th)
    (hcn : s'.conn cn = s.conn cn) (hown : ∀ n, ((s'.conn n).half true).owner = ((s.conn n).half true).owner)
    (hpend : ∀ n, ((s.conn n).half true).owner = cliOf s cn → ((s'.conn n).half true).pend = ((s.conn n).half true).pend)
    (h : Sim s cn ob sg x) : Sim s' cn ob sg x := by
  have hc : cliOf s' cn = cliOf s cn := by simp only [cliOf, hcn]
  have hp : srvOf s' cn = srvOf s cn := by simp only [srvOf, hcn]
  refine sim_stutter hp ?_ (fun th hth => by rw [hprogs th (Or.inr hth)]) ?_ h
  · simp only [viewOf, keyOf, hc, hp, hctxA, hctxP, hcn, hprogs (.sock (cliOf s cn)) (Or.inl rfl),
      hprogs (.sock (srvOf s cn)) (Or.inr rfl)]
    exact VEq.rfl' _ _ _
  · intro id _
    exact failCar_congr hc (fun th hth => by rw [hprogs th (Or.inl hth)]) hown (fun n _ ho => by rw [hpend n ho])


/-- the socket thread of context `c` takes a callback from its event-loop queue and starts `pr`; connections unchanged -/
theorem sim_cb_plain {s : State} {cn : ConnId} {ob : Obj} {sg : Sg} {x : AS} (hr : Reach s) (hl : Live s cn)
    {c : Ctx} {cb : Cb} {q : List Cb} {pr : List MOp}
    (hidle : s.prog (.sock c) = []) (hq : (s.ctx c).loopQ = cb :: q)
    (hP : c = srvOf s cn → (∀ cur, relevCb cn ob sg cur cb = none) ∧ (∀ id, hdlTok (.alias cn) id pr = none) ∧ remPhase cn ob sg pr = .none)
    (hA : c = cliOf s cn → MOp.sigRemoved (keyOf s cn ob sg) ∉ pr ∧
      ¬(MOp.peerRemoved (.name (srvOf s cn)) ∈ pr ∧ MOp.popPeer (.name (srvOf s cn)) ∉ pr) ∧
      (∀ id, MOp.handleReply id true ∉ pr) ∧
      (∀ id, curOf (s.ctx (cliOf s cn)) (keyOf s cn ob sg) = some id → MOp.handleReply id false ∉ pr))
    (h : Sim s cn ob sg x) :
    Sim ((s.setCtx c { (s.ctx c) with loopQ := q }).setProg (.sock c) pr) cn ob sg x := by
  have hlf := live_facts hr hl
  have hp0 : ∀ th, (th = .sock c ∧ ((s.setCtx c { (s.ctx c) with loopQ := q }).setProg (.sock c) pr).prog th = pr ∧ s.prog th = []) ∨
      ((s.setCtx c { (s.ctx c) with loopQ := q }).setProg (.sock c) pr).prog th = s.prog th := by
    intro th
    by_cases e : th = .sock c
    · subst e; left; simp [hidle]
    · right; simp [e]
  have hctx : ∀ x, x ≠ c → ((s.setCtx c { (s.ctx c) with loopQ := q }).setProg (.sock c) pr).ctx x = s.ctx x := by
    intro x hx; simp [hx]
  have hfields : ∀ x, (((s.setCtx c { (s.ctx c) with loopQ := q }).setProg (.sock c) pr).ctx x).lsubs = (s.ctx x).lsubs ∧
      (((s.setCtx c { (s.ctx c) with loopQ := q }).setProg (.sock c) pr).ctx x).byKey = (s.ctx x).byKey ∧
      (((s.setCtx c { (s.ctx c) with loopQ := q }).setProg (.sock c) pr).ctx x).pobj = (s.ctx x).pobj ∧
      (((s.setCtx c { (s.ctx c) with loopQ := q }).setProg (.sock c) pr).ctx x).rsubs = (s.ctx x).rsubs ∧
      (((s.setCtx c { (s.ctx c) with loopQ := q }).setProg (.sock c) pr).ctx x).objs = (s.ctx x).objs := by
    intro x; simp only [setProg_ctx, setCtx_ctx]; split <;> (try (rename_i e; subst e)) <;> exact ⟨rfl, rfl, rfl, rfl, rfl⟩
  refine sim_nm (s := s) (s' := (s.setCtx c { (s.ctx c) with loopQ := q }).setProg (.sock c) pr) (.sock c) pr rfl rfl hp0 ?_ ?_ ?_ ?_ ?_ (hfields _).1 (hfields _).2.1 (hfields _).2.2.1 (hfields _).2.2.2.1
    (hfields _).2.2.2.2 ?_ ?_ h
  · intro e id _; simp only [Th.sock.injEq] at e; exact (hP e).2.1 id
  · intro e; simp only [Th.ctx] at e; exact (hP e).2.2
  · intro e; simp only [Th.sock.injEq] at e; exact (hA e).1
  · intro e; simp only [Th.sock.injEq] at e; exact (hA e).2.1
  · intro e id _; simp only [Th.sock.injEq] at e; exact (hA e).2.2.1 id
  · intro cur _
    simp only [setProg_conn, setCtx_conn, setProg_ctx, setCtx_ctx]
    split
    · rename_i e
      have hq' : (s.ctx (srvOf s cn)).loopQ = cb :: q := by rw [e]; exact hq
      rw [hq', List.filterMap_cons, (hP e.symm).1 cur]
    · rfl
  · intro id hcur
    refine failCar_congr rfl ?_ (fun n => rfl) (fun n _ _ => Iff.rfl)
    intro th hth
    rcases hp0 th with ⟨e0, e1, e2⟩ | e
    · rw [e1, e2]
      subst e0; simp only [Th.ctx] at hth
      exact ⟨fun h => absurd h ((hA hth).2.2.2 id hcur), fun h => by simp at h⟩
    · rw [e]


set_option maxHeartbeats 1000000 in
/-- the socket thread of context `c` sends the next message of its event-loop queue -/
theorem sim_cb_sent {s : State} {cn : ConnId} {ob : Obj} {sg : Sg} {x : AS} (hr : Reach s) (hl : Live s cn)
    {c : Ctx} {d : Peer} {m : Msg} {q : List Cb} {n : ConnId}
    (hidle : s.prog (.sock c) = []) (hq : (s.ctx c).loopQ = .smSend d m :: q) (hpeer : (s.ctx c).peers d = some n)
    (h : Sim s cn ob sg x) :
    Sim (({ (s.setCtx c { (s.ctx c) with loopQ := q }) with conn := upd s.conn n (sentConn (s.conn n) d.isName m) }).setProg (.sock c) [])
      cn ob sg x := by
  have hlf := live_facts hr hl
  have hown0 := (ownInv_reach hr).peers c d n hpeer
  have htopo := topoInv_reach hr
  have hhalf : ∀ n' b, ((upd s.conn n (sentConn (s.conn n) d.isName m) n').half b) =
      if n' = n then (sentConn (s.conn n) d.isName m).half b else (s.conn n').half b := by
    intro n' b; simp only [upd]; split <;> rfl
  have hownall : ∀ n' b, ((upd s.conn n (sentConn (s.conn n) d.isName m) n').half b).owner = ((s.conn n').half b).owner := by
    intro n' b; rw [hhalf]; split
    · rename_i e; subst e; exact sentConn_owner _ _ _ _
    · rfl
  have hp0 : ∀ th, (th = .sock c ∧ (({ (s.setCtx c { (s.ctx c) with loopQ := q }) with
      conn := upd s.conn n (sentConn (s.conn n) d.isName m) }).setProg (.sock c) []).prog th = [] ∧ s.prog th = []) ∨
      (({ (s.setCtx c { (s.ctx c) with loopQ := q }) with
      conn := upd s.conn n (sentConn (s.conn n) d.isName m) }).setProg (.sock c) []).prog th = s.prog th := by
    intro th
    by_cases e : th = .sock c
    · subst e; left; simp [hidle]
    · right; simp only [setProg_prog, if_neg e]; rfl
  have hfields : ∀ x, ((({ (s.setCtx c { (s.ctx c) with loopQ := q }) with
      conn := upd s.conn n (sentConn (s.conn n) d.isName m) }).setProg (.sock c) []).ctx x).lsubs = (s.ctx x).lsubs ∧
      ((({ (s.setCtx c { (s.ctx c) with loopQ := q }) with
      conn := upd s.conn n (sentConn (s.conn n) d.isName m) }).setProg (.sock c) []).ctx x).byKey = (s.ctx x).byKey ∧
      ((({ (s.setCtx c { (s.ctx c) with loopQ := q }) with
      conn := upd s.conn n (sentConn (s.conn n) d.isName m) }).setProg (.sock c) []).ctx x).pobj = (s.ctx x).pobj ∧
      ((({ (s.setCtx c { (s.ctx c) with loopQ := q }) with
      conn := upd s.conn n (sentConn (s.conn n) d.isName m) }).setProg (.sock c) []).ctx x).rsubs = (s.ctx x).rsubs ∧
      ((({ (s.setCtx c { (s.ctx c) with loopQ := q }) with
      conn := upd s.conn n (sentConn (s.conn n) d.isName m) }).setProg (.sock c) []).ctx x).objs = (s.ctx x).objs := by
    intro x; simp only [setProg_ctx, setCtx_ctx]; split <;> (try (rename_i e; subst e)) <;> exact ⟨rfl, rfl, rfl, rfl, rfl⟩
  -- which end of which connection is written to
  have hwho : n = cn → (d.isName = true ∧ c = cliOf s cn) ∨ (d = .alias cn ∧ c = srvOf s cn) := by
    intro e; subst e
    cases d with
    | name p' => left; exact ⟨rfl, hown0.2.symm⟩
    | alias m' =>
      right
      obtain ⟨e1, -, e2⟩ := htopo.peersA c m' n hpeer
      exact ⟨by rw [e1], e2.symm⟩
  refine sim_nm (s := s) (.sock c) [] (hownall cn true) (hownall cn false) hp0 (fun _ _ _ => rfl) (fun _ => rfl) (fun _ => by simp)
    (fun _ => by simp) (fun _ _ _ => by simp) (hfields _).1 (hfields _).2.1 (hfields _).2.2.1 (hfields _).2.2.2.1
    (hfields _).2.2.2.2 ?_ ?_ h
  · intro cur _
    simp only [setProg_conn, setProg_ctx, setCtx_ctx]
    by_cases hcp : c = srvOf s cn
    · subst hcp
      simp only [if_true]
      have hq' : (s.ctx (srvOf s cn)).loopQ = .smSend d m :: q := hq
      rw [hq', List.filterMap_cons]
      by_cases hd : d = .alias cn
      · subst hd
        have hn : n = cn := by
          have := hl.regP; rw [hpeer] at this; exact Option.some.inj this
        subst hn
        rw [hhalf, if_pos rfl, sentConn_inbox, if_pos ⟨by simp [Peer.isName], hlf.openA⟩, List.filterMap_append]
        simp only [relevCb, if_true, List.filterMap_cons, List.filterMap_nil]
        cases relev ob sg cur m <;> simp
      · have hn : n ≠ cn := by
          intro e
          rcases hwho e with ⟨-, e2⟩ | ⟨e1, -⟩
          · exact hlf.ne e2.symm
          · exact hd e1
        rw [hhalf, if_neg (Ne.symm hn)]
        simp only [relevCb, if_neg hd]
    · rw [if_neg (Ne.symm hcp)]
      congr 2
      rw [hhalf]; split
      · rename_i e
        rcases hwho e.symm with ⟨e1, -⟩ | ⟨-, e2⟩
        · subst e; rw [sentConn_inbox, if_neg (by simp [e1])]
        · exact absurd e2 hcp
      · rfl
  · intro id hcur
    refine failCar_congr (hownall cn true) ?_ (fun n' => hownall n' true) ?_
    · intro th _
      rcases hp0 th with ⟨-, e1, e2⟩ | e
      · rw [e1, e2]
      · rw [e]
    · intro n' hn' ho
      simp only [setProg_conn]
      rw [hhalf]; split
      · rename_i e; subst e
        rw [sentConn_pend]; split
        · rename_i e2
          cases hm : m.reqId? with
          | none => simp
          | some id' =>
            simp only [List.mem_append, List.mem_singleton]
            constructor
            · rintro (h | h)
              · exact h
              · exfalso
                subst h
                -- the outstanding request of the key is sent to the publisher over this connection
                have hc' : c = cliOf s cn := by rw [← ho]; have := hown0.2; rw [← e2] at this; exact this.symm
                subst hc'
                cases m <;> simp only [Msg.reqId?, reduceCtorEq] at hm
                cases hm
                have typed := (ctInv_reach hr).cbs _ d _ (by rw [hq]; exact List.mem_cons_self)
                have hd := typed_dest_of_cur (pendInv_reach hr _) typed hcur
                simp only [keyOf] at hd; subst hd
                have := hl.regA; rw [hpeer] at this
                exact hn' (Option.some.inj this)
            · exact Or.inl
        · exact Iff.rfl
      · exact Iff.rfl


/-- the state after the socket thread of the owner of end (`n`, `cli`) has read message `m` -/
def arrState (s : State) (n : ConnId) (cli : Bool) (m : Msg) (ms : List Msg) : State :=
  ({ s with conn := upd s.conn n ((s.conn n).setHalf cli (readHalf ((s.conn n).half cli) m ms)) }).setProg
    (.sock ((s.conn n).half cli).owner) (dispatch (srcName s n cli) m)

theorem arrState_half (s : State) (n : ConnId) (cli : Bool) (m : Msg) (ms : List Msg) (n' : ConnId) (b : Bool) :
    ((arrState s n cli m ms).conn n').half b =
      if n' = n ∧ b = cli then readHalf ((s.conn n).half cli) m ms else (s.conn n').half b := by
  simp only [arrState, setProg_conn, upd]; split
  · rename_i e; subst e; rw [half_setHalf']; split
    · rename_i e2; subst e2; simp
    · rename_i e2; rw [if_neg (by simp [e2])]
  · rename_i e; rw [if_neg (by simp [e])]

theorem arrState_owner (s : State) (n : ConnId) (cli : Bool) (m : Msg) (ms : List Msg) (n' : ConnId) (b : Bool) :
    (((arrState s n cli m ms).conn n').half b).owner = ((s.conn n').half b).owner := by
  rw [arrState_half]; split
  · rename_i e; obtain ⟨rfl, rfl⟩ := e; exact readHalf_owner _ _ _
  · rfl

theorem remPhase_dispatch (cn : ConnId) (ob : Obj) (sg : Sg) (src : Peer) (m : Msg) : remPhase cn ob sg (dispatch src m) = .none := by
  cases m with
  | subReq id ob' sg' b => cases b <;> rfl
  | _ => rfl

theorem td_dispatch (src : Peer) (m : Msg) (n : Peer) : MOp.peerRemoved n ∉ dispatch src m := by
  cases m with
  | subReq id ob' sg' b => cases b <;> simp [dispatch]
  | _ => simp [dispatch]

set_option maxHeartbeats 1000000 in
/-- a message is read that the abstraction does not look at -/
theorem sim_arrive_stutter {s : State} {cn : ConnId} {ob : Obj} {sg : Sg} {x : AS}
    {n : ConnId} {cli : Bool} {m : Msg} {ms : List Msg}
    (hidle : s.prog (.sock ((s.conn n).half cli).owner) = []) (hin : ((s.conn n).half cli).inbox = m :: ms)
    (hP : ((s.conn n).half cli).owner = srvOf s cn → ∀ id, curOf (s.ctx (cliOf s cn)) (keyOf s cn ob sg) = some id →
      hdlTok (.alias cn) id (dispatch (srcName s n cli) m) = none)
    (hA : ((s.conn n).half cli).owner = cliOf s cn → MOp.sigRemoved (keyOf s cn ob sg) ∉ dispatch (srcName s n cli) m ∧
      ∀ id, curOf (s.ctx (cliOf s cn)) (keyOf s cn ob sg) = some id →
        MOp.handleReply id true ∉ dispatch (srcName s n cli) m ∧ MOp.handleReply id false ∉ dispatch (srcName s n cli) m ∧
        msgRepId m ≠ some id)
    (hrel : n = cn → cli = true → relev ob sg (curOf (s.ctx (cliOf s cn)) (keyOf s cn ob sg)) m = none)
    (h : Sim s cn ob sg x) : Sim (arrState s n cli m ms) cn ob sg x := by
  have hp0 : ∀ th, (th = .sock ((s.conn n).half cli).owner ∧ (arrState s n cli m ms).prog th = dispatch (srcName s n cli) m ∧ s.prog th = []) ∨
      (arrState s n cli m ms).prog th = s.prog th := by
    intro th
    by_cases e : th = .sock ((s.conn n).half cli).owner
    · subst e; left; simp [arrState, hidle]
    · right; simp only [arrState, setProg_prog, if_neg e]
  refine sim_nm (s := s) (s' := arrState s n cli m ms) _ _ (arrState_owner _ _ _ _ _ _ _) (arrState_owner _ _ _ _ _ _ _) hp0
    ?_ (fun _ => remPhase_dispatch _ _ _ _ _) ?_ (fun _ h => td_dispatch _ _ _ h.1) ?_ rfl rfl rfl rfl rfl ?_ ?_ h
  · intro e id hid; simp only [Th.sock.injEq] at e; exact hP e id hid
  · intro e; simp only [Th.sock.injEq] at e; exact (hA e).1
  · intro e id hid; simp only [Th.sock.injEq] at e; exact ((hA e).2 id hid).1
  · intro cur hcur
    have hlq : ((arrState s n cli m ms).ctx (srvOf s cn)).loopQ = (s.ctx (srvOf s cn)).loopQ := rfl
    rw [hlq, arrState_half]
    split
    · rename_i e; obtain ⟨rfl, rfl⟩ := e
      rw [readHalf_inbox, hin, List.filterMap_cons, hcur, hrel rfl rfl]
    · rfl
  · intro id hcur
    refine failCar_congr (arrState_owner _ _ _ _ _ _ _) ?_ (fun n' => arrState_owner _ _ _ _ _ _ _) ?_
    · intro th hth
      rcases hp0 th with ⟨e0, e1, e2⟩ | e
      · rw [e1, e2]
        subst e0; simp only [Th.ctx] at hth
        exact ⟨fun h => absurd h ((hA hth).2 id hcur).2.1, fun h => by simp at h⟩
      · rw [e]
    · intro n' _ ho
      rw [arrState_half]; split
      · rename_i e; obtain ⟨rfl, rfl⟩ := e
        have hne := ((hA ho).2 id hcur).2.2
        cases m <;> simp only [readHalf] <;> try exact Iff.rfl
        rename_i id' ok
        have : id ≠ id' := fun e => hne (by simp [msgRepId, e])
        exact List.mem_erase_of_ne this
      · exact Iff.rfl

end QmiModel.PubSub
