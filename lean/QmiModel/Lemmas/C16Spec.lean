import QmiModel.Model.Config
/-!
# C16 — declarative specifications the model is proved against

* `Admits τ j v`: data `j` is admitted by type `τ` and converts to `v` (documented conversions only:
  integer→float, list→tuple, defaults filled in). Independent of the parser: no path, no error order.
* `Offends τ j r k`: the item at relative path `r` of `j` is an offending item of kind `k`
  (type mismatch / missing required field / unknown field).
-/
namespace QmiModel.Config

mutual
inductive Admits : Ty → PV → PV → Prop
  | any (j : PV) : Admits .any j j
  | optNone (t : Ty) : Admits (.opt t) .none .none
  | optSome {t : Ty} {j v : PV} : j ≠ .none → Admits t j v → Admits (.opt t) j v
  | intInt (n : Int) : Admits .int (.int n) (.int n)
  | intBool (b : Bool) : Admits .int (.bool b) (.bool b)               -- Python: `bool ⊂ int`
  | floatFlt (l : Str) : Admits .float (.flt l) (.flt l)
  | floatConv (n : Int) : Admits .float (.fltOfInt n) (.fltOfInt n)
  | floatInt (n : Int) : floatOverflow n = false → Admits .float (.int n) (.fltOfInt n)   -- integer → float
  | floatBool (b : Bool) : Admits .float (.bool b) (.fltOfInt (if b then 1 else 0))
  | listAny (xs : List PV) : Admits .listAny (.list xs) (.list xs)          -- untyped: content not inspected
  | tupleAnyL (xs : List PV) : Admits .tupleAny (.list xs) (.tuple xs)       -- list → tuple
  | tupleAnyT (xs : List PV) : Admits .tupleAny (.tuple xs) (.tuple xs)
  | dictAny (kvs : List (Str × PV)) : Admits .dictAny (.dict kvs) (.dict kvs)
  | str (s : Str) : Admits .str (.str s) (.str s)
  | bool (b : Bool) : Admits .bool (.bool b) (.bool b)
  | list {t : Ty} {xs ys : List PV} : AdmitsL t xs ys → Admits (.list t) (.list xs) (.list ys)
  | tupleVarL {t : Ty} {xs ys : List PV} : AdmitsL t xs ys → Admits (.tupleVar t) (.list xs) (.tuple ys)  -- list → tuple
  | tupleVarT {t : Ty} {xs ys : List PV} : AdmitsL t xs ys → Admits (.tupleVar t) (.tuple xs) (.tuple ys)
  | tupleFixL {ts : List Ty} {xs ys : List PV} : AdmitsT ts xs ys → Admits (.tupleFix ts) (.list xs) (.tuple ys)
  | tupleFixT {ts : List Ty} {xs ys : List PV} : AdmitsT ts xs ys → Admits (.tupleFix ts) (.tuple xs) (.tuple ys)
  | dict {t : Ty} {kvs kvs' : List (Str × PV)} : AdmitsK t kvs kvs' → Admits (.dict t) (.dict kvs) (.dict kvs')
  | structDict {name : Str} {fs : List Field} {kvs items : List (Str × PV)} :
      AdmitsF fs kvs items → (∀ k ∈ keysOf kvs, k ∈ fieldNames fs) →
      Admits (.struct name fs) (.dict kvs) (.inst name items)
  | structInst {name c : Str} {fs : List Field} {ifs items : List (Str × PV)} :
      AdmitsF fs ifs items → (∀ k ∈ keysOf ifs, k ∈ fieldNames fs) →
      Admits (.struct name fs) (.inst c ifs) (.inst name items)
/-- element-wise, one element type -/
inductive AdmitsL : Ty → List PV → List PV → Prop
  | nil (t : Ty) : AdmitsL t [] []
  | cons {t : Ty} {x y : PV} {xs ys : List PV} : Admits t x y → AdmitsL t xs ys → AdmitsL t (x :: xs) (y :: ys)
/-- element-wise, one type per position (same lengths) -/
inductive AdmitsT : List Ty → List PV → List PV → Prop
  | nil : AdmitsT [] [] []
  | cons {t : Ty} {ts : List Ty} {x y : PV} {xs ys : List PV} :
      Admits t x y → AdmitsT ts xs ys → AdmitsT (t :: ts) (x :: xs) (y :: ys)
/-- value-wise, keys and order kept -/
inductive AdmitsK : Ty → List (Str × PV) → List (Str × PV) → Prop
  | nil (t : Ty) : AdmitsK t [] []
  | cons {t : Ty} {k : Str} {x y : PV} {kvs kvs' : List (Str × PV)} :
      Admits t x y → AdmitsK t kvs kvs' → AdmitsK t ((k, x) :: kvs) ((k, y) :: kvs')
/-- one entry per field, in field order: the converted value if present, else the default -/
inductive AdmitsF : List Field → List (Str × PV) → List (Str × PV) → Prop
  | nil (kvs : List (Str × PV)) : AdmitsF [] kvs []
  | present {n : Str} {t : Ty} {d : Option PV} {fs : List Field} {kvs items : List (Str × PV)} {x y : PV} :
      assoc n kvs = some x → Admits t x y → AdmitsF fs kvs items → AdmitsF ((n, t, d) :: fs) kvs ((n, y) :: items)
  | default {n : Str} {t : Ty} {dv : PV} {fs : List Field} {kvs items : List (Str × PV)} :
      assoc n kvs = .none → AdmitsF fs kvs items → AdmitsF ((n, t, some dv) :: fs) kvs ((n, dv) :: items)
end

/-- the value has a shape the head of the type accepts -/
def headOk : Ty → PV → Bool
  | .any, _ => true
  | .opt t, j => (match j with | .none => true | _ => false) || headOk t j
  | .int, j => match j with | .int _ => true | .bool _ => true | _ => false
  | .float, j => match j with | .flt _ => true | .fltOfInt _ => true | .int n => !floatOverflow n | .bool _ => true | _ => false
  | .str, j => match j with | .str _ => true | _ => false
  | .bool, j => match j with | .bool _ => true | _ => false
  | .never, _ => false
  | .listAny, j => match j with | .list _ => true | _ => false
  | .tupleAny, j => match j with | .list _ => true | .tuple _ => true | _ => false
  | .dictAny, j => match j with | .dict _ => true | _ => false
  | .list _, j => match j with | .list _ => true | _ => false
  | .tupleVar _, j => match j with | .list _ => true | .tuple _ => true | _ => false
  | .tupleFix ts, j => match j with | .list xs => xs.length == ts.length | .tuple xs => xs.length == ts.length | _ => false
  | .dict _, j => match j with | .dict _ => true | _ => false
  | .struct _ _, j => match j with | .dict _ => true | .inst _ _ => true | _ => false

/-- `Offends τ j r k`: following the relative path `r` through data `j` (typed `τ`) leads to an offending
item of kind `k`: a value whose shape the declared type does not admit (this includes a value without
`len()` in a fixed-length tuple field and an integer beyond the float range in a float field), a required
field that is missing, an unknown field. -/
inductive Offends : Ty → PV → Path → CfgKind → Prop
  | mismatch {τ : Ty} {j : PV} : headOk τ j = false → Offends τ j [] .mismatch
  | missing {name n : Str} {t : Ty} {fs : List Field} {kvs : List (Str × PV)} :
      (n, t, Option.none) ∈ fs → assoc n kvs = .none → Offends (.struct name fs) (.dict kvs) [.field n] .missing
  | unknown {name k : Str} {fs : List Field} {kvs : List (Str × PV)} :
      k ∈ keysOf kvs → k ∉ fieldNames fs → Offends (.struct name fs) (.dict kvs) [.field k] .unknown
  | missingInst {name c n : Str} {t : Ty} {fs : List Field} {ifs : List (Str × PV)} :
      (n, t, Option.none) ∈ fs → assoc n ifs = .none →
      Offends (.struct name fs) (.inst c ifs) [.field n] .missing
  | unknownInst {name c k : Str} {fs : List Field} {ifs : List (Str × PV)} :
      k ∈ keysOf ifs → k ∉ fieldNames fs → Offends (.struct name fs) (.inst c ifs) [.field k] .unknown
  | opt {t : Ty} {j : PV} {r : Path} {k : CfgKind} : j ≠ .none → Offends t j r k → Offends (.opt t) j r k
  | list {t : Ty} {xs : List PV} {i : Nat} {x : PV} {r : Path} {k : CfgKind} :
      xs[i]? = some x → Offends t x r k → Offends (.list t) (.list xs) (.idx i :: r) k
  | tupleVarL {t : Ty} {xs : List PV} {i : Nat} {x : PV} {r : Path} {k : CfgKind} :
      xs[i]? = some x → Offends t x r k → Offends (.tupleVar t) (.list xs) (.idx i :: r) k
  | tupleVarT {t : Ty} {xs : List PV} {i : Nat} {x : PV} {r : Path} {k : CfgKind} :
      xs[i]? = some x → Offends t x r k → Offends (.tupleVar t) (.tuple xs) (.idx i :: r) k
  | tupleFixL {ts : List Ty} {xs : List PV} {i : Nat} {t : Ty} {x : PV} {r : Path} {k : CfgKind} :
      xs.length = ts.length → ts[i]? = some t → xs[i]? = some x → Offends t x r k →
      Offends (.tupleFix ts) (.list xs) (.idx i :: r) k
  | tupleFixT {ts : List Ty} {xs : List PV} {i : Nat} {t : Ty} {x : PV} {r : Path} {k : CfgKind} :
      xs.length = ts.length → ts[i]? = some t → xs[i]? = some x → Offends t x r k →
      Offends (.tupleFix ts) (.tuple xs) (.idx i :: r) k
  | dict {t : Ty} {kvs : List (Str × PV)} {key : Str} {x : PV} {r : Path} {k : CfgKind} :
      (key, x) ∈ kvs → Offends t x r k → Offends (.dict t) (.dict kvs) (.key key :: r) k
  | field {name n : Str} {t : Ty} {d : Option PV} {fs : List Field} {kvs : List (Str × PV)} {x : PV} {r : Path} {k : CfgKind} :
      (n, t, d) ∈ fs → assoc n kvs = some x → Offends t x r k →
      Offends (.struct name fs) (.dict kvs) (.field n :: r) k
  | fieldInst {name c n : Str} {t : Ty} {d : Option PV} {fs : List Field} {ifs : List (Str × PV)} {x : PV} {r : Path} {k : CfgKind} :
      (n, t, d) ∈ fs → assoc n ifs = some x → Offends t x r k →
      Offends (.struct name fs) (.inst c ifs) (.field n :: r) k

end QmiModel.Config
