import QmiModel.Model.ContextCalls
/-! Invariant of the manager/worker model (layer D of property C12). -/
namespace QmiModel.Context.Mgr

structure MInv (s : MState) : Prop where
  account   : (s.fifo ++ s.answered.map Prod.fst).Perm s.delivered
  nodup     : s.delivered.Nodup
  shut_stop : s.shutdown = true → s.running = false
  seen_shut : s.seen = true → s.shutdown = true
  exit_seen : s.exited = true → s.seen = true
  exit_empty : s.exited = true → s.fifo = []

theorem minv_init : MInv MState.init := by
  constructor <;> simp [MState.init]

theorem minv_step {s s' : MState} {a : MAct} (h : MInv s) (hs : mstep s a = some s') : MInv s' := by
  cases a with
  | deliver r =>
    simp only [mstep] at hs
    split at hs
    · cases hs
    · rename_i hr
      split at hs
      · rename_i hrun
        cases hs
        refine ⟨?_, ?_, h.shut_stop, h.seen_shut, h.exit_seen, ?_⟩
        · simp only [List.append_assoc]
          have := h.account.append_right [r]
          refine List.Perm.trans ?_ this
          simp only [List.append_assoc]
          exact List.Perm.append_left _ List.perm_append_comm
        · rw [List.nodup_append]
          refine ⟨h.nodup, by simp, ?_⟩
          intro a ha b hb
          simp only [List.mem_singleton] at hb
          subst hb; intro e; exact hr (e ▸ ha)
        · intro he
          have h1 := h.shut_stop (h.seen_shut (h.exit_seen he))
          rw [hrun] at h1; cases h1
      · cases hs
        refine ⟨?_, ?_, h.shut_stop, h.seen_shut, h.exit_seen, h.exit_empty⟩
        · simp only [List.map_append, List.map_cons, List.map_nil, ← List.append_assoc]
          exact h.account.append_right [r]
        · rw [List.nodup_append]
          refine ⟨h.nodup, by simp, ?_⟩
          intro a ha b hb
          simp only [List.mem_singleton] at hb
          subst hb; intro e; exact hr (e ▸ ha)
  | stopFlag =>
    simp only [mstep] at hs
    split at hs
    · cases hs; exact ⟨h.account, h.nodup, fun _ => rfl, h.seen_shut, h.exit_seen, h.exit_empty⟩
    · cases hs
  | shutdown =>
    simp only [mstep] at hs
    split at hs
    · rename_i hc
      cases hs
      simp only [Bool.and_eq_true, Bool.not_eq_true', Bool.not_eq_eq_eq_not, Bool.not_true] at hc
      exact ⟨h.account, h.nodup, fun _ => hc.1, fun hsn => rfl, h.exit_seen, h.exit_empty⟩
    · cases hs
  | see =>
    simp only [mstep] at hs
    split at hs
    · rename_i hc
      cases hs
      simp only [Bool.and_eq_true] at hc
      exact ⟨h.account, h.nodup, h.shut_stop, fun _ => hc.1, fun he => rfl, h.exit_empty⟩
    · cases hs
  | exec r =>
    simp only [mstep] at hs
    split at hs
    · rename_i hd tl hf
      split at hs
      · rename_i hc
        cases hs
        simp only [Bool.and_eq_true, decide_eq_true_eq] at hc
        obtain ⟨rfl, hns⟩ := hc
        refine ⟨?_, h.nodup, h.shut_stop, h.seen_shut, h.exit_seen, ?_⟩
        · have := h.account
          rw [hf] at this
          refine List.Perm.trans ?_ this
          simp only [List.map_append, List.map_cons, List.map_nil, List.cons_append]
          rw [← List.append_assoc]
          exact List.perm_append_singleton _ _
        · intro he
          have := h.exit_seen he
          simp [this] at hns
      · cases hs
    · cases hs
  | reject r =>
    simp only [mstep] at hs
    split at hs
    · rename_i hd tl hf
      split at hs
      · rename_i hc
        cases hs
        simp only [Bool.and_eq_true, decide_eq_true_eq, Bool.not_eq_true', Bool.not_eq_eq_eq_not, Bool.not_true] at hc
        obtain ⟨⟨rfl, hsn⟩, hne⟩ := hc
        refine ⟨?_, h.nodup, h.shut_stop, h.seen_shut, h.exit_seen, ?_⟩
        · have := h.account
          rw [hf] at this
          refine List.Perm.trans ?_ this
          simp only [List.map_append, List.map_cons, List.map_nil, List.cons_append]
          rw [← List.append_assoc]
          exact List.perm_append_singleton _ _
        · intro he; rw [hne] at he; cases he
      · cases hs
    · cases hs
  | exit =>
    simp only [mstep] at hs
    split at hs
    · rename_i hc
      cases hs
      simp only [Bool.and_eq_true, Bool.not_eq_true', Bool.not_eq_eq_eq_not, Bool.not_true, List.isEmpty_iff] at hc
      exact ⟨h.account, h.nodup, h.shut_stop, h.seen_shut, fun _ => hc.1.1, fun _ => hc.2⟩
    · cases hs

theorem minv_run : ∀ (acts : List MAct) (s s' : MState), MInv s → mrun s acts = some s' → MInv s'
  | [], s, s', h, hr => by simp only [mrun] at hr; cases hr; exact h
  | a :: as, s, s', h, hr => by
    simp only [mrun] at hr
    cases hs : mstep s a with
    | none => rw [hs] at hr; cases hr
    | some s1 => rw [hs] at hr; exact minv_run as s1 s' (minv_step h hs) hr

end QmiModel.Context.Mgr
