import QmiModel.Model.Discovery
/-! Helper lemmas for C18: little-endian fields, `c_char[N]`, cutting a buffer into fields. -/
namespace QmiModel.Discovery

theorem leBytes_length (n v : Nat) : (leBytes n v).length = n := by
  induction n generalizing v with
  | zero => rfl
  | succ n ih => simp [leBytes, ih]

theorem toNat_ofNat_mod (v : Nat) : (UInt8.ofNat (v % 256)).toNat = v % 256 := by
  rw [UInt8.toNat_ofNat']
  omega

theorem leNat_leBytes (n v : Nat) : leNat (leBytes n v) = v % 256 ^ n := by
  induction n generalizing v with
  | zero => simp [leBytes, leNat, Nat.mod_one]
  | succ n ih =>
    simp only [leBytes, leNat, toNat_ofNat_mod, ih]
    rw [Nat.pow_succ, Nat.mul_comm (256 ^ n) 256, Nat.mod_mul]

theorem leNat_lt (bs : Bytes) : leNat bs < 256 ^ bs.length := by
  induction bs with
  | nil => simp [leNat]
  | cons b bs ih =>
    simp only [leNat, List.length_cons, Nat.pow_succ]
    have := b.toNat_lt
    omega

theorem ofNat_toNat_mod (b : UInt8) (m : Nat) : UInt8.ofNat ((b.toNat + 256 * m) % 256) = b := by
  have h : (b.toNat + 256 * m) % 256 = b.toNat := by have := b.toNat_lt; omega
  rw [h]
  exact UInt8.ofNat_toNat

theorem leBytes_leNat (bs : Bytes) : leBytes bs.length (leNat bs) = bs := by
  induction bs with
  | nil => rfl
  | cons b bs ih =>
    simp only [List.length_cons, leBytes, leNat, ofNat_toNat_mod]
    have h : (b.toNat + 256 * leNat bs) / 256 = leNat bs := by have := b.toNat_lt; omega
    rw [h, ih]

theorem leNat_leBytes_of_lt (n v : Nat) (h : v < 256 ^ n) : leNat (leBytes n v) = v := by
  rw [leNat_leBytes, Nat.mod_eq_of_lt h]

/-! ### `c_char[N]` -/

theorem cstr_all_ne (bs : Bytes) : ∀ b ∈ cstr bs, b ≠ 0 := by
  unfold cstr
  induction bs with
  | nil => intro b hb; cases hb
  | cons a bs ih =>
    intro b hb
    rw [List.takeWhile_cons] at hb
    split at hb
    · rename_i ha
      rcases List.mem_cons.1 hb with rfl | hb
      · simpa using ha
      · exact ih b hb
    · cases hb

theorem cstr_of_all_ne (bs : Bytes) (h : ∀ b ∈ bs, b ≠ 0) : cstr bs = bs := by
  unfold cstr
  induction bs with
  | nil => rfl
  | cons a bs ih =>
    have ha : (a != 0) = true := by simpa using h a List.mem_cons_self
    rw [List.takeWhile_cons, ha]
    simp only [if_true]
    rw [ih (fun x hx => h x (List.mem_cons_of_mem _ hx))]

theorem cstr_idem (bs : Bytes) : cstr (cstr bs) = cstr bs := cstr_of_all_ne _ (cstr_all_ne bs)

theorem cstr_append_zeros (bs : Bytes) (k : Nat) (h : ∀ b ∈ bs, b ≠ 0) :
    cstr (bs ++ List.replicate k 0) = bs := by
  unfold cstr
  induction bs with
  | nil =>
    cases k with
    | zero => rfl
    | succ k => simp [List.replicate_succ]
  | cons b bs ih =>
    have hb : b ≠ 0 := h b List.mem_cons_self
    simp only [List.cons_append, List.takeWhile_cons]
    have : (b != 0) = true := by simpa using hb
    rw [this]
    simp only [if_true]
    rw [ih (fun x hx => h x (List.mem_cons_of_mem _ hx))]

/-- a field written by `cwrite` has the field's length and reads back as the value up to its first NUL -/
theorem cwrite_spec {n : Nat} {v w : Bytes} (h : cwrite n v = some w) :
    w.length = n ∧ cstr w = cstr v ∧ (cstr v).length ≤ n := by
  unfold cwrite at h
  split at h
  · rename_i hle
    cases h
    refine ⟨?_, cstr_append_zeros _ _ (cstr_all_ne v), hle⟩
    simp; omega
  · cases h

theorem cwrite_isSome_iff (n : Nat) (v : Bytes) : (cwrite n v).isSome ↔ (cstr v).length ≤ n := by
  unfold cwrite; split <;> simp [*]

/-! ### fields -/

theorem splitFields_length (szs : List Nat) (bs : Bytes) : (splitFields szs bs).length = szs.length := by
  induction szs generalizing bs with
  | nil => rfl
  | cons n ns ih => simp [splitFields, ih]

theorem splitFields_flatten (szs : List Nat) (bs : Bytes) (h : bs.length = szs.sum) :
    (splitFields szs bs).flatten = bs := by
  induction szs generalizing bs with
  | nil =>
    simp only [List.sum_nil] at h
    simp [splitFields, List.eq_nil_of_length_eq_zero h]
  | cons n ns ih =>
    simp only [splitFields, List.flatten_cons]
    rw [ih]
    · exact List.take_append_drop n bs
    · simp only [List.sum_cons] at h
      simp only [List.length_drop]; omega

theorem splitFields_map_length (szs : List Nat) (bs : Bytes) (h : bs.length = szs.sum) :
    (splitFields szs bs).map List.length = szs := by
  induction szs generalizing bs with
  | nil => rfl
  | cons n ns ih =>
    simp only [List.sum_cons] at h
    simp only [splitFields, List.map_cons, List.length_take]
    rw [ih]
    · congr 1; omega
    · simp only [List.length_drop]; omega

theorem splitFields_of_flatten (fs : List Bytes) : splitFields (fs.map List.length) fs.flatten = fs := by
  induction fs with
  | nil => rfl
  | cons f fs ih =>
    simp only [List.map_cons, List.flatten_cons, splitFields]
    rw [List.take_left, List.drop_left, ih]

theorem flatten_length (fs : List Bytes) : fs.flatten.length = (fs.map List.length).sum := by
  induction fs with
  | nil => rfl
  | cons f fs ih => simp [ih]

end QmiModel.Discovery
