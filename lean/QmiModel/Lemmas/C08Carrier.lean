import QmiModel.Lemmas.C08Quiet
import QmiModel.Lemmas.C08Steps
/-! C08: the carrier invariant of subscription requests — local layer.

Every outstanding request (`byId id ≠ none`) of a live context is carried by something inside that context: an
operation of one of its threads (the pending send, or the reply / error reply about to be handled), a callback in its
event-loop queue, or the pending-request table of one of its connection ends (`_PeerTcpConnection._pending_requests`).
No step loses a request. -/
namespace QmiModel.PubSub

def Msg.isReq (id : ReqId) : Msg → Bool
  | .subReq id' _ _ _ => id' == id
  | _ => false

/-- the operation carries request `id` of its context -/
def MOp.carries (id : ReqId) : MOp → Bool
  | .sendChk _ m => m.isReq id
  | .enq _ m => m.isReq id
  | .handleReply id' _ => id' == id
  | _ => false

def MOp.isCar : MOp → Bool
  | .sendChk _ (.subReq ..) => true
  | .enq _ (.subReq ..) => true
  | .handleReply .. => true
  | _ => false

def Cb.carries (id : ReqId) : Cb → Bool
  | .smSend _ m => m.isReq id
  | _ => false

theorem MOp.isCar_of_carries {op : MOp} {id : ReqId} (h : op.carries id = true) : op.isCar = true := by
  cases op <;> simp only [MOp.carries] at h <;> (try contradiction)
  all_goals (try (rename_i d m; cases m <;> simp_all [Msg.isReq, MOp.isCar]))
  all_goals (try rfl)

/-- no carrier operation in the list -/
def carFree (l : List MOp) : Prop := ∀ op ∈ l, op.isCar = false

/-- carrier operations form a prefix of the program -/
def carPrefix : List MOp → Prop
  | [] => True
  | op :: l => if op.isCar = true then carPrefix l else carFree l

theorem carFree_nil : carFree [] := by simp [carFree]
theorem carFree_cons {op : MOp} {l : List MOp} : carFree (op :: l) ↔ op.isCar = false ∧ carFree l := by simp [carFree]
theorem carFree_append {l m : List MOp} : carFree (l ++ m) ↔ carFree l ∧ carFree m := by
  simp only [carFree, List.mem_append]
  constructor
  · intro h; exact ⟨fun op ho => h op (Or.inl ho), fun op ho => h op (Or.inr ho)⟩
  · rintro ⟨h1, h2⟩ op (ho | ho)
    · exact h1 op ho
    · exact h2 op ho

theorem carPrefix_of_carFree : ∀ {l : List MOp}, carFree l → carPrefix l
  | [], _ => trivial
  | op :: l, h => by
    have := carFree_cons.1 h
    simp only [carPrefix, this.1]
    exact this.2

theorem carPrefix_tail {op : MOp} {l : List MOp} (h : carPrefix (op :: l)) : carPrefix l := by
  simp only [carPrefix] at h
  split at h
  · exact h
  · exact carPrefix_of_carFree h

/-- carriers in front of a carrier-prefix list -/
theorem carPrefix_append_cars : ∀ {x rest : List MOp}, (∀ op ∈ x, op.isCar = true) → carPrefix rest → carPrefix (x ++ rest)
  | [], _, _, h => h
  | op :: x, rest, hx, h => by
    simp only [List.cons_append, carPrefix, hx op List.mem_cons_self, if_true]
    exact carPrefix_append_cars (fun o ho => hx o (List.mem_cons_of_mem _ ho)) h

theorem carPrefix_of_cars {x : List MOp} (h : ∀ op ∈ x, op.isCar = true) : carPrefix x := by
  have := carPrefix_append_cars h (rest := []) trivial
  rwa [List.append_nil] at this

/-- a carrier-prefix list in front of a carrier-free list -/
theorem carPrefix_append_free : ∀ {x rest : List MOp}, carPrefix x → carFree rest → carPrefix (x ++ rest)
  | [], _, _, h => carPrefix_of_carFree h
  | op :: x, rest, hx, h => by
    simp only [List.cons_append, carPrefix] at hx ⊢
    split
    · rename_i hc; simp only [hc, if_true] at hx; exact carPrefix_append_free hx h
    · rename_i hc; simp only [hc] at hx; exact carFree_append.2 ⟨hx, h⟩

/-- if the head is not a carrier, nothing behind it is -/
theorem carFree_rest_of_head {op : MOp} {rest : List MOp} (h : carPrefix (op :: rest)) (hop : op.isCar = false) : carFree rest := by
  simpa [carPrefix, hop] using h


theorem handleReplyStep_cars {cs cs' : CtxSt} {id : ReqId} {ok : Bool} {more : List MOp} {o : Out}
    (h : handleReplyStep cs id ok = some (cs', more, o)) : ∀ op ∈ more, op.isCar = true := by
  unfold handleReplyStep at h
  split at h
  · simp only [Option.some.injEq, Prod.mk.injEq] at h; obtain ⟨rfl, rfl, rfl⟩ := h; simp
  · split at h
    · simp only [Option.some.injEq, Prod.mk.injEq] at h; obtain ⟨rfl, rfl, rfl⟩ := h; simp
    · split at h
      · simp only [Option.some.injEq, Prod.mk.injEq] at h
        obtain ⟨-, rfl, -⟩ := h
        simp
      · split at h
        · simp only [Option.some.injEq, Prod.mk.injEq] at h
          obtain ⟨-, rfl, -⟩ := h
          simp [MOp.isCar]
        · simp only [Option.some.injEq, Prod.mk.injEq] at h
          obtain ⟨-, rfl, -⟩ := h
          simp

theorem onSendFail_cars (m : Msg) : ∀ op ∈ onSendFail m, op.isCar = true := by
  cases m <;> simp [onSendFail, MOp.isCar]

theorem onSendFail_nil_of_not_req {d : Peer} {m : Msg} (h : (MOp.sendChk d m).isCar = false) : onSendFail m = [] := by
  cases m <;> simp_all [onSendFail, MOp.isCar]

theorem isCar_enq (d d' : Peer) (m : Msg) : (MOp.enq d m).isCar = (MOp.sendChk d' m).isCar := by
  cases m <;> rfl

set_option maxHeartbeats 2000000 in
theorem microStep_carPrefix {s s' : State} {th : Th} {ch ch2 : Nat} {op : MOp} {rest : List MOp} {o : Out}
    (hp : carPrefix (op :: rest)) (hs : microStep s th ch ch2 op rest = some (s', o)) : carPrefix (s'.prog th) := by
  by_cases hc : op.isCar = true
  · -- a carrier at the head: it pushes carriers only
    have hrest : carPrefix rest := carPrefix_tail hp
    cases op <;> simp only [MOp.isCar] at hc <;> (try contradiction) <;> simp only [microStep] at hs
    all_goals (try (split at hs))
    all_goals (try (split at hs))
    all_goals (try (simp at hs))
    all_goals (try (obtain ⟨rfl, -⟩ := hs))
    all_goals (simp only [setProg_prog, if_true, State.setProg, upd])
    all_goals first
      | exact hrest
      | exact carPrefix_append_cars (onSendFail_cars _) hrest
      | exact carPrefix_append_cars (handleReplyStep_cars ‹handleReplyStep _ _ _ = some _›) hrest
      | (rename_i d m _; cases m <;> simp_all [carPrefix, MOp.isCar])
      | skip
  · have hc' : op.isCar = false := by simpa using hc
    have hrest : carFree rest := carFree_rest_of_head hp hc'
    have hpr : carPrefix rest := carPrefix_of_carFree hrest
    cases op <;> simp only [microStep] at hs
    all_goals (try (split at hs))
    all_goals (try (split at hs))
    all_goals (try (split at hs))
    all_goals (try (split at hs))
    all_goals (try (simp at hs))
    all_goals (try (obtain ⟨rfl, -⟩ := hs))
    all_goals (simp only [setProg_prog, if_true, State.setProg, upd])
    all_goals (try split)
    all_goals first
      | exact hpr
      | exact trivial
      | (have e := isCar_enq ‹Peer› ‹Peer› ‹Msg›; simp only [carPrefix, e, hc', Bool.false_eq_true, if_false]; exact hrest)
      | (simp only [carPrefix, MOp.isCar, carFree_cons, if_true, Bool.false_eq_true, if_false]; first | exact hrest | exact ⟨rfl, hrest⟩ | exact ⟨trivial, hrest⟩ | (simp [hrest]; done))
      | (rw [onSendFail_nil_of_not_req hc']; exact hpr)
      | (simp only [carPrefix, isCar_enq _ _ _, hc', Bool.false_eq_true, if_false]; first | exact hrest | (rw [isCar_enq _ ‹Peer›] ; simp [hc', hrest]))
      | exact carPrefix_append_cars (fun op ho => by simp only [List.mem_map] at ho; obtain ⟨_, -, rfl⟩ := ho; rfl) hpr
      | (simp [carPrefix, carFree, MOp.isCar]; done)
      | exact absurd rfl hc
      | (have e := isCar_enq ‹Peer› ‹Peer› ‹Msg›; simp only [carPrefix, e, hc', Bool.false_eq_true, if_false]; exact hrest)
      | skip


theorem carFree_beginProg (c : Ctx) (t : Tid) (n : Nat) (o : Op) : carFree (beginProg c t n o) := by
  cases o <;> simp only [beginProg] <;> (try split) <;> simp [carFree, MOp.isCar]

theorem carPrefix_dispatch (src : Peer) (m : Msg) : carPrefix (dispatch src m) := by
  cases m with
  | subReq id ob sg b => cases b <;> simp [dispatch, carPrefix, carFree, MOp.isCar]
  | _ => simp [dispatch, carPrefix, carFree, MOp.isCar]

theorem carPrefix_nonmicro {s s' : State} {a : Act} {o : Out} (ha : ∀ th ch ch2, a ≠ .micro th ch ch2)
    (hs : step s a = some (s', o)) (th' : Th) (hp : carPrefix (s.prog th')) : carPrefix (s'.prog th') := by
  cases a with
  | micro th ch ch2 => exact absurd rfl (ha th ch ch2)
  | begin c t op =>
    simp only [step] at hs
    split at hs
    · cases op <;> simp at hs <;> obtain ⟨rfl, -⟩ := hs <;> simp only [setProg_prog, State.setProg, upd] <;>
        (split
         · exact carPrefix_of_carFree (carFree_beginProg _ _ _ _)
         · exact hp)
    · simp at hs
  | cb c ok =>
    simp only [step] at hs
    split at hs
    · split at hs
      · simp at hs
      · split at hs
        · simp at hs
        · rename_i heq
          obtain ⟨-, hpx, -, -, -, hpr⟩ := smSendStep_frame heq
          simp only [Option.some.injEq, Prod.mk.injEq] at hs
          obtain ⟨rfl, -⟩ := hs
          simp only [setProg_prog, hpx, setCtx_prog]
          split
          · rcases hpr with e | e <;> rw [e]
            · trivial
            · exact carPrefix_of_cars (onSendFail_cars _)
          · exact hp
      · split at hs
        all_goals
          simp at hs; obtain ⟨rfl, -⟩ := hs
          simp only [setProg_prog, setCtx_prog]
          split
          · simp [carPrefix, carFree, MOp.isCar]
          · exact hp
    · simp at hs
  | arrive cn cli =>
    simp only [step] at hs
    split at hs
    · split at hs
      · simp at hs
      · simp only [Option.some.injEq, Prod.mk.injEq] at hs
        obtain ⟨rfl, -⟩ := hs
        simp only [State.setProg, upd]
        split
        · exact carPrefix_dispatch _ _
        · exact hp
    · simp at hs
  | eof cn cli =>
    simp only [step] at hs
    split at hs
    · simp only [Option.some.injEq, Prod.mk.injEq] at hs
      obtain ⟨rfl, -⟩ := hs
      simp only [setProg_prog]
      split
      · simp [carPrefix, carFree, MOp.isCar]
      · exact hp
    · simp at hs
  | connect a p =>
    simp only [step] at hs
    split at hs
    · simp only [Option.some.injEq, Prod.mk.injEq] at hs
      obtain ⟨rfl, -⟩ := hs
      simpa using hp
    · simp at hs
  | routerOk c =>
    simp only [step] at hs
    split at hs
    · simp only [Option.some.injEq, Prod.mk.injEq] at hs
      obtain ⟨rfl, -⟩ := hs
      simpa using hp
    · simp at hs
  | stopReq c =>
    simp only [step] at hs
    split at hs
    · simp only [Option.some.injEq, Prod.mk.injEq] at hs
      obtain ⟨rfl, -⟩ := hs
      simpa using hp
    · simp at hs
  | stop c =>
    simp only [step] at hs
    split at hs
    · simp only [Option.some.injEq, Prod.mk.injEq] at hs
      obtain ⟨rfl, -⟩ := hs
      simpa using hp
    · simp at hs

/-- in every program the carrier operations form a prefix -/
theorem carPrefix_reach {s : State} (h : Reach s) : ∀ th, carPrefix (s.prog th) := by
  induction h with
  | init => intro th; simp [State.init, carPrefix]
  | step _ hs ih =>
    rename_i s0 s1 a o _
    intro th'
    by_cases ha : ∃ th ch ch2, a = .micro th ch ch2
    · obtain ⟨th, ch, ch2, rfl⟩ := ha
      obtain ⟨-, op, rest, hp, hm⟩ := step_micro_inv hs
      by_cases e : th' = th
      · subst e; exact microStep_carPrefix (hp ▸ ih th') hm
      · rw [(microStep_frame hm).prog_other th' e]; exact ih th'
    · exact carPrefix_nonmicro (fun th ch ch2 e => ha ⟨th, ch, ch2, e⟩) hs th' (ih th')


def MOp.isClose : MOp → Bool
  | .closeConn .. => true
  | _ => false

theorem handleReplyStep_noClose {cs cs' : CtxSt} {id : ReqId} {ok : Bool} {more : List MOp} {o : Out}
    (h : handleReplyStep cs id ok = some (cs', more, o)) : ∀ op ∈ more, op.isClose = false := by
  intro op ho
  have := handleReplyStep_cars h op ho
  cases op <;> simp_all [MOp.isCar, MOp.isClose]

set_option maxHeartbeats 1000000 in
/-- a micro step never pushes a `closeConn` operation -/
theorem microStep_noClose {s s' : State} {th : Th} {ch ch2 : Nat} {op : MOp} {rest : List MOp} {o : Out}
    (hs : microStep s th ch ch2 op rest = some (s', o)) :
    ∀ op' ∈ s'.prog th, op'.isClose = true → op' ∈ rest := by
  have f1 : ∀ m, ∀ op ∈ onSendFail m, op.isClose = false := by
    intro m op ho; cases m <;> simp_all [onSendFail, MOp.isClose]
  cases op <;> simp only [microStep] at hs
  all_goals (try (split at hs))
  all_goals (try (split at hs))
  all_goals (try (split at hs))
  all_goals (try (split at hs))
  all_goals (try (simp at hs))
  all_goals (try (obtain ⟨rfl, -⟩ := hs))
  all_goals (intro op' hm hx)
  all_goals (simp only [setProg_prog, if_true, State.setProg, upd] at hm)
  all_goals (try (have f2 := handleReplyStep_noClose ‹handleReplyStep _ _ _ = some _›))
  all_goals (try (split at hm))
  all_goals (try (simp only [List.mem_append, List.mem_cons, List.mem_map, List.not_mem_nil, or_false, false_or] at hm))
  all_goals (try exact hm)
  all_goals (try (grind [MOp.isClose]))

/-- connections are owned by the contexts that registered them; a `closeConn` belongs to the owner's thread -/
structure OwnInv (s : State) : Prop where
  peers : ∀ c n cn, (s.ctx c).peers n = some cn → cn < s.nextConn ∧ ((s.conn cn).half n.isName).owner = c
  close : ∀ th cn cli, .closeConn cn cli ∈ s.prog th → cn < s.nextConn ∧ ((s.conn cn).half cli).owner = th.ctx

theorem ownInv_init : OwnInv State.init := by
  constructor <;> simp [State.init, CtxSt.init]


theorem handleReplyStep_peers {cs cs' : CtxSt} {id : ReqId} {ok : Bool} {more : List MOp} {o : Out}
    (h : handleReplyStep cs id ok = some (cs', more, o)) : cs'.peers = cs.peers := (handleReplyStep_rsubs h).2.2.2

set_option maxHeartbeats 1000000 in
/-- micro steps only ever unregister peers -/
theorem microStep_peers {s s' : State} {th : Th} {ch ch2 : Nat} {op : MOp} {rest : List MOp} {o : Out}
    (hs : microStep s th ch ch2 op rest = some (s', o)) :
    ∀ c n cn, (s'.ctx c).peers n = some cn → (s.ctx c).peers n = some cn := by
  cases op <;> simp only [microStep] at hs
  all_goals (try (split at hs))
  all_goals (try (split at hs))
  all_goals (try (split at hs))
  all_goals (try (split at hs))
  all_goals (try (simp at hs))
  all_goals (try (obtain ⟨rfl, -⟩ := hs))
  all_goals (intro c n cn h)
  all_goals (simp only [setProg_ctx, setCtx_ctx, State.setProg] at h)
  all_goals (try (split at h))
  all_goals (try (rename_i e; subst e))
  all_goals (try exact h)
  all_goals (try (rw [handleReplyStep_peers ‹handleReplyStep _ _ _ = some _›] at h; exact h))
  all_goals (try (simp only [upd, peerRemovedStep] at h; split at h <;> simp_all))

theorem ownInv_micro {s s' : State} {th : Th} {ch ch2 : Nat} {op : MOp} {rest : List MOp} {o : Out}
    (h : OwnInv s) (hprog : s.prog th = op :: rest) (hs : microStep s th ch ch2 op rest = some (s', o)) : OwnInv s' := by
  have hf := microStep_frame hs
  have hown := microStep_owner hs
  constructor
  · intro c n cn hp
    have := h.peers c n cn (microStep_peers hs c n cn hp)
    rw [hf.nextConn, hown]; exact this
  · intro th' cn cli hm
    rw [hf.nextConn, hown]
    by_cases e : th' = th
    · subst e
      have := microStep_noClose hs _ hm rfl
      exact h.close th' cn cli (by rw [hprog]; exact List.mem_cons_of_mem _ this)
    · rw [hf.prog_other th' e] at hm
      exact h.close th' cn cli hm

end QmiModel.PubSub
