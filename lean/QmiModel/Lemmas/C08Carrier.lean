import QmiModel.Lemmas.C08Quiet
import QmiModel.Lemmas.C08Steps
/-! C08: the carrier invariant of subscription requests — local layer.

Every outstanding request (`byId id ≠ none`) of a live context is carried by something inside that context: an
operation of one of its threads (the pending send, or the reply / error reply about to be handled), a callback in its
event-loop queue, or the pending-request table of one of its connection ends (`_PeerTcpConnection._pending_requests`).
No step loses a request. -/
namespace QmiModel.PubSub

def Msg.isReq (id : ReqId) : Msg → Bool
  | .subReq id' _ _ _ => id' == id
  | _ => false

/-- the operation carries request `id` of its context -/
def MOp.carries (id : ReqId) : MOp → Bool
  | .sendChk _ m => m.isReq id
  | .enq _ m => m.isReq id
  | .handleReply id' _ => id' == id
  | _ => false

def MOp.isCar : MOp → Bool
  | .sendChk _ (.subReq ..) => true
  | .enq _ (.subReq ..) => true
  | .handleReply .. => true
  | _ => false

def Cb.carries (id : ReqId) : Cb → Bool
  | .smSend _ m => m.isReq id
  | _ => false

theorem MOp.isCar_of_carries {op : MOp} {id : ReqId} (h : op.carries id = true) : op.isCar = true := by
  cases op <;> simp only [MOp.carries] at h <;> (try contradiction)
  all_goals (try (rename_i d m; cases m <;> simp_all [Msg.isReq, MOp.isCar]))
  rfl

/-- no carrier operation in the list -/
def carFree (l : List MOp) : Prop := ∀ op ∈ l, op.isCar = false

/-- carrier operations form a prefix of the program -/
def carPrefix : List MOp → Prop
  | [] => True
  | op :: l => if op.isCar = true then carPrefix l else carFree l

theorem carFree_nil : carFree [] := by simp [carFree]
theorem carFree_cons {op : MOp} {l : List MOp} : carFree (op :: l) ↔ op.isCar = false ∧ carFree l := by simp [carFree]
theorem carFree_append {l m : List MOp} : carFree (l ++ m) ↔ carFree l ∧ carFree m := by
  simp only [carFree, List.mem_append]
  constructor
  · intro h; exact ⟨fun op ho => h op (Or.inl ho), fun op ho => h op (Or.inr ho)⟩
  · rintro ⟨h1, h2⟩ op (ho | ho)
    · exact h1 op ho
    · exact h2 op ho

theorem carPrefix_of_carFree : ∀ {l : List MOp}, carFree l → carPrefix l
  | [], _ => trivial
  | op :: l, h => by
    have := carFree_cons.1 h
    simp only [carPrefix, this.1]
    exact this.2

theorem carPrefix_tail {op : MOp} {l : List MOp} (h : carPrefix (op :: l)) : carPrefix l := by
  simp only [carPrefix] at h
  split at h
  · exact h
  · exact carPrefix_of_carFree h

/-- carriers in front of a carrier-prefix list -/
theorem carPrefix_append_cars : ∀ {x rest : List MOp}, (∀ op ∈ x, op.isCar = true) → carPrefix rest → carPrefix (x ++ rest)
  | [], _, _, h => h
  | op :: x, rest, hx, h => by
    simp only [List.cons_append, carPrefix, hx op List.mem_cons_self, if_true]
    exact carPrefix_append_cars (fun o ho => hx o (List.mem_cons_of_mem _ ho)) h

/-- a carrier-prefix list in front of a carrier-free list -/
theorem carPrefix_append_free : ∀ {x rest : List MOp}, carPrefix x → carFree rest → carPrefix (x ++ rest)
  | [], _, _, h => carPrefix_of_carFree h
  | op :: x, rest, hx, h => by
    simp only [List.cons_append, carPrefix] at hx ⊢
    split
    · rename_i hc; simp only [hc, if_true] at hx; exact carPrefix_append_free hx h
    · rename_i hc; simp only [hc] at hx; exact carFree_append.2 ⟨hx, h⟩

/-- if the head is not a carrier, nothing behind it is -/
theorem carFree_rest_of_head {op : MOp} {rest : List MOp} (h : carPrefix (op :: rest)) (hop : op.isCar = false) : carFree rest := by
  simpa [carPrefix, hop] using h

end QmiModel.PubSub
