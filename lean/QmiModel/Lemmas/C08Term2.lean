import QmiModel.Lemmas.C08Term1
import QmiModel.Lemmas.C08Pend
/-! C08 — termination measure: what one micro-operation does to the part of the measure that belongs to its thread and
its context. -/
namespace QmiModel.PubSub
set_option linter.unusedSimpArgs false

theorem sumTo_le_at {n : Nat} {f g : Nat → Nat} {i W : Nat} (hi : i < n) (h : ∀ j, j ≠ i → g j ≤ f j) (hW : g i + W ≤ f i) :
    sumTo n g + W ≤ sumTo n f := by
  induction n with
  | zero => exact absurd hi (Nat.not_lt_zero _)
  | succ n ih =>
    simp only [sumTo]
    by_cases e : i = n
    · subst e
      have := sumTo_le (n := i) (f := g) (g := f) (fun j hj => h j (Nat.ne_of_lt hj))
      omega
    · have hi' : i < n := Nat.lt_of_le_of_ne (Nat.le_of_lt_succ hi) e
      have := ih hi'
      have := h n (fun e' => e e'.symm)
      omega

theorem sumTo_le_add_at {n : Nat} {f g : Nat → Nat} (i W : Nat) (h : ∀ j, j ≠ i → g j ≤ f j) (hW : g i ≤ f i + W) :
    sumTo n g ≤ sumTo n f + W := by
  induction n with
  | zero => simp [sumTo]
  | succ n ih =>
    simp only [sumTo]
    by_cases e : i = n
    · subst e
      have := sumTo_le (n := i) (f := g) (g := f) (fun j hj => h j (Nat.ne_of_lt hj))
      omega
    · have := h n (fun e' => e e'.symm)
      omega

/-! ### the pending table -/

theorem potEnt_upd_same {byId : ReqId → Option ReqId} {pobj : ReqId → Option PObj} {pid : ReqId} {po po' : PObj}
    (hpo : pobj pid = some po) (h1 : po'.sub = po.sub) (h2 : po'.cancelled = po.cancelled) (id : ReqId) :
    potEnt byId (upd pobj pid (some po')) id = potEnt byId pobj id := by
  unfold potEnt
  cases hb : byId id with
  | none => rfl
  | some p =>
    simp only [upd]
    by_cases e : p = pid
    · subst e; simp only [if_true, hpo, h1, h2]
    · simp only [if_neg e]

theorem potEnt_none {byId : ReqId → Option ReqId} {pobj : ReqId → Option PObj} {id : ReqId} (h : byId id = none) :
    potEnt byId pobj id = 0 := by
  unfold potEnt; rw [h]

/-- `_handle_subscription_reply`: a re-send is paid for by the mark of the pending request -/
theorem handleReplyStep_pot {cs cs' : CtxSt} {id : ReqId} {ok : Bool} {more : List MOp} {o : Out} (hp : PendOk cs)
    (h : handleReplyStep cs id ok = some (cs', more, o)) :
    W1 more + potPend cs' ≤ potPend cs ∧ cs'.loopQ = cs.loopQ := by
  unfold handleReplyStep at h
  split at h
  · simp only [Option.some.injEq, Prod.mk.injEq] at h; obtain ⟨rfl, rfl, -⟩ := h; simp [W1]
  · rename_i pid hid
    split at h
    · simp only [Option.some.injEq, Prod.mk.injEq] at h; obtain ⟨rfl, rfl, -⟩ := h; simp [W1]
    · rename_i po hpo
      have hlt : id < cs.nextReq := Nat.lt_of_not_le (fun hle => by have := (hp.fresh id hle).1; rw [hid] at this; cases this)
      split at h
      · simp only [Option.some.injEq, Prod.mk.injEq] at h; obtain ⟨rfl, rfl, -⟩ := h
        refine ⟨?_, rfl⟩
        simp only [W1_nil, Nat.zero_add, potPend, potTab]
        refine sumTo_le (fun i _ => ?_)
        rw [potEnt_upd_same (byId := upd cs.byId id none) (po' := { po with done := some (ok && !po.cancelled) }) hpo rfl rfl i]
        by_cases e : i = id
        · subst e; rw [potEnt_none (by simp [upd])]; exact Nat.zero_le _
        · unfold potEnt; simp only [upd, if_neg e]; exact Nat.le_refl _
      · rename_i hc1
        split at h
        · rename_i hc2
          simp only [Option.some.injEq, Prod.mk.injEq] at h; obtain ⟨rfl, rfl, -⟩ := h
          refine ⟨?_, rfl⟩
          have hfr := (hp.fresh cs.nextReq (Nat.le_refl _)).1
          have hw : W1 [MOp.sendChk po.key.pc (.subReq cs.nextReq po.key.ob po.key.sg true)] = Wcyc := by
            simp [W1, w1, wCb, wMsg, reqW, Msg.reqId?, Wcyc_eq, wmReq_eq, Whr_eq]
          rw [hw]
          simp only [potPend, potTab, sumTo]
          have hlast : potEnt (upd (upd cs.byId id none) cs.nextReq (some pid))
              (upd cs.pobj pid (some { po with sub := true, cancelled := false, cur := cs.nextReq })) cs.nextReq = 0 := by
            unfold potEnt; simp [upd]
          rw [hlast, Nat.add_zero, Nat.add_comm]
          refine sumTo_le_at hlt (fun j hj => ?_) ?_
          · by_cases e : j = cs.nextReq
            · subst e; rw [hlast]; exact Nat.zero_le _
            · unfold potEnt
              simp only [upd, if_neg e, if_neg hj]
              cases hb : cs.byId j with
              | none => exact Nat.le_refl _
              | some p =>
                by_cases e2 : p = pid
                · subst e2; simp [hpo]
                · simp only [if_neg e2]; exact Nat.le_refl _
          · have h0 : potEnt (upd (upd cs.byId id none) cs.nextReq (some pid))
                (upd cs.pobj pid (some { po with sub := true, cancelled := false, cur := cs.nextReq })) id = 0 := by
              unfold potEnt; simp [upd, Nat.ne_of_lt hlt]
            rw [h0, Nat.zero_add]
            unfold potEnt; simp only [hid, hpo]
            by_cases hs : po.sub = true
            · have : ok = true ∧ po.cancelled = true := Classical.byContradiction (fun hn => hc1 ⟨hs, hn⟩)
              simp [hs, this.2]
            · simp [hs]
        · simp only [Option.some.injEq, Prod.mk.injEq] at h; obtain ⟨rfl, rfl, -⟩ := h
          refine ⟨?_, rfl⟩
          simp only [W1_nil, Nat.zero_add, potPend, potTab]
          refine sumTo_le (fun i _ => ?_)
          by_cases e : i = id
          · subst e; rw [potEnt_none (by simp [upd])]; exact Nat.zero_le _
          · unfold potEnt; simp only [upd, if_neg e]; exact Nat.le_refl _


/-- a removal notice marks at most one pending request -/
theorem sigRemoved_pot {cs : CtxSt} (hp : PendOk cs) (k : Key) :
    potTab cs.byId (fun pid => (cs.pobj pid).map (fun po => po.cancelIf (decide (cs.byKey k = some pid) && po.sub))) cs.nextReq
      ≤ potPend cs + Wcyc := by
  simp only [potPend, potTab]
  cases hk : cs.byKey k with
  | none =>
    refine Nat.le_trans (Nat.le_of_eq (sumTo_congr (fun i _ => ?_))) (Nat.le_add_right _ _)
    unfold potEnt
    cases cs.byId i with
    | none => rfl
    | some p => cases cs.pobj p <;> simp [PObj.cancelIf]
  | some pid0 =>
    cases hpo : cs.pobj pid0 with
    | none => exact absurd hpo (hp.byKey_some k pid0 hk)
    | some po0 =>
      have hcur := hp.byKey_cur k pid0 po0 hk hpo
      refine sumTo_le_add_at po0.cur Wcyc (fun j hj => ?_) ?_
      · unfold potEnt
        cases hb : cs.byId j with
        | none => exact Nat.le_refl _
        | some p =>
          have hne : p ≠ pid0 := fun e => hj (hp.byId_inj j po0.cur pid0 (e ▸ hb) hcur)
          have hne' : pid0 ≠ p := fun e => hne e.symm
          cases cs.pobj p <;> simp [PObj.cancelIf, hne']
      · unfold potEnt
        simp only [hcur, hpo, Option.map_some]
        cases hs : po0.sub <;> cases hc : po0.cancelled <;> simp [PObj.cancelIf, hs, hc]

/-- a new pending-request object -/
theorem newReq_pot {cs : CtxSt} (hp : PendOk cs) (po : PObj) :
    potTab (upd cs.byId cs.nextReq (some cs.nextReq)) (upd cs.pobj cs.nextReq (some po)) (cs.nextReq + 1)
      = potPend cs + ((if po.sub then 0 else Wcyc) + (if po.cancelled then Wcyc else 0)) := by
  simp only [potPend, potTab, sumTo]
  have h1 : potEnt (upd cs.byId cs.nextReq (some cs.nextReq)) (upd cs.pobj cs.nextReq (some po)) cs.nextReq
      = (if po.sub then 0 else Wcyc) + (if po.cancelled then Wcyc else 0) := by
    unfold potEnt; simp [upd]
  rw [h1]
  congr 1
  refine sumTo_congr (fun i hi => ?_)
  unfold potEnt
  simp only [upd, if_neg (Nat.ne_of_lt hi)]
  cases hb : cs.byId i with
  | none => rfl
  | some p =>
    have : p ≠ cs.nextReq := fun e => hp.byId_some i p hb (e ▸ (hp.fresh cs.nextReq (Nat.le_refl _)).2)
    simp only [if_neg this]

theorem joinReq_pot {cs : CtxSt} {pid : ReqId} {po : PObj} (hpo : cs.pobj pid = some po) (l : List Rcv) :
    potTab cs.byId (upd cs.pobj pid (some { po with rcvs := l })) cs.nextReq = potPend cs := by
  simp only [potPend, potTab]
  exact sumTo_congr (fun i _ => potEnt_upd_same (po' := { po with rcvs := l }) hpo rfl rfl i)


/-! ### one micro-operation -/

/-- the part of `mu1` that belongs to a thread and its context -/
def loc1 (pr : List MOp) (cs : CtxSt) : Nat := W1 pr + loopW cs.loopQ + potPend cs

/-- operations that do not lower `mu1`: the two snapshots counted in `mu0`, a delivery (counted in `mu2`); `closeConn`
changes a connection and is treated apart -/
def MOp.slow : MOp → Bool
  | .snapRemote .. | .objRemoved .. | .deliver .. | .closeConn .. => true
  | _ => false

theorem W1_onSendFail (m : Msg) : W1 (onSendFail m) = reqW m := by
  cases m <;> simp [onSendFail, W1, w1, reqW, Msg.reqId?]

theorem loopW_append (l m : List Cb) : loopW (l ++ m) = loopW l + loopW m := by simp [loopW]
theorem loopW_cons (cb : Cb) (l : List Cb) : loopW (cb :: l) = wCb cb + loopW l := by simp [loopW]
theorem loopW_nil : loopW [] = 0 := rfl
theorem reqW_signal (ob : Obj) (sg : Sg) (p : Pub) : reqW (.signal ob sg p) = 0 := rfl
theorem reqW_subReq (id : ReqId) (ob : Obj) (sg : Sg) (b : Bool) : reqW (.subReq id ob sg b) = 1 := rfl
theorem reqW_subReply (id : ReqId) (ok : Bool) : reqW (.subReply id ok) = 0 := rfl
theorem reqW_removed (ob : Obj) (sg : Sg) : reqW (.removed ob sg) = 0 := rfl

theorem W1_pubTail (ps : List Peer) (ob : Obj) (sg : Sg) (p : Pub) (rest : List MOp) :
    W1 (if ps = [] then rest else .pubSend ps ob sg p :: rest) = ps.length * 5 + W1 rest := by
  split
  · rename_i h; subst h; simp
  · simp [W1_cons, w1, wEnqSignal_eq]

theorem W1_notTail (ns : List (Sg × Peer)) (ob : Obj) (rest : List MOp) :
    W1 (if ns = [] then rest else .notify ns ob :: rest) = ns.length * 19 + W1 rest := by
  split
  · rename_i h; subst h; simp
  · simp [W1_cons, w1, wEnqRemoved_eq]

set_option maxHeartbeats 4000000 in
theorem micro_loc1 {s s' : State} {th : Th} {ch ch2 : Nat} {op : MOp} {rest : List MOp} {o : Out}
    (hp : PendOk (s.ctx th.ctx)) (hs : microStep s th ch ch2 op rest = some (s', o)) (hop : op.slow = false) :
    loc1 (s'.prog th) (s'.ctx th.ctx) < loc1 (op :: rest) (s.ctx th.ctx) := by
  cases op <;> simp only [MOp.slow] at hop <;> (try contradiction) <;> simp only [microStep] at hs
  all_goals (try (split at hs))
  all_goals (try (split at hs))
  all_goals (try (split at hs))
  all_goals (try (split at hs))
  all_goals (try (simp at hs))
  all_goals (try (have f2 := handleReplyStep_pot hp ‹handleReplyStep _ _ _ = some _›))
  all_goals (try (obtain ⟨rfl, -⟩ := hs))
  all_goals (simp only [loc1, State.setProg, State.setCtx, upd, if_true, W1_cons, W1_append, W1_nil, w1, wCb, loopW_append,
    W1_onSendFail, W1_pubTail, W1_notTail, loopW_cons, loopW_nil, potPend, peerRemovedStep, wMsg, reqW_signal, reqW_subReq,
    reqW_subReply, reqW_removed,
    Whr_eq, wmReply_eq, wSendReply_eq, wReqChk2_eq, wReqChk1_eq, wmReq_eq, wcbReq_eq, wSendReq_eq, Wcyc_eq, wSigRemoved_eq,
    wmRemoved_eq, wEnqRemoved_eq, wmSignal_eq, wEnqSignal_eq])
  all_goals (try omega)
  all_goals (try (have hmem := List.mem_of_find?_eq_some ‹List.find? _ _ = some _›; have hlen := List.length_erase_of_mem hmem
                  have hpos := List.length_pos_of_mem hmem; omega))
  · rename_i k r _ _ pid _ _ po hpo
    have := joinReq_pot hpo (ins po.rcvs r)
    simp only [potPend] at this
    omega
  · rename_i k r _ _ _
    have := newReq_pot hp ⟨k, true, [r], none, false, (s.ctx th.ctx).nextReq⟩
    simp [potPend, Wcyc_eq] at this
    omega
  · rename_i k r _ _ _ _
    have := newReq_pot hp ⟨k, false, [], none, false, (s.ctx th.ctx).nextReq⟩
    simp [potPend, Wcyc_eq] at this
    omega
  · obtain ⟨f2, f3⟩ := f2
    simp only [potPend] at f2
    rw [f3]
    omega
  · rename_i k
    have := sigRemoved_pot hp k
    simp [potPend, Wcyc_eq] at this
    omega

end QmiModel.PubSub
