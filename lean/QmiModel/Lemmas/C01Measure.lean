import QmiModel.Lemmas.C01Basic
/-! A termination measure: every internal action strictly decreases `mu`; hence the system's own activity
always comes to rest after at most `mu s` steps unless the environment keeps issuing calls. -/
namespace QmiModel.Rpc

variable (cfg : Cfg) (attr : ReqId → Attr)

def phaseW : Phase → Nat
  | .idle => 1
  | .busy _ => 4
  | .drained => 0
  | .crashed => 0

def sockW : Sock → Nat
  | .up => 2
  | .stopping => 1
  | .down => 0

def b2n (b : Bool) : Nat := if b then 1 else 0

def mu (s : State) : Nat :=
  8 * s.unsent.length + 7 * s.checked.length + 6 * s.aQ.length + 5 * s.wireAB.length + 4 * s.fifo.length +
  phaseW s.phase + 2 * s.bQ.length + s.wireBA.length + b2n s.connA + b2n s.connB + sockW s.aSock + sockW s.bSock

theorem route_bQ_len (s : State) (r o) : (route attr s r o).bQ.length ≤ s.bQ.length + 1 := by
  rcases route_cases attr s r o with e | e | e <;> rw [e] <;> simp

theorem routeAll_bQ_len (s : State) (rs o) : (routeAll attr s rs o).bQ.length ≤ s.bQ.length + rs.length := by
  induction rs generalizing s with
  | nil => simp [routeAll_nil]
  | cons r rs ih =>
    rw [routeAll_cons]
    have h1 := ih (route attr s r o)
    have h2 := route_bQ_len attr s r o
    simp only [List.length_cons]; omega

theorem mu_core {s t : State} (c : SameCore s t) :
    mu t + 2 * s.bQ.length = mu s + 2 * t.bQ.length := by
  simp only [mu, c.unsent, c.checked, c.aQ, c.wireAB, c.fifo, c.phase, c.wireBA, c.connA, c.connB, c.aSock, c.bSock]
  omega

theorem erase_len {r : ReqId} {l : List ReqId} (h : r ∈ l) : (l.erase r).length + 1 = l.length := by
  have := List.length_erase_of_mem h
  have hp : 0 < l.length := List.length_pos_of_mem h
  omega

theorem sockW_le_two (x : Sock) : sockW x ≤ 2 := by cases x <;> simp [sockW]
theorem b2n_le_one (b : Bool) : b2n b ≤ 1 := by cases b <;> simp [b2n]

theorem internal_decreases {s s' : State} {a : Act} (hi : Internal a = true) (h : step cfg attr s a = some s') :
    mu s' < mu s := by
  cases a <;> simp only [Internal] at hi <;> simp only [step] at h
  case send r =>
    split at h
    · next hm =>
      have := erase_len hm
      split at h
      · split at h <;> simp at h <;> subst h <;> simp only [mu, List.length_append, List.length_cons, List.length_nil] <;> omega
      · split at h <;> simp at h <;> subst h <;> simp only [mu, List.length_append, List.length_cons, List.length_nil] <;> omega
    · simp at h
  case enq r =>
    split at h
    · next hm =>
      have := erase_len hm
      split at h <;> simp at h <;> subst h <;> simp only [mu, List.length_append, List.length_cons, List.length_nil] <;> omega
    · simp at h
  case loopA =>
    split at h
    · simp at h
    · next hnd =>
      split at h
      · simp at h
      · next r q haq =>
        repeat' split at h
        all_goals
          simp at h; subst h
          simp only [mu, haq, List.length_append, List.length_cons, List.length_nil]
          omega
      · next r o q haq =>
        simp at h; subst h
        simp only [mu, haq, List.length_cons]; omega
      · next q haq =>
        simp at h; subst h
        have := b2n_le_one s.connA
        simp only [mu, haq, List.length_cons, b2n]; simp only [b2n] at this; simp; omega
      · next q haq =>
        simp at h; subst h
        have := sockW_le_two s.aSock
        have h2 : 1 ≤ sockW s.aSock := by cases hs : s.aSock <;> simp_all [sockW]
        simp only [mu, haq, List.length_cons, sockW]; omega
  case loopExitA =>
    split at h
    · next hst => simp at h; subst h; simp only [mu, hst, sockW, List.length_nil]; omega
    · simp at h
  case recvA =>
    split at h
    · simp at h
    · split at h
      · next r o w hw => simp at h; subst h; simp only [mu, hw, List.length_cons]; omega
      · next r w hw => simp at h; subst h; simp only [mu, hw, List.length_cons]; omega
      · simp at h
  case eofA =>
    split at h
    · next hc => simp at h; subst h; simp only [mu, hc.2.1, b2n]; simp
    · simp at h
  case loopB =>
    split at h
    · simp at h
    · next hnd =>
      split at h
      · simp at h
      · next r o q hbq =>
        repeat' split at h
        all_goals
          simp at h; subst h
          simp only [mu, hbq, List.length_append, List.length_cons, List.length_nil]
          omega
      · next r q hbq =>
        simp at h; subst h
        simp only [mu, hbq, List.length_cons]; omega
      · next q hbq =>
        simp at h; subst h
        have := b2n_le_one s.connB
        simp only [mu, hbq, List.length_cons, b2n]; simp only [b2n] at this; simp; omega
      · next q hbq =>
        simp at h; subst h
        have := sockW_le_two s.bSock
        have h2 : 1 ≤ sockW s.bSock := by cases hs : s.bSock <;> simp_all [sockW]
        simp only [mu, hbq, List.length_cons, sockW]; omega
  case loopExitB =>
    split at h
    · next hst => simp at h; subst h; simp only [mu, hst, sockW, List.length_nil]; omega
    · simp at h
  case recvB =>
    split at h
    · simp at h
    · split at h
      · next r w hw =>
        split at h <;> simp at h <;> subst h <;>
          simp only [mu, hw, List.length_append, List.length_cons, List.length_nil] <;> omega
      · next r o w hw => simp at h; subst h; simp only [mu, hw, List.length_cons]; omega
      · simp at h
  case eofB =>
    split at h
    · next hc => simp at h; subst h; simp only [mu, hc.2.1, b2n]; simp
    · simp at h
  case pop =>
    split at h
    · next r rest hph hf =>
      split at h <;> simp at h; subst h
      simp only [mu, hph, hf, phaseW, List.length_cons]; omega
    · simp at h
  case finish o =>
    split at h
    · next r hph =>
      split at h
      · simp at h
      · split at h
        · simp at h; subst h; simp only [mu, hph, phaseW]; omega
        · simp at h; subst h
          have c := route_core attr { s with phase := .idle, executed := s.executed ++ [(r, o)] } r o
          have hm := mu_core c
          have hl := route_bQ_len attr { s with phase := .idle, executed := s.executed ++ [(r, o)] } r o
          have e : mu { s with phase := .idle, executed := s.executed ++ [(r, o)] } + 3 = mu s := by
            simp only [mu, hph, phaseW]; omega
          simp only [] at hm hl
          omega
    · simp at h
  case drain =>
    split at h
    · next hph =>
      split at h
      · simp at h; subst h
        have c := routeAll_core attr { s with phase := .drained, fifo := [] } s.fifo .deliveryErr
        have hm := mu_core c
        have hl := routeAll_bQ_len attr { s with phase := .drained, fifo := [] } s.fifo .deliveryErr
        have e : mu { s with phase := .drained, fifo := [] } + 1 + 4 * s.fifo.length = mu s := by
          simp only [mu, hph, phaseW, List.length_nil]; omega
        simp only [] at hm hl
        omega
      · simp at h
    · simp at h
  all_goals cases hi

/-- a run consisting of internal actions only has length at most `mu s`: the system's own activity terminates -/
theorem internal_run_bounded (as : List Act) (hall : ∀ a ∈ as, Internal a = true) :
    ∀ s s', run cfg attr s as = some s' → as.length + mu s' ≤ mu s := by
  induction as with
  | nil => intro s s' h; simp [run] at h; subst h; simp
  | cons a as ih =>
    intro s s' h
    simp only [run] at h
    split at h
    · next t ht =>
      have h1 := internal_decreases cfg attr (hall a (by simp)) ht
      have h2 := ih (fun b hb => hall b (by simp [hb])) t s' h
      simp only [List.length_cons]; omega
    · simp at h

end QmiModel.Rpc
