import QmiModel.Lemmas.C01CarrierStep
/-! Enabledness lemmas and "quiescent ⇒ every call has its outcome". -/
namespace QmiModel.Rpc

variable (cfg : Cfg) (attr : ReqId → Attr)

/-- no internal action is enabled: all threads of the system are idle/blocked -/
def Quiescent (s : State) : Prop := ∀ a, Internal a = true → step cfg attr s a = none

theorem send_enabled {s : State} {r : ReqId} (h : r ∈ s.unsent) : (step cfg attr s (.send r)).isSome := by
  simp only [step, h, if_true]
  split <;> split <;> simp

theorem enq_enabled {s : State} {r : ReqId} (h : r ∈ s.checked) : (step cfg attr s (.enq r)).isSome := by
  simp only [step, h, if_true]
  split <;> simp

theorem loopA_enabled {s : State} (h1 : s.aSock ≠ .down) (h2 : s.aQ ≠ []) : (step cfg attr s .loopA).isSome := by
  simp only [step, h1, if_false]
  split
  · next e => exact absurd e h2
  · split
    · simp
    · split
      · split <;> simp
      · split <;> simp
  · simp
  · simp
  · simp

theorem loopB_enabled {s : State} (h1 : s.bSock ≠ .down) (h2 : s.bQ ≠ []) : (step cfg attr s .loopB).isSome := by
  simp only [step, h1, if_false]
  split
  · next e => exact absurd e h2
  · split
    · simp
    · split
      · split <;> simp
      · split
        · split <;> simp
        · split <;> simp
  · simp
  · simp
  · simp

theorem recvA_enabled {s : State} (h1 : s.aSock ≠ .down) (h2 : s.connA = true) (h3 : s.wireBA ≠ []) :
    (step cfg attr s .recvA).isSome := by
  simp only [step, h1, h2, not_true_eq_false, or_self, if_false]
  split
  · simp
  · simp
  · next e => exact absurd e h3

theorem recvB_enabled {s : State} (h1 : s.bSock ≠ .down) (h2 : s.connB = true) (h3 : s.wireAB ≠ []) :
    (step cfg attr s .recvB).isSome := by
  simp only [step, h1, h2, not_true_eq_false, or_self, if_false]
  split
  · split <;> simp
  · simp
  · next e => exact absurd e h3

theorem eofA_enabled {s : State} (h1 : s.aSock ≠ .down) (h2 : s.connA = true) (h3 : s.connB = false)
    (h4 : s.wireBA = []) : (step cfg attr s .eofA).isSome := by
  simp [step, h1, h2, h3, h4]

/-- the worker always has something to do while a request sits in its queue or is being executed -/
theorem worker_enabled {s : State} (hs : SInv Cfg.sound s) (r : ReqId) (h : r ∈ s.fifo ∨ ∃ x, s.phase = .busy x) :
    (step Cfg.sound attr s .pop).isSome ∨ (step Cfg.sound attr s (.finish .value)).isSome ∨
    (step Cfg.sound attr s .drain).isSome := by
  cases hp : s.phase with
  | idle =>
    rcases h with h | ⟨x, h⟩
    · cases hsd : s.shutdown with
      | true => exact Or.inr (Or.inr (by simp [step, hp, hsd]))
      | false =>
        cases hf : s.fifo with
        | nil => rw [hf] at h; simp at h
        | cons y rest => exact Or.inl (by simp [step, hp, hf, hsd])
    · rw [hp] at h; cases h
  | busy x => exact Or.inr (Or.inl (by simp [step, hp, Cfg.sound]))
  | drained =>
    rcases h with h | ⟨x, h⟩
    · rw [(hs.drained hp).2] at h; simp at h
    · rw [hp] at h; cases h
  | crashed => exact absurd hp (hs.crash rfl)

theorem ne_nil_of_mem' {α} {x : α} {l : List α} (h : x ∈ l) : l ≠ [] := by
  intro e; rw [e] at h; simp at h

/-- **When the system comes to rest every call has its outcome** (repaired configuration, client not stopped). -/
theorem stuck_implies_done {s : State} (hs : SInv Cfg.sound s) (hc : CInv attr s) (hA : s.aStop = false)
    (hq : Quiescent Cfg.sound attr s) : ∀ r ∈ s.issued, s.result r ≠ none := by
  intro r hr hn
  have en : ∀ a, Internal a = true → (step Cfg.sound attr s a).isSome → False := by
    intro a ha he; rw [hq a ha] at he; simp at he
  have hup := (hs.aNoStop hA).1
  have haup : s.aSock ≠ .down := by rw [hup]; simp
  have work : (r ∈ s.fifo ∨ ∃ x, s.phase = .busy x) → False := by
    intro hw
    rcases worker_enabled attr hs r hw with h | h | h
    · exact en _ rfl h
    · exact en _ rfl h
    · exact en _ rfl h
  have bclosed : s.connA = true → s.connB = false → False := by
    intro h2 h3
    cases hw : s.wireBA with
    | nil => exact en _ rfl (eofA_enabled _ attr haup h2 h3 hw)
    | cons m w => exact en _ rfl (recvA_enabled _ attr haup h2 (by rw [hw]; simp))
  have bq : s.connA = true → s.bQ ≠ [] → False := by
    intro h2 hne
    by_cases hd : s.bSock = .down
    · exact hne (hs.bDown_q hd)
    · exact en _ rfl (loopB_enabled _ attr hd hne)
  rcases hc hA r hr hn with g | g
  · exact en _ rfl (send_enabled _ attr g)
  · unfold Carrier at g
    cases hp : (attr r).place <;> simp only [hp] at g
    · rcases g with g | g
      · exact work (Or.inl g)
      · exact work (Or.inr ⟨r, g⟩)
    · rcases g with g | g | ⟨h1, h2, h3⟩
      · exact en _ rfl (enq_enabled _ attr g)
      · exact en _ rfl (loopA_enabled _ attr haup (ne_nil_of_mem' g))
      · rcases h3 with h3 | h3 | h3 | ⟨o', h3⟩ | ⟨o', h3⟩ | h3 | h3
        · by_cases hcb : s.connB = true
          · by_cases hd : s.bSock = .down
            · have := hs.bSock_conn (by rw [hd]; simp); rw [this] at hcb; simp at hcb
            · exact en _ rfl (recvB_enabled _ attr hd hcb (ne_nil_of_mem' h3))
          · exact bclosed h2 (by simpa using hcb)
        · exact work (Or.inl h3)
        · exact work (Or.inr ⟨r, h3⟩)
        · exact bq h2 (ne_nil_of_mem' h3)
        · exact en _ rfl (recvA_enabled _ attr haup h2 (ne_nil_of_mem' h3))
        · exact bclosed h2 h3
        · exact bq h2 (ne_nil_of_mem' h3)

end QmiModel.Rpc
