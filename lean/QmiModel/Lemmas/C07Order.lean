import QmiModel.Lemmas.C07Unsub
/-! C07: order of deliveries per publishing thread (thread-local layer). -/
namespace QmiModel.PubSub

/-- the thread that took snapshot `sid` -/
def takerOf (s : State) (sid : Nat) : Option Th := (s.snaps[sid]?).map Snap.taker

/-- a thread delivers its snapshots one after the other -/
structure OrdInv (s : State) : Prop where
  active : ∀ th sid rs k p, headDlv (s.prog th) = some (sid, rs, k, p) →
            ∀ (j : Nat) sn, s.snaps[j]? = some sn → sn.taker = th → j ≤ sid
  got : ∀ c r, ((s.ctx c).got r).Pairwise (fun a b => takerOf s a.sid = takerOf s b.sid → a.sid < b.sid)
  taker_ctx : ∀ (j : Nat) sn, s.snaps[j]? = some sn → sn.taker.ctx = sn.c

theorem ordInv_init : OrdInv State.init := by
  constructor <;> simp [State.init, CtxSt.init, headDlv]

theorem takerOf_append {s : State} {sn : Snap} {sid : Nat} (h : sid < s.snaps.length) :
    ((s.snaps ++ [sn])[sid]?).map Snap.taker = takerOf s sid := by
  simp only [takerOf]
  rw [List.getElem?_append_left h]

/-- a step that neither delivers nor takes a snapshot -/
theorem OrdInv.of_quiet {s s' : State} (h : OrdInv s) (hsn : s'.snaps = s.snaps)
    (hg : ∀ c, (s'.ctx c).got = (s.ctx c).got)
    (hp : ∀ th, s'.prog th = s.prog th ∨ (noDlv (s'.prog th) ∧ headDlv (s.prog th) = none)) : OrdInv s' := by
  constructor
  · intro th sid rs k p hx j sn hj ht
    rcases hp th with e | ⟨hn, -⟩
    · rw [e] at hx; rw [hsn] at hj; exact h.active th sid rs k p hx j sn hj ht
    · rw [headDlv_of_noDlv hn] at hx; simp at hx
  · intro c r
    rw [hg]
    have : ∀ sid, takerOf s' sid = takerOf s sid := by intro sid; simp [takerOf, hsn]
    simpa only [this] using h.got c r
  · intro j sn hj
    rw [hsn] at hj; exact h.taker_ctx j sn hj

theorem ordInv_snapLocal {s : State} {th : Th} {k : Key} {p : Pub} {rest : List MOp}
    (h : OrdInv s) (hd : DlvInv s) (hprog : s.prog th = .snapLocal k p :: rest) :
    OrdInv { (s.setProg th (if (s.ctx th.ctx).lsubs k = [] then rest
                else .deliver s.snaps.length ((s.ctx th.ctx).lsubs k) k p :: rest)) with
             snaps := s.snaps ++ [⟨th.ctx, k, p, (s.ctx th.ctx).lsubs k, th⟩] } := by
  have hrest : noDlv rest := by have := hd.tail th; rw [hprog] at this; exact this
  have hnone : headDlv (s.prog th) = none := by rw [hprog]; rfl
  constructor
  · intro th' sid rs k' p' hx j sn hj ht
    simp only [setProg_prog] at hx
    by_cases hlt : j < s.snaps.length
    · have hj' : s.snaps[j]? = some sn := by
        simp only at hj; rw [List.getElem?_append_left hlt] at hj; exact hj
      split at hx
      · rename_i e; subst e
        split at hx
        · rw [headDlv_of_noDlv hrest] at hx; simp at hx
        · simp only [headDlv, Option.some.injEq, Prod.mk.injEq] at hx
          obtain ⟨rfl, -⟩ := hx
          exact Nat.le_of_lt hlt
      · exact h.active th' sid rs k' p' hx j sn hj' ht
    · have hlen : j = s.snaps.length := by
        have := lt_of_getElem?_some hj
        simp at this; omega
      subst hlen
      simp at hj
      subst hj
      simp only at ht
      subst ht
      simp only [if_true] at hx
      split at hx
      · rw [headDlv_of_noDlv hrest] at hx; simp at hx
      · simp only [headDlv, Option.some.injEq, Prod.mk.injEq] at hx
        obtain ⟨rfl, -⟩ := hx
        exact Nat.le_refl _
  · intro c r
    have hg := h.got c r
    simp only [setProg_ctx]
    refine hg.imp_of_mem ?_
    intro a b ha hb hab e
    obtain ⟨_, _, ha1, -⟩ := hd.got_snap c r a ha
    obtain ⟨_, _, hb1, -⟩ := hd.got_snap c r b hb
    have la := lt_of_getElem?_some ha1
    have lb := lt_of_getElem?_some hb1
    simp only [takerOf] at e hab
    rw [List.getElem?_append_left la, List.getElem?_append_left lb] at e
    exact hab e
  · intro j sn hj
    by_cases hlt : j < s.snaps.length
    · have hj' : s.snaps[j]? = some sn := by
        simp only at hj; rw [List.getElem?_append_left hlt] at hj; exact hj
      exact h.taker_ctx j sn hj'
    · have hlen : j = s.snaps.length := by
        have := lt_of_getElem?_some hj
        simp at this; omega
      subst hlen
      simp at hj
      subst hj
      rfl

theorem ordInv_deliver {s : State} {th : Th} {sid : Nat} {rs : List Rcv} {k : Key} {p : Pub} {rest : List MOp} {r0 : Rcv}
    (h : OrdInv s) (hd : DlvInv s) (hprog : s.prog th = .deliver sid rs k p :: rest) (hr0 : r0 ∈ rs) :
    OrdInv ((s.setCtx th.ctx { (s.ctx th.ctx) with
                got := upd (s.ctx th.ctx).got r0 ((s.ctx th.ctx).got r0 ++ [⟨k, p, sid⟩]) }).setProg th
              (if rs.erase r0 = [] then rest else .deliver sid (rs.erase r0) k p :: rest)) := by
  have hrest : noDlv rest := by have := hd.tail th; rw [hprog] at this; exact this
  have hhead : headDlv (s.prog th) = some (sid, rs, k, p) := by rw [hprog]; rfl
  obtain ⟨rs0, w1, w2, w3, w4, w5⟩ := hd.wf th sid rs k p hhead
  constructor
  · intro th' sid' rs' k' p' hx j sn hj ht
    simp only [setProg_prog] at hx
    simp only [setProg_snaps, setCtx_snaps] at hj
    split at hx
    · rename_i e; subst e
      split at hx
      · rw [headDlv_of_noDlv hrest] at hx; simp at hx
      · simp only [headDlv, Option.some.injEq, Prod.mk.injEq] at hx
        obtain ⟨rfl, -⟩ := hx
        exact h.active th' sid rs k p hhead j sn hj ht
    · exact h.active th' sid' rs' k' p' hx j sn hj ht
  · intro c r
    have htk : ∀ x, takerOf ((s.setCtx th.ctx { (s.ctx th.ctx) with
                got := upd (s.ctx th.ctx).got r0 ((s.ctx th.ctx).got r0 ++ [⟨k, p, sid⟩]) }).setProg th
              (if rs.erase r0 = [] then rest else .deliver sid (rs.erase r0) k p :: rest)) x = takerOf s x := by
      intro x; simp [takerOf]
    simp only [htk, setProg_ctx, setCtx_ctx]
    by_cases hc : c = th.ctx
    · subst hc
      simp only [if_true, upd]
      by_cases hr : r = r0
      · subst hr
        simp only [if_true]
        rw [List.pairwise_append]
        refine ⟨h.got _ _, by simp, ?_⟩
        intro a ha b hb e
        simp only [List.mem_singleton] at hb
        subst hb
        simp only at e ⊢
        -- a was delivered earlier from a snapshot taken by the same thread: its index is below the active one
        obtain ⟨rsa, tka, ha1, -⟩ := hd.got_snap _ _ a ha
        have hta : takerOf s a.sid = some tka := by simp [takerOf, ha1]
        have htb : takerOf s sid = some th := by simp [takerOf, w1]
        rw [hta, htb] at e
        simp only [Option.some.injEq] at e
        have hle := h.active th sid rs k p hhead a.sid _ ha1 (by simpa using e)
        have hne := w5 r hr0 a ha
        omega
      · simp only [hr, if_false]; exact h.got _ _
    · simp only [hc, if_false]; exact h.got _ _
  · intro j sn hj
    simp only [setProg_snaps, setCtx_snaps] at hj
    exact h.taker_ctx j sn hj

theorem ordInv_step {s s' : State} {a : Act} {o : Out} (hreach : Reach s) (h : OrdInv s)
    (hs : step s a = some (s', o)) : OrdInv s' := by
  have hd := dlvInv_reach hreach
  by_cases ha : ∃ th ch ch2, a = .micro th ch ch2
  · obtain ⟨th, ch, ch2, rfl⟩ := ha
    obtain ⟨-, op, rest, hprog, hm⟩ := step_micro_inv hs
    by_cases hdl : op.isDeliver = true
    · cases op <;> simp only [MOp.isDeliver] at hdl <;> try contradiction
      simp only [microStep] at hm
      split at hm
      · rename_i hmem
        simp only [Option.some.injEq, Prod.mk.injEq] at hm
        obtain ⟨rfl, -⟩ := hm
        exact ordInv_deliver h hd hprog hmem
      · simp at hm
    · by_cases hl : op.isSnapLocal = true
      · cases op <;> simp only [MOp.isSnapLocal] at hl <;> try contradiction
        simp only [microStep, Option.some.injEq, Prod.mk.injEq] at hm
        obtain ⟨rfl, -⟩ := hm
        exact ordInv_snapLocal h hd hprog
      · have hd' : op.isDeliver = false := by simpa using hdl
        have hl' : op.isSnapLocal = false := by simpa using hl
        have hrest : noDlv rest := by have := hd.tail th; rw [hprog] at this; exact this
        obtain ⟨h1, h2, h3⟩ := microStep_other hd' hl' hrest hm
        have hf := microStep_frame hm
        refine h.of_quiet h1 h2 (fun th' => ?_)
        by_cases e : th' = th
        · subst e
          right
          refine ⟨h3, ?_⟩
          rw [hprog]
          cases op <;> simp_all [headDlv, MOp.isDeliver]
        · left; exact hf.prog_other th' e
  · have ha' : ∀ th ch ch2, a ≠ .micro th ch ch2 := fun th ch ch2 e => ha ⟨th, ch, ch2, e⟩
    refine h.of_quiet (step_nonmicro_snaps ha' hs) (fun c => (step_nonmicro_tables ha' hs c).got) (fun th' => ?_)
    rcases step_nonmicro_prog ha' hs th' with e | ⟨h0, hn, -⟩
    · left; exact e
    · right; exact ⟨hn, by rw [h0]; rfl⟩

theorem ordInv_reach {s : State} (h : Reach s) : OrdInv s := by
  induction h with
  | init => exact ordInv_init
  | step hr hs ih => exact ordInv_step hr ih hs


theorem handleReplyStep_more {cs cs' : CtxSt} {id : ReqId} {ok : Bool} {more : List MOp} {o : Out}
    (h : handleReplyStep cs id ok = some (cs', more, o)) : ∀ op ∈ more, op.isSnapLocal = false := by
  unfold handleReplyStep at h
  split at h
  · simp only [Option.some.injEq, Prod.mk.injEq] at h; obtain ⟨rfl, rfl, rfl⟩ := h; simp
  · split at h
    · simp only [Option.some.injEq, Prod.mk.injEq] at h; obtain ⟨rfl, rfl, rfl⟩ := h; simp
    · split at h
      · simp only [Option.some.injEq, Prod.mk.injEq] at h
        obtain ⟨-, rfl, -⟩ := h
        simp
      · split at h
        · simp only [Option.some.injEq, Prod.mk.injEq] at h
          obtain ⟨-, rfl, -⟩ := h
          simp [MOp.isSnapLocal]
        · simp only [Option.some.injEq, Prod.mk.injEq] at h
          obtain ⟨-, rfl, -⟩ := h
          simp

theorem onSendFail_noSnap (m : Msg) : ∀ op ∈ onSendFail m, op.isSnapLocal = false := by
  cases m <;> simp [onSendFail, MOp.isSnapLocal]

set_option maxHeartbeats 1000000 in
/-- a micro step never pushes a `snapLocal` operation: the ones in the new program were in the old rest -/
theorem microStep_noSnap {s s' : State} {th : Th} {ch ch2 : Nat} {op : MOp} {rest : List MOp} {o : Out}
    (hs : microStep s th ch ch2 op rest = some (s', o)) :
    ∀ op' ∈ s'.prog th, op'.isSnapLocal = true → op' ∈ rest := by
  have f1 := onSendFail_noSnap
  cases op <;> simp only [microStep] at hs
  all_goals (try (split at hs))
  all_goals (try (split at hs))
  all_goals (try (split at hs))
  all_goals (try (split at hs))
  all_goals (try (simp at hs))
  all_goals (try (obtain ⟨rfl, -⟩ := hs))
  all_goals (intro op' hm hx)
  all_goals (simp only [setProg_prog, if_true, State.setProg, upd] at hm)
  all_goals (try (have f2 := handleReplyStep_more ‹handleReplyStep _ _ _ = some _›))
  all_goals (try (split at hm))
  all_goals (try (simp only [List.mem_append, List.mem_cons, List.mem_map, List.not_mem_nil, or_false, false_or] at hm))
  all_goals (try exact hm)
  all_goals (try (grind [MOp.isSnapLocal]))


/-- a user thread takes the snapshots of its own publications, in publication order -/
structure SeqInv (s : State) : Prop where
  own : ∀ (j : Nat) sn c t, s.snaps[j]? = some sn → sn.taker = .user c t →
          sn.p.c = c ∧ sn.p.tid = t ∧ sn.p.seq < s.nextSeq t
  pend : ∀ c t k p, .snapLocal k p ∈ s.prog (.user c t) →
          p.c = c ∧ p.tid = t ∧ p.seq < s.nextSeq t ∧
          ∀ (j : Nat) sn, s.snaps[j]? = some sn → sn.taker = .user c t → sn.p.seq < p.seq
  tail : ∀ c t, ∀ op ∈ (s.prog (.user c t)).tail, op.isSnapLocal = false
  sorted : ∀ (i j : Nat) si sj c t, i < j → s.snaps[i]? = some si → s.snaps[j]? = some sj →
          si.taker = .user c t → sj.taker = .user c t → si.p.seq < sj.p.seq

theorem seqInv_init : SeqInv State.init := by
  constructor <;> simp [State.init]

theorem seqInv_micro {s s' : State} {th : Th} {ch ch2 : Nat} {op : MOp} {rest : List MOp} {o : Out}
    (h : SeqInv s) (hd : DlvInv s) (hprog : s.prog th = op :: rest)
    (hs : microStep s th ch ch2 op rest = some (s', o)) : SeqInv s' := by
  have hf := microStep_frame hs
  have hns := microStep_noSnap hs
  have hrest : noDlv rest := by have := hd.tail th; rw [hprog] at this; exact this
  -- the program of the acting thread contains no `snapLocal` after the step (if it is a user thread)
  have hnosnap : ∀ c t, th = .user c t → ∀ op' ∈ s'.prog th, op'.isSnapLocal = false := by
    intro c t e op' hm
    cases hx : op'.isSnapLocal with
    | false => rfl
    | true =>
      have := hns op' hm hx
      have h2 := h.tail c t op' (by rw [← e, hprog]; exact this)
      rw [h2] at hx; simp at hx
  by_cases hl : op.isSnapLocal = true
  · cases op <;> simp only [MOp.isSnapLocal] at hl <;> try contradiction
    rename_i k p
    have hsn : s'.snaps = s.snaps ++ [(⟨th.ctx, k, p, (s.ctx th.ctx).lsubs k, th⟩ : Snap)] := by
      simp only [microStep, Option.some.injEq, Prod.mk.injEq] at hs
      obtain ⟨rfl, -⟩ := hs
      rfl
    have key : ∀ (j : Nat) sn, s'.snaps[j]? = some sn →
        (j < s.snaps.length ∧ s.snaps[j]? = some sn) ∨ (j = s.snaps.length ∧ sn = ⟨th.ctx, k, p, (s.ctx th.ctx).lsubs k, th⟩) := by
      intro j sn hj
      rw [hsn] at hj
      by_cases hlt : j < s.snaps.length
      · left; rw [List.getElem?_append_left hlt] at hj; exact ⟨hlt, hj⟩
      · right
        have hlen : j = s.snaps.length := by
          have := lt_of_getElem?_some hj
          simp at this; omega
        subst hlen
        simp at hj
        exact ⟨rfl, hj.symm⟩
    constructor
    · intro j sn c t hj ht
      rw [hf.nextSeq]
      rcases key j sn hj with ⟨-, hj'⟩ | ⟨-, rfl⟩
      · exact h.own j sn c t hj' ht
      · simp only at ht
        subst ht
        have := h.pend c t k p (by rw [hprog]; exact List.mem_cons_self)
        exact ⟨this.1, this.2.1, this.2.2.1⟩
    · intro c t k' p' hm
      by_cases e : (Th.user c t) = th
      · have := hnosnap c t e.symm (.snapLocal k' p') (by rw [← e]; exact hm)
        simp [MOp.isSnapLocal] at this
      · have hm' : .snapLocal k' p' ∈ s.prog (.user c t) := by
          rw [hf.prog_other _ e] at hm; exact hm
        obtain ⟨h1, h2, h3, h4⟩ := h.pend c t k' p' hm'
        refine ⟨h1, h2, by rw [hf.nextSeq]; exact h3, ?_⟩
        intro j sn hj ht
        rcases key j sn hj with ⟨-, hj'⟩ | ⟨-, rfl⟩
        · exact h4 j sn hj' ht
        · simp only at ht; exact absurd ht.symm e
    · intro c t op' hm
      by_cases e : (Th.user c t) = th
      · exact hnosnap c t e.symm op' (by rw [← e]; exact List.mem_of_mem_tail hm)
      · rw [hf.prog_other _ e] at hm
        exact h.tail c t op' hm
    · intro i j si sj c t hij hi hj hti htj
      rcases key i si hi with ⟨li, hi'⟩ | ⟨li, rfl⟩ <;> rcases key j sj hj with ⟨lj, hj'⟩ | ⟨lj, rfl⟩
      · exact h.sorted i j si sj c t hij hi' hj' hti htj
      · simp only at htj
        subst htj
        exact (h.pend c t k p (by rw [hprog]; exact List.mem_cons_self)).2.2.2 i si hi' hti
      · omega
      · omega
  · have hl' : op.isSnapLocal = false := by simpa using hl
    have hsn : s'.snaps = s.snaps := by
      by_cases hdl : op.isDeliver = true
      · cases op <;> simp only [MOp.isDeliver] at hdl <;> try contradiction
        simp only [microStep] at hs
        split at hs
        · simp only [Option.some.injEq, Prod.mk.injEq] at hs
          obtain ⟨rfl, -⟩ := hs
          simp
        · simp at hs
      · exact (microStep_other (by simpa using hdl) hl' hrest hs).1
    have hprogs : ∀ c t, ∀ op' ∈ s'.prog (.user c t), op'.isSnapLocal = true → op' ∈ s.prog (.user c t) := by
      intro c t op' hm hx
      by_cases e : (Th.user c t) = th
      · rw [e] at hm ⊢
        rw [hprog]
        exact List.mem_cons_of_mem _ (hns op' hm hx)
      · rw [hf.prog_other _ e] at hm; exact hm
    constructor
    · intro j sn c t hj ht
      rw [hsn] at hj; rw [hf.nextSeq]
      exact h.own j sn c t hj ht
    · intro c t k' p' hm
      have := h.pend c t k' p' (hprogs c t _ hm rfl)
      rw [hf.nextSeq, hsn]; exact this
    · intro c t op' hm
      by_cases e : (Th.user c t) = th
      · exact hnosnap c t e.symm op' (by rw [← e]; exact List.mem_of_mem_tail hm)
      · rw [hf.prog_other _ e] at hm
        exact h.tail c t op' hm
    · intro i j si sj c t hij hi hj hti htj
      rw [hsn] at hi hj
      exact h.sorted i j si sj c t hij hi hj hti htj


theorem nextSeq_nonmicro {s s' : State} {a : Act} {o : Out} (hs : step s a = some (s', o))
    (hnb : ∀ c t ob sg, a ≠ .begin c t (.publish ob sg)) (hnm : ∀ th ch ch2, a ≠ .micro th ch ch2) : s'.nextSeq = s.nextSeq := by
  cases a with
  | micro th ch ch2 => exact absurd rfl (hnm th ch ch2)
  | begin c t op =>
    simp only [step] at hs
    split at hs
    · cases op with
      | publish ob sg => exact absurd rfl (hnb c t ob sg)
      | _ => simp at hs; obtain ⟨rfl, -⟩ := hs; rfl
    · simp at hs
  | cb c ok =>
    simp only [step] at hs
    split at hs
    · split at hs
      · simp at hs
      · split at hs
        · simp at hs
        · rename_i heq
          obtain ⟨-, -, -, -, hq, -⟩ := smSendStep_frame heq
          simp only [Option.some.injEq, Prod.mk.injEq] at hs
          obtain ⟨rfl, -⟩ := hs
          simp [hq]
      · split at hs
        all_goals
          simp at hs; obtain ⟨rfl, -⟩ := hs
          simp
    · simp at hs
  | arrive cn cli =>
    simp only [step] at hs
    split at hs
    · split at hs
      · simp at hs
      · simp only [Option.some.injEq, Prod.mk.injEq] at hs
        obtain ⟨rfl, -⟩ := hs
        simp [State.setProg]
    · simp at hs
  | eof cn cli =>
    simp only [step] at hs
    split at hs
    · simp only [Option.some.injEq, Prod.mk.injEq] at hs
      obtain ⟨rfl, -⟩ := hs
      simp
    · simp at hs
  | connect a p =>
    simp only [step] at hs
    split at hs
    · simp only [Option.some.injEq, Prod.mk.injEq] at hs
      obtain ⟨rfl, -⟩ := hs
      simp
    · simp at hs
  | routerOk c =>
    simp only [step] at hs
    split at hs
    · simp only [Option.some.injEq, Prod.mk.injEq] at hs
      obtain ⟨rfl, -⟩ := hs
      simp
    · simp at hs
  | stopReq c =>
    simp only [step] at hs
    split at hs
    · simp only [Option.some.injEq, Prod.mk.injEq] at hs
      obtain ⟨rfl, -⟩ := hs
      simp
    · simp at hs
  | stop c =>
    simp only [step] at hs
    split at hs
    · simp only [Option.some.injEq, Prod.mk.injEq] at hs
      obtain ⟨rfl, -⟩ := hs
      simp
    · simp at hs

theorem seqInv_step {s s' : State} {a : Act} {o : Out} (hreach : Reach s) (h : SeqInv s)
    (hs : step s a = some (s', o)) : SeqInv s' := by
  have hd := dlvInv_reach hreach
  by_cases ha : ∃ th ch ch2, a = .micro th ch ch2
  · obtain ⟨th, ch, ch2, rfl⟩ := ha
    obtain ⟨-, op, rest, hprog, hm⟩ := step_micro_inv hs
    exact seqInv_micro h hd hprog hm
  · have ha' : ∀ th ch ch2, a ≠ .micro th ch ch2 := fun th ch ch2 e => ha ⟨th, ch, ch2, e⟩
    have hsn := step_nonmicro_snaps ha' hs
    by_cases hb : ∃ c t ob sg, a = .begin c t (.publish ob sg)
    · obtain ⟨c0, t0, ob, sg, rfl⟩ := hb
      simp only [step] at hs
      split at hs
      · rename_i hc
        simp only [Option.some.injEq, Prod.mk.injEq] at hs
        obtain ⟨rfl, -⟩ := hs
        have hidle := hc.2
        constructor
        · intro j sn c t hj ht
          obtain ⟨h1, h2, h3⟩ := h.own j sn c t hj ht
          refine ⟨h1, h2, ?_⟩
          simp only [upd]
          split
          · rename_i e; subst e; exact Nat.lt_succ_of_lt h3
          · exact h3
        · intro c t k p hm
          simp only [setProg_prog] at hm
          split at hm
          · rename_i e
            simp only [Th.user.injEq] at e
            obtain ⟨rfl, rfl⟩ := e
            simp only [beginProg, List.mem_cons, List.not_mem_nil, or_false, MOp.snapLocal.injEq] at hm
            rcases hm with ⟨rfl, rfl⟩ | hm | hm
            · refine ⟨rfl, rfl, by simp [upd], ?_⟩
              intro j sn hj ht
              exact (h.own j sn c t hj ht).2.2
            · simp at hm
            · simp at hm
          · obtain ⟨h1, h2, h3, h4⟩ := h.pend c t k p hm
            refine ⟨h1, h2, ?_, h4⟩
            simp only [upd]
            split
            · rename_i e; subst e; exact Nat.lt_succ_of_lt h3
            · exact h3
        · intro c t op' hm
          simp only [setProg_prog] at hm
          split at hm
          · simp only [beginProg, List.tail_cons, List.mem_cons, List.not_mem_nil, or_false] at hm
            rcases hm with rfl | rfl <;> rfl
          · exact h.tail c t op' hm
        · intro i j si sj c t hij hi hj hti htj
          exact h.sorted i j si sj c t hij hi hj hti htj
      · simp at hs
    · have hb' : ∀ c t ob sg, a ≠ .begin c t (.publish ob sg) := fun c t ob sg e => hb ⟨c, t, ob, sg, e⟩
      have hq := nextSeq_nonmicro hs hb' ha'
      have hprogs : ∀ c t, s'.prog (.user c t) = s.prog (.user c t) ∨ ∀ op' ∈ s'.prog (.user c t), op'.isSnapLocal = false := by
        intro c t
        rcases step_nonmicro_prog ha' hs (.user c t) with e | ⟨-, -, ⟨⟨c', e⟩, -⟩ | ⟨c', t', n, op, rfl, -, e2⟩⟩
        · left; exact e
        · simp at e
        · right
          rw [e2]
          cases op with
          | publish ob sg => exact absurd rfl (hb' c' t' ob sg)
          | _ => simp only [beginProg] <;> (try split) <;> simp [MOp.isSnapLocal]
      constructor
      · intro j sn c t hj ht
        rw [hsn] at hj; rw [hq]
        exact h.own j sn c t hj ht
      · intro c t k p hm
        rcases hprogs c t with e | e
        · rw [e] at hm; rw [hq, hsn]; exact h.pend c t k p hm
        · have := e _ hm; simp [MOp.isSnapLocal] at this
      · intro c t op' hm
        rcases hprogs c t with e | e
        · rw [e] at hm; exact h.tail c t op' hm
        · exact e op' (List.mem_of_mem_tail hm)
      · intro i j si sj c t hij hi hj hti htj
        rw [hsn] at hi hj
        exact h.sorted i j si sj c t hij hi hj hti htj

theorem seqInv_reach {s : State} (h : Reach s) : SeqInv s := by
  induction h with
  | init => exact seqInv_init
  | step hr hs ih => exact seqInv_step hr ih hs

end QmiModel.PubSub
