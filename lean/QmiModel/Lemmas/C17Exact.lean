import QmiModel.Model.TextLayout
/-!
# C17 — the text writer's exactness check (`abs v > 2**53 and int(float(v)) != v`)

`toF64 n` models `int(float(n))`.  The writer refuses an integer array iff some element does not
survive the trip through float64; the shortcut `abs v > 2**53` skips no inexact value.
-/
namespace QmiModel.C17.ExactL
open QmiModel.C17

/-- a number is exactly representable iff it is a multiple of 2^(bitlength - 53) (or has at most 53 bits) -/
def ExactF64 (n : Nat) : Prop := Nat.log2 n + 1 ≤ 53 ∨ 2 ^ (Nat.log2 n + 1 - 53) ∣ n

/-- the rounded quotient of the model, as a function of the shift `k` -/
def roundQ (n k : Nat) : Nat :=
  if n % 2 ^ k > 2 ^ (k - 1) ∨ (n % 2 ^ k = 2 ^ (k - 1) ∧ n / 2 ^ k % 2 = 1) then n / 2 ^ k + 1 else n / 2 ^ k

theorem toF64_le53 (n : Nat) (h : Nat.log2 n + 1 ≤ 53) : toF64 n = n := by
  simp only [toF64, h, if_true]

theorem toF64_gt53 (n : Nat) (h : ¬ Nat.log2 n + 1 ≤ 53) :
    toF64 n = roundQ n (Nat.log2 n + 1 - 53) * 2 ^ (Nat.log2 n + 1 - 53) := by
  simp only [toF64, h, if_false, roundQ]

theorem roundQ_cases (n k : Nat) : roundQ n k = n / 2 ^ k ∨ roundQ n k = n / 2 ^ k + 1 := by
  unfold roundQ
  split
  · exact Or.inr rfl
  · exact Or.inl rfl

/-- no remainder: nothing to round -/
theorem roundQ_of_mod_zero (n k : Nat) (h : n % 2 ^ k = 0) : roundQ n k = n / 2 ^ k := by
  unfold roundQ
  have hp : 0 < 2 ^ (k - 1) := Nat.two_pow_pos _
  rw [if_neg]
  rw [h]
  omega

/-- `q' * m = n` for `q' ∈ {n / m, n / m + 1}` forces `q' = n / m` and a zero remainder -/
theorem mul_eq_self_iff (n m q' : Nat) (hm : 0 < m) (hq : q' = n / m ∨ q' = n / m + 1) :
    q' * m = n ↔ (q' = n / m ∧ n % m = 0) := by
  have h1 := Nat.div_add_mod n m
  have h2 := Nat.mod_lt n hm
  generalize n / m = q at *
  generalize n % m = r at *
  rcases hq with hq | hq
  · subst hq
    rw [Nat.mul_comm q' m]
    omega
  · subst hq
    rw [Nat.succ_mul, Nat.mul_comm q m]
    omega

theorem toF64_eq_iff (n : Nat) : toF64 n = n ↔ ExactF64 n := by
  unfold ExactF64
  by_cases h : Nat.log2 n + 1 ≤ 53
  · simp [toF64_le53 n h, h]
  · rw [toF64_gt53 n h]
    generalize hk : Nat.log2 n + 1 - 53 = k
    rw [mul_eq_self_iff n (2 ^ k) _ (Nat.two_pow_pos k) (roundQ_cases n k)]
    constructor
    · intro ⟨_, hr⟩
      exact Or.inr (Nat.dvd_of_mod_eq_zero hr)
    · intro hex
      rcases hex with hex | hex
      · exact absurd hex h
      · have hr := Nat.mod_eq_zero_of_dvd hex
        exact ⟨roundQ_of_mod_zero n k hr, hr⟩

/-- everything up to 2^53 is exact, so the writer's shortcut `abs v > 2**53` skips no inexact value -/
theorem toF64_small (n : Nat) (h : n ≤ 2 ^ 53) : toF64 n = n := by
  by_cases hn : n = 0
  · subst hn
    exact toF64_le53 0 (by rw [Nat.log2_zero]; decide)
  · by_cases he : n = 2 ^ 53
    · subst he
      rw [toF64_eq_iff]
      right
      rw [Nat.log2_two_pow]
      exact Nat.pow_dvd_pow 2 (by decide)
    · have hlt : n < 2 ^ 53 := Nat.lt_of_le_of_ne h he
      have := (Nat.log2_lt hn).mpr hlt
      exact toF64_le53 n (by omega)

/-- the writer refuses a value iff float64 cannot hold it -/
theorem refusedInt_iff (n : Nat) : refusedInt n = true ↔ toF64 n ≠ n := by
  unfold refusedInt
  simp only [Bool.and_eq_true, decide_eq_true_eq, bne_iff_ne]
  constructor
  · exact fun h => h.2
  · intro hne
    refine ⟨?_, hne⟩
    apply Nat.lt_of_not_le
    intro hle
    exact hne (toF64_small n hle)

/-- the writer accepts an array iff every element survives the trip through float64 unchanged -/
theorem accepted_iff_all_exact (vals : List Nat) : refusesInts vals = false ↔ ∀ v ∈ vals, toF64 v = v := by
  unfold refusesInts
  rw [List.any_eq_false]
  constructor
  · intro h v hv
    have := h v hv
    rw [refusedInt_iff] at this
    exact Decidable.of_not_not this
  · intro h v hv
    rw [refusedInt_iff]
    exact fun hne => hne (h v hv)

/-- the writer accepts an array iff every element is a multiple of its float64 unit in the last place -/
theorem accepted_iff_all_ExactF64 (vals : List Nat) : refusesInts vals = false ↔ ∀ v ∈ vals, ExactF64 v := by
  rw [accepted_iff_all_exact]
  constructor
  · exact fun h v hv => (toF64_eq_iff v).mp (h v hv)
  · exact fun h v hv => (toF64_eq_iff v).mpr (h v hv)

/-- the rounded quotient has at most 53 bits, or is exactly 2^53 (carry into the next binade) -/
theorem roundQ_le (n : Nat) : roundQ n (Nat.log2 n + 1 - 53) ≤ 2 ^ 53 := by
  by_cases h : Nat.log2 n + 1 ≤ 53
  · have hk : Nat.log2 n + 1 - 53 = 0 := by omega
    rw [hk]
    have hlt : n < 2 ^ 53 :=
      Nat.lt_of_lt_of_le (Nat.lt_log2_self (n := n)) (Nat.pow_le_pow_right (by decide) h)
    unfold roundQ
    simp only [Nat.pow_zero, Nat.mod_one, Nat.div_one]
    rw [if_neg (by omega)]
    exact Nat.le_of_lt hlt
  · generalize hk : Nat.log2 n + 1 - 53 = k
    have hq : n / 2 ^ k < 2 ^ 53 := by
      rw [Nat.div_lt_iff_lt_mul (Nat.two_pow_pos k), ← Nat.pow_add]
      have : 53 + k = Nat.log2 n + 1 := by omega
      rw [this]
      exact Nat.lt_log2_self
    rcases roundQ_cases n k with hc | hc <;> omega

/-- rounding is idempotent: what the reader gets back (a float64 holding an integer) is stable -/
theorem toF64_idem (n : Nat) : toF64 (toF64 n) = toF64 n := by
  by_cases h : Nat.log2 n + 1 ≤ 53
  · rw [toF64_le53 n h]
    exact toF64_le53 n h
  · rw [toF64_eq_iff]
    rw [toF64_gt53 n h]
    have hle := roundQ_le n
    generalize hk : Nat.log2 n + 1 - 53 = k at *
    generalize roundQ n k = q' at *
    unfold ExactF64
    right
    by_cases hc : q' = 2 ^ 53
    · -- carry into the next binade: the result is a power of two
      subst hc
      rw [← Nat.pow_add, Nat.log2_two_pow]
      exact Nat.pow_dvd_pow 2 (by omega)
    · have hlt : q' < 2 ^ 53 := Nat.lt_of_le_of_ne hle hc
      have hpos : 0 < 2 ^ k := Nat.two_pow_pos k
      have hN : q' * 2 ^ k < 2 ^ (53 + k) := by
        rw [Nat.pow_add]
        exact Nat.mul_lt_mul_of_lt_of_le hlt (Nat.le_refl _) hpos
      by_cases hz : q' * 2 ^ k = 0
      · rw [hz]; exact Nat.dvd_zero _
      · have hlog := (Nat.log2_lt hz).mpr hN
        exact Nat.dvd_trans (Nat.pow_dvd_pow 2 (by omega)) (Nat.dvd_mul_left (2 ^ k) q')

/-- the result of rounding is always exactly representable -/
theorem toF64_exact (n : Nat) : ExactF64 (toF64 n) :=
  (toF64_eq_iff _).mp (toF64_idem n)

/-! ## examples -/

example : toF64 (2 ^ 53 + 1) = 2 ^ 53 := by decide
example : toF64 (2 ^ 53 + 3) = 2 ^ 53 + 4 := by decide
example : toF64 (2 ^ 63 - 1) = 2 ^ 63 := by decide
example : toF64 (2 ^ 64 - 1) = 2 ^ 64 := by decide
example : toF64 (2 ^ 60) = 2 ^ 60 := by decide
example : refusesInts [5, 2 ^ 53, 2 ^ 60] = false := by decide
example : refusesInts [5, 2 ^ 53 + 1] = true := by decide

end QmiModel.C17.ExactL
