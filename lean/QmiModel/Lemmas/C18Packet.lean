import QmiModel.Lemmas.C18Bytes
/-! Helper lemmas for C18: what `WellFormed` gives, and `unpack` characterised. -/
namespace QmiModel.Discovery

/-- `WellFormed` as a structure of facts -/
structure WF (L : Layout) : Prop where
  lookup_eq : L.lookup = [(L.tagInfoReq, Kind.infoReq, sizeOf L .infoReq), (L.tagKillReq, Kind.kill, sizeOf L .kill),
                          (L.tagInfoResp, Kind.infoResp, sizeOf L .infoResp)]
  hdr : L.hdrSizeof = hdrSize L
  magic_lt : L.magic < 256 ^ L.magicSz
  req_lt : L.tagInfoReq < 256 ^ L.tagSz
  kill_lt : L.tagKillReq < 256 ^ L.tagSz
  resp_lt : L.tagInfoResp < 256 ^ L.tagSz
  ne_rk : L.tagInfoReq ≠ L.tagKillReq
  ne_rr : L.tagInfoReq ≠ L.tagInfoResp
  ne_kr : L.tagKillReq ≠ L.tagInfoResp
  mem_req : L.tagInfoReq ∈ L.enumTags
  mem_kill : L.tagKillReq ∈ L.enumTags
  mem_resp : L.tagInfoResp ∈ L.enumTags
  rid : L.rIdSz = L.idSz
  rts : L.rTsSz = L.tsSz
  req_recv : sizeOf L .infoReq < L.recvMax
  resp_crecv : sizeOf L .infoResp < L.clientRecvMax
  resp_recv : sizeOf L .infoResp < L.recvMax
  req_crecv : sizeOf L .infoReq < L.clientRecvMax
  name_le : L.maxNameChars ≤ L.nameLen

theorem wf_of_wellFormed {L : Layout} (h : WellFormed L = true) : WF L := by
  simp only [WellFormed, Bool.and_eq_true, decide_eq_true_eq, beq_iff_eq, List.contains_iff_mem] at h
  obtain ⟨⟨⟨⟨⟨⟨⟨⟨⟨⟨⟨⟨⟨⟨⟨⟨⟨⟨h1, h2⟩, h3⟩, h4⟩, h5⟩, h6⟩, h7⟩, h8⟩, h9⟩, h10⟩, h11⟩, h12⟩, h13⟩, h14⟩, h15⟩, h16⟩, h17⟩, h18⟩, h19⟩ := h
  exact ⟨h1, h2, h3, h4, h5, h6, h7, h8, h9, h10, h11, h12, h13, h14, h15, h16, h17, h18, h19⟩

theorem hdrSize_le (L : Layout) (k : Kind) : hdrSize L ≤ sizeOf L k := by
  cases k <;> simp [sizeOf, sizesOf, hdrSize, List.sum_append] <;> omega

theorem kill_size (L : Layout) : sizeOf L .kill = hdrSize L := rfl

theorem sizesOf_head (L : Layout) (k : Kind) :
    ∃ rest, sizesOf L k = L.magicSz :: L.tagSz :: L.idSz :: L.tsSz :: rest := by
  cases k <;> simp [sizesOf, hdrSizes]

theorem tag_mem_enum {L : Layout} (wf : WF L) (k : Kind) : tagOf L k ∈ L.enumTags := by
  cases k
  · exact wf.mem_req
  · exact wf.mem_kill
  · exact wf.mem_resp

set_option linter.unusedSimpArgs false in
theorem find_kind {L : Layout} (wf : WF L) (k : Kind) :
    L.lookup.find? (fun e => e.1 == tagOf L k) = some (tagOf L k, k, sizeOf L k) := by
  rw [wf.lookup_eq]
  have h1 := wf.ne_rk
  have h2 := wf.ne_rr
  have h3 := wf.ne_kr
  cases k <;> simp [tagOf, Ne.symm h1, Ne.symm h2, Ne.symm h3, *]

theorem find_some {L : Layout} (wf : WF L) {tag t : Nat} {k : Kind} {sz : Nat}
    (h : L.lookup.find? (fun e => e.1 == tag) = some (t, k, sz)) : tag = tagOf L k ∧ sz = sizeOf L k := by
  rw [wf.lookup_eq] at h
  simp only [List.find?_cons] at h
  split at h
  · rename_i h1
    cases h
    simp only [beq_iff_eq] at h1
    exact ⟨h1.symm, rfl⟩
  · split at h
    · rename_i h1
      cases h
      simp only [beq_iff_eq] at h1
      exact ⟨h1.symm, rfl⟩
    · split at h
      · rename_i h1
        cases h
        simp only [beq_iff_eq] at h1
        exact ⟨h1.symm, rfl⟩
      · simp at h

/-- everything a successful `unpack` tells about the datagram -/
theorem unpack_ok {L : Layout} (wf : WF L) {bs : Bytes} {p : Packet} (h : unpack L bs = .ok p) :
    bs.length = sizeOf L p.kind ∧ p.fields = splitFields (sizesOf L p.kind) bs ∧
    leNat (bs.take L.magicSz) = L.magic ∧ leNat ((bs.drop L.magicSz).take L.tagSz) = tagOf L p.kind := by
  unfold unpack at h
  split at h
  · cases h
  · split at h
    · cases h
    · rename_i hmagic
      simp only at h
      split at h
      · cases h
      · split at h
        · cases h
        · rename_i t k sz hfind
          obtain ⟨htag, hsz⟩ := find_some wf hfind
          split at h
          · cases h
          · rename_i hlen
            cases h
            refine ⟨?_, rfl, ?_, htag⟩
            · simp only [Decidable.not_not] at hlen; rw [hlen, hsz]
            · simpa using hmagic

/-- … and conversely -/
theorem unpack_of {L : Layout} (wf : WF L) (k : Kind) (bs : Bytes) (hlen : bs.length = sizeOf L k)
    (hmagic : leNat (bs.take L.magicSz) = L.magic) (htag : leNat ((bs.drop L.magicSz).take L.tagSz) = tagOf L k) :
    unpack L bs = .ok { kind := k, fields := splitFields (sizesOf L k) bs } := by
  unfold unpack
  have h1 : ¬ bs.length < L.hdrSizeof := by rw [wf.hdr, hlen]; have := hdrSize_le L k; omega
  rw [if_neg h1, if_neg (by simpa using hmagic)]
  simp only [htag]
  have h2 : L.enumTags.contains (tagOf L k) = true := List.contains_iff_mem.2 (tag_mem_enum wf k)
  rw [h2, find_kind wf k]
  simp [hlen]

theorem unpack_fields_length {L : Layout} (wf : WF L) {bs : Bytes} {p : Packet} (h : unpack L bs = .ok p) :
    p.fields.map List.length = sizesOf L p.kind ∧ p.pack = bs := by
  obtain ⟨hlen, hf, _, _⟩ := unpack_ok wf h
  rw [Packet.pack, hf]
  exact ⟨splitFields_map_length _ _ hlen, splitFields_flatten _ _ hlen⟩

/-- the only exceptions `unpack` can raise -/
theorem unpack_error_cases (L : Layout) (bs : Bytes) (e : PyExc) (h : unpack L bs = .error e) :
    e = .qmiRuntime ∨ e = .valueError := by
  unfold unpack at h
  split at h
  · cases h; exact Or.inl rfl
  · split at h
    · cases h; exact Or.inl rfl
    · simp only at h
      split at h
      · cases h; exact Or.inr rfl
      · split at h
        · cases h; exact Or.inl rfl
        · split at h
          · cases h; exact Or.inl rfl
          · cases h

theorem fld_eq_of_fields {p : Packet} {l : List Bytes} (h : p.fields = l) (i : Nat) : p.fld i = l.getD i [] := by
  simp [Packet.fld, h]

theorem getD_length_of_map_length {fs : List Bytes} {szs : List Nat} (h : fs.map List.length = szs) (i : Nat)
    (hi : i < szs.length) : (fs.getD i []).length = szs.getD i 0 := by
  subst h
  simp only [List.length_map] at hi
  simp [List.getD_eq_getElem?_getD, hi]

end QmiModel.Discovery
