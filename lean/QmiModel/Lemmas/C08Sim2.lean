import QmiModel.Lemmas.C08Sim1
/-! C08, simulation layer — micro steps of the publisher context. -/
set_option linter.unusedSimpArgs false
namespace QmiModel.PubSub
open Proto

/-! ### the peer name a teardown block works on -/

/-- the peer whose tables are being cleaned up is the other end of the connection that is about to be closed -/
def TdLink (s : State) : Prop :=
  ∀ c n cn cli r, s.prog (.sock c) = .peerRemoved n :: .closeConn cn cli :: r → n = srcName s cn cli

theorem srcName_of_reg {s : State} (ht : TopoInv s) {c : Ctx} {n : Peer} {cn : ConnId} (h : (s.ctx c).peers n = some cn) :
    n = srcName s cn n.isName := by
  cases n with
  | name p' =>
    obtain ⟨-, -, h2⟩ := ht.peersN c p' cn h
    simp only [srcName, Peer.isName, if_true]
    simp only [Conn.half, Bool.false_eq_true, if_false] at h2
    rw [h2]
  | alias m =>
    obtain ⟨h1, -, -⟩ := ht.peersA c m cn h
    simp only [srcName, Peer.isName, Bool.false_eq_true, if_false, h1]

theorem tdLink_micro {s s' : State} {th : Th} {ch ch2 : Nat} {op : MOp} {rest : List MOp} {o : Out}
    (h : TdLink s) (htd : TdInv s) (hreg : RegInv s) (ht : TopoInv s)
    (hprog : s.prog th = op :: rest) (hs : microStep s th ch ch2 op rest = some (s', o)) : TdLink s' := by
  have hf := microStep_frame hs
  have hown := microStep_owner hs
  have hsrc : ∀ cn cli, srcName s' cn cli = srcName s cn cli := by
    intro cn cli; have := hown cn false; simp only [Conn.half, Bool.false_eq_true, if_false] at this; simp only [srcName, this]
  intro c n cn cli r hp
  rw [hsrc]
  by_cases e : Th.sock c = th
  · subst e
    have hsh := htd.sock c
    rw [hprog] at hsh
    generalize hl : op :: rest = l at hsh
    cases hsh with
    | free hfree =>
      subst hl
      have := tdFree_micro hfree hs (.peerRemoved n) (by rw [hp]; exact List.mem_cons_self)
      simp [MOp.isTd] at this
    | pop n' cn' cli' r' hr' =>
      simp only [List.cons.injEq] at hl
      obtain ⟨rfl, rfl⟩ := hl
      have hpop := hreg.pop c n' n' cn' cli' r' hprog
      simp only [microStep, Option.some.injEq, Prod.mk.injEq] at hs
      obtain ⟨rfl, -⟩ := hs
      simp only [setProg_prog, if_true, List.cons.injEq, MOp.peerRemoved.injEq, MOp.closeConn.injEq] at hp
      obtain ⟨rfl, ⟨rfl, rfl⟩, -⟩ := hp
      rw [hpop.2]; exact srcName_of_reg ht hpop.1
    | rem n' cn' cli' r' hr' =>
      simp only [List.cons.injEq] at hl
      obtain ⟨rfl, rfl⟩ := hl
      simp only [microStep, Option.some.injEq, Prod.mk.injEq] at hs
      obtain ⟨rfl, -⟩ := hs
      simp at hp
    | close cn' cli' r' hr' =>
      simp only [List.cons.injEq] at hl
      obtain ⟨rfl, rfl⟩ := hl
      have := microStep_noTd hs (.peerRemoved n) (by rw [hp]; exact List.mem_cons_self) rfl
      have := hr' _ this
      simp [MOp.isTd] at this
  · rw [hf.prog_other _ e] at hp
    exact h c n cn cli r hp

theorem tdLink_nstep {s s' : State} (h : TdLink s) (hown0 : OwnInv s) (hs : NStep s s') : TdLink s' := by
  have key : ∀ (c0 : Ctx) (pr : List MOp), (∀ n cn cli r, pr ≠ .peerRemoved n :: .closeConn cn cli :: r) →
      ∀ c n cn cli r, (if Th.sock c = Th.sock c0 then pr else s.prog (.sock c)) = .peerRemoved n :: .closeConn cn cli :: r →
        n = srcName s cn cli := by
    intro c0 pr hpr c n cn cli r hp
    split at hp
    · exact absurd hp (hpr n cn cli r)
    · exact h c n cn cli r hp
  have hdis : ∀ src m n cn cli r, dispatch src m ≠ .peerRemoved n :: .closeConn cn cli :: r := by
    intro src m n cn cli r
    cases m with
    | subReq id ob sg b => cases b <;> simp [dispatch]
    | _ => simp [dispatch]
  have hsf : ∀ m n cn cli r, onSendFail m ≠ .peerRemoved n :: .closeConn cn cli :: r := by
    intro m n cn cli r; cases m <;> simp [onSendFail]
  cases hs
  case beginPub c t ob sg _ _ =>
    intro c' n cn cli r hp; simp only [setProg_prog] at hp; rw [if_neg (by simp)] at hp; exact h c' n cn cli r hp
  case beginOther c t op _ _ _ =>
    intro c' n cn cli r hp; simp only [setProg_prog] at hp; rw [if_neg (by simp)] at hp; exact h c' n cn cli r hp
  case cbUnknown c d m q _ _ _ _ =>
    intro c' n cn cli r hp; simp only [setProg_prog, setCtx_prog] at hp; exact key c _ (hsf m) c' n cn cli r hp
  case cbSent c d m q cn0 _ _ _ hpeer =>
    intro c' n cn cli r hp
    simp only [setProg_prog] at hp
    have := key c [] (by simp) c' n cn cli r hp
    rw [this]
    refine (srcName_congr (fun n b => ?_) cn cli).symm
    simp only [setProg_conn, upd]; split
    · rename_i e; subst e; exact sentConn_owner _ _ _ _
    · rfl
  case cbFail c d m q cn0 _ _ _ _ _ =>
    intro c' n cn cli r hp; simp only [setProg_prog, setCtx_prog] at hp; exact key c _ (hsf m) c' n cn cli r hp
  case cbDiscNone c n0 t q _ _ _ _ =>
    intro c' n cn cli r hp; simp only [setProg_prog, setCtx_prog] at hp; exact key c _ (by simp) c' n cn cli r hp
  case cbDisc c n0 t q cn0 _ _ _ _ =>
    intro c' n cn cli r hp; simp only [setProg_prog, setCtx_prog] at hp; exact key c _ (by simp) c' n cn cli r hp
  case arrive cn0 cli0 m ms _ _ _ _ _ =>
    intro c' n cn cli r hp
    simp only [setProg_prog] at hp
    have := key _ _ (hdis _ m) c' n cn cli r hp
    rw [this]
    refine (srcName_congr (fun n b => ?_) cn cli).symm
    simp only [setProg_conn, upd]; split
    · rename_i e; subst e; rw [half_setHalf']; split
      · rename_i e2; subst e2; exact readHalf_owner _ _ _
      · rfl
    · rfl
  case eof cn0 cli0 _ _ _ _ _ _ =>
    intro c' n cn cli r hp; simp only [setProg_prog] at hp; exact key _ _ (by simp) c' n cn cli r hp
  case connect a p _ _ _ _ =>
    intro c' n cn cli r hp
    have hp' : s.prog (.sock c') = .peerRemoved n :: .closeConn cn cli :: r := hp
    have := h c' n cn cli r hp'
    rw [this]
    have hlt := (hown0.close (.sock c') cn cli (by rw [hp']; simp)).1
    simp only [srcName, upd, if_neg (Nat.ne_of_lt hlt)]
  case routerOk => exact h
  case stopReq => exact h
  case stop c _ =>
    intro c' n cn cli r hp
    have := h c' n cn cli r hp
    rw [this]
    exact (srcName_congr (fun n b => stopConn_owner _ _ _) cn cli).symm

theorem tdLink_reach {s : State} (h : Reach s) : TdLink s := by
  induction h with
  | init => intro c n cn cli r h; simp [State.init] at h
  | step hr hs ih =>
    rename_i s0 s1 a o
    by_cases ha : ∃ th ch ch2, a = .micro th ch ch2
    · obtain ⟨th, ch, ch2, rfl⟩ := ha
      obtain ⟨-, op, rest, hp, hm⟩ := step_micro_inv hs
      exact tdLink_micro ih (tdInv_reach hr) (regInv_reach hr) (topoInv_reach hr) hp hm
    · exact tdLink_nstep ih (ownInv_reach hr) (step_nonmicro_cases (fun th ch ch2 e => ha ⟨th, ch, ch2, e⟩) hs)

/-- while a connection is registered at an end, that end's socket thread is not running
`handle_peer_context_removed` for it -/
theorem not_cleaning {s : State} (hr : Reach s) {c : Ctx} {n : Peer} {cn : ConnId} (hreg : (s.ctx c).peers n = some cn)
    {rest : List MOp} (hp : s.prog (.sock c) = .peerRemoved n :: rest) (hal : n.isName = false) : False := by
  have hsh := (tdInv_reach hr).sock c
  rw [hp] at hsh
  generalize hl : MOp.peerRemoved n :: rest = l at hsh
  cases hsh with
  | free hfree => subst hl; have := hfree _ List.mem_cons_self; simp [MOp.isTd] at this
  | pop n' cn' cli' r' hr' => simp at hl
  | close cn' cli' r' hr' => simp at hl
  | rem n' cn' cli' r' hr' =>
    simp only [List.cons.injEq, MOp.peerRemoved.injEq] at hl
    obtain ⟨rfl, rfl⟩ := hl
    have hlink := tdLink_reach hr c n cn' cli' r' hp
    have hpop := (openInv_reach hr).popped c n cn' cli' r' (Or.inl hp)
    cases n with
    | name p' => simp [Peer.isName] at hal
    | alias m =>
      obtain ⟨h1, -, -⟩ := (topoInv_reach hr).peersA c m cn hreg
      cases cli' <;> simp only [srcName, Bool.false_eq_true, if_false, if_true, Peer.alias.injEq, reduceCtorEq] at hlink
      subst hlink; subst h1
      simp only [srcName, Bool.false_eq_true, if_false] at hpop
      exact hpop hreg


/-! ### requests and the pending tables -/

/-- a request that is with the publisher is not lost -/
theorem srv_not_failed {s : State} (hr : Reach s) {cn : ConnId} (ho : ((s.conn cn).half true).isOpen = true) {id : ReqId}
    (h : id ∈ srvPipe s cn) : ¬ FailCar s cn id := by
  have hp := srv_in_pend (srvInv_reach hr) ho h
  have htok := tokInv_reach hr
  rintro (⟨th, hth, hm⟩ | ⟨n', hne, hown, hm⟩)
  · refine htok.dj_prog_pend th cn id hth.symm ?_ hp
    simp only [progIds, List.mem_filterMap]; exact ⟨_, hm, rfl⟩
  · exact htok.dj_pend n' cn id hne hown hm hp

/-- a typed request is the outstanding request of its key -/
theorem cur_of_typed {cs : CtxSt} (hp : PendOk cs) {d : Peer} {id : ReqId} {ob : Obj} {sg : Sg} {b : Bool}
    (h : reqTyped cs d (.subReq id ob sg b)) :
    ∃ po, poOf cs ⟨d, ob, sg⟩ = some po ∧ po.cur = id ∧ po.sub = b := by
  obtain ⟨pid, po, h1, h2, h3, h4⟩ := h
  have hk := hp.byId_key id pid po h1 h2
  refine ⟨po, ?_, ?_, h4⟩
  · simp only [poOf, ← h3, hk, Option.bind_some, h2]
  · exact (hp.byId_inj _ _ pid (hp.byKey_cur _ pid po hk h2) h1)

/-- the outstanding request of a key is typed by the key -/
theorem typed_key_of_cur {cs : CtxSt} (hp : PendOk cs) {d : Peer} {id : ReqId} {ob ob' : Obj} {sg sg' : Sg} {b : Bool}
    (h : reqTyped cs d (.subReq id ob' sg' b)) (hc : curOf cs ⟨d, ob, sg⟩ = some id) : ob' = ob ∧ sg' = sg := by
  obtain ⟨pid', po', h1, h2, h3, -⟩ := h
  simp only [curOf, poOf] at hc
  cases hk : cs.byKey ⟨d, ob, sg⟩ with
  | none => simp [hk] at hc
  | some pid =>
    cases hpo : cs.pobj pid with
    | none => simp [hk, hpo] at hc
    | some po =>
      simp only [hk, Option.bind_some, hpo, Option.map_some, Option.some.injEq] at hc
      have hcur := hp.byKey_cur _ pid po hk hpo
      rw [hc, h1] at hcur
      have e1 : pid' = pid := Option.some.inj hcur
      subst e1
      rw [hpo] at h2
      have e2 : po = po' := Option.some.inj h2
      subst e2
      have := (hp.byKey_obj _ pid' po hk hpo).1
      rw [h3] at this
      simp only [Key.mk.injEq, true_and] at this
      exact this

/-- the handler of the publisher's socket thread works on a request of the connection: it is with the publisher -/
theorem hdl_in_pipe {s : State} {cn : ConnId} {id : ReqId} {t : T}
    (h : hdlTok (.alias cn) id (s.prog (.sock (srvOf s cn))) = some t) : id ∈ srvPipe s cn := by
  generalize hl : s.prog (.sock (srvOf s cn)) = l at h
  have hmem : ∀ op, op ∈ l → op ∈ s.prog (.sock ((s.conn cn).half false).owner) := fun op ho => by
    show op ∈ s.prog (.sock (srvOf s cn)); rw [hl]; exact ho
  cases l with
  | nil => simp [hdlTok] at h
  | cons op l =>
    cases op <;> simp only [hdlTok] at h <;> try (cases h; done)
    case reqChk1 src i ob sg =>
      split at h <;> try (cases h; done)
      rename_i e; obtain ⟨rfl, rfl⟩ := e
      exact srvPipe_prog (hmem _ List.mem_cons_self) (by simp [opSrvId])
    case reqChk2 src i ob sg =>
      split at h <;> try (cases h; done)
      rename_i e; obtain ⟨rfl, rfl⟩ := e
      exact srvPipe_prog (hmem _ List.mem_cons_self) (by simp [opSrvId])
    case addRemote src ob sg =>
      cases l with
      | nil => simp [hdlTok] at h
      | cons op2 l =>
        cases op2 <;> simp only [hdlTok] at h <;> try (cases h; done)
        split at h <;> try (cases h; done)
        rename_i e; obtain ⟨rfl, rfl⟩ := e
        exact srvPipe_prog (hmem _ (List.mem_cons_of_mem _ List.mem_cons_self)) (by simp [opSrvId])
    case removeRemote src ob sg =>
      cases l with
      | nil => simp [hdlTok] at h
      | cons op2 l =>
        cases op2 <;> (try (simp only [hdlTok] at h)) <;> try (cases h; done)
        rename_i d m
        cases m <;> (try (simp only [hdlTok] at h)) <;> try (cases h; done)
        split at h <;> try (cases h; done)
        rename_i e; obtain ⟨rfl, rfl⟩ := e
        exact srvPipe_prog (hmem _ (List.mem_cons_of_mem _ List.mem_cons_self)) (by simp [opSrvId, msgRepId])
    case sendChk d m =>
      cases m <;> (try (simp only [hdlTok] at h)) <;> try (cases h; done)
      split at h <;> try (cases h; done)
      rename_i e; obtain ⟨rfl, rfl⟩ := e
      exact srvPipe_prog (hmem _ List.mem_cons_self) (by simp [opSrvId, msgRepId])
    case enq d m =>
      cases m <;> (try (simp only [hdlTok] at h)) <;> try (cases h; done)
      split at h <;> try (cases h; done)
      rename_i e; obtain ⟨rfl, rfl⟩ := e
      exact srvPipe_prog (hmem _ List.mem_cons_self) (by simp [opSrvId, msgRepId])


/-! ### the request handler -/

/-- the outstanding request is being handled: it is not lost, and the handler works on the key of the abstraction -/
theorem hdl_facts {s : State} (hr : Reach s) {cn : ConnId} (hlf : LiveFacts s cn) {ob : Obj} {sg : Sg} {id : ReqId} {t : T}
    (hcur : curOf (s.ctx (cliOf s cn)) (keyOf s cn ob sg) = some id)
    (h : hdlTok (.alias cn) id (s.prog (.sock (srvOf s cn))) = some t) : ¬ FailCar s cn id :=
  srv_not_failed hr hlf.openA (hdl_in_pipe h)


/-- `PFrame.sim` with the view of the new state given in another form -/
theorem PFrame.sim' {s s' : State} {cn : ConnId} {ob : Obj} {sg : Sg} (h : PFrame s s' cn) {rm' : Rm} {failed : Bool}
    (hf : ∀ id, curOf (s.ctx (cliOf s cn)) (keyOf s cn ob sg) = some id → (failed = true ↔ FailCar s cn id))
    (hrm : RmRel s' cn ob sg rm') {v' : View} (hv : viewOf s' cn ob sg = v') :
    Sim s' cn ob sg (absV cn (keyOf s cn ob sg) v' rm' failed) := by
  refine ⟨rm', failed, hrm, ?_, ?_⟩
  · intro id hid
    rw [h.cur] at hid
    rw [hf id hid, h.fail]
  · simp only [absOf, hv, keyOf, h.srv]

theorem absOf_R {s : State} {cn : ConnId} {ob : Obj} {sg : Sg} {rm : Rm} {f : Bool} :
    (absOf s cn ob sg rm f).R = true ↔ Peer.alias cn ∈ (s.ctx (srvOf s cn)).rsubs ⟨ob, sg⟩ := by
  simp only [absOf, absV, viewOf]
  exact decide_eq_true_iff

theorem absOf_obj {s : State} {cn : ConnId} {ob : Obj} {sg : Sg} {rm : Rm} {f : Bool} :
    (absOf s cn ob sg rm f).obj = (s.ctx (srvOf s cn)).objs ob := rfl

/-- a step of the publisher's side that the abstraction does not see -/
theorem sim_p_stutter {s s' : State} {cn : ConnId} {ob : Obj} {sg : Sg} {x : AS} (pf : PFrame s s' cn)
    (hrs : Peer.alias cn ∈ (s'.ctx (srvOf s cn)).rsubs ⟨ob, sg⟩ ↔ Peer.alias cn ∈ (s.ctx (srvOf s cn)).rsubs ⟨ob, sg⟩)
    (hobj : (s'.ctx (srvOf s cn)).objs ob = (s.ctx (srvOf s cn)).objs ob)
    (hlq : (s'.ctx (srvOf s cn)).loopQ.filterMap (relevCb cn ob sg (curOf (s.ctx (cliOf s cn)) (keyOf s cn ob sg))) =
      (s.ctx (srvOf s cn)).loopQ.filterMap (relevCb cn ob sg (curOf (s.ctx (cliOf s cn)) (keyOf s cn ob sg))))
    (hhdl : ∀ id, curOf (s.ctx (cliOf s cn)) (keyOf s cn ob sg) = some id →
      hdlTok (.alias cn) id (s'.prog (.sock (srvOf s cn))) = hdlTok (.alias cn) id (s.prog (.sock (srvOf s cn))))
    (hrm : ∀ th : Th, th.ctx = srvOf s cn → remPhase cn ob sg (s'.prog th) = remPhase cn ob sg (s.prog th))
    (h : Sim s cn ob sg x) : Sim s' cn ob sg x := by
  refine sim_stutter pf.srv ?_ hrm (fun id _ => pf.fail id) h
  rw [pf.view]
  refine ⟨hrs, Iff.rfl, hobj, rfl, hhdl, ?_, Iff.rfl, Iff.rfl, fun _ _ => Iff.rfl⟩
  have := hlq; simp only [curOf, keyOf] at this
  simp only [dV, viewOf, keyOf]; rw [this]

/-- a step of the request handler for the outstanding request -/
theorem sim_p_hdl {s s' : State} {cn : ConnId} {ob : Obj} {sg : Sg} (hr : Reach s) (hlf : LiveFacts s cn) (pf : PFrame s s' cn)
    {rm : Rm} {failed : Bool} (hrel : RmRel s cn ob sg rm)
    (hfs : ∀ id, curOf (s.ctx (cliOf s cn)) (keyOf s cn ob sg) = some id → (failed = true ↔ FailCar s cn id))
    {id : ReqId} (hcur : curOf (s.ctx (cliOf s cn)) (keyOf s cn ob sg) = some id) {t t' : T}
    (ht : hdlTok (.alias cn) id (s.prog (.sock (srvOf s cn))) = some t)
    (ht' : hdlTok (.alias cn) id (s'.prog (.sock (srvOf s cn))) = some t')
    (hobj : (s'.ctx (srvOf s cn)).objs ob = (s.ctx (srvOf s cn)).objs ob)
    (hlq : (s'.ctx (srvOf s cn)).loopQ = (s.ctx (srvOf s cn)).loopQ)
    (hrm : ∀ th : Th, th.ctx = srvOf s cn → remPhase cn ob sg (s'.prog th) = remPhase cn ob sg (s.prog th))
    {R' : Bool} (hR : Peer.alias cn ∈ (s'.ctx (srvOf s cn)).rsubs ⟨ob, sg⟩ ↔ R' = true) :
    (absOf s cn ob sg rm failed).tok = t ∧
    Sim s' cn ob sg { absOf s cn ob sg rm failed with tok := t', R := R' } := by
  have hnf : failed = false := by
    cases hfv : failed with
    | false => rfl
    | true => exact absurd ((hfs id hcur).1 hfv) (hdl_facts hr hlf hcur ht)
  subst hnf
  have hc : (viewOf s cn ob sg).po.map (·.cur) = some id := hcur
  constructor
  · simp only [absOf]; rw [absV_tok_some hc]; exact tokV_hdl ht
  · have := pf.sim (ob := ob) (sg := sg) hfs (hrel.keep pf.srv hrm)
    refine cast (congrArg (Sim s' cn ob sg) ?_) this
    refine AS.ext' ?_ rfl ?_ rfl rfl ?_ ?_ rfl rfl
    · simp only [absOf, absV, viewOf]; cases R' <;> simp_all
    · simp only [absOf, absV, viewOf]; exact hobj
    · rw [absV_tok_some (by exact hc)]
      exact tokV_hdl (by exact ht')
    · simp only [absOf, absV, dV, viewOf]; rw [hlq]


theorem mem_ite_add {l : List Peer} {x y : Peer} : x ∈ (if y ∈ l then l else l ++ [y]) ↔ x ∈ l ∨ x = y := by
  by_cases h : y ∈ l
  · rw [if_pos h]
    exact ⟨Or.inl, fun h' => h'.elim id (fun e => e ▸ h)⟩
  · rw [if_neg h]; simp

/-- the peer and request a handler program works for -/
def hdlKey : List MOp → Option (Peer × ReqId)
  | .reqChk1 s i _ _ :: _ => some (s, i)
  | .addRemote _ _ _ :: .reqChk2 s i _ _ :: _ => some (s, i)
  | .reqChk2 s i _ _ :: _ => some (s, i)
  | .removeRemote _ _ _ :: .sendChk d (.subReply i _) :: _ => some (d, i)
  | .sendChk d (.subReply i _) :: _ => some (d, i)
  | .enq d (.subReply i _) :: _ => some (d, i)
  | _ => none

theorem hdlTok_none_of_key {src : Peer} {id : ReqId} {l : List MOp} (h : hdlKey l ≠ some (src, id)) : hdlTok src id l = none := by
  unfold hdlTok
  split <;> simp only [hdlKey, ne_eq, Option.some.injEq, Prod.mk.injEq] at h <;> first | rfl | (rw [if_neg h])

theorem remPhase_dsp {cn : ConnId} {ob : Obj} {sg : Sg} {l : List MOp} (h : DspForm l) : remPhase cn ob sg l = .none := by
  cases h <;> rfl


set_option maxHeartbeats 1000000 in
/-- a step of the request handler (or of the reply / removal-notice handlers of the publisher context in its role as a
subscriber) in the publisher's socket thread -/
theorem sim_p_dsp {s s' : State} {th : Th} {ch ch2 : Nat} {op : MOp} {rest : List MOp} {o : Out}
    (hr : Reach s) (hprog : s.prog th = op :: rest) (hs : microStep s th ch ch2 op rest = some (s', o))
    {cn : ConnId} {ob : Obj} {sg : Sg} {x : AS} (hth : th.ctx = srvOf s cn) (hl : Live s cn) (h4 : op.isDsp = true)
    (h : Sim s cn ob sg x) : ∃ x', Sim s' cn ob sg x' ∧ (x' = x ∨ x' ∈ next x) := by
  have hlf := live_facts hr hl
  have pf := pframe_micro hr hprog hs hth hlf.ne
  have hdsp := dspInv_reach hr
  have hct := ctInv_reach hr
  have hpo := pendInv_reach hr (cliOf s cn)
  have hf := microStep_frame hs
  have hfl := microStep_fields hs
  obtain ⟨c, rfl⟩ : ∃ c, th = .sock c := by
    cases th with
    | sock c => exact ⟨c, rfl⟩
    | user c t => have := hdsp.user c t op (by rw [hprog]; simp); rw [h4] at this; cases this
  simp only [Th.ctx] at hth; subst hth
  have hform : DspForm (op :: rest) := by
    rcases hdsp.sock (srvOf s cn) with hfr | hform
    · have := hfr op (by rw [hprog]; simp); rw [h4] at this; cases this
    · exact hprog ▸ hform
  have hrm : ∀ th' : Th, th'.ctx = srvOf s cn → remPhase cn ob sg (s'.prog th') = remPhase cn ob sg (s.prog th') := by
    intro th' _
    by_cases e : th' = .sock (srvOf s cn)
    · subst e
      have hfr := (remInv_reach hr).sock (srvOf s cn)
      rw [remPhase_remFree (remFree_micro (hprog ▸ hfr) hs), remPhase_remFree hfr]
    · rw [hf.prog_other _ e]
  have hobj : (s'.ctx (srvOf s cn)).objs ob = (s.ctx (srvOf s cn)).objs ob := by
    rw [microStep_objs (by cases hform <;> rfl) hs]
  obtain ⟨rm, failed, hrel, hfs, rfl⟩ := h
  -- what does not match the outstanding request is invisible
  have hno : (∀ id0, curOf (s.ctx (cliOf s cn)) (keyOf s cn ob sg) = some id0 → hdlKey (op :: rest) ≠ some (.alias cn, id0)) →
      (Peer.alias cn ∈ (s'.ctx (srvOf s cn)).rsubs ⟨ob, sg⟩ ↔ Peer.alias cn ∈ (s.ctx (srvOf s cn)).rsubs ⟨ob, sg⟩) →
      ((s'.ctx (srvOf s cn)).loopQ.filterMap (relevCb cn ob sg (curOf (s.ctx (cliOf s cn)) (keyOf s cn ob sg))) =
        (s.ctx (srvOf s cn)).loopQ.filterMap (relevCb cn ob sg (curOf (s.ctx (cliOf s cn)) (keyOf s cn ob sg)))) →
      (∀ id0, hdlKey (s'.prog (.sock (srvOf s cn))) = some (.alias cn, id0) → hdlKey (op :: rest) = some (.alias cn, id0)) →
      ∃ x', Sim s' cn ob sg x' ∧ (x' = absOf s cn ob sg rm failed ∨ x' ∈ next (absOf s cn ob sg rm failed)) := by
    intro hk hrs hlq hk'
    refine ⟨_, sim_p_stutter pf hrs hobj hlq ?_ hrm ⟨rm, failed, hrel, hfs, rfl⟩, Or.inl rfl⟩
    intro id0 hc
    rw [hprog, hdlTok_none_of_key (hk id0 hc), hdlTok_none_of_key (fun e => hk id0 hc (hk' id0 e))]
  generalize hl0 : op :: rest = l at hform
  have hctx : (Th.sock (srvOf s cn)).ctx = srvOf s cn := rfl
  cases hform <;> simp only [List.cons.injEq] at hl0 <;> obtain ⟨rfl, rfl⟩ := hl0 <;> simp only [microStep] at hs <;>
    rw [hctx] at hs
  case chk1 src id ob' sg' =>
    have hmem : MOp.reqChk1 src id ob' sg' ∈ s.prog (.sock (srvOf s cn)) := by rw [hprog]; simp
    split at hs <;> simp only [Option.some.injEq, Prod.mk.injEq] at hs <;> obtain ⟨rfl, -⟩ := hs
    · rename_i hpres
      by_cases hm : src = .alias cn ∧ curOf (s.ctx (cliOf s cn)) (keyOf s cn ob sg) = some id
      · obtain ⟨rfl, hcur⟩ := hm
        have typed := hct.hdl _ cn id ob' sg' (Or.inl hmem) hlf.openA
        obtain ⟨rfl, rfl⟩ := typed_key_of_cur hpo typed hcur
        obtain ⟨htok, hsim⟩ := sim_p_hdl hr hlf pf hrel hfs hcur (t := .chk1) (t' := .preAdd)
          (by rw [hprog]; simp [hdlTok]) (by simp [hdlTok]) hobj (by simp [Th.ctx]) hrm
          (R' := (absOf s cn ob' sg' rm failed).R) (by simp only [setProg_ctx, setCtx_ctx, Th.ctx, if_true]; exact absOf_R.symm)
        exact ⟨_, hsim, Or.inr (next_chk1Ok htok (absOf_obj.trans hpres))⟩
      · refine hno ?_ (by simp [Th.ctx]) (by simp [Th.ctx]) ?_
        · intro id0 hc e
          simp only [hdlKey, Option.some.injEq, Prod.mk.injEq] at e
          obtain ⟨rfl, rfl⟩ := e; exact hm ⟨rfl, hc⟩
        · intro id0 e; simpa [hdlKey] using e
    · rename_i hpres
      by_cases hm : src = .alias cn ∧ curOf (s.ctx (cliOf s cn)) (keyOf s cn ob sg) = some id
      · obtain ⟨rfl, hcur⟩ := hm
        have typed := hct.hdl _ cn id ob' sg' (Or.inl hmem) hlf.openA
        obtain ⟨rfl, rfl⟩ := typed_key_of_cur hpo typed hcur
        obtain ⟨htok, hsim⟩ := sim_p_hdl hr hlf pf hrel hfs hcur (t := .chk1) (t' := .rep false)
          (by rw [hprog]; simp [hdlTok]) (by simp [hdlTok]) hobj (by simp [Th.ctx]) hrm
          (R' := (absOf s cn ob' sg' rm failed).R) (by simp only [setProg_ctx, setCtx_ctx, Th.ctx, if_true]; exact absOf_R.symm)
        exact ⟨_, hsim, Or.inr (next_chk1Fail htok (by rw [absOf_obj]; exact hpres))⟩
      · refine hno ?_ (by simp [Th.ctx]) (by simp [Th.ctx]) ?_
        · intro id0 hc e
          simp only [hdlKey, Option.some.injEq, Prod.mk.injEq] at e
          obtain ⟨rfl, rfl⟩ := e; exact hm ⟨rfl, hc⟩
        · intro id0 e; simpa [hdlKey] using e
  case add src id ob' sg' =>
    have hmem : MOp.reqChk2 src id ob' sg' ∈ s.prog (.sock (srvOf s cn)) := by rw [hprog]; simp
    simp only [Option.some.injEq, Prod.mk.injEq] at hs; obtain ⟨rfl, -⟩ := hs
    by_cases hm : src = .alias cn ∧ curOf (s.ctx (cliOf s cn)) (keyOf s cn ob sg) = some id
    · obtain ⟨rfl, hcur⟩ := hm
      have typed := hct.hdl _ cn id ob' sg' (Or.inr hmem) hlf.openA
      obtain ⟨rfl, rfl⟩ := typed_key_of_cur hpo typed hcur
      obtain ⟨htok, hsim⟩ := sim_p_hdl hr hlf pf hrel hfs hcur (t := .preAdd) (t' := .added)
        (by rw [hprog]; simp [hdlTok]) (by simp [hdlTok]) hobj (by simp [Th.ctx]) hrm (R' := true)
        (by simp only [setProg_ctx, setCtx_ctx, Th.ctx, if_true, upd, mem_ite_add]; simp)
      exact ⟨_, hsim, Or.inr (next_add htok)⟩
    · refine hno ?_ ?_ (by simp [Th.ctx]) ?_
      · intro id0 hc e
        simp only [hdlKey, Option.some.injEq, Prod.mk.injEq] at e
        obtain ⟨rfl, rfl⟩ := e; exact hm ⟨rfl, hc⟩
      · simp only [setProg_ctx, setCtx_ctx, Th.ctx, if_true, upd]
        split
        · rename_i e
          simp only [RKey.mk.injEq] at e; obtain ⟨rfl, rfl⟩ := e
          by_cases hsrc : src = .alias cn
          · subst hsrc
            have typed := hct.hdl _ cn id ob sg (Or.inr hmem) hlf.openA
            obtain ⟨po, h1, h2, -⟩ := cur_of_typed hpo typed
            exact absurd ⟨rfl, by simp only [curOf, keyOf, h1, Option.map_some, h2]⟩ hm
          · rw [mem_ite_add]
            exact ⟨fun h => h.elim (fun x => x) (fun e => absurd e.symm hsrc), Or.inl⟩
        · exact Iff.rfl
      · intro id0 e; simpa [hdlKey] using e
  case chk2 src id ob' sg' =>
    have hmem : MOp.reqChk2 src id ob' sg' ∈ s.prog (.sock (srvOf s cn)) := by rw [hprog]; simp
    split at hs <;> simp only [Option.some.injEq, Prod.mk.injEq] at hs <;> obtain ⟨rfl, -⟩ := hs
    · rename_i hpres
      by_cases hm : src = .alias cn ∧ curOf (s.ctx (cliOf s cn)) (keyOf s cn ob sg) = some id
      · obtain ⟨rfl, hcur⟩ := hm
        have typed := hct.hdl _ cn id ob' sg' (Or.inr hmem) hlf.openA
        obtain ⟨rfl, rfl⟩ := typed_key_of_cur hpo typed hcur
        obtain ⟨htok, hsim⟩ := sim_p_hdl hr hlf pf hrel hfs hcur (t := .added) (t' := .rep true)
          (by rw [hprog]; simp [hdlTok]) (by simp [hdlTok]) hobj (by simp [Th.ctx]) hrm
          (R' := (absOf s cn ob' sg' rm failed).R) (by simp only [setProg_ctx, setCtx_ctx, Th.ctx, if_true]; exact absOf_R.symm)
        exact ⟨_, hsim, Or.inr (next_chk2Ok htok (absOf_obj.trans hpres))⟩
      · refine hno ?_ (by simp [Th.ctx]) (by simp [Th.ctx]) ?_
        · intro id0 hc e
          simp only [hdlKey, Option.some.injEq, Prod.mk.injEq] at e
          obtain ⟨rfl, rfl⟩ := e; exact hm ⟨rfl, hc⟩
        · intro id0 e; simpa [hdlKey] using e
    · rename_i hpres
      by_cases hm : src = .alias cn ∧ curOf (s.ctx (cliOf s cn)) (keyOf s cn ob sg) = some id
      · obtain ⟨rfl, hcur⟩ := hm
        have typed := hct.hdl _ cn id ob' sg' (Or.inr hmem) hlf.openA
        obtain ⟨rfl, rfl⟩ := typed_key_of_cur hpo typed hcur
        obtain ⟨htok, hsim⟩ := sim_p_hdl hr hlf pf hrel hfs hcur (t := .added) (t' := .preRem false)
          (by rw [hprog]; simp [hdlTok]) (by simp [hdlTok]) hobj (by simp [Th.ctx]) hrm
          (R' := (absOf s cn ob' sg' rm failed).R) (by simp only [setProg_ctx, setCtx_ctx, Th.ctx, if_true]; exact absOf_R.symm)
        exact ⟨_, hsim, Or.inr (next_chk2Fail htok (by rw [absOf_obj]; exact hpres))⟩
      · refine hno ?_ (by simp [Th.ctx]) (by simp [Th.ctx]) ?_
        · intro id0 hc e
          simp only [hdlKey, Option.some.injEq, Prod.mk.injEq] at e
          obtain ⟨rfl, rfl⟩ := e; exact hm ⟨rfl, hc⟩
        · intro id0 e; simpa [hdlKey] using e
  case rem src id ob' sg' ok =>
    simp only [Option.some.injEq, Prod.mk.injEq] at hs; obtain ⟨rfl, -⟩ := hs
    by_cases hm : src = .alias cn ∧ curOf (s.ctx (cliOf s cn)) (keyOf s cn ob sg) = some id
    · obtain ⟨rfl, hcur⟩ := hm
      obtain ⟨b, typed⟩ := hct.rem _ cn id ob' sg' ok hprog hlf.openA
      obtain ⟨rfl, rfl⟩ := typed_key_of_cur hpo typed hcur
      obtain ⟨htok, hsim⟩ := sim_p_hdl hr hlf pf hrel hfs hcur (t := .preRem ok) (t' := .rep ok)
        (by rw [hprog]; simp [hdlTok]) (by simp [hdlTok]) hobj (by simp [Th.ctx]) hrm (R' := false)
        (by simp [Th.ctx, upd])
      exact ⟨_, hsim, Or.inr (next_rem htok)⟩
    · refine hno ?_ ?_ (by simp [Th.ctx]) ?_
      · intro id0 hc e
        simp only [hdlKey, Option.some.injEq, Prod.mk.injEq] at e
        obtain ⟨rfl, rfl⟩ := e; exact hm ⟨rfl, hc⟩
      · simp only [setProg_ctx, setCtx_ctx, Th.ctx, if_true, upd]
        split
        · rename_i e
          simp only [RKey.mk.injEq] at e; obtain ⟨rfl, rfl⟩ := e
          by_cases hsrc : src = .alias cn
          · subst hsrc
            obtain ⟨b, typed⟩ := hct.rem _ cn id ob sg ok hprog hlf.openA
            obtain ⟨po, h1, h2, -⟩ := cur_of_typed hpo typed
            exact absurd ⟨rfl, by simp only [curOf, keyOf, h1, Option.map_some, h2]⟩ hm
          · simp only [List.mem_filter, decide_eq_true_eq, ne_eq]
            exact ⟨fun h => h.1, fun h => ⟨h, fun e => hsrc e.symm⟩⟩
        · exact Iff.rfl
      · intro id0 e; simpa [hdlKey] using e
  case snd src id ok =>
    split at hs <;> simp only [Option.some.injEq, Prod.mk.injEq] at hs <;> obtain ⟨rfl, -⟩ := hs
    · refine ⟨_, sim_p_stutter pf Iff.rfl hobj rfl ?_ hrm ⟨rm, failed, hrel, hfs, rfl⟩, Or.inl rfl⟩
      intro id0 _; rw [hprog]; simp [hdlTok, State.setProg, upd]
    · rename_i hcond
      by_cases hsrc : src = .alias cn
      · subst hsrc
        exfalso; apply hcond
        have h1 := hl.regP; have h2 := hl.upP
        simp [h1, h2]
      · refine hno ?_ Iff.rfl rfl ?_
        · intro id0 _ e
          simp only [hdlKey, Option.some.injEq, Prod.mk.injEq] at e
          exact hsrc e.1
        · intro id0 e; simp [hdlKey, State.setProg, upd, onSendFail] at e
  case enq src id ok =>
    simp only [Option.some.injEq, Prod.mk.injEq] at hs; obtain ⟨rfl, -⟩ := hs
    by_cases hm : src = .alias cn ∧ curOf (s.ctx (cliOf s cn)) (keyOf s cn ob sg) = some id
    · obtain ⟨rfl, hcur⟩ := hm
      have ht : hdlTok (.alias cn) id (s.prog (.sock (srvOf s cn))) = some (.rep ok) := by rw [hprog]; simp [hdlTok]
      have hnf : failed = false := by
        cases hfv : failed with
        | false => rfl
        | true => exact absurd ((hfs id hcur).1 hfv) (hdl_facts hr hlf hcur ht)
      subst hnf
      have hc : (viewOf s cn ob sg).po.map (·.cur) = some id := hcur
      have htok : (absOf s cn ob sg rm false).tok = .rep ok := by
        simp only [absOf]; rw [absV_tok_some hc]; exact tokV_hdl ht
      have hsim := pf.sim' (ob := ob) (sg := sg) hfs (hrel.keep pf.srv hrm)
        (v' := { viewOf s cn ob sg with psp := [], lq := (viewOf s cn ob sg).lq ++ [.smSend (.alias cn) (.subReply id ok)] })
        (by rw [pf.view]; simp [viewOf])
      refine ⟨_, hsim, Or.inr ?_⟩
      rw [absV_enq_rep hc]
      exact next_repEnq htok
    · refine hno ?_ (by simp) ?_ ?_
      · intro id0 hc e
        simp only [hdlKey, Option.some.injEq, Prod.mk.injEq] at e
        obtain ⟨rfl, rfl⟩ := e; exact hm ⟨rfl, hc⟩
      · simp only [setProg_ctx, setCtx_ctx, if_true, List.filterMap_append, List.filterMap_cons, List.filterMap_nil]
        have : relevCb cn ob sg (curOf (s.ctx (cliOf s cn)) (keyOf s cn ob sg)) (.smSend src (.subReply id ok)) = none := by
          simp only [relevCb, relev]
          split
          · rename_i e
            split
            · rename_i e2; exact absurd ⟨e, e2⟩ hm
            · rfl
          · rfl
        rw [this]; simp
      · intro id0 e; simp [hdlKey] at e
  case hr id =>
    split at hs
    · simp at hs
    · rename_i cs' more o' heq
      simp only [Option.some.injEq, Prod.mk.injEq] at hs; obtain ⟨rfl, -⟩ := hs
      obtain ⟨h1, -, -, -⟩ := handleReplyStep_rsubs heq
      have h2 := handleReplyStep_loopQ heq
      refine hno ?_ (by simp [h1]) (by simp [h2]) ?_
      · intro id0 _ e; simp [hdlKey] at e
      · intro id0 e
        exfalso
        simp only [setProg_prog, if_true, List.append_nil] at e
        cases more with
        | nil => simp [hdlKey] at e
        | cons op' l =>
          obtain ⟨_, _, _, _, rfl⟩ := handleReplyStep_pushes heq op' List.mem_cons_self
          simp [hdlKey] at e
  case sr k' =>
    simp only [Option.some.injEq, Prod.mk.injEq] at hs; obtain ⟨rfl, -⟩ := hs
    refine hno ?_ (by simp) (by simp) ?_
    · intro id0 _ e; simp [hdlKey] at e
    · intro id0 e; simp [hdlKey] at e

end QmiModel.PubSub
