import QmiModel.Lemmas.C08Proto
import QmiModel.Lemmas.C08NetTok
/-! C08 — the abstraction of a model state to the protocol state (`Proto.AS`) of one connection `cn`, object `ob`,
signal `sg`.  `a` = owner of the client end (the subscribing context), `p` = owner of the server end (the publisher
context).  Everything that sits in a fixed place (socket threads, event-loop queue, connection buffers, tables) is read
off by a function; the two things that sit in user threads (the remover of the object, a failed request) are
described by relations. -/
namespace QmiModel.PubSub
open Proto

def cliOf (s : State) (cn : ConnId) : Ctx := ((s.conn cn).half true).owner
def srvOf (s : State) (cn : ConnId) : Ctx := ((s.conn cn).half false).owner
def keyOf (s : State) (cn : ConnId) (ob : Obj) (sg : Sg) : Key := ⟨.name (srvOf s cn), ob, sg⟩

/-- the connection is registered at both ends, both contexts run and neither has begun to stop -/
structure Live (s : State) (cn : ConnId) : Prop where
  aliveA : (s.ctx (cliOf s cn)).alive = true
  aliveP : (s.ctx (srvOf s cn)).alive = true
  upA : (s.ctx (cliOf s cn)).routerDown = false
  upP : (s.ctx (srvOf s cn)).routerDown = false
  regA : (s.ctx (cliOf s cn)).peers (.name (srvOf s cn)) = some cn
  regP : (s.ctx (srvOf s cn)).peers (.alias cn) = some cn

/-- the pending-request object registered for key `k` -/
def poOf (cs : CtxSt) (k : Key) : Option PObj := (cs.byKey k).bind cs.pobj

def pendP : Option PObj → P
  | none => .none
  | some po => if po.sub then .sub po.cancelled else .unsub (decide (po.rcvs ≠ []))

def pendOf (cs : CtxSt) (k : Key) : P := pendP (poOf cs k)

def curOf (cs : CtxSt) (k : Key) : Option ReqId := (poOf cs k).map (·.cur)

/-- the stage of the request handler (`_handle_subscription_request`) for request `id` of peer `src` -/
def hdlTok (src : Peer) (id : ReqId) : List MOp → Option T
  | .reqChk1 s' i _ _ :: _ => if s' = src ∧ i = id then some .chk1 else none
  | .addRemote _ _ _ :: .reqChk2 s' i _ _ :: _ => if s' = src ∧ i = id then some .preAdd else none
  | .reqChk2 s' i _ _ :: _ => if s' = src ∧ i = id then some .added else none
  | .removeRemote _ _ _ :: .sendChk d (.subReply i ok) :: _ => if d = src ∧ i = id then some (.preRem ok) else none
  | .sendChk d (.subReply i ok) :: _ => if d = src ∧ i = id then some (.rep ok) else none
  | .enq d (.subReply i ok) :: _ => if d = src ∧ i = id then some (.rep ok) else none
  | _ => none

/-- what a message publisher → subscriber means for the protocol of (`ob`, `sg`) with outstanding request `cur` -/
def relev (ob : Obj) (sg : Sg) (cur : Option ReqId) : Msg → Option DTok
  | .removed ob' sg' => if ob' = ob ∧ sg' = sg then some .N else none
  | .subReply id ok => if cur = some id then some (.Rep ok) else none
  | _ => none

def relevCb (cn : ConnId) (ob : Obj) (sg : Sg) (cur : Option ReqId) : Cb → Option DTok
  | .smSend d m => if d = .alias cn then relev ob sg cur m else none
  | _ => none

/-- what the abstraction reads off a state, for one connection / object / signal -/
structure View where
  rs : List Peer          -- `_remote_subscriptions[ob.sg]` of the publisher context
  ls : List Rcv           -- `_local_subscriptions[key]` of the subscribing context
  obj : ObjSt             -- `_rpc_object_map[ob]` of the publisher context
  po : Option PObj        -- the pending request of the subscribing context for the key
  psp : List MOp          -- program of the publisher context's socket thread
  psa : List MOp          -- program of the subscribing context's socket thread
  lq : List Cb            -- event-loop queue of the publisher context
  ib : List Msg           -- what the subscribing context has not yet read from the connection

def viewOf (s : State) (cn : ConnId) (ob : Obj) (sg : Sg) : View :=
  { rs := (s.ctx (srvOf s cn)).rsubs ⟨ob, sg⟩,
    ls := (s.ctx (cliOf s cn)).lsubs (keyOf s cn ob sg),
    obj := (s.ctx (srvOf s cn)).objs ob,
    po := poOf (s.ctx (cliOf s cn)) (keyOf s cn ob sg),
    psp := s.prog (.sock (srvOf s cn)),
    psa := s.prog (.sock (cliOf s cn)),
    lq := (s.ctx (srvOf s cn)).loopQ,
    ib := ((s.conn cn).half true).inbox }

/-- the channel publisher → subscriber: what the subscriber has not read yet, then what the publisher's event loop
has not sent yet -/
def dV (cn : ConnId) (ob : Obj) (sg : Sg) (cur : Option ReqId) (v : View) : List DTok :=
  v.ib.filterMap (relev ob sg cur) ++ v.lq.filterMap (relevCb cn ob sg cur)

def DTok.isRep : DTok → Bool
  | .Rep _ => true
  | .N => false

/-- where request `id` is, if it is not lost -/
def tokV (cn : ConnId) (ob : Obj) (sg : Sg) (v : View) (id : ReqId) : T :=
  match hdlTok (.alias cn) id v.psp with
  | some t => t
  | none =>
    if (dV cn ob sg (some id) v).any DTok.isRep then .inD
    else if MOp.handleReply id true ∈ v.psa then .hr true
    else .req

/-- the abstract state of a view, given the two things that are not functions of the state -/
def absV (cn : ConnId) (k : Key) (v : View) (rm : Rm) (failed : Bool) : AS :=
  let cur := v.po.map (·.cur)
  { R := decide (Peer.alias cn ∈ v.rs),
    A := decide (v.ls ≠ []),
    obj := v.obj,
    rm := rm,
    pend := pendP v.po,
    tok := (match cur with
      | none => .none
      | some id => if failed then .hr false else tokV cn k.ob k.sg v id),
    D := dV cn k.ob k.sg cur v,
    sr := decide (MOp.sigRemoved k ∈ v.psa),
    wp := decide (MOp.peerRemoved k.pc ∈ v.psa ∧ MOp.popPeer k.pc ∉ v.psa) }

/-- request `id` is lost: an error reply for it is about to be handled, or it is registered on another connection (which
is being closed) -/
def FailCar (s : State) (cn : ConnId) (id : ReqId) : Prop :=
  (∃ th : Th, th.ctx = cliOf s cn ∧ MOp.handleReply id false ∈ s.prog th) ∨
  (∃ n', n' ≠ cn ∧ ((s.conn n').half true).owner = cliOf s cn ∧ id ∈ ((s.conn n').half true).pend)

/-- what the program of a thread of the publisher context says about the removal of `ob` -/
def remPhase (cn : ConnId) (ob : Obj) (sg : Sg) : List MOp → Rm
  | .objRemoved ob' :: _ => if ob' = ob then .pre else .none
  | .notify ns ob' :: _ => if ob' = ob then (if (sg, Peer.alias cn) ∈ ns then .np else .post) else .none
  | .enq d (.removed ob' sg') :: rest =>
    if ob' = ob then
      (if d = .alias cn ∧ sg' = sg then .np
       else match rest with
         | .notify ns _ :: _ => if (sg, Peer.alias cn) ∈ ns then .np else .post
         | _ => .post)
    else .none
  | .delObj ob' :: _ => if ob' = ob then .post else .none
  | _ => .none

/-- `rm` describes the remover of `ob` in the publisher context -/
structure RmRel (s : State) (cn : ConnId) (ob : Obj) (sg : Sg) (rm : Rm) : Prop where
  all : ∀ th : Th, th.ctx = srvOf s cn → remPhase cn ob sg (s.prog th) ≠ .none → remPhase cn ob sg (s.prog th) = rm
  ex : rm ≠ .none → ∃ th : Th, th.ctx = srvOf s cn ∧ remPhase cn ob sg (s.prog th) = rm

def absOf (s : State) (cn : ConnId) (ob : Obj) (sg : Sg) (rm : Rm) (failed : Bool) : AS :=
  absV cn (keyOf s cn ob sg) (viewOf s cn ob sg) rm failed

/-- `x` is the abstraction of `s` for (`cn`, `ob`, `sg`) -/
def Sim (s : State) (cn : ConnId) (ob : Obj) (sg : Sg) (x : AS) : Prop :=
  ∃ rm failed, RmRel s cn ob sg rm ∧
    (∀ id, curOf (s.ctx (cliOf s cn)) (keyOf s cn ob sg) = some id → (failed = true ↔ FailCar s cn id)) ∧
    x = absOf s cn ob sg rm failed

end QmiModel.PubSub
