import QmiModel.Lemmas.C16Parse
/-!
# C16 — what an error of `parseValue` means
-/
namespace QmiModel.Config

theorem mapIdx_error {f : Nat → PV → R PV} {e : PyExc} :
    ∀ (xs : List PV) (i : Nat), mapIdx f i xs = .error e → ∃ n x, xs[n]? = some x ∧ f (i + n) x = .error e := by
  intro xs
  induction xs with
  | nil => intro i h; simp [mapIdx] at h
  | cons x xs ih =>
    intro i h
    simp only [mapIdx] at h
    cases hx : f i x with
    | error e' => simp [hx] at h; subst h; exact ⟨0, x, by simp, by simpa using hx⟩
    | ok y =>
      cases hr : mapIdx f (i + 1) xs with
      | ok ys => simp [hx, hr] at h
      | error e' =>
        simp [hx, hr] at h; subst h
        obtain ⟨n, x', h1, h2⟩ := ih (i + 1) hr
        exact ⟨n + 1, x', by simpa using h1, by rw [← h2]; congr 1; omega⟩

theorem mapKV_error {f : Str → PV → R PV} {e : PyExc} :
    ∀ (kvs : List (Str × PV)), mapKV f kvs = .error e → ∃ k x, (k, x) ∈ kvs ∧ f k x = .error e := by
  intro kvs
  induction kvs with
  | nil => intro h; simp [mapKV] at h
  | cons kv kvs ih =>
    obtain ⟨k, x⟩ := kv
    intro h
    simp only [mapKV] at h
    cases hx : f k x with
    | error e' => simp [hx] at h; subst h; exact ⟨k, x, by simp, hx⟩
    | ok y =>
      cases hr : mapKV f kvs with
      | ok ys => simp [hx, hr] at h
      | error e' =>
        simp [hx, hr] at h; subst h
        obtain ⟨k', x', h1, h2⟩ := ih hr
        exact ⟨k', x', by simp [h1], h2⟩

theorem structResult_error (name : Str) (names : List Str) (kvs : List (Str × PV)) (p : Path)
    (r : R (List (Str × PV))) (e : PyExc) (h : structResult name names kvs p r = .error e) :
    r = .error e ∨ ∃ k, k ∈ keysOf kvs ∧ k ∉ names ∧ e = .config .unknown (p ++ [.field k]) := by
  cases r with
  | error e' => simp [structResult] at h; subst h; exact Or.inl rfl
  | ok items =>
    simp only [structResult] at h
    cases hu : firstUnknown names kvs with
    | none => simp [hu] at h
    | some k =>
      simp [hu] at h
      have := firstUnknown_some names kvs k hu
      exact Or.inr ⟨k, this.1, this.2, h.symm⟩

/-- the mismatch error at the current item -/
theorem mismatch_spec {τ : Ty} {j : PV} {p : Path} {e : PyExc} (hh : headOk τ j = false)
    (h : (mismatch p : R PV) = .error e) : ∃ r k, Offends τ j r k ∧ e = .config k (p ++ r) := by
  simp [mismatch] at h; subst h
  exact ⟨[], .mismatch, .mismatch hh, by simp⟩

mutual
/-- every error of the parser is justified by an offending item, and names it -/
theorem err_spec : ∀ (τ : Ty) (j : PV) (p : Path) (e : PyExc), parseValue τ j p = .error e →
    ∃ r k, Offends τ j r k ∧ e = .config k (p ++ r)
  | .any, j, p, e, h => by simp [parseValue] at h
  | .opt t, j, p, e, h => by
    by_cases hj : j = .none
    · subst hj; simp [parseValue] at h
    · rw [parseValue_opt_of_ne _ _ _ hj] at h
      obtain ⟨r, k, ho, he⟩ := err_spec t j p e h
      exact ⟨r, k, .opt hj ho, he⟩
  | .int, j, p, e, h => by
    cases j <;> simp only [parseValue, reduceCtorEq] at h <;> exact mismatch_spec (by rfl) h
  | .float, j, p, e, h => by
    cases j with
    | int n =>
      rw [parseValue_float_int] at h
      cases hf : floatOverflow n with
      | false => simp [hf] at h
      | true =>
        simp only [hf, if_true] at h
        exact mismatch_spec (by simp [headOk, hf]) h
    | none => simp only [parseValue] at h; exact mismatch_spec (by rfl) h
    | str s => simp only [parseValue] at h; exact mismatch_spec (by rfl) h
    | list s => simp only [parseValue] at h; exact mismatch_spec (by rfl) h
    | tuple s => simp only [parseValue] at h; exact mismatch_spec (by rfl) h
    | dict s => simp only [parseValue] at h; exact mismatch_spec (by rfl) h
    | inst c s => simp only [parseValue] at h; exact mismatch_spec (by rfl) h
    | _ => simp [parseValue] at h
  | .str, j, p, e, h => by
    cases j <;> simp only [parseValue, reduceCtorEq] at h <;> exact mismatch_spec (by rfl) h
  | .bool, j, p, e, h => by
    cases j <;> simp only [parseValue, reduceCtorEq] at h <;> exact mismatch_spec (by rfl) h
  | .never, j, p, e, h => by simp only [parseValue] at h; exact mismatch_spec (by rfl) h
  | .listAny, j, p, e, h => by
    cases j <;> simp only [parseValue, reduceCtorEq] at h <;> exact mismatch_spec (by rfl) h
  | .tupleAny, j, p, e, h => by
    cases j <;> simp only [parseValue, reduceCtorEq] at h <;> exact mismatch_spec (by rfl) h
  | .dictAny, j, p, e, h => by
    cases j <;> simp only [parseValue, reduceCtorEq] at h <;> exact mismatch_spec (by rfl) h
  | .list t, j, p, e, h => by
    cases j with
    | list xs =>
      simp only [parseValue, okMap_error] at h
      obtain ⟨n, x, h1, h2⟩ := mapIdx_error _ _ h
      obtain ⟨r, k, ho, he⟩ := err_spec t x _ e h2
      exact ⟨.idx n :: r, k, .list h1 ho, by simpa using he⟩
    | _ => simp only [parseValue] at h; exact mismatch_spec (by rfl) h
  | .tupleVar t, j, p, e, h => by
    cases j with
    | list xs =>
      simp only [parseValue, okMap_error] at h
      obtain ⟨n, x, h1, h2⟩ := mapIdx_error _ _ h
      obtain ⟨r, k, ho, he⟩ := err_spec t x _ e h2
      exact ⟨.idx n :: r, k, .tupleVarL h1 ho, by simpa using he⟩
    | tuple xs =>
      simp only [parseValue, okMap_error] at h
      obtain ⟨n, x, h1, h2⟩ := mapIdx_error _ _ h
      obtain ⟨r, k, ho, he⟩ := err_spec t x _ e h2
      exact ⟨.idx n :: r, k, .tupleVarT h1 ho, by simpa using he⟩
    | _ => simp only [parseValue] at h; exact mismatch_spec (by rfl) h
  | .tupleFix ts, j, p, e, h => by
    cases j with
    | list xs =>
      rw [parseValue_tupleFix_list] at h
      by_cases hl : xs.length = ts.length
      · simp only [hl, if_true, okMap_error] at h
        obtain ⟨n, t, x, r, k, h1, h2, ho, he⟩ := errT_spec ts xs 0 p e hl h
        exact ⟨.idx n :: r, k, .tupleFixL hl h1 h2 ho, by simpa using he⟩
      · simp only [hl, if_false] at h
        exact mismatch_spec (by simp [headOk, hl]) h
    | tuple xs =>
      rw [parseValue_tupleFix_tuple] at h
      by_cases hl : xs.length = ts.length
      · simp only [hl, if_true, okMap_error] at h
        obtain ⟨n, t, x, r, k, h1, h2, ho, he⟩ := errT_spec ts xs 0 p e hl h
        exact ⟨.idx n :: r, k, .tupleFixT hl h1 h2 ho, by simpa using he⟩
      · simp only [hl, if_false] at h
        exact mismatch_spec (by simp [headOk, hl]) h
    | _ => simp only [parseValue] at h; exact mismatch_spec (by rfl) h
  | .dict t, j, p, e, h => by
    cases j with
    | dict kvs =>
      simp only [parseValue, okMap_error] at h
      obtain ⟨key, x, h1, h2⟩ := mapKV_error _ h
      obtain ⟨r, k, ho, he⟩ := err_spec t x _ e h2
      exact ⟨.key key :: r, k, .dict h1 ho, by simpa using he⟩
    | _ => simp only [parseValue] at h; exact mismatch_spec (by rfl) h
  | .struct name fs, j, p, e, h => by
    cases j with
    | dict kvs =>
      rw [parseValue_struct_dict] at h
      rcases structResult_error _ _ _ _ _ _ h with h | ⟨k, h1, h2, h3⟩
      · rcases errF_spec fs kvs p e h with ⟨n, t, h1, h2, h3⟩ | ⟨n, t, d, x, r, k, h1, h2, ho, he⟩
        · exact ⟨[.field n], .missing, .missing h1 h2, by simpa using h3⟩
        · exact ⟨.field n :: r, k, .field h1 h2 ho, he⟩
      · exact ⟨[.field k], .unknown, .unknown h1 h2, by simpa using h3⟩
    | inst c ifs =>
      rw [parseValue_struct_inst] at h
      rcases structResult_error _ _ _ _ _ _ h with h | ⟨k, h1, h2, h3⟩
      · rcases errF_spec fs _ p e h with ⟨n, t, h1, h2, h3⟩ | ⟨n, t, d, x, r, k, h1, h2, ho, he⟩
        · exact ⟨[.field n], .missing, .missingInst h1 h2, by simpa using h3⟩
        · exact ⟨.field n :: r, k, .fieldInst h1 h2 ho, he⟩
      · exact ⟨[.field k], .unknown, .unknownInst h1 h2, by simpa using h3⟩
    | _ => simp only [parseValue] at h; exact mismatch_spec (by rfl) h
theorem errT_spec : ∀ (ts : List Ty) (xs : List PV) (i : Nat) (p : Path) (e : PyExc),
    xs.length = ts.length → parseTuple ts xs i p = .error e →
    ∃ n t x r k, ts[n]? = some t ∧ xs[n]? = some x ∧ Offends t x r k ∧ e = .config k (p ++ .idx (i + n) :: r)
  | [], xs, i, p, e, hl, h => by
    cases xs <;> simp [parseTuple] at h
  | t :: ts, xs, i, p, e, hl, h => by
    cases xs with
    | nil => simp [parseTuple] at h
    | cons x xs =>
      simp only [parseTuple] at h
      cases hx : parseValue t x (p ++ [.idx i]) with
      | error e' =>
        simp [hx] at h; subst h
        obtain ⟨r, k, ho, he⟩ := err_spec t x _ _ hx
        exact ⟨0, t, x, r, k, by simp, by simp, ho, by simpa using he⟩
      | ok y =>
        cases hr : parseTuple ts xs (i + 1) p with
        | ok ys => simp [hx, hr] at h
        | error e' =>
          simp [hx, hr] at h; subst h
          obtain ⟨n, t', x', r, k, h1, h2, ho, he⟩ := errT_spec ts xs (i + 1) p _ (by simpa using hl) hr
          refine ⟨n + 1, t', x', r, k, by simpa using h1, by simpa using h2, ho, ?_⟩
          have hi : i + 1 + n = i + (n + 1) := by omega
          rw [he, hi]
theorem errF_spec : ∀ (fs : List Field) (kvs : List (Str × PV)) (p : Path) (e : PyExc),
    parseFields fs kvs p = .error e →
    (∃ n t, (n, t, Option.none) ∈ fs ∧ assoc n kvs = .none ∧ e = .config .missing (p ++ [.field n])) ∨
    (∃ n t d x r k, (n, t, d) ∈ fs ∧ assoc n kvs = some x ∧ Offends t x r k ∧ e = .config k (p ++ .field n :: r))
  | [], kvs, p, e, h => by simp [parseFields] at h
  | (n, t, d) :: fs, kvs, p, e, h => by
    have lift : ∀ e', parseFields fs kvs p = .error e' →
        (∃ n' t', (n', t', Option.none) ∈ (n, t, d) :: fs ∧ assoc n' kvs = .none ∧ e' = .config .missing (p ++ [.field n'])) ∨
        (∃ n' t' d' x r k, (n', t', d') ∈ (n, t, d) :: fs ∧ assoc n' kvs = some x ∧ Offends t' x r k ∧
          e' = .config k (p ++ .field n' :: r)) := by
      intro e' hr
      rcases errF_spec fs kvs p e' hr with ⟨n', t', h1, h2, h3⟩ | ⟨n', t', d', x, r, k, h1, h2, ho, he⟩
      · exact Or.inl ⟨n', t', by simp [h1], h2, h3⟩
      · exact Or.inr ⟨n', t', d', x, r, k, by simp [h1], h2, ho, he⟩
    simp only [parseFields] at h
    cases ha : assoc n kvs with
    | some x =>
      simp only [ha] at h
      cases hx : parseValue t x (p ++ [.field n]) with
      | error e' =>
        simp [hx] at h; subst h
        obtain ⟨r, k, ho, he⟩ := err_spec t x _ _ hx
        exact Or.inr ⟨n, t, d, x, r, k, by simp, ha, ho, by simpa using he⟩
      | ok y =>
        cases hr : parseFields fs kvs p with
        | ok ys => simp [hx, hr] at h
        | error e' => simp [hx, hr] at h; subst h; exact lift _ hr
    | none =>
      simp only [ha] at h
      cases d with
      | none => simp at h; subst h; exact Or.inl ⟨n, t, by simp, ha, rfl⟩
      | some dv =>
        cases hr : parseFields fs kvs p with
        | ok ys => simp [hr] at h
        | error e' => simp [hr] at h; subst h; exact lift _ hr
end

/-! ## every offending item makes the parser fail -/

def IsErr {α : Type} (r : R α) : Prop := ∃ e, r = .error e

theorem isErr_okMap {α β : Type} (f : α → β) (r : R α) (h : IsErr r) : IsErr (okMap f r) := by
  obtain ⟨e, rfl⟩ := h; exact ⟨e, rfl⟩

theorem isErr_structResult (name : Str) (names : List Str) (kvs : List (Str × PV)) (p : Path)
    (r : R (List (Str × PV))) (h : IsErr r) : IsErr (structResult name names kvs p r) := by
  obtain ⟨e, rfl⟩ := h; exact ⟨e, rfl⟩

theorem isErr_structResult_unknown (name : Str) (names : List Str) (kvs : List (Str × PV)) (p : Path)
    (r : R (List (Str × PV))) {k : Str} (h1 : k ∈ keysOf kvs) (h2 : k ∉ names) :
    IsErr (structResult name names kvs p r) := by
  cases r with
  | error e => exact ⟨e, rfl⟩
  | ok items =>
    simp only [structResult]
    cases hu : firstUnknown names kvs with
    | none => exact absurd ((firstUnknown_none names kvs).1 hu k h1) h2
    | some k' => exact ⟨_, rfl⟩

theorem headOk_false_error : ∀ (τ : Ty) (j : PV), headOk τ j = false → ∀ p, IsErr (parseValue τ j p)
  | .any, j, h, p => by simp [headOk] at h
  | .opt t, j, h, p => by
    simp only [headOk, Bool.or_eq_false_iff] at h
    have hj : j ≠ .none := by intro hn; subst hn; simp at h
    rw [parseValue_opt_of_ne _ _ _ hj]
    exact headOk_false_error t j h.2 p
  | .int, j, h, p => by cases j <;> simp [headOk] at h <;> exact ⟨_, by simp only [parseValue]; rfl⟩
  | .float, j, h, p => by
    cases j with
    | int n =>
      simp [headOk] at h
      rw [parseValue_float_int]; simp only [h, if_true]; exact ⟨_, rfl⟩
    | _ => simp [headOk] at h <;> exact ⟨_, by simp only [parseValue]; rfl⟩
  | .str, j, h, p => by cases j <;> simp [headOk] at h <;> exact ⟨_, by simp only [parseValue]; rfl⟩
  | .bool, j, h, p => by cases j <;> simp [headOk] at h <;> exact ⟨_, by simp only [parseValue]; rfl⟩
  | .never, j, h, p => ⟨_, by simp only [parseValue]; rfl⟩
  | .listAny, j, h, p => by cases j <;> simp [headOk] at h <;> exact ⟨_, by simp only [parseValue]; rfl⟩
  | .tupleAny, j, h, p => by cases j <;> simp [headOk] at h <;> exact ⟨_, by simp only [parseValue]; rfl⟩
  | .dictAny, j, h, p => by cases j <;> simp [headOk] at h <;> exact ⟨_, by simp only [parseValue]; rfl⟩
  | .list t, j, h, p => by cases j <;> simp [headOk] at h <;> exact ⟨_, by simp only [parseValue]; rfl⟩
  | .tupleVar t, j, h, p => by cases j <;> simp [headOk] at h <;> exact ⟨_, by simp only [parseValue]; rfl⟩
  | .dict t, j, h, p => by cases j <;> simp [headOk] at h <;> exact ⟨_, by simp only [parseValue]; rfl⟩
  | .struct n fs, j, h, p => by cases j <;> simp [headOk] at h <;> exact ⟨_, by simp only [parseValue]; rfl⟩
  | .tupleFix ts, j, h, p => by
    cases j with
    | list xs => simp [headOk] at h; rw [parseValue_tupleFix_list]; simp only [h, if_false]; exact ⟨_, rfl⟩
    | tuple xs => simp [headOk] at h; rw [parseValue_tupleFix_tuple]; simp only [h, if_false]; exact ⟨_, rfl⟩
    | _ => exact ⟨_, by simp only [parseValue]; rfl⟩

theorem mapIdx_isErr {f : Nat → PV → R PV} :
    ∀ (xs : List PV) (i n : Nat) (x : PV), xs[n]? = some x → IsErr (f (i + n) x) → IsErr (mapIdx f i xs) := by
  intro xs
  induction xs with
  | nil => intro i n x h; simp at h
  | cons y ys ih =>
    intro i n x h he
    simp only [mapIdx]
    cases hy : f i y with
    | error e => exact ⟨e, rfl⟩
    | ok y' =>
      cases n with
      | zero => simp at h; subst h; obtain ⟨e, he⟩ := he; simp [hy] at he
      | succ n =>
        have : IsErr (mapIdx f (i + 1) ys) := ih (i + 1) n x (by simpa using h) (by rwa [show i + 1 + n = i + (n + 1) by omega])
        obtain ⟨e, he'⟩ := this
        exact ⟨e, by simp [he']⟩

theorem mapKV_isErr {f : Str → PV → R PV} :
    ∀ (kvs : List (Str × PV)) (k : Str) (x : PV), (k, x) ∈ kvs → IsErr (f k x) → IsErr (mapKV f kvs) := by
  intro kvs
  induction kvs with
  | nil => intro k x h; simp at h
  | cons kv kvs ih =>
    obtain ⟨k', y⟩ := kv
    intro k x h he
    simp only [mapKV]
    cases hy : f k' y with
    | error e => exact ⟨e, rfl⟩
    | ok y' =>
      simp only [List.mem_cons, Prod.mk.injEq] at h
      rcases h with ⟨rfl, rfl⟩ | h
      · obtain ⟨e, he⟩ := he; simp [hy] at he
      · obtain ⟨e, he'⟩ := ih k x h he
        exact ⟨e, by simp [he']⟩

theorem parseTuple_isErr : ∀ (ts : List Ty) (xs : List PV) (i : Nat) (p : Path) (n : Nat) (t : Ty) (x : PV),
    ts[n]? = some t → xs[n]? = some x → (∀ q, IsErr (parseValue t x q)) → IsErr (parseTuple ts xs i p)
  | [], xs, i, p, n, t, x, h1, _, _ => by simp at h1
  | t' :: ts, [], i, p, n, t, x, _, h2, _ => by simp at h2
  | t' :: ts, x' :: xs, i, p, n, t, x, h1, h2, he => by
    simp only [parseTuple]
    cases hy : parseValue t' x' (p ++ [.idx i]) with
    | error e => exact ⟨e, rfl⟩
    | ok y' =>
      cases n with
      | zero =>
        simp at h1 h2; subst h1; subst h2
        obtain ⟨e, he⟩ := he (p ++ [.idx i]); simp [hy] at he
      | succ n =>
        obtain ⟨e, he'⟩ := parseTuple_isErr ts xs (i + 1) p n t x (by simpa using h1) (by simpa using h2) he
        exact ⟨e, by simp [he']⟩

theorem parseFields_isErr_missing : ∀ (fs : List Field) (kvs : List (Str × PV)) (p : Path) (n : Str) (t : Ty),
    (n, t, Option.none) ∈ fs → assoc n kvs = .none → IsErr (parseFields fs kvs p)
  | [], kvs, p, n, t, h, _ => by simp at h
  | (n', t', d') :: fs, kvs, p, n, t, h, ha => by
    simp only [List.mem_cons, Prod.mk.injEq] at h
    simp only [parseFields]
    rcases h with ⟨rfl, rfl, rfl⟩ | h
    · simp only [ha]; exact ⟨_, rfl⟩
    · have ih := parseFields_isErr_missing fs kvs p n t h ha
      obtain ⟨e, he⟩ := ih
      cases assoc n' kvs with
      | some x =>
        simp only
        cases parseValue t' x (p ++ [.field n']) with
        | error e' => exact ⟨e', rfl⟩
        | ok y => exact ⟨e, by simp [he]⟩
      | none =>
        cases d' with
        | none => exact ⟨_, rfl⟩
        | some dv => exact ⟨e, by simp [he]⟩

theorem parseFields_isErr_field : ∀ (fs : List Field) (kvs : List (Str × PV)) (p : Path) (n : Str) (t : Ty)
    (d : Option PV) (x : PV),
    (n, t, d) ∈ fs → assoc n kvs = some x → (∀ q, IsErr (parseValue t x q)) → IsErr (parseFields fs kvs p)
  | [], kvs, p, n, t, d, x, h, _, _ => by simp at h
  | (n', t', d') :: fs, kvs, p, n, t, d, x, h, ha, hx => by
    simp only [List.mem_cons, Prod.mk.injEq] at h
    simp only [parseFields]
    rcases h with ⟨rfl, rfl, rfl⟩ | h
    · simp only [ha]
      obtain ⟨e, he⟩ := hx (p ++ [.field n])
      exact ⟨e, by simp [he]⟩
    · obtain ⟨e, he⟩ := parseFields_isErr_field fs kvs p n t d x h ha hx
      cases assoc n' kvs with
      | some x' =>
        simp only
        cases parseValue t' x' (p ++ [.field n']) with
        | error e' => exact ⟨e', rfl⟩
        | ok y => exact ⟨e, by simp [he]⟩
      | none =>
        cases d' with
        | none => exact ⟨_, rfl⟩
        | some dv => exact ⟨e, by simp [he]⟩

/-- **whenever** an item offends (unknown field, missing required field, inadmissible value), parsing fails -/
theorem offending_rejected {τ : Ty} {j : PV} {r : Path} {k : CfgKind} (h : Offends τ j r k) :
    ∀ p, IsErr (parseValue τ j p) := by
  induction h with
  | mismatch hh => exact headOk_false_error _ _ hh
  | missing h1 h2 =>
    intro p; rw [parseValue_struct_dict]
    exact isErr_structResult _ _ _ _ _ (parseFields_isErr_missing _ _ _ _ _ h1 h2)
  | unknown h1 h2 =>
    intro p; rw [parseValue_struct_dict]
    exact isErr_structResult_unknown _ _ _ _ _ h1 h2
  | missingInst h1 h2 =>
    intro p; rw [parseValue_struct_inst]
    exact isErr_structResult _ _ _ _ _ (parseFields_isErr_missing _ _ _ _ _ h1 h2)
  | unknownInst h1 h2 =>
    intro p; rw [parseValue_struct_inst]
    exact isErr_structResult_unknown _ _ _ _ _ h1 h2
  | opt hj _ ih => intro p; rw [parseValue_opt_of_ne _ _ _ hj]; exact ih p
  | list h1 _ ih =>
    intro p; simp only [parseValue]
    exact isErr_okMap _ _ (mapIdx_isErr _ 0 _ _ h1 (ih _))
  | tupleVarL h1 _ ih =>
    intro p; simp only [parseValue]
    exact isErr_okMap _ _ (mapIdx_isErr _ 0 _ _ h1 (ih _))
  | tupleVarT h1 _ ih =>
    intro p; simp only [parseValue]
    exact isErr_okMap _ _ (mapIdx_isErr _ 0 _ _ h1 (ih _))
  | tupleFixL hl h1 h2 _ ih =>
    intro p; rw [parseValue_tupleFix_list]; simp only [hl, if_true]
    exact isErr_okMap _ _ (parseTuple_isErr _ _ 0 p _ _ _ h1 h2 ih)
  | tupleFixT hl h1 h2 _ ih =>
    intro p; rw [parseValue_tupleFix_tuple]; simp only [hl, if_true]
    exact isErr_okMap _ _ (parseTuple_isErr _ _ 0 p _ _ _ h1 h2 ih)
  | dict h1 _ ih =>
    intro p; simp only [parseValue]
    exact isErr_okMap _ _ (mapKV_isErr _ _ _ h1 (ih _))
  | field h1 h2 _ ih =>
    intro p; rw [parseValue_struct_dict]
    exact isErr_structResult _ _ _ _ _ (parseFields_isErr_field _ _ _ _ _ _ _ h1 h2 ih)
  | fieldInst h1 h2 _ ih =>
    intro p; rw [parseValue_struct_inst]
    exact isErr_structResult _ _ _ _ _ (parseFields_isErr_field _ _ _ _ _ _ _ h1 h2 ih)

end QmiModel.Config
