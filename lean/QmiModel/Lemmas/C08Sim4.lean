import QmiModel.Lemmas.C08Sim3
/-! C08, simulation layer — micro steps of the subscribing context: what they leave alone. -/
set_option linter.unusedSimpArgs false
namespace QmiModel.PubSub
open Proto

def MOp.isPd : MOp → Bool
  | .subRemote .. => true
  | .unsubRemote .. => true
  | .handleReply .. => true
  | .sigRemoved .. => true
  | _ => false

def MOp.isLs : MOp → Bool
  | .addLocal .. => true
  | .removeLocal .. => true
  | .subRemote .. => true
  | .unsubRemote .. => true
  | .handleReply .. => true
  | .objRemoved .. => true
  | .sigRemoved .. => true
  | .peerRemoved .. => true
  | _ => false

set_option maxHeartbeats 2000000 in
theorem microStep_pd {s s' : State} {th : Th} {ch ch2 : Nat} {op : MOp} {rest : List MOp} {o : Out}
    (hop : op.isPd = false) (hs : microStep s th ch ch2 op rest = some (s', o)) (c : Ctx) :
    (s'.ctx c).byKey = (s.ctx c).byKey ∧ (s'.ctx c).pobj = (s.ctx c).pobj ∧ (s'.ctx c).byId = (s.ctx c).byId := by
  cases op <;> simp only [MOp.isPd] at hop <;> (try contradiction) <;> simp only [microStep] at hs
  all_goals (try (split at hs))
  all_goals (try (split at hs))
  all_goals (try (split at hs))
  all_goals (try (split at hs))
  all_goals (try (simp at hs))
  all_goals (try (obtain ⟨rfl, -⟩ := hs))
  all_goals (simp only [setProg_ctx, setCtx_ctx, State.setProg, peerRemovedStep])
  all_goals (try (split <;> (try (rename_i e; subst e)) <;> (first | (exact ⟨rfl, rfl, rfl⟩) | (exact ⟨trivial, trivial, trivial⟩) | skip)))
  all_goals (first | (exact ⟨rfl, rfl, rfl⟩) | (exact ⟨trivial, trivial, trivial⟩))

set_option maxHeartbeats 2000000 in
theorem microStep_ls {s s' : State} {th : Th} {ch ch2 : Nat} {op : MOp} {rest : List MOp} {o : Out}
    (hop : op.isLs = false) (hs : microStep s th ch ch2 op rest = some (s', o)) (c : Ctx) :
    (s'.ctx c).lsubs = (s.ctx c).lsubs := by
  cases op <;> simp only [MOp.isLs] at hop <;> (try contradiction) <;> simp only [microStep] at hs
  all_goals (try (split at hs))
  all_goals (try (split at hs))
  all_goals (try (split at hs))
  all_goals (try (split at hs))
  all_goals (try (simp at hs))
  all_goals (try (obtain ⟨rfl, -⟩ := hs))
  all_goals (simp only [setProg_ctx, setCtx_ctx, State.setProg])
  all_goals (try (split <;> (try (rename_i e; subst e)) <;> (first | rfl | trivial | skip)))
  all_goals (first | rfl | trivial)


/-- what a step of a thread of the subscribing context leaves alone -/
structure AFrame (s s' : State) (cn : ConnId) : Prop where
  cli : cliOf s' cn = cliOf s cn
  srv : srvOf s' cn = srvOf s cn
  ctxP : s'.ctx (srvOf s cn) = s.ctx (srvOf s cn)
  progP : ∀ th : Th, th.ctx = srvOf s cn → s'.prog th = s.prog th
  own : ∀ n b, ((s'.conn n).half b).owner = ((s.conn n).half b).owner

theorem aframe_micro {s s' : State} {th : Th} {ch ch2 : Nat} {op : MOp} {rest : List MOp} {o : Out}
    (hs : microStep s th ch ch2 op rest = some (s', o))
    {cn : ConnId} (hth : th.ctx = cliOf s cn) (hne : cliOf s cn ≠ srvOf s cn) : AFrame s s' cn := by
  have hf := microStep_frame hs
  have hown := microStep_owner hs
  refine ⟨hown cn true, hown cn false, hf.ctx_other _ (by rw [hth]; exact Ne.symm hne), ?_, hown⟩
  intro th' hth'
  exact hf.prog_other th' (fun e => hne (by rw [← hth, ← e, hth']))

theorem AFrame.view {s s' : State} {cn : ConnId} (h : AFrame s s' cn) (ob : Obj) (sg : Sg)
    (hib : ((s'.conn cn).half true).inbox = ((s.conn cn).half true).inbox) :
    viewOf s' cn ob sg = { viewOf s cn ob sg with
      ls := (s'.ctx (cliOf s cn)).lsubs (keyOf s cn ob sg), po := poOf (s'.ctx (cliOf s cn)) (keyOf s cn ob sg),
      psa := s'.prog (.sock (cliOf s cn)) } := by
  simp only [viewOf, keyOf, h.cli, h.srv, h.ctxP, h.progP (.sock (srvOf s cn)) rfl, hib]

theorem AFrame.rm {s s' : State} {cn : ConnId} (h : AFrame s s' cn) {ob : Obj} {sg : Sg} {rm : Rm} (hrel : RmRel s cn ob sg rm) :
    RmRel s' cn ob sg rm :=
  hrel.keep h.srv (fun th hth => by rw [h.progP th hth])

theorem AFrame.sim' {s s' : State} {cn : ConnId} {ob : Obj} {sg : Sg} (h : AFrame s s' cn) {rm : Rm} {failed' : Bool}
    (hrel : RmRel s cn ob sg rm)
    (hf : ∀ id, curOf (s'.ctx (cliOf s cn)) (keyOf s cn ob sg) = some id → (failed' = true ↔ FailCar s' cn id))
    {v' : View} (hv : viewOf s' cn ob sg = v') :
    Sim s' cn ob sg (absV cn (keyOf s cn ob sg) v' rm failed') := by
  refine ⟨rm, failed', h.rm hrel, ?_, ?_⟩
  · intro id hid
    simp only [keyOf, h.cli, h.srv] at hid
    exact hf id hid
  · simp only [absOf, hv, keyOf, h.srv]

/-- a live connection's client end is not about to be closed -/
theorem live_not_closing {s : State} (hr : Reach s) {cn : ConnId} (hl : Live s cn) {th : Th} {rest : List MOp}
    (hp : s.prog th = .closeConn cn true :: rest) : False := by
  have hc := ((ownInv_reach hr).close th cn true (by rw [hp]; exact List.mem_cons_self)).2
  cases th with
  | user c t =>
    have := (tdInv_reach hr).user c t _ (by rw [hp]; exact List.mem_cons_self)
    simp [MOp.isTd] at this
  | sock c =>
    have hpop := (openInv_reach hr).popped c (.name 0) cn true rest (Or.inr hp)
    simp only [Th.ctx] at hc
    apply hpop
    simp only [srcName, if_true]
    have := hl.regA
    simp only [cliOf, srvOf, Conn.half, if_true, Bool.false_eq_true, if_false] at this hc
    rw [← hc]; exact this


theorem pushes_sigRemoved {op : MOp} {k : Key} (hp : Pushes op (.sigRemoved k)) : False := by
  cases op with
  | snapLocal => obtain ⟨_, _, e⟩ := hp; cases e
  | deliver => obtain ⟨_, e⟩ := hp; cases e
  | snapRemote => obtain ⟨_, e⟩ := hp; cases e
  | pubSend => rcases hp with ⟨_, e⟩ | ⟨_, e⟩ <;> cases e
  | sendChk d m =>
    rcases hp with e | hp
    · cases e
    · cases m <;> simp [onSendFail] at hp
  | chkObj2 => simp only [Pushes] at hp; cases hp
  | subRemote => rcases hp with ⟨_, e⟩ | ⟨_, e⟩ <;> cases e
  | unsubRemote => obtain ⟨_, e⟩ := hp; cases e
  | handleReply => obtain ⟨_, _, _, _, e⟩ := hp; cases e
  | objRemoved => obtain ⟨_, e⟩ := hp; cases e
  | notify => rcases hp with ⟨_, _, e⟩ | ⟨_, e⟩ <;> cases e
  | reqChk1 => rcases hp with e | e | e <;> cases e
  | reqChk2 => rcases hp with e | e | e <;> cases e
  | closeConn => obtain ⟨_, e⟩ := hp; cases e
  | _ => simp only [Pushes] at hp

theorem sigRemoved_whole {s : State} (hd : DspInv s) {th : Th} {k : Key} (h : MOp.sigRemoved k ∈ s.prog th) :
    s.prog th = [.sigRemoved k] := by
  cases th with
  | user c t => have := hd.user c t _ h; simp [MOp.isDsp] at this
  | sock c =>
    rcases hd.sock c with hfree | hform
    · have := hfree _ h; simp [MOp.isDsp] at this
    · generalize hl : s.prog (.sock c) = l at hform h
      cases hform <;> simp at h
      subst h; rfl

/-- a step of a thread that is not handling a removal notice or a reply: no such handler before or after -/
theorem dsp_obs_absent {s s' : State} {th : Th} {ch ch2 : Nat} {op : MOp} {rest : List MOp} {o : Out}
    (hd : DspInv s) (hprog : s.prog th = op :: rest) (hs : microStep s th ch ch2 op rest = some (s', o))
    (h1 : ∀ k, op ≠ .sigRemoved k) (h2 : ∀ id, op ≠ .handleReply id true) :
    (∀ k, MOp.sigRemoved k ∉ s.prog th ∧ MOp.sigRemoved k ∉ s'.prog th) ∧
    (∀ id, MOp.handleReply id true ∉ s.prog th ∧ MOp.handleReply id true ∉ s'.prog th) := by
  have a1 : ∀ k, MOp.sigRemoved k ∉ s.prog th := by
    intro k hm
    have := sigRemoved_whole hd hm
    rw [hprog] at this; simp only [List.cons.injEq] at this
    exact h1 k this.1
  have a2 : ∀ id, MOp.handleReply id true ∉ s.prog th := by
    intro id hm
    have := (hrTrue_whole hd hm).1
    rw [hprog] at this; simp only [List.cons.injEq] at this
    exact h2 id this.1
  refine ⟨fun k => ⟨a1 k, ?_⟩, fun id => ⟨a2 id, ?_⟩⟩
  · intro hm
    rcases microStep_prog hs with ⟨pushed, hp, hpu⟩ | ⟨⟨e, t, hp⟩, -⟩ | ⟨hp, -⟩
    · rw [hp] at hm
      rcases List.mem_append.1 hm with h | h
      · exact pushes_sigRemoved (hpu _ h)
      · exact a1 k (by rw [hprog]; exact List.mem_cons_of_mem _ h)
    · rw [hp] at hm; simp at hm
    · rw [hp] at hm; simp at hm
  · intro hm
    rcases microStep_prog hs with ⟨pushed, hp, hpu⟩ | ⟨⟨e, t, hp⟩, -⟩ | ⟨hp, -⟩
    · rw [hp] at hm
      rcases List.mem_append.1 hm with h | h
      · exact pushes_hrTrue (hpu _ h)
      · exact a2 id (by rw [hprog]; exact List.mem_cons_of_mem _ h)
    · rw [hp] at hm; simp at hm
    · rw [hp] at hm; simp at hm

/-- a step that is not part of a connection cleanup: no cleanup operation before or after -/
theorem td_obs_absent {s s' : State} {th : Th} {ch ch2 : Nat} {op : MOp} {rest : List MOp} {o : Out}
    (htd : TdInv s) (hprog : s.prog th = op :: rest) (hs : microStep s th ch ch2 op rest = some (s', o))
    (h : op.isTd = false) : ∀ op', op'.isTd = true → op' ∉ s.prog th ∧ op' ∉ s'.prog th := by
  have hfree : tdFree (op :: rest) := by
    cases th with
    | user c t => exact hprog ▸ htd.user c t
    | sock c =>
      have hsh := htd.sock c
      rw [hprog] at hsh
      generalize hl : op :: rest = l at hsh
      cases hsh with
      | free hfree => exact hfree
      | pop n cn cli r hr => simp only [List.cons.injEq] at hl; obtain ⟨rfl, -⟩ := hl; simp [MOp.isTd] at h
      | rem n cn cli r hr => simp only [List.cons.injEq] at hl; obtain ⟨rfl, -⟩ := hl; simp [MOp.isTd] at h
      | close cn cli r hr => simp only [List.cons.injEq] at hl; obtain ⟨rfl, -⟩ := hl; simp [MOp.isTd] at h
  intro op' ho
  refine ⟨fun hm => ?_, fun hm => ?_⟩
  · rw [hprog] at hm; have := hfree op' hm; rw [ho] at this; cases this
  · have := tdFree_micro hfree hs op' hm; rw [ho] at this; cases this

/-- a pending error reply stays pending under steps that neither handle a reply, nor try to send, nor close a connection -/
theorem hrFalse_keep {s s' : State} {th : Th} {ch ch2 : Nat} {op : MOp} {rest : List MOp} {o : Out}
    (hcp : carPrefix (op :: rest)) (hs : microStep s th ch ch2 op rest = some (s', o))
    (h1 : ∀ id ok, op ≠ .handleReply id ok) (h2 : ∀ d m, op ≠ .sendChk d m) (h3 : ∀ n b, op ≠ .closeConn n b) (id : ReqId) :
    MOp.handleReply id false ∈ s'.prog th ↔ MOp.handleReply id false ∈ op :: rest := by
  have hnp : ∀ op', Pushes op op' → op' ≠ .handleReply id false := by
    intro op' hp e; subst e
    cases op with
    | snapLocal => obtain ⟨_, _, e⟩ := hp; cases e
    | deliver => obtain ⟨_, e⟩ := hp; cases e
    | snapRemote => obtain ⟨_, e⟩ := hp; cases e
    | pubSend => rcases hp with ⟨_, e⟩ | ⟨_, e⟩ <;> cases e
    | sendChk d m => exact h2 d m rfl
    | chkObj2 => simp only [Pushes] at hp; cases hp
    | subRemote => rcases hp with ⟨_, e⟩ | ⟨_, e⟩ <;> cases e
    | unsubRemote => obtain ⟨_, e⟩ := hp; cases e
    | handleReply i ok => exact h1 i ok rfl
    | objRemoved => obtain ⟨_, e⟩ := hp; cases e
    | notify => rcases hp with ⟨_, _, e⟩ | ⟨_, e⟩ <;> cases e
    | reqChk1 => rcases hp with e | e | e <;> cases e
    | reqChk2 => rcases hp with e | e | e <;> cases e
    | closeConn n b => exact h3 n b rfl
    | _ => simp only [Pushes] at hp
  have hne : MOp.handleReply id false ≠ op := fun e => h1 id false e.symm
  rcases microStep_prog hs with ⟨pushed, hp, hpu⟩ | ⟨⟨e, t, hp⟩, hcar⟩ | ⟨hp, hcar⟩
  · rw [hp, List.mem_append, List.mem_cons]
    constructor
    · rintro (h | h)
      · exact absurd rfl (hnp _ (hpu _ h))
      · exact Or.inr h
    · rintro (h | h)
      · exact absurd h hne
      · exact Or.inr h
  · rw [hp]
    have hfree := carFree_rest_of_head hcp hcar
    constructor
    · intro h; simp at h
    · intro h
      rcases List.mem_cons.1 h with h | h
      · exact absurd h hne
      · have := hfree _ h; simp [MOp.isCar] at this
  · rw [hp]
    have hfree := carFree_rest_of_head hcp hcar
    constructor
    · intro h; simp at h
    · intro h
      rcases List.mem_cons.1 h with h | h
      · exact absurd h hne
      · have := hfree _ h; simp [MOp.isCar] at this


set_option maxHeartbeats 1000000 in
/-- a micro step of the subscribing context that touches neither the tables of the key, nor a connection, nor tries to send -/
theorem sim_a_quiet {s s' : State} {th : Th} {ch ch2 : Nat} {op : MOp} {rest : List MOp} {o : Out}
    (hr : Reach s) (hprog : s.prog th = op :: rest) (hs : microStep s th ch ch2 op rest = some (s', o))
    {cn : ConnId} {ob : Obj} {sg : Sg} {x : AS} (hth : th.ctx = cliOf s cn) (hne : cliOf s cn ≠ srvOf s cn)
    (hls : (s'.ctx (cliOf s cn)).lsubs (keyOf s cn ob sg) = (s.ctx (cliOf s cn)).lsubs (keyOf s cn ob sg))
    (hpd : op.isPd = false) (htd : op.isTd = false) (hsc : ∀ d m, op ≠ .sendChk d m)
    (h : Sim s cn ob sg x) : Sim s' cn ob sg x := by
  have af := aframe_micro hs hth hne
  have hf := microStep_frame hs
  have hconn : s'.conn = s.conn := (microStep_fields hs).conn (by cases op <;> simp_all [MOp.isTd, MOp.isClose])
  have h1 : ∀ id ok, op ≠ .handleReply id ok := by intro id ok e; subst e; simp [MOp.isPd] at hpd
  have h1' : ∀ k, op ≠ .sigRemoved k := by intro k e; subst e; simp [MOp.isPd] at hpd
  have h3 : ∀ n b, op ≠ .closeConn n b := by intro n b e; subst e; simp [MOp.isTd] at htd
  refine sim_stutter af.srv ?_ (fun th' hth' => by rw [af.progP th' hth']) ?_ h
  · rw [af.view ob sg (by rw [hconn])]
    have hpo : poOf (s'.ctx (cliOf s cn)) (keyOf s cn ob sg) = poOf (s.ctx (cliOf s cn)) (keyOf s cn ob sg) := by
      obtain ⟨e1, e2, -⟩ := microStep_pd hpd hs (cliOf s cn)
      simp only [poOf, e1, e2]
    by_cases e : Th.sock (cliOf s cn) = th
    · subst e
      obtain ⟨a1, a2⟩ := dsp_obs_absent (dspInv_reach hr) hprog hs h1' (fun id => h1 id true)
      have a3 := td_obs_absent (tdInv_reach hr) hprog hs htd
      refine ⟨Iff.rfl, by simp only [viewOf]; rw [hls], rfl, hpo, fun _ _ => rfl, rfl, ?_, ?_, ?_⟩
      · simp only [viewOf]; exact ⟨fun h => absurd h (a1 _).2, fun h => absurd h (a1 _).1⟩
      · simp only [viewOf]; exact ⟨fun h => absurd h.1 (a3 _ rfl).2, fun h => absurd h.1 (a3 _ rfl).1⟩
      · intro id _; simp only [viewOf]; exact ⟨fun h => absurd h (a2 _).2, fun h => absurd h (a2 _).1⟩
    · have hp := hf.prog_other _ e
      refine ⟨Iff.rfl, by simp only [viewOf]; rw [hls], rfl, hpo, fun _ _ => rfl, rfl, ?_, ?_, ?_⟩ <;>
        (try intro id _) <;> simp only [viewOf] <;> rw [hp]
  · intro id _
    refine failCar_congr af.cli ?_ (fun n => af.own n true) (fun n _ _ => by rw [hconn])
    intro th' _
    by_cases e : th' = th
    · subst e
      rw [hprog]
      exact hrFalse_keep (hprog ▸ carPrefix_reach hr th') hs h1 hsc h3 id
    · rw [hf.prog_other _ e]

end QmiModel.PubSub
