import QmiModel.Lemmas.C08Sim5
/-! C08, simulation layer — micro steps of the subscribing context that work on the pending-request tables:
`_subscribe_remote`, `_unsubscribe_remote`, `_handle_subscription_reply`, `_handle_remote_signal_removed`. -/
set_option linter.unusedSimpArgs false
namespace QmiModel.PubSub
open Proto

/-- a request that is not with the publisher: the handler does not work on it and no reply to it is in the channel -/
theorem client_side {s : State} {cn : ConnId} {id : ReqId} (h : id ∉ srvPipe s cn) (ob : Obj) (sg : Sg) :
    hdlTok (.alias cn) id (s.prog (.sock (srvOf s cn))) = none ∧ NoRep cn id (viewOf s cn ob sg) := by
  refine ⟨?_, ?_, ?_⟩
  · cases ht : hdlTok (.alias cn) id (s.prog (.sock (srvOf s cn))) with
    | none => rfl
    | some t => exact absurd (hdl_in_pipe ht) h
  · intro ok hm
    apply h
    simp only [srvPipe, List.mem_append, List.mem_filterMap]
    exact Or.inl (Or.inl (Or.inl ⟨_, hm, rfl⟩))
  · intro ok hm
    apply h
    simp only [srvPipe, List.mem_append, List.mem_filterMap]
    exact Or.inl (Or.inl (Or.inr ⟨_, hm, by simp [cbRepId, msgRepId]⟩))

/-- a request whose reply is about to be handled is not with the publisher any more -/
theorem not_in_pipe_of_prog {s : State} (hr : Reach s) {cn : ConnId} (ho : ((s.conn cn).half true).isOpen = true)
    {th : Th} (hth : th.ctx = cliOf s cn) {id : ReqId} {ok : Bool} (hm : MOp.handleReply id ok ∈ s.prog th) :
    id ∉ srvPipe s cn := by
  intro hp
  have h1 := srv_in_pend (srvInv_reach hr) ho hp
  refine (tokInv_reach hr).dj_prog_pend th cn id hth.symm ?_ h1
  simp only [progIds, List.mem_filterMap]; exact ⟨_, hm, rfl⟩

/-- a request id that has not been issued yet is nowhere -/
theorem not_in_pipe_fresh {s : State} (hr : Reach s) {cn : ConnId} (ho : ((s.conn cn).half true).isOpen = true)
    {id : ReqId} (hid : (s.ctx (cliOf s cn)).nextReq ≤ id) : id ∉ srvPipe s cn := by
  intro hp
  have h1 := (idInv_reach hr).pend cn true id (srv_in_pend (srvInv_reach hr) ho hp)
  exact absurd h1 (Nat.not_lt.2 hid)

/-- a request id that has not been issued yet is not lost either -/
theorem not_failed_fresh {s : State} (hr : Reach s) {cn : ConnId} {id : ReqId} (hid : (s.ctx (cliOf s cn)).nextReq ≤ id) :
    ¬ FailCar s cn id := by
  rintro (⟨th, hth, hm⟩ | ⟨n', -, hown, hm⟩)
  · have := (tokInv_reach hr).bound th id (by simp only [progIds, List.mem_filterMap]; exact ⟨_, hm, rfl⟩)
    rw [hth] at this
    exact absurd this (Nat.not_lt.2 hid)
  · have := (idInv_reach hr).pend n' true id hm
    rw [hown] at this
    exact absurd this (Nat.not_lt.2 hid)


/-- a step of the subscribing context that changes the tables of the key (and maybe the program of its socket thread in
a way the abstraction does not see) -/
theorem sim_a_retable {s s' : State} {cn : ConnId} {ob : Obj} {sg : Sg} (af : AFrame s s' cn)
    (hib : ((s'.conn cn).half true).inbox = ((s.conn cn).half true).inbox)
    {rm : Rm} {failed : Bool} (hrel : RmRel s cn ob sg rm) (failed' : Bool)
    (hf' : ∀ id, curOf (s'.ctx (cliOf s cn)) (keyOf s cn ob sg) = some id → (failed' = true ↔ FailCar s' cn id))
    (hsr : MOp.sigRemoved (keyOf s cn ob sg) ∈ s'.prog (.sock (cliOf s cn)) ↔ MOp.sigRemoved (keyOf s cn ob sg) ∈ s.prog (.sock (cliOf s cn)))
    (hpr : MOp.peerRemoved (.name (srvOf s cn)) ∈ s'.prog (.sock (cliOf s cn)) ↔ MOp.peerRemoved (.name (srvOf s cn)) ∈ s.prog (.sock (cliOf s cn)))
    (hpp : MOp.popPeer (.name (srvOf s cn)) ∈ s'.prog (.sock (cliOf s cn)) ↔ MOp.popPeer (.name (srvOf s cn)) ∈ s.prog (.sock (cliOf s cn)))
    (hhr : ∀ id, curOf (s'.ctx (cliOf s cn)) (keyOf s cn ob sg) = some id →
      (MOp.handleReply id true ∈ s'.prog (.sock (cliOf s cn)) ↔ MOp.handleReply id true ∈ s.prog (.sock (cliOf s cn))))
    (hD : dV cn ob sg (curOf (s'.ctx (cliOf s cn)) (keyOf s cn ob sg)) (viewOf s cn ob sg) =
      dV cn ob sg (curOf (s.ctx (cliOf s cn)) (keyOf s cn ob sg)) (viewOf s cn ob sg))
    {t' : T} (ht : (match curOf (s'.ctx (cliOf s cn)) (keyOf s cn ob sg) with
      | none => T.none
      | some id => if failed' then T.hr false else tokV cn ob sg (viewOf s cn ob sg) id) = t') :
    Sim s' cn ob sg { absOf s cn ob sg rm failed with A := decide ((s'.ctx (cliOf s cn)).lsubs (keyOf s cn ob sg) ≠ []), pend := pendOf (s'.ctx (cliOf s cn)) (keyOf s cn ob sg), tok := t' } := by
  have hsim := af.sim' (ob := ob) (sg := sg) (failed' := failed') hrel hf' (af.view ob sg hib)
  refine cast (congrArg (Sim s' cn ob sg) ?_) hsim
  have e1 := absV_psa_congr (cn := cn) (k := keyOf s cn ob sg) (rm := rm) (f := failed')
    (v := { viewOf s cn ob sg with ls := (s'.ctx (cliOf s cn)).lsubs (keyOf s cn ob sg), po := poOf (s'.ctx (cliOf s cn)) (keyOf s cn ob sg) })
    (psa' := s'.prog (.sock (cliOf s cn))) hsr hpr hpp hhr
  rw [e1]
  exact absV_retable (f := failed) hD ht

/-- what the socket program of the subscribing context shows, and which requests are lost, does not change under a step
that is neither a reply / notice handler, nor a cleanup, nor a send attempt -/
theorem a_obs_keep {s s' : State} {th : Th} {ch ch2 : Nat} {op : MOp} {rest : List MOp} {o : Out}
    (hr : Reach s) (hprog : s.prog th = op :: rest) (hs : microStep s th ch ch2 op rest = some (s', o))
    {cn : ConnId} (hth : th.ctx = cliOf s cn) (hne : cliOf s cn ≠ srvOf s cn)
    (h1 : ∀ id ok, op ≠ .handleReply id ok) (h1' : ∀ k, op ≠ .sigRemoved k) (htd : op.isTd = false)
    (hsc : ∀ d m, op ≠ .sendChk d m) :
    (∀ k, MOp.sigRemoved k ∈ s'.prog (.sock (cliOf s cn)) ↔ MOp.sigRemoved k ∈ s.prog (.sock (cliOf s cn))) ∧
    (∀ n, MOp.peerRemoved n ∈ s'.prog (.sock (cliOf s cn)) ↔ MOp.peerRemoved n ∈ s.prog (.sock (cliOf s cn))) ∧
    (∀ n, MOp.popPeer n ∈ s'.prog (.sock (cliOf s cn)) ↔ MOp.popPeer n ∈ s.prog (.sock (cliOf s cn))) ∧
    (∀ id, MOp.handleReply id true ∈ s'.prog (.sock (cliOf s cn)) ↔ MOp.handleReply id true ∈ s.prog (.sock (cliOf s cn))) ∧
    (∀ id, FailCar s' cn id ↔ FailCar s cn id) ∧ s'.conn = s.conn := by
  have af := aframe_micro hs hth hne
  have hf := microStep_frame hs
  have hconn : s'.conn = s.conn := (microStep_fields hs).conn (by cases op <;> simp_all [MOp.isTd, MOp.isClose])
  have h3 : ∀ n b, op ≠ .closeConn n b := by intro n b e; subst e; simp [MOp.isTd] at htd
  have hfail : ∀ id, FailCar s' cn id ↔ FailCar s cn id := by
    intro id
    refine failCar_congr af.cli ?_ (fun n => af.own n true) (fun n _ _ => by rw [hconn])
    intro th' _
    by_cases e : th' = th
    · subst e; rw [hprog]
      exact hrFalse_keep (hprog ▸ carPrefix_reach hr th') hs h1 hsc h3 id
    · rw [hf.prog_other _ e]
  by_cases e : Th.sock (cliOf s cn) = th
  · subst e
    obtain ⟨a1, a2⟩ := dsp_obs_absent (dspInv_reach hr) hprog hs h1' (fun id => h1 id true)
    have a3 := td_obs_absent (tdInv_reach hr) hprog hs htd
    exact ⟨fun k => ⟨fun h => absurd h (a1 _).2, fun h => absurd h (a1 _).1⟩,
      fun n => ⟨fun h => absurd h (a3 _ rfl).2, fun h => absurd h (a3 _ rfl).1⟩,
      fun n => ⟨fun h => absurd h (a3 _ rfl).2, fun h => absurd h (a3 _ rfl).1⟩,
      fun id => ⟨fun h => absurd h (a2 _).2, fun h => absurd h (a2 _).1⟩, hfail, hconn⟩
  · have hp := hf.prog_other _ e
    exact ⟨fun k => by rw [hp], fun n => by rw [hp], fun n => by rw [hp], fun id => by rw [hp], hfail, hconn⟩

theorem pendP_cancel (po : Option PObj) :
    pendP (po.map (fun p => p.cancelIf p.sub)) = (pendP po).mark := by
  cases po with
  | none => rfl
  | some p =>
    cases hs : p.sub <;> simp [pendP, PObj.cancelIf, hs, P.mark]

set_option maxHeartbeats 1000000 in
/-- `_handle_remote_signal_removed` in the socket thread of the subscribing context -/
theorem sim_a_sigRemoved {s s' : State} {th : Th} {ch ch2 : Nat} {k' : Key} {rest : List MOp} {o : Out}
    (hr : Reach s) (hprog : s.prog th = .sigRemoved k' :: rest) (hs : microStep s th ch ch2 (.sigRemoved k') rest = some (s', o))
    {cn : ConnId} {ob : Obj} {sg : Sg} {x : AS} (hth : th.ctx = cliOf s cn) (hl : Live s cn)
    (h : Sim s cn ob sg x) : ∃ x', Sim s' cn ob sg x' ∧ (x' = x ∨ x' ∈ next x) := by
  have hlf := live_facts hr hl
  have af := aframe_micro hs hth hlf.ne
  have hf := microStep_frame hs
  have hpo := pendInv_reach hr (cliOf s cn)
  have hwhole := sigRemoved_whole (dspInv_reach hr) (th := th) (k := k') (by rw [hprog]; exact List.mem_cons_self)
  rw [hprog] at hwhole
  simp only [List.cons.injEq, true_and] at hwhole
  subst hwhole
  obtain ⟨c, rfl⟩ : ∃ c, th = .sock c := by
    cases th with
    | sock c => exact ⟨c, rfl⟩
    | user c t =>
      have := (dspInv_reach hr).user c t (.sigRemoved k') (by rw [hprog]; exact List.mem_cons_self)
      simp [MOp.isDsp] at this
  simp only [Th.ctx] at hth; subst hth
  have hctx : (Th.sock (cliOf s cn)).ctx = cliOf s cn := rfl
  simp only [microStep] at hs; rw [hctx] at hs
  simp only [Option.some.injEq, Prod.mk.injEq] at hs; obtain ⟨rfl, -⟩ := hs
  have hoth : ∀ th', th' ≠ Th.sock (cliOf s cn) → _ := hf.prog_other
  have hfail : ∀ id, FailCar ((s.setCtx (cliOf s cn) { (s.ctx (cliOf s cn)) with
        lsubs := upd (s.ctx (cliOf s cn)).lsubs k' [],
        pobj := fun pid => ((s.ctx (cliOf s cn)).pobj pid).map (fun po => po.cancelIf (decide ((s.ctx (cliOf s cn)).byKey k' = some pid) && po.sub)) }).setProg
        (.sock (cliOf s cn)) []) cn id ↔ FailCar s cn id := by
    intro id
    refine failCar_congr af.cli ?_ (fun n => af.own n true) (fun n _ _ => Iff.rfl)
    intro th' _
    by_cases e : th' = .sock (cliOf s cn)
    · subst e; rw [hprog]; simp
    · rw [hoth th' e]
  by_cases hk : k' = keyOf s cn ob sg
  · subst hk
    obtain ⟨rm, failed, hrel, hfs, rfl⟩ := h
    have hpoe : poOf { (s.ctx (cliOf s cn)) with
        lsubs := upd (s.ctx (cliOf s cn)).lsubs (keyOf s cn ob sg) [],
        pobj := fun pid => ((s.ctx (cliOf s cn)).pobj pid).map (fun po => po.cancelIf (decide ((s.ctx (cliOf s cn)).byKey (keyOf s cn ob sg) = some pid) && po.sub)) }
        (keyOf s cn ob sg) = (poOf (s.ctx (cliOf s cn)) (keyOf s cn ob sg)).map (fun p => p.cancelIf p.sub) := by
      simp only [poOf]
      cases hb : (s.ctx (cliOf s cn)).byKey (keyOf s cn ob sg) with
      | none => rfl
      | some pid => simp
    have hcur : ∀ id, curOf { (s.ctx (cliOf s cn)) with
        lsubs := upd (s.ctx (cliOf s cn)).lsubs (keyOf s cn ob sg) [],
        pobj := fun pid => ((s.ctx (cliOf s cn)).pobj pid).map (fun po => po.cancelIf (decide ((s.ctx (cliOf s cn)).byKey (keyOf s cn ob sg) = some pid) && po.sub)) }
        (keyOf s cn ob sg) = some id → curOf (s.ctx (cliOf s cn)) (keyOf s cn ob sg) = some id := by
      intro id hid
      simp only [curOf, hpoe, Option.map_map] at hid
      simp only [curOf]
      rw [← hid]; congr 1; funext p; simp
    have hsim := af.sim' (ob := ob) (sg := sg) (failed' := failed) hrel
      (by intro id hid
          simp only [setProg_ctx, setCtx_ctx, if_true] at hid
          rw [hfs id (hcur id hid), hfail])
      (v' := { viewOf s cn ob sg with ls := [], po := (viewOf s cn ob sg).po.map (fun p => p.cancelIf p.sub), psa := [] })
      (by rw [af.view ob sg rfl]
          simp only [setProg_ctx, setCtx_ctx, if_true, setProg_prog, hpoe]
          simp [viewOf, upd])
    refine ⟨_, hsim, Or.inr ?_⟩
    have hsr : (absOf s cn ob sg rm failed).sr = true := by
      simp only [absOf, absV, viewOf, hprog, decide_eq_true_eq]; simp
    have := next_sr hsr
    refine cast (congrArg (· ∈ next _) ?_) this
    have hcm : ((viewOf s cn ob sg).po.map (fun p => p.cancelIf p.sub)).map (·.cur) = (viewOf s cn ob sg).po.map (·.cur) := by
      rw [Option.map_map]; congr 1; funext p; simp
    refine AS.ext' rfl ?_ rfl rfl ?_ ?_ ?_ ?_ ?_
    · simp [absV]
    · simp only [absOf, absV]; exact (pendP_cancel _).symm
    · simp only [absOf, absV, hcm]
      cases hc : (viewOf s cn ob sg).po.map (·.cur) with
      | none => rfl
      | some id =>
        simp only
        cases failed
        · simp only [Bool.false_eq_true, if_false, tokV, dV]
          have : MOp.handleReply id true ∉ (viewOf s cn ob sg).psa := by simp only [viewOf]; rw [hprog]; simp
          simp [this]
        · rfl
    · simp only [absOf, absV, hcm, dV]
    · simp [absV]
    · simp only [absOf, absV, viewOf, hprog]; simp
  · refine ⟨_, sim_a_stutter af ?_ ?_ rfl ?_ ?_ ?_ ?_ (fun id _ => hfail id) h, Or.inl rfl⟩
    · simp only [setProg_ctx, setCtx_ctx, if_true, upd, if_neg (Ne.symm hk)]
    · simp only [setProg_ctx, setCtx_ctx, if_true, poOf]
      cases hb : (s.ctx (cliOf s cn)).byKey (keyOf s cn ob sg) with
      | none => rfl
      | some pid =>
        simp only [Option.bind_some]
        cases hp : (s.ctx (cliOf s cn)).pobj pid with
        | none => rfl
        | some po =>
          have hne : (s.ctx (cliOf s cn)).byKey k' ≠ some pid := by
            intro e
            have h1 := (hpo.byKey_obj _ pid po e hp).1
            have h2 := (hpo.byKey_obj _ pid po hb hp).1
            exact hk (h1.symm.trans h2)
          simp [hne, PObj.cancelIf]
    · rw [hprog]; simp [Ne.symm hk]
    · rw [hprog]; simp
    · rw [hprog]; simp
    · intro id _; rw [hprog]; simp


theorem poOf_upd_other {cs : CtxSt} (hp : PendOk cs) {k k' : Key} (hk : k' ≠ k) {pid : ReqId} {po po' : PObj}
    (hb : cs.byKey k' = some pid) (hpo : cs.pobj pid = some po) :
    poOf { cs with pobj := upd cs.pobj pid (some po') } k = poOf cs k := by
  simp only [poOf]
  cases hbk : cs.byKey k with
  | none => rfl
  | some pid0 =>
    simp only [Option.bind_some, upd]
    split
    · rename_i e; subst e
      cases hp0 : cs.pobj pid0 with
      | none => rw [hp0] at hpo; cases hpo
      | some po0 =>
        have h1 := (hp.byKey_obj _ pid0 po0 hb hp0).1
        have h2 := (hp.byKey_obj _ pid0 po0 hbk hp0).1
        exact absurd (h1.symm.trans h2) hk
    · rfl

theorem poOf_new_other {cs : CtxSt} (hp : PendOk cs) {k k' : Key} (hk : k' ≠ k) {po' : PObj} {l : Key → List Rcv} :
    poOf { cs with lsubs := l, pobj := upd cs.pobj cs.nextReq (some po'), byId := upd cs.byId cs.nextReq (some cs.nextReq),
                   byKey := upd cs.byKey k' (some cs.nextReq), nextReq := cs.nextReq + 1 } k = poOf cs k := by
  simp only [poOf, upd, if_neg (Ne.symm hk)]
  cases hbk : cs.byKey k with
  | none => rfl
  | some pid0 =>
    simp only [Option.bind_some]
    unfold upd
    split
    · rename_i e; subst e
      have := (hp.fresh cs.nextReq (Nat.le_refl _)).2
      have h2 := hp.byKey_some _ _ hbk
      exact absurd this h2
    · rfl

set_option maxHeartbeats 2000000 in
/-- `_subscribe_remote` in a thread of the subscribing context -/
theorem sim_a_subRemote {s s' : State} {th : Th} {ch ch2 : Nat} {k' : Key} {r : Rcv} {rest : List MOp} {o : Out}
    (hr : Reach s) (hprog : s.prog th = .subRemote k' r :: rest) (hs : microStep s th ch ch2 (.subRemote k' r) rest = some (s', o))
    {cn : ConnId} {ob : Obj} {sg : Sg} {x : AS} (hth : th.ctx = cliOf s cn) (hl : Live s cn)
    (h : Sim s cn ob sg x) : ∃ x', Sim s' cn ob sg x' ∧ (x' = x ∨ x' ∈ next x) := by
  have hlf := live_facts hr hl
  have af := aframe_micro hs hth hlf.ne
  have hpo := pendInv_reach hr (cliOf s cn)
  obtain ⟨hsr, hpr, hpp, hhr, hfail, hconn⟩ := a_obs_keep hr hprog hs hth hlf.ne (by intros; simp) (by intros; simp) rfl (by intros; simp)
  simp only [microStep] at hs
  rw [hth] at hs
  by_cases hk : k' = keyOf s cn ob sg
  · subst hk
    obtain ⟨rm, failed, hrel, hfs, rfl⟩ := h
    split at hs
    · -- the key has subscribers already
      rename_i hne
      simp only [Option.some.injEq, Prod.mk.injEq] at hs; obtain ⟨rfl, -⟩ := hs
      refine ⟨_, sim_a_stutter af ?_ ?_ (by rw [hconn]) (hsr _) (hpr _) (hpp _) (fun id _ => hhr id) (fun id _ => hfail id)
        ⟨rm, failed, hrel, hfs, rfl⟩, Or.inl rfl⟩
      · simp only [setProg_ctx, setCtx_ctx, hth, if_true, upd]
        exact ⟨fun e => absurd e (ins_ne_nil _ _), fun e => absurd e hne⟩
      · simp only [setProg_ctx, setCtx_ctx, hth, if_true, poOf]
    · rename_i hempty
      have hA : (absOf s cn ob sg rm failed).A = false := by
        simp only [absOf, absV, viewOf]; simp only [ne_eq, Decidable.not_not] at hempty; simp [hempty]
      split at hs
      · -- a request for the key is pending: join it
        rename_i pid hbk
        split at hs
        · simp at hs
        · rename_i po hpobj
          simp only [Option.some.injEq, Prod.mk.injEq] at hs; obtain ⟨rfl, -⟩ := hs
          have hpoOf : poOf (s.ctx (cliOf s cn)) (keyOf s cn ob sg) = some po := by simp only [poOf, hbk, Option.bind_some, hpobj]
          have hcur' : curOf (((s.setCtx (cliOf s cn) { (s.ctx (cliOf s cn)) with
              pobj := upd (s.ctx (cliOf s cn)).pobj pid (some { po with rcvs := ins po.rcvs r }) }).setProg th
              (.wait pid :: rest)).ctx (cliOf s cn)) (keyOf s cn ob sg) = curOf (s.ctx (cliOf s cn)) (keyOf s cn ob sg) := by
            simp only [setProg_ctx, setCtx_ctx, if_true, curOf, poOf, hbk, Option.bind_some, upd, hpobj, Option.map_some]
          have hsim := sim_a_retable (failed := failed) af (by rw [hconn]) hrel failed
            (by intro id hid; rw [hcur'] at hid; rw [hfs id hid, hfail])
            (hsr _) (hpr _) (hpp _) (fun id _ => hhr id) (by rw [hcur']) (t' := (absOf s cn ob sg rm failed).tok)
            (by rw [hcur']; rfl)
          refine ⟨_, hsim, ?_⟩
          have hAe : decide ((((s.setCtx (cliOf s cn) { (s.ctx (cliOf s cn)) with
              pobj := upd (s.ctx (cliOf s cn)).pobj pid (some { po with rcvs := ins po.rcvs r }) }).setProg th
              (.wait pid :: rest)).ctx (cliOf s cn)).lsubs (keyOf s cn ob sg) ≠ []) = (absOf s cn ob sg rm failed).A := by
            simp only [setProg_ctx, setCtx_ctx, if_true]; rfl
          have hpe : pendOf (((s.setCtx (cliOf s cn) { (s.ctx (cliOf s cn)) with
              pobj := upd (s.ctx (cliOf s cn)).pobj pid (some { po with rcvs := ins po.rcvs r }) }).setProg th
              (.wait pid :: rest)).ctx (cliOf s cn)) (keyOf s cn ob sg) =
              (if po.sub then P.sub po.cancelled else P.unsub true) := by
            simp only [setProg_ctx, setCtx_ctx, if_true, pendOf, poOf, hbk, Option.bind_some, upd, pendP]
            split
            · rfl
            · simp [ins_ne_nil]
          rw [hAe, hpe]
          have hxp : (absOf s cn ob sg rm failed).pend = (if po.sub then P.sub po.cancelled else P.unsub (decide (po.rcvs ≠ []))) := by
            simp only [absOf, absV, viewOf, hpoOf, pendP]
          cases hsub : po.sub with
          | true =>
            left
            refine AS.ext' rfl rfl rfl rfl ?_ rfl rfl rfl rfl
            simp only [hsub, if_true] at hxp ⊢; exact hxp.symm
          | false =>
            right
            simp only [hsub, Bool.false_eq_true, if_false] at hxp ⊢
            have := next_subJoin hA hxp
            refine cast (congrArg (· ∈ next _) ?_) this
            exact AS.ext' rfl rfl rfl rfl rfl rfl rfl rfl rfl
      · -- a new request
        rename_i hbk
        simp only [Option.some.injEq, Prod.mk.injEq] at hs; obtain ⟨rfl, -⟩ := hs
        have hpoOf : poOf (s.ctx (cliOf s cn)) (keyOf s cn ob sg) = none := by simp only [poOf, hbk, Option.bind_none]
        have hcurS : curOf (s.ctx (cliOf s cn)) (keyOf s cn ob sg) = none := by simp only [curOf, hpoOf, Option.map_none]
        have hfresh : (s.ctx (cliOf s cn)).nextReq ≤ (s.ctx (cliOf s cn)).nextReq := Nat.le_refl _
        have hnp := not_in_pipe_fresh hr hlf.openA hfresh
        obtain ⟨hh, hnr⟩ := client_side hnp ob sg
        have hcur' : curOf (((s.setCtx (cliOf s cn) { (s.ctx (cliOf s cn)) with
            pobj := upd (s.ctx (cliOf s cn)).pobj (s.ctx (cliOf s cn)).nextReq
              (some ⟨keyOf s cn ob sg, true, [r], none, false, (s.ctx (cliOf s cn)).nextReq⟩),
            byId := upd (s.ctx (cliOf s cn)).byId (s.ctx (cliOf s cn)).nextReq (some (s.ctx (cliOf s cn)).nextReq),
            byKey := upd (s.ctx (cliOf s cn)).byKey (keyOf s cn ob sg) (some (s.ctx (cliOf s cn)).nextReq),
            nextReq := (s.ctx (cliOf s cn)).nextReq + 1 }).setProg th
            (.sendChk (keyOf s cn ob sg).pc (.subReq (s.ctx (cliOf s cn)).nextReq (keyOf s cn ob sg).ob (keyOf s cn ob sg).sg true) ::
              .wait (s.ctx (cliOf s cn)).nextReq :: rest)).ctx (cliOf s cn)) (keyOf s cn ob sg) =
            some (s.ctx (cliOf s cn)).nextReq := by
          simp [curOf, poOf, upd]
        have hnoHr : MOp.handleReply (s.ctx (cliOf s cn)).nextReq true ∉ s.prog (.sock (cliOf s cn)) := by
          intro hm
          obtain ⟨pid, po, h1, -, -⟩ := hrInv_reach hr _ _ hm
          simp only [Th.ctx] at h1
          rw [(hpo.fresh _ hfresh).1] at h1; cases h1
        have hsim := sim_a_retable (failed := failed) af (by rw [hconn]) hrel false
          (by intro id hid
              rw [hcur'] at hid; cases hid
              simp only [Bool.false_eq_true, false_iff]
              rw [hfail]; exact not_failed_fresh hr hfresh)
          (hsr _) (hpr _) (hpp _) (fun id _ => hhr id)
          (by rw [hcur', hcurS]; exact dV_noRep hnr) (t' := .req)
          (by rw [hcur']
              simp only [Bool.false_eq_true, if_false]
              rw [tokV_client (by exact hh) hnr, if_neg (by exact hnoHr)])
        refine ⟨_, hsim, Or.inr ?_⟩
        have hxp : (absOf s cn ob sg rm failed).pend = .none := by simp only [absOf, absV, viewOf, hpoOf, pendP]
        have := next_subNew hA hxp
        refine cast (congrArg (· ∈ next _) ?_) this
        refine AS.ext' rfl ?_ rfl rfl ?_ rfl rfl rfl rfl
        · simp only [setProg_ctx, setCtx_ctx, if_true]
          exact hA.trans (by simp [hempty])
        · simp [pendOf, poOf, upd, pendP]
  · -- another key
    have hstut : ((s'.ctx (cliOf s cn)).lsubs (keyOf s cn ob sg) = [] ↔ (s.ctx (cliOf s cn)).lsubs (keyOf s cn ob sg) = []) →
        poOf (s'.ctx (cliOf s cn)) (keyOf s cn ob sg) = poOf (s.ctx (cliOf s cn)) (keyOf s cn ob sg) →
        ∃ x', Sim s' cn ob sg x' ∧ (x' = x ∨ x' ∈ next x) := fun h1 h2 =>
      ⟨_, sim_a_stutter af h1 h2 (by rw [hconn]) (hsr _) (hpr _) (hpp _) (fun id _ => hhr id) (fun id _ => hfail id) h, Or.inl rfl⟩
    split at hs
    · simp only [Option.some.injEq, Prod.mk.injEq] at hs; obtain ⟨rfl, -⟩ := hs
      exact hstut (by simp [upd, Ne.symm hk]) (by simp [poOf])
    · split at hs
      · rename_i pid hbk
        split at hs
        · simp at hs
        · rename_i po hpobj
          simp only [Option.some.injEq, Prod.mk.injEq] at hs; obtain ⟨rfl, -⟩ := hs
          refine hstut (by simp) ?_
          simp only [setProg_ctx, setCtx_ctx, if_true]
          exact poOf_upd_other hpo hk hbk hpobj
      · simp only [Option.some.injEq, Prod.mk.injEq] at hs; obtain ⟨rfl, -⟩ := hs
        refine hstut (by simp) ?_
        simp only [setProg_ctx, setCtx_ctx, if_true]
        exact poOf_new_other hpo hk (l := (s.ctx (cliOf s cn)).lsubs)


set_option maxHeartbeats 2000000 in
/-- `_unsubscribe_remote` in a thread of the subscribing context -/
theorem sim_a_unsubRemote {s s' : State} {th : Th} {ch ch2 : Nat} {k' : Key} {r : Rcv} {rest : List MOp} {o : Out}
    (hr : Reach s) (hprog : s.prog th = .unsubRemote k' r :: rest) (hs : microStep s th ch ch2 (.unsubRemote k' r) rest = some (s', o))
    {cn : ConnId} {ob : Obj} {sg : Sg} {x : AS} (hth : th.ctx = cliOf s cn) (hl : Live s cn)
    (h : Sim s cn ob sg x) : ∃ x', Sim s' cn ob sg x' ∧ (x' = x ∨ x' ∈ next x) := by
  have hlf := live_facts hr hl
  have af := aframe_micro hs hth hlf.ne
  have hpo := pendInv_reach hr (cliOf s cn)
  obtain ⟨hsr, hpr, hpp, hhr, hfail, hconn⟩ := a_obs_keep hr hprog hs hth hlf.ne (by intros; simp) (by intros; simp) rfl (by intros; simp)
  simp only [microStep] at hs
  rw [hth] at hs
  have hstut : ((s'.ctx (cliOf s cn)).lsubs (keyOf s cn ob sg) = [] ↔ (s.ctx (cliOf s cn)).lsubs (keyOf s cn ob sg) = []) →
      poOf (s'.ctx (cliOf s cn)) (keyOf s cn ob sg) = poOf (s.ctx (cliOf s cn)) (keyOf s cn ob sg) →
      ∃ x', Sim s' cn ob sg x' ∧ (x' = x ∨ x' ∈ next x) := fun h1 h2 =>
    ⟨_, sim_a_stutter af h1 h2 (by rw [hconn]) (hsr _) (hpr _) (hpp _) (fun id _ => hhr id) (fun id _ => hfail id) h, Or.inl rfl⟩
  by_cases hk : k' = keyOf s cn ob sg
  · subst hk
    split at hs
    · simp only [Option.some.injEq, Prod.mk.injEq] at hs; obtain ⟨rfl, -⟩ := hs
      exact hstut (by simp [hth]) (by simp [hth])
    · rename_i hne
      split at hs
      · rename_i hrem
        simp only [Option.some.injEq, Prod.mk.injEq] at hs; obtain ⟨rfl, -⟩ := hs
        refine hstut ?_ (by simp [poOf])
        simp only [setProg_ctx, setCtx_ctx, if_true, upd]
        exact ⟨fun e => absurd e hrem, fun e => absurd e hne⟩
      · rename_i hlast
        simp only [ne_eq, Decidable.not_not] at hlast
        obtain ⟨rm, failed, hrel, hfs, rfl⟩ := h
        have hA : (absOf s cn ob sg rm failed).A = true := by
          simp only [absOf, absV, viewOf]; simp [hne]
        split at hs
        · -- a request for the key is pending
          rename_i pid hbk
          simp only [Option.some.injEq, Prod.mk.injEq] at hs; obtain ⟨rfl, -⟩ := hs
          obtain ⟨po, hpobj⟩ : ∃ po, (s.ctx (cliOf s cn)).pobj pid = some po := by
            cases hp : (s.ctx (cliOf s cn)).pobj pid with
            | none => exact absurd hp (hpo.byKey_some _ _ hbk)
            | some po => exact ⟨po, rfl⟩
          have hpoOf : poOf (s.ctx (cliOf s cn)) (keyOf s cn ob sg) = some po := by simp only [poOf, hbk, Option.bind_some, hpobj]
          have hcur' : curOf (((s.setCtx (cliOf s cn) { (s.ctx (cliOf s cn)) with
              lsubs := upd (s.ctx (cliOf s cn)).lsubs (keyOf s cn ob sg) (((s.ctx (cliOf s cn)).lsubs (keyOf s cn ob sg)).erase r) }).setProg th
              rest).ctx (cliOf s cn)) (keyOf s cn ob sg) = curOf (s.ctx (cliOf s cn)) (keyOf s cn ob sg) := by
            simp only [setProg_ctx, setCtx_ctx, if_true, curOf, poOf]
          have hsim := sim_a_retable (failed := failed) af (by rw [hconn]) hrel failed
            (by intro id hid
                rw [hcur'] at hid
                rw [hfs id hid, hfail])
            (hsr _) (hpr _) (hpp _) (fun id _ => hhr id) (by rw [hcur']) (t' := (absOf s cn ob sg rm failed).tok)
            (by rw [hcur']; rfl)
          refine ⟨_, hsim, Or.inr ?_⟩
          have hxp : (absOf s cn ob sg rm failed).pend ≠ .none := by
            simp only [absOf, absV, viewOf, hpoOf, pendP]; split <;> simp
          have := next_unsubPending hA hxp
          refine cast (congrArg (· ∈ next _) ?_) this
          refine AS.ext' rfl ?_ rfl rfl ?_ rfl rfl rfl rfl
          · simp [upd, hlast]
          · simp only [setProg_ctx, setCtx_ctx, if_true, pendOf, poOf]; rfl
        · -- a new unsubscribe request
          rename_i hbk
          simp only [Option.some.injEq, Prod.mk.injEq] at hs; obtain ⟨rfl, -⟩ := hs
          have hpoOf : poOf (s.ctx (cliOf s cn)) (keyOf s cn ob sg) = none := by simp only [poOf, hbk, Option.bind_none]
          have hcurS : curOf (s.ctx (cliOf s cn)) (keyOf s cn ob sg) = none := by simp only [curOf, hpoOf, Option.map_none]
          have hfresh : (s.ctx (cliOf s cn)).nextReq ≤ (s.ctx (cliOf s cn)).nextReq := Nat.le_refl _
          have hnp := not_in_pipe_fresh hr hlf.openA hfresh
          obtain ⟨hh, hnr⟩ := client_side hnp ob sg
          have hcur' : curOf (((s.setCtx (cliOf s cn) { (s.ctx (cliOf s cn)) with
              lsubs := upd (s.ctx (cliOf s cn)).lsubs (keyOf s cn ob sg) (((s.ctx (cliOf s cn)).lsubs (keyOf s cn ob sg)).erase r),
              pobj := upd (s.ctx (cliOf s cn)).pobj (s.ctx (cliOf s cn)).nextReq
                (some ⟨keyOf s cn ob sg, false, [], none, false, (s.ctx (cliOf s cn)).nextReq⟩),
              byId := upd (s.ctx (cliOf s cn)).byId (s.ctx (cliOf s cn)).nextReq (some (s.ctx (cliOf s cn)).nextReq),
              byKey := upd (s.ctx (cliOf s cn)).byKey (keyOf s cn ob sg) (some (s.ctx (cliOf s cn)).nextReq),
              nextReq := (s.ctx (cliOf s cn)).nextReq + 1 }).setProg th
              (.sendChk (keyOf s cn ob sg).pc (.subReq (s.ctx (cliOf s cn)).nextReq (keyOf s cn ob sg).ob (keyOf s cn ob sg).sg false) ::
                rest)).ctx (cliOf s cn)) (keyOf s cn ob sg) =
              some (s.ctx (cliOf s cn)).nextReq := by
            simp [curOf, poOf, upd]
          have hnoHr : MOp.handleReply (s.ctx (cliOf s cn)).nextReq true ∉ s.prog (.sock (cliOf s cn)) := by
            intro hm
            obtain ⟨pid, po, h1, -, -⟩ := hrInv_reach hr _ _ hm
            simp only [Th.ctx] at h1
            rw [(hpo.fresh _ hfresh).1] at h1; cases h1
          have hsim := sim_a_retable (failed := failed) af (by rw [hconn]) hrel false
            (by intro id hid
                rw [hcur'] at hid; cases hid
                simp only [Bool.false_eq_true, false_iff]
                rw [hfail]; exact not_failed_fresh hr hfresh)
            (hsr _) (hpr _) (hpp _) (fun id _ => hhr id)
            (by rw [hcur', hcurS]; exact dV_noRep hnr) (t' := .req)
            (by rw [hcur']
                simp only [Bool.false_eq_true, if_false]
                rw [tokV_client (by exact hh) hnr, if_neg (by exact hnoHr)])
          refine ⟨_, hsim, Or.inr ?_⟩
          have hxp : (absOf s cn ob sg rm failed).pend = .none := by simp only [absOf, absV, viewOf, hpoOf, pendP]
          have := next_unsubNew hA hxp
          refine cast (congrArg (· ∈ next _) ?_) this
          refine AS.ext' rfl ?_ rfl rfl ?_ rfl rfl rfl rfl
          · simp [upd, hlast]
          · simp [pendOf, poOf, upd, pendP]
  · split at hs
    · simp only [Option.some.injEq, Prod.mk.injEq] at hs; obtain ⟨rfl, -⟩ := hs
      exact hstut (by simp [hth]) (by simp [hth])
    · split at hs
      · simp only [Option.some.injEq, Prod.mk.injEq] at hs; obtain ⟨rfl, -⟩ := hs
        exact hstut (by simp [upd, Ne.symm hk]) (by simp [poOf])
      · split at hs
        · simp only [Option.some.injEq, Prod.mk.injEq] at hs; obtain ⟨rfl, -⟩ := hs
          exact hstut (by simp [upd, Ne.symm hk]) (by simp [poOf])
        · simp only [Option.some.injEq, Prod.mk.injEq] at hs; obtain ⟨rfl, -⟩ := hs
          refine hstut (by simp [upd, Ne.symm hk]) ?_
          simp only [setProg_ctx, setCtx_ctx, if_true]
          exact poOf_new_other hpo hk


theorem uni_ne_nil {l m : List Nat} (hm : m ≠ []) : uni l m ≠ [] := by
  cases m with
  | nil => exact absurd rfl hm
  | cons a m =>
    intro e
    have : a ∈ uni l (a :: m) := mem_uni.2 (Or.inr List.mem_cons_self)
    rw [e] at this; simp at this

/-- handling the reply to a request of another key leaves the tables of this key alone -/
theorem hrs_other_key {cs cs' : CtxSt} {id : ReqId} {ok : Bool} {more : List MOp} {o : Out} (hp : PendOk cs)
    (h : handleReplyStep cs id ok = some (cs', more, o)) {k : Key} (hc : curOf cs k ≠ some id) :
    cs'.lsubs k = cs.lsubs k ∧ poOf cs' k = poOf cs k := by
  unfold handleReplyStep at h
  split at h
  · simp only [Option.some.injEq, Prod.mk.injEq] at h; obtain ⟨rfl, -, -⟩ := h; exact ⟨rfl, rfl⟩
  · rename_i pid hbid
    split at h
    · simp only [Option.some.injEq, Prod.mk.injEq] at h; obtain ⟨rfl, -, -⟩ := h; exact ⟨rfl, rfl⟩
    · rename_i po hpobj
      have hkey : po.key ≠ k := by
        intro e
        apply hc
        have hbk := hp.byId_key id pid po hbid hpobj
        rw [e] at hbk
        have hcur := hp.byKey_cur k pid po hbk hpobj
        simp only [curOf, poOf, hbk, Option.bind_some, hpobj, Option.map_some]
        exact congrArg some (hp.byId_inj _ _ pid hcur hbid)
      have hpid : ∀ pid0, cs.byKey k = some pid0 → pid0 ≠ pid := by
        intro pid0 hb e; subst e
        exact hkey (hp.byKey_obj k pid0 po hb hpobj).1
      split at h
      · simp only [Option.some.injEq, Prod.mk.injEq] at h; obtain ⟨rfl, -, -⟩ := h
        refine ⟨by simp only [upd, if_neg (Ne.symm hkey)], ?_⟩
        simp only [poOf, upd, if_neg (Ne.symm hkey)]
        cases hb : cs.byKey k with
        | none => rfl
        | some pid0 => simp only [Option.bind_some, upd, if_neg (hpid pid0 hb)]
      · split at h
        · simp only [Option.some.injEq, Prod.mk.injEq] at h; obtain ⟨rfl, -, -⟩ := h
          refine ⟨rfl, ?_⟩
          simp only [poOf, upd, if_neg (Ne.symm hkey)]
          cases hb : cs.byKey k with
          | none => rfl
          | some pid0 => simp only [Option.bind_some, upd, if_neg (hpid pid0 hb)]
        · simp only [Option.some.injEq, Prod.mk.injEq] at h; obtain ⟨rfl, -, -⟩ := h
          refine ⟨rfl, ?_⟩
          simp only [poOf, upd, if_neg (Ne.symm hkey)]

/-- what a reply handler leaves in front of the rest of its program is at most a send attempt -/
theorem obs_hr_step {cs cs' : CtxSt} {id : ReqId} {ok : Bool} {more : List MOp} {o : Out}
    (h : handleReplyStep cs id ok = some (cs', more, o)) {X : MOp} {rest : List MOp}
    (h1 : ∀ d m, X ≠ .sendChk d m) (h2 : X ≠ .handleReply id ok) :
    X ∈ more ++ rest ↔ X ∈ MOp.handleReply id ok :: rest := by
  simp only [List.mem_append, List.mem_cons]
  constructor
  · rintro (hm | hm)
    · obtain ⟨d, i, ob, sg, e⟩ := handleReplyStep_pushes h X hm
      exact absurd e (h1 _ _)
    · exact Or.inr hm
  · rintro (hm | hm)
    · exact absurd hm h2
    · exact Or.inr hm


/-- the outstanding request of a key, in terms of the tables -/
theorem cur_spec {cs : CtxSt} (hp : PendOk cs) {k : Key} {id : ReqId} (hc : curOf cs k = some id) :
    ∃ pid po, cs.byKey k = some pid ∧ cs.pobj pid = some po ∧ po.cur = id ∧ po.key = k ∧ cs.byId id = some pid := by
  simp only [curOf, poOf] at hc
  cases hk : cs.byKey k with
  | none => simp [hk] at hc
  | some pid =>
    cases hpo : cs.pobj pid with
    | none => simp [hk, hpo] at hc
    | some po =>
      simp only [hk, Option.bind_some, hpo, Option.map_some, Option.some.injEq] at hc
      exact ⟨pid, po, rfl, hpo, hc, (hp.byKey_obj k pid po hk hpo).1, hc ▸ hp.byKey_cur k pid po hk hpo⟩

/-- a request whose positive reply is about to be handled is not lost -/
theorem hr_true_not_failed {s : State} (hr : Reach s) {cn : ConnId} {id : ReqId}
    (hm : MOp.handleReply id true ∈ s.prog (.sock (cliOf s cn))) : ¬ FailCar s cn id := by
  have htok := tokInv_reach hr
  have hin : id ∈ progIds (s.prog (.sock (cliOf s cn))) := by
    simp only [progIds, List.mem_filterMap]; exact ⟨_, hm, rfl⟩
  rintro (⟨th', hth', hm'⟩ | ⟨n', -, hown, hm'⟩)
  · by_cases e : th' = .sock (cliOf s cn)
    · subst e
      have := (hrTrue_whole (dspInv_reach hr) hm).1
      rw [this] at hm'; simp at hm'
    · refine htok.dj_prog (.sock (cliOf s cn)) th' id (Ne.symm e) (by simp only [Th.ctx]; exact hth'.symm) hin ?_
      simp only [progIds, List.mem_filterMap]; exact ⟨_, hm', rfl⟩
  · exact htok.dj_prog_pend (.sock (cliOf s cn)) n' id hown hin hm'


set_option maxHeartbeats 4000000 in
/-- `_handle_subscription_reply` in a thread of the subscribing context -/
theorem sim_a_handleReply {s s' : State} {th : Th} {ch ch2 : Nat} {id : ReqId} {ok : Bool} {rest : List MOp} {o : Out}
    (hr : Reach s) (hprog : s.prog th = .handleReply id ok :: rest) (hs : microStep s th ch ch2 (.handleReply id ok) rest = some (s', o))
    {cn : ConnId} {ob : Obj} {sg : Sg} {x : AS} (hth : th.ctx = cliOf s cn) (hl : Live s cn)
    (h : Sim s cn ob sg x) : ∃ x', Sim s' cn ob sg x' ∧ (x' = x ∨ x' ∈ next x) := by
  have hlf := live_facts hr hl
  have af := aframe_micro hs hth hlf.ne
  have hpo := pendInv_reach hr (cliOf s cn)
  have hmem : MOp.handleReply id ok ∈ s.prog th := by rw [hprog]; exact List.mem_cons_self
  simp only [microStep] at hs
  rw [hth] at hs
  split at hs
  · simp at hs
  · rename_i cs' more o' heq
    simp only [Option.some.injEq, Prod.mk.injEq] at hs; obtain ⟨rfl, -⟩ := hs
    have hobs : ∀ X : MOp, (∀ d m, X ≠ .sendChk d m) → X ≠ .handleReply id ok →
        (X ∈ ((s.setCtx (cliOf s cn) cs').setProg th (more ++ rest)).prog (.sock (cliOf s cn)) ↔ X ∈ s.prog (.sock (cliOf s cn))) := by
      intro X h1 h2
      by_cases e : Th.sock (cliOf s cn) = th
      · subst e; rw [hprog]; simp only [setProg_prog, if_true]; exact obs_hr_step heq h1 h2
      · simp only [setProg_prog, if_neg e, setCtx_prog]
    have hfailO : ∀ id0, id0 ≠ id →
        (FailCar ((s.setCtx (cliOf s cn) cs').setProg th (more ++ rest)) cn id0 ↔ FailCar s cn id0) := by
      intro id0 hne
      refine failCar_congr af.cli ?_ (fun n => af.own n true) (fun n _ _ => Iff.rfl)
      intro th' _
      by_cases e : th' = th
      · subst e; rw [hprog]; simp only [setProg_prog, if_true]
        exact obs_hr_step heq (by intros; simp) (by simp [hne])
      · simp only [setProg_prog, if_neg e, setCtx_prog]
    by_cases hc : curOf (s.ctx (cliOf s cn)) (keyOf s cn ob sg) = some id
    · -- the reply to the outstanding request of the key
      obtain ⟨pid, po, hbk, hpobj, hpcur, hpkey, hbid⟩ := cur_spec hpo hc
      obtain ⟨rm, failed, hrel, hfs, rfl⟩ := h
      have hnp := not_in_pipe_of_prog hr hlf.openA hth hmem
      obtain ⟨hh, hnr⟩ := client_side hnp ob sg
      have hpoOf : poOf (s.ctx (cliOf s cn)) (keyOf s cn ob sg) = some po := by simp only [poOf, hbk, Option.bind_some, hpobj]
      have hcv : (viewOf s cn ob sg).po.map (·.cur) = some id := hc
      have hxtok : (absOf s cn ob sg rm failed).tok = .hr ok := by
        cases ok with
        | false =>
          have hfl : failed = true := (hfs id hc).2 (Or.inl ⟨th, hth, hmem⟩)
          subst hfl
          simp only [absOf, absV, hcv, if_true]
        | true =>
          obtain ⟨-, c, rfl⟩ := hrTrue_whole (dspInv_reach hr) hmem
          simp only [Th.ctx] at hth; subst hth
          have hfl : failed = false := by
            cases hfv : failed with
            | false => rfl
            | true => exact absurd ((hfs id hc).1 hfv) (hr_true_not_failed hr hmem)
          subst hfl
          simp only [absOf]; rw [absV_tok_some hcv, tokV_client (by exact hh) hnr, if_pos (by exact hmem)]
      have hxpend : (absOf s cn ob sg rm failed).pend = (if po.sub then P.sub po.cancelled else P.unsub (decide (po.rcvs ≠ []))) := by
        simp only [absOf, absV, viewOf, hpoOf, pendP]
      have hfresh : (s.ctx (cliOf s cn)).nextReq ≤ (s.ctx (cliOf s cn)).nextReq := Nat.le_refl _
      have hidlt : id ≠ (s.ctx (cliOf s cn)).nextReq := by
        intro e
        have := (hpo.fresh id (by rw [e]; exact Nat.le_refl _)).1
        rw [hbid] at this; cases this
      simp only [handleReplyStep, hbid, hpobj] at heq
      split at heq
      · -- a subscribe request completed
        rename_i hb1
        simp only [Option.some.injEq, Prod.mk.injEq] at heq; obtain ⟨rfl, rfl, -⟩ := heq
        have hcur' : curOf (((s.setCtx (cliOf s cn) { (s.ctx (cliOf s cn)) with
            byId := upd (s.ctx (cliOf s cn)).byId id none, byKey := upd (s.ctx (cliOf s cn)).byKey po.key none,
            lsubs := upd (s.ctx (cliOf s cn)).lsubs po.key
              (if ok && !po.cancelled then uni ((s.ctx (cliOf s cn)).lsubs po.key) po.rcvs else (s.ctx (cliOf s cn)).lsubs po.key),
            pobj := upd (s.ctx (cliOf s cn)).pobj pid (some { po with done := some (ok && !po.cancelled) }) }).setProg th
            ([] ++ rest)).ctx (cliOf s cn)) (keyOf s cn ob sg) = none := by
          simp [curOf, poOf, upd, hpkey]
        have hsim := sim_a_retable (failed := failed) af rfl hrel false
          (by intro id0 hid; rw [hcur'] at hid; cases hid)
          (hobs _ (by intros; simp) (by simp)) (hobs _ (by intros; simp) (by simp)) (hobs _ (by intros; simp) (by simp))
          (by intro id0 hid; rw [hcur'] at hid; cases hid)
          (by rw [hcur', hc]; exact (dV_noRep hnr).symm) (t' := .none) (by rw [hcur'])
        refine ⟨_, hsim, Or.inr ?_⟩
        have hsub : po.sub = true := hb1.1
        have hcond : (ok && po.cancelled) = false := by
          cases hok : ok <;> cases hca : po.cancelled <;> simp_all
        rw [hsub] at hxpend; simp only [if_true] at hxpend
        have := next_hrSubDone hxtok hxpend hcond
        refine cast (congrArg (· ∈ next _) ?_) this
        refine AS.ext' rfl ?_ rfl rfl ?_ rfl rfl rfl rfl
        · have hrc := subRcvInv_reach hr (cliOf s cn) pid po hpobj hsub
          simp only [setProg_ctx, setCtx_ctx, if_true, upd, hpkey]
          have hA : (absOf s cn ob sg rm failed).A = decide ((s.ctx (cliOf s cn)).lsubs (keyOf s cn ob sg) ≠ []) := rfl
          rw [hA]
          cases hok : ok <;> cases hca : po.cancelled <;> simp_all [uni_ne_nil]
        · simp [pendOf, poOf, upd, hpkey, pendP]
      · split at heq
        · -- the request is sent again
          rename_i hb1 hb2
          simp only [Option.some.injEq, Prod.mk.injEq] at heq; obtain ⟨rfl, rfl, -⟩ := heq
          have hnp2 := not_in_pipe_fresh hr hlf.openA hfresh
          obtain ⟨hh2, hnr2⟩ := client_side hnp2 ob sg
          have hcur' : curOf (((s.setCtx (cliOf s cn) { (s.ctx (cliOf s cn)) with
              byId := upd (upd (s.ctx (cliOf s cn)).byId id none) (s.ctx (cliOf s cn)).nextReq (some pid),
              byKey := upd (s.ctx (cliOf s cn)).byKey po.key (some pid),
              pobj := upd (s.ctx (cliOf s cn)).pobj pid (some { po with sub := true, cancelled := false, cur := (s.ctx (cliOf s cn)).nextReq }),
              nextReq := (s.ctx (cliOf s cn)).nextReq + 1 }).setProg th
              ([.sendChk po.key.pc (.subReq (s.ctx (cliOf s cn)).nextReq po.key.ob po.key.sg true)] ++ rest)).ctx (cliOf s cn))
              (keyOf s cn ob sg) = some (s.ctx (cliOf s cn)).nextReq := by
            simp [curOf, poOf, upd, hpkey]
          have hnoHr : MOp.handleReply (s.ctx (cliOf s cn)).nextReq true ∉ s.prog (.sock (cliOf s cn)) := by
            intro hm
            obtain ⟨pid', po', h1, -, -⟩ := hrInv_reach hr _ _ hm
            simp only [Th.ctx] at h1
            rw [(hpo.fresh _ hfresh).1] at h1; cases h1
          have hsim := sim_a_retable (failed := failed) af rfl hrel false
            (by intro id0 hid
                rw [hcur'] at hid; cases hid
                simp only [Bool.false_eq_true, false_iff]
                rw [hfailO _ (Ne.symm hidlt)]; exact not_failed_fresh hr hfresh)
            (hobs _ (by intros; simp) (by simp)) (hobs _ (by intros; simp) (by simp)) (hobs _ (by intros; simp) (by simp))
            (by intro id0 hid; rw [hcur'] at hid; cases hid
                exact hobs _ (by intros; simp) (by simp [Ne.symm hidlt]))
            (by rw [hcur', hc, dV_noRep hnr, dV_noRep hnr2]) (t' := .req)
            (by rw [hcur']
                simp only [Bool.false_eq_true, if_false]
                rw [tokV_client (by exact hh2) hnr2, if_neg (by exact hnoHr)])
          refine ⟨_, hsim, Or.inr ?_⟩
          have hpe : pendOf (((s.setCtx (cliOf s cn) { (s.ctx (cliOf s cn)) with
              byId := upd (upd (s.ctx (cliOf s cn)).byId id none) (s.ctx (cliOf s cn)).nextReq (some pid),
              byKey := upd (s.ctx (cliOf s cn)).byKey po.key (some pid),
              pobj := upd (s.ctx (cliOf s cn)).pobj pid (some { po with sub := true, cancelled := false, cur := (s.ctx (cliOf s cn)).nextReq }),
              nextReq := (s.ctx (cliOf s cn)).nextReq + 1 }).setProg th
              ([.sendChk po.key.pc (.subReq (s.ctx (cliOf s cn)).nextReq po.key.ob po.key.sg true)] ++ rest)).ctx (cliOf s cn))
              (keyOf s cn ob sg) = .sub false := by
            simp [pendOf, poOf, upd, hpkey, pendP]
          have hAe : decide ((((s.setCtx (cliOf s cn) { (s.ctx (cliOf s cn)) with
              byId := upd (upd (s.ctx (cliOf s cn)).byId id none) (s.ctx (cliOf s cn)).nextReq (some pid),
              byKey := upd (s.ctx (cliOf s cn)).byKey po.key (some pid),
              pobj := upd (s.ctx (cliOf s cn)).pobj pid (some { po with sub := true, cancelled := false, cur := (s.ctx (cliOf s cn)).nextReq }),
              nextReq := (s.ctx (cliOf s cn)).nextReq + 1 }).setProg th
              ([.sendChk po.key.pc (.subReq (s.ctx (cliOf s cn)).nextReq po.key.ob po.key.sg true)] ++ rest)).ctx (cliOf s cn)).lsubs
              (keyOf s cn ob sg) ≠ []) = (absOf s cn ob sg rm failed).A := by
            simp only [setProg_ctx, setCtx_ctx, if_true]; rfl
          rw [hpe, hAe]
          cases hsub : po.sub with
          | true =>
            have hokc : ok = true ∧ po.cancelled = true := by
              by_cases hx : ok = true ∧ po.cancelled = true
              · exact hx
              · exact absurd ⟨hsub, hx⟩ hb1
            obtain ⟨rfl, hca⟩ := hokc
            rw [hsub, hca] at hxpend; simp only [if_true] at hxpend
            have := next_hrSubRetry hxtok hxpend
            refine cast (congrArg (· ∈ next _) ?_) this
            exact AS.ext' rfl rfl rfl rfl rfl rfl rfl rfl rfl
          | false =>
            have hrc : po.rcvs ≠ [] := by
              rcases hb2 with hx | hx
              · rw [hsub] at hx; cases hx
              · exact hx
            rw [hsub] at hxpend; simp only [Bool.false_eq_true, if_false, hrc, ne_eq, not_false_eq_true, decide_true] at hxpend
            have := next_hrUnsubRetry hxtok hxpend
            refine cast (congrArg (· ∈ next _) ?_) this
            exact AS.ext' rfl rfl rfl rfl rfl rfl rfl rfl rfl
        · -- an unsubscribe request completed, nobody is waiting
          rename_i hb1 hb2
          simp only [Option.some.injEq, Prod.mk.injEq] at heq; obtain ⟨rfl, rfl, -⟩ := heq
          have hcur' : curOf (((s.setCtx (cliOf s cn) { (s.ctx (cliOf s cn)) with
              byId := upd (s.ctx (cliOf s cn)).byId id none, byKey := upd (s.ctx (cliOf s cn)).byKey po.key none }).setProg th
              ([] ++ rest)).ctx (cliOf s cn)) (keyOf s cn ob sg) = none := by
            simp [curOf, poOf, upd, hpkey]
          have hsim := sim_a_retable (failed := failed) af rfl hrel false
            (by intro id0 hid; rw [hcur'] at hid; cases hid)
            (hobs _ (by intros; simp) (by simp)) (hobs _ (by intros; simp) (by simp)) (hobs _ (by intros; simp) (by simp))
            (by intro id0 hid; rw [hcur'] at hid; cases hid)
            (by rw [hcur', hc]; exact (dV_noRep hnr).symm) (t' := .none) (by rw [hcur'])
          refine ⟨_, hsim, Or.inr ?_⟩
          have hsub : po.sub = false := by
            cases hv : po.sub with
            | false => rfl
            | true => exact absurd (Or.inl hv) hb2
          have hrc : po.rcvs = [] := by
            cases hv : po.rcvs with
            | nil => rfl
            | cons a l => exact absurd (Or.inr (by rw [hv]; simp)) hb2
          rw [hsub, hrc] at hxpend; simp at hxpend
          have := next_hrUnsubDone hxtok hxpend
          refine cast (congrArg (· ∈ next _) ?_) this
          refine AS.ext' rfl ?_ rfl rfl ?_ rfl rfl rfl rfl
          · simp only [setProg_ctx, setCtx_ctx, if_true]; rfl
          · simp [pendOf, poOf, upd, hpkey, pendP]
    · -- the reply to a request of another key
      obtain ⟨e1, e2⟩ := hrs_other_key hpo heq hc
      refine ⟨_, sim_a_stutter af (by simp [e1]) (by simp [e2]) rfl (hobs _ (by intros; simp) (by simp))
        (hobs _ (by intros; simp) (by simp)) (hobs _ (by intros; simp) (by simp)) ?_ ?_ h, Or.inl rfl⟩
      · intro id0 hc0
        have : id0 ≠ id := by intro e; subst e; exact hc hc0
        exact hobs _ (by intros; simp) (by simp [this])
      · intro id0 hc0
        have : id0 ≠ id := by intro e; subst e; exact hc hc0
        exact hfailO id0 this


/-- **micro steps of the subscribing context** -/
theorem sim_micro_a {s s' : State} {th : Th} {ch ch2 : Nat} {op : MOp} {rest : List MOp} {o : Out}
    (hr : Reach s) (hprog : s.prog th = op :: rest) (hs : microStep s th ch ch2 op rest = some (s', o))
    {cn : ConnId} {ob : Obj} {sg : Sg} {x : AS} (hth : th.ctx = cliOf s cn) (hl : Live s cn) (hl' : Live s' cn)
    (h : Sim s cn ob sg x) : ∃ x', Sim s' cn ob sg x' ∧ (x' = x ∨ x' ∈ next x) := by
  have hlf := live_facts hr hl
  by_cases htd : op.isTd = true
  · exact sim_a_td hr hprog hs hth hl hl' htd h
  · have htd' : op.isTd = false := by simpa using htd
    cases op with
    | subRemote k r => exact sim_a_subRemote hr hprog hs hth hl h
    | unsubRemote k r => exact sim_a_unsubRemote hr hprog hs hth hl h
    | handleReply id ok => exact sim_a_handleReply hr hprog hs hth hl h
    | sigRemoved k => exact sim_a_sigRemoved hr hprog hs hth hl h
    | sendChk d m => exact ⟨x, sim_a_sendChk hr hprog hs hth hl h, Or.inl rfl⟩
    | addLocal k r => exact ⟨x, sim_a_local hr hprog hs hth hlf.ne (Or.inl ⟨k, r, rfl⟩) h, Or.inl rfl⟩
    | removeLocal k r => exact ⟨x, sim_a_local hr hprog hs hth hlf.ne (Or.inr (Or.inl ⟨k, r, rfl⟩)) h, Or.inl rfl⟩
    | objRemoved ob' => exact ⟨x, sim_a_local hr hprog hs hth hlf.ne (Or.inr (Or.inr ⟨ob', rfl⟩)) h, Or.inl rfl⟩
    | popPeer n => simp [MOp.isTd] at htd
    | peerRemoved n => simp [MOp.isTd] at htd
    | closeConn n b => simp [MOp.isTd] at htd
    | _ =>
      refine ⟨x, sim_a_quiet hr hprog hs hth hlf.ne ?_ rfl htd' (by intro d m e; cases e) h, Or.inl rfl⟩
      rw [microStep_ls rfl hs]

end QmiModel.PubSub
