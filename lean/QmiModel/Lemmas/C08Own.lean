import QmiModel.Lemmas.C08Carrier
/-! C08: ownership of connections over all steps (frame lemmas for the non-micro actions). -/
namespace QmiModel.PubSub

theorem half_setHalf (x : Conn) (cli cli' : Bool) (h : Half) :
    (x.setHalf cli h).half cli' = if cli' = cli then h else x.half cli' := by
  cases cli <;> cases cli' <;> simp [Conn.half, Conn.setHalf]

/-- every step keeps the owners of existing connection ends, and never decreases `nextConn` -/
theorem step_owner {s s' : State} {a : Act} {o : Out} (hs : step s a = some (s', o)) :
    s.nextConn ≤ s'.nextConn ∧ ∀ cn cli, cn < s.nextConn → ((s'.conn cn).half cli).owner = ((s.conn cn).half cli).owner := by
  cases a with
  | micro th ch ch2 =>
    obtain ⟨-, op, rest, -, hm⟩ := step_micro_inv hs
    exact ⟨Nat.le_of_eq (microStep_frame hm).nextConn.symm, fun cn cli _ => microStep_owner hm cn cli⟩
  | begin c t op =>
    simp only [step] at hs
    split at hs
    · cases op <;> simp at hs <;> obtain ⟨rfl, -⟩ := hs <;> exact ⟨Nat.le_refl _, fun _ _ _ => rfl⟩
    · simp at hs
  | cb c ok =>
    simp only [step] at hs
    split at hs
    · split at hs
      · simp at hs
      · split at hs
        · simp at hs
        · rename_i heq
          obtain ⟨-, -, -, hnc, -, -⟩ := smSendStep_frame heq
          have hown := smSendStep_owner heq
          simp only [Option.some.injEq, Prod.mk.injEq] at hs
          obtain ⟨rfl, -⟩ := hs
          exact ⟨by simp [hnc], fun cn cli _ => by simp [hown]⟩
      · split at hs
        all_goals
          simp at hs; obtain ⟨rfl, -⟩ := hs
          exact ⟨Nat.le_refl _, fun _ _ _ => rfl⟩
    · simp at hs
  | arrive cn cli =>
    simp only [step] at hs
    split at hs
    · split at hs
      · simp at hs
      · rename_i m ms hin
        simp only [Option.some.injEq, Prod.mk.injEq] at hs
        obtain ⟨rfl, -⟩ := hs
        refine ⟨Nat.le_refl _, fun cn' cli' _ => ?_⟩
        simp only [State.setProg, upd]
        split
        · rename_i e; subst e
          rw [half_setHalf]
          split
          · rename_i e2; subst e2
            cases m <;> rfl
          · rfl
        · rfl
    · simp at hs
  | eof cn cli =>
    simp only [step] at hs
    split at hs
    · simp only [Option.some.injEq, Prod.mk.injEq] at hs
      obtain ⟨rfl, -⟩ := hs
      exact ⟨Nat.le_refl _, fun _ _ _ => rfl⟩
    · simp at hs
  | connect a p =>
    simp only [step] at hs
    split at hs
    · simp only [Option.some.injEq, Prod.mk.injEq] at hs
      obtain ⟨rfl, -⟩ := hs
      refine ⟨Nat.le_succ _, fun cn cli hlt => ?_⟩
      have : cn ≠ s.nextConn := Nat.ne_of_lt hlt
      simp [upd, this]
    · simp at hs
  | routerOk c =>
    simp only [step] at hs
    split at hs
    · simp only [Option.some.injEq, Prod.mk.injEq] at hs
      obtain ⟨rfl, -⟩ := hs
      exact ⟨Nat.le_refl _, fun _ _ _ => rfl⟩
    · simp at hs
  | stopReq c =>
    simp only [step] at hs
    split at hs
    · simp only [Option.some.injEq, Prod.mk.injEq] at hs
      obtain ⟨rfl, -⟩ := hs
      refine ⟨Nat.le_refl _, fun cn cli _ => ?_⟩
      cases cli
      · simp only [Conn.half]; repeat' split
        all_goals simp_all
      · simp only [Conn.half]; repeat' split
        all_goals simp_all
    · simp at hs
  | stop c =>
    simp only [step] at hs
    split at hs
    · simp only [Option.some.injEq, Prod.mk.injEq] at hs
      obtain ⟨rfl, -⟩ := hs
      refine ⟨Nat.le_refl _, fun cn cli _ => ?_⟩
      cases cli
      · simp only [Conn.half]; repeat' split
        all_goals simp_all
      · simp only [Conn.half]; repeat' split
        all_goals simp_all
    · simp at hs


/-- non-micro actions register peers only in `connect`, for the fresh connection -/
theorem step_nonmicro_peers {s s' : State} {a : Act} {o : Out} (ha : ∀ th ch ch2, a ≠ .micro th ch ch2)
    (hs : step s a = some (s', o)) (c : Ctx) (n : Peer) (cn : ConnId) (hp : (s'.ctx c).peers n = some cn) :
    (s.ctx c).peers n = some cn ∨
    (cn = s.nextConn ∧ s'.nextConn = s.nextConn + 1 ∧ ((s'.conn cn).half n.isName).owner = c) := by
  cases a with
  | micro th ch ch2 => exact absurd rfl (ha th ch ch2)
  | begin c0 t op =>
    simp only [step] at hs
    split at hs
    · cases op <;> simp at hs <;> obtain ⟨rfl, -⟩ := hs <;> exact Or.inl hp
    · simp at hs
  | cb c0 ok =>
    simp only [step] at hs
    split at hs
    · split at hs
      · simp at hs
      · split at hs
        · simp at hs
        · rename_i heq
          obtain ⟨hcx, -, -, -, -, -⟩ := smSendStep_frame heq
          simp only [Option.some.injEq, Prod.mk.injEq] at hs
          obtain ⟨rfl, -⟩ := hs
          left
          simp only [setProg_ctx, hcx, setCtx_ctx] at hp
          split at hp
          · rename_i e; subst e; exact hp
          · exact hp
      · split at hs
        all_goals
          simp at hs; obtain ⟨rfl, -⟩ := hs
          left
          simp only [setProg_ctx, setCtx_ctx] at hp
          split at hp
          · rename_i e; subst e; exact hp
          · exact hp
    · simp at hs
  | arrive cn0 cli =>
    simp only [step] at hs
    split at hs
    · split at hs
      · simp at hs
      · simp only [Option.some.injEq, Prod.mk.injEq] at hs
        obtain ⟨rfl, -⟩ := hs
        exact Or.inl hp
    · simp at hs
  | eof cn0 cli =>
    simp only [step] at hs
    split at hs
    · simp only [Option.some.injEq, Prod.mk.injEq] at hs
      obtain ⟨rfl, -⟩ := hs
      exact Or.inl hp
    · simp at hs
  | connect a p =>
    simp only [step] at hs
    split at hs
    · simp only [Option.some.injEq, Prod.mk.injEq] at hs
      obtain ⟨rfl, -⟩ := hs
      rename_i hc
      have hap : a ≠ p := hc.1
      have key : (({ ((s.setCtx a { (s.ctx a) with peers := upd (s.ctx a).peers (.name p) (some s.nextConn) }).setCtx p
                    { ((s.setCtx a { (s.ctx a) with peers := upd (s.ctx a).peers (.name p) (some s.nextConn) }).ctx p) with
                      peers := upd ((s.setCtx a { (s.ctx a) with peers := upd (s.ctx a).peers (.name p) (some s.nextConn) }).ctx p).peers
                                (.alias s.nextConn) (some s.nextConn) }) with
                  conn := upd s.conn s.nextConn { cli := { owner := a, isOpen := true, inbox := [], pend := [] },
                                                  srv := { owner := p, isOpen := true, inbox := [], pend := [] } },
                  nextConn := s.nextConn + 1 } : State).ctx c).peers n =
          if c = p ∧ n = .alias s.nextConn then some s.nextConn
          else if c = a ∧ n = .name p then some s.nextConn else (s.ctx c).peers n := by
        simp only [setCtx_ctx]
        by_cases h1 : c = p
        · subst h1
          have : c ≠ a := fun e => hap e.symm
          simp only [if_true, this, if_false, upd, true_and, false_and]
        · simp only [h1, if_false, false_and]
          by_cases h3 : c = a
          · subst h3; simp [upd]
          · simp [h3]
      rw [key] at hp
      split at hp
      · rename_i e
        obtain ⟨rfl, rfl⟩ := e
        simp only [Option.some.injEq] at hp; subst hp
        right
        exact ⟨rfl, rfl, by simp [upd, Conn.half, Peer.isName]⟩
      · split at hp
        · rename_i e
          obtain ⟨rfl, rfl⟩ := e
          simp only [Option.some.injEq] at hp; subst hp
          right
          exact ⟨rfl, rfl, by simp [upd, Conn.half, Peer.isName]⟩
        · exact Or.inl hp
    · simp at hs
  | routerOk c0 =>
    simp only [step] at hs
    split at hs
    · simp only [Option.some.injEq, Prod.mk.injEq] at hs
      obtain ⟨rfl, -⟩ := hs
      exact Or.inl hp
    · simp at hs
  | stopReq c0 =>
    simp only [step] at hs
    split at hs
    · simp only [Option.some.injEq, Prod.mk.injEq] at hs
      obtain ⟨rfl, -⟩ := hs
      left
      simp only [setCtx_ctx] at hp
      split at hp
      · rename_i e; subst e; exact hp
      · exact hp
    · simp at hs
  | stop c0 =>
    simp only [step] at hs
    split at hs
    · simp only [Option.some.injEq, Prod.mk.injEq] at hs
      obtain ⟨rfl, -⟩ := hs
      left
      simp only [setCtx_ctx] at hp
      split at hp
      · rename_i e; subst e; exact hp
      · exact hp
    · simp at hs

/-- non-micro actions start a `closeConn` only for a connection end of the acting socket thread -/
theorem step_nonmicro_close {s s' : State} {a : Act} {o : Out} (ha : ∀ th ch ch2, a ≠ .micro th ch ch2)
    (hs : step s a = some (s', o)) (th' : Th) (cn : ConnId) (cli : Bool) (hm : .closeConn cn cli ∈ s'.prog th') :
    .closeConn cn cli ∈ s.prog th' ∨
    (cn < s.nextConn ∧ ((s.conn cn).half cli).owner = th'.ctx) ∨
    (∃ n, (s.ctx th'.ctx).peers n = some cn ∧ cli = n.isName) := by
  cases a with
  | micro th ch ch2 => exact absurd rfl (ha th ch ch2)
  | begin c0 t op =>
    simp only [step] at hs
    split at hs
    · cases op <;> simp at hs <;> obtain ⟨rfl, -⟩ := hs <;>
        (simp only [setProg_prog, State.setProg, upd] at hm
         split at hm
         · simp only [beginProg] at hm
           (try split at hm) <;> simp at hm
         · exact Or.inl hm)
    · simp at hs
  | cb c0 ok =>
    simp only [step] at hs
    split at hs
    · split at hs
      · simp at hs
      · split at hs
        · simp at hs
        · rename_i heq
          obtain ⟨-, hpx, -, -, -, hpr⟩ := smSendStep_frame heq
          simp only [Option.some.injEq, Prod.mk.injEq] at hs
          obtain ⟨rfl, -⟩ := hs
          simp only [setProg_prog, hpx, setCtx_prog] at hm
          split at hm
          · exfalso
            rcases hpr with e | e
            · rw [e] at hm; simp at hm
            · rw [e] at hm
              have := onSendFail_cars _ _ hm
              simp [MOp.isCar] at this
          · exact Or.inl hm
      · split at hs
        · simp at hs; obtain ⟨rfl, -⟩ := hs
          simp only [setProg_prog, setCtx_prog] at hm
          split at hm
          · simp at hm
          · exact Or.inl hm
        · rename_i cn0 hpn
          simp at hs; obtain ⟨rfl, -⟩ := hs
          simp only [setProg_prog, setCtx_prog] at hm
          split at hm
          · rename_i e; subst e
            simp only [List.mem_cons, List.not_mem_nil, or_false, MOp.closeConn.injEq, reduceCtorEq, false_or] at hm
            obtain ⟨rfl, rfl⟩ := hm
            exact Or.inr (Or.inr ⟨_, hpn, rfl⟩)
          · exact Or.inl hm
    · simp at hs
  | arrive cn0 cli0 =>
    simp only [step] at hs
    split at hs
    · split at hs
      · simp at hs
      · rename_i m ms hin
        simp only [Option.some.injEq, Prod.mk.injEq] at hs
        obtain ⟨rfl, -⟩ := hs
        simp only [State.setProg, upd] at hm
        split at hm
        · exfalso
          cases m with
          | subReq id ob sg b => cases b <;> simp [dispatch] at hm
          | _ => simp [dispatch] at hm
        · exact Or.inl hm
    · simp at hs
  | eof cn0 cli0 =>
    simp only [step] at hs
    split at hs
    · rename_i hc
      simp only [Option.some.injEq, Prod.mk.injEq] at hs
      obtain ⟨rfl, -⟩ := hs
      simp only [setProg_prog] at hm
      split at hm
      · rename_i e; subst e
        simp only [List.mem_cons, List.not_mem_nil, or_false, MOp.closeConn.injEq, reduceCtorEq, false_or] at hm
        obtain ⟨rfl, rfl⟩ := hm
        exact Or.inr (Or.inl ⟨hc.1, rfl⟩)
      · exact Or.inl hm
    · simp at hs
  | connect a p =>
    simp only [step] at hs
    split at hs
    · simp only [Option.some.injEq, Prod.mk.injEq] at hs
      obtain ⟨rfl, -⟩ := hs
      exact Or.inl (by simpa using hm)
    · simp at hs
  | routerOk c0 =>
    simp only [step] at hs
    split at hs
    · simp only [Option.some.injEq, Prod.mk.injEq] at hs
      obtain ⟨rfl, -⟩ := hs
      exact Or.inl (by simpa using hm)
    · simp at hs
  | stopReq c0 =>
    simp only [step] at hs
    split at hs
    · simp only [Option.some.injEq, Prod.mk.injEq] at hs
      obtain ⟨rfl, -⟩ := hs
      exact Or.inl (by simpa using hm)
    · simp at hs
  | stop c0 =>
    simp only [step] at hs
    split at hs
    · simp only [Option.some.injEq, Prod.mk.injEq] at hs
      obtain ⟨rfl, -⟩ := hs
      exact Or.inl (by simpa using hm)
    · simp at hs

theorem ownInv_step {s s' : State} {a : Act} {o : Out} (h : OwnInv s) (hs : step s a = some (s', o)) : OwnInv s' := by
  obtain ⟨hle, hown⟩ := step_owner hs
  by_cases ha : ∃ th ch ch2, a = .micro th ch ch2
  · obtain ⟨th, ch, ch2, rfl⟩ := ha
    obtain ⟨-, op, rest, hp, hm⟩ := step_micro_inv hs
    exact ownInv_micro h hp hm
  · have ha' : ∀ th ch ch2, a ≠ .micro th ch ch2 := fun th ch ch2 e => ha ⟨th, ch, ch2, e⟩
    constructor
    · intro c n cn hp
      rcases step_nonmicro_peers ha' hs c n cn hp with h1 | ⟨h1, h2, h3⟩
      · have := h.peers c n cn h1
        exact ⟨Nat.lt_of_lt_of_le this.1 hle, by rw [hown _ _ this.1]; exact this.2⟩
      · exact ⟨by rw [h2, h1]; exact Nat.lt_succ_self _, h3⟩
    · intro th' cn cli hm
      rcases step_nonmicro_close ha' hs th' cn cli hm with h1 | ⟨h1, h2⟩ | ⟨n, h1, h2⟩
      · have := h.close th' cn cli h1
        exact ⟨Nat.lt_of_lt_of_le this.1 hle, by rw [hown _ _ this.1]; exact this.2⟩
      · exact ⟨Nat.lt_of_lt_of_le h1 hle, by rw [hown _ _ h1]; exact h2⟩
      · have := h.peers _ n cn h1
        exact ⟨Nat.lt_of_lt_of_le this.1 hle, by rw [hown _ _ this.1, h2]; exact this.2⟩

theorem ownInv_reach {s : State} (h : Reach s) : OwnInv s := by
  induction h with
  | init => exact ownInv_init
  | step _ hs ih => exact ownInv_step ih hs


/-! ### the carrier invariant -/

/-- something inside context `c` carries its outstanding request `id` -/
def Carrier (s : State) (c : Ctx) (id : ReqId) : Prop :=
  (∃ th, th.ctx = c ∧ ∃ op ∈ s.prog th, op.carries id = true) ∨
  (∃ cb ∈ (s.ctx c).loopQ, cb.carries id = true) ∨
  (∃ cn cli, cn < s.nextConn ∧ ((s.conn cn).half cli).owner = c ∧ id ∈ ((s.conn cn).half cli).pend)

def CarrierInv (s : State) : Prop :=
  ∀ c id, (s.ctx c).alive = true → (s.ctx c).byId id ≠ none → Carrier s c id

theorem handleReplyStep_conserve {cs cs' : CtxSt} {id : ReqId} {ok : Bool} {more : List MOp} {o : Out}
    (hp : PendOk cs) (h : handleReplyStep cs id ok = some (cs', more, o)) :
    cs'.loopQ = cs.loopQ ∧
    (∀ id', cs'.byId id' ≠ none → cs.byId id' ≠ none ∨ ∃ op' ∈ more, op'.carries id' = true) ∧
    (cs'.byId id ≠ none → ∃ op' ∈ more, op'.carries id = true) := by
  unfold handleReplyStep at h
  split at h
  · rename_i hn
    simp only [Option.some.injEq, Prod.mk.injEq] at h; obtain ⟨rfl, rfl, rfl⟩ := h
    exact ⟨rfl, fun id' h' => Or.inl h', fun h' => absurd hn h'⟩
  · rename_i pid hpid
    split at h
    · rename_i hn
      simp only [Option.some.injEq, Prod.mk.injEq] at h; obtain ⟨rfl, rfl, rfl⟩ := h
      exact absurd hn (hp.byId_some id pid hpid)
    · split at h
      · simp only [Option.some.injEq, Prod.mk.injEq] at h
        obtain ⟨rfl, rfl, -⟩ := h
        refine ⟨rfl, fun id' h' => ?_, fun h' => ?_⟩
        · left; simp only [upd] at h'; split at h' <;> simp_all
        · simp [upd] at h'
      · split at h
        · simp only [Option.some.injEq, Prod.mk.injEq] at h
          obtain ⟨rfl, rfl, -⟩ := h
          refine ⟨rfl, fun id' h' => ?_, fun h' => ?_⟩
          · simp only [upd] at h'
            split at h'
            · rename_i e; subst e; right; exact ⟨_, List.mem_singleton.2 rfl, by simp [MOp.carries, Msg.isReq]⟩
            · split at h' <;> simp_all
          · simp only [upd] at h'
            split at h'
            · rename_i e; exact ⟨_, List.mem_singleton.2 rfl, by simp [MOp.carries, Msg.isReq, e]⟩
            · simp at h'
        · simp only [Option.some.injEq, Prod.mk.injEq] at h
          obtain ⟨rfl, rfl, -⟩ := h
          refine ⟨rfl, fun id' h' => ?_, fun h' => ?_⟩
          · left; simp only [upd] at h'; split at h' <;> simp_all
          · simp [upd] at h'


/-- what one micro step of thread `th` does to the carriers of its context -/
structure Conserve (s s' : State) (th : Th) (op : MOp) (rest : List MOp) : Prop where
  fresh : ∀ id, (s'.ctx th.ctx).byId id ≠ none → (s.ctx th.ctx).byId id ≠ none ∨ ∃ op' ∈ s'.prog th, op'.carries id = true
  head : ∀ id, op.carries id = true → (s'.ctx th.ctx).byId id ≠ none →
          (∃ op' ∈ s'.prog th, op'.carries id = true) ∨ (∃ cb ∈ (s'.ctx th.ctx).loopQ, cb.carries id = true)
  rest : carFree rest ∨ ∀ op' ∈ rest, op' ∈ s'.prog th
  loopQ : ∀ cb ∈ (s.ctx th.ctx).loopQ, cb ∈ (s'.ctx th.ctx).loopQ
  pend : ∀ cn cli id, id ∈ ((s.conn cn).half cli).pend →
          id ∈ ((s'.conn cn).half cli).pend ∨ (op = .closeConn cn cli ∧ MOp.handleReply id false ∈ s'.prog th)

theorem handleReplyStep_loopQ {cs cs' : CtxSt} {id : ReqId} {ok : Bool} {more : List MOp} {o : Out}
    (h : handleReplyStep cs id ok = some (cs', more, o)) : cs'.loopQ = cs.loopQ := by
  unfold handleReplyStep at h
  split at h
  · simp only [Option.some.injEq, Prod.mk.injEq] at h; obtain ⟨rfl, rfl, rfl⟩ := h; rfl
  · split at h
    · simp only [Option.some.injEq, Prod.mk.injEq] at h; obtain ⟨rfl, rfl, rfl⟩ := h; rfl
    · split at h
      · simp only [Option.some.injEq, Prod.mk.injEq] at h; obtain ⟨rfl, -, -⟩ := h; rfl
      · split at h
        · simp only [Option.some.injEq, Prod.mk.injEq] at h; obtain ⟨rfl, -, -⟩ := h; rfl
        · simp only [Option.some.injEq, Prod.mk.injEq] at h; obtain ⟨rfl, -, -⟩ := h; rfl

set_option maxHeartbeats 1000000 in
theorem microStep_loopQ {s s' : State} {th : Th} {ch ch2 : Nat} {op : MOp} {rest : List MOp} {o : Out}
    (hs : microStep s th ch ch2 op rest = some (s', o)) : ∀ cb ∈ (s.ctx th.ctx).loopQ, cb ∈ (s'.ctx th.ctx).loopQ := by
  cases op <;> simp only [microStep] at hs
  all_goals (try (split at hs))
  all_goals (try (split at hs))
  all_goals (try (split at hs))
  all_goals (try (split at hs))
  all_goals (try (simp at hs))
  all_goals (try (obtain ⟨rfl, -⟩ := hs))
  all_goals (intro cb hcb)
  all_goals (simp only [setProg_ctx, setCtx_ctx, State.setProg, if_true, peerRemovedStep])
  all_goals (try exact hcb)
  all_goals (try (simp only [List.mem_append]; exact Or.inl hcb))
  all_goals (try (rw [handleReplyStep_loopQ ‹handleReplyStep _ _ _ = some _›]; exact hcb))

set_option maxHeartbeats 1000000 in
theorem microStep_pend {s s' : State} {th : Th} {ch ch2 : Nat} {op : MOp} {rest : List MOp} {o : Out}
    (hs : microStep s th ch ch2 op rest = some (s', o)) :
    ∀ cn cli id, id ∈ ((s.conn cn).half cli).pend →
      id ∈ ((s'.conn cn).half cli).pend ∨ (op = .closeConn cn cli ∧ MOp.handleReply id false ∈ s'.prog th) := by
  cases op <;> simp only [microStep] at hs
  all_goals (try (split at hs))
  all_goals (try (split at hs))
  all_goals (try (split at hs))
  all_goals (try (split at hs))
  all_goals (try (simp at hs))
  all_goals (try (obtain ⟨rfl, -⟩ := hs))
  all_goals (intro cn cli id hid)
  all_goals (try (left; exact hid))
  -- closeConn
  rename_i cn0 cli0
  by_cases e : cn = cn0 ∧ cli = cli0
  · obtain ⟨rfl, rfl⟩ := e
    right
    refine ⟨rfl, ?_⟩
    simp only [setProg_prog, if_true, List.mem_append, List.mem_map]
    exact Or.inl ⟨id, hid, rfl⟩
  · left
    simp only [setProg_conn, upd]
    split
    · rename_i e1; subst e1
      rw [half_setHalf]
      split
      · rename_i e2; exact absurd ⟨rfl, e2⟩ e
      · exact hid
    · exact hid

set_option maxHeartbeats 1000000 in
theorem microStep_fresh {s s' : State} {th : Th} {ch ch2 : Nat} {op : MOp} {rest : List MOp} {o : Out}
    (hnr : ∀ id ok, op ≠ .handleReply id ok) (hs : microStep s th ch ch2 op rest = some (s', o)) :
    ∀ id, (s'.ctx th.ctx).byId id ≠ none → (s.ctx th.ctx).byId id ≠ none ∨ ∃ op' ∈ s'.prog th, op'.carries id = true := by
  cases op <;> (try exact absurd rfl (hnr _ _)) <;> simp only [microStep] at hs
  all_goals (try (split at hs))
  all_goals (try (split at hs))
  all_goals (try (split at hs))
  all_goals (try (split at hs))
  all_goals (try (simp at hs))
  all_goals (try (obtain ⟨rfl, -⟩ := hs))
  all_goals (intro id h')
  all_goals (simp only [setProg_ctx, setCtx_ctx, State.setProg, if_true, peerRemovedStep, upd] at h')
  all_goals (try (left; exact h'))
  all_goals (split at h')
  all_goals (try (left; exact h'))
  all_goals (rename_i e; right; simp only [setProg_prog, if_true, State.setProg, upd])
  all_goals (exact ⟨_, List.mem_cons_self, by simp [MOp.carries, Msg.isReq, e]⟩)

set_option maxHeartbeats 1000000 in
theorem microStep_head {s s' : State} {th : Th} {ch ch2 : Nat} {op : MOp} {rest : List MOp} {o : Out}
    (hnr : ∀ id ok, op ≠ .handleReply id ok) (hs : microStep s th ch ch2 op rest = some (s', o)) :
    ∀ id, op.carries id = true →
      (∃ op' ∈ s'.prog th, op'.carries id = true) ∨ (∃ cb ∈ (s'.ctx th.ctx).loopQ, cb.carries id = true) := by
  intro id hc
  cases op <;> simp only [MOp.carries] at hc <;> (try contradiction) <;> (try exact absurd rfl (hnr _ _)) <;>
    simp only [microStep] at hs
  all_goals (try (split at hs))
  all_goals (try (simp at hs))
  all_goals (try (obtain ⟨rfl, -⟩ := hs))
  · -- sendChk, peer known: the enqueue operation carries it
    left; exact ⟨_, by simp only [setProg_prog, if_true]; exact List.mem_cons_self, by simpa [MOp.carries] using hc⟩
  · -- sendChk, peer unknown: `_send_subscription_request` handles the failure as an error reply
    left
    rename_i d m _
    cases m <;> simp only [Msg.isReq] at hc <;> (try contradiction)
    simp only [beq_iff_eq] at hc; subst hc
    exact ⟨_, by simp only [setProg_prog, if_true, onSendFail]; exact List.mem_cons_self, by simp [MOp.carries]⟩
  · -- enq: now in the event-loop queue
    right
    exact ⟨_, by simp only [setProg_ctx, setCtx_ctx, if_true, List.mem_append, List.mem_singleton]; exact Or.inr rfl,
           by simpa [Cb.carries] using hc⟩

theorem microStep_rest {s s' : State} {th : Th} {ch ch2 : Nat} {op : MOp} {rest : List MOp} {o : Out}
    (hp : carPrefix (op :: rest)) (hs : microStep s th ch ch2 op rest = some (s', o)) :
    carFree rest ∨ ∀ op' ∈ rest, op' ∈ s'.prog th := by
  cases hsh : op.isCar with
  | false => exact Or.inl (carFree_rest_of_head hp hsh)
  | true =>
    right
    cases op <;> simp only [MOp.isCar] at hsh <;> (try contradiction) <;> simp only [microStep] at hs
    all_goals (try (split at hs))
    all_goals (try (split at hs))
    all_goals (try (simp at hs))
    all_goals (try (obtain ⟨rfl, -⟩ := hs))
    all_goals (intro op' ho)
    all_goals (simp only [setProg_prog, if_true, State.setProg, upd, List.mem_append, List.mem_cons])
    all_goals (first | exact ho | exact Or.inr ho)

set_option maxHeartbeats 2000000 in
theorem microStep_conserve {s s' : State} {th : Th} {ch ch2 : Nat} {op : MOp} {rest : List MOp} {o : Out}
    (hpk : PendOk (s.ctx th.ctx)) (hp : carPrefix (op :: rest))
    (hs : microStep s th ch ch2 op rest = some (s', o)) : Conserve s s' th op rest := by
  by_cases hrep : ∃ id ok, op = .handleReply id ok
  · obtain ⟨id, ok, rfl⟩ := hrep
    simp only [microStep] at hs
    split at hs
    · simp at hs
    · rename_i cs' more o' heq
      simp only [Option.some.injEq, Prod.mk.injEq] at hs
      obtain ⟨rfl, -⟩ := hs
      obtain ⟨hq, hfresh, hhead⟩ := handleReplyStep_conserve hpk heq
      constructor
      · intro id' h'
        simp only [setProg_ctx, setCtx_ctx, if_true] at h'
        rcases hfresh id' h' with h1 | ⟨op', h1, h2⟩
        · exact Or.inl h1
        · exact Or.inr ⟨op', by simp [List.mem_append, h1], h2⟩
      · intro id' hc h'
        simp only [MOp.carries, beq_iff_eq] at hc
        subst hc
        simp only [setProg_ctx, setCtx_ctx, if_true] at h'
        obtain ⟨op', h1, h2⟩ := hhead h'
        exact Or.inl ⟨op', by simp [List.mem_append, h1], h2⟩
      · right; intro op' ho; simp [List.mem_append, ho]
      · intro cb hcb; simp only [setProg_ctx, setCtx_ctx, if_true, hq]; exact hcb
      · intro cn cli id' hid; left; exact hid
  · have hnr : ∀ id ok, op ≠ .handleReply id ok := fun id ok e => hrep ⟨id, ok, e⟩
    exact ⟨microStep_fresh hnr hs, fun id hc _ => microStep_head hnr hs id hc, microStep_rest hp hs,
           microStep_loopQ hs, microStep_pend hs⟩

theorem carrierInv_micro {s s' : State} {th : Th} {ch ch2 : Nat} {op : MOp} {rest : List MOp} {o : Out}
    (h : CarrierInv s) (hpk : PendOk (s.ctx th.ctx)) (hown : OwnInv s) (hcp : carPrefix (op :: rest))
    (hprog : s.prog th = op :: rest) (hs : microStep s th ch ch2 op rest = some (s', o)) : CarrierInv s' := by
  have hf := microStep_frame hs
  have hcons := microStep_conserve hpk hcp hs
  have howner := microStep_owner hs
  intro c id hal hid
  by_cases hc : c = th.ctx
  · subst hc
    rcases hcons.fresh id hid with hold | hnew
    · -- an old request: move its carrier along
      rcases h th.ctx id (by rw [← hf.alive]; exact hal) hold with ⟨th', hc', op', ho', hcar⟩ | ⟨cb, hcb, hcar⟩ | ⟨cn, cli, h1, h2, h3⟩
      · by_cases e : th' = th
        · subst e
          rw [hprog] at ho'
          rcases List.mem_cons.1 ho' with rfl | hor
          · rcases hcons.head id hcar hid with h1 | h1
            · exact Or.inl ⟨th', rfl, h1⟩
            · exact Or.inr (Or.inl h1)
          · rcases hcons.rest with hfree | hkeep
            · have := hfree op' hor
              rw [MOp.isCar_of_carries hcar] at this; simp at this
            · exact Or.inl ⟨th', rfl, op', hkeep op' hor, hcar⟩
        · exact Or.inl ⟨th', hc', op', by rw [hf.prog_other th' e]; exact ho', hcar⟩
      · exact Or.inr (Or.inl ⟨cb, hcons.loopQ cb hcb, hcar⟩)
      · rcases hcons.pend cn cli id h3 with h4 | ⟨-, h4⟩
        · exact Or.inr (Or.inr ⟨cn, cli, by rw [hf.nextConn]; exact h1, by rw [howner]; exact h2, h4⟩)
        · exact Or.inl ⟨th, rfl, _, h4, by simp [MOp.carries]⟩
    · exact Or.inl ⟨th, rfl, hnew⟩
  · rw [hf.ctx_other c hc] at hal hid
    rcases h c id hal hid with ⟨th', hc', op', ho', hcar⟩ | ⟨cb, hcb, hcar⟩ | ⟨cn, cli, h1, h2, h3⟩
    · have e : th' ≠ th := fun e => hc (e ▸ hc'.symm)
      exact Or.inl ⟨th', hc', op', by rw [hf.prog_other th' e]; exact ho', hcar⟩
    · exact Or.inr (Or.inl ⟨cb, by rw [hf.ctx_other c hc]; exact hcb, hcar⟩)
    · rcases hcons.pend cn cli id h3 with h4 | ⟨h5, -⟩
      · exact Or.inr (Or.inr ⟨cn, cli, by rw [hf.nextConn]; exact h1, by rw [howner]; exact h2, h4⟩)
      · -- a `closeConn` of this end can only be run by its owner
        subst h5
        have := (hown.close th cn cli (by rw [hprog]; exact List.mem_cons_self)).2
        rw [h2] at this
        exact absurd this hc


theorem smSendStep_pend {s s1 : State} {c : Ctx} {d : Peer} {m : Msg} {ok : Bool} {pr : List MOp}
    (h : smSendStep s c d m ok = some (s1, pr)) :
    (∀ cn cli id, id ∈ ((s.conn cn).half cli).pend → id ∈ ((s1.conn cn).half cli).pend) ∧
    (∀ id, m.isReq id = true → MOp.handleReply id false ∈ pr ∨
        ∃ cn, (s.ctx c).peers d = some cn ∧ id ∈ ((s1.conn cn).half d.isName).pend) := by
  unfold smSendStep at h
  dsimp only at h
  split at h
  · simp only [Option.some.injEq, Prod.mk.injEq] at h
    obtain ⟨rfl, rfl⟩ := h
    refine ⟨fun _ _ _ h => h, fun id hm => Or.inl ?_⟩
    cases m <;> simp only [Msg.isReq] at hm <;> (try contradiction)
    simp only [beq_iff_eq] at hm; subst hm; simp [onSendFail]
  · rename_i cn hcn
    split at h
    · simp only [Option.some.injEq, Prod.mk.injEq] at h
      obtain ⟨rfl, rfl⟩ := h
      have key : ∀ cli' id, id ∈ ((s.conn cn).half cli').pend ∨ (cli' = d.isName ∧ m.reqId? = some id) →
          id ∈ (((upd s.conn cn (if ((s.conn cn).half (!d.isName)).isOpen = true then
                  (((s.conn cn).setHalf d.isName (match m.reqId? with
                      | some id => { ((s.conn cn).half d.isName) with pend := ((s.conn cn).half d.isName).pend ++ [id] }
                      | none => (s.conn cn).half d.isName))).setHalf (!d.isName)
                    { ((((s.conn cn).setHalf d.isName (match m.reqId? with
                      | some id => { ((s.conn cn).half d.isName) with pend := ((s.conn cn).half d.isName).pend ++ [id] }
                      | none => (s.conn cn).half d.isName))).half (!d.isName)) with
                      inbox := ((((s.conn cn).setHalf d.isName (match m.reqId? with
                      | some id => { ((s.conn cn).half d.isName) with pend := ((s.conn cn).half d.isName).pend ++ [id] }
                      | none => (s.conn cn).half d.isName))).half (!d.isName)).inbox ++ [m] }
                else ((s.conn cn).setHalf d.isName (match m.reqId? with
                      | some id => { ((s.conn cn).half d.isName) with pend := ((s.conn cn).half d.isName).pend ++ [id] }
                      | none => (s.conn cn).half d.isName)))) cn).half cli').pend := by
        intro cli' id hh
        simp only [upd, if_true]
        cases hd : d.isName <;> cases cli' <;> (split <;> (try split) <;> simp_all [Conn.half, Conn.setHalf]) <;>
          (first | (rcases hh with h1 | h1 <;> simp [h1]) | skip)
      refine ⟨fun cn' cli' id hid => ?_, fun id hm => Or.inr ⟨cn, hcn, ?_⟩⟩
      · by_cases e : cn' = cn
        · subst e; exact key cli' id (Or.inl hid)
        · simp only [upd, e, if_false]; exact hid
      · refine key d.isName id (Or.inr ⟨rfl, ?_⟩)
        cases m <;> simp_all [Msg.isReq, Msg.reqId?]
    · split at h
      · simp at h
      · simp only [Option.some.injEq, Prod.mk.injEq] at h
        obtain ⟨rfl, rfl⟩ := h
        refine ⟨fun _ _ _ h => h, fun id hm => Or.inl ?_⟩
        cases m <;> simp only [Msg.isReq] at hm <;> (try contradiction)
        simp only [beq_iff_eq] at hm; subst hm; simp [onSendFail]


theorem Carrier.mono {s s' : State} {c : Ctx} {id : ReqId} (h : Carrier s c id)
    (hp : ∀ th, th.ctx = c → ∀ op ∈ s.prog th, op.carries id = true → ∃ op' ∈ s'.prog th, op'.carries id = true)
    (hq : ∀ cb ∈ (s.ctx c).loopQ, cb.carries id = true → cb ∈ (s'.ctx c).loopQ)
    (hk : ∀ cn cli, cn < s.nextConn → ((s.conn cn).half cli).owner = c → id ∈ ((s.conn cn).half cli).pend →
            cn < s'.nextConn ∧ ((s'.conn cn).half cli).owner = c ∧ id ∈ ((s'.conn cn).half cli).pend) :
    Carrier s' c id := by
  rcases h with ⟨th, hc, op, ho, hcar⟩ | ⟨cb, hcb, hcar⟩ | ⟨cn, cli, h1, h2, h3⟩
  · exact Or.inl ⟨th, hc, hp th hc op ho hcar⟩
  · exact Or.inr (Or.inl ⟨cb, hq cb hcb hcar, hcar⟩)
  · exact Or.inr (Or.inr ⟨cn, cli, hk cn cli h1 h2 h3⟩)

theorem carrierInv_nonmicro {s s' : State} {a : Act} {o : Out} (h : CarrierInv s) (hown : OwnInv s)
    (ha : ∀ th ch ch2, a ≠ .micro th ch ch2) (hs : step s a = some (s', o)) : CarrierInv s' := by
  have htab := step_nonmicro_tables ha hs
  intro c id hal hid
  rw [(htab c).byId] at hid
  cases a with
  | micro th ch ch2 => exact absurd rfl (ha th ch ch2)
  | begin c0 t op =>
    simp only [step] at hs
    split at hs
    · rename_i hc
      cases op <;> simp at hs <;> obtain ⟨rfl, -⟩ := hs <;>
        (refine (h c id hal hid).mono (fun th _ op' ho hcar => ?_) (fun cb hcb _ => hcb) (fun cn cli h1 h2 h3 => ⟨h1, h2, h3⟩)
         simp only [setProg_prog, State.setProg, upd]
         split
         · rename_i e; subst e; rw [hc.2] at ho; simp at ho
         · exact ⟨op', ho, hcar⟩)
    · simp at hs
  | cb c0 ok =>
    simp only [step] at hs
    split at hs
    · rename_i hc
      split at hs
      · simp at hs
      · rename_i d m q hq
        split at hs
        · simp at hs
        · rename_i s1 pr heq
          obtain ⟨hcx, hpx, -, hnc, -, -⟩ := smSendStep_frame heq
          have hown1 := smSendStep_owner heq
          obtain ⟨hpend, hcarry⟩ := smSendStep_pend heq
          simp only [Option.some.injEq, Prod.mk.injEq] at hs
          obtain ⟨rfl, -⟩ := hs
          have hal0 : (s.ctx c).alive = true := by
            simp only [setProg_ctx, hcx, setCtx_ctx] at hal
            split at hal
            · rename_i e; subst e; exact hal
            · exact hal
          -- the head callback may be the carrier
          by_cases hhead : c = c0 ∧ m.isReq id = true
          · obtain ⟨rfl, hm⟩ := hhead
            rcases hcarry id hm with h1 | ⟨cn, h1, h2⟩
            · exact Or.inl ⟨.sock c, rfl, _, by simp only [setProg_prog, if_true]; exact h1, by simp [MOp.carries]⟩
            · simp only [setCtx_ctx, if_true] at h1
              have := hown.peers c d cn h1
              exact Or.inr (Or.inr ⟨cn, d.isName, by simp [hnc]; exact this.1, by simp [hown1]; exact this.2, by simpa using h2⟩)
          · refine (h c id hal0 hid).mono (fun th hth op' ho hcar => ?_) (fun cb hcb hcar => ?_) (fun cn cli h1 h2 h3 => ?_)
            · simp only [setProg_prog, hpx, setCtx_prog]
              split
              · rename_i e; subst e; rw [hc.2] at ho; simp at ho
              · exact ⟨op', ho, hcar⟩
            · simp only [setProg_ctx, hcx, setCtx_ctx]
              split
              · rename_i e; subst e
                rw [hq] at hcb
                rcases List.mem_cons.1 hcb with rfl | hcb
                · exact absurd ⟨rfl, by simpa [Cb.carries] using hcar⟩ hhead
                · exact hcb
              · exact hcb
            · exact ⟨by simp [hnc]; exact h1, by simp [hown1]; exact h2, by simpa using hpend cn cli id h3⟩
      · rename_i n t q hq
        have hal0 : (s.ctx c).alive = true := by
          split at hs <;>
            (simp at hs; obtain ⟨rfl, -⟩ := hs
             simp only [setProg_ctx, setCtx_ctx] at hal
             split at hal
             · rename_i e; subst e; exact hal
             · exact hal)
        split at hs
        all_goals
          simp at hs; obtain ⟨rfl, -⟩ := hs
          refine (h c id hal0 hid).mono (fun th hth op' ho hcar => ?_) (fun cb hcb hcar => ?_) (fun cn cli h1 h2 h3 => ⟨h1, h2, h3⟩)
          · simp only [setProg_prog, setCtx_prog]
            split
            · rename_i e; subst e; rw [hc.2] at ho; simp at ho
            · exact ⟨op', ho, hcar⟩
          · simp only [setProg_ctx, setCtx_ctx]
            split
            · rename_i e; subst e
              rw [hq] at hcb
              rcases List.mem_cons.1 hcb with rfl | hcb
              · simp [Cb.carries] at hcar
              · exact hcb
            · exact hcb
    · simp at hs
  | arrive cn0 cli0 =>
    simp only [step] at hs
    split at hs
    · rename_i hc
      split at hs
      · simp at hs
      · rename_i m ms hin
        simp only [Option.some.injEq, Prod.mk.injEq] at hs
        obtain ⟨rfl, -⟩ := hs
        have hal0 : (s.ctx c).alive = true := hal
        -- is this the arrival of the reply to `id` on a connection end of `c` that has `id` registered?
        by_cases hrep : ∃ ok, m = .subReply id ok ∧ ((s.conn cn0).half cli0).owner = c
        · obtain ⟨ok, rfl, hc0⟩ := hrep
          refine Or.inl ⟨.sock c, rfl, .handleReply id ok, ?_, by simp [MOp.carries]⟩
          simp only [State.setProg, upd, hc0, if_true, dispatch, List.mem_singleton]
        · refine (h c id hal0 hid).mono (fun th hth op' ho hcar => ?_) (fun cb hcb _ => hcb) (fun cn cli h1 h2 h3 => ?_)
          · simp only [State.setProg, upd]
            split
            · rename_i e; subst e; rw [hc.2.2.1] at ho; simp at ho
            · exact ⟨op', ho, hcar⟩
          · refine ⟨h1, ?_, ?_⟩
            · simp only [State.setProg, upd]
              split
              · rename_i e; subst e
                rw [half_setHalf]
                split
                · rename_i e2; subst e2
                  cases m <;> exact h2
                · exact h2
              · exact h2
            · simp only [State.setProg, upd]
              split
              · rename_i e; subst e
                rw [half_setHalf]
                split
                · rename_i e2; subst e2
                  cases m with
                  | subReply id' ok' =>
                    simp only
                    by_cases e3 : id' = id
                    · subst e3; exact absurd ⟨ok', rfl, h2⟩ hrep
                    · exact (List.mem_erase_of_ne (Ne.symm e3)).2 h3
                  | _ => exact h3
                · exact h3
              · exact h3
    · simp at hs
  | eof cn0 cli0 =>
    simp only [step] at hs
    split at hs
    · rename_i hc
      simp only [Option.some.injEq, Prod.mk.injEq] at hs
      obtain ⟨rfl, -⟩ := hs
      refine (h c id hal hid).mono (fun th hth op' ho hcar => ?_) (fun cb hcb _ => hcb) (fun cn cli h1 h2 h3 => ⟨h1, h2, h3⟩)
      simp only [setProg_prog]
      split
      · rename_i e; subst e; rw [hc.2.2.1] at ho; simp at ho
      · exact ⟨op', ho, hcar⟩
    · simp at hs
  | connect a p =>
    have hso := step_owner hs
    simp only [step] at hs
    split at hs
    · simp only [Option.some.injEq, Prod.mk.injEq] at hs
      obtain ⟨rfl, -⟩ := hs
      have hal0 : (s.ctx c).alive = true := by
        simp only [setCtx_ctx] at hal
        repeat' split at hal
        all_goals (try subst_vars)
        all_goals exact hal
      refine (h c id hal0 hid).mono (fun th _ op' ho hcar => ⟨op', by simpa using ho, hcar⟩) (fun cb hcb _ => ?_) (fun cn cli h1 h2 h3 => ?_)
      · simp only [setCtx_ctx]
        repeat' split
        all_goals (try subst_vars)
        all_goals exact hcb
      · have hne : cn ≠ s.nextConn := Nat.ne_of_lt h1
        exact ⟨Nat.lt_succ_of_lt h1, by simp [upd, hne]; exact h2, by simp [upd, hne]; exact h3⟩
    · simp at hs
  | routerOk c0 =>
    simp only [step] at hs
    split at hs
    · simp only [Option.some.injEq, Prod.mk.injEq] at hs
      obtain ⟨rfl, -⟩ := hs
      exact (h c id hal hid).mono (fun th _ op' ho hcar => ⟨op', ho, hcar⟩) (fun cb hcb _ => hcb) (fun cn cli h1 h2 h3 => ⟨h1, h2, h3⟩)
    · simp at hs
  | stopReq c0 =>
    simp only [step] at hs
    split at hs
    · simp only [Option.some.injEq, Prod.mk.injEq] at hs
      obtain ⟨rfl, -⟩ := hs
      have hal0 : (s.ctx c).alive = true := by
        simp only [setCtx_ctx] at hal
        split at hal
        · rename_i e; subst e; exact hal
        · exact hal
      refine (h c id hal0 hid).mono (fun th _ op' ho hcar => ⟨op', by simpa using ho, hcar⟩) (fun cb hcb _ => ?_) (fun cn cli h1 h2 h3 => ⟨h1, h2, h3⟩)
      simp only [setCtx_ctx]
      split
      · rename_i e; subst e; exact hcb
      · exact hcb
    · simp at hs
  | stop c0 =>
    have hso := step_owner hs
    simp only [step] at hs
    split at hs
    · simp only [Option.some.injEq, Prod.mk.injEq] at hs
      obtain ⟨rfl, -⟩ := hs
      have hne : c ≠ c0 := by
        intro e; subst e
        simp at hal
      have hal0 : (s.ctx c).alive = true := by simpa [hne] using hal
      refine (h c id hal0 hid).mono (fun th _ op' ho hcar => ⟨op', by simpa using ho, hcar⟩) (fun cb hcb _ => by simpa [hne] using hcb) (fun cn cli h1 h2 h3 => ?_)
      refine ⟨h1, (hso.2 cn cli h1).trans h2, ?_⟩
      cases cli <;> simp only [Conn.half] at h3 ⊢ <;> (repeat' split) <;> simp_all
    · simp at hs

theorem carrierInv_reach {s : State} (h : Reach s) : CarrierInv s := by
  induction h with
  | init => intro c id _ hid; simp [State.init, CtxSt.init] at hid
  | step hr hs ih =>
    rename_i s0 s1 a o
    by_cases ha : ∃ th ch ch2, a = .micro th ch ch2
    · obtain ⟨th, ch, ch2, rfl⟩ := ha
      obtain ⟨-, op, rest, hp, hm⟩ := step_micro_inv hs
      exact carrierInv_micro ih (pendInv_reach hr th.ctx) (ownInv_reach hr) (hp ▸ carPrefix_reach hr th) hp hm
    · exact carrierInv_nonmicro ih (ownInv_reach hr) (fun th ch ch2 e => ha ⟨th, ch, ch2, e⟩) hs

end QmiModel.PubSub
